import Netpol.Model.Ingress
import Netpol.Spec.Ingress
import Netpol.Proofs.ConnSet
import Netpol.Proofs.EngineLayer

/-! Helper lemmas for property C10 (ingress-controller lines): the model of the Go ingress
analyzer (`Netpol.Model.Ingress`) against the specification (`Netpol.Spec.Ingress`). The property
statements are in `Netpol.Properties.C10`. Core Lean only.

Layout: generic list and connection-set facts; G `podExposedTCP`; H `accessPorts` (as
`chosen … |>.map access`), the loop body of `peerConnection` (`stepPort`, `peerStep`) and the
designator lemmas `chosen_*`; I the merge by workload name (`groupStep`, `group`, `D`), the
membership lemmas for `services`, `lookupSvc`, `targets`, `Spec.nsTargets`, `contributions`, the
common ground `Reach` / `Targeted` of model and specification, the validity bundle `ValidInput`,
the main theorems on `allowedIngress`, the characterisation of the `foldlM` of `ingressEntries`,
and the link to `EngineLayer.peerConns_spec`. -/
namespace Netpol.IngressLayer
open Netpol Netpol.IngressA Netpol.Spec Netpol.Engine

/-! ### generic list facts -/

theorem find?_congr' {α} {p q : α → Bool} {l : List α} (h : ∀ a ∈ l, p a = q a) :
    l.find? p = l.find? q := by
  induction l with
  | nil => rfl
  | cons a l ih =>
    have ha := h a (List.mem_cons_self ..)
    have ih' := ih (fun b hb => h b (List.mem_cons_of_mem _ hb))
    simp only [List.find?_cons, ha, ih']

/-- when at most one element satisfies `f`, "the first match" and "all matches" coincide -/
theorem find?_toList_eq_filter {α} (f : α → Bool) (l : List α)
    (h : l.Pairwise (fun a b => ¬ (f a = true ∧ f b = true))) :
    (l.find? f).toList = l.filter f := by
  induction l with
  | nil => rfl
  | cons a l ih =>
    rw [List.pairwise_cons] at h
    cases hfa : f a
    · simp only [List.find?_cons, hfa, List.filter_cons]
      exact ih h.2
    · have : l.filter f = [] := by
        rw [List.filter_eq_nil_iff]
        intro b hb hfb
        exact h.1 b hb ⟨hfa, hfb⟩
      simp [hfa, this]

/-! ### connection sets that never become the AllowAll form -/

/-- a set without UDP points is not the AllowAll form -/
theorem allowAll_false_of_no_udp {c : ConnSet} (h : ∀ x, ¬ c.den .UDP x) : c.allowAll = false := by
  cases ha : c.allowAll
  · rfl
  · exact absurd (Or.inl ⟨ha, by decide⟩ : c.den .UDP 1) (h 1)

/-- for a well-formed set that is not the AllowAll form, `Contains` is membership in the
denotation for every integer (no range condition) -/
theorem contains_iff_den {c : ConnSet} (hc : c.WF) (ha : c.allowAll = false) (pr : Proto) (n : Int) :
    c.contains pr n = true ↔ c.den pr n := by
  unfold ConnSet.contains ConnSet.den
  rw [Bool.or_eq_true]
  cases h : c.get pr with
  | none => simp [ha]
  | some ps =>
    simp only [PortSet.contains, Option.some.injEq, exists_eq_left']
    rw [CSet.contains_iff _ _ (hc.entry h).canon]
    simp [ha]

/-- the port set `{n}` -/
theorem mem_single (n x : Int) :
    CSet.memL ((PortSet.mk' false).addPortRange n n).ports x ↔ x = n := by
  rw [PortSet.mem_addPortRange]
  simp only [PortSet.mk'_false, CSet.memL_nil, or_false]
  omega

theorem single_not_empty (n : Int) : ((PortSet.mk' false).addPortRange n n).isEmpty = false := by
  rw [PortSet.isEmpty_eq_false_iff]
  left
  exact CSet.ne_nil_of_memL ((mem_single n n).mpr rfl)

/-! ### connection sets without named ports -/

/-- no entry holds a named port -/
def NoNames (c : ConnSet) : Prop := ∀ pr ps, c.get pr = some ps → ps.named = []

theorem noNames_mk (b : Bool) : NoNames (ConnSet.mk' b) := by
  intro pr ps h; simp at h

theorem noNames_checkIfAll {c : ConnSet} (h : NoNames c) : NoNames c.checkIfAll := by
  unfold ConnSet.checkIfAll
  split
  · exact noNames_mk true
  · exact h

theorem named_union {p o : PortSet} (ho : o.named = []) : (p.union o).named = p.named := by
  simp [PortSet.union, ho]

theorem noNames_addConnection {c : ConnSet} (hc : NoNames c) (pr : Proto) {ps : PortSet}
    (hps : ps.named = []) : NoNames (c.addConnection pr ps) := by
  cases ha : c.allowAll
  case true => rw [ConnSet.addConnection_of_allowAll ha]; exact hc
  rw [ConnSet.addConnection_of_not_allowAll ha]
  apply noNames_checkIfAll
  unfold ConnSet.addConnectionRaw
  split
  · exact hc
  · split
    · rename_i cur hcur
      intro pr' ps' hg
      rw [ConnSet.get_set] at hg
      split at hg
      · cases hg
        rw [named_union hps]
        exact hc _ _ hcur
      · exact hc _ _ hg
    · intro pr' ps' hg
      rw [ConnSet.get_set] at hg
      split at hg
      · cases hg
        exact hps
      · exact hc _ _ hg

theorem noNames_union {c o : ConnSet} (hc : NoNames c) (ho : NoNames o) : NoNames (c.union o) := by
  unfold ConnSet.union
  split
  · exact hc
  · split
    · exact noNames_mk true
    · apply noNames_checkIfAll
      intro pr ps hg
      rw [ConnSet.get_mapProtos] at hg
      split at hg
      · rename_i ports op h1 h2
        cases hg
        rw [named_union (ho _ _ h2)]
        exact hc _ _ h1
      · rename_i ports h1 h2
        cases hg
        exact hc _ _ h1
      · rename_i op h1 h2
        cases hg
        exact ho _ _ h2
      · cases hg

theorem noNames_inter {c : ConnSet} (hc : NoNames c) (ha : c.allowAll = false) (o : ConnSet) :
    NoNames (c.inter o) := by
  unfold ConnSet.inter
  split
  · exact hc
  · simp only [ha, Bool.false_eq_true, if_false]
    intro pr ps hg
    rw [ConnSet.get_mapProtos] at hg
    split at hg
    · cases hg
    · rename_i ports h3
      split at hg
      · cases hg
      · rename_i op h4
        split at hg
        · cases hg
        · cases hg
          exact hc pr ports h3

/-- for a set without named ports, empty means no points -/
theorem isEmpty_iff_no_points {c : ConnSet} (hc : c.WF) (hn : NoNames c) :
    c.isEmpty = true ↔ ∀ pr p, ¬ c.den pr p := by
  rw [ConnSet.isEmpty_iff hc]
  constructor
  · exact fun h => h.1
  · intro h
    refine ⟨h, ?_⟩
    intro pr
    cases hg : c.get pr with
    | none => exact ConnSet.names_of_get_none hg
    | some ps => rw [ConnSet.names_of_get hg]; exact hn _ _ hg

/-- invariant of the two TCP-only folds: well-formed, only TCP points, no named ports -/
structure TcpOnly (c : ConnSet) : Prop where
  wf : c.WF
  noUDP : ∀ x, ¬ c.den .UDP x
  noSCTP : ∀ x, ¬ c.den .SCTP x
  noNames : NoNames c

theorem TcpOnly.allowAll {c : ConnSet} (h : TcpOnly c) : c.allowAll = false :=
  allowAll_false_of_no_udp h.noUDP

theorem tcpOnly_mk : TcpOnly (ConnSet.mk' false) :=
  ⟨ConnSet.wf_mk false, ConnSet.den_mk_none _, ConnSet.den_mk_none _, noNames_mk false⟩

theorem tcpOnly_add {c : ConnSet} (h : TcpOnly c) {n : Int} (hn : inRange n) :
    TcpOnly (c.addConnection .TCP ((PortSet.mk' false).addPortRange n n)) := by
  refine ⟨?_, ?_, ?_, noNames_addConnection h.noNames .TCP rfl⟩
  · exact ConnSet.wf_addConnection .TCP h.wf
      (PortSet.wf_addPortRange (PortSet.wf_mk' false) hn.1 hn.2)
  · intro x
    rw [ConnSet.den_addConnection_exact]
    rintro (hx | ⟨_, hx, _⟩)
    · exact h.noUDP x hx
    · cases hx
  · intro x
    rw [ConnSet.den_addConnection_exact]
    rintro (hx | ⟨_, hx, _⟩)
    · exact h.noSCTP x hx
    · cases hx

/-- `hn`: on the AllowAll form nothing is added -/
theorem den_add (c : ConnSet) {n : Int} (hn : inRange n) (x : Int) :
    (c.addConnection .TCP ((PortSet.mk' false).addPortRange n n)).den .TCP x ↔
      c.den .TCP x ∨ x = n := by
  rw [ConnSet.den_addConnection _ _ (PortSet.wf_addPortRange (PortSet.wf_mk' false) hn.1 hn.2),
    mem_single]
  simp

/-- the same for a receiver that is not the AllowAll form, whatever `n` -/
theorem den_add_of_not_allowAll {c : ConnSet} (hc : c.allowAll = false) (n x : Int) :
    (c.addConnection .TCP ((PortSet.mk' false).addPortRange n n)).den .TCP x ↔
      c.den .TCP x ∨ x = n := by
  rw [ConnSet.den_addConnection_exact, mem_single]
  simp [hc]

/-- adding a TCP entry leaves UDP as it is -/
theorem den_add_udp (c : ConnSet) (ps : PortSet) (x : Int) :
    (c.addConnection .TCP ps).den .UDP x ↔ c.den .UDP x := by
  rw [ConnSet.den_addConnection_exact]
  simp

/-! ### G. `podExposedTCP` -/

/-- container ports are legal port numbers -/
def ValidPod (p : Pod) : Prop := ∀ c ∈ p.ports, inRange c.port

instance (p : Pod) : Decidable (ValidPod p) := by unfold ValidPod; infer_instance

/-- the step function of `podExposedTCP` -/
def exposeStep (res : ConnSet) (c : CPort) : ConnSet :=
  if c.proto == .TCP then res.addConnection .TCP ((PortSet.mk' false).addPortRange c.port c.port)
  else res

theorem podExposedTCP_eq (p : Pod) : podExposedTCP p = p.ports.foldl exposeStep (ConnSet.mk' false) :=
  rfl

/-- `hacc`: the accumulator holds no UDP port, so it never is the AllowAll form (on which
`AddConnection` adds nothing); no validity hypothesis on the container ports is needed -/
theorem den_foldl_expose (ports : List CPort) (acc : ConnSet) (hacc : ∀ y, ¬ acc.den .UDP y)
    (x : Int) :
    (ports.foldl exposeStep acc).den .TCP x ↔
      acc.den .TCP x ∨ ∃ c ∈ ports, c.proto = .TCP ∧ c.port = x := by
  induction ports generalizing acc with
  | nil => simp
  | cons c cs ih =>
    have hstep : ∀ y, ¬ (exposeStep acc c).den .UDP y := by
      intro y
      unfold exposeStep
      split
      · rw [den_add_udp]; exact hacc y
      · exact hacc y
    rw [List.foldl_cons, ih _ hstep]
    unfold exposeStep
    by_cases hc : c.proto = .TCP
    · simp only [hc, beq_self_eq_true, if_true,
        den_add_of_not_allowAll (allowAll_false_of_no_udp hacc), List.mem_cons, exists_eq_or_imp,
        true_and]
      constructor
      · rintro ((h | h) | h)
        · exact Or.inl h
        · exact Or.inr (Or.inl h.symm)
        · exact Or.inr (Or.inr h)
      · rintro (h | h | h)
        · exact Or.inl (Or.inl h)
        · exact Or.inl (Or.inr h.symm)
        · exact Or.inr h
    · have : (c.proto == Proto.TCP) = false := by simpa using hc
      simp [this, hc]

theorem tcpOnly_foldl_expose (ports : List CPort) (acc : ConnSet) (hacc : TcpOnly acc)
    (hv : ∀ c ∈ ports, inRange c.port) : TcpOnly (ports.foldl exposeStep acc) := by
  induction ports generalizing acc with
  | nil => exact hacc
  | cons c cs ih =>
    rw [List.foldl_cons]
    apply ih _ _ (fun d hd => hv d (List.mem_cons_of_mem _ hd))
    unfold exposeStep
    split
    · exact tcpOnly_add hacc (hv c (List.mem_cons_self ..))
    · exact hacc

theorem podExposedTCP_den (p : Pod) (x : Int) :
    (podExposedTCP p).den .TCP x ↔ ∃ c ∈ p.ports, c.proto = .TCP ∧ c.port = x := by
  rw [podExposedTCP_eq, den_foldl_expose _ _ (ConnSet.den_mk_none _)]
  simp [ConnSet.den_mk_none]

theorem podExposedTCP_tcpOnly {p : Pod} (hp : ValidPod p) : TcpOnly (podExposedTCP p) :=
  tcpOnly_foldl_expose _ _ tcpOnly_mk hp

/-! ### H. `accessPorts` and `peerConnection` -/

/-- `access` of `getPeerAccessPort`: the targetPort unless it is the zero value, else the port -/
def access (sp : SvcPort) : IOS :=
  if !(SvcPort.target sp).isZero then SvcPort.target sp else { intVal := sp.port }

/-- the match condition of `getPeerAccessPort` -/
def reqMatch (req : IOS) (byT : Bool) (p : SvcPort) : Bool :=
  (p.name != "" && p.name == req.strVal) || p.port == req.intVal ||
    (byT && SvcPort.target p == req)

/-- the service ports `getPeerAccessPort` selects -/
def chosen (sps : List SvcPort) (req : IOS) (byT : Bool) : List SvcPort :=
  if req.isZero then sps else (sps.find? (reqMatch req byT)).toList

theorem accessPorts_eq (sps : List SvcPort) (req : IOS) (byT : Bool) :
    accessPorts sps req byT = (chosen sps req byT).map access := by
  unfold accessPorts chosen
  split
  · rfl
  · show (match sps.find? (reqMatch req byT) with | some p => [access p] | none => []) = _
    cases sps.find? (reqMatch req byT) <;> rfl

/-- the port number `getIngressPeerConnection` derives from an access port -/
def stepPort (pod : Pod) (ap : IOS) : Option Int :=
  if ap.strVal != "" then
    match pod.convertNamedPort ap.strVal with
    | some (pr, n) => if pr != .TCP || n < 0 then none else some n
    | none => none
  else some ap.intVal

/-- the loop body of `getIngressPeerConnection` -/
def peerStep (pod : Pod) (res : ConnSet) (ap : IOS) : ConnSet :=
  match stepPort pod ap with
  | none => res
  | some n =>
    if (podExposedTCP pod).contains .TCP n then
      res.addConnection .TCP ((PortSet.mk' false).addPort (.num n))
    else res

theorem peerConnection_eq (pod : Pod) (sps : List SvcPort) (req : IOS) (byT : Bool) :
    peerConnection pod sps req byT =
      (accessPorts sps req byT).foldl (peerStep pod) (ConnSet.mk' false) := rfl

/-- `x` is a TCP container port of the pod -/
def exposed (p : Pod) (x : Int) : Prop := ∃ c ∈ p.ports, c.proto = .TCP ∧ c.port = x

theorem contains_exposed {p : Pod} (hp : ValidPod p) (n : Int) :
    (podExposedTCP p).contains .TCP n = true ↔ exposed p n := by
  have h := podExposedTCP_tcpOnly hp
  rw [contains_iff_den h.wf h.allowAll, podExposedTCP_den]
  rfl

theorem exposed_inRange {p : Pod} (hp : ValidPod p) {n : Int} (h : exposed p n) : inRange n := by
  obtain ⟨c, hc, _, rfl⟩ := h
  exact hp c hc

theorem den_peerStep {p : Pod} (hp : ValidPod p) (res : ConnSet) (ap : IOS) (x : Int) :
    (peerStep p res ap).den .TCP x ↔ res.den .TCP x ∨ (stepPort p ap = some x ∧ exposed p x) := by
  unfold peerStep
  cases h : stepPort p ap with
  | none => simp
  | some n =>
    simp only [Option.some.injEq]
    split
    · rename_i hc
      rw [contains_exposed hp] at hc
      show (res.addConnection .TCP ((PortSet.mk' false).addPortRange n n)).den .TCP x ↔ _
      rw [den_add _ (exposed_inRange hp hc)]
      constructor
      · rintro (h1 | rfl)
        · exact Or.inl h1
        · exact Or.inr ⟨rfl, hc⟩
      · rintro (h1 | ⟨rfl, _⟩)
        · exact Or.inl h1
        · exact Or.inr rfl
    · rename_i hc
      rw [contains_exposed hp] at hc
      constructor
      · exact Or.inl
      · rintro (h1 | ⟨rfl, h2⟩)
        · exact h1
        · exact absurd h2 hc

theorem tcpOnly_peerStep {p : Pod} (hp : ValidPod p) {res : ConnSet} (hr : TcpOnly res) (ap : IOS) :
    TcpOnly (peerStep p res ap) := by
  unfold peerStep
  cases stepPort p ap with
  | none => exact hr
  | some n =>
    simp only
    split
    · rename_i hc
      rw [contains_exposed hp] at hc
      exact tcpOnly_add hr (exposed_inRange hp hc)
    · exact hr

theorem den_foldl_peerStep {p : Pod} (hp : ValidPod p) (aps : List IOS) (acc : ConnSet) (x : Int) :
    (aps.foldl (peerStep p) acc).den .TCP x ↔
      acc.den .TCP x ∨ ∃ ap ∈ aps, stepPort p ap = some x ∧ exposed p x := by
  induction aps generalizing acc with
  | nil => simp
  | cons a as ih =>
    rw [List.foldl_cons, ih, den_peerStep hp]
    simp only [List.mem_cons, exists_eq_or_imp, or_assoc]

theorem tcpOnly_foldl_peerStep {p : Pod} (hp : ValidPod p) (aps : List IOS) {acc : ConnSet}
    (hacc : TcpOnly acc) : TcpOnly (aps.foldl (peerStep p) acc) := by
  induction aps generalizing acc with
  | nil => exact hacc
  | cons a as ih =>
    rw [List.foldl_cons]
    exact ih (tcpOnly_peerStep hp hacc a)

theorem peerConnection_tcpOnly {p : Pod} (hp : ValidPod p) (sps : List SvcPort) (req : IOS)
    (byT : Bool) : TcpOnly (peerConnection p sps req byT) := by
  rw [peerConnection_eq]
  exact tcpOnly_foldl_peerStep hp _ tcpOnly_mk

theorem peerConnection_den_chosen {p : Pod} (hp : ValidPod p) (sps : List SvcPort) (req : IOS)
    (byT : Bool) (x : Int) :
    (peerConnection p sps req byT).den .TCP x ↔
      ∃ sp ∈ chosen sps req byT, stepPort p (access sp) = some x ∧ exposed p x := by
  rw [peerConnection_eq, den_foldl_peerStep hp, accessPorts_eq]
  simp only [ConnSet.den_mk_none, false_or, List.mem_map]
  constructor
  · rintro ⟨_, ⟨sp, hsp, rfl⟩, h⟩
    exact ⟨sp, hsp, h⟩
  · rintro ⟨sp, hsp, h⟩
    exact ⟨_, ⟨sp, hsp, rfl⟩, h⟩

theorem tcpPorts_contains (p : Pod) (n : Int) :
    ((p.ports.filter (·.proto == .TCP)).map (·.port)).contains n = true ↔ exposed p n := by
  rw [List.contains_iff_mem]
  simp only [exposed, List.mem_map, List.mem_filter, beq_iff_eq]
  constructor
  · rintro ⟨c, ⟨h1, h2⟩, h3⟩; exact ⟨c, h1, h2, h3⟩
  · rintro ⟨c, h1, h2, h3⟩; exact ⟨c, ⟨h1, h2⟩, h3⟩

theorem access_num {sp : SvcPort} {n : Int} (h : sp.targetNum = some n) (hn : n ≠ 0) :
    access sp = { intVal := n } := by
  simp [access, SvcPort.target, IOS.isZero, h, hn]

theorem access_num_zero {sp : SvcPort} (h : sp.targetNum = some 0) :
    access sp = { intVal := sp.port } := by
  simp [access, SvcPort.target, IOS.isZero, h]

theorem access_name {sp : SvcPort} {s : String} (h : sp.targetNum = none)
    (h' : sp.targetName = some s) (hs : s ≠ "") : access sp = { strVal := s, isStr := true } := by
  simp [access, SvcPort.target, IOS.isZero, h, h', hs]

theorem access_none {sp : SvcPort} (h : sp.targetNum = none) (h' : sp.targetName = none) :
    access sp = { intVal := sp.port } := by
  simp [access, SvcPort.target, IOS.isZero, h, h']

theorem stepPort_num (p : Pod) (n : Int) : stepPort p { intVal := n } = some n := by
  simp [stepPort]

theorem stepPort_name (p : Pod) {s : String} (hs : s ≠ "") :
    stepPort p { strVal := s, isStr := true } =
      match p.ports.find? (·.name == s) with
      | some c => if c.proto != .TCP || c.port < 0 then none else some c.port
      | none => none := by
  simp only [stepPort, Pod.convertNamedPort, bne_iff_ne, ne_eq, hs, not_false_eq_true, if_true]
  cases p.ports.find? (·.name == s) <;> rfl

/-- a named targetPort is not the empty string -/
def ValidTarget (sp : SvcPort) : Prop := sp.targetNum = none → sp.targetName ≠ some ""

instance (sp : SvcPort) : Decidable (ValidTarget sp) := by unfold ValidTarget; infer_instance

theorem guard_iff {P : Prop} [Decidable P] (n x : Int) :
    ((if P then some n else none) = some x) ↔ (n = x ∧ P) := by
  split <;> simp [*]

theorem peerConnection_step {p : Pod} (hp : ValidPod p) {sp : SvcPort} (hs : ValidTarget sp)
    (x : Int) :
    (stepPort p (access sp) = some x ∧ exposed p x) ↔ Spec.reachedPort p sp = some x := by
  unfold Spec.reachedPort
  cases htn : sp.targetNum with
  | some n =>
    simp only
    by_cases hn : n = 0
    · subst hn
      rw [access_num_zero htn, stepPort_num]
      simp only [bne_self_eq_false, Bool.false_eq_true, if_false, guard_iff, tcpPorts_contains,
        Option.some.injEq]
      constructor
      · rintro ⟨rfl, h⟩; exact ⟨rfl, h⟩
      · rintro ⟨rfl, h⟩; exact ⟨rfl, h⟩
    · rw [access_num htn hn, stepPort_num]
      have : (n != 0) = true := by simpa using hn
      simp only [this, if_true, guard_iff, tcpPorts_contains, Option.some.injEq]
      constructor
      · rintro ⟨rfl, h⟩; exact ⟨rfl, h⟩
      · rintro ⟨rfl, h⟩; exact ⟨rfl, h⟩
  | none =>
    cases htm : sp.targetName with
    | none =>
      simp only
      rw [access_none htn htm, stepPort_num]
      simp only [guard_iff, tcpPorts_contains, Option.some.injEq]
      constructor
      · rintro ⟨rfl, h⟩; exact ⟨rfl, h⟩
      · rintro ⟨rfl, h⟩; exact ⟨rfl, h⟩
    | some s =>
      simp only
      have hne : s ≠ "" := by
        intro e; subst e; exact hs htn htm
      rw [access_name htn htm hne, stepPort_name p hne]
      cases hf : p.ports.find? (·.name == s) with
      | none => simp
      | some c =>
        simp only
        have hc := List.mem_of_find?_eq_some hf
        have hr := hp c hc
        by_cases hpr : c.proto = .TCP
        · have hex : exposed p c.port := ⟨c, hc, hpr, rfl⟩
          have h1 : ¬ c.port < 0 := by have := hr.1; omega
          simp only [hpr, bne_self_eq_false, Bool.false_or, decide_eq_true_eq, h1, if_false,
            Option.some.injEq, beq_self_eq_true, Bool.true_and, guard_iff, tcpPorts_contains]
          constructor
          · rintro ⟨rfl, h⟩; exact ⟨rfl, h⟩
          · rintro ⟨rfl, h⟩; exact ⟨rfl, h⟩
        · have h1 : (c.proto != Proto.TCP) = true := by simpa using hpr
          have h2 : (c.proto == Proto.TCP) = false := by simpa using hpr
          simp [h1, h2]


theorem reqMatch_num {n : Int} (hn : n ≠ 0) (sp : SvcPort) :
    reqMatch { intVal := n } true sp = (sp.port == n || sp.targetNum == some n) := by
  rw [Bool.eq_iff_iff]
  rcases sp with ⟨name, port, tn, tm, proto⟩
  cases tn <;> cases tm <;>
    simp [reqMatch, SvcPort.target, IOS.mk.injEq, Ne.symm hn]

theorem reqMatch_ingName {s : String} (hs : s ≠ "") (byT : Bool) {sp : SvcPort} (hp : 1 ≤ sp.port) :
    reqMatch { strVal := s } byT sp = (sp.name != "" && sp.name == s) := by
  rw [Bool.eq_iff_iff]
  rcases sp with ⟨name, port, tn, tm, proto⟩
  have : port ≠ 0 := by simp only at hp; omega
  cases tn <;> cases tm <;>
    simp [reqMatch, SvcPort.target, IOS.mk.injEq, Ne.symm hs, this]

theorem reqMatch_routeName {s : String} (hs : s ≠ "") {sp : SvcPort} (hp : 1 ≤ sp.port) :
    reqMatch { strVal := s, isStr := true } true sp =
      ((sp.name != "" && sp.name == s) || (sp.targetNum.isNone && sp.targetName == some s)) := by
  rw [Bool.eq_iff_iff]
  rcases sp with ⟨name, port, tn, tm, proto⟩
  have : port ≠ 0 := by simp only at hp; omega
  cases tn <;> cases tm <;>
    simp [reqMatch, SvcPort.target, IOS.mk.injEq, Ne.symm hs, this]

theorem isZero_num {n : Int} (hn : n ≠ 0) : ({ intVal := n } : IOS).isZero = false := by
  simp [IOS.isZero, hn]

theorem isZero_str {s : String} (hs : s ≠ "") (b : Bool) :
    ({ strVal := s, isStr := b } : IOS).isZero = false := by
  simp [IOS.isZero, hs]

theorem chosen_subset (sps : List SvcPort) (req : IOS) (byT : Bool) :
    ∀ sp ∈ chosen sps req byT, sp ∈ sps := by
  intro sp h
  unfold chosen at h
  split at h
  · exact h
  · cases hf : sps.find? (reqMatch req byT) with
    | none => rw [hf] at h; cases h
    | some a =>
      rw [hf] at h
      simp only [Option.toList_some, List.mem_singleton] at h
      subst h
      exact List.mem_of_find?_eq_some hf

/-- service port names, as far as given, are distinct (Kubernetes requires names on all ports of a
multi-port Service and requires them unique) -/
def UniqueNames (sps : List SvcPort) : Prop := ((sps.map (·.name)).filter (· ≠ "")).Nodup

instance (sps : List SvcPort) : Decidable (UniqueNames sps) := by unfold UniqueNames; infer_instance

theorem pairwise_of_uniqueNames {sps : List SvcPort} (h : UniqueNames sps) :
    sps.Pairwise (fun a b => a.name ≠ "" → a.name ≠ b.name) := by
  unfold UniqueNames at h
  induction sps with
  | nil => exact List.Pairwise.nil
  | cons a l ih =>
    rw [List.pairwise_cons]
    by_cases ha : a.name = ""
    · have : ((a :: l).map (·.name)).filter (· ≠ "") = (l.map (·.name)).filter (· ≠ "") := by
        simp [ha]
      rw [this] at h
      exact ⟨fun _ _ hne => absurd ha hne, ih h⟩
    · have : ((a :: l).map (·.name)).filter (· ≠ "") =
          a.name :: (l.map (·.name)).filter (· ≠ "") := by
        simp [ha]
      rw [this, List.nodup_cons] at h
      refine ⟨?_, ih h.2⟩
      intro b hb _ hab
      apply h.1
      rw [List.mem_filter]
      refine ⟨List.mem_map.mpr ⟨b, hb, hab.symm⟩, ?_⟩
      simpa using ha

/-- Ingress `port.number` `n ≠ 0`: the tool's (lenient) reading -/
theorem chosen_ingress_number {n : Int} (hn : n ≠ 0) (sps : List SvcPort) :
    chosen sps { intVal := n } true = designated (.byNumberLenient n) sps := by
  unfold chosen designated
  rw [isZero_num hn]
  simp only [Bool.false_eq_true, if_false]
  rw [find?_congr' (fun sp _ => reqMatch_num hn sp)]

/-- Route `port.targetPort` number `n ≠ 0` -/
theorem chosen_route_number {n : Int} (hn : n ≠ 0) (sps : List SvcPort) :
    chosen sps { intVal := n } true = designated (.routeNum n) sps := by
  unfold chosen designated
  rw [isZero_num hn]
  simp only [Bool.false_eq_true, if_false]
  rw [find?_congr' (fun sp _ => reqMatch_num hn sp)]

/-- Ingress `port.name` -/
theorem chosen_ingress_name {s : String} (hs : s ≠ "") {sps : List SvcPort} (byT : Bool)
    (hport : ∀ sp ∈ sps, 1 ≤ sp.port) (hu : UniqueNames sps) :
    chosen sps { strVal := s } byT = designated (.byName s) sps := by
  unfold chosen designated
  rw [isZero_str hs false]
  simp only [Bool.false_eq_true, if_false]
  rw [find?_congr' (fun sp h => reqMatch_ingName hs byT (hport sp h))]
  apply find?_toList_eq_filter
  refine (pairwise_of_uniqueNames hu).imp ?_
  intro a b hab
  simp only [Bool.and_eq_true, bne_iff_ne, ne_eq, beq_iff_eq, not_and, and_imp]
  intro ha1 ha2 _ hb2
  exact hab ha1 (ha2.trans hb2.symm)

/-- Route without `port`: every service port -/
theorem chosen_route_all (sps : List SvcPort) (byT : Bool) :
    chosen sps {} byT = designated .all sps := rfl

/-- Route `port.targetPort` name -/
theorem chosen_route_name {s : String} (hs : s ≠ "") {sps : List SvcPort}
    (hport : ∀ sp ∈ sps, 1 ≤ sp.port) :
    chosen sps { strVal := s, isStr := true } true = designated (.routeName s) sps := by
  unfold chosen designated
  rw [isZero_str hs true]
  simp only [Bool.false_eq_true, if_false]
  rw [find?_congr' (fun sp h => reqMatch_routeName hs (hport sp h))]


/-- an Ingress backend names its service port by a non-empty name or by a non-zero number -/
def ValidBackend (b : IngBackend) : Prop :=
  (∃ s, b.portName = some s ∧ s ≠ "") ∨ b.portNum.getD 0 ≠ 0

/-- a Route's `port.targetPort`, when given, is not the zero value (`0` / `""`) -/
def ValidRoute (r : Route) : Prop :=
  r.targetPortNum ≠ some 0 ∧ (r.targetPortNum = none → r.targetPortName ≠ some "")

instance (r : Route) : Decidable (ValidRoute r) := by unfold ValidRoute; infer_instance

/-- validity of the ports of one Service: port numbers ≥ 1, named targetPorts not the empty
string, names distinct -/
structure ValidSvcPorts (sps : List SvcPort) : Prop where
  port : ∀ sp ∈ sps, 1 ≤ sp.port
  target : ∀ sp ∈ sps, ValidTarget sp
  names : UniqueNames sps

/-- the designator of a Route (the `match` inside `Spec.nsTargets`) -/
def routeDesignator (r : Route) : Designator :=
  match r.targetPortNum, r.targetPortName with
  | some n, _ => Designator.routeNum n
  | none, some s => Designator.routeName s
  | none, none => Designator.all

theorem chosen_backend {b : IngBackend} (hb : ValidBackend b) {sps : List SvcPort}
    (hs : ValidSvcPorts sps) :
    chosen sps (backendPort b) true = designated (backendDesignator true b) sps := by
  unfold backendPort backendDesignator
  cases hn : b.portName with
  | none =>
    have h0 : b.portNum.getD 0 ≠ 0 := by
      rcases hb with ⟨s, h, _⟩ | h
      · rw [hn] at h; cases h
      · exact h
    simp only [if_true]
    exact chosen_ingress_number h0 sps
  | some s =>
    by_cases he : s = ""
    · subst he
      have h0 : b.portNum.getD 0 ≠ 0 := by
        rcases hb with ⟨s, h, h'⟩ | h
        · rw [hn] at h; cases h; exact absurd rfl h'
        · exact h
      simp only [bne_self_eq_false, Bool.false_eq_true, if_false, if_true]
      exact chosen_ingress_number h0 sps
    · have : (s != "") = true := by simpa using he
      simp only [this, if_true]
      exact chosen_ingress_name he true hs.port hs.names

theorem chosen_route {r : Route} (hr : ValidRoute r) {sps : List SvcPort}
    (hs : ValidSvcPorts sps) :
    chosen sps (routePort r) true = designated (routeDesignator r) sps := by
  unfold routePort routeDesignator
  cases hn : r.targetPortNum with
  | some n =>
    simp only
    have : n ≠ 0 := by intro e; subst e; exact hr.1 hn
    exact chosen_route_number this sps
  | none =>
    cases hm : r.targetPortName with
    | none => exact chosen_route_all sps true
    | some s =>
      simp only
      have : s ≠ "" := by intro e; subst e; exact hr.2 hn hm
      exact chosen_route_name this hs.port

/-- H: the TCP points of `getIngressPeerConnection` are the ports reached through the chosen
service ports -/
theorem peerConnection_den {p : Pod} (hp : ValidPod p) {sps : List SvcPort}
    (hs : ∀ sp ∈ sps, ValidTarget sp) (req : IOS) (byT : Bool) (x : Int) :
    (peerConnection p sps req byT).den .TCP x ↔
      x ∈ (chosen sps req byT).filterMap (reachedPort p) := by
  rw [peerConnection_den_chosen hp, List.mem_filterMap]
  constructor
  · rintro ⟨sp, h1, h2⟩
    exact ⟨sp, h1, (peerConnection_step hp (hs sp (chosen_subset _ _ _ sp h1)) x).mp h2⟩
  · rintro ⟨sp, h1, h2⟩
    exact ⟨sp, h1, (peerConnection_step hp (hs sp (chosen_subset _ _ _ sp h1)) x).mpr h2⟩


/-! ### I. grouping the contributions by workload -/

abbrev Contrib := String × Pod × ConnSet

/-- the loop body of `AllowedIngressConnections`' merge by peer -/
def groupStep (acc : List Contrib) : Contrib → List Contrib := fun (n, p, c) =>
  if acc.any (·.1 == n) then
    acc.map fun (n', p', c') => if n' == n then (n', p', c'.union c) else (n', p', c')
  else acc ++ [(n, p, c)]

/-- the contributions of all (Ingress/Route, backend, selected peer) triples -/
def contributions (svcs : List (Service × List (String × Pod)))
    (tg : List (String × String × List (String × IOS × Bool))) : List Contrib :=
  tg.flatMap fun (ns, _, l) =>
    if !(svcs.any fun (s, _) => s.ns == ns) then []
    else l.flatMap fun (svcName, req, byT) =>
      match lookupSvc svcs ns svcName with
      | none => []
      | some (s, peers) => peers.map fun (n, p) => (n, p, peerConnection p s.ports req byT)

theorem allowedIngress_eq (objs : List Obj) (owners : List (String × Pod)) :
    allowedIngress objs owners =
      if (services objs owners).isEmpty || (targets objs).isEmpty then none
      else some ((contributions (services objs owners) (targets objs)).foldl groupStep []) := rfl

/-- the points held for workload name `n` in a list of contributions -/
def D (l : List Contrib) (n : String) (pr : Proto) (x : Int) : Prop :=
  ∃ p c, (n, p, c) ∈ l ∧ c.den pr x

theorem mem_groupStep_any {acc : List Contrib} {e : Contrib} (h : acc.any (·.1 == e.1) = true)
    (a : Contrib) :
    a ∈ groupStep acc e ↔
      ∃ b ∈ acc, a = if b.1 == e.1 then (b.1, b.2.1, b.2.2.union e.2.2) else b := by
  obtain ⟨n, p, c⟩ := e
  simp only [groupStep, h, if_true, List.mem_map]
  constructor
  · rintro ⟨⟨n', p', c'⟩, hb, rfl⟩
    exact ⟨_, hb, rfl⟩
  · rintro ⟨⟨n', p', c'⟩, hb, rfl⟩
    exact ⟨_, hb, rfl⟩

theorem mem_groupStep_not_any {acc : List Contrib} {e : Contrib}
    (h : acc.any (·.1 == e.1) = false) (a : Contrib) :
    a ∈ groupStep acc e ↔ a ∈ acc ∨ a = e := by
  obtain ⟨n, p, c⟩ := e
  simp [groupStep, h]

theorem any_name_iff (acc : List Contrib) (n : String) :
    acc.any (·.1 == n) = true ↔ ∃ p c, (n, p, c) ∈ acc := by
  rw [List.any_eq_true]
  constructor
  · rintro ⟨⟨n', p, c⟩, h, hn⟩
    simp only [beq_iff_eq] at hn
    subst hn
    exact ⟨p, c, h⟩
  · rintro ⟨p, c, h⟩
    exact ⟨_, h, by simp⟩

/-- invariant of the merge: every connection set is well-formed -/
def AllWF (l : List Contrib) : Prop := ∀ e ∈ l, e.2.2.WF

theorem allWF_groupStep {acc : List Contrib} {e : Contrib} (ha : AllWF acc) (he : e.2.2.WF) :
    AllWF (groupStep acc e) := by
  intro a hm
  cases h : acc.any (·.1 == e.1)
  · rw [mem_groupStep_not_any h] at hm
    rcases hm with hm | rfl
    · exact ha a hm
    · exact he
  · rw [mem_groupStep_any h] at hm
    obtain ⟨b, hb, rfl⟩ := hm
    split
    · exact ConnSet.wf_union (ha b hb) he
    · exact ha b hb

/-- invariant of the merge: no connection set holds a named port -/
def AllNoNames (l : List Contrib) : Prop := ∀ e ∈ l, NoNames e.2.2

theorem allNoNames_groupStep {acc : List Contrib} {e : Contrib} (ha : AllNoNames acc)
    (he : NoNames e.2.2) : AllNoNames (groupStep acc e) := by
  intro a hm
  cases h : acc.any (·.1 == e.1)
  · rw [mem_groupStep_not_any h] at hm
    rcases hm with hm | rfl
    · exact ha a hm
    · exact he
  · rw [mem_groupStep_any h] at hm
    obtain ⟨b, hb, rfl⟩ := hm
    split
    · exact noNames_union (ha b hb) he
    · exact ha b hb

theorem D_groupStep {acc : List Contrib} {e : Contrib} (ha : AllWF acc) (he : e.2.2.WF)
    (n : String) (pr : Proto) (x : Int) :
    D (groupStep acc e) n pr x ↔ D acc n pr x ∨ (n = e.1 ∧ e.2.2.den pr x) := by
  cases h : acc.any (·.1 == e.1)
  · constructor
    · rintro ⟨p, c, hm, hd⟩
      rw [mem_groupStep_not_any h] at hm
      rcases hm with hm | rfl
      · exact Or.inl ⟨p, c, hm, hd⟩
      · exact Or.inr ⟨rfl, hd⟩
    · rintro (⟨p, c, hm, hd⟩ | ⟨rfl, hd⟩)
      · exact ⟨p, c, (mem_groupStep_not_any h _).mpr (Or.inl hm), hd⟩
      · exact ⟨e.2.1, e.2.2, (mem_groupStep_not_any h _).mpr (Or.inr rfl), hd⟩
  · constructor
    · rintro ⟨p, c, hm, hd⟩
      rw [mem_groupStep_any h] at hm
      obtain ⟨⟨n', p', c'⟩, hb, heq⟩ := hm
      by_cases hn : n' = e.1
      · simp only [hn, beq_self_eq_true, if_true, Prod.mk.injEq] at heq
        obtain ⟨rfl, rfl, rfl⟩ := heq
        subst hn
        rcases (ConnSet.den_union (ha _ hb) he pr x).mp hd with h1 | h1
        · exact Or.inl ⟨_, _, hb, h1⟩
        · exact Or.inr ⟨rfl, h1⟩
      · have : (n' == e.1) = false := by simpa using hn
        simp only [this, Bool.false_eq_true, if_false, Prod.mk.injEq] at heq
        obtain ⟨rfl, rfl, rfl⟩ := heq
        exact Or.inl ⟨_, _, hb, hd⟩
    · rintro (⟨p, c, hm, hd⟩ | ⟨rfl, hd⟩)
      · by_cases hn : n = e.1
        · refine ⟨p, c.union e.2.2, (mem_groupStep_any h _).mpr ⟨_, hm, ?_⟩,
            (ConnSet.den_union (ha _ hm) he pr x).mpr (Or.inl hd)⟩
          simp [hn]
        · refine ⟨p, c, (mem_groupStep_any h _).mpr ⟨_, hm, ?_⟩, hd⟩
          have : (n == e.1) = false := by simpa using hn
          simp [this]
      · obtain ⟨p, c, hm⟩ := (any_name_iff acc _).mp h
        refine ⟨p, c.union e.2.2, (mem_groupStep_any h _).mpr ⟨_, hm, ?_⟩,
          (ConnSet.den_union (ha _ hm) he pr x).mpr (Or.inr hd)⟩
        simp

theorem names_groupStep (acc : List Contrib) (e : Contrib) :
    (groupStep acc e).map (·.1) =
      if acc.any (·.1 == e.1) then acc.map (·.1) else acc.map (·.1) ++ [e.1] := by
  obtain ⟨n, p, c⟩ := e
  simp only [groupStep]
  by_cases h : acc.any (·.1 == n) = true
  · simp only [h, if_true, List.map_map]
    apply List.map_congr_left
    rintro ⟨n', p', c'⟩ _
    simp only [Function.comp]
    split <;> rfl
  · simp [h]

theorem nodup_groupStep {acc : List Contrib} (e : Contrib) (h : (acc.map (·.1)).Nodup) :
    ((groupStep acc e).map (·.1)).Nodup := by
  rw [names_groupStep]
  split
  · exact h
  · rename_i hany
    rw [List.nodup_append]
    refine ⟨h, by simp, ?_⟩
    intro a ha b hb
    rw [List.mem_singleton] at hb
    subst hb
    intro heq
    subst heq
    apply hany
    rw [List.mem_map] at ha
    obtain ⟨⟨n, p, c⟩, hm, rfl⟩ := ha
    exact (any_name_iff acc _).mpr ⟨p, c, hm⟩

/-- the pod recorded for a name comes from the accumulator or from the new contribution -/
theorem pod_groupStep {acc : List Contrib} {e : Contrib} {n : String} {p : Pod} {c : ConnSet}
    (h : (n, p, c) ∈ groupStep acc e) : (∃ c', (n, p, c') ∈ acc) ∨ (n = e.1 ∧ p = e.2.1) := by
  cases hany : acc.any (·.1 == e.1)
  · rw [mem_groupStep_not_any hany] at h
    rcases h with h | rfl
    · exact Or.inl ⟨c, h⟩
    · exact Or.inr ⟨rfl, rfl⟩
  · rw [mem_groupStep_any hany] at h
    obtain ⟨⟨n', p', c'⟩, hb, heq⟩ := h
    left
    split at heq
    · simp only [Prod.mk.injEq] at heq
      obtain ⟨rfl, rfl, _⟩ := heq
      exact ⟨_, hb⟩
    · simp only [Prod.mk.injEq] at heq
      obtain ⟨rfl, rfl, rfl⟩ := heq
      exact ⟨_, hb⟩

theorem mem_names_groupStep (acc : List Contrib) (e : Contrib) (n : String) :
    n ∈ (groupStep acc e).map (·.1) ↔ n ∈ acc.map (·.1) ∨ n = e.1 := by
  rw [names_groupStep]
  split
  · rename_i h
    constructor
    · exact Or.inl
    · rintro (h' | rfl)
      · exact h'
      · obtain ⟨p, c, hm⟩ := (any_name_iff acc _).mp h
        exact List.mem_map.mpr ⟨_, hm, rfl⟩
  · simp

/-- the merged list -/
def group (contribs : List Contrib) (acc : List Contrib) : List Contrib :=
  contribs.foldl groupStep acc

theorem allWF_group (contribs : List Contrib) {acc : List Contrib} (ha : AllWF acc)
    (hc : AllWF contribs) : AllWF (group contribs acc) := by
  unfold group
  induction contribs generalizing acc with
  | nil => exact ha
  | cons e es ih =>
    rw [List.foldl_cons]
    exact ih (allWF_groupStep ha (hc e (List.mem_cons_self ..)))
      (fun a h => hc a (List.mem_cons_of_mem _ h))

theorem allNoNames_group (contribs : List Contrib) {acc : List Contrib} (ha : AllNoNames acc)
    (hc : AllNoNames contribs) : AllNoNames (group contribs acc) := by
  unfold group
  induction contribs generalizing acc with
  | nil => exact ha
  | cons e es ih =>
    rw [List.foldl_cons]
    exact ih (allNoNames_groupStep ha (hc e (List.mem_cons_self ..)))
      (fun a h => hc a (List.mem_cons_of_mem _ h))

theorem nodup_group (contribs : List Contrib) {acc : List Contrib} (h : (acc.map (·.1)).Nodup) :
    ((group contribs acc).map (·.1)).Nodup := by
  unfold group
  induction contribs generalizing acc with
  | nil => exact h
  | cons e es ih =>
    rw [List.foldl_cons]
    exact ih (nodup_groupStep e h)

theorem D_group (contribs : List Contrib) {acc : List Contrib} (ha : AllWF acc)
    (hc : AllWF contribs) (n : String) (pr : Proto) (x : Int) :
    D (group contribs acc) n pr x ↔ D acc n pr x ∨ ∃ e ∈ contribs, e.1 = n ∧ e.2.2.den pr x := by
  unfold group
  induction contribs generalizing acc with
  | nil => simp
  | cons e es ih =>
    have he := hc e (List.mem_cons_self ..)
    rw [List.foldl_cons, ih (allWF_groupStep ha he) (fun a h => hc a (List.mem_cons_of_mem _ h)),
      D_groupStep ha he]
    simp only [List.mem_cons, exists_eq_or_imp, or_assoc]
    constructor
    · rintro (h | ⟨rfl, h⟩ | h)
      · exact Or.inl h
      · exact Or.inr (Or.inl ⟨rfl, h⟩)
      · exact Or.inr (Or.inr h)
    · rintro (h | ⟨rfl, h⟩ | h)
      · exact Or.inl h
      · exact Or.inr (Or.inl ⟨rfl, h⟩)
      · exact Or.inr (Or.inr h)

theorem mem_names_group (contribs : List Contrib) (acc : List Contrib) (n : String) :
    n ∈ (group contribs acc).map (·.1) ↔ n ∈ acc.map (·.1) ∨ n ∈ contribs.map (·.1) := by
  unfold group
  induction contribs generalizing acc with
  | nil => simp
  | cons e es ih =>
    rw [List.foldl_cons, ih, mem_names_groupStep]
    simp only [List.map_cons, List.mem_cons, or_assoc]

theorem pod_group (contribs : List Contrib) {acc : List Contrib} {n : String} {p : Pod}
    {c : ConnSet} (h : (n, p, c) ∈ group contribs acc) :
    (∃ c', (n, p, c') ∈ acc) ∨ ∃ c', (n, p, c') ∈ contribs := by
  unfold group at h
  induction contribs generalizing acc c with
  | nil => exact Or.inl ⟨c, h⟩
  | cons e es ih =>
    rw [List.foldl_cons] at h
    rcases ih h with ⟨c', h'⟩ | ⟨c', h'⟩
    · rcases pod_groupStep h' with ⟨c'', h''⟩ | ⟨rfl, rfl⟩
      · exact Or.inl ⟨c'', h''⟩
      · exact Or.inr ⟨e.2.2, List.mem_cons_self ..⟩
    · exact Or.inr ⟨c', List.mem_cons_of_mem _ h'⟩

/-- with distinct names an entry is determined by its name -/
theorem entry_unique {l : List Contrib} (h : (l.map (·.1)).Nodup) {n : String} {p p' : Pod}
    {c c' : ConnSet} (h1 : (n, p, c) ∈ l) (h2 : (n, p', c') ∈ l) : p = p' ∧ c = c' := by
  induction l with
  | nil => cases h1
  | cons a l ih =>
    rw [List.map_cons, List.nodup_cons] at h
    rw [List.mem_cons] at h1 h2
    rcases h1 with rfl | h1
    · rcases h2 with h2 | h2
      · simp only [Prod.mk.injEq] at h2
        exact ⟨h2.2.1.symm, h2.2.2.symm⟩
      · exact absurd (List.mem_map.mpr ⟨_, h2, rfl⟩) h.1
    · rcases h2 with rfl | h2
      · exact absurd (List.mem_map.mpr ⟨_, h1, rfl⟩) h.1
      · exact ih h.2 h1 h2

/-- the points of the (unique) entry of a name are the points held for the name -/
theorem den_entry {l : List Contrib} (h : (l.map (·.1)).Nodup) {n : String} {p : Pod}
    {c : ConnSet} (hm : (n, p, c) ∈ l) (pr : Proto) (x : Int) : c.den pr x ↔ D l n pr x := by
  constructor
  · intro hd; exact ⟨p, c, hm, hd⟩
  · rintro ⟨p', c', hm', hd⟩
    rw [(entry_unique h hm hm').2]
    exact hd


/-! ### I. services, lookup, targets -/

/-- the Service's selector (match-labels only) matches the workload's labels -/
def svcSelects (s : Service) (w : Pod) : Bool :=
  s.selector.all (fun kv => w.labels.get? kv.1 == some kv.2)

/-- the workload peers a Service selects -/
def selPeers (s : Service) (owners : List (String × Pod)) : List (String × Pod) :=
  owners.filter fun (_, p) => p.ns == s.ns && svcSelects s p

theorem mem_selPeers (s : Service) (owners : List (String × Pod)) (n : String) (p : Pod) :
    (n, p) ∈ selPeers s owners ↔ (n, p) ∈ owners ∧ p.ns = s.ns ∧ svcSelects s p = true := by
  simp [selPeers, List.mem_filter]

theorem mem_services (objs : List Obj) (owners : List (String × Pod)) (s : Service)
    (peers : List (String × Pod)) :
    (s, peers) ∈ services objs owners ↔
      Obj.svc s ∈ objs ∧ s.selector.isEmpty = false ∧ peers = selPeers s owners ∧ peers ≠ [] := by
  unfold services
  rw [List.mem_filterMap]
  constructor
  · rintro ⟨o, ho, h⟩
    cases o with
    | svc s' =>
      simp only at h
      split at h
      · cases h
      · rename_i he
        split at h
        · cases h
        · rename_i hp
          simp only [Option.some.injEq, Prod.mk.injEq] at h
          obtain ⟨rfl, rfl⟩ := h
          refine ⟨ho, by simpa using he, rfl, ?_⟩
          intro e
          rw [e] at hp
          exact hp rfl
    | _ => cases h
  · rintro ⟨ho, he, rfl, hp⟩
    refine ⟨_, ho, ?_⟩
    simp only [he, Bool.false_eq_true, if_false]
    have : ((owners.filter fun (x : String × Pod) =>
        x.2.ns == s.ns && s.selector.all (fun kv => x.2.labels.get? kv.1 == some kv.2)).isEmpty) = false := by
      cases h : selPeers s owners with
      | nil => exact absurd h hp
      | cons a l => 
        show (selPeers s owners).isEmpty = false
        rw [h]; rfl
    simp only [this, Bool.false_eq_true, if_false]
    rfl

theorem getLast?_filter_unique {α} {l : List α} {f : α → Bool}
    (hu : ∀ a ∈ l, ∀ b ∈ l, f a = true → f b = true → a = b) (s : α) :
    (l.filter f).getLast? = some s ↔ s ∈ l ∧ f s = true := by
  constructor
  · intro h
    exact List.mem_filter.mp (List.mem_of_getLast? h)
  · rintro ⟨h1, h2⟩
    cases hl : (l.filter f).getLast? with
    | none =>
      rw [List.getLast?_eq_none_iff] at hl
      have : s ∈ l.filter f := List.mem_filter.mpr ⟨h1, h2⟩
      rw [hl] at this
      cases this
    | some t =>
      have ht := List.mem_filter.mp (List.mem_of_getLast? hl)
      rw [hu t ht.1 s h1 ht.2 h2]

/-- no two Service documents share namespace and name -/
def SvcUnique (objs : List Obj) : Prop :=
  ∀ s₁ s₂, Obj.svc s₁ ∈ objs → Obj.svc s₂ ∈ objs → s₁.ns = s₂.ns → s₁.name = s₂.name → s₁ = s₂

theorem lookupSvc_iff {objs : List Obj} (hu : SvcUnique objs) (owners : List (String × Pod))
    (ns name : String) (s : Service) (peers : List (String × Pod)) :
    lookupSvc (services objs owners) ns name = some (s, peers) ↔
      (s, peers) ∈ services objs owners ∧ s.ns = ns ∧ s.name = name := by
  unfold lookupSvc
  rw [getLast?_filter_unique]
  · simp
  · rintro ⟨s1, p1⟩ h1 ⟨s2, p2⟩ h2 hf1 hf2
    simp only [Bool.and_eq_true, beq_iff_eq] at hf1 hf2
    rw [mem_services] at h1 h2
    have : s1 = s2 := hu s1 s2 h1.1 h2.1 (hf1.1.trans hf2.1.symm) (hf1.2.trans hf2.2.symm)
    subst this
    rw [h1.2.2.1, h2.2.2.1]

/-- the Services of the workload's namespace that select it, in document order -/
def specSvcs (objs : List Obj) (w : Pod) : List Service :=
  objs.filterMap fun o => match o with
    | .svc s => if s.ns == w.ns && !s.selector.isEmpty &&
        s.selector.all (fun kv => w.labels.get? kv.1 == some kv.2) then some s else none
    | _ => none

theorem ingressPorts_eq (objs : List Obj) (w : Pod) (len : Bool) :
    ingressPorts objs w len =
      (nsTargets objs w.ns len).flatMap fun (svcName, d) =>
        match ((specSvcs objs w).filter (·.name == svcName)).getLast? with
        | none => []
        | some s => (designated d s.ports).filterMap (reachedPort w) := rfl

theorem mem_specSvcs (objs : List Obj) (w : Pod) (s : Service) :
    s ∈ specSvcs objs w ↔
      Obj.svc s ∈ objs ∧ s.ns = w.ns ∧ s.selector.isEmpty = false ∧ svcSelects s w = true := by
  unfold specSvcs
  rw [List.mem_filterMap]
  constructor
  · rintro ⟨o, ho, h⟩
    cases o with
    | svc s' =>
      simp only at h
      split at h
      · rename_i hc
        cases h
        simp only [Bool.and_eq_true, beq_iff_eq, Bool.not_eq_true'] at hc
        exact ⟨ho, hc.1.1, hc.1.2, hc.2⟩
      · cases h
    | _ => cases h
  · rintro ⟨ho, h1, h2, h3⟩
    refine ⟨_, ho, ?_⟩
    unfold svcSelects at h3
    simp [h1, h2, h3]

theorem specLookup_iff {objs : List Obj} (hu : SvcUnique objs) (w : Pod) (name : String)
    (s : Service) :
    ((specSvcs objs w).filter (·.name == name)).getLast? = some s ↔
      s ∈ specSvcs objs w ∧ s.name = name := by
  rw [getLast?_filter_unique]
  · simp
  · intro s1 h1 s2 h2 hf1 hf2
    simp only [beq_iff_eq] at hf1 hf2
    rw [mem_specSvcs] at h1 h2
    exact hu s1 s2 h1.1 h2.1 (h1.2.1.trans h2.2.1.symm) (hf1.trans hf2.symm)


/-- the backends of an Ingress: the default backend, then the backends of the rules -/
def ingBackends (i : Ingress) : List IngBackend :=
  (match i.default with | some b => [b] | none => []) ++ i.rules.flatMap id

/-- the Service names a Route points to (`to` and `alternateBackends` of kind Service) -/
def routeSvcs (r : Route) : List String :=
  (if r.toKind == "" || r.toKind == "Service" then [r.toName] else []) ++
    r.alternates.filterMap fun (k, n) => if k == "" || k == "Service" then some n else none

def objNs : Obj → String
  | .ing i => i.ns
  | .route r => r.ns
  | _ => ""

def objTag : Obj → String
  | .ing i => "ing:" ++ i.name
  | .route r => "route:" ++ r.name
  | _ => ""

/-- per Ingress/Route: (service name, the model's required port, the specification's designator) -/
def objBackends (len : Bool) : Obj → List (String × IOS × Designator)
  | .ing i => (ingBackends i).map fun b => (b.svc, backendPort b, backendDesignator len b)
  | .route r => (routeSvcs r).map fun n => (n, routePort r, routeDesignator r)
  | _ => []

theorem nsTargets_eq (objs : List Obj) (ns : String) (len : Bool) :
    nsTargets objs ns len = objs.flatMap fun o =>
      if objNs o != ns then [] else (objBackends len o).map fun t => (t.1, t.2.2) := by
  unfold nsTargets
  congr 1
  funext o
  cases o with
  | ing i => simp only [objNs, objBackends, List.map_map]; rfl
  | route r => simp only [objNs, objBackends, List.map_map]; rfl
  | _ => simp [objBackends]

theorem mem_nsTargets (objs : List Obj) (ns : String) (len : Bool) (svc : String)
    (d : Designator) :
    (svc, d) ∈ nsTargets objs ns len ↔
      ∃ o ∈ objs, objNs o = ns ∧ ∃ req, (svc, req, d) ∈ objBackends len o := by
  rw [nsTargets_eq, List.mem_flatMap]
  constructor
  · rintro ⟨o, ho, h⟩
    split at h
    · cases h
    · rename_i hn
      rw [List.mem_map] at h
      obtain ⟨⟨svc', req, d'⟩, ht, heq⟩ := h
      simp only [Prod.mk.injEq] at heq
      obtain ⟨rfl, rfl⟩ := heq
      exact ⟨o, ho, by simpa using hn, req, ht⟩
  · rintro ⟨o, ho, hn, req, ht⟩
    refine ⟨o, ho, ?_⟩
    simp only [hn, bne_self_eq_false, Bool.false_eq_true, if_false]
    exact List.mem_map.mpr ⟨_, ht, rfl⟩

/-- the model's list of targets of one object -/
def objTargetList (o : Obj) : List (String × IOS × Bool) :=
  (objBackends true o).map fun t => (t.1, t.2.1, true)

/-- the per-object function of `targets` -/
def objTarget (o : Obj) : Option (String × String × List (String × IOS × Bool)) :=
  if (objTargetList o).isEmpty then none else some (objNs o, objTag o, objTargetList o)

theorem filterMap_congr' {α β} {f g : α → Option β} {l : List α} (h : ∀ a ∈ l, f a = g a) :
    l.filterMap f = l.filterMap g := by
  induction l with
  | nil => rfl
  | cons a l ih =>
    rw [List.filterMap_cons, List.filterMap_cons, h a (List.mem_cons_self ..),
      ih (fun b hb => h b (List.mem_cons_of_mem _ hb))]

theorem alts_eq (r : Route) (req : IOS) :
    (r.alternates.filterMap fun (k, n) =>
        if k != "" && k != "Service" then none else some (n, req, true)) =
      (r.alternates.filterMap fun (k, n) => if k == "" || k == "Service" then some n else none).map
        fun n => (n, req, true) := by
  rw [List.map_filterMap]
  apply filterMap_congr'
  rintro ⟨k, n⟩ _
  by_cases h1 : k = "" <;> by_cases h2 : k = "Service" <;> simp [h1, h2]

theorem targets_eq (objs : List Obj) : targets objs = objs.filterMap objTarget := by
  unfold targets
  congr 1
  funext o
  cases o with
  | route r =>
    have : (if r.toKind != "" && r.toKind != "Service" then []
        else [(r.toName, routePort r, true)]) ++
        (r.alternates.filterMap fun (k, n) =>
          if k != "" && k != "Service" then none else some (n, routePort r, true)) =
        objTargetList (.route r) := by
      rw [alts_eq]
      simp only [objTargetList, objBackends, routeSvcs, List.map_map, List.map_append]
      congr 1
      by_cases h1 : r.toKind = "" <;> by_cases h2 : r.toKind = "Service" <;> simp [h1, h2]
    simp only [this]
    rfl
  | ing i =>
    have key : ∀ X, X = objTargetList (.ing i) →
        (if X.isEmpty then none else some (i.ns, "ing:" ++ i.name, X)) = objTarget (.ing i) := by
      intro X h; subst h; rfl
    apply key
    simp only [objTargetList, objBackends, ingBackends, List.map_map, List.map_append]
    congr 1
    · cases i.default <;> rfl
    · rw [List.map_flatMap]; rfl
  | _ => simp [objTarget, objTargetList, objBackends]

theorem mem_targets (objs : List Obj) (ns svc : String) (req : IOS) (byT : Bool) :
    (∃ tag l, (ns, tag, l) ∈ targets objs ∧ (svc, req, byT) ∈ l) ↔
      ∃ o ∈ objs, objNs o = ns ∧ byT = true ∧ ∃ d, (svc, req, d) ∈ objBackends true o := by
  rw [targets_eq]
  constructor
  · rintro ⟨tag, l, h, hl⟩
    rw [List.mem_filterMap] at h
    obtain ⟨o, ho, h⟩ := h
    unfold objTarget at h
    split at h
    · cases h
    · simp only [Option.some.injEq, Prod.mk.injEq] at h
      obtain ⟨rfl, rfl, rfl⟩ := h
      unfold objTargetList at hl
      rw [List.mem_map] at hl
      obtain ⟨⟨svc', req', d⟩, ht, heq⟩ := hl
      simp only [Prod.mk.injEq] at heq
      obtain ⟨rfl, rfl, rfl⟩ := heq
      exact ⟨o, ho, rfl, rfl, d, ht⟩
  · rintro ⟨o, ho, rfl, rfl, d, ht⟩
    have hm : (svc, req, true) ∈ objTargetList o := List.mem_map.mpr ⟨_, ht, rfl⟩
    refine ⟨objTag o, objTargetList o, ?_, hm⟩
    rw [List.mem_filterMap]
    refine ⟨o, ho, ?_⟩
    unfold objTarget
    have : (objTargetList o).isEmpty = false := by
      cases h : objTargetList o with
      | nil => rw [h] at hm; cases hm
      | cons _ _ => rfl
    simp [this]


theorem lookupSvc_any {svcs : List (Service × List (String × Pod))} {ns name : String}
    {s : Service} {peers : List (String × Pod)} (h : lookupSvc svcs ns name = some (s, peers)) :
    (svcs.any fun (s, _) => s.ns == ns) = true := by
  unfold lookupSvc at h
  have := List.mem_filter.mp (List.mem_of_getLast? h)
  rw [List.any_eq_true]
  refine ⟨_, this.1, ?_⟩
  have h2 := this.2
  simp only [Bool.and_eq_true, beq_iff_eq] at h2
  simp [h2.1]

theorem mem_contributions (svcs : List (Service × List (String × Pod)))
    (tg : List (String × String × List (String × IOS × Bool))) (n : String) (p : Pod)
    (c : ConnSet) :
    (n, p, c) ∈ contributions svcs tg ↔
      ∃ ns svc req byT, (∃ tag l, (ns, tag, l) ∈ tg ∧ (svc, req, byT) ∈ l) ∧
        ∃ s peers, lookupSvc svcs ns svc = some (s, peers) ∧ (n, p) ∈ peers ∧
          c = peerConnection p s.ports req byT := by
  unfold contributions
  rw [List.mem_flatMap]
  constructor
  · rintro ⟨⟨ns, tag, l⟩, ht, h⟩
    simp only at h
    split at h
    · cases h
    · rw [List.mem_flatMap] at h
      obtain ⟨⟨svc, req, byT⟩, hl, h⟩ := h
      simp only at h
      cases hlk : lookupSvc svcs ns svc with
      | none => rw [hlk] at h; cases h
      | some sp =>
        obtain ⟨s, peers⟩ := sp
        rw [hlk] at h
        simp only [List.mem_map, Prod.mk.injEq] at h
        obtain ⟨⟨n', p'⟩, hp, rfl, rfl, rfl⟩ := h
        exact ⟨ns, svc, req, byT, ⟨tag, l, ht, hl⟩, s, peers, hlk, hp, rfl⟩
  · rintro ⟨ns, svc, req, byT, ⟨tag, l, ht, hl⟩, s, peers, hlk, hp, rfl⟩
    refine ⟨(ns, tag, l), ht, ?_⟩
    simp only [lookupSvc_any hlk, Bool.not_true, Bool.false_eq_true, if_false]
    rw [List.mem_flatMap]
    refine ⟨(svc, req, byT), hl, ?_⟩
    simp only [hlk]
    exact List.mem_map.mpr ⟨(n, p), hp, rfl⟩

theorem pair_unique {α β} {l : List (α × β)} (h : (l.map (·.1)).Nodup) {a : α} {b b' : β}
    (h1 : (a, b) ∈ l) (h2 : (a, b') ∈ l) : b = b' := by
  induction l with
  | nil => cases h1
  | cons x l ih =>
    rw [List.map_cons, List.nodup_cons] at h
    rw [List.mem_cons] at h1 h2
    rcases h1 with rfl | h1
    · rcases h2 with h2 | h2
      · simp only [Prod.mk.injEq] at h2
        exact h2.2.symm
      · exact absurd (List.mem_map.mpr ⟨_, h2, rfl⟩) h.1
    · rcases h2 with rfl | h2
      · exact absurd (List.mem_map.mpr ⟨_, h1, rfl⟩) h.1
      · exact ih h.2 h1 h2

/-- the hypotheses of C10 on the input: what Kubernetes / OpenShift validation guarantees, plus
uniqueness of workload names and of Service (namespace, name) pairs -/
structure ValidInput (objs : List Obj) (owners : List (String × Pod)) : Prop where
  /-- workload names are distinct -/
  ownerNames : (owners.map (·.1)).Nodup
  /-- container ports are in 1..65535 -/
  pods : ∀ e ∈ owners, ValidPod e.2
  /-- service ports: number ≥ 1, no empty named targetPort, distinct names -/
  svcPorts : ∀ s, Obj.svc s ∈ objs → ValidSvcPorts s.ports
  /-- no two Service documents share namespace and name -/
  svcUnique : SvcUnique objs
  /-- Ingress backends give a non-empty port name or a non-zero port number -/
  backends : ∀ i, Obj.ing i ∈ objs → ∀ b ∈ ingBackends i, ValidBackend b
  /-- a Route's targetPort is not the zero value -/
  routes : ∀ r, Obj.route r ∈ objs → ValidRoute r

theorem chosen_objBackends {objs : List Obj} {owners : List (String × Pod)}
    (hv : ValidInput objs owners) {o : Obj} (ho : o ∈ objs) {svc : String} {req : IOS}
    {d : Designator} (h : (svc, req, d) ∈ objBackends true o) {sps : List SvcPort}
    (hs : ValidSvcPorts sps) : chosen sps req true = designated d sps := by
  cases o with
  | ing i =>
    simp only [objBackends, List.mem_map, Prod.mk.injEq] at h
    obtain ⟨b, hb, _, rfl, rfl⟩ := h
    exact chosen_backend (hv.backends i ho b hb) hs
  | route r =>
    simp only [objBackends, List.mem_map, Prod.mk.injEq] at h
    obtain ⟨_, _, _, rfl, rfl⟩ := h
    exact chosen_route (hv.routes r ho) hs
  | _ => cases h

/-- common ground of model and specification: `x` is reached at workload `w` through some
backend of some Ingress/Route of its namespace and the Service (of that namespace, selecting `w`)
the backend names -/
def Reach (objs : List Obj) (w : Pod) (x : Int) : Prop :=
  ∃ o ∈ objs, objNs o = w.ns ∧ ∃ svc req d, (svc, req, d) ∈ objBackends true o ∧
    ∃ s, Obj.svc s ∈ objs ∧ s.ns = w.ns ∧ s.name = svc ∧ s.selector.isEmpty = false ∧
      svcSelects s w = true ∧ x ∈ (designated d s.ports).filterMap (reachedPort w)

theorem mem_ingressPorts {objs : List Obj} (hu : SvcUnique objs) (w : Pod) (x : Int) :
    x ∈ ingressPorts objs w true ↔ Reach objs w x := by
  rw [ingressPorts_eq, List.mem_flatMap]
  constructor
  · rintro ⟨⟨svc, d⟩, ht, h⟩
    simp only at h
    cases hl : ((specSvcs objs w).filter (·.name == svc)).getLast? with
    | none => rw [hl] at h; cases h
    | some s =>
      rw [hl] at h
      simp only at h
      obtain ⟨o, ho, hn, req, hb⟩ := (mem_nsTargets ..).mp ht
      obtain ⟨hs, rfl⟩ := (specLookup_iff hu ..).mp hl
      obtain ⟨h1, h2, h3, h4⟩ := (mem_specSvcs ..).mp hs
      exact ⟨o, ho, hn, _, req, d, hb, s, h1, h2, rfl, h3, h4, h⟩
  · rintro ⟨o, ho, hn, svc, req, d, hb, s, h1, h2, rfl, h3, h4, h⟩
    refine ⟨(s.name, d), (mem_nsTargets ..).mpr ⟨o, ho, hn, req, hb⟩, ?_⟩
    have := (specLookup_iff hu w s.name s).mpr ⟨(mem_specSvcs ..).mpr ⟨h1, h2, h3, h4⟩, rfl⟩
    simp only [this]
    exact h

theorem contrib_owner {objs : List Obj} {owners : List (String × Pod)}
    {tg : List (String × String × List (String × IOS × Bool))} {n : String} {p : Pod}
    {c : ConnSet} (h : (n, p, c) ∈ contributions (services objs owners) tg) :
    (n, p) ∈ owners ∧ ∃ sps req byT, c = peerConnection p sps req byT := by
  obtain ⟨ns, svc, req, byT, _, s, peers, hlk, hp, rfl⟩ := (mem_contributions ..).mp h
  unfold lookupSvc at hlk
  have hm := (List.mem_filter.mp (List.mem_of_getLast? hlk)).1
  rw [mem_services] at hm
  rw [hm.2.2.1, mem_selPeers] at hp
  exact ⟨hp.1, _, _, _, rfl⟩

theorem contrib_tcpOnly {objs : List Obj} {owners : List (String × Pod)}
    (hv : ValidInput objs owners)
    {tg : List (String × String × List (String × IOS × Bool))} {e : Contrib}
    (h : e ∈ contributions (services objs owners) tg) : TcpOnly e.2.2 := by
  obtain ⟨n, p, c⟩ := e
  obtain ⟨ho, sps, req, byT, rfl⟩ := contrib_owner h
  exact peerConnection_tcpOnly (hv.pods _ ho) _ _ _

theorem contrib_iff_reach {objs : List Obj} {owners : List (String × Pod)}
    (hv : ValidInput objs owners) {n : String} {w : Pod} (hw : (n, w) ∈ owners) (x : Int) :
    (∃ e ∈ contributions (services objs owners) (targets objs), e.1 = n ∧ e.2.2.den .TCP x) ↔
      Reach objs w x := by
  constructor
  · rintro ⟨⟨n', p, c⟩, he, rfl, hd⟩
    simp only at hd
    obtain ⟨ns, svc, req, byT, ht, s, peers, hlk, hp, rfl⟩ := (mem_contributions ..).mp he
    obtain ⟨o, ho, rfl, rfl, d, hb⟩ := (mem_targets ..).mp ht
    obtain ⟨hm, hns, rfl⟩ := (lookupSvc_iff hv.svcUnique ..).mp hlk
    obtain ⟨hs, hse, rfl, _⟩ := (mem_services ..).mp hm
    obtain ⟨hpo, hpns, hsel⟩ := (mem_selPeers ..).mp hp
    have : p = w := pair_unique hv.ownerNames hpo hw
    subst this
    have hsp := hv.svcPorts s hs
    rw [peerConnection_den (hv.pods _ hw) hsp.target, chosen_objBackends hv ho hb hsp] at hd
    exact ⟨o, ho, hns.symm.trans hpns.symm, _, req, d, hb, s, hs, hpns.symm, rfl, hse, hsel, hd⟩
  · rintro ⟨o, ho, hn, svc, req, d, hb, s, hs, hns, rfl, hse, hsel, hx⟩
    have hsp := hv.svcPorts s hs
    have hp : (n, w) ∈ selPeers s owners := (mem_selPeers ..).mpr ⟨hw, hns.symm, hsel⟩
    refine ⟨(n, w, peerConnection w s.ports req true), ?_, rfl, ?_⟩
    · rw [mem_contributions]
      refine ⟨w.ns, s.name, req, true, (mem_targets ..).mpr ⟨o, ho, hn, rfl, d, hb⟩, s,
        selPeers s owners, ?_, hp, rfl⟩
      rw [lookupSvc_iff hv.svcUnique]
      refine ⟨(mem_services ..).mpr ⟨hs, hse, rfl, ?_⟩, hns, rfl⟩
      intro e; rw [e] at hp; cases hp
    · show (peerConnection w s.ports req true).den .TCP x
      rw [peerConnection_den (hv.pods _ hw) hsp.target, chosen_objBackends hv ho hb hsp]
      exact hx


/-! ### I. the entries of `allowedIngress` -/

theorem allowedIngress_some {objs : List Obj} {owners : List (String × Pod)} {l : List Contrib}
    (h : allowedIngress objs owners = some l) :
    l = group (contributions (services objs owners) (targets objs)) [] := by
  rw [allowedIngress_eq] at h
  split at h
  · cases h
  · exact (Option.some.inj h).symm

theorem allowedIngress_of_contrib {objs : List Obj} {owners : List (String × Pod)} {e : Contrib}
    (he : e ∈ contributions (services objs owners) (targets objs)) :
    allowedIngress objs owners =
      some (group (contributions (services objs owners) (targets objs)) []) := by
  obtain ⟨n, p, c⟩ := e
  obtain ⟨ns, svc, req, byT, ⟨tag, l, ht, _⟩, s, peers, hlk, _, _⟩ := (mem_contributions ..).mp he
  have h1 : (services objs owners).isEmpty = false := by
    unfold lookupSvc at hlk
    have hm := (List.mem_filter.mp (List.mem_of_getLast? hlk)).1
    cases hs : services objs owners with
    | nil => rw [hs] at hm; cases hm
    | cons _ _ => rfl
  have h2 : (targets objs).isEmpty = false := by
    cases hs : targets objs with
    | nil => rw [hs] at ht; cases ht
    | cons _ _ => rfl
  rw [allowedIngress_eq, h1, h2]
  rfl

theorem allWF_contributions {objs : List Obj} {owners : List (String × Pod)}
    (hv : ValidInput objs owners) :
    AllWF (contributions (services objs owners) (targets objs)) :=
  fun _ he => (contrib_tcpOnly hv he).wf

theorem allWF_nil : AllWF [] := fun _ h => by cases h

/-- I: for a workload of the input, the TCP points of its `allowedIngress` entry are the
specification's ingress ports (lenient reading); no entry and an empty port list go together -/
theorem ingress_lines_exact {objs : List Obj} {owners : List (String × Pod)}
    (hv : ValidInput objs owners) {n : String} {w : Pod} (hw : (n, w) ∈ owners) (x : Int) :
    x ∈ ingressPorts objs w true ↔
      ∃ l p c, allowedIngress objs owners = some l ∧ (n, p, c) ∈ l ∧ c.den .TCP x := by
  rw [mem_ingressPorts hv.svcUnique, ← contrib_iff_reach hv hw]
  constructor
  · rintro ⟨e, he, hn, hd⟩
    have := (D_group _ allWF_nil (allWF_contributions hv) n .TCP x).mpr (Or.inr ⟨e, he, hn, hd⟩)
    obtain ⟨p, c, hm, hd'⟩ := this
    exact ⟨_, p, c, allowedIngress_of_contrib he, hm, hd'⟩
  · rintro ⟨l, p, c, hl, hm, hd⟩
    rw [allowedIngress_some hl] at hm
    rcases (D_group _ allWF_nil (allWF_contributions hv) n .TCP x).mp ⟨p, c, hm, hd⟩ with
      ⟨_, _, h, _⟩ | h
    · cases h
    · exact h

/-- the result list has one entry per workload name, every entry is a workload of the input with
its own pod, and its connection set is well-formed with TCP points only -/
theorem allowedIngress_entries {objs : List Obj} {owners : List (String × Pod)}
    (hv : ValidInput objs owners) {l : List Contrib} (hl : allowedIngress objs owners = some l) :
    (l.map (·.1)).Nodup ∧ ∀ n p c, (n, p, c) ∈ l → (n, p) ∈ owners ∧ TcpOnly c := by
  have e := allowedIngress_some hl
  subst e
  have hnd : ((group (contributions (services objs owners) (targets objs)) []).map (·.1)).Nodup :=
    nodup_group _ List.nodup_nil
  refine ⟨hnd, ?_⟩
  intro n p c hm
  have hwf := allWF_group _ allWF_nil (allWF_contributions hv)
  have hno : ∀ pr, pr ≠ Proto.TCP → ∀ x, ¬ c.den pr x := by
    intro pr hpr x hd
    rcases (D_group _ allWF_nil (allWF_contributions hv) n pr x).mp ⟨p, c, hm, hd⟩ with
      ⟨_, _, h, _⟩ | ⟨e, he, _, hd'⟩
    · cases h
    · have ht := contrib_tcpOnly hv he
      cases pr
      · exact hpr rfl
      · exact ht.noUDP x hd'
      · exact ht.noSCTP x hd'
  have hnn : AllNoNames (group (contributions (services objs owners) (targets objs)) []) :=
    allNoNames_group _ (fun _ h => by cases h) (fun _ he => (contrib_tcpOnly hv he).noNames)
  refine ⟨?_, hwf _ hm, hno .UDP (by decide), hno .SCTP (by decide), hnn _ hm⟩
  rcases pod_group _ hm with ⟨_, h⟩ | ⟨c', h⟩
  · cases h
  · exact (contrib_owner h).1

/-! ### I. targeted workloads -/

/-- some Ingress/Route of the workload's namespace names a Service of that namespace that selects
the workload -/
def Targeted (objs : List Obj) (w : Pod) : Prop :=
  ∃ o ∈ objs, objNs o = w.ns ∧ ∃ svc req d, (svc, req, d) ∈ objBackends true o ∧
    ∃ s, Obj.svc s ∈ objs ∧ s.ns = w.ns ∧ s.name = svc ∧ s.selector.isEmpty = false ∧
      svcSelects s w = true

theorem objBackends_len {len : Bool} {o : Obj} {svc : String} {req : IOS} {d : Designator}
    (h : (svc, req, d) ∈ objBackends len o) (len' : Bool) :
    ∃ d', (svc, req, d') ∈ objBackends len' o := by
  cases o with
  | ing i =>
    simp only [objBackends, List.mem_map, Prod.mk.injEq] at h ⊢
    obtain ⟨b, hb, rfl, rfl, _⟩ := h
    exact ⟨_, b, hb, rfl, rfl, rfl⟩
  | route r => exact ⟨d, h⟩
  | _ => cases h

theorem targeted_iff (objs : List Obj) (w : Pod) : targeted objs w = true ↔ Targeted objs w := by
  unfold targeted
  rw [List.any_eq_true]
  constructor
  · rintro ⟨⟨svc, d⟩, hm, h⟩
    obtain ⟨o, ho, hn, req, hb⟩ := (mem_nsTargets ..).mp hm
    obtain ⟨d', hb'⟩ := objBackends_len hb true
    simp only [List.any_eq_true] at h
    obtain ⟨o', ho', h⟩ := h
    cases o' with
    | svc s =>
      simp only [Bool.and_eq_true, beq_iff_eq, Bool.not_eq_true'] at h
      exact ⟨o, ho, hn, svc, req, d', hb', s, ho', h.1.1.2, h.1.1.1, h.1.2, h.2⟩
    | _ => cases h
  · rintro ⟨o, ho, hn, svc, req, d, hb, s, hs, hns, rfl, hse, hsel⟩
    obtain ⟨d', hb'⟩ := objBackends_len hb false
    refine ⟨(s.name, d'), (mem_nsTargets ..).mpr ⟨o, ho, hn, req, hb'⟩, ?_⟩
    simp only [List.any_eq_true]
    refine ⟨_, hs, ?_⟩
    unfold svcSelects at hsel
    simp [hns, hse, hsel]

theorem contrib_iff_targeted {objs : List Obj} {owners : List (String × Pod)}
    (hv : ValidInput objs owners) {n : String} {w : Pod} (hw : (n, w) ∈ owners) :
    (∃ e ∈ contributions (services objs owners) (targets objs), e.1 = n) ↔ Targeted objs w := by
  constructor
  · rintro ⟨⟨n', p, c⟩, he, rfl⟩
    obtain ⟨ns, svc, req, byT, ht, s, peers, hlk, hp, rfl⟩ := (mem_contributions ..).mp he
    obtain ⟨o, ho, rfl, rfl, d, hb⟩ := (mem_targets ..).mp ht
    obtain ⟨hm, hns, rfl⟩ := (lookupSvc_iff hv.svcUnique ..).mp hlk
    obtain ⟨hs, hse, rfl, _⟩ := (mem_services ..).mp hm
    obtain ⟨hpo, hpns, hsel⟩ := (mem_selPeers ..).mp hp
    have : p = w := pair_unique hv.ownerNames hpo hw
    subst this
    exact ⟨o, ho, hns.symm.trans hpns.symm, _, req, d, hb, s, hs, hpns.symm, rfl, hse, hsel⟩
  · rintro ⟨o, ho, hn, svc, req, d, hb, s, hs, hns, rfl, hse, hsel⟩
    have hp : (n, w) ∈ selPeers s owners := (mem_selPeers ..).mpr ⟨hw, hns.symm, hsel⟩
    refine ⟨(n, w, peerConnection w s.ports req true), ?_, rfl⟩
    rw [mem_contributions]
    refine ⟨w.ns, s.name, req, true, (mem_targets ..).mpr ⟨o, ho, hn, rfl, d, hb⟩, s,
      selPeers s owners, ?_, hp, rfl⟩
    rw [lookupSvc_iff hv.svcUnique]
    refine ⟨(mem_services ..).mpr ⟨hs, hse, rfl, ?_⟩, hns, rfl⟩
    intro e; rw [e] at hp; cases hp

/-- a workload has an `allowedIngress` entry exactly when the specification calls it targeted -/
theorem entry_iff_targeted {objs : List Obj} {owners : List (String × Pod)}
    (hv : ValidInput objs owners) {n : String} {w : Pod} (hw : (n, w) ∈ owners) :
    targeted objs w = true ↔ ∃ l p c, allowedIngress objs owners = some l ∧ (n, p, c) ∈ l := by
  rw [targeted_iff, ← contrib_iff_targeted hv hw]
  constructor
  · rintro ⟨e, he, hn⟩
    have : n ∈ (group (contributions (services objs owners) (targets objs)) []).map (·.1) :=
      (mem_names_group ..).mpr (Or.inr (List.mem_map.mpr ⟨e, he, hn⟩))
    obtain ⟨⟨n', p, c⟩, hm, rfl⟩ := List.mem_map.mp this
    exact ⟨_, p, c, allowedIngress_of_contrib he, hm⟩
  · rintro ⟨l, p, c, hl, hm⟩
    rw [allowedIngress_some hl] at hm
    rcases (mem_names_group ..).mp (List.mem_map.mpr ⟨_, hm, rfl⟩) with h | h
    · cases h
    · obtain ⟨e, he, hn⟩ := List.mem_map.mp h
      exact ⟨e, he, hn⟩


/-! ### I. `ingressEntries`: entries and blocked workloads -/

/-- the engine after `AddPodByNameAndNamespace` of the ingress-controller pod -/
def ingressEngine (eng : Engine) : Engine :=
  if (eng.findNs ingressPod.ns).isSome then eng
  else { eng with namespaces := eng.namespaces ++ [⟨ingressPod.ns, [(nsNameLabelKey, ingressPod.ns)]⟩] }

/-- the ingress-controller peer -/
def ingressSrc : LPeer := LPeer.wl (workloadName ingressPod) ingressPod

/-- the loop body of `getIngressAllowedConnections` -/
def entryStep (eng : Engine) (focus : String) (acc : List Entry × List String) :
    Contrib → Except Err (List Entry × List String) := fun (n, p, c) => do
  let dst := LPeer.wl n p
  if !(isFocus focus ingressSrc || isFocus focus dst) then pure acc
  else
    let ks ← eng.toKPeer ingressSrc
    let kd ← eng.toKPeer dst
    let pc ← eng.peerConns ks kd
    let r := c.inter pc
    if r.isEmpty then pure (acc.1, acc.2 ++ [n]) else pure (acc.1 ++ [⟨ingressSrc, dst, r⟩], acc.2)

theorem ingressEntries_eq (eng : Engine) (objs : List Obj) (owners : List (String × Pod))
    (focus : String) :
    ingressEntries eng objs owners focus =
      match allowedIngress objs owners with
      | none => .ok ([], [])
      | some l => l.foldlM (entryStep (ingressEngine eng) focus) ([], []) := rfl

/-- the connections the policies allow from the ingress controller to workload `(n, p)` -/
def policyConn (eng : Engine) (n : String) (p : Pod) : Except Err ConnSet := do
  let ks ← eng.toKPeer ingressSrc
  let kd ← eng.toKPeer (LPeer.wl n p)
  eng.peerConns ks kd

/-- the workload passes the `--focusworkload` filter of the ingress lines -/
def focused (focus n : String) (p : Pod) : Bool :=
  isFocus focus ingressSrc || isFocus focus (LPeer.wl n p)

theorem entryStep_ok {eng : Engine} {focus : String} {acc acc' : List Entry × List String}
    {n : String} {p : Pod} {c : ConnSet} (h : entryStep eng focus acc (n, p, c) = .ok acc') :
    (focused focus n p = false ∧ acc' = acc) ∨
      (focused focus n p = true ∧ ∃ pc, policyConn eng n p = .ok pc ∧
        (((c.inter pc).isEmpty = true ∧ acc' = (acc.1, acc.2 ++ [n])) ∨
         ((c.inter pc).isEmpty = false ∧
            acc' = (acc.1 ++ [⟨ingressSrc, LPeer.wl n p, c.inter pc⟩], acc.2)))) := by
  simp only [entryStep] at h
  cases hf : focused focus n p
  · left
    unfold focused at hf
    simp only [hf, Bool.not_false, if_true, pure, Except.pure, Except.ok.injEq] at h
    exact ⟨rfl, h.symm⟩
  · right
    refine ⟨rfl, ?_⟩
    unfold focused at hf
    simp only [hf, Bool.not_true, Bool.false_eq_true, if_false] at h
    unfold policyConn
    cases h1 : eng.toKPeer ingressSrc with
    | error e => rw [h1] at h; cases h
    | ok ks =>
      cases h2 : eng.toKPeer (LPeer.wl n p) with
      | error e => rw [h1, h2] at h; cases h
      | ok kd =>
        cases h3 : eng.peerConns ks kd with
        | error e => rw [h1, h2] at h; simp only [bind, Except.bind, h3] at h; cases h
        | ok pc =>
          rw [h1, h2] at h
          simp only [bind, Except.bind, h3] at h
          refine ⟨pc, h3, ?_⟩
          cases he : (c.inter pc).isEmpty
          · right
            simp only [he, Bool.false_eq_true, if_false, pure, Except.pure, Except.ok.injEq] at h
            exact ⟨rfl, h.symm⟩
          · left
            simp only [he, if_true, pure, Except.pure, Except.ok.injEq] at h
            exact ⟨rfl, h.symm⟩

/-- the workload is reported as blocked: it passes the focus filter, the policy connection is
computed without error, and its intersection with the ingress connection is empty -/
def Blocked (eng : Engine) (focus : String) (e : Contrib) : Prop :=
  focused focus e.1 e.2.1 = true ∧ ∃ pc, policyConn eng e.1 e.2.1 = .ok pc ∧
    (e.2.2.inter pc).isEmpty = true

/-- the workload gets an ingress-controller line with connection `r` -/
def Line (eng : Engine) (focus : String) (e : Contrib) (r : ConnSet) : Prop :=
  focused focus e.1 e.2.1 = true ∧ ∃ pc, policyConn eng e.1 e.2.1 = .ok pc ∧
    r = e.2.2.inter pc ∧ r.isEmpty = false

theorem foldlM_entryStep {eng : Engine} {focus : String} (l : List Contrib)
    {acc res : List Entry × List String} (h : l.foldlM (entryStep eng focus) acc = .ok res) :
    (∀ n, n ∈ res.2 ↔ n ∈ acc.2 ∨ ∃ e ∈ l, e.1 = n ∧ Blocked eng focus e) ∧
    (∀ n p r, (∃ x ∈ res.1, x.src = ingressSrc ∧ x.dst = LPeer.wl n p ∧ x.conn = r) ↔
      (∃ x ∈ acc.1, x.src = ingressSrc ∧ x.dst = LPeer.wl n p ∧ x.conn = r) ∨
        ∃ c, (n, p, c) ∈ l ∧ Line eng focus (n, p, c) r) := by
  induction l generalizing acc with
  | nil =>
    simp only [List.foldlM_nil, pure, Except.pure, Except.ok.injEq] at h
    subst h
    simp
  | cons e es ih =>
    rw [List.foldlM_cons] at h
    cases hs : entryStep eng focus acc e with
    | error err => rw [hs] at h; cases h
    | ok acc' =>
      rw [hs] at h
      simp only [bind, Except.bind] at h
      obtain ⟨ih1, ih2⟩ := ih h
      obtain ⟨n0, p0, c0⟩ := e
      rcases entryStep_ok hs with ⟨hf, rfl⟩ | ⟨hf, pc, hpc, ⟨he, rfl⟩ | ⟨he, rfl⟩⟩
      · constructor
        · intro n
          rw [ih1]
          simp only [List.mem_cons, exists_eq_or_imp]
          constructor
          · rintro (h1 | h1)
            · exact Or.inl h1
            · exact Or.inr (Or.inr h1)
          · rintro (h1 | ⟨_, hb⟩ | h1)
            · exact Or.inl h1
            · have := hb.1; simp only at this; rw [hf] at this; cases this
            · exact Or.inr h1
        · intro n p r
          rw [ih2]
          simp only [List.mem_cons]
          constructor
          · rintro (h1 | ⟨c, h1, h2⟩)
            · exact Or.inl h1
            · exact Or.inr ⟨c, Or.inr h1, h2⟩
          · rintro (h1 | ⟨c, h1 | h1, h2⟩)
            · exact Or.inl h1
            · simp only [Prod.mk.injEq] at h1
              obtain ⟨rfl, rfl, rfl⟩ := h1
              have := h2.1; simp only at this; rw [hf] at this; cases this
            · exact Or.inr ⟨c, h1, h2⟩
      · constructor
        · intro n
          rw [ih1]
          simp only [List.mem_append, List.mem_singleton]
          simp only [List.mem_cons, exists_eq_or_imp]
          constructor
          · rintro ((h1 | rfl) | h1)
            · exact Or.inl h1
            · exact Or.inr (Or.inl ⟨rfl, hf, pc, hpc, he⟩)
            · exact Or.inr (Or.inr h1)
          · rintro (h1 | ⟨rfl, _⟩ | h1)
            · exact Or.inl (Or.inl h1)
            · exact Or.inl (Or.inr rfl)
            · exact Or.inr h1
        · intro n p r
          rw [ih2]
          simp only [List.mem_cons]
          constructor
          · rintro (h1 | ⟨c, h1, h2⟩)
            · exact Or.inl h1
            · exact Or.inr ⟨c, Or.inr h1, h2⟩
          · rintro (h1 | ⟨c, h1 | h1, h2⟩)
            · exact Or.inl h1
            · simp only [Prod.mk.injEq] at h1
              obtain ⟨rfl, rfl, rfl⟩ := h1
              obtain ⟨_, pc', hpc', hr, hne⟩ := h2
              simp only at hpc' hr
              rw [hpc] at hpc'
              cases hpc'
              rw [hr, he] at hne
              cases hne
            · exact Or.inr ⟨c, h1, h2⟩
      · constructor
        · intro n
          rw [ih1]
          simp only [List.mem_cons, exists_eq_or_imp]
          constructor
          · rintro (h1 | h1)
            · exact Or.inl h1
            · exact Or.inr (Or.inr h1)
          · rintro (h1 | ⟨_, hb⟩ | h1)
            · exact Or.inl h1
            · obtain ⟨_, pc', hpc', he'⟩ := hb
              simp only at hpc' he'
              rw [hpc] at hpc'
              cases hpc'
              rw [he] at he'
              cases he'
            · exact Or.inr h1
        · intro n p r
          rw [ih2]
          simp only [List.mem_append, List.mem_singleton]
          simp only [List.mem_cons]
          constructor
          · rintro (⟨x, hx | rfl, h1, h2, h3⟩ | ⟨c, h1, h2⟩)
            · exact Or.inl ⟨x, hx, h1, h2, h3⟩
            · simp only [LPeer.wl.injEq] at h2
              obtain ⟨rfl, rfl⟩ := h2
              simp only at h3
              exact Or.inr ⟨c0, Or.inl rfl, hf, pc, hpc, h3.symm, by rw [← h3]; exact he⟩
            · exact Or.inr ⟨c, Or.inr h1, h2⟩
          · rintro (⟨x, hx, h1⟩ | ⟨c, h1 | h1, h2⟩)
            · exact Or.inl ⟨x, Or.inl hx, h1⟩
            · simp only [Prod.mk.injEq] at h1
              obtain ⟨rfl, rfl, rfl⟩ := h1
              obtain ⟨_, pc', hpc', hr, _⟩ := h2
              simp only at hpc' hr
              rw [hpc] at hpc'
              cases hpc'
              exact Or.inl ⟨_, Or.inr rfl, rfl, rfl, hr.symm⟩
            · exact Or.inr ⟨c, h1, h2⟩

/-- the blocked list of `getIngressAllowedConnections`: the workloads with an `allowedIngress`
entry whose intersection with the policy connection is empty -/
theorem blocked_iff {eng : Engine} {objs : List Obj} {owners : List (String × Pod)}
    {focus : String} {entries : List Entry} {blocked : List String}
    (h : ingressEntries eng objs owners focus = .ok (entries, blocked)) (n : String) :
    n ∈ blocked ↔ ∃ l p c, allowedIngress objs owners = some l ∧ (n, p, c) ∈ l ∧
      Blocked (ingressEngine eng) focus (n, p, c) := by
  rw [ingressEntries_eq] at h
  cases hl : allowedIngress objs owners with
  | none =>
    rw [hl] at h
    simp only [Except.ok.injEq, Prod.mk.injEq] at h
    rw [← h.2]
    simp
  | some l =>
    rw [hl] at h
    have := (foldlM_entryStep l h).1 n
    simp only [List.not_mem_nil, false_or] at this
    rw [this]
    constructor
    · rintro ⟨⟨n', p, c⟩, he, rfl, hb⟩
      exact ⟨l, p, c, rfl, he, hb⟩
    · rintro ⟨l', p, c, hl', he, hb⟩
      cases hl'
      exact ⟨_, he, rfl, hb⟩

/-- the ingress-controller lines of `getIngressAllowedConnections`: one per `allowedIngress`
entry whose intersection with the policy connection is not empty, carrying that intersection -/
theorem line_iff {eng : Engine} {objs : List Obj} {owners : List (String × Pod)}
    {focus : String} {entries : List Entry} {blocked : List String}
    (h : ingressEntries eng objs owners focus = .ok (entries, blocked)) (n : String) (p : Pod)
    (r : ConnSet) :
    (∃ x ∈ entries, x.src = ingressSrc ∧ x.dst = LPeer.wl n p ∧ x.conn = r) ↔
      ∃ l c, allowedIngress objs owners = some l ∧ (n, p, c) ∈ l ∧
        Line (ingressEngine eng) focus (n, p, c) r := by
  rw [ingressEntries_eq] at h
  cases hl : allowedIngress objs owners with
  | none =>
    rw [hl] at h
    simp only [Except.ok.injEq, Prod.mk.injEq] at h
    rw [← h.1]
    simp
  | some l =>
    rw [hl] at h
    have := (foldlM_entryStep l h).2 n p r
    simp only [List.not_mem_nil, false_and, exists_false, false_or] at this
    rw [this]
    constructor
    · rintro ⟨c, he, hb⟩
      exact ⟨l, c, rfl, he, hb⟩
    · rintro ⟨l', c, hl', he, hb⟩
      cases hl'
      exact ⟨c, he, hb⟩

/-- every reported line starts at the ingress controller and ends at a workload -/
theorem line_shape {eng : Engine} {focus : String} (l : List Contrib)
    {acc res : List Entry × List String} (h : l.foldlM (entryStep eng focus) acc = .ok res)
    (hacc : ∀ x ∈ acc.1, x.src = ingressSrc ∧ ∃ n p, x.dst = LPeer.wl n p) :
    ∀ x ∈ res.1, x.src = ingressSrc ∧ ∃ n p, x.dst = LPeer.wl n p := by
  induction l generalizing acc with
  | nil =>
    simp only [List.foldlM_nil, pure, Except.pure, Except.ok.injEq] at h
    subst h
    exact hacc
  | cons e es ih =>
    rw [List.foldlM_cons] at h
    cases hs : entryStep eng focus acc e with
    | error err => rw [hs] at h; cases h
    | ok acc' =>
      rw [hs] at h
      simp only [bind, Except.bind] at h
      apply ih h
      obtain ⟨n0, p0, c0⟩ := e
      rcases entryStep_ok hs with ⟨_, rfl⟩ | ⟨_, pc, _, ⟨_, rfl⟩ | ⟨_, rfl⟩⟩
      · exact hacc
      · exact hacc
      · intro x hx
        simp only [List.mem_append, List.mem_singleton] at hx
        rcases hx with hx | rfl
        · exact hacc x hx
        · exact ⟨rfl, n0, p0, rfl⟩


/-! ### I. semantic reading of "blocked" -/

/-- for a TCP-only ingress connection, the intersection with a well-formed policy connection is
empty exactly when no TCP port is in both -/
theorem inter_isEmpty_iff {c pc : ConnSet} (hc : TcpOnly c) (hpc : pc.WF) :
    (c.inter pc).isEmpty = true ↔ ∀ x, ¬ (c.den .TCP x ∧ pc.den .TCP x) := by
  rw [isEmpty_iff_no_points (ConnSet.wf_inter hc.wf hpc) (noNames_inter hc.noNames hc.allowAll pc)]
  simp only [ConnSet.den_inter hc.wf hpc]
  constructor
  · intro h x; exact h .TCP x
  · intro h pr x
    cases pr
    · exact h x
    · exact fun hh => hc.noUDP x hh.1
    · exact fun hh => hc.noSCTP x hh.1

/-- an entry of `allowedIngress` belongs to a workload of the input, is TCP-only, and holds
exactly the specification's ingress ports of that workload -/
theorem entry_den {objs : List Obj} {owners : List (String × Pod)} (hv : ValidInput objs owners)
    {l : List Contrib} (hl : allowedIngress objs owners = some l) {n : String} {p : Pod}
    {c : ConnSet} (hm : (n, p, c) ∈ l) :
    (n, p) ∈ owners ∧ TcpOnly c ∧ ∀ x, c.den .TCP x ↔ x ∈ ingressPorts objs p true := by
  obtain ⟨hnd, hall⟩ := allowedIngress_entries hv hl
  obtain ⟨ho, ht⟩ := hall n p c hm
  refine ⟨ho, ht, fun x => ?_⟩
  rw [ingress_lines_exact hv ho x]
  constructor
  · intro hd; exact ⟨l, p, c, hl, hm, hd⟩
  · rintro ⟨l', p', c', hl', hm', hd⟩
    rw [hl] at hl'
    cases hl'
    rw [(entry_unique hnd hm hm').2]
    exact hd


/-! ### the strict reading: without the targetPort comparison -/

theorem reqMatch_num_strict {n : Int} (sp : SvcPort) :
    reqMatch { intVal := n } false sp = (sp.port == n) := by
  rw [Bool.eq_iff_iff]
  simp [reqMatch]

/-- had the analyzer not compared the targetPort for Ingress backends (`byTargetPort = false`),
an Ingress `port.number` would select by the service port number alone: the strict
specification, for Services with distinct port numbers -/
theorem chosen_ingress_number_strict {n : Int} (hn : n ≠ 0) {sps : List SvcPort}
    (hu : sps.Pairwise (fun a b => a.port ≠ b.port)) :
    chosen sps { intVal := n } false = designated (.byNumber n) sps := by
  unfold chosen designated
  rw [isZero_num hn]
  simp only [Bool.false_eq_true, if_false]
  rw [find?_congr' (fun sp _ => reqMatch_num_strict sp)]
  apply find?_toList_eq_filter
  refine hu.imp ?_
  intro a b hab
  simp only [beq_iff_eq, not_and]
  intro ha hb
  exact hab (ha.trans hb.symm)


/-! ### I. the policy side, through the engine theorems -/

theorem valid_ingressEngine {eng : Engine} (hv : eng.Valid) : (ingressEngine eng).Valid := by
  unfold ingressEngine
  split
  · exact hv
  · exact ⟨hv.npRules, hv.anpRules, hv.banpRules, hv.anpSorted⟩

/-- a real pod is never taken for the ingress-controller pod the analysis adds, whatever its name and
namespace (`isPodToItself` compares the `FakePod` flags too) -/
theorem ingress_self_false_of_real {w : Pod} (h : w.fake = false) :
    (ingressPod.name == w.name && ingressPod.ns == w.ns && ingressPod.fake == w.fake) = false := by
  rw [h]
  simp [ingressPod]

/-- the policy connection from the ingress controller to a real workload with legal container
ports, when computed, is well-formed and holds exactly the connections `Spec.allowed` grants
between the ingress-controller pod and the workload's pod -/
theorem policyConn_spec {eng : Engine} (hv : eng.Valid) {n : String} {w : Pod}
    (hrep : w.isRepresentative = false) (hp : ValidPod w)
    (hne : (ingressPod.name == w.name && ingressPod.ns == w.ns && ingressPod.fake == w.fake) = false) {pc : ConnSet}
    (h : policyConn (ingressEngine eng) n w = .ok pc) :
    pc.WF ∧ ∃ nsI nsW, (ingressEngine eng).findNs ingressPod.ns = some nsI ∧
      (ingressEngine eng).findNs w.ns = some nsW ∧
      ∀ pr x, pc.den pr x ↔
        Spec.allowed (ingressEngine eng).toView (.pod ingressPod nsI.labels) (.pod w nsW.labels)
          pr x = true := by
  unfold policyConn ingressSrc toKPeer at h
  have h0 : (ingressPod.ns == "" && ingressPod.isRepresentative) = false := by decide
  simp only [h0, hrep, Bool.and_false, Bool.false_eq_true, if_false] at h
  cases h1 : (ingressEngine eng).findNs ingressPod.ns with
  | none => rw [h1] at h; cases h
  | some nsI =>
    cases h2 : (ingressEngine eng).findNs w.ns with
    | none => rw [h1, h2] at h; cases h
    | some nsW =>
      rw [h1, h2] at h
      have hs : (KPeer.pod ingressPod (some nsI)).Concrete 0 := by
        show ingressPod.isRepresentative = false
        decide
      have hd : (KPeer.pod w (some nsW)).Concrete 0 := hrep
      have hdok : (KPeer.pod w (some nsW)).DstOK := ⟨hrep, hp⟩
      have := (peerConns_spec (ingressEngine eng) (valid_ingressEngine hv)
        (KPeer.pod ingressPod (some nsI)) (KPeer.pod w (some nsW)) 0 0 hs hd hdok hne).1 pc h
      exact ⟨this.1, nsI, nsW, rfl, rfl, this.2⟩

/-- with the workload's namespace known to the engine the policy connection is computed without
error -/
theorem policyConn_ok {eng : Engine} (hv : eng.Valid) {n : String} {w : Pod}
    (hrep : w.isRepresentative = false) (hp : ValidPod w)
    (hne : (ingressPod.name == w.name && ingressPod.ns == w.ns && ingressPod.fake == w.fake) = false) {nsI nsW : NsObj}
    (h1 : (ingressEngine eng).findNs ingressPod.ns = some nsI)
    (h2 : (ingressEngine eng).findNs w.ns = some nsW) :
    ∃ pc, policyConn (ingressEngine eng) n w = .ok pc := by
  unfold policyConn ingressSrc toKPeer
  have h0 : (ingressPod.ns == "" && ingressPod.isRepresentative) = false := by decide
  simp only [h0, hrep, Bool.and_false, Bool.false_eq_true, if_false, h1, h2]
  have hs : (KPeer.pod ingressPod (some nsI)).Concrete 0 := by
    show ingressPod.isRepresentative = false
    decide
  have hd : (KPeer.pod w (some nsW)).Concrete 0 := hrep
  have hdok : (KPeer.pod w (some nsW)).DstOK := ⟨hrep, hp⟩
  have := (peerConns_spec (ingressEngine eng) (valid_ingressEngine hv)
    (KPeer.pod ingressPod (some nsI)) (KPeer.pod w (some nsW)) 0 0 hs hd hdok hne).2
  cases hpc : (ingressEngine eng).peerConns (KPeer.pod ingressPod (some nsI))
      (KPeer.pod w (some nsW)) with
  | ok pc => exact ⟨pc, hpc⟩
  | error err =>
    have := (this err hpc).2.1
    cases this


end Netpol.IngressLayer
