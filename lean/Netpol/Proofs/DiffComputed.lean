import Netpol.Proofs.DiffLayer
import Netpol.Proofs.PermRules
import Netpol.Proofs.FormatEngine
import Netpol.Proofs.SelectorStrings

/-! The hypotheses of property C04 (`DiffLayer.ReportWF`, `DiffLayer.ConnStrInj`) hold of the reports
the model itself computes: `WorldDriver.listFor objs`, the list analysis `runDiff` feeds to
`Diff.compute` (the peers × peers loop followed by the ingress-controller lines).

* `listFor_reportWF`: the computed report is a well-formed relation — under two facts on the input,
  `PodsNotFake` (no pod document carries the `fake` mark of the pods the analyzer adds itself) and
  `NamesNoSemi` (Kubernetes names hold no `;`).
* `listFor_connWF`: every connection set of the computed report is `ConnSet.WF` — under the
  validity of the input policies / container ports (`PoliciesValid`, `PodPortsValid`, `PodsReal`)
  and, for the ingress-controller lines, `IngressLayer.ValidInput`.
* `connStrInj_of_viewOK`, `listFor_connStrInj`: on such views the connection string determines the
  exported view (the printer is injective: "All Connections" / "No Connections" / a comma-joined
  list of `PROTO range,range` groups with decimal numbers).

Core Lean only. -/
namespace Netpol
namespace DiffComputed
open Engine Diff DiffLayer Structure PermLayer WorldDriver IngressA

/-! ### the hypotheses on the input -/

instance (s : String) : Decidable (NoSemi s) := by unfold NoSemi; infer_instance

/-- no pod of the input carries the `fake` mark (`FakePod`: set by the analyzer on the pods it adds
itself — the ingress-controller pod, the representative peers of the exposure analysis; no
Kubernetes field, the parser never sets it) -/
def PodsNotFake (objs : List Obj) : Prop := ∀ p ∈ podsIn objs, p.fake = false

instance (objs : List Obj) : Decidable (PodsNotFake objs) := by unfold PodsNotFake; infer_instance

/-- the names that make up the workload strings hold no `;` (Kubernetes names are DNS labels /
subdomains, kinds are identifiers) -/
def NamesNoSemi (objs : List Obj) : Prop :=
  ∀ p ∈ podsIn objs, NoSemi p.ns ∧ NoSemi p.name ∧ NoSemi p.ownerName ∧ NoSemi p.ownerKind

instance (objs : List Obj) : Decidable (NamesNoSemi objs) := by unfold NamesNoSemi; infer_instance

theorem noSemi_append {a b : String} (ha : NoSemi a) (hb : NoSemi b) : NoSemi (a ++ b) := by
  unfold NoSemi at *
  rw [String.toList_append, List.mem_append]
  exact fun h => h.elim ha hb

theorem workloadName_noSemi {p : Pod}
    (h : NoSemi p.ns ∧ NoSemi p.name ∧ NoSemi p.ownerName ∧ NoSemi p.ownerKind) :
    NoSemi (workloadName p) := by
  obtain ⟨h1, h2, h3, h4⟩ := h
  have lit : ∀ s : String, (';' ∉ s.toList) → NoSemi s := fun _ h => h
  unfold workloadName
  split
  · exact noSemi_append (noSemi_append (lit "{" (by decide)) h2) (lit "}" (by decide))
  · have hn : NoSemi (if p.ownerName == "" then p.name else p.ownerName) := by split <;> assumption
    have hk : NoSemi (if p.ownerKind == "" then "Pod" else p.ownerKind) := by
      split
      · exact lit "Pod" (by decide)
      · exact h4
    exact noSemi_append (noSemi_append (noSemi_append (noSemi_append (noSemi_append h1
      (lit "/" (by decide))) hn) (lit "[" (by decide))) hk) (lit "]" (by decide))

/-- the name of a pod that is not fake is not the string of the ingress-controller pseudo peer -/
theorem workloadName_ne_ic {p : Pod} (h : p.fake = false) :
    workloadName p ≠ Format.ingressPodString := by
  intro heq
  have h1 : (workloadName p).toList.getLast? = some ']' := by
    unfold workloadName
    rw [h]
    simp only [Bool.false_eq_true, if_false, String.toList_append]
    have : "]".toList = [']'] := by decide
    rw [this, List.getLast?_concat]
  rw [heq] at h1
  revert h1
  decide

theorem ipRange_ne_ic (r : Iv) : (LPeer.ip r).str ≠ Format.ingressPodString := by
  intro h
  exact workloadName_ne_ipRange ingressPod r (by rw [h]; decide)

/-! ### the shape of `listFor` -/

theorem listFor_inv {objs : List Obj} {es : List Entry} {peers : List LPeer}
    (h : listFor objs = .ok (es, peers)) :
    (es = [] ∧ peers = []) ∨
    ∃ (eng : Engine) (owners : List (String × Pod)) (entries ing : List Entry) (blocked : List String),
      Engine.build objs = .ok eng ∧ eng.peersList = .ok peers ∧ eng.podOwnersMap = .ok owners ∧
      eng.connsBetweenPeers peers "" = .ok entries ∧
      ingressEntries eng objs owners "" = .ok (ing, blocked) ∧ es = entries ++ sortIngress ing := by
  unfold listFor at h
  cases hb : Engine.build objs with
  | error e => rw [hb] at h; cases h
  | ok eng =>
    rw [hb] at h
    simp only at h
    split at h
    · cases h; exact Or.inl ⟨rfl, rfl⟩
    · right
      cases hp : eng.peersList with
      | error e => simp [hp, bind, Except.bind] at h
      | ok peers' =>
        cases ho : eng.podOwnersMap with
        | error e => simp [hp, ho, bind, Except.bind] at h
        | ok owners =>
          cases hc : eng.connsBetweenPeers peers' "" with
          | error e => simp [hp, ho, hc, bind, Except.bind] at h
          | ok entries =>
            cases hi : ingressEntries eng objs owners "" with
            | error e => simp [hp, ho, hc, hi, bind, Except.bind] at h
            | ok res =>
              obtain ⟨ing, blocked⟩ := res
              simp only [hp, ho, hc, hi, bind, Except.bind, pure, Except.pure, Except.ok.injEq,
                Prod.mk.injEq] at h
              obtain ⟨rfl, rfl⟩ := h
              exact ⟨eng, owners, entries, ing, blocked, rfl, hp, ho, hc, hi, rfl⟩

theorem mem_sortIngress {ing : List Entry} {x : Entry} : x ∈ sortIngress ing ↔ x ∈ ing := by
  unfold sortIngress
  exact List.mem_mergeSort

theorem sortIngress_perm (ing : List Entry) : (sortIngress ing).Perm ing := by
  unfold sortIngress
  exact List.mergeSort_perm ing _

/-! ### `ReportWF` of a list of entries whose ends lie in a list of distinctly named peers -/

theorem reportWF_of {W : List LPeer} {es : List Entry}
    (hnd : (es.map fun x => (x.src.str, x.dst.str)).Nodup)
    (hnoip : ∀ x ∈ es, ¬ (x.src.isIP = true ∧ x.dst.isIP = true))
    (hends : ∀ x ∈ es, x.src ∈ W ∧ x.dst ∈ W)
    (hWn : (W.map (·.str)).Nodup)
    (hWip : ∀ r, LPeer.ip r ∈ W → ValidR r)
    (hWdisj : ∀ r r', LPeer.ip r ∈ W → LPeer.ip r' ∈ W → ∀ x, r.mem x → r'.mem x → r = r')
    (hWwl : ∀ n pod, LPeer.wl n pod ∈ W → NoSemi n ∧ NotIP n) :
    ReportWF (es.map ofEntry) := by
  have hmem : ∀ p ∈ es.map ofEntry, ∃ x ∈ es, p.src = x.src ∧ p.dst = x.dst := by
    intro p hp
    obtain ⟨x, hx, rfl⟩ := List.mem_map.mp hp
    exact ⟨x, hx, rfl, rfl⟩
  have hendW : ∀ p ∈ es.map ofEntry, ∀ q, (p.src = q ∨ p.dst = q) → q ∈ W := by
    intro p hp q hq
    obtain ⟨x, hx, e1, e2⟩ := hmem p hp
    rcases hq with rfl | rfl
    · rw [e1]; exact (hends x hx).1
    · rw [e2]; exact (hends x hx).2
  refine ⟨?_, ?_, ?_, ?_, ?_, ?_⟩
  · rw [List.map_map]
    exact hnd
  · intro p hp
    obtain ⟨x, hx, e1, e2⟩ := hmem p hp
    rw [e1, e2]
    exact hnoip x hx
  · intro p hp r hr
    exact hWip r (hendW p hp _ hr)
  · intro p hp q hq r r' hr hr'
    exact hWdisj r r' (hendW p hp _ hr) (hendW q hq _ hr')
  · intro p hp n pod h
    exact hWwl n pod (hendW p hp _ h)
  · intro p hp q hq n pod pod' h h'
    have m1 := hendW p hp _ h
    have m2 := hendW q hq _ h'
    have := Format.eq_of_nodup_map' hWn m1 m2 rfl
    cases this
    rfl

/-- the peers of the engine `build` returns: valid, pairwise disjoint ranges; workloads named by
`workloadName` of a pod of the input -/
theorem peers_facts {objs : List Obj} {eng : Engine} {peers : List LPeer}
    (hb : Engine.build objs = .ok eng) (hp : eng.peersList = .ok peers) :
    (∀ r, LPeer.ip r ∈ peers → r ∈ eng.disjointIPBlocks) ∧
    (∀ n pod, LPeer.wl n pod ∈ peers → n = workloadName pod ∧ pod ∈ podsIn objs) := by
  constructor
  · intro r hr
    obtain ⟨owners, _, rfl⟩ := peersList_eq hp
    rcases List.mem_append.mp hr with h | h
    · obtain ⟨r', hr', e⟩ := List.mem_map.mp h
      cases e
      exact hr'
    · obtain ⟨x, _, e⟩ := List.mem_map.mp h
      cases e
  · intro n pod hm
    obtain ⟨h1, h2⟩ := peersList_wl hp hm
    exact ⟨h1, PermRules.build_pods_subset hb h2⟩

/-- **the computed report is a well-formed relation** (`DiffLayer.ReportWF`, the hypothesis of the
C04 theorems): no pair of names twice, no IP–IP line, valid pairwise disjoint ranges, workload names
without `;` that are no range strings, one workload per name — the ingress-controller lines
included -/
theorem listFor_reportWF {objs : List Obj} {es : List Entry} {peers : List LPeer}
    (h : listFor objs = .ok (es, peers)) (hf : PodsNotFake objs) (hs : NamesNoSemi objs) :
    ReportWF (es.map ofEntry) := by
  rcases listFor_inv h with ⟨rfl, rfl⟩ |
    ⟨eng, owners, entries, ing, blocked, hb, hp, ho, hc, hi, rfl⟩
  · exact reportWF_of (W := []) List.nodup_nil (fun x hx => by cases hx) (fun x hx => by cases hx)
      List.nodup_nil (fun r hr => by cases hr) (fun r r' hr => by cases hr)
      (fun n pod hm => by cases hm)
  · obtain ⟨hip, hwl⟩ := peers_facts hb hp
    obtain ⟨hndI, hsrc⟩ := Format.ingressEntries_props hi
    have hic : ∀ p ∈ peers, p.str ≠ Format.ingressPodString := by
      intro p hpm
      cases p with
      | ip r => exact ipRange_ne_ic r
      | wl n pod =>
        obtain ⟨e1, e2⟩ := hwl n pod hpm
        show n ≠ _
        rw [e1]
        exact workloadName_ne_ic (hf pod e2)
    apply reportWF_of (W := Format.icPeer :: peers)
    · -- one line per pair of names
      rw [List.map_append, List.nodup_append]
      refine ⟨Properties.C05.report_no_dup_pair hp hc, ?_, ?_⟩
      · have hI : (ing.map fun x : Entry => (x.src.str, x.dst.str)).Nodup := by
          rw [List.Nodup, List.pairwise_map]
          rw [List.Nodup, List.pairwise_map] at hndI
          exact hndI.imp (fun hne heq => hne (Prod.mk.inj heq).2)
        exact (((sortIngress_perm ing).map _).nodup_iff).mpr hI
      · intro a ha b hb' heq
        obtain ⟨x, hx, rfl⟩ := List.mem_map.mp ha
        obtain ⟨y, hy, rfl⟩ := List.mem_map.mp hb'
        have h1 := (Prod.mk.inj heq).1
        rw [(hsrc y (mem_sortIngress.mp hy)).1, Format.icPeer_str] at h1
        exact hic x.src (Properties.C05.entries_from_peers hc x hx).1 h1
    · intro x hx
      rcases List.mem_append.mp hx with hx | hx
      · exact Properties.C05.no_ip_ip_pair hc x hx
      · rw [(hsrc x (mem_sortIngress.mp hx)).1]
        rintro ⟨h1, _⟩
        cases h1
    · intro x hx
      rcases List.mem_append.mp hx with hx | hx
      · have := Properties.C05.entries_from_peers hc x hx
        exact ⟨List.mem_cons_of_mem _ this.1, List.mem_cons_of_mem _ this.2⟩
      · obtain ⟨e1, n, pod, hnp, e2⟩ := hsrc x (mem_sortIngress.mp hx)
        rw [e1, e2]
        exact ⟨List.mem_cons_self, List.mem_cons_of_mem _ (Format.owners_in_peers hp ho hnp)⟩
    · rw [List.map_cons, List.nodup_cons]
      refine ⟨?_, peers_names_nodup hp⟩
      intro hm
      obtain ⟨p, hpm, e⟩ := List.mem_map.mp hm
      exact hic p hpm (by rw [e, Format.icPeer_str])
    · intro r hr
      rcases List.mem_cons.mp hr with e | hr
      · cases e
      · have := partition_wf _ r (hip r hr)
        exact ⟨this.2.1, this.1, this.2.2⟩
    · intro r r' hr hr' x hx hx'
      rcases List.mem_cons.mp hr with e | hr
      · cases e
      rcases List.mem_cons.mp hr' with e | hr'
      · cases e
      exact partition_owner_unique _ (hip r hr) (hip r' hr') hx hx'
    · intro n pod hm
      rcases List.mem_cons.mp hm with e | hm
      · cases e
        refine ⟨?_, fun r => workloadName_ne_ipRange ingressPod r⟩
        unfold NoSemi
        decide
      · obtain ⟨e1, e2⟩ := hwl n pod hm
        rw [e1]
        exact ⟨workloadName_noSemi (hs pod e2), fun r => workloadName_ne_ipRange pod r⟩

/-! ### the printer of the exported view is injective -/

section Printer
open SelStr

theorem int_toString_toList {n : Int} (h : 0 ≤ n) : (toString n).toList = D n.toNat := by
  cases n with
  | ofNat m =>
    show (toString m).toList = D m
    simp [toString, Nat.toList_repr, D]
  | negSucc m => omega

/-- a range as printed: `lo-hi`, or `lo` alone for a single port -/
def ivChars (i : Iv) : List Char :=
  if i.lo = i.hi then D i.lo.toNat else D i.lo.toNat ++ '-' :: D i.hi.toNat

def protoChars (pr : Proto) : List Char := pr.toStr.toList

/-- the first comma-separated token of a group: `PROTO `, followed by the first range if any -/
def headTok (x : Proto × CSet) : List Char :=
  protoChars x.1 ++ ' ' :: (match x.2 with | [] => [] | i :: _ => ivChars i)

/-- the comma-separated tokens of a group -/
def groupTokens (x : Proto × CSet) : List (List Char) := headTok x :: x.2.tail.map ivChars

/-- the comma-separated tokens of a view -/
def tokens (m : List (Proto × CSet)) : List (List Char) := m.flatMap groupTokens

theorem dash_not_mem_D (k : Nat) : '-' ∉ D k := fun h => by
  have := D_digit h; revert this; decide

theorem D_ne_nil (k : Nat) : D k ≠ [] := Nat.toDigits_ne_nil

theorem D_head (k : Nat) : ∃ c r, D k = c :: r ∧ c.isDigit = true := by
  cases h : D k with
  | nil => exact absurd h (D_ne_nil k)
  | cons c r => exact ⟨c, r, rfl, D_digit (by rw [h]; exact List.mem_cons_self)⟩

theorem ivChars_head (i : Iv) : ∃ c r, ivChars i = c :: r ∧ c.isDigit = true := by
  obtain ⟨c, r, h, hc⟩ := D_head i.lo.toNat
  unfold ivChars
  split
  · exact ⟨c, r, h, hc⟩
  · exact ⟨c, r ++ '-' :: D i.hi.toNat, by rw [h]; rfl, hc⟩

theorem ivChars_inj {i j : Iv} (hi : 0 ≤ i.lo ∧ 0 ≤ i.hi) (hj : 0 ≤ j.lo ∧ 0 ≤ j.hi)
    (h : ivChars i = ivChars j) : i = j := by
  unfold ivChars at h
  obtain ⟨a, b⟩ := i
  obtain ⟨c, d⟩ := j
  simp only at h hi hj
  split at h <;> split at h
  · have := D_inj h
    rename_i h1 h2
    simp only [Iv.mk.injEq]
    omega
  · exfalso
    apply dash_not_mem_D a.toNat
    rw [h]
    exact List.mem_append_right _ List.mem_cons_self
  · exfalso
    apply dash_not_mem_D c.toNat
    rw [← h]
    exact List.mem_append_right _ List.mem_cons_self
  · obtain ⟨e1, e2⟩ := split_unique (dash_not_mem_D _) (dash_not_mem_D _) h
    have e1 := D_inj e1
    have e2 := D_inj e2
    simp only [Iv.mk.injEq]
    omega

theorem protoChars_head (pr : Proto) : ∃ c r, protoChars pr = c :: r ∧ c.isDigit = false ∧
    (c = 'S' ∨ c = 'T' ∨ c = 'U') := by
  cases pr
  · exact ⟨'T', ['C', 'P'], by decide, by decide, by decide⟩
  · exact ⟨'U', ['D', 'P'], by decide, by decide, by decide⟩
  · exact ⟨'S', ['C', 'T', 'P'], by decide, by decide, by decide⟩

theorem space_not_mem_protoChars (pr : Proto) : ' ' ∉ protoChars pr := by
  cases pr <;> decide

theorem protoChars_inj {p q : Proto} (h : protoChars p = protoChars q) : p = q := by
  cases p <;> cases q <;> first | rfl | (revert h; decide)

theorem headTok_head (x : Proto × CSet) : ∃ c r, headTok x = c :: r ∧ c.isDigit = false ∧
    (c = 'S' ∨ c = 'T' ∨ c = 'U') := by
  obtain ⟨c, r, h, hc⟩ := protoChars_head x.1
  exact ⟨c, _, by unfold headTok; rw [h]; rfl, hc⟩

/-- the tokens that continue a group start with a digit, the token that opens a group does not -/
theorem split_tokens : ∀ (A A' B B' : List (List Char)),
    (∀ t ∈ A, ∃ c r, t = c :: r ∧ c.isDigit = true) →
    (∀ t ∈ A', ∃ c r, t = c :: r ∧ c.isDigit = true) →
    (∀ t rest, B = t :: rest → ∃ c r, t = c :: r ∧ c.isDigit = false) →
    (∀ t rest, B' = t :: rest → ∃ c r, t = c :: r ∧ c.isDigit = false) →
    A ++ B = A' ++ B' → A = A' ∧ B = B'
  | [], [], _, _, _, _, _, _, h => ⟨rfl, h⟩
  | [], t :: A', B, B', _, hA', hB, _, h => by
    exfalso
    simp only [List.nil_append, List.cons_append] at h
    obtain ⟨c, r, e, hc⟩ := hB t _ h
    obtain ⟨c', r', e', hc'⟩ := hA' t List.mem_cons_self
    rw [e] at e'
    cases e'
    rw [hc] at hc'
    cases hc'
  | t :: A, [], B, B', hA, _, _, hB', h => by
    exfalso
    simp only [List.nil_append, List.cons_append] at h
    obtain ⟨c, r, e, hc⟩ := hB' t _ h.symm
    obtain ⟨c', r', e', hc'⟩ := hA t List.mem_cons_self
    rw [e] at e'
    cases e'
    rw [hc] at hc'
    cases hc'
  | t :: A, t' :: A', B, B', hA, hA', hB, hB', h => by
    simp only [List.cons_append, List.cons.injEq] at h
    obtain ⟨e, h⟩ := h
    obtain ⟨e1, e2⟩ := split_tokens A A' B B' (fun t ht => hA t (List.mem_cons_of_mem _ ht))
      (fun t ht => hA' t (List.mem_cons_of_mem _ ht)) hB hB' h
    exact ⟨by rw [e, e1], e2⟩

theorem tokens_cons (x : Proto × CSet) (m : List (Proto × CSet)) :
    tokens (x :: m) = headTok x :: (x.2.tail.map ivChars ++ tokens m) := by
  simp [tokens, groupTokens]

theorem tokens_headAlpha (m : List (Proto × CSet)) :
    ∀ t rest, tokens m = t :: rest → ∃ c r, t = c :: r ∧ c.isDigit = false := by
  intro t rest h
  cases m with
  | nil => cases h
  | cons x m =>
    rw [tokens_cons] at h
    cases h
    obtain ⟨c, r, e, hc, _⟩ := headTok_head x
    exact ⟨c, r, e, hc⟩

theorem map_inj_on {α β : Type} (f : α → β) : ∀ (l l' : List α),
    (∀ a ∈ l, ∀ b ∈ l', f a = f b → a = b) → l.map f = l'.map f → l = l'
  | [], [], _, _ => rfl
  | [], _ :: _, _, h => by cases h
  | _ :: _, [], _, h => by cases h
  | a :: l, b :: l', hf, h => by
    simp only [List.map_cons, List.cons.injEq] at h
    rw [hf a List.mem_cons_self b List.mem_cons_self h.1,
      map_inj_on f l l' (fun a ha b hb => hf a (List.mem_cons_of_mem _ ha) b (List.mem_cons_of_mem _ hb)) h.2]

/-- the ranges of a view are not negative -/
def NonNeg (m : List (Proto × CSet)) : Prop := ∀ x ∈ m, ∀ i ∈ x.2, 0 ≤ i.lo ∧ 0 ≤ i.hi

/-- a view is recovered from its tokens -/
theorem tokens_inj : ∀ (m m' : List (Proto × CSet)), NonNeg m → NonNeg m' → tokens m = tokens m' →
    m = m'
  | [], [], _, _, _ => rfl
  | [], x :: m', _, _, h => by rw [tokens_cons] at h; cases h
  | x :: m, [], _, _, h => by rw [tokens_cons] at h; cases h
  | x :: m, x' :: m', hm, hm', h => by
    rw [tokens_cons, tokens_cons] at h
    simp only [List.cons.injEq] at h
    obtain ⟨hh, ht⟩ := h
    have hx := hm x List.mem_cons_self
    have hx' := hm' x' List.mem_cons_self
    have dig : ∀ (l : CSet), ∀ t ∈ l.map ivChars, ∃ c r, t = c :: r ∧ c.isDigit = true := by
      intro l t ht
      obtain ⟨i, _, rfl⟩ := List.mem_map.mp ht
      exact ivChars_head i
    obtain ⟨e1, e2⟩ := split_tokens _ _ _ _ (dig _) (dig _) (tokens_headAlpha m) (tokens_headAlpha m') ht
    have ih := tokens_inj m m' (fun y hy => hm y (List.mem_cons_of_mem _ hy))
      (fun y hy => hm' y (List.mem_cons_of_mem _ hy)) e2
    obtain ⟨pr, l⟩ := x
    obtain ⟨pr', l'⟩ := x'
    unfold headTok at hh
    simp only at hh e1 hx hx'
    obtain ⟨f1, f2⟩ := split_unique (space_not_mem_protoChars _) (space_not_mem_protoChars _) hh
    have f1 := protoChars_inj f1
    subst f1
    rw [ih]
    congr 2
    cases l with
    | nil =>
      cases l' with
      | nil => rfl
      | cons j r' =>
        exfalso
        obtain ⟨c, r, e, _⟩ := ivChars_head j
        simp only [e] at f2
        cases f2
    | cons i r =>
      cases l' with
      | nil =>
        exfalso
        obtain ⟨c, r, e, _⟩ := ivChars_head i
        simp only [e] at f2
        cases f2
      | cons j r' =>
        simp only [List.tail_cons] at e1
        rw [ivChars_inj (hx i List.mem_cons_self) (hx' j List.mem_cons_self) f2,
          map_inj_on ivChars r r' (fun a ha b hb hab =>
            ivChars_inj (hx a (List.mem_cons_of_mem _ ha)) (hx' b (List.mem_cons_of_mem _ hb)) hab) e1]

theorem ijoin_append (sep : Char) : ∀ (A B : List (List Char)), A ≠ [] → B ≠ [] →
    ijoin sep (A ++ B) = ijoin sep A ++ sep :: ijoin sep B
  | [], _, h, _ => absurd rfl h
  | [a], b :: bs, _, _ => by rw [ijoin_single]; exact ijoin_cons_cons sep a b bs
  | [_], [], _, h => absurd rfl h
  | a :: a2 :: as, B, _, hB => by
    rw [List.cons_append, List.cons_append, ijoin_cons_cons, ← List.cons_append,
      ijoin_append sep (a2 :: as) B (by simp) hB, ijoin_cons_cons]
    simp

theorem ijoin_flatMap {α : Type} (sep : Char) (g : α → List (List Char)) (hg : ∀ x, g x ≠ []) :
    ∀ L : List α, ijoin sep (L.flatMap g) = ijoin sep (L.map fun x => ijoin sep (g x))
  | [] => rfl
  | [x] => by simp [ijoin_single]
  | x :: y :: L => by
    have hne : (y :: L).flatMap g ≠ [] := by
      rw [List.flatMap_cons]
      intro h
      exact hg y (List.append_eq_nil_iff.mp h).1
    rw [List.flatMap_cons, ijoin_append sep _ _ (hg x) hne, ijoin_flatMap sep g hg (y :: L),
      List.map_cons, List.map_cons, List.map_cons, ijoin_cons_cons]

/-- a group as printed is its tokens joined by commas -/
theorem ijoin_groupTokens (x : Proto × CSet) :
    ijoin ',' (groupTokens x) = protoChars x.1 ++ ' ' :: ijoin ',' (x.2.map ivChars) := by
  obtain ⟨pr, l⟩ := x
  unfold groupTokens headTok
  cases l with
  | nil => simp [ijoin_single, ijoin_nil]
  | cons i r =>
    cases r with
    | nil => simp [ijoin_single]
    | cons j r' =>
      simp only [List.tail_cons, List.map_cons]
      rw [ijoin_cons_cons, ijoin_cons_cons]
      simp

theorem ivStr_toList {i : Iv} (h : 0 ≤ i.lo ∧ 0 ≤ i.hi) :
    (if i.lo != i.hi then toString i.lo ++ "-" ++ toString i.hi else toString i.lo).toList =
      ivChars i := by
  unfold ivChars
  by_cases e : i.lo = i.hi
  · have : (i.lo != i.hi) = false := by simp [e]
    rw [this, if_pos e]
    simp only [Bool.false_eq_true, if_false]
    exact int_toString_toList h.1
  · have : (i.lo != i.hi) = true := by simpa using e
    rw [this, if_neg e]
    simp only [if_true, String.toList_append, int_toString_toList h.1, int_toString_toList h.2]
    have : "-".toList = ['-'] := by decide
    rw [this]
    simp

/-- the string of a non-empty view without the AllowAll flag: its tokens joined by commas -/
theorem connStr_toList {m : List (Proto × CSet)} (hm : NonNeg m) (hne : m ≠ []) :
    (ConnSet.connStrFromProps false m).toList = ijoin ',' (tokens m) := by
  have he : m.isEmpty = false := by cases m <;> simp_all
  unfold ConnSet.connStrFromProps tokens
  simp only [Bool.false_eq_true, if_false, he]
  rw [String.toList_intercalate, ijoin_flatMap ',' groupTokens (fun x => by simp [groupTokens]),
    List.map_map]
  have : ",".toList = [','] := by decide
  rw [this]
  show ijoin ',' _ = _
  congr 1
  apply List.map_congr_left
  intro x hx
  obtain ⟨pr, l⟩ := x
  rw [ijoin_groupTokens]
  simp only [Function.comp, ConnSet.protoStr, String.toList_append, String.toList_intercalate,
    List.map_map]
  have h1 : " ".toList = [' '] := by decide
  rw [h1, this]
  show protoChars pr ++ [' '] ++ ijoin ',' _ = _
  have : List.map (String.toList ∘ fun i : Iv =>
      if i.lo != i.hi then toString i.lo ++ "-" ++ toString i.hi else toString i.lo) l =
      List.map ivChars l := by
    apply List.map_congr_left
    intro i hi
    exact ivStr_toList (hm _ hx i hi)
  rw [this]
  simp

/-- what is asked of an exported view: no entry next to the AllowAll flag, no negative port -/
def ViewOK (all : Bool) (m : List (Proto × CSet)) : Prop := (all = true → m = []) ∧ NonNeg m

theorem connStr_head {m : List (Proto × CSet)} (hm : NonNeg m) (hne : m ≠ []) :
    ∃ c r, (ConnSet.connStrFromProps false m).toList = c :: r ∧ (c = 'S' ∨ c = 'T' ∨ c = 'U') := by
  rw [connStr_toList hm hne]
  cases m with
  | nil => exact absurd rfl hne
  | cons x m =>
    rw [tokens_cons]
    obtain ⟨c, r, e, _, hc⟩ := headTok_head x
    rw [e]
    cases h : List.map ivChars x.2.tail ++ tokens m with
    | nil => exact ⟨c, r, by rw [ijoin_single], hc⟩
    | cons b bs => exact ⟨c, _, by rw [ijoin_cons_cons]; rfl, hc⟩

/-- **the connection string determines the exported view** -/
theorem connStr_inj {a a' : Bool} {m m' : List (Proto × CSet)} (h : ViewOK a m) (h' : ViewOK a' m')
    (heq : ConnSet.connStrFromProps a m = ConnSet.connStrFromProps a' m') : a = a' ∧ m = m' := by
  have hall : ∀ m, ConnSet.connStrFromProps true m = "All Connections" := fun _ => rfl
  have hnone : ConnSet.connStrFromProps false [] = "No Connections" := rfl
  have hA : "All Connections".toList = 'A' :: "ll Connections".toList := by decide
  have hN : "No Connections".toList = 'N' :: "o Connections".toList := by decide
  have clash : ∀ {s : String} {c x : Char} {r t : List Char}, s.toList = c :: r → s.toList = x :: t →
      (c = 'S' ∨ c = 'T' ∨ c = 'U') → x ≠ 'S' ∧ x ≠ 'T' ∧ x ≠ 'U' → False := by
    intro s c x r t h1 h2 hc hx
    rw [h1] at h2
    cases h2
    rcases hc with rfl | rfl | rfl
    · exact hx.1 rfl
    · exact hx.2.1 rfl
    · exact hx.2.2 rfl
  cases a with
  | true =>
    have e := h.1 rfl
    subst e
    cases a' with
    | true => exact ⟨rfl, (h'.1 rfl).symm⟩
    | false =>
      exfalso
      rw [hall] at heq
      by_cases hm' : m' = []
      · subst hm'
        rw [hnone] at heq
        revert heq
        decide
      · obtain ⟨c, r, e, hc⟩ := connStr_head h'.2 hm'
        rw [← heq] at e
        exact clash e hA hc (by decide)
  | false =>
    cases a' with
    | true =>
      exfalso
      rw [hall] at heq
      by_cases hm : m = []
      · subst hm
        rw [hnone] at heq
        revert heq
        decide
      · obtain ⟨c, r, e, hc⟩ := connStr_head h.2 hm
        rw [heq] at e
        exact clash e hA hc (by decide)
    | false =>
      refine ⟨rfl, ?_⟩
      by_cases hm : m = []
      · subst hm
        by_cases hm' : m' = []
        · exact hm'.symm
        · exfalso
          obtain ⟨c, r, e, hc⟩ := connStr_head h'.2 hm'
          rw [← heq, hnone] at e
          exact clash e hN hc (by decide)
      · by_cases hm' : m' = []
        · exfalso
          subst hm'
          obtain ⟨c, r, e, hc⟩ := connStr_head h.2 hm
          rw [heq, hnone] at e
          exact clash e hN hc (by decide)
        · have := congrArg String.toList heq
          rw [connStr_toList h.2 hm, connStr_toList h'.2 hm'] at this
          have hcomma : ∀ m : List (Proto × CSet), ∀ v ∈ tokens m, ',' ∉ v := by
            intro m v hv
            obtain ⟨x, _, hv⟩ := List.mem_flatMap.mp hv
            have hiv : ∀ i : Iv, ',' ∉ ivChars i := by
              intro i hc
              unfold ivChars at hc
              split at hc
              · have := D_digit hc; revert this; decide
              · rcases List.mem_append.mp hc with hc | hc
                · have := D_digit hc; revert this; decide
                · rcases List.mem_cons.mp hc with hc | hc
                  · revert hc; decide
                  · have := D_digit hc; revert this; decide
            rcases List.mem_cons.mp hv with rfl | hv
            · intro hc
              unfold headTok at hc
              rcases List.mem_append.mp hc with hc | hc
              · revert hc
                unfold protoChars
                cases x.1 <;> decide
              · rcases List.mem_cons.mp hc with hc | hc
                · revert hc; decide
                · cases hx : x.2 with
                  | nil => rw [hx] at hc; cases hc
                  | cons i r => rw [hx] at hc; exact hiv i hc
            · obtain ⟨i, _, rfl⟩ := List.mem_map.mp hv
              exact hiv i
          have hne : ∀ m : List (Proto × CSet), m ≠ [] → tokens m ≠ [] := by
            intro m hm
            cases m with
            | nil => exact absurd rfl hm
            | cons x m => rw [tokens_cons]; simp
          exact tokens_inj m m' h.2 h'.2
            (ijoin_inj_ne ',' _ _ (hcomma m) (hcomma m') (hne m hm) (hne m' hm') this)

/-- `ConnStrInj` of a report whose views are `ViewOK` -/
theorem connStrInj_of_viewOK {R : List P2P} (h : ∀ p ∈ R, ViewOK p.all p.ports) : ConnStrInj R :=
  fun p hp q hq heq => connStr_inj (h p hp) (h q hq) heq

/-- the exported view of a well-formed connection set is `ViewOK` -/
theorem viewOK_of_wf {c : ConnSet} (hc : c.WF) : ViewOK c.allowAll c.protocolsAndPorts := by
  constructor
  · intro ha
    have hn := (ConnSet.noProtos_iff c).mp (hc.1 ha)
    unfold ConnSet.protocolsAndPorts
    simp [hn]
  · intro x hx i hi
    unfold ConnSet.protocolsAndPorts at hx
    obtain ⟨pr, _, hx⟩ := List.mem_filterMap.mp hx
    obtain ⟨ps, hps, rfl⟩ := Option.map_eq_some_iff.mp hx
    have hw := (hc.2 pr ps hps).1
    have h1 := hw.2 i hi
    have h2 := hw.1.2 i hi
    omega

end Printer

/-! ### the connection sets of the computed report are well-formed

The engine theorems (`EngineLayer.peerConns_spec`) give well-formedness together with the
denotation, for peers the specification speaks about (single addresses). Well-formedness alone needs
no such restriction: it is re-proved here along the same lines for every pair of peers, IP ranges
included. -/

section ConnWF

theorem allowedConns_go_canonical (np : NetPol) (other dst : KPeer) (hd : dst.DstOK) :
    ∀ (rules : List NPRule), (∀ r ∈ rules, r.Valid) → ∀ res : ConnSet, res.Canonical → ∀ c,
      NetPol.allowedConns.go np other dst res rules = .ok c → c.Canonical
  | [], _, res, hcan, c, h => by
    rw [NetPol.allowedConns.go_nil] at h
    cases h
    exact hcan
  | r :: rest, hv, res, hcan, c, h => by
    rw [NetPol.allowedConns.go_cons] at h
    cases hs : np.ruleSelectsPeer r.peers other with
    | error e => rw [hs] at h; cases h
    | ok sel =>
      rw [hs] at h
      simp only [bind, Except.bind] at h
      cases sel with
      | false =>
        simp only [Bool.not_false, if_true] at h
        exact allowedConns_go_canonical np other dst hd rest
          (fun r' h' => hv r' (List.mem_cons_of_mem _ h')) res hcan c h
      | true =>
        simp only [Bool.not_true, Bool.false_eq_true, if_false] at h
        cases hrc : NetPol.ruleConnections r.ports (some dst) with
        | error e => rw [hrc] at h; cases h
        | ok rc =>
          rw [hrc] at h
          simp only at h
          have hw := (NetPol.ruleConnections_dst_ok r.ports dst 0 hd (hv r List.mem_cons_self).1 rc hrc).1
          exact allowedConns_go_canonical np other dst hd rest
            (fun r' h' => hv r' (List.mem_cons_of_mem _ h')) (res.union rc)
            (ConnSet.canonical_union_wfe hcan hw) c h

theorem allowedConns_wf (np : NetPol) (rules : List NPRule) (other dst : KPeer) (hd : dst.DstOK)
    (hv : ∀ r ∈ rules, r.Valid) {c : ConnSet} (h : np.allowedConns rules other dst = .ok c) :
    c.WF :=
  (allowedConns_go_canonical np other dst hd rules hv (ConnSet.mk' false) (ConnSet.canonical_mk false)
    c h).1

theorem npStep_wf {e : Engine} (hv : e.Valid) (src dst : KPeer) (hd : dst.DstOK) (isIngress : Bool)
    {np : NetPol} (hnp : np ∈ e.netpols) {c : ConnSet} (h : npStep src dst isIngress np = .ok c) :
    c.WF := by
  unfold npStep at h
  cases isIngress with
  | true => exact allowedConns_wf np np.ingress src dst hd (hv.npRules np hnp).1 h
  | false => exact allowedConns_wf np np.egress dst dst hd (hv.npRules np hnp).2 h

theorem npFold_wf (src dst : KPeer) (isIngress : Bool) : ∀ (pols : List NetPol),
    (∀ np ∈ pols, ∀ c, npStep src dst isIngress np = .ok c → c.WF) → ∀ acc : ConnSet, acc.WF →
    ∀ res, pols.foldlM (npFold src dst isIngress) acc = .ok res → res.WF
  | [], _, acc, hacc, res, h => by cases h; exact hacc
  | np :: rest, hstep, acc, hacc, res, h => by
    rw [List.foldlM_cons] at h
    cases hs : npStep src dst isIngress np with
    | error err =>
      have : npFold src dst isIngress acc np = .error err := by simp only [npFold, hs]; rfl
      rw [this] at h
      cases h
    | ok c =>
      have : npFold src dst isIngress acc np = .ok (acc.union c) := by simp only [npFold, hs]; rfl
      rw [this] at h
      exact npFold_wf src dst isIngress rest (fun np' h' => hstep np' (List.mem_cons_of_mem _ h'))
        (acc.union c) (ConnSet.wf_union hacc (hstep np List.mem_cons_self c hs)) res h

theorem netpolConns_wf {e : Engine} (hv : e.Valid) (src dst : KPeer) (hd : dst.DstOK)
    (isIngress : Bool) {c : ConnSet} (h : e.netpolConns src dst isIngress = .ok (some c)) : c.WF := by
  rw [netpolConns_eq] at h
  split at h
  · cases h
  · cases hf : (e.policiesSelecting (selfPeer src dst isIngress) (dirOf isIngress)).foldlM
        (npFold src dst isIngress) (ConnSet.mk' false) with
    | error err => rw [hf] at h; cases h
    | ok res =>
      rw [hf] at h
      cases h
      exact npFold_wf src dst isIngress _
        (fun np hnp c hc => npStep_wf hv src dst hd isIngress (policiesSelecting_sub hnp) hc)
        _ (ConnSet.wf_mk false) _ hf

theorem xgressConns_wf {e : Engine} (hv : e.Valid) (src dst : KPeer) (hdok : dst.DstOK)
    (isIngress : Bool) {c : ConnSet} (h : e.xgressConns src dst isIngress = .ok c) : c.WF := by
  obtain ⟨pc, cap, hanp, hpw, hpa, _⟩ := anpConns_spec e hv src dst hdok.validPorts isIngress
  obtain ⟨dd, hdflt, hdw, hdden, _⟩ := defaultConns_spec e hv src dst hdok.validPorts isIngress
  rw [xgressConns_of_anp hanp] at h
  cases hdet : (cap && pc.determinesAll)
  · rw [hdet] at h
    simp only [Bool.false_eq_true, if_false] at h
    cases hnp : e.netpolConns src dst isIngress with
    | error err => rw [hnp] at h; cases h
    | ok npo =>
      rw [hnp] at h
      simp only [bind, Except.bind] at h
      cases npo with
      | some npc =>
        have hcw := netpolConns_wf hv src dst hdok isIngress hnp
        simp only at h
        cases cap
        · simp only [Bool.not_false, if_true] at h
          cases h
          exact hcw
        · simp only [Bool.not_true, Bool.false_eq_true, if_false] at h
          cases h
          exact (PolicyConns.collectNetpols_spec hpw hpa hcw).1.1
      | none =>
        simp only [hdflt] at h
        cases h
        exact (PolicyConns.collectBANP_denied hpw hpa hdw.2.2 hdden).1
  · rw [hdet] at h
    simp only [if_true] at h
    cases h
    exact hpw.1

/-- a computed connection set is well-formed, whatever the two peers (IP ranges included) -/
theorem peerConns_wf {e : Engine} (hv : e.Valid) (src dst : KPeer) (hdok : dst.DstOK)
    {c : ConnSet} (h : e.peerConns src dst = .ok c) : c.WF := by
  cases hself : isPodToItself src dst
  · rw [peerConns_eq e src dst hself] at h
    cases heg : e.xgressConns src dst false with
    | error err => rw [heg] at h; cases h
    | ok res =>
      have hrw := xgressConns_wf hv src dst hdok false heg
      rw [heg] at h
      simp only [bind, Except.bind] at h
      cases hemp : res.isEmpty
      · rw [hemp] at h
        simp only [Bool.false_eq_true, if_false] at h
        cases hin : e.xgressConns src dst true with
        | error err => rw [hin] at h; cases h
        | ok ing =>
          rw [hin] at h
          cases h
          exact ConnSet.wf_inter hrw (xgressConns_wf hv src dst hdok true hin)
      · rw [hemp] at h
        simp only [if_true] at h
        cases h
        exact hrw
  · rw [peerConns_self e src dst hself] at h
    cases h
    exact ConnSet.wf_mk true

end ConnWF

/-! ### `ConnStrInj` of the computed report -/

section Computed

/-- the hypotheses on the input under which property C04 holds of the computed reports; all of them
decidable, all of them facts of a legal Kubernetes state (the first one of every parsed input) -/
structure InputOK (objs : List Obj) : Prop where
  /-- no pod document carries the analyzer's own `fake` mark -/
  notFake : PodsNotFake objs
  /-- namespaces, names, owner names and kinds hold no `;` -/
  noSemi : NamesNoSemi objs
  /-- container ports are in 1..65535 -/
  ports : PodPortsValid objs
  /-- rule ports are legal, no rule peer without selector and ipBlock, admin rules have peers and
  legal ports, no `Pass` in the BANP -/
  policies : PoliciesValid objs

instance (objs : List Obj) : Decidable (InputOK objs) :=
  decidable_of_iff (PodsNotFake objs ∧ NamesNoSemi objs ∧ PodPortsValid objs ∧ PoliciesValid objs)
    ⟨fun ⟨a, b, c, d⟩ => ⟨a, b, c, d⟩, fun ⟨a, b, c, d⟩ => ⟨a, b, c, d⟩⟩

theorem notRepr_of_notFake {p : Pod} (h : p.fake = false) : p.isRepresentative = false := by
  unfold Pod.isRepresentative
  rw [h]
  rfl

/-- the connection sets of the peers × peers loop are well-formed -/
theorem entries_connWF {objs : List Obj} {eng : Engine} {peers : List LPeer} {entries : List Entry}
    (hb : Engine.build objs = .ok eng) (hp : eng.peersList = .ok peers)
    (hc : eng.connsBetweenPeers peers "" = .ok entries) (hok : InputOK objs) :
    ∀ x ∈ entries, x.conn.WF := by
  intro x hx
  obtain ⟨ks, kd, _, hkd, hpc⟩ := Properties.C05.entry_conn hc x hx
  have hv := build_valid hb hok.policies
  refine peerConns_wf hv ks kd ?_ hpc
  have hdm := (Properties.C05.entries_from_peers hc x hx).2
  cases hd : x.dst with
  | ip r =>
    rw [hd] at hkd
    cases hkd
    trivial
  | wl m q =>
    rw [hd] at hkd hdm
    obtain ⟨a, rfl⟩ := toKPeer_wl_pod hkd
    obtain ⟨_, hq⟩ := (peers_facts hb hp).2 m q hdm
    exact ⟨notRepr_of_notFake (hok.notFake q hq), hok.ports q hq⟩

/-- the connection sets of the ingress-controller lines are well-formed -/
theorem ingress_connWF {objs : List Obj} {eng : Engine} {owners : List (String × Pod)}
    {ing : List Entry} {blocked : List String} (hb : Engine.build objs = .ok eng)
    (ho : eng.podOwnersMap = .ok owners)
    (hi : ingressEntries eng objs owners "" = .ok (ing, blocked)) (hok : InputOK objs) :
    ∀ x ∈ ing, x.conn.WF := by
  intro x hx
  obtain ⟨_, hsrc⟩ := Format.ingressEntries_props hi
  obtain ⟨e1, n, p, hnp, e2⟩ := hsrc x hx
  have hown : ∀ e ∈ owners, e.2 ∈ podsIn objs := fun e he =>
    PermRules.build_pods_subset hb ((podOwnersMap_facts ho).2.1 e he).2
  have hvp : ∀ e ∈ owners, IngressLayer.ValidPod e.2 := fun e he => hok.ports e.2 (hown e he)
  rw [IngressLayer.ingressEntries_eq] at hi
  cases hl : allowedIngress objs owners with
  | none =>
    rw [hl] at hi
    cases hi
    cases hx
  | some l =>
    rw [hl] at hi
    simp only at hi
    have hlwf : IngressLayer.AllWF l := by
      rw [IngressLayer.allowedIngress_some hl]
      refine IngressLayer.allWF_group _ IngressLayer.allWF_nil ?_
      intro e he
      obtain ⟨n', p', c'⟩ := e
      obtain ⟨hm, sps, req, byT, rfl⟩ := IngressLayer.contrib_owner he
      exact (IngressLayer.peerConnection_tcpOnly (hvp _ hm) sps req byT).wf
    have := ((IngressLayer.foldlM_entryStep l hi).2 n p x.conn).mp ⟨x, hx, e1, e2, rfl⟩
    rcases this with ⟨y, hy, _⟩ | ⟨c, hcl, _, pc, hpc, hr, _⟩
    · cases hy
    · simp only at hpc hr
      have hpm : p ∈ podsIn objs := hown (n, p) hnp
      have hnf := hok.notFake p hpm
      have hpcw := (IngressLayer.policyConn_spec (build_valid hb hok.policies)
        (notRepr_of_notFake hnf) (hok.ports p hpm) (IngressLayer.ingress_self_false_of_real hnf) hpc).1
      rw [hr]
      exact ConnSet.wf_inter (hlwf _ hcl) hpcw

/-- every connection set of the computed report is well-formed -/
theorem listFor_connWF {objs : List Obj} {es : List Entry} {peers : List LPeer}
    (h : listFor objs = .ok (es, peers)) (hok : InputOK objs) : ∀ x ∈ es, x.conn.WF := by
  rcases listFor_inv h with ⟨rfl, rfl⟩ |
    ⟨eng, owners, entries, ing, blocked, hb, hp, ho, hc, hi, rfl⟩
  · intro x hx; cases hx
  · intro x hx
    rcases List.mem_append.mp hx with hx | hx
    · exact entries_connWF hb hp hc hok x hx
    · exact ingress_connWF hb ho hi hok x (mem_sortIngress.mp hx)

/-- **within a computed report the connection string determines the exported view**
(`DiffLayer.ConnStrInj`, the second hypothesis of the C04 theorems on points with an address) -/
theorem listFor_connStrInj {objs : List Obj} {es : List Entry} {peers : List LPeer}
    (h : listFor objs = .ok (es, peers)) (hok : InputOK objs) : ConnStrInj (es.map ofEntry) := by
  apply connStrInj_of_viewOK
  intro p hp
  obtain ⟨x, hx, rfl⟩ := List.mem_map.mp hp
  exact viewOK_of_wf (listFor_connWF h hok x hx)

/-- the same across two computed reports: equal connection strings, equal views -/
theorem listFor_connStr_inj2 {a b : List Obj} {e1 e2 : List Entry} {p1 p2 : List LPeer}
    (h1 : listFor a = .ok (e1, p1)) (h2 : listFor b = .ok (e2, p2)) (ha : InputOK a)
    (hb : InputOK b) : ∀ p ∈ e1.map ofEntry, ∀ q ∈ e2.map ofEntry, p.connStr = q.connStr →
      p.all = q.all ∧ p.ports = q.ports := by
  intro p hp q hq heq
  obtain ⟨x, hx, rfl⟩ := List.mem_map.mp hp
  obtain ⟨y, hy, rfl⟩ := List.mem_map.mp hq
  exact connStr_inj (viewOK_of_wf (listFor_connWF h1 ha x hx))
    (viewOK_of_wf (listFor_connWF h2 hb y hy)) heq

theorem listFor_reportWF' {objs : List Obj} {es : List Entry} {peers : List LPeer}
    (h : listFor objs = .ok (es, peers)) (hok : InputOK objs) : ReportWF (es.map ofEntry) :=
  listFor_reportWF h hok.notFake hok.noSemi

end Computed

/-! ### the points of a computed report, `runDiff`, and `listFor` from its parts -/

section Points

/-- the names the theorems on points are asked about: every workload name of a computed report has
no `;` and is no range string -/
theorem listFor_peer_name_ok {objs : List Obj} {es : List Entry} {peers : List LPeer}
    (h : listFor objs = .ok (es, peers)) (hs : NamesNoSemi objs) :
    ∀ n pod, LPeer.wl n pod ∈ peers → NoSemi n ∧ NotIP n := by
  rcases listFor_inv h with ⟨rfl, rfl⟩ |
    ⟨eng, owners, entries, ing, blocked, hb, hp, ho, hc, hi, rfl⟩
  · intro n pod hm; cases hm
  · intro n pod hm
    obtain ⟨e1, e2⟩ := (peers_facts hb hp).2 n pod hm
    rw [e1]
    exact ⟨workloadName_noSemi (hs pod e2), fun r => workloadName_ne_ipRange pod r⟩

/-- … and so has the name of the ingress-controller pseudo peer -/
theorem ic_name_ok : NoSemi Format.ingressPodString ∧ NotIP Format.ingressPodString :=
  ⟨by unfold NoSemi; decide, fun r => workloadName_ne_ipRange ingressPod r⟩

/-- `runDiff` prints `Diff.compute` of the two list analyses -/
theorem runDiff_of_listFor {a b : List Obj} {e1 e2 : List Entry} {p1 p2 : List LPeer}
    (h1 : listFor a = .ok (e1, p1)) (h2 : listFor b = .ok (e2, p2)) :
    runDiff a b =
      .list (.atom "ok" :: (sortStrs ((Diff.compute e1 e2 p1 p2).map fun d =>
        " ".intercalate [d.typ, d.src, d.dst, us d.c1, us d.c2, b01 d.newSrc, b01 d.newDst])).map
          fun l => .list (.atom "d" :: (l.splitOn " ").map .atom)) := by
  unfold runDiff
  rw [h1, h2]

/-- `listFor` succeeds when its parts do (inputs without Ingress / Route targets) -/
theorem listFor_ok_noIngress {objs : List Obj} {eng : Engine} {peers : List LPeer}
    {owners : List (String × Pod)} {entries : List Entry} (hb : Engine.build objs = .ok eng)
    (hne : eng.pods.isEmpty = false) (hp : eng.peersList = .ok peers)
    (ho : eng.podOwnersMap = .ok owners) (hc : eng.connsBetweenPeers peers "" = .ok entries)
    (htg : IngressA.targets objs = []) : listFor objs = .ok (entries, peers) := by
  unfold listFor
  simp only [hb, hne, hp, ho, hc, ingressEntries_none htg, bind, Except.bind, pure, Except.pure,
    Bool.false_eq_true, if_false]
  simp [sortIngress]

/-- `listFor` from its parts, ingress-controller lines included -/
theorem listFor_ok_of_parts {objs : List Obj} {eng : Engine} {peers : List LPeer}
    {owners : List (String × Pod)} {entries ing : List Entry} {blocked : List String}
    (hb : Engine.build objs = .ok eng) (hne : eng.pods.isEmpty = false)
    (hp : eng.peersList = .ok peers) (ho : eng.podOwnersMap = .ok owners)
    (hc : eng.connsBetweenPeers peers "" = .ok entries)
    (hi : ingressEntries eng objs owners "" = .ok (ing, blocked)) :
    listFor objs = .ok (entries ++ sortIngress ing, peers) := by
  unfold listFor
  simp only [hb, hne, hp, ho, hc, hi, bind, Except.bind, pure, Except.pure, Bool.false_eq_true,
    if_false]

/-- at most one ingress-controller line: nothing to sort -/
theorem sortIngress_short {ing : List Entry} (h : ing.length ≤ 1) : sortIngress ing = ing := by
  unfold sortIngress
  cases ing with
  | nil => simp
  | cons x t =>
    cases t with
    | nil => simp
    | cons y t' => simp only [List.length_cons] at h; omega

end Points

end DiffComputed
end Netpol
