import Netpol.Proofs.PermLayer

/-! Helper lemmas for property C08: which error `Engine.build` reports. The error *class* may
depend on the order of the objects when the input holds conflicts of two kinds (the first one met
wins); this file shows that the reported error always names a kind of conflict that is present in
the input — a property of the multiset of objects — so that with one kind of conflict only, every
order reports the same error. Core Lean only. -/
namespace Netpol.PermLayer
open Netpol Netpol.Engine Netpol.Structure

/-- a failing fold: the objects before the failing one were inserted, the failing one is not -/
theorem foldlM_error_split {objs : List Obj} {e0 : Engine} {err : Err}
    (h : objs.foldlM insertObject e0 = .error err) :
    ∃ l1 o l2 e1, objs = l1 ++ o :: l2 ∧ l1.foldlM insertObject e0 = .ok e1 ∧
      e1.insertObject o = .error err := by
  induction objs generalizing e0 with
  | nil => cases h
  | cons o objs ih =>
    rw [List.foldlM_cons] at h
    cases h1 : e0.insertObject o with
    | error err' =>
      rw [h1] at h
      cases h
      exact ⟨[], o, objs, e0, rfl, rfl, h1⟩
    | ok e1 =>
      rw [h1] at h
      obtain ⟨l1, o', l2, e2, hl, hf, he⟩ := ih h
      refine ⟨o :: l1, o', l2, e2, by rw [hl]; rfl, ?_, he⟩
      rw [List.foldlM_cons, h1]
      exact hf

theorem npsOf_append (l1 l2 : List Obj) : npsOf (l1 ++ l2) = npsOf l1 ++ npsOf l2 := by
  unfold npsOf; rw [List.filterMap_append]
theorem banpsOf_append (l1 l2 : List Obj) : banpsOf (l1 ++ l2) = banpsOf l1 ++ banpsOf l2 := by
  unfold banpsOf; rw [List.filterMap_append]
theorem podsOf_append (l1 l2 : List Obj) : podsOf (l1 ++ l2) = podsOf l1 ++ podsOf l2 := by
  unfold podsOf; rw [List.filterMap_append]

/-- the kind of conflict an error of `build` names, as a property of the multiset of objects.
(The priority conflict is a kind like the others since `insertANP` refuses it at insertion: it is
reported by the first object that meets it, whether or not the input holds other conflicts. When
the priorities were only examined by the final sort the clause for `anpPriority` also said
`ConflictFree objs`; with that clause `build_error_clause` is false for the present model:
`[anp a/5, anp b/5, anp a/7]` is rejected with `anpPriority` and holds the name `a` twice.) -/
def ErrClause (err : Err) (objs : List Obj) : Prop :=
  match err with
  | .dupNetpol => ¬ ((npsOf objs).map npKey).Nodup
  | .dupANP => ¬ ((anpsOf objs).map (·.name)).Nodup
  | .banpExists => 1 < (banpsOf objs).length
  | .banpName => ∃ b ∈ banpsOf objs, b.name ≠ "default"
  | .badPod => ∃ p ∈ podsOf objs, p.hostIP = ""
  | .anpPriority =>
      ¬ (((anpsOf objs).map (·.prio)).Nodup ∧ ∀ a ∈ anpsOf objs, 0 ≤ a.prio ∧ a.prio ≤ 1000)
  | _ => False

theorem ErrClause.perm {err : Err} {objs objs' : List Obj} (hp : objs.Perm objs')
    (h : ErrClause err objs) : ErrClause err objs' := by
  have h1 := npsOf_perm hp
  have h2 := anpsOf_perm hp
  have h3 := banpsOf_perm hp
  have h4 := podsOf_perm hp
  cases err <;> simp only [ErrClause] at h ⊢
  · exact fun hn => h (((h1.map _).nodup_iff).mpr hn)
  · exact fun hn => h (((h2.map _).nodup_iff).mpr hn)
  · rw [← h3.length_eq]; exact h
  · obtain ⟨b, hb, hn⟩ := h; exact ⟨b, h3.mem_iff.mp hb, hn⟩
  · exact fun hn => h ⟨((h2.map _).nodup_iff).mpr hn.1, fun a ha => hn.2 a (h2.mem_iff.mp ha)⟩
  · obtain ⟨p, hp', hn⟩ := h; exact ⟨p, h4.mem_iff.mp hp', hn⟩

/-- an error of the insertion fold names a conflict that is present -/
theorem fold_error_clause {objs : List Obj} {err : Err}
    (h : objs.foldlM insertObject ({} : Engine) = .error err) : ErrClause err objs := by
  obtain ⟨l1, o, l2, e1, rfl, hf, he⟩ := foldlM_error_split h
  obtain ⟨f1, f2, f3, f4⟩ := fold_policies hf
  simp only [List.nil_append] at f1 f2
  have hexp : e1.exposure = false := f4
  cases o with
  | ns n => cases he
  | wl w => cases he
  | svc _ => cases he
  | ing _ => cases he
  | route _ => cases he
  | pod p =>
    simp only [insertObject] at he
    split at he
    · rename_i hip
      cases he
      exact ⟨p, by rw [podsOf_append]; exact List.mem_append_right _ (List.mem_cons_self ..),
        by simpa using hip⟩
    · cases he
  | np p =>
    by_cases hs : hasNetpol e1 (npNs p) p.name
    · rw [insertObject_np_dup hs] at he
      cases he
      show ¬ ((npsOf (l1 ++ Obj.np p :: l2)).map npKey).Nodup
      rw [npsOf_append]
      have : npsOf (Obj.np p :: l2) = p :: npsOf l2 := rfl
      rw [this, List.map_append, List.map_cons]
      intro hn
      obtain ⟨q, hq, hqk⟩ := List.any_eq_true.mp hs
      simp only [Bool.and_eq_true, beq_iff_eq] at hqk
      rw [f1] at hq
      have hm : npKey p ∈ (npsOf l1).map npKey := by
        rw [← map_key_normNp]
        exact List.mem_map.mpr ⟨q, hq, by simp [npKey, hqk.1, hqk.2]⟩
      exact (List.nodup_append.mp hn).2.2 _ hm _ (List.mem_cons_self ..) rfl
    · obtain ⟨e', he'⟩ := insertObject_np_ok hs
      rw [he'] at he; cases he
  | anp a =>
    simp only [insertObject, insertANP, hexp, Bool.false_eq_true, if_false] at he
    split at he
    · rename_i hc
      cases he
      show ¬ ((anpsOf (l1 ++ Obj.anp a :: l2)).map (·.name)).Nodup
      rw [anpsOf_append, anpsOf_cons_anp, List.map_append, List.map_cons]
      intro hn
      have hm : a.name ∈ (anpsOf l1).map (·.name) := by
        rw [← f2]; simpa using hc
      exact (List.nodup_append.mp hn).2.2 _ hm _ (List.mem_cons_self ..) rfl
    · split at he
      · -- a priority outside the range
        rename_i hv
        cases he
        show ¬ (((anpsOf (l1 ++ Obj.anp a :: l2)).map (·.prio)).Nodup ∧
          ∀ x ∈ anpsOf (l1 ++ Obj.anp a :: l2), 0 ≤ x.prio ∧ x.prio ≤ 1000)
        rintro ⟨_, hr⟩
        have := hr a (by rw [anpsOf_append, anpsOf_cons_anp]; simp)
        unfold ANP.validPriority at hv
        simp only [ge_iff_le, Bool.not_eq_true', decide_eq_false_iff_not] at hv
        exact hv this
      · split at he
        · -- a priority held already
          rename_i hany
          cases he
          show ¬ (((anpsOf (l1 ++ Obj.anp a :: l2)).map (·.prio)).Nodup ∧
            ∀ x ∈ anpsOf (l1 ++ Obj.anp a :: l2), 0 ≤ x.prio ∧ x.prio ≤ 1000)
          rintro ⟨hn, _⟩
          rw [anpsOf_append, anpsOf_cons_anp, List.map_append, List.map_cons] at hn
          obtain ⟨b, hb, hbp⟩ := List.any_eq_true.mp hany
          have hperm : e1.anps.Perm (anpsOf l1) := by simpa using fold_anps_perm hf
          have hm : a.prio ∈ (anpsOf l1).map (·.prio) :=
            List.mem_map.mpr ⟨b, hperm.mem_iff.mp hb, by simpa using hbp⟩
          exact (List.nodup_append.mp hn).2.2 _ hm _ (List.mem_cons_self ..) rfl
        · cases he
  | banp b =>
    simp only [insertObject, insertBANP, hexp, Bool.false_eq_true, if_false] at he
    split at he
    · rename_i hc
      cases he
      show 1 < (banpsOf (l1 ++ Obj.banp b :: l2)).length
      rw [banpsOf_append]
      have : banpsOf (Obj.banp b :: l2) = b :: banpsOf l2 := rfl
      rw [this, List.length_append, List.length_cons]
      have : 0 < (banpsOf l1).length := by
        have h3 : e1.banp.toList = banpsOf l1 := by simpa using f3
        rw [← h3]
        cases hb : e1.banp with
        | none => rw [hb] at hc; cases hc
        | some _ => simp
      omega
    · split at he
      · rename_i hc
        cases he
        exact ⟨b, by rw [banpsOf_append]; exact List.mem_append_right _ (List.mem_cons_self ..),
          by simpa using hc⟩
      · cases he

/-- **the error `build` reports names a conflict that is present in the input** -/
theorem build_error_clause {objs : List Obj} {err : Err} (h : Engine.build objs = .error err) :
    ErrClause err objs := by
  rw [build_eq] at h
  cases hf : objs.foldlM insertObject ({} : Engine) with
  | error err' =>
    rw [hf] at h
    cases h
    exact fold_error_clause hf
  | ok e1 =>
    rw [hf] at h
    simp only at h
    cases hs : e1.sortANPs with
    | ok e2 => rw [hs] at h; cases h
    | error err' =>
      -- the sort never fails after a successful fold
      obtain ⟨e2, he2⟩ := fold_sortANPs_ok hf
      rw [he2] at hs; cases hs

/-- **with one kind of conflict, every order reports the same error**: if `build` fails on an
input in which only the kind of conflict named by the error is present, it fails with the same
error on every reordering -/
theorem build_error_perm {objs objs' : List Obj} (hp : objs.Perm objs') {err : Err}
    (h : Engine.build objs = .error err)
    (hsingle : ∀ err', ErrClause err' objs → err' = err) : Engine.build objs' = .error err := by
  cases h' : Engine.build objs' with
  | ok e' =>
    obtain ⟨e, he⟩ := (build_isOk_perm hp).mpr ⟨e', h'⟩
    rw [he] at h; cases h
  | error err' =>
    rw [hsingle err' ((build_error_clause h').perm hp.symm)]

end Netpol.PermLayer
