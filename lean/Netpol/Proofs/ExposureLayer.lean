import Netpol.Model.Exposure
import Netpol.Proofs.EngineLayer
import Netpol.Proofs.IngressLayer
import Netpol.Proofs.Structure

/-! Helper lemmas for properties C06 and C07: the model of `list --exposure`
(`Netpol.Model.Exposure`) against the plain analysis (`Netpol.Model.NP`, `Netpol.Model.Engine`)
and the pointwise specification (`Netpol.Spec.K8s`). Core Lean only. The property statements are
in `Netpol.Properties.C06` and `Netpol.Properties.C07`.

Layout.
* A  named ports of connection sets through `union` / `addConnection`; sets without named and
     excluded ports (`Plain`).
* B  `ruleConnections` without destination (the pre-scan) and towards a representative peer.
* C  the pre-scan `scan`: a pure fold, its cluster-wide / external connections and selectors.
* D  `allowedConns` for an arbitrary peer: a characterisation parameterised by the rule selection.
* E  rung 1: exposure-mode evaluation against plain evaluation (policy, direction, pair, report).
* F  `clusterWideConn`, `convertNamedPorts`.
* G  representative peers: rule selection, the connection of an exposure entry.
* H  `xgressExposure`.
* I  hypothetical pods: rule selection against the specification, coverage. -/
namespace Netpol
open CSet

/-! ## A. named ports -/

theorem mem_sinsert (n s : String) (l : List String) : n ∈ sinsert s l ↔ n = s ∨ n ∈ l := by
  induction l with
  | nil => simp [sinsert]
  | cons x xs ih =>
    unfold sinsert
    split
    · simp
    · split
      · rename_i h; subst h; simp
      · simp only [List.mem_cons, ih]
        constructor
        · rintro (h | h | h)
          · exact Or.inr (Or.inl h)
          · exact Or.inl h
          · exact Or.inr (Or.inr h)
        · rintro (h | h | h)
          · exact Or.inr (Or.inl h)
          · exact Or.inl h
          · exact Or.inr (Or.inr h)

theorem mem_foldl_sinsert (n : String) (ks acc : List String) :
    n ∈ ks.foldl (fun acc k => sinsert k acc) acc ↔ n ∈ acc ∨ n ∈ ks := by
  induction ks generalizing acc with
  | nil => simp
  | cons k ks ih =>
    rw [List.foldl_cons, ih, mem_sinsert]
    simp only [List.mem_cons]
    constructor
    · rintro ((h | h) | h)
      · exact Or.inr (Or.inl h)
      · exact Or.inl h
      · exact Or.inr (Or.inr h)
    · rintro (h | h | h)
      · exact Or.inl (Or.inr h)
      · exact Or.inl (Or.inl h)
      · exact Or.inr h

theorem PortSet.mem_named_union (p o : PortSet) (n : String) :
    n ∈ (p.union o).named ↔ n ∈ p.named ∨ n ∈ o.named := by
  show n ∈ o.named.foldl (fun acc k => sinsert k acc) p.named ↔ _
  exact mem_foldl_sinsert n _ _

namespace ConnSet

theorem names_mk' (b : Bool) (pr : Proto) : (mk' b).names pr = [] := by
  simp [names]

theorem names_checkIfAll_sub (c : ConnSet) (pr : Proto) (n : String)
    (h : n ∈ c.checkIfAll.names pr) : n ∈ c.names pr := by
  unfold checkIfAll at h
  split at h
  · rw [names_mk'] at h; exact absurd h (List.not_mem_nil)
  · exact h

theorem names_checkIfAll_sup (c : ConnSet) (pr : Proto) (n : String) (h : n ∈ c.names pr) :
    n ∈ c.checkIfAll.names pr ∨ c.checkIfAll.allowAll = true := by
  unfold checkIfAll
  split
  · exact Or.inr rfl
  · exact Or.inl h

theorem allowAll_checkIfAll_of (c : ConnSet) (h : c.allowAll = true) :
    c.checkIfAll.allowAll = true := by
  unfold checkIfAll
  split
  · rfl
  · exact h

theorem mem_names_iff (c : ConnSet) (pr : Proto) (n : String) :
    n ∈ c.names pr ↔ ∃ ps, c.get pr = some ps ∧ n ∈ ps.named := by
  unfold names
  cases c.get pr <;> simp

/-- names of the entry-wise union -/
theorem mem_names_unionRaw (c o : ConnSet) (pr : Proto) (n : String) :
    n ∈ (c.mapProtos fun pr cur =>
      match cur, o.get pr with
      | some ports, some op => some (ports.union op)
      | some ports, none => some ports
      | none, some op => some op.copy
      | none, none => none).names pr ↔ n ∈ c.names pr ∨ n ∈ o.names pr := by
  simp only [mem_names_iff, get_mapProtos]
  cases h1 : c.get pr <;> cases h2 : o.get pr <;>
    simp [PortSet.copy, PortSet.mem_named_union]

/-- a named port of a union comes from one of the two sets -/
theorem names_union_sub (c o : ConnSet) (pr : Proto) (n : String)
    (h : n ∈ (c.union o).names pr) : n ∈ c.names pr ∨ n ∈ o.names pr := by
  unfold union at h
  split at h
  · exact Or.inl h
  · split at h
    · rw [names_mk'] at h; exact absurd h (List.not_mem_nil)
    · exact (mem_names_unionRaw c o pr n).mp (names_checkIfAll_sub _ _ _ h)

theorem names_of_isEmpty {c : ConnSet} (h : c.isEmpty = true) (pr : Proto) : c.names pr = [] := by
  unfold isEmpty at h
  rw [Bool.and_eq_true] at h
  exact names_of_get_none ((noProtos_iff c).mp h.2 pr)

/-- a named port of either set is kept by the union, unless the union is the AllowAll form -/
theorem names_union_sup (c o : ConnSet) (pr : Proto) (n : String)
    (h : n ∈ c.names pr ∨ n ∈ o.names pr) :
    n ∈ (c.union o).names pr ∨ (c.union o).allowAll = true := by
  unfold union
  split
  · rename_i h1
    rw [Bool.or_eq_true] at h1
    rcases h1 with h1 | h1
    · exact Or.inr h1
    · rcases h with h | h
      · exact Or.inl h
      · rw [names_of_isEmpty h1] at h; exact absurd h (List.not_mem_nil)
  · split
    · exact Or.inr rfl
    · exact names_checkIfAll_sup _ _ _ ((mem_names_unionRaw c o pr n).mpr h)

/-- the AllowAll flag of the left argument survives -/
theorem allowAll_union_left (c o : ConnSet) (h : c.allowAll = true) :
    (c.union o).allowAll = true := by
  unfold union
  simp [h]

/-- a union that is the AllowAll form is its left argument or `mk' true` -/
theorem union_allowAll_cases (c o : ConnSet) (h : (c.union o).allowAll = true) :
    (c.union o = c ∧ c.allowAll = true) ∨ c.union o = mk' true := by
  unfold union at h ⊢
  by_cases h1 : (c.allowAll || o.isEmpty) = true
  · rw [if_pos h1] at h ⊢
    exact Or.inl ⟨rfl, h⟩
  · by_cases h2 : o.allowAll = true
    · rw [if_neg h1, if_pos h2]
      exact Or.inr rfl
    · rw [if_neg h1, if_neg h2] at h ⊢
      right
      unfold checkIfAll at h ⊢
      split
      · rfl
      · rename_i h3
        rw [if_neg h3] at h
        rw [allowAll_mapProtos] at h
        rw [h] at h1
        simp at h1

theorem mem_names_addConnectionRaw (c : ConnSet) (pr : Proto) (ps : PortSet) (pr' : Proto)
    (n : String) :
    n ∈ (c.addConnectionRaw pr ps).names pr' ↔ n ∈ c.names pr' ∨ (pr' = pr ∧ n ∈ ps.named) := by
  unfold addConnectionRaw
  split
  · rename_i he
    have := ((PortSet.isEmpty_eq_true_iff ps).mp he).2
    simp [this]
  · split
    · rename_i cur hcur
      simp only [mem_names_iff, get_set]
      by_cases h : pr' = pr
      · subst h
        simp [hcur, PortSet.mem_named_union]
      · simp [h]
    · rename_i hcur
      simp only [mem_names_iff, get_set]
      by_cases h : pr' = pr
      · subst h
        simp [hcur, PortSet.copy]
      · simp [h]

theorem names_addConnection_sub (c : ConnSet) (pr : Proto) (ps : PortSet) (pr' : Proto)
    (n : String) (h : n ∈ (c.addConnection pr ps).names pr') :
    n ∈ c.names pr' ∨ (pr' = pr ∧ n ∈ ps.named) := by
  cases ha : c.allowAll
  · rw [addConnection_of_not_allowAll ha] at h
    exact (mem_names_addConnectionRaw c pr ps pr' n).mp (names_checkIfAll_sub _ _ _ h)
  · rw [addConnection_of_allowAll ha] at h
    exact Or.inl h

theorem names_addConnection_sup (c : ConnSet) (pr : Proto) (ps : PortSet) (pr' : Proto)
    (n : String) (h : n ∈ c.names pr' ∨ (pr' = pr ∧ n ∈ ps.named)) :
    n ∈ (c.addConnection pr ps).names pr' ∨ (c.addConnection pr ps).allowAll = true := by
  cases ha : c.allowAll
  · rw [addConnection_of_not_allowAll ha]
    exact names_checkIfAll_sup _ _ _ ((mem_names_addConnectionRaw c pr ps pr' n).mpr h)
  · rw [addConnection_of_allowAll ha]
    exact Or.inr ha

theorem allowAll_addConnection_of (c : ConnSet) (pr : Proto) (ps : PortSet)
    (h : c.allowAll = true) : (c.addConnection pr ps).allowAll = true := by
  rw [addConnection_of_allowAll h]
  exact h

/-! ### sets without named and excluded ports -/

/-- no entry holds a named or an excluded port: the sets of the plain analysis of real peers -/
def Plain (c : ConnSet) : Prop := ∀ pr ps, c.get pr = some ps → ps.named = [] ∧ ps.excluded = []

theorem plain_mk (b : Bool) : Plain (mk' b) := by
  intro pr ps h; simp at h

theorem Plain.names {c : ConnSet} (h : Plain c) (pr : Proto) : c.names pr = [] := by
  cases hg : c.get pr with
  | none => exact names_of_get_none hg
  | some ps => rw [names_of_get hg]; exact (h pr ps hg).1

theorem plain_checkIfAll {c : ConnSet} (h : Plain c) : Plain c.checkIfAll := by
  unfold checkIfAll
  split
  · exact plain_mk true
  · exact h

theorem PortSet.plain_union {p o : PortSet} (hp : p.named = [] ∧ p.excluded = [])
    (ho : o.named = [] ∧ o.excluded = []) :
    (p.union o).named = [] ∧ (p.union o).excluded = [] := by
  simp [PortSet.union, hp.1, hp.2, ho.1, ho.2]

theorem plain_addConnection {c : ConnSet} (hc : Plain c) (pr : Proto) {ps : PortSet}
    (hps : ps.named = [] ∧ ps.excluded = []) : Plain (c.addConnection pr ps) := by
  cases ha : c.allowAll
  case true => rw [addConnection_of_allowAll ha]; exact hc
  rw [addConnection_of_not_allowAll ha]
  apply plain_checkIfAll
  unfold addConnectionRaw
  split
  · exact hc
  · split
    · rename_i cur hcur
      intro pr' ps' hg
      rw [get_set] at hg
      split at hg
      · cases hg
        exact PortSet.plain_union (hc _ _ hcur) hps
      · exact hc _ _ hg
    · intro pr' ps' hg
      rw [get_set] at hg
      split at hg
      · cases hg
        exact hps
      · exact hc _ _ hg

theorem plain_union {c o : ConnSet} (hc : Plain c) (ho : Plain o) : Plain (c.union o) := by
  unfold union
  split
  · exact hc
  · split
    · exact plain_mk true
    · apply plain_checkIfAll
      intro pr ps hg
      rw [get_mapProtos] at hg
      split at hg
      · rename_i ports op h1 h2
        cases hg
        exact PortSet.plain_union (hc _ _ h1) (ho _ _ h2)
      · rename_i ports h1 h2
        cases hg
        exact hc _ _ h1
      · rename_i op h1 h2
        cases hg
        exact ho _ _ h2
      · cases hg

/-- a canonical plain set that denotes the whole port range is `mk' true` -/
theorem eq_all_of_full {c : ConnSet} (hcan : c.Canonical) (hp : Plain c)
    (h : ∀ pr p, inRange p → c.den pr p) : c = mk' true := by
  have ha : c.allowAll = true :=
    (allowAll_iff_full hcan hp.names (fun pr ps hg => (hp pr ps hg).2)).mpr h
  have := eq_mk'_of_noProtos (hcan.1.1 ha)
  rw [ha] at this
  exact this

end ConnSet

/-! ## B. `ruleConnections` without destination and towards a representative peer -/

/-- the numeric part of a port clause: what it allows whatever the destination declares -/
def NPPort.numMatches (q : NPPort) (pr : Proto) (x : Int) : Prop :=
  q.proto.getD .TCP = pr ∧ inRange x ∧
    match q.kind with
    | .all => True
    | .num a e => a ≤ x ∧ x ≤ e.getD a
    | .name _ => False

/-- the port clause is the (non-empty) port name `n` -/
def NPPort.hasName (q : NPPort) (n : String) : Prop := q.kind = .name n ∧ n ≠ ""

namespace NetPol

/-- the (protocol, port) pairs a list of port clauses allows whatever the destination declares -/
def portsNum (ports : List NPPort) (pr : Proto) (x : Int) : Prop :=
  (ports.isEmpty = true ∧ inRange x) ∨ ∃ q ∈ ports, q.numMatches pr x

/-- the port names a list of port clauses holds for a protocol -/
def portsNamed (ports : List NPPort) (pr : Proto) (n : String) : Prop :=
  ∃ q ∈ ports, q.proto.getD .TCP = pr ∧ q.hasName n

theorem portSetOf_name_none {q : NPPort} {n : String} (hk : q.kind = .name n) :
    portSetOf q none = .ok (if n != "" then (PortSet.mk' false).addPort (.name n)
      else PortSet.mk' false) := by
  simp only [portSetOf, hk, portsRange, bind, Except.bind, pure, Except.pure,
    isEmptyPortRange_noPort]
  simp

/-- one port clause without destination -/
theorem portSetOf_none (q : NPPort) (hv : q.Valid) :
    ∃ ps, portSetOf q none = .ok ps ∧ ps.WF ∧
      (∀ pr x, (pr = q.proto.getD .TCP ∧ memL ps.ports x) ↔ q.numMatches pr x) ∧
      (∀ n, n ∈ ps.named ↔ q.hasName n) ∧ ps.excluded = [] := by
  cases hk : q.kind with
  | all =>
    refine ⟨_, portSetOf_all _ hk, PortSet.wf_mk' true, ?_, ?_, rfl⟩
    · intro pr x
      simp only [PortSet.mk'_true, memL_full, NPPort.numMatches, hk, and_true]
      exact ⟨fun ⟨h1, h2⟩ => ⟨h1.symm, h2⟩, fun ⟨h1, h2⟩ => ⟨h1.symm, h2⟩⟩
    · intro n
      simp [PortSet.mk'_true, NPPort.hasName, hk]
  | num a e =>
    have hr := NPPort.num_range hk hv
    refine ⟨_, portSetOf_num _ hk hr.1,
      PortSet.wf_addPortRange (PortSet.wf_mk' false) hr.1 hr.2, ?_, ?_, rfl⟩
    · intro pr x
      simp only [mem_empty_addPortRange, NPPort.numMatches, hk, inRange]
      constructor
      · rintro ⟨h1, h2, h3⟩; exact ⟨h1.symm, ⟨by omega, by omega⟩, h2, h3⟩
      · rintro ⟨h1, _, h2, h3⟩; exact ⟨h1.symm, h2, h3⟩
    · intro n
      simp [PortSet.addPortRange, PortSet.mk'_false, NPPort.hasName, hk]
  | name n =>
    refine ⟨_, portSetOf_name_none hk, ?_, ?_, ?_, ?_⟩
    · split
      · exact PortSet.wf_addPort_name (PortSet.wf_mk' false) n
      · exact PortSet.wf_mk' false
    · intro pr x
      simp only [NPPort.numMatches, hk, and_false, iff_false, not_and]
      intro _
      split <;> simp [PortSet.addPort, PortSet.mk'_false, memL_nil]
    · intro m
      simp only [NPPort.hasName, hk, NPPortKind.name.injEq]
      by_cases hn : n = ""
      · subst hn
        simp [PortSet.mk'_false]
      · have : (n != "") = true := by simpa using hn
        simp only [this, if_true, PortSet.addPort, PortSet.mk'_false, sinsert, List.mem_singleton]
        constructor
        · intro h; subst h; exact ⟨rfl, hn⟩
        · rintro ⟨h, _⟩; exact h.symm
    · split <;> simp [PortSet.addPort, PortSet.mk'_false, serase]

/-- a representative peer (no container ports) is the absent destination -/
theorem portSetOf_repr (q : NPPort) (rp : Pod) (ns : Option NsObj)
    (hrep : rp.isRepresentative = true) (hports : rp.ports = []) :
    portSetOf q (some (.pod rp ns)) = portSetOf q none := by
  unfold portSetOf portsRange
  cases q.kind <;> simp [KPeer.isRepresentative, hrep, Pod.convertNamedPort, hports]

theorem ruleConnections_repr (ports : List NPPort) (rp : Pod) (ns : Option NsObj)
    (hrep : rp.isRepresentative = true) (hports : rp.ports = []) :
    ruleConnections ports (some (.pod rp ns)) = ruleConnections ports none := by
  rw [ruleConnections_eq, ruleConnections_eq]
  have : rcStep (some (.pod rp ns)) = rcStep none := by
    funext res q
    unfold rcStep
    rw [portSetOf_repr q rp ns hrep hports]
  rw [this]

/-- the named ports through the fold of `ruleConnections` -/
theorem rc_fold_names (dst : Option KPeer) (N : NPPort → String → Prop) (ports : List NPPort)
    (h : ∀ q ∈ ports, ∃ ps, portSetOf q dst = .ok ps ∧ ∀ n, n ∈ ps.named ↔ N q n)
    (c0 c : ConnSet) (hc : ports.foldlM (rcStep dst) c0 = .ok c) :
    (∀ pr n, n ∈ c.names pr → n ∈ c0.names pr ∨ ∃ q ∈ ports, q.proto.getD .TCP = pr ∧ N q n) ∧
    (∀ pr n, (n ∈ c0.names pr ∨ ∃ q ∈ ports, q.proto.getD .TCP = pr ∧ N q n) →
      n ∈ c.names pr ∨ c.allowAll = true) ∧
    (c0.allowAll = true → c.allowAll = true) := by
  induction ports generalizing c0 with
  | nil =>
    cases hc
    refine ⟨fun pr n h => Or.inl h, ?_, id⟩
    rintro pr n (h | ⟨q, hq, _⟩)
    · exact Or.inl h
    · exact absurd hq (List.not_mem_nil)
  | cons q rest ih =>
    obtain ⟨ps, hps, hnm⟩ := h q (List.mem_cons_self ..)
    have hstep : rcStep dst c0 q = .ok (c0.addConnection (q.proto.getD .TCP) ps) := by
      simp only [rcStep, hps]; rfl
    rw [List.foldlM_cons, hstep] at hc
    obtain ⟨i1, i2, i3⟩ := ih (fun q' hq' => h q' (List.mem_cons_of_mem _ hq')) _ hc
    refine ⟨?_, ?_, ?_⟩
    · intro pr n hn
      rcases i1 pr n hn with h1 | ⟨q', hq', h1⟩
      · rcases ConnSet.names_addConnection_sub _ _ _ _ _ h1 with h2 | ⟨h2, h3⟩
        · exact Or.inl h2
        · exact Or.inr ⟨q, List.mem_cons_self .., h2.symm, (hnm n).mp h3⟩
      · exact Or.inr ⟨q', List.mem_cons_of_mem _ hq', h1⟩
    · intro pr n hn
      have : n ∈ (c0.addConnection (q.proto.getD .TCP) ps).names pr ∨
          (c0.addConnection (q.proto.getD .TCP) ps).allowAll = true ∨
          ∃ q' ∈ rest, q'.proto.getD .TCP = pr ∧ N q' n := by
        rcases hn with h1 | ⟨q', hq', h1, h2⟩
        · rcases ConnSet.names_addConnection_sup c0 (q.proto.getD .TCP) ps pr n (Or.inl h1) with h | h
          · exact Or.inl h
          · exact Or.inr (Or.inl h)
        · rcases List.mem_cons.mp hq' with rfl | hq'
          · rcases ConnSet.names_addConnection_sup c0 (q'.proto.getD .TCP) ps pr n
              (Or.inr ⟨h1.symm, (hnm n).mpr h2⟩) with h | h
            · exact Or.inl h
            · exact Or.inr (Or.inl h)
          · exact Or.inr (Or.inr ⟨q', hq', h1, h2⟩)
      rcases this with h1 | h1 | h1
      · exact i2 pr n (Or.inl h1)
      · exact Or.inr (i3 h1)
      · exact i2 pr n (Or.inr h1)
    · intro h0
      exact i3 (ConnSet.allowAll_addConnection_of _ _ _ h0)

/-- `ruleConnections ports nil` (the pre-scan): never fails; numeric clauses give the denotation,
named clauses are kept as names -/
theorem ruleConnections_none (ports : List NPPort) (hv : ∀ q ∈ ports, q.Valid) :
    ∃ c, ruleConnections ports none = .ok c ∧ c.WFE ∧ (c.allowAll = false → c.Canonical) ∧
      (∀ pr x, c.den pr x ↔ portsNum ports pr x) ∧
      (∀ pr n, n ∈ c.names pr → portsNamed ports pr n) ∧
      (∀ pr n, portsNamed ports pr n → n ∈ c.names pr ∨ c.allowAll = true) := by
  obtain ⟨c, hc, hw, hcan, hden⟩ := ruleConnections_of_steps none
    (fun q pr x => q.numMatches pr x) ports
    (fun q hq => by
      obtain ⟨ps, h1, h2, h3, _⟩ := portSetOf_none q (hv q hq)
      exact ⟨ps, h1, h2, h3⟩)
  refine ⟨c, hc, hw, hcan, hden, ?_⟩
  rw [ruleConnections_eq] at hc
  cases he : ports.isEmpty
  · simp only [he, Bool.false_eq_true, if_false] at hc
    obtain ⟨i1, i2, _⟩ := rc_fold_names none (fun q n => q.hasName n) ports
      (fun q hq => by
        obtain ⟨ps, h1, _, _, h4, _⟩ := portSetOf_none q (hv q hq)
        exact ⟨ps, h1, h4⟩) _ c hc
    constructor
    · intro pr n hn
      rcases i1 pr n hn with h | h
      · rw [ConnSet.names_mk'] at h; exact absurd h (List.not_mem_nil)
      · exact h
    · intro pr n hn
      exact i2 pr n (Or.inr hn)
  · have : ports = [] := by simpa using he
    subst this
    simp only [List.isEmpty_nil, if_true] at hc
    cases hc
    constructor
    · intro pr n hn
      rw [ConnSet.names_mk'] at hn; exact absurd hn (List.not_mem_nil)
    · intro pr n hn
      exact Or.inr rfl

/-- the connection set of the pre-scan for a list of port clauses -/
def rcNone (ports : List NPPort) : ConnSet :=
  match ruleConnections ports none with
  | .ok c => c
  | .error _ => ConnSet.mk' false

theorem ruleConnections_none_eq (ports : List NPPort) (hv : ∀ q ∈ ports, q.Valid) :
    ruleConnections ports none = .ok (rcNone ports) := by
  obtain ⟨c, hc, _⟩ := ruleConnections_none ports hv
  simp [rcNone, hc]

theorem rcNone_spec (ports : List NPPort) (hv : ∀ q ∈ ports, q.Valid) :
    (rcNone ports).WFE ∧ ((rcNone ports).allowAll = false → (rcNone ports).Canonical) ∧
      (∀ pr x, (rcNone ports).den pr x ↔ portsNum ports pr x) ∧
      (∀ pr n, n ∈ (rcNone ports).names pr → portsNamed ports pr n) ∧
      (∀ pr n, portsNamed ports pr n →
        n ∈ (rcNone ports).names pr ∨ (rcNone ports).allowAll = true) := by
  obtain ⟨c, hc, h⟩ := ruleConnections_none ports hv
  have : rcNone ports = c := by simp [rcNone, hc]
  rw [this]
  exact h

/-! the numeric and named parts against the specification's port clauses -/

theorem _root_.Netpol.NPPort.numMatches_spec {q : NPPort} {pr : Proto} {x : Int}
    (h : q.numMatches pr x) (dst : Spec.End) : Spec.npPortMatches q dst pr x = true := by
  obtain ⟨h1, _, h3⟩ := h
  unfold Spec.npPortMatches
  rw [Bool.and_eq_true]
  refine ⟨by simpa using h1, ?_⟩
  cases hk : q.kind with
  | all => rfl
  | num a e => rw [hk] at h3; simpa using h3
  | name n => rw [hk] at h3; exact absurd h3 id

theorem portsNum_spec {ports : List NPPort} {pr : Proto} {x : Int} (h : portsNum ports pr x)
    (dst : Spec.End) :
    inRange x ∧ (ports.isEmpty || ports.any (Spec.npPortMatches · dst pr x)) = true := by
  rcases h with ⟨h1, h2⟩ | ⟨q, hq, hm⟩
  · exact ⟨h2, by simp [h1]⟩
  · refine ⟨hm.2.1, ?_⟩
    rw [Bool.or_eq_true, List.any_eq_true]
    exact Or.inr ⟨q, hq, NPPort.numMatches_spec hm dst⟩

/-- a named clause allows the port the destination pod declares under that name -/
theorem portsNamed_spec {ports : List NPPort} {pr : Proto} {n : String}
    (h : portsNamed ports pr n) (d : Pod) (l : Labels) (cp : CPort)
    (hf : d.ports.find? (fun c => c.name == n) = some cp) (hpr : cp.proto = pr) :
    (ports.isEmpty || ports.any (Spec.npPortMatches · (.pod d l) pr cp.port)) = true := by
  obtain ⟨q, hq, h1, h2, _⟩ := h
  rw [Bool.or_eq_true, List.any_eq_true]
  refine Or.inr ⟨q, hq, ?_⟩
  unfold Spec.npPortMatches
  rw [h2]
  simp [hf, hpr, h1]

/-- conversely: what a port clause allows towards a pod is its numeric part, or the port the pod
declares under the clause's name -/
theorem npPortMatches_cases {q : NPPort} {d : Pod} {l : Labels} {pr : Proto} {x : Int}
    (hx : inRange x) (h : Spec.npPortMatches q (.pod d l) pr x = true) :
    q.numMatches pr x ∨ ∃ n cp, q.kind = .name n ∧ q.proto.getD .TCP = pr ∧
      d.ports.find? (fun c => c.name == n) = some cp ∧ cp.proto = pr ∧ cp.port = x := by
  unfold Spec.npPortMatches at h
  rw [Bool.and_eq_true] at h
  have h1 : q.proto.getD .TCP = pr := by simpa using h.1
  cases hk : q.kind with
  | all => exact Or.inl ⟨h1, hx, by rw [hk]; trivial⟩
  | num a e =>
    have h2 := h.2
    rw [hk] at h2
    exact Or.inl ⟨h1, hx, by rw [hk]; simpa using h2⟩
  | name n =>
    have h2 := h.2
    rw [hk] at h2
    simp only [] at h2
    cases hf : d.ports.find? (fun c => c.name == n) with
    | none => rw [hf] at h2; cases h2
    | some cp =>
      rw [hf] at h2
      simp only [Bool.and_eq_true, beq_iff_eq] at h2
      exact Or.inr ⟨n, cp, rfl, h1, hf, h2.1, h2.2⟩

end NetPol

/-! ## C. the pre-scan -/

namespace ConnSet

theorem allowAll_union_right_wfe {c o : ConnSet} (h : o.allowAll = true) :
    (c.union o).allowAll = true := by
  unfold union
  by_cases h1 : (c.allowAll || o.isEmpty) = true
  · rw [if_pos h1]
    rw [Bool.or_eq_true] at h1
    rcases h1 with h1 | h1
    · exact h1
    · simp [isEmpty, h] at h1
  · rw [if_neg h1, if_pos h]
    rfl

/-- a fold of unions: well-formedness, denotation, names -/
theorem foldl_union_spec (l : List ConnSet) (hl : ∀ c ∈ l, c.WFE) (acc : ConnSet) (hacc : acc.WF) :
    (l.foldl union acc).WF ∧
    (∀ pr x, (l.foldl union acc).den pr x ↔ acc.den pr x ∨ ∃ c ∈ l, c.den pr x) ∧
    (∀ pr n, n ∈ (l.foldl union acc).names pr → n ∈ acc.names pr ∨ ∃ c ∈ l, n ∈ c.names pr) ∧
    (∀ pr n, (n ∈ acc.names pr ∨ ∃ c ∈ l, n ∈ c.names pr) →
      n ∈ (l.foldl union acc).names pr ∨ (l.foldl union acc).allowAll = true) ∧
    ((acc.allowAll = true ∨ ∃ c ∈ l, c.allowAll = true) → (l.foldl union acc).allowAll = true) := by
  induction l generalizing acc with
  | nil =>
    refine ⟨hacc, fun pr x => by simp, fun pr n h => Or.inl h, ?_, ?_⟩
    · rintro pr n (h | ⟨c, hc, _⟩)
      · exact Or.inl h
      · exact absurd hc (List.not_mem_nil)
    · rintro (h | ⟨c, hc, _⟩)
      · exact h
      · exact absurd hc (List.not_mem_nil)
  | cons c rest ih =>
    have hcw := hl c (List.mem_cons_self ..)
    obtain ⟨i1, i2, i3, i4, i5⟩ := ih (fun c' h => hl c' (List.mem_cons_of_mem _ h)) (acc.union c)
      (wf_union_wfe hacc hcw)
    rw [List.foldl_cons]
    refine ⟨i1, ?_, ?_, ?_, ?_⟩
    · intro pr x
      rw [i2, den_union_wfe hacc hcw]
      simp only [List.mem_cons, exists_eq_or_imp, or_assoc]
    · intro pr n hn
      rcases i3 pr n hn with h | ⟨c', hc', h⟩
      · rcases names_union_sub _ _ _ _ h with h | h
        · exact Or.inl h
        · exact Or.inr ⟨c, List.mem_cons_self .., h⟩
      · exact Or.inr ⟨c', List.mem_cons_of_mem _ hc', h⟩
    · intro pr n hn
      have : n ∈ (acc.union c).names pr ∨ (acc.union c).allowAll = true ∨
          ∃ c' ∈ rest, n ∈ c'.names pr := by
        rcases hn with h | ⟨c', hc', h⟩
        · rcases names_union_sup acc c pr n (Or.inl h) with h | h
          · exact Or.inl h
          · exact Or.inr (Or.inl h)
        · rcases List.mem_cons.mp hc' with rfl | hc'
          · rcases names_union_sup acc c' pr n (Or.inr h) with h | h
            · exact Or.inl h
            · exact Or.inr (Or.inl h)
          · exact Or.inr (Or.inr ⟨c', hc', h⟩)
      rcases this with h | h | h
      · exact i4 pr n (Or.inl h)
      · exact Or.inr (i5 (Or.inl h))
      · exact i4 pr n (Or.inr h)
    · rintro (h | ⟨c', hc', h⟩)
      · exact i5 (Or.inl (allowAll_union_left _ _ h))
      · rcases List.mem_cons.mp hc' with rfl | hc'
        · exact i5 (Or.inl (allowAll_union_right_wfe h))
        · exact i5 (Or.inr ⟨c', hc', h⟩)

/-- a well-formed AllowAll form is `mk' true` -/
theorem eq_all_of_wf {c : ConnSet} (hw : c.WF) (ha : c.allowAll = true) : c = mk' true := by
  have := eq_mk'_of_noProtos (hw.1 ha)
  rw [ha] at this
  exact this

end ConnSet

/-- a monadic fold whose steps never fail is the pure fold -/
theorem foldlM_ok_eq_foldl {α β ε : Type} (f : β → α → Except ε β) (g : β → α → β) (l : List α)
    (h : ∀ b, ∀ a ∈ l, f b a = .ok (g b a)) (b : β) : l.foldlM f b = .ok (l.foldl g b) := by
  induction l generalizing b with
  | nil => rfl
  | cons a rest ih =>
    rw [List.foldlM_cons, h b a (List.mem_cons_self ..)]
    exact ih (fun b' a' ha' => h b' a' (List.mem_cons_of_mem _ ha')) (g b a)

namespace Exposure
open Engine NetPol

/-- a rule peer that stands for the entire cluster: an empty namespaceSelector with no or an empty
podSelector -/
def isEntireClusterPeer (p : NPPeer) : Bool :=
  match p with
  | .ip .. => false
  | .sel podSel nsSel => nsSel.isSome && selSize0 nsSel && (podSel.isNone || selSize0 podSel)

/-- the selector pairs of the rule peers (ipBlock peers have none) -/
def peerSels (peers : List NPPeer) : List RuleSel :=
  peers.filterMap fun p => match p with | .ip .. => none | .sel p n => some ⟨p, n⟩

/-- the rule contributes to the cluster-wide connection: no peers, or an entire-cluster peer -/
def isCW (r : NPRule) : Bool := r.peers.isEmpty || r.peers.any isEntireClusterPeer

theorem scanRule_go_eq (acc : List RuleSel) (peers : List NPPeer) :
    scanRule.go acc peers =
      .ok (if peers.any isEntireClusterPeer then none else some (acc ++ peerSels peers)) := by
  induction peers generalizing acc with
  | nil => simp [scanRule.go, peerSels]
  | cons p rest ih =>
    cases p with
    | ip c ex =>
      simp only [scanRule.go, ih, List.any_cons, isEntireClusterPeer, Bool.false_or, peerSels,
        List.filterMap_cons]
    | sel podSel nsSel =>
      simp only [scanRule.go, List.any_cons, isEntireClusterPeer]
      split
      · rename_i h; simp [h]
      · rename_i h
        rw [ih]
        simp [h, peerSels]

/-- `scanRule` as a pure step -/
def scanStep (sc : Scan) (r : NPRule) : Scan :=
  if r.peers.isEmpty then
    { sc with external := sc.external.union (rcNone r.ports),
              clusterWide := sc.clusterWide.union (rcNone r.ports) }
  else if r.peers.any isEntireClusterPeer then
    { sc with clusterWide := sc.clusterWide.union (rcNone r.ports) }
  else { sc with sels := sc.sels ++ peerSels r.peers }

theorem scanRule_eq (sc : Scan) (r : NPRule) (hv : ∀ q ∈ r.ports, q.Valid) :
    scanRule sc r = .ok (scanStep sc r) := by
  unfold scanRule scanStep
  rw [ruleConnections_none_eq r.ports hv, scanRule_go_eq]
  cases h1 : r.peers.isEmpty
  · cases h2 : r.peers.any isEntireClusterPeer <;> rfl
  · rfl

/-- the pre-scan as a pure function -/
def scanPure (np : NetPol) (d : Dir) : Scan :=
  if !np.affects d then {} else (Spec.npRules np d).foldl scanStep {}

theorem scan_eq (np : NetPol) (d : Dir) (hv : ∀ r ∈ Spec.npRules np d, ∀ q ∈ r.ports, q.Valid) :
    scan np d = .ok (scanPure np d) := by
  unfold scan scanPure
  split
  · rfl
  · exact foldlM_ok_eq_foldl scanRule scanStep (Spec.npRules np d)
      (fun sc r hr => scanRule_eq sc r (hv r hr)) _

theorem foldl_scanStep_external (rules : List NPRule) (sc : Scan) :
    (rules.foldl scanStep sc).external =
      ((rules.filter (·.peers.isEmpty)).map (rcNone ·.ports)).foldl ConnSet.union sc.external := by
  induction rules generalizing sc with
  | nil => rfl
  | cons r rest ih =>
    rw [List.foldl_cons, ih, List.filter_cons]
    unfold scanStep
    cases h1 : r.peers.isEmpty
    · cases h2 : r.peers.any isEntireClusterPeer <;> simp
    · simp

theorem foldl_scanStep_clusterWide (rules : List NPRule) (sc : Scan) :
    (rules.foldl scanStep sc).clusterWide =
      ((rules.filter isCW).map (rcNone ·.ports)).foldl ConnSet.union sc.clusterWide := by
  induction rules generalizing sc with
  | nil => rfl
  | cons r rest ih =>
    rw [List.foldl_cons, ih, List.filter_cons]
    unfold scanStep isCW
    cases h1 : r.peers.isEmpty
    · cases h2 : r.peers.any isEntireClusterPeer <;> simp
    · simp

theorem foldl_scanStep_sels (rules : List NPRule) (sc : Scan) :
    (rules.foldl scanStep sc).sels =
      sc.sels ++ (rules.filter (fun r => !isCW r)).flatMap (fun r => peerSels r.peers) := by
  induction rules generalizing sc with
  | nil => simp
  | cons r rest ih =>
    rw [List.foldl_cons, ih, List.filter_cons]
    unfold scanStep isCW
    cases h1 : r.peers.isEmpty
    · cases h2 : r.peers.any isEntireClusterPeer <;> simp
    · simp

/-- the rules of the direction when the policy affects it, none otherwise -/
def scanRules (np : NetPol) (d : Dir) : List NPRule :=
  if np.affects d then Spec.npRules np d else []

theorem scanPure_external (np : NetPol) (d : Dir) :
    (scanPure np d).external =
      (((scanRules np d).filter (·.peers.isEmpty)).map (rcNone ·.ports)).foldl ConnSet.union
        (ConnSet.mk' false) := by
  unfold scanPure scanRules
  cases np.affects d
  · rfl
  · simp only [Bool.not_true, Bool.false_eq_true, if_false, if_true]
    rw [foldl_scanStep_external]

theorem scanPure_clusterWide (np : NetPol) (d : Dir) :
    (scanPure np d).clusterWide =
      (((scanRules np d).filter isCW).map (rcNone ·.ports)).foldl ConnSet.union
        (ConnSet.mk' false) := by
  unfold scanPure scanRules
  cases np.affects d
  · rfl
  · simp only [Bool.not_true, Bool.false_eq_true, if_false, if_true]
    rw [foldl_scanStep_clusterWide]

theorem scanPure_sels (np : NetPol) (d : Dir) :
    (scanPure np d).sels =
      ((scanRules np d).filter (fun r => !isCW r)).flatMap (fun r => peerSels r.peers) := by
  unfold scanPure scanRules
  cases np.affects d
  · rfl
  · simp only [Bool.not_true, Bool.false_eq_true, if_false, if_true]
    rw [foldl_scanStep_sels]
    rfl

theorem mem_scanRules {np : NetPol} {d : Dir} {r : NPRule} (h : r ∈ scanRules np d) :
    r ∈ Spec.npRules np d := by
  unfold scanRules at h
  split at h
  · exact h
  · exact absurd h (List.not_mem_nil)

/-- the pre-scanned connections of one policy direction -/
structure ScanSpec (np : NetPol) (d : Dir) : Prop where
  extWF : (scanPure np d).external.WF
  cwWF : (scanPure np d).clusterWide.WF
  extDen : ∀ pr x, (scanPure np d).external.den pr x ↔
    ∃ r ∈ scanRules np d, r.peers = [] ∧ portsNum r.ports pr x
  cwDen : ∀ pr x, (scanPure np d).clusterWide.den pr x ↔
    ∃ r ∈ scanRules np d, isCW r = true ∧ portsNum r.ports pr x
  cwNamesSub : ∀ pr n, n ∈ (scanPure np d).clusterWide.names pr →
    ∃ r ∈ scanRules np d, isCW r = true ∧ portsNamed r.ports pr n
  cwNamesSup : ∀ pr n, (∃ r ∈ scanRules np d, isCW r = true ∧ portsNamed r.ports pr n) →
    n ∈ (scanPure np d).clusterWide.names pr ∨ (scanPure np d).clusterWide.allowAll = true

theorem scanSpec (np : NetPol) (d : Dir) (hv : ∀ r ∈ Spec.npRules np d, ∀ q ∈ r.ports, q.Valid) :
    ScanSpec np d := by
  have hvr : ∀ r ∈ scanRules np d, ∀ q ∈ r.ports, q.Valid := fun r hr => hv r (mem_scanRules hr)
  have hE : ∀ c ∈ ((scanRules np d).filter (·.peers.isEmpty)).map (rcNone ·.ports), c.WFE := by
    intro c hc
    obtain ⟨r, hr, rfl⟩ := List.mem_map.mp hc
    exact (rcNone_spec r.ports (hvr r (List.mem_filter.mp hr).1)).1
  have hC : ∀ c ∈ ((scanRules np d).filter isCW).map (rcNone ·.ports), c.WFE := by
    intro c hc
    obtain ⟨r, hr, rfl⟩ := List.mem_map.mp hc
    exact (rcNone_spec r.ports (hvr r (List.mem_filter.mp hr).1)).1
  obtain ⟨e1, e2, _, _, _⟩ := ConnSet.foldl_union_spec _ hE (ConnSet.mk' false) (ConnSet.wf_mk false)
  obtain ⟨c1, c2, c3, c4, c5⟩ :=
    ConnSet.foldl_union_spec _ hC (ConnSet.mk' false) (ConnSet.wf_mk false)
  rw [← scanPure_external] at e1 e2
  rw [← scanPure_clusterWide] at c1 c2 c3 c4 c5
  refine ⟨e1, c1, ?_, ?_, ?_, ?_⟩
  · intro pr x
    rw [e2]
    constructor
    · rintro (h | ⟨c, hc, h⟩)
      · exact absurd h (ConnSet.den_mk_none pr x)
      · obtain ⟨r, hr, rfl⟩ := List.mem_map.mp hc
        obtain ⟨hr1, hr2⟩ := List.mem_filter.mp hr
        exact ⟨r, hr1, by simpa using hr2, ((rcNone_spec r.ports (hvr r hr1)).2.2.1 pr x).mp h⟩
    · rintro ⟨r, hr, hp, h⟩
      exact Or.inr ⟨_, List.mem_map.mpr ⟨r, List.mem_filter.mpr ⟨hr, by simp [hp]⟩, rfl⟩,
        ((rcNone_spec r.ports (hvr r hr)).2.2.1 pr x).mpr h⟩
  · intro pr x
    rw [c2]
    constructor
    · rintro (h | ⟨c, hc, h⟩)
      · exact absurd h (ConnSet.den_mk_none pr x)
      · obtain ⟨r, hr, rfl⟩ := List.mem_map.mp hc
        obtain ⟨hr1, hr2⟩ := List.mem_filter.mp hr
        exact ⟨r, hr1, hr2, ((rcNone_spec r.ports (hvr r hr1)).2.2.1 pr x).mp h⟩
    · rintro ⟨r, hr, hp, h⟩
      exact Or.inr ⟨_, List.mem_map.mpr ⟨r, List.mem_filter.mpr ⟨hr, hp⟩, rfl⟩,
        ((rcNone_spec r.ports (hvr r hr)).2.2.1 pr x).mpr h⟩
  · intro pr n hn
    rcases c3 pr n hn with h | ⟨c, hc, h⟩
    · rw [ConnSet.names_mk'] at h; exact absurd h (List.not_mem_nil)
    · obtain ⟨r, hr, rfl⟩ := List.mem_map.mp hc
      obtain ⟨hr1, hr2⟩ := List.mem_filter.mp hr
      exact ⟨r, hr1, hr2, (rcNone_spec r.ports (hvr r hr1)).2.2.2.1 pr n h⟩
  · rintro pr n ⟨r, hr, hp, h⟩
    have hmem : rcNone r.ports ∈ ((scanRules np d).filter isCW).map (rcNone ·.ports) :=
      List.mem_map.mpr ⟨r, List.mem_filter.mpr ⟨hr, hp⟩, rfl⟩
    rcases (rcNone_spec r.ports (hvr r hr)).2.2.2.2 pr n h with h' | h'
    · exact c4 pr n (Or.inr ⟨_, hmem, h'⟩)
    · exact Or.inr (c5 (Or.inr ⟨_, hmem, h'⟩))

end Exposure

/-! ## D. `allowedConns` for an arbitrary peer -/

namespace NetPol
open NetPol.ruleSelectsPeer NetPol.allowedConns

theorem ite_ok_exists {c1 c2 : Prop} [Decidable c1] [Decidable c2] {x : Except Err Bool}
    (hx : ∃ b, x = .ok b) : ∃ b, (if c1 then x else if c2 then .ok true else x) = .ok b := by
  split
  · exact hx
  · split
    · exact ⟨true, rfl⟩
    · exact hx

/-- over rule peers the API server accepts, `ruleSelectsPeer` never fails, whatever the peer
(real pod, representative peer, IP block) -/
theorem ruleSelectsPeer_go_ok (np : NetPol) (peers : List NPPeer) (other : KPeer)
    (hne : ∀ rp ∈ peers, rp ≠ .sel none none) : ∃ b, ruleSelectsPeer.go np other peers = .ok b := by
  induction peers with
  | nil => exact ⟨false, rfl⟩
  | cons rp rest ih =>
    obtain ⟨b, hb⟩ := ih (fun rp' h => hne rp' (List.mem_cons_of_mem _ h))
    have hrp := hne rp (List.mem_cons_self ..)
    cases rp with
    | ip c ex =>
      cases other with
      | pod p nso => rw [go_ip_pod]; exact ⟨b, hb⟩
      | ip x =>
        rw [go_ip_ip]
        split
        · exact ⟨true, rfl⟩
        · exact ⟨b, hb⟩
    | sel podSel nsSel =>
      cases other with
      | ip x => rw [go_sel_ip np rest x podSel nsSel hrp]; exact ⟨b, hb⟩
      | pod p nso =>
        rw [go_sel_pod np rest p nso podSel nsSel hrp]
        exact ite_ok_exists ⟨b, hb⟩

theorem ruleSelectsPeer_ok (np : NetPol) (peers : List NPPeer) (other : KPeer)
    (hne : ∀ rp ∈ peers, rp ≠ .sel none none) : ∃ b, np.ruleSelectsPeer peers other = .ok b := by
  unfold ruleSelectsPeer
  split
  · exact ⟨true, rfl⟩
  · exact ruleSelectsPeer_go_ok np peers other hne

/-- the answer of `ruleSelectsPeer` (false when it fails) -/
def selOf (np : NetPol) (other : KPeer) (r : NPRule) : Bool :=
  match np.ruleSelectsPeer r.peers other with
  | .ok b => b
  | .error _ => false

theorem ruleSelectsPeer_eq_selOf (np : NetPol) (other : KPeer) (r : NPRule)
    (hne : ∀ rp ∈ r.peers, rp ≠ .sel none none) :
    np.ruleSelectsPeer r.peers other = .ok (selOf np other r) := by
  obtain ⟨b, hb⟩ := ruleSelectsPeer_ok np r.peers other hne
  simp [selOf, hb]

theorem selOf_of_peers_nil (np : NetPol) (other : KPeer) (r : NPRule) (h : r.peers = []) :
    selOf np other r = true := by
  simp [selOf, ruleSelectsPeer, h]

/-- the AllowAll form of the accumulated set survives the loop -/
theorem allowedConns_go_allowAll (np : NetPol) (other dst : KPeer) (rules : List NPRule)
    (res c : ConnSet) (h : allowedConns.go np other dst res rules = .ok c)
    (ha : res.allowAll = true) : c.allowAll = true := by
  induction rules generalizing res with
  | nil => rw [allowedConns.go_nil] at h; cases h; exact ha
  | cons r rest ih =>
    rw [go_cons] at h
    cases hs : np.ruleSelectsPeer r.peers other with
    | error e => rw [hs] at h; cases h
    | ok b =>
      rw [hs] at h
      cases b
      · exact ih res h ha
      · cases hrcr : ruleConnections r.ports (some dst) with
        | error e => simp only [hrcr, bind, Except.bind] at h; cases h
        | ok rc =>
          simp only [hrcr, bind, Except.bind, Bool.not_true, Bool.false_eq_true, if_false] at h
          exact ih _ h (ConnSet.allowAll_union_left _ _ ha)

/-- the loop of `allowedConns` from an accumulated canonical `res`, for an arbitrary peer `other`:
`D r` / `Nm r` describe the points / names `ruleConnections` yields for rule `r` -/
theorem allowedConns_go_gen (np : NetPol) (other dst : KPeer)
    (D : NPRule → Proto → Int → Prop) (Nm : NPRule → Proto → String → Prop)
    (rules : List NPRule)
    (hsel : ∀ r ∈ rules, ∀ rp ∈ r.peers, rp ≠ .sel none none)
    (hrc : ∀ r ∈ rules, selOf np other r = true → ∀ rc,
      ruleConnections r.ports (some dst) = .ok rc → rc.WFE ∧ (∀ pr x, rc.den pr x ↔ D r pr x) ∧
        (∀ pr n, n ∈ rc.names pr → Nm r pr n) ∧
        (∀ pr n, Nm r pr n → n ∈ rc.names pr ∨ rc.allowAll = true))
    (res : ConnSet) (hcan : res.Canonical) :
    (∀ c, allowedConns.go np other dst res rules = .ok c →
      c.Canonical ∧
      (∀ pr x, c.den pr x ↔ res.den pr x ∨ ∃ r ∈ rules, selOf np other r = true ∧ D r pr x) ∧
      (∀ pr n, n ∈ c.names pr →
        n ∈ res.names pr ∨ ∃ r ∈ rules, selOf np other r = true ∧ Nm r pr n) ∧
      (∀ pr n, (n ∈ res.names pr ∨ ∃ r ∈ rules, selOf np other r = true ∧ Nm r pr n) →
        n ∈ c.names pr ∨ c.allowAll = true)) ∧
    (∀ e, allowedConns.go np other dst res rules = .error e →
      ∃ r ∈ rules, selOf np other r = true ∧ ruleConnections r.ports (some dst) = .error e) := by
  induction rules generalizing res with
  | nil =>
    rw [allowedConns.go_nil]
    constructor
    · intro c h
      cases h
      refine ⟨hcan, fun pr x => by simp, fun pr n h => Or.inl h, ?_⟩
      rintro pr n (h | ⟨r, hr, _⟩)
      · exact Or.inl h
      · exact absurd hr (List.not_mem_nil)
    · intro e h; cases h
  | cons r rest ih =>
    have hres : res.WF := hcan.1
    have hsel' : ∀ r' ∈ rest, ∀ rp ∈ r'.peers, rp ≠ .sel none none :=
      fun r' h => hsel r' (List.mem_cons_of_mem _ h)
    have hrc' : ∀ r' ∈ rest, selOf np other r' = true → ∀ rc,
        ruleConnections r'.ports (some dst) = .ok rc → rc.WFE ∧ (∀ pr x, rc.den pr x ↔ D r' pr x) ∧
          (∀ pr n, n ∈ rc.names pr → Nm r' pr n) ∧
          (∀ pr n, Nm r' pr n → n ∈ rc.names pr ∨ rc.allowAll = true) :=
      fun r' h => hrc r' (List.mem_cons_of_mem _ h)
    rw [go_cons, ruleSelectsPeer_eq_selOf np other r (hsel r (List.mem_cons_self ..))]
    show (∀ c, (if (!selOf np other r) = true then _ else _) = _ → _) ∧
      (∀ e, (if (!selOf np other r) = true then _ else _) = _ → _)
    cases hS : selOf np other r
    · -- the rule does not select the other end
      simp only [Bool.not_false, if_true]
      obtain ⟨ih1, ih2⟩ := ih hsel' hrc' res hcan
      constructor
      · intro c h
        obtain ⟨hw, hden, hn1, hn2⟩ := ih1 c h
        refine ⟨hw, fun pr x => ?_, fun pr n hn => ?_, fun pr n hn => ?_⟩
        · rw [hden]
          simp only [List.mem_cons, exists_eq_or_imp, hS, Bool.false_eq_true, false_and, false_or]
        · rcases hn1 pr n hn with h | ⟨r', hr', h⟩
          · exact Or.inl h
          · exact Or.inr ⟨r', List.mem_cons_of_mem _ hr', h⟩
        · apply hn2
          rcases hn with h | ⟨r', hr', h1, h2⟩
          · exact Or.inl h
          · rcases List.mem_cons.mp hr' with rfl | hr'
            · rw [hS] at h1; cases h1
            · exact Or.inr ⟨r', hr', h1, h2⟩
      · intro e h
        obtain ⟨r', hr', h3⟩ := ih2 e h
        exact ⟨r', List.mem_cons_of_mem _ hr', h3⟩
    · simp only [Bool.not_true, Bool.false_eq_true, if_false]
      cases hrcr : ruleConnections r.ports (some dst) with
      | error e' =>
        constructor
        · intro c h; cases h
        · intro e h
          cases h
          exact ⟨r, List.mem_cons_self .., hS, hrcr⟩
      | ok rc =>
        obtain ⟨hw, hden, hnm1, hnm2⟩ := hrc r (List.mem_cons_self ..) hS rc hrcr
        have hcan' : (res.union rc).Canonical := ConnSet.canonical_union_wfe hcan hw
        have hden' := fun pr x => ConnSet.den_union_wfe hres hw pr x
        show (∀ c, allowedConns.go np other dst (res.union rc) rest = _ → _) ∧
          (∀ e, allowedConns.go np other dst (res.union rc) rest = _ → _)
        obtain ⟨ih1, ih2⟩ := ih hsel' hrc' (res.union rc) hcan'
        constructor
        · intro c h
          obtain ⟨hcw, hcden, hn1, hn2⟩ := ih1 c h
          have hmono := allowedConns_go_allowAll np other dst rest _ c h
          refine ⟨hcw, fun pr x => ?_, fun pr n hn => ?_, fun pr n hn => ?_⟩
          · rw [hcden, hden', hden]
            simp only [List.mem_cons, exists_eq_or_imp, hS, true_and, or_assoc]
          · rcases hn1 pr n hn with h | ⟨r', hr', h⟩
            · rcases ConnSet.names_union_sub _ _ _ _ h with h | h
              · exact Or.inl h
              · exact Or.inr ⟨r, List.mem_cons_self .., hS, hnm1 pr n h⟩
            · exact Or.inr ⟨r', List.mem_cons_of_mem _ hr', h⟩
          · rcases hn with h | ⟨r', hr', h1, h2⟩
            · rcases ConnSet.names_union_sup res rc pr n (Or.inl h) with h | h
              · exact hn2 pr n (Or.inl h)
              · exact Or.inr (hmono h)
            · rcases List.mem_cons.mp hr' with rfl | hr'
              · rcases hnm2 pr n h2 with h | h
                · rcases ConnSet.names_union_sup res rc pr n (Or.inr h) with h | h
                  · exact hn2 pr n (Or.inl h)
                  · exact Or.inr (hmono h)
                · exact Or.inr (hmono (ConnSet.allowAll_union_right_wfe h))
              · exact hn2 pr n (Or.inr ⟨r', hr', h1, h2⟩)
        · intro e h
          obtain ⟨r', hr', h3⟩ := ih2 e h
          exact ⟨r', List.mem_cons_of_mem _ hr', h3⟩

/-- an invariant of the rule connection sets that unions keep is an invariant of `allowedConns` -/
theorem allowedConns_go_inv (np : NetPol) (other dst : KPeer) (I : ConnSet → Prop)
    (hU : ∀ a b, I a → I b → I (a.union b)) (rules : List NPRule)
    (hrc : ∀ r ∈ rules, ∀ rc, ruleConnections r.ports (some dst) = .ok rc → I rc)
    (res : ConnSet) (hres : I res) (c : ConnSet)
    (h : allowedConns.go np other dst res rules = .ok c) : I c := by
  induction rules generalizing res with
  | nil => rw [allowedConns.go_nil] at h; cases h; exact hres
  | cons r rest ih =>
    have hrc' : ∀ r' ∈ rest, ∀ rc, ruleConnections r'.ports (some dst) = .ok rc → I rc :=
      fun r' h => hrc r' (List.mem_cons_of_mem _ h)
    rw [go_cons] at h
    cases hs : np.ruleSelectsPeer r.peers other with
    | error e => rw [hs] at h; cases h
    | ok b =>
      rw [hs] at h
      cases b
      · exact ih hrc' res hres h
      · cases hrcr : ruleConnections r.ports (some dst) with
        | error e => simp only [hrcr, bind, Except.bind] at h; cases h
        | ok rc =>
          have hI := hU _ _ hres (hrc r (List.mem_cons_self ..) rc hrcr)
          simp only [hrcr, bind, Except.bind, Bool.not_true, Bool.false_eq_true, if_false] at h
          exact ih hrc' _ hI h

end NetPol

/-! ## E. rung 1: exposure-mode evaluation against the plain evaluation -/

/-- `y` (the exposure-mode result) is `x` (the plain result), unless the plain evaluation fails
with the named-port-on-IP error — the one recorded deviation: a pre-scanned "all connections"
answers for the policy, so that the rule with the named port is never evaluated -/
def Dev {α : Type} (x y : Except Err α) : Prop := y = x ∨ x = .error .namedPortOnIP

theorem Dev.refl {α : Type} (x : Except Err α) : Dev x x := Or.inl rfl

theorem Dev.bind {α β : Type} {x y : Except Err α} {f g : α → Except Err β} (h : Dev x y)
    (hf : ∀ a, x = .ok a → Dev (f a) (g a)) : Dev (x >>= f) (y >>= g) := by
  rcases h with h | h
  · subst h
    cases hy : y with
    | error e => exact Or.inl rfl
    | ok a => exact hf a hy
  · rw [h]; exact Or.inr rfl

theorem Dev.foldlM {α β : Type} (f g : β → α → Except Err β) (l : List α)
    (h : ∀ b, ∀ a ∈ l, Dev (f b a) (g b a)) (b : β) : Dev (l.foldlM f b) (l.foldlM g b) := by
  induction l generalizing b with
  | nil => exact Dev.refl _
  | cons a rest ih =>
    rw [List.foldlM_cons, List.foldlM_cons]
    exact Dev.bind (h b a (List.mem_cons_self ..))
      (fun b' _ => ih (fun b'' a' ha' => h b'' a' (List.mem_cons_of_mem _ ha')) b')

theorem Dev.ok_imp {α : Type} {x y : Except Err α} (h : Dev x y) {a : α} (hx : x = .ok a) :
    y = .ok a := by
  rcases h with h | h
  · rw [h, hx]
  · rw [h] at hx; cases hx

namespace NetPol

theorem rc_fold_plain (dst : Option KPeer) (ports : List NPPort)
    (h : ∀ q ∈ ports, ∀ ps, portSetOf q dst = .ok ps → ps.named = [] ∧ ps.excluded = [])
    (c0 : ConnSet) (h0 : ConnSet.Plain c0) (c : ConnSet)
    (hc : ports.foldlM (rcStep dst) c0 = .ok c) : ConnSet.Plain c := by
  induction ports generalizing c0 with
  | nil => cases hc; exact h0
  | cons q rest ih =>
    rw [List.foldlM_cons] at hc
    cases hps : portSetOf q dst with
    | error e => simp only [rcStep, hps, bind, Except.bind] at hc; cases hc
    | ok ps =>
      have hstep : rcStep dst c0 q = .ok (c0.addConnection (q.proto.getD .TCP) ps) := by
        simp only [rcStep, hps]; rfl
      rw [hstep] at hc
      exact ih (fun q' hq' => h q' (List.mem_cons_of_mem _ hq')) _
        (ConnSet.plain_addConnection h0 _ (h q (List.mem_cons_self ..) ps hps)) hc

/-- towards a real pod or an IP block a port clause yields neither a named nor an excluded port -/
theorem portSetOf_plain (q : NPPort) (d : KPeer) (hd : d.isRepresentative = false) (ps : PortSet)
    (h : portSetOf q (some d) = .ok ps) : ps.named = [] ∧ ps.excluded = [] := by
  unfold portSetOf at h
  cases hk : q.kind with
  | all =>
    rw [hk] at h
    cases h
    exact ⟨rfl, rfl⟩
  | num a e =>
    rw [hk] at h
    simp only [portsRange, hk, bind, Except.bind, pure, Except.pure, hd, Bool.false_and,
      Bool.false_eq_true, if_false] at h
    cases h
    split <;> exact ⟨rfl, rfl⟩
  | name n =>
    rw [hk] at h
    simp only [bind, Except.bind, pure, Except.pure, hd, Bool.false_and,
      Bool.false_eq_true, if_false] at h
    cases hp : portsRange q (some d) with
    | error e => rw [hp] at h; cases h
    | ok t =>
      rw [hp] at h
      obtain ⟨s', e', name⟩ := t
      simp only [] at h
      cases h
      split <;> exact ⟨rfl, rfl⟩

theorem ruleConnections_plain (ports : List NPPort) (d : KPeer) (hd : d.isRepresentative = false)
    (c : ConnSet) (h : ruleConnections ports (some d) = .ok c) : ConnSet.Plain c := by
  rw [ruleConnections_eq] at h
  split at h
  · cases h; exact ConnSet.plain_mk true
  · exact rc_fold_plain _ ports (fun q _ ps hps => portSetOf_plain q d hd ps hps) _
      (ConnSet.plain_mk false) c h

theorem _root_.Netpol.KPeer.DstOK.notRepr {k : KPeer} (h : k.DstOK) : k.isRepresentative = false := by
  cases k with
  | pod p ns => exact h.1
  | ip r => rfl

/-- what one rule's ports allow towards `dst` in the specification -/
def portsDen (ports : List NPPort) (dstE : Spec.End) (pr : Proto) (x : Int) : Prop :=
  inRange x ∧ (ports.isEmpty || ports.any (Spec.npPortMatches · dstE pr x)) = true

/-- `allowedConns` towards a real pod or an IP block, for an arbitrary peer `other` (a real pod, a
representative peer or any IP block): canonical, without named ports, and exactly the union over
the rules that select `other` -/
theorem allowedConns_plain_spec (np : NetPol) (rules : List NPRule) (hv : ∀ r ∈ rules, r.Valid)
    (other dst : KPeer) (hd : dst.DstOK) :
    (∀ c, np.allowedConns rules other dst = .ok c →
      c.Canonical ∧ ConnSet.Plain c ∧ ∀ pr x, c.den pr x ↔
        ∃ r ∈ rules, selOf np other r = true ∧ portsDen r.ports (dst.toEnd 0) pr x) ∧
    (∀ e, np.allowedConns rules other dst = .error e → e = .namedPortOnIP ∧ dst.isPod = false) := by
  obtain ⟨g1, g2⟩ := allowedConns_go_gen np other dst
    (fun r pr x => portsDen r.ports (dst.toEnd 0) pr x) (fun _ _ _ => False)
    rules (fun r hr => (hv r hr).2)
    (fun r hr _ rc hrc => by
      obtain ⟨hw, _, hden⟩ := ruleConnections_dst_ok r.ports dst 0 hd (hv r hr).1 rc hrc
      refine ⟨hw, hden, ?_, fun pr n h => absurd h id⟩
      intro pr n hn
      rw [(ruleConnections_plain r.ports dst hd.notRepr rc hrc).names] at hn
      exact absurd hn (List.not_mem_nil))
    (ConnSet.mk' false) (ConnSet.canonical_mk false)
  constructor
  · intro c h
    obtain ⟨hc, hden, _, _⟩ := g1 c h
    refine ⟨hc, ?_, fun pr x => ?_⟩
    · exact allowedConns_go_inv np other dst ConnSet.Plain (fun a b => ConnSet.plain_union) rules
        (fun r _ rc hrc => ruleConnections_plain r.ports dst hd.notRepr rc hrc) _
        (ConnSet.plain_mk false) c h
    · rw [hden]
      simp [ConnSet.den_mk_none]
  · intro e h
    obtain ⟨r, hr, _, hrc⟩ := g2 e h
    obtain ⟨h1, h2, _⟩ := ruleConnections_dst_err r.ports dst hd (hv r hr).1 e hrc
    exact ⟨h1, h2⟩

end NetPol

namespace Exposure
open Engine NetPol

theorem npStep_eq_allowedConns (np : NetPol) (src dst : KPeer) (i : Bool) :
    npStep src dst i np = np.allowedConns (Spec.npRules np (dirOf i)) (otherPeer src dst i) dst := by
  cases i <;> rfl

theorem isEntireClusterPeer_iff (rp : NPPeer) :
    isEntireClusterPeer rp = true ↔ ∃ podSel s, rp = .sel podSel (some s) ∧ s.isEmpty = true ∧
      ∀ ps, podSel = some ps → ps.isEmpty = true := by
  cases rp with
  | ip c ex => simp [isEntireClusterPeer]
  | sel podSel nsSel =>
    cases nsSel with
    | none => simp [isEntireClusterPeer]
    | some s =>
      cases podSel with
      | none =>
        simp only [isEntireClusterPeer, selSize0, Option.isSome_some, Option.isNone_none,
          Bool.true_and, Bool.true_or, Bool.and_true]
        constructor
        · intro h; exact ⟨none, s, rfl, h, fun ps hps => by cases hps⟩
        · rintro ⟨podSel, s', heq, hs, _⟩; cases heq; exact hs
      | some ps =>
        simp only [isEntireClusterPeer, selSize0, Option.isSome_some, Option.isNone_some,
          Bool.true_and, Bool.false_or, Bool.and_eq_true]
        constructor
        · rintro ⟨h1, h2⟩; exact ⟨some ps, s, rfl, h1, fun ps' hps => by cases hps; exact h2⟩
        · rintro ⟨podSel, s', heq, hs, hps⟩; cases heq; exact ⟨hs, hps ps rfl⟩

theorem ite_ok_cases {c1 c2 : Prop} [Decidable c1] [Decidable c2] {x : Except Err Bool} {b : Bool}
    (h : (if c1 then x else if c2 then .ok true else x) = .ok b) : x = .ok b ∨ b = true := by
  split at h
  · exact Or.inl h
  · split at h
    · cases h; exact Or.inr rfl
    · exact Or.inl h

/-- an entire-cluster peer selects every real pod -/
theorem go_of_entireCluster (np : NetPol) (p : Pod) (nso : Option NsObj)
    (hrep : p.isRepresentative = false) (peers : List NPPeer)
    (h : ∃ rp ∈ peers, isEntireClusterPeer rp = true) (b : Bool)
    (hb : ruleSelectsPeer.go np (.pod p nso) peers = .ok b) : b = true := by
  induction peers with
  | nil => obtain ⟨rp, hrp, _⟩ := h; exact absurd hrp (List.not_mem_nil)
  | cons rp rest ih =>
    cases rp with
    | ip c ex =>
      rw [ruleSelectsPeer.go_ip_pod] at hb
      apply ih _ hb
      obtain ⟨rp', hrp', h'⟩ := h
      rcases List.mem_cons.mp hrp' with rfl | hrp'
      · simp [isEntireClusterPeer] at h'
      · exact ⟨rp', hrp', h'⟩
    | sel podSel nsSel =>
      by_cases hnn : NPPeer.sel podSel nsSel = .sel none none
      · rw [hnn, ruleSelectsPeer.go_sel_nn] at hb; cases hb
      · rw [ruleSelectsPeer.go_sel_pod np rest p nso podSel nsSel hnn, hrep] at hb
        by_cases hec : isEntireClusterPeer (.sel podSel nsSel) = true
        · obtain ⟨podSel', s, heq, hs, hps⟩ := (isEntireClusterPeer_iff _).mp hec
          cases heq
          simp only [selectorsMatch_real, Selector.matches_of_isEmpty hs, Bool.not_true,
            Bool.false_eq_true, if_false] at hb
          cases podSel with
          | none => simp only [if_true] at hb; cases hb; rfl
          | some ps =>
            simp only [Selector.matches_of_isEmpty (hps ps rfl), if_true] at hb
            cases hb; rfl
        · have hrest : ∃ rp ∈ rest, isEntireClusterPeer rp = true := by
            obtain ⟨rp', hrp', h'⟩ := h
            rcases List.mem_cons.mp hrp' with rfl | hrp'
            · exact absurd h' hec
            · exact ⟨rp', hrp', h'⟩
          rcases ite_ok_cases hb with hb | hb
          · exact ih hrest hb
          · exact hb

theorem selOf_of_isCW (np : NetPol) (p : Pod) (nso : Option NsObj)
    (hrep : p.isRepresentative = false) (r : NPRule) (hne : ∀ rp ∈ r.peers, rp ≠ .sel none none)
    (hcw : isCW r = true) : selOf np (.pod p nso) r = true := by
  have := ruleSelectsPeer_eq_selOf np (.pod p nso) r hne
  unfold isCW at hcw
  rw [Bool.or_eq_true] at hcw
  rcases hcw with hcw | hcw
  · exact selOf_of_peers_nil np _ r (by simpa using hcw)
  · unfold ruleSelectsPeer at this
    split at this
    · rename_i h
      exact selOf_of_peers_nil np _ r (by simpa using h)
    · exact go_of_entireCluster np p nso hrep r.peers (List.any_eq_true.mp hcw) _ this

/-- `policyConns` after the pre-scan -/
theorem policyConns_eq (np : NetPol) (src dst : KPeer) (i : Bool)
    (hv : ∀ r ∈ Spec.npRules np (dirOf i), ∀ q ∈ r.ports, q.Valid) :
    policyConns np src dst i =
      if (scanPure np (dirOf i)).external.allowAll then .ok (scanPure np (dirOf i)).external
      else if (scanPure np (dirOf i)).clusterWide.allowAll && (otherPeer src dst i).isPod then
        .ok (scanPure np (dirOf i)).clusterWide
      else npStep src dst i np := by
  unfold policyConns
  have : (if i then Dir.ingress else Dir.egress) = dirOf i := rfl
  rw [this, scan_eq np (dirOf i) hv]
  cases i <;> rfl

/-- Rung 1, one policy: the exposure-mode connections of a policy are the plain ones, unless the
plain evaluation fails with the named-port-on-IP error -/
theorem policyConns_dev (np : NetPol) (src dst : KPeer) (i : Bool)
    (hv : ∀ r ∈ Spec.npRules np (dirOf i), r.Valid) (hd : dst.DstOK)
    (ho : (otherPeer src dst i).isRepresentative = false) :
    Dev (npStep src dst i np) (policyConns np src dst i) := by
  have hvp : ∀ r ∈ Spec.npRules np (dirOf i), ∀ q ∈ r.ports, q.Valid := fun r hr => (hv r hr).1
  have S := scanSpec np (dirOf i) hvp
  obtain ⟨a1, a2⟩ := allowedConns_plain_spec np (Spec.npRules np (dirOf i)) hv
    (otherPeer src dst i) dst hd
  rw [← npStep_eq_allowedConns] at a1 a2
  -- a plain result that covers the port range is `mk' true`
  have hfull : ∀ c, npStep src dst i np = .ok c →
      (∀ pr x, inRange x → ∃ r ∈ Spec.npRules np (dirOf i),
        selOf np (otherPeer src dst i) r = true ∧ portsNum r.ports pr x) → c = ConnSet.mk' true := by
    intro c hc hall
    obtain ⟨hcan, hpl, hden⟩ := a1 c hc
    apply ConnSet.eq_all_of_full hcan hpl
    intro pr x hx
    obtain ⟨r, hr, hs, hp⟩ := hall pr x hx
    exact (hden pr x).mpr ⟨r, hr, hs, portsNum_spec hp _⟩
  rw [policyConns_eq np src dst i hvp]
  by_cases hE : (scanPure np (dirOf i)).external.allowAll = true
  · rw [if_pos hE, ConnSet.eq_all_of_wf S.extWF hE]
    cases hc : npStep src dst i np with
    | error e => exact Or.inr (by rw [(a2 e hc).1])
    | ok c =>
      left
      rw [hfull c hc]
      intro pr x hx
      have : (scanPure np (dirOf i)).external.den pr x := Or.inl ⟨hE, hx⟩
      obtain ⟨r, hr, hp, hn⟩ := (S.extDen pr x).mp this
      exact ⟨r, mem_scanRules hr, selOf_of_peers_nil np _ r hp, hn⟩
  · rw [if_neg hE]
    by_cases hC : ((scanPure np (dirOf i)).clusterWide.allowAll && (otherPeer src dst i).isPod) = true
    · rw [if_pos hC]
      rw [Bool.and_eq_true] at hC
      rw [ConnSet.eq_all_of_wf S.cwWF hC.1]
      cases hc : npStep src dst i np with
      | error e => exact Or.inr (by rw [(a2 e hc).1])
      | ok c =>
        left
        rw [hfull c hc]
        intro pr x hx
        have : (scanPure np (dirOf i)).clusterWide.den pr x := Or.inl ⟨hC.1, hx⟩
        obtain ⟨r, hr, hp, hn⟩ := (S.cwDen pr x).mp this
        refine ⟨r, mem_scanRules hr, ?_, hn⟩
        cases hop : otherPeer src dst i with
        | ip x => rw [hop] at hC; exact absurd hC.2 (by simp [KPeer.isPod])
        | pod p nso =>
          rw [hop] at ho
          exact selOf_of_isCW np p nso ho r (hv r (mem_scanRules hr)).2 hp
    · rw [if_neg hC]
      exact Dev.refl _

/-- the rules of every NetworkPolicy of the engine are as the API server accepts them -/
def NpValid (e : Engine) : Prop :=
  ∀ np ∈ e.netpols, (∀ r ∈ np.ingress, r.Valid) ∧ (∀ r ∈ np.egress, r.Valid)

instance (e : Engine) : Decidable (NpValid e) := by unfold NpValid; infer_instance

theorem NpValid.rules {e : Engine} (hv : NpValid e) {np : NetPol} (hnp : np ∈ e.netpols) (d : Dir) :
    ∀ r ∈ Spec.npRules np d, r.Valid := by
  cases d
  · exact (hv np hnp).1
  · exact (hv np hnp).2

/-- `Engine.xgressConns` of an engine without admin policies -/
theorem _root_.Netpol.Engine.xgressConns_np_only (e : Engine) (ha : e.anps = []) (hb : e.banp = none)
    (src dst : KPeer) (i : Bool) :
    e.xgressConns src dst i =
      if (e.policiesSelecting (selfPeer src dst i) (dirOf i)).isEmpty then .ok (ConnSet.mk' true)
      else (e.policiesSelecting (selfPeer src dst i) (dirOf i)).foldlM (npFold src dst i)
        (ConnSet.mk' false) := by
  have h1 : e.xgressConns src dst i =
      (e.netpolConns src dst i >>= fun o => pure (o.getD (ConnSet.mk' true))) := by
    unfold Engine.xgressConns Engine.anpConns Engine.defaultConns
    rw [ha, hb]
    simp only [List.foldlM_nil, bind, Except.bind, pure, Except.pure]
    cases e.netpolConns src dst i with
    | error err => rfl
    | ok o => cases o <;> rfl
  rw [h1, netpolConns_eq]
  split
  · rfl
  · cases (e.policiesSelecting (selfPeer src dst i) (dirOf i)).foldlM (npFold src dst i)
      (ConnSet.mk' false) <;> rfl

/-- the fold step of the exposure-mode `xgressConns` -/
def xFold (src dst : KPeer) (i : Bool) (acc : ConnSet) (np : NetPol) : Except Err ConnSet :=
  policyConns np src dst i >>= fun c => pure (acc.union c)

theorem xgressConns_eq (e : Engine) (src dst : KPeer) (i : Bool) :
    xgressConns e src dst i =
      if (e.policiesSelecting (selfPeer src dst i) (dirOf i)).isEmpty then .ok (ConnSet.mk' true)
      else (e.policiesSelecting (selfPeer src dst i) (dirOf i)).foldlM (xFold src dst i)
        (ConnSet.mk' false) := by
  cases i <;> rfl

theorem mem_policiesSelecting {e : Engine} {k : KPeer} {d : Dir} {np : NetPol}
    (h : np ∈ e.policiesSelecting k d) : np ∈ e.netpols ∧ ∃ p nso, k = .pod p nso ∧
      np.selects p d = true := by
  cases k with
  | ip r => exact absurd h (List.not_mem_nil)
  | pod p nso =>
    obtain ⟨h1, h2⟩ := List.mem_filter.mp (Engine.mem_sortByName.mp h)
    exact ⟨h1, p, nso, rfl, h2⟩

/-- Rung 1, one direction -/
theorem xgressConns_dev (e : Engine) (ha : e.anps = []) (hb : e.banp = none) (hv : NpValid e)
    (src dst : KPeer) (i : Bool) (hd : dst.DstOK)
    (ho : (otherPeer src dst i).isRepresentative = false) :
    Dev (e.xgressConns src dst i) (xgressConns e src dst i) := by
  rw [Engine.xgressConns_np_only e ha hb, xgressConns_eq]
  split
  · exact Dev.refl _
  · apply Dev.foldlM
    intro acc np hnp
    have hnp' := (mem_policiesSelecting hnp).1
    exact Dev.bind (policyConns_dev np src dst i (hv.rules hnp' _) hd ho) (fun c _ => Dev.refl _)

theorem peerConns_eq (e : Engine) (src dst : KPeer) :
    peerConns e src dst =
      if isPodToItself src dst then .ok (ConnSet.mk' true)
      else xgressConns e src dst false >>= fun res =>
        if res.isEmpty then .ok res
        else xgressConns e src dst true >>= fun ing => .ok (res.inter ing) := rfl

theorem _root_.Netpol.Engine.peerConns_eq' (e : Engine) (src dst : KPeer) :
    e.peerConns src dst =
      if isPodToItself src dst then .ok (ConnSet.mk' true)
      else e.xgressConns src dst false >>= fun res =>
        if res.isEmpty then .ok res
        else e.xgressConns src dst true >>= fun ing => .ok (res.inter ing) := rfl

/-- Rung 1, one pair of real peers -/
theorem peerConns_dev (e : Engine) (ha : e.anps = []) (hb : e.banp = none) (hv : NpValid e)
    (src dst : KPeer) (hs : src.isRepresentative = false) (hd : dst.DstOK) :
    Dev (e.peerConns src dst) (peerConns e src dst) := by
  rw [Engine.peerConns_eq', peerConns_eq]
  split
  · exact Dev.refl _
  · apply Dev.bind (xgressConns_dev e ha hb hv src dst false hd hd.notRepr)
    intro res _
    split
    · exact Dev.refl _
    · exact Dev.bind (xgressConns_dev e ha hb hv src dst true hd hs) (fun _ _ => Dev.refl _)

/-- a peer of the report that stands for real objects: a workload whose pod is not a representative
peer and declares legal container ports, or an IP range -/
def _root_.Netpol.Engine.LPeer.Real (p : LPeer) : Prop :=
  match p with
  | .wl _ pod => pod.isRepresentative = false ∧ pod.ValidPorts
  | .ip _ => True

instance (p : LPeer) : Decidable p.Real := by
  unfold LPeer.Real; split <;> infer_instance

theorem toKPeer_real {e : Engine} {p : LPeer} (hp : p.Real) {k : KPeer} (h : e.toKPeer p = .ok k) :
    k.DstOK := by
  cases p with
  | ip r => cases h; trivial
  | wl n pod =>
    unfold toKPeer at h
    simp only [] at h
    split at h
    · cases h; exact hp
    · split at h
      · cases h
      · cases h; exact hp

/-- the pair step of the two report loops -/
def pairStep (pc : KPeer → KPeer → Except Err ConnSet) (e : Engine) (focus : String) (s : LPeer)
    (acc : List Entry) (d : LPeer) : Except Err (List Entry) :=
  if s.isIP && d.isIP then pure acc
  else if s.str == d.str then pure acc
  else if !(isFocus focus s || isFocus focus d) then pure acc
  else do
    let ks ← e.toKPeer s
    let kd ← e.toKPeer d
    let c ← pc ks kd
    if c.isEmpty then pure acc else pure (acc ++ [⟨s, d, c⟩])

theorem connsBetweenPeers_eq_pairStep (e : Engine) (peers : List LPeer) (focus : String) :
    connsBetweenPeers e peers focus =
      peers.foldlM (fun acc s => peers.foldlM (pairStep (peerConns e) e focus s) acc) [] := rfl

theorem _root_.Netpol.Engine.connsBetweenPeers_eq_pairStep (e : Engine) (peers : List LPeer)
    (focus : String) :
    e.connsBetweenPeers peers focus =
      peers.foldlM (fun acc s => peers.foldlM (pairStep e.peerConns e focus s) acc) [] := rfl

/-- Rung 1, the report: the base report of `list --exposure` over real peers is the report of
`list`, unless the latter fails with the named-port-on-IP error -/
theorem connsBetweenPeers_dev (e : Engine) (ha : e.anps = []) (hb : e.banp = none) (hv : NpValid e)
    (peers : List LPeer) (hp : ∀ p ∈ peers, p.Real) (focus : String) :
    Dev (e.connsBetweenPeers peers focus) (connsBetweenPeers e peers focus) := by
  rw [Engine.connsBetweenPeers_eq_pairStep, connsBetweenPeers_eq_pairStep]
  apply Dev.foldlM
  intro acc s hs
  apply Dev.foldlM
  intro acc' d hdm
  unfold pairStep
  split
  · exact Dev.refl _
  · split
    · exact Dev.refl _
    · split
      · exact Dev.refl _
      · apply Dev.bind (Dev.refl _)
        intro ks hks
        apply Dev.bind (Dev.refl _)
        intro kd hkd
        exact Dev.bind (peerConns_dev e ha hb hv ks kd (toKPeer_real (hp s hs) hks).notRepr
          (toKPeer_real (hp d hdm) hkd)) (fun _ _ => Dev.refl _)

/-! ## F. `convertNamedPorts`, `clusterWideConn` -/

/-- one step of `checkAndConvertNamedPortsInConnection`: the named port `name` of the entry of
protocol `pr` -/
def cnStep (pod : Pod) (pr : Proto) (acc : ConnSet) (name : String) : ConnSet :=
  match pod.convertNamedPort name with
  | some (ppr, n) => if ppr == pr then (acc.replaceNamedPort pr name n).getD acc else acc
  | none => acc

theorem convertNamedPort_valid {pod : Pod} (hp : pod.ValidPorts) {name : String} {pr : Proto}
    {n : Int} (h : pod.convertNamedPort name = some (pr, n)) : inRange n := by
  unfold Pod.convertNamedPort at h
  cases hf : pod.ports.find? (fun c => c.name == name) with
  | none => rw [hf] at h; cases h
  | some c =>
    rw [hf] at h
    cases h
    exact hp c (List.mem_of_find?_eq_some hf)

theorem convertNamedPort_iff (pod : Pod) (name : String) (pr : Proto) (n : Int) :
    pod.convertNamedPort name = some (pr, n) ↔
      ∃ cp, pod.ports.find? (fun c => c.name == name) = some cp ∧ cp.proto = pr ∧ cp.port = n := by
  unfold Pod.convertNamedPort
  cases pod.ports.find? (fun c => c.name == name) with
  | none => simp
  | some c =>
    simp only [Option.map_some, Option.some.injEq, Prod.mk.injEq, exists_eq_left']

/-- the step keeps well-formedness, adds the resolved port, and never creates or drops an entry -/
theorem cnStep_spec (pod : Pod) (hp : pod.ValidPorts) (pr : Proto) (acc : ConnSet) (hacc : acc.WF)
    (name : String) :
    (cnStep pod pr acc name).WF ∧
    (∀ pr' x, (cnStep pod pr acc name).den pr' x ↔ acc.den pr' x ∨
      (pr' = pr ∧ (acc.get pr).isSome = true ∧ pod.convertNamedPort name = some (pr, x))) ∧
    (∀ pr', ((cnStep pod pr acc name).get pr').isSome = (acc.get pr').isSome) ∧
    (∀ pr' n, n ∈ (cnStep pod pr acc name).names pr' → n ∈ acc.names pr') := by
  unfold cnStep
  cases hc : pod.convertNamedPort name with
  | none =>
    refine ⟨hacc, fun pr' x => ?_, fun _ => rfl, fun _ _ h => h⟩
    simp
  | some t =>
    obtain ⟨ppr, n⟩ := t
    simp only []
    by_cases hpp : ppr = pr
    · subst hpp
      have hn : inRange n := convertNamedPort_valid hp hc
      simp only [beq_self_eq_true, if_true]
      unfold ConnSet.replaceNamedPort
      cases hg : acc.get ppr with
      | none =>
        refine ⟨hacc, fun pr' x => ?_, fun _ => rfl, fun _ _ h => h⟩
        simp
      | some ps =>
        have hne : (n != noPort) = true := by
          have : n ≠ -1 := by have := hn.1; omega
          simpa [noPort] using this
        simp only [hne, if_true, Option.getD_some]
        have hfa : acc.allowAll = false := by
          cases h : acc.allowAll
          · rfl
          · have := (ConnSet.noProtos_iff acc).mp (hacc.1 h) ppr
            rw [hg] at this; cases this
        have hpsw := hacc.2 ppr ps hg
        have hmem : ∀ x, memL (ps.addPort (.num n)).ports x ↔
            memL ps.ports x ∨ x = n := by
          intro x
          show memL (addIv (Iv.new n n) ps.ports) x ↔ _
          rw [mem_addIv, mem_new]
          constructor
          · rintro (h | h)
            · exact Or.inr (by omega)
            · exact Or.inl h
          · rintro (h | h)
            · exact Or.inr h
            · exact Or.inl (by omega)
        refine ⟨?_, ?_, ?_, ?_⟩
        · apply ConnSet.wf_of_entries (by simpa using hfa)
          intro pr' ps' hg'
          rw [ConnSet.get_set] at hg'
          split at hg'
          · cases hg'
            refine ⟨PortSet.wf_addPort_num hpsw.1 hn, ?_⟩
            rw [PortSet.isEmpty_eq_false_iff]
            left
            exact ne_nil_of_memL ((hmem n).mpr (Or.inr rfl))
          · exact hacc.2 pr' ps' hg'
        · intro pr' x
          rw [ConnSet.den_of_not_allowAll (by simpa using hfa), ConnSet.den_of_not_allowAll hfa,
            ConnSet.get_set]
          by_cases h : pr' = ppr
          · subst h
            simp only [if_true, Option.some.injEq, exists_eq_left', hg, hmem, Option.isSome_some,
              true_and, Prod.mk.injEq]
            constructor
            · rintro (h | h)
              · exact Or.inl h
              · exact Or.inr h.symm
            · rintro (h | h)
              · exact Or.inl h
              · exact Or.inr h.symm
          · simp [h]
        · intro pr'
          rw [ConnSet.get_set]
          by_cases h : pr' = ppr
          · subst h; simp [hg]
          · simp [h]
        · intro pr' m hm
          rw [ConnSet.mem_names_iff] at hm ⊢
          obtain ⟨ps', hg', hm'⟩ := hm
          rw [ConnSet.get_set] at hg'
          split at hg'
          · rename_i h
            subst h
            cases hg'
            exact ⟨ps, hg, ((mem_serase m name _).mp hm').1⟩
          · exact ⟨ps', hg', hm'⟩
    · have : (ppr == pr) = false := by simpa using hpp
      simp only [this, Bool.false_eq_true, if_false]
      refine ⟨hacc, fun pr' x => ?_, by simp, fun _ _ h => h⟩
      constructor
      · exact Or.inl
      · rintro (h | ⟨_, _, h⟩)
        · exact h
        · cases h; exact absurd rfl hpp

/-- the names of one protocol entry -/
theorem cnFold_spec (pod : Pod) (hp : pod.ValidPorts) (pr : Proto) (names : List String)
    (acc : ConnSet) (hacc : acc.WF) :
    (names.foldl (cnStep pod pr) acc).WF ∧
    (∀ pr' x, (names.foldl (cnStep pod pr) acc).den pr' x ↔ acc.den pr' x ∨
      (pr' = pr ∧ (acc.get pr).isSome = true ∧
        ∃ n ∈ names, pod.convertNamedPort n = some (pr, x))) ∧
    (∀ pr', ((names.foldl (cnStep pod pr) acc).get pr').isSome = (acc.get pr').isSome) ∧
    (∀ pr' n, n ∈ (names.foldl (cnStep pod pr) acc).names pr' → n ∈ acc.names pr') := by
  induction names generalizing acc with
  | nil =>
    refine ⟨hacc, fun pr' x => ?_, fun _ => rfl, fun _ _ h => h⟩
    simp
  | cons nm rest ih =>
    obtain ⟨s1, s2, s3, s4⟩ := cnStep_spec pod hp pr acc hacc nm
    obtain ⟨i1, i2, i3, i4⟩ := ih (cnStep pod pr acc nm) s1
    rw [List.foldl_cons]
    refine ⟨i1, fun pr' x => ?_, fun pr' => by rw [i3, s3], fun pr' n h => s4 pr' n (i4 pr' n h)⟩
    rw [i2, s2, s3]
    simp only [List.mem_cons, exists_eq_or_imp]
    constructor
    · rintro ((h | ⟨h1, h2, h3⟩) | ⟨h1, h2, h3⟩)
      · exact Or.inl h
      · exact Or.inr ⟨h1, h2, Or.inl h3⟩
      · exact Or.inr ⟨h1, h2, Or.inr h3⟩
    · rintro (h | ⟨h1, h2, h3 | h3⟩)
      · exact Or.inl (Or.inl h)
      · exact Or.inl (Or.inr ⟨h1, h2, h3⟩)
      · exact Or.inr ⟨h1, h2, h3⟩

theorem convertNamedPorts_eq (pod : Pod) (c : ConnSet) :
    convertNamedPorts pod c =
      (c.names .SCTP).foldl (cnStep pod .SCTP)
        ((c.names .UDP).foldl (cnStep pod .UDP) ((c.names .TCP).foldl (cnStep pod .TCP) c)) := by
  unfold convertNamedPorts
  simp only [List.foldl_cons, List.foldl_nil, ConnSet.copy, ConnSet.names]
  cases c.get .TCP <;> cases c.get .UDP <;> cases c.get .SCTP <;> rfl

/-- `checkAndConvertNamedPortsInConnection`: every named port the pod declares (with the protocol of
its entry) is added as a number -/
theorem convertNamedPorts_spec (pod : Pod) (hp : pod.ValidPorts) (c : ConnSet) (hc : c.WF) :
    (convertNamedPorts pod c).WF ∧
    (∀ pr x, (convertNamedPorts pod c).den pr x ↔ c.den pr x ∨
      ∃ n ∈ c.names pr, pod.convertNamedPort n = some (pr, x)) ∧
    (∀ pr n, n ∈ (convertNamedPorts pod c).names pr → n ∈ c.names pr) := by
  rw [convertNamedPorts_eq]
  obtain ⟨a1, a2, a3, a4⟩ := cnFold_spec pod hp .TCP (c.names .TCP) c hc
  obtain ⟨b1, b2, b3, b4⟩ := cnFold_spec pod hp .UDP (c.names .UDP) _ a1
  obtain ⟨c1, c2, c3, c4⟩ := cnFold_spec pod hp .SCTP (c.names .SCTP) _ b1
  refine ⟨c1, fun pr x => ?_, fun pr n h => a4 pr n (b4 pr n (c4 pr n h))⟩
  rw [c2, b2, a2, b3, a3, a3]
  have hsome : ∀ pr' n, n ∈ c.names pr' → (c.get pr').isSome = true := by
    intro pr' n hn
    obtain ⟨ps, hg, _⟩ := (ConnSet.mem_names_iff c pr' n).mp hn
    rw [hg]; rfl
  constructor
  · rintro (((h | ⟨h1, _, n, hn, h3⟩) | ⟨h1, _, n, hn, h3⟩) | ⟨h1, _, n, hn, h3⟩)
    · exact Or.inl h
    · subst h1; exact Or.inr ⟨n, hn, h3⟩
    · subst h1; exact Or.inr ⟨n, hn, h3⟩
    · subst h1; exact Or.inr ⟨n, hn, h3⟩
  · rintro (h | ⟨n, hn, h3⟩)
    · exact Or.inl (Or.inl (Or.inl h))
    · cases pr
      · exact Or.inl (Or.inl (Or.inr ⟨rfl, hsome _ n hn, n, hn, h3⟩))
      · exact Or.inl (Or.inr ⟨rfl, hsome _ n hn, n, hn, h3⟩)
      · exact Or.inr ⟨rfl, hsome _ n hn, n, hn, h3⟩

theorem noNamed_iff (c : ConnSet) : noNamed c = true ↔ ∀ pr, c.names pr = [] := by
  unfold noNamed
  rw [ConnSet.forall_proto]
  simp only [List.all_cons, List.all_nil, Bool.and_true, Bool.and_eq_true, ConnSet.names]
  cases c.get .TCP <;> cases c.get .UDP <;> cases c.get .SCTP <;> simp

/-- the cluster-wide connection one selecting policy contributes to the pod -/
def cwOf (pod : Pod) (i : Bool) (np : NetPol) : ConnSet :=
  if i && !(noNamed (scanPure np (dirOf i)).clusterWide) then
    convertNamedPorts pod (scanPure np (dirOf i)).clusterWide
  else (scanPure np (dirOf i)).clusterWide

theorem cwOf_spec (pod : Pod) (hp : pod.ValidPorts) (i : Bool) (np : NetPol)
    (hv : ∀ r ∈ Spec.npRules np (dirOf i), ∀ q ∈ r.ports, q.Valid) :
    (cwOf pod i np).WF ∧
    (∀ pr x, (cwOf pod i np).den pr x ↔ (scanPure np (dirOf i)).clusterWide.den pr x ∨
      (i = true ∧ ∃ n ∈ (scanPure np (dirOf i)).clusterWide.names pr,
        pod.convertNamedPort n = some (pr, x))) ∧
    (∀ pr n, n ∈ (cwOf pod i np).names pr → n ∈ (scanPure np (dirOf i)).clusterWide.names pr) ∧
    (i = false → cwOf pod i np = (scanPure np (dirOf i)).clusterWide) := by
  have S := scanSpec np (dirOf i) hv
  unfold cwOf
  cases i
  · simp only [Bool.false_and, Bool.false_eq_true, if_false]
    exact ⟨S.cwWF, fun pr x => by simp, fun _ _ h => h, by simp⟩
  · simp only [Bool.true_and]
    cases hn : noNamed (scanPure np (dirOf true)).clusterWide
    · simp only [Bool.not_false, if_true]
      obtain ⟨c1, c2, c3⟩ := convertNamedPorts_spec pod hp _ S.cwWF
      exact ⟨c1, fun pr x => by rw [c2]; simp, c3, fun h => by cases h⟩
    · simp only [Bool.not_true, Bool.false_eq_true, if_false]
      refine ⟨S.cwWF, fun pr x => ?_, fun _ _ h => h, fun h => by cases h⟩
      rw [(noNamed_iff _).mp hn pr]
      simp

theorem clusterWideConn_eq (e : Engine) (hv : NpValid e) (pod : Pod) (i : Bool) :
    clusterWideConn e pod i =
      .ok (((e.netpols.filter (fun np => np.selects pod (dirOf i))).map (cwOf pod i)).foldl
        ConnSet.union (ConnSet.mk' false)) := by
  unfold clusterWideConn
  have hd : (if i then Dir.ingress else Dir.egress) = dirOf i := rfl
  rw [hd]
  rw [foldlM_ok_eq_foldl _ (fun (acc : ConnSet) np => acc.union (cwOf pod i np))]
  · rw [List.foldl_map]
  · intro acc np hnp
    have hnp' := (List.mem_filter.mp hnp).1
    rw [scan_eq np (dirOf i) (fun r hr => (hv.rules hnp' _ r hr).1)]
    rfl

/-- the rule is a cluster-wide rule of a policy that selects the pod in the direction -/
def CWRule (e : Engine) (pod : Pod) (d : Dir) (np : NetPol) (r : NPRule) : Prop :=
  np ∈ e.netpols ∧ np.selects pod d = true ∧ r ∈ Spec.npRules np d ∧ isCW r = true

theorem selects_affects {np : NetPol} {pod : Pod} {d : Dir} (h : np.selects pod d = true) :
    np.affects d = true := by
  unfold NetPol.selects at h
  split at h
  · cases h
  · split at h
    · cases h
    · rename_i h2; simpa using h2

theorem scanRules_of_selects {np : NetPol} {pod : Pod} {d : Dir} (h : np.selects pod d = true) :
    scanRules np d = Spec.npRules np d := by
  unfold scanRules
  rw [selects_affects h]
  rfl

/-- Rung 3 (helper form): the pod's cluster-wide connection of a direction -/
theorem clusterWideConn_spec (e : Engine) (hv : NpValid e) (pod : Pod) (hp : pod.ValidPorts)
    (i : Bool) :
    ∃ cw, clusterWideConn e pod i = .ok cw ∧ cw.WF ∧
      (∀ pr x, cw.den pr x ↔ ∃ np r, CWRule e pod (dirOf i) np r ∧ (portsNum r.ports pr x ∨
        (i = true ∧ ∃ n, portsNamed r.ports pr n ∧ pod.convertNamedPort n = some (pr, x)))) ∧
      (∀ pr n, n ∈ cw.names pr → ∃ np r, CWRule e pod (dirOf i) np r ∧ portsNamed r.ports pr n) ∧
      (i = false → ∀ pr n, (∃ np r, CWRule e pod (dirOf i) np r ∧ portsNamed r.ports pr n) →
        n ∈ cw.names pr ∨ cw.allowAll = true) := by
  refine ⟨_, clusterWideConn_eq e hv pod i, ?_⟩
  have hvp : ∀ np ∈ e.netpols.filter (fun np => np.selects pod (dirOf i)),
      ∀ r ∈ Spec.npRules np (dirOf i), ∀ q ∈ r.ports, q.Valid :=
    fun np hnp r hr => (hv.rules (List.mem_filter.mp hnp).1 _ r hr).1
  have hW : ∀ c ∈ (e.netpols.filter (fun np => np.selects pod (dirOf i))).map (cwOf pod i),
      c.WFE := by
    intro c hc
    obtain ⟨np, hnp, rfl⟩ := List.mem_map.mp hc
    exact (cwOf_spec pod hp i np (hvp np hnp)).1.wfe
  obtain ⟨u1, u2, u3, u4, u5⟩ := ConnSet.foldl_union_spec _ hW (ConnSet.mk' false)
    (ConnSet.wf_mk false)
  refine ⟨u1, fun pr x => ?_, fun pr n hn => ?_, fun hi pr n hn => ?_⟩
  · rw [u2]
    constructor
    · rintro (h | ⟨c, hc, h⟩)
      · exact absurd h (ConnSet.den_mk_none pr x)
      · obtain ⟨np, hnp, rfl⟩ := List.mem_map.mp hc
        obtain ⟨hnp1, hnp2⟩ := List.mem_filter.mp hnp
        have S := scanSpec np (dirOf i) (hvp np hnp)
        rcases ((cwOf_spec pod hp i np (hvp np hnp)).2.1 pr x).mp h with h | ⟨hi, n, hn, hc⟩
        · obtain ⟨r, hr, hcw, hpn⟩ := (S.cwDen pr x).mp h
          rw [scanRules_of_selects hnp2] at hr
          exact ⟨np, r, ⟨hnp1, hnp2, hr, hcw⟩, Or.inl hpn⟩
        · obtain ⟨r, hr, hcw, hpn⟩ := S.cwNamesSub pr n hn
          rw [scanRules_of_selects hnp2] at hr
          exact ⟨np, r, ⟨hnp1, hnp2, hr, hcw⟩, Or.inr ⟨hi, n, hpn, hc⟩⟩
    · rintro ⟨np, r, ⟨hnp1, hnp2, hr, hcw⟩, h⟩
      have hnp : np ∈ e.netpols.filter (fun np => np.selects pod (dirOf i)) :=
        List.mem_filter.mpr ⟨hnp1, hnp2⟩
      have S := scanSpec np (dirOf i) (hvp np hnp)
      rw [← scanRules_of_selects hnp2] at hr
      have hmem : cwOf pod i np ∈
          (e.netpols.filter (fun np => np.selects pod (dirOf i))).map (cwOf pod i) :=
        List.mem_map.mpr ⟨np, hnp, rfl⟩
      refine Or.inr ⟨_, hmem, ((cwOf_spec pod hp i np (hvp np hnp)).2.1 pr x).mpr ?_⟩
      rcases h with h | ⟨hi, n, hpn, hc⟩
      · exact Or.inl ((S.cwDen pr x).mpr ⟨r, hr, hcw, h⟩)
      · rcases S.cwNamesSup pr n ⟨r, hr, hcw, hpn⟩ with h | h
        · exact Or.inr ⟨hi, n, h, hc⟩
        · exact Or.inl (Or.inl ⟨h, convertNamedPort_valid hp hc⟩)
  · rcases u3 pr n hn with h | ⟨c, hc, h⟩
    · rw [ConnSet.names_mk'] at h; exact absurd h (List.not_mem_nil)
    · obtain ⟨np, hnp, rfl⟩ := List.mem_map.mp hc
      obtain ⟨hnp1, hnp2⟩ := List.mem_filter.mp hnp
      have S := scanSpec np (dirOf i) (hvp np hnp)
      obtain ⟨r, hr, hcw, hpn⟩ := S.cwNamesSub pr n
        ((cwOf_spec pod hp i np (hvp np hnp)).2.2.1 pr n h)
      rw [scanRules_of_selects hnp2] at hr
      exact ⟨np, r, ⟨hnp1, hnp2, hr, hcw⟩, hpn⟩
  · obtain ⟨np, r, ⟨hnp1, hnp2, hr, hcw⟩, hpn⟩ := hn
    have hnp : np ∈ e.netpols.filter (fun np => np.selects pod (dirOf i)) :=
      List.mem_filter.mpr ⟨hnp1, hnp2⟩
    have S := scanSpec np (dirOf i) (hvp np hnp)
    rw [← scanRules_of_selects hnp2] at hr
    have hmem : cwOf pod i np ∈
        (e.netpols.filter (fun np => np.selects pod (dirOf i))).map (cwOf pod i) :=
      List.mem_map.mpr ⟨np, hnp, rfl⟩
    have heq := (cwOf_spec pod hp i np (hvp np hnp)).2.2.2 hi
    rcases S.cwNamesSup pr n ⟨r, hr, hcw, hpn⟩ with h | h
    · exact u4 pr n (Or.inr ⟨_, hmem, by rw [heq]; exact h⟩)
    · exact Or.inr (u5 (Or.inr ⟨_, hmem, by rw [heq]; exact h⟩))

/-! ## G. representative peers -/

/-- a representative pod as `addRepresentativePod` builds it -/
structure RepWF (rp : Pod) : Prop where
  fake : rp.fake = true
  name : rp.name = representativePodName
  ports : rp.ports = []

instance (rp : Pod) : Decidable (RepWF rp) :=
  decidable_of_iff (rp.fake = true ∧ rp.name = representativePodName ∧ rp.ports = [])
    ⟨fun ⟨a, b, c⟩ => ⟨a, b, c⟩, fun ⟨a, b, c⟩ => ⟨a, b, c⟩⟩

theorem RepWF.isRepr {rp : Pod} (h : RepWF rp) : rp.isRepresentative = true := by
  simp [Pod.isRepresentative, h.fake, h.name]

/-- a rule peer selects the representative peer with selectors `P` (pods) and `N` (namespaces):
`SelectorsFullMatch` on both -/
def repPeerMatch (np : NetPol) (P N : Option Selector) (rp : NPPeer) : Bool :=
  match rp with
  | .ip .. => false
  | .sel podSel nsSel =>
    (match nsSel with
      | none => selectorsFullMatch ⟨[(nsNameLabelKey, np.ns)], []⟩ N
      | some s => selectorsFullMatch s N) &&
    (match podSel with
      | none => true
      | some s => selectorsFullMatch s P)

/-- the rule selects the representative peer -/
def repSel (np : NetPol) (P N : Option Selector) (r : NPRule) : Bool :=
  r.peers.isEmpty || r.peers.any (repPeerMatch np P N)

theorem go_repr (np : NetPol) (peers : List NPPeer) (rp : Pod) (nso : Option NsObj)
    (hrep : rp.isRepresentative = true) (hne : ∀ q ∈ peers, q ≠ .sel none none) :
    ruleSelectsPeer.go np (.pod rp nso) peers =
      .ok (peers.any (repPeerMatch np rp.reprPodSel rp.reprNsSel)) := by
  induction peers with
  | nil => rfl
  | cons q rest ih =>
    have ih' := ih (fun q' h => hne q' (List.mem_cons_of_mem _ h))
    have hq := hne q (List.mem_cons_self ..)
    rw [List.any_cons]
    cases q with
    | ip c ex =>
      rw [ruleSelectsPeer.go_ip_pod, ih']
      simp [repPeerMatch]
    | sel podSel nsSel =>
      rw [ruleSelectsPeer.go_sel_pod np rest rp nso podSel nsSel hq, ih', hrep]
      generalize (rest.any (repPeerMatch np rp.reprPodSel rp.reprNsSel)) = B
      have hnil : nsMatchNil np rp =
          selectorsFullMatch ⟨[(nsNameLabelKey, np.ns)], []⟩ rp.reprNsSel := by
        simp [nsMatchNil, hrep]
      cases podSel <;> cases nsSel <;>
        simp only [repPeerMatch, selectorsMatch, if_true, hnil, Bool.and_true]
      · exact absurd rfl hq
      · rename_i s
        cases selectorsFullMatch s rp.reprNsSel <;> simp
      · rename_i ps
        cases selectorsFullMatch ⟨[(nsNameLabelKey, np.ns)], []⟩ rp.reprNsSel <;>
          cases selectorsFullMatch ps rp.reprPodSel <;> simp
      · rename_i ps s
        cases selectorsFullMatch s rp.reprNsSel <;>
          cases selectorsFullMatch ps rp.reprPodSel <;> simp

theorem selOf_repr (np : NetPol) (r : NPRule) (rp : Pod) (nso : Option NsObj)
    (hrep : rp.isRepresentative = true) (hne : ∀ q ∈ r.peers, q ≠ .sel none none) :
    selOf np (.pod rp nso) r = repSel np rp.reprPodSel rp.reprNsSel r := by
  unfold selOf ruleSelectsPeer repSel
  cases he : r.peers.isEmpty
  · simp only [Bool.false_eq_true, if_false, Bool.false_or]
    rw [go_repr np r.peers rp nso hrep hne]
  · rfl

theorem selectorsFullMatch_of_isEmpty {s : Selector} (h : s.isEmpty = true) (o : Option Selector) :
    selectorsFullMatch s o = true := by
  simp [selectorsFullMatch, h]

theorem selectorsFullMatch_self (s : Selector) : selectorsFullMatch s (some s) = true := by
  unfold selectorsFullMatch
  split
  · rfl
  · simp

/-- a cluster-wide rule selects every representative peer -/
theorem repSel_of_isCW (np : NetPol) (P N : Option Selector) (r : NPRule) (h : isCW r = true) :
    repSel np P N r = true := by
  unfold isCW at h
  unfold repSel
  rw [Bool.or_eq_true] at h ⊢
  rcases h with h | h
  · exact Or.inl h
  · right
    rw [List.any_eq_true] at h ⊢
    obtain ⟨q, hq, hec⟩ := h
    refine ⟨q, hq, ?_⟩
    obtain ⟨podSel, s, rfl, hs, hps⟩ := (isEntireClusterPeer_iff q).mp hec
    unfold repPeerMatch
    rw [Bool.and_eq_true]
    refine ⟨selectorsFullMatch_of_isEmpty hs N, ?_⟩
    cases podSel with
    | none => rfl
    | some ps => exact selectorsFullMatch_of_isEmpty (hps ps rfl) P

/-- what a rule's ports yield for an exposure entry: on ingress the ports resolved against the
workload (`kw`), on egress the numeric part (the names are kept apart) -/
def RD (i : Bool) (kw : KPeer) (r : NPRule) (pr : Proto) (x : Int) : Prop :=
  if i then portsDen r.ports (kw.toEnd 0) pr x else portsNum r.ports pr x

theorem RD_inRange {i : Bool} {kw : KPeer} {r : NPRule} {pr : Proto} {x : Int}
    (h : RD i kw r pr x) : inRange x := by
  unfold RD at h
  cases i
  · rcases h with ⟨_, h⟩ | ⟨q, _, h⟩
    · exact h
    · exact h.2.1
  · exact h.1

theorem portsNum_RD {i : Bool} {kw : KPeer} {r : NPRule} {pr : Proto} {x : Int}
    (h : portsNum r.ports pr x) : RD i kw r pr x := by
  unfold RD
  cases i
  · exact h
  · exact portsNum_spec h _

/-- the two ends of the query for the exposure of the workload `kw` to the representative `kr` -/
def xSrc (i : Bool) (kr kw : KPeer) : KPeer := if i then kr else kw
def xDst (i : Bool) (kr kw : KPeer) : KPeer := if i then kw else kr

/-- the connections of one policy with the representative peer of selectors `P`, `N` -/
structure PolicySpec (np : NetPol) (i : Bool) (kw : KPeer) (P N : Option Selector) (c : ConnSet) :
    Prop where
  wf : c.WF
  den : ∀ pr x, c.den pr x ↔ ∃ r ∈ Spec.npRules np (dirOf i), repSel np P N r = true ∧ RD i kw r pr x
  namesSub : ∀ pr n, n ∈ c.names pr → i = false ∧ ∃ r ∈ Spec.npRules np (dirOf i),
    repSel np P N r = true ∧ portsNamed r.ports pr n
  namesSup : i = false → ∀ pr n, (∃ r ∈ Spec.npRules np (dirOf i),
    repSel np P N r = true ∧ portsNamed r.ports pr n) → n ∈ c.names pr ∨ c.allowAll = true

/-- the connections of one policy of the workload `kw` with the representative peer `kr` -/
theorem policyConns_repr (np : NetPol) (i : Bool) (hv : ∀ r ∈ Spec.npRules np (dirOf i), r.Valid)
    (rp : Pod) (nso : Option NsObj) (hrp : RepWF rp) (kw : KPeer) (hkw : kw.DstOK)
    (hkwp : kw.isPod = true) :
    ∃ c, policyConns np (xSrc i (.pod rp nso) kw) (xDst i (.pod rp nso) kw) i = .ok c ∧
      PolicySpec np i kw rp.reprPodSel rp.reprNsSel c := by
  have hvp : ∀ r ∈ Spec.npRules np (dirOf i), ∀ q ∈ r.ports, q.Valid := fun r hr => (hv r hr).1
  have S := scanSpec np (dirOf i) hvp
  have hsel : ∀ r ∈ Spec.npRules np (dirOf i),
      selOf np (.pod rp nso) r = repSel np rp.reprPodSel rp.reprNsSel r :=
    fun r hr => selOf_repr np r rp nso hrp.isRepr (hv r hr).2
  -- the shortcut answers
  have hshort : ∀ (P : NPRule → Prop),
      (∀ r ∈ scanRules np (dirOf i), P r → repSel np rp.reprPodSel rp.reprNsSel r = true) →
      (∀ pr x, inRange x → ∃ r ∈ scanRules np (dirOf i), P r ∧ portsNum r.ports pr x) →
      PolicySpec np i kw rp.reprPodSel rp.reprNsSel (ConnSet.mk' true) := by
    intro P hP hall
    refine ⟨ConnSet.wf_mk true, fun pr x => ?_, fun pr n hn => ?_, fun _ _ _ _ => Or.inr rfl⟩
    · rw [ConnSet.den_mk_all]
      constructor
      · intro hx
        obtain ⟨r, hr, hp, hn⟩ := hall pr x hx
        exact ⟨r, mem_scanRules hr, hP r hr hp, portsNum_RD hn⟩
      · rintro ⟨r, _, _, h⟩
        exact RD_inRange h
    · rw [ConnSet.names_mk'] at hn; exact absurd hn (List.not_mem_nil)
  rw [policyConns_eq np _ _ i hvp]
  by_cases hE : (scanPure np (dirOf i)).external.allowAll = true
  · rw [if_pos hE, ConnSet.eq_all_of_wf S.extWF hE]
    refine ⟨_, rfl, hshort (fun r => r.peers = []) ?_ ?_⟩
    · intro r _ hp
      simp [repSel, hp]
    · intro pr x hx
      exact (S.extDen pr x).mp (Or.inl ⟨hE, hx⟩)
  · rw [if_neg hE]
    have hop : (otherPeer (xSrc i (.pod rp nso) kw) (xDst i (.pod rp nso) kw) i) = .pod rp nso := by
      cases i <;> rfl
    rw [hop]
    by_cases hC : ((scanPure np (dirOf i)).clusterWide.allowAll && (KPeer.pod rp nso).isPod) = true
    · rw [if_pos hC]
      rw [Bool.and_eq_true] at hC
      rw [ConnSet.eq_all_of_wf S.cwWF hC.1]
      refine ⟨_, rfl, hshort (fun r => isCW r = true) ?_ ?_⟩
      · intro r _ hp
        exact repSel_of_isCW np _ _ r hp
      · intro pr x hx
        exact (S.cwDen pr x).mp (Or.inl ⟨hC.1, hx⟩)
    · rw [if_neg hC, npStep_eq_allowedConns, hop]
      cases i
      · -- egress: the representative peer is the destination
        simp only [xDst, Bool.false_eq_true, if_false]
        obtain ⟨g1, g2⟩ := allowedConns_go_gen np (.pod rp nso) (.pod rp nso)
          (fun r pr x => portsNum r.ports pr x) (fun r pr n => portsNamed r.ports pr n)
          (Spec.npRules np (dirOf false))
          (fun r hr => (hv r hr).2)
          (fun r hr _ rc hrc => by
            rw [ruleConnections_repr r.ports rp nso hrp.isRepr hrp.ports,
              ruleConnections_none_eq r.ports (hvp r hr)] at hrc
            cases hrc
            obtain ⟨h1, _, h3, h4, h5⟩ := rcNone_spec r.ports (hvp r hr)
            exact ⟨h1, h3, h4, h5⟩)
          (ConnSet.mk' false) (ConnSet.canonical_mk false)
        cases hgo : np.allowedConns (Spec.npRules np (dirOf false)) (.pod rp nso) (.pod rp nso) with
        | error err =>
          obtain ⟨r, hr, _, hrc⟩ := g2 err hgo
          rw [ruleConnections_repr r.ports rp nso hrp.isRepr hrp.ports,
            ruleConnections_none_eq r.ports (hvp r hr)] at hrc
          cases hrc
        | ok c =>
          obtain ⟨hcan, hden, hn1, hn2⟩ := g1 c hgo
          refine ⟨c, rfl, hcan.1, fun pr x => ?_, fun pr n hn => ?_, fun _ pr n hn => ?_⟩
          · rw [hden]
            simp only [ConnSet.den_mk_none, false_or, RD, Bool.false_eq_true, if_false]
            constructor
            · rintro ⟨r, hr, h1, h2⟩; exact ⟨r, hr, by rw [← hsel r hr]; exact h1, h2⟩
            · rintro ⟨r, hr, h1, h2⟩; exact ⟨r, hr, by rw [hsel r hr]; exact h1, h2⟩
          · rcases hn1 pr n hn with h | ⟨r, hr, h1, h2⟩
            · rw [ConnSet.names_mk'] at h; exact absurd h (List.not_mem_nil)
            · exact ⟨rfl, r, hr, by rw [← hsel r hr]; exact h1, h2⟩
          · obtain ⟨r, hr, h1, h2⟩ := hn
            exact hn2 pr n (Or.inr ⟨r, hr, by rw [hsel r hr]; exact h1, h2⟩)
      · -- ingress: the workload is the destination
        simp only [xDst, if_true]
        obtain ⟨a1, a2⟩ := allowedConns_plain_spec np (Spec.npRules np (dirOf true)) hv
          (.pod rp nso) kw hkw
        cases hgo : np.allowedConns (Spec.npRules np (dirOf true)) (.pod rp nso) kw with
        | error err =>
          have := (a2 err hgo).2
          rw [hkwp] at this; cases this
        | ok c =>
          obtain ⟨hcan, hpl, hden⟩ := a1 c hgo
          refine ⟨c, rfl, hcan.1, fun pr x => ?_, fun pr n hn => ?_, fun h => by cases h⟩
          · rw [hden]
            simp only [RD, if_true]
            constructor
            · rintro ⟨r, hr, h1, h2⟩; exact ⟨r, hr, by rw [← hsel r hr]; exact h1, h2⟩
            · rintro ⟨r, hr, h1, h2⟩; exact ⟨r, hr, by rw [hsel r hr]; exact h1, h2⟩
          · rw [hpl.names] at hn; exact absurd hn (List.not_mem_nil)

/-- no policy selects a representative peer -/
theorem policiesSelecting_repr (e : Engine) (rp : Pod) (nso : Option NsObj)
    (hrep : rp.isRepresentative = true) (d : Dir) : e.policiesSelecting (.pod rp nso) d = [] := by
  have : e.netpols.filter (fun np => np.selects rp d) = [] := by
    rw [List.filter_eq_nil_iff]
    intro np _
    simp [NetPol.selects, hrep]
  rw [Engine.policiesSelecting_pod, this]
  rfl

/-- the rule belongs to a policy that selects the pod in the direction -/
def PRule (e : Engine) (pod : Pod) (d : Dir) (np : NetPol) (r : NPRule) : Prop :=
  np ∈ e.netpols ∧ np.selects pod d = true ∧ r ∈ Spec.npRules np d

/-- the connection of the workload (`pod`, as the peer `kw`) with the representative peer of
selectors `P`, `N` in direction `i`: the union over the rules of the selecting policies that
select the representative peer -/
structure EntrySpec (e : Engine) (pod : Pod) (kw : KPeer) (i : Bool) (P N : Option Selector)
    (c : ConnSet) : Prop where
  wf : c.WF
  den : ∀ pr x, c.den pr x ↔ ∃ np r, PRule e pod (dirOf i) np r ∧ repSel np P N r = true ∧
    RD i kw r pr x
  namesSub : ∀ pr n, n ∈ c.names pr → i = false ∧ ∃ np r, PRule e pod (dirOf i) np r ∧
    repSel np P N r = true ∧ portsNamed r.ports pr n
  namesSup : i = false → ∀ pr n, (∃ np r, PRule e pod (dirOf i) np r ∧ repSel np P N r = true ∧
    portsNamed r.ports pr n) → n ∈ c.names pr ∨ c.allowAll = true

/-- the value `policyConns` returns for the representative peer (`mk' false` on failure) -/
def pcOf (i : Bool) (kr kw : KPeer) (np : NetPol) : ConnSet :=
  match policyConns np (xSrc i kr kw) (xDst i kr kw) i with
  | .ok c => c
  | .error _ => ConnSet.mk' false

theorem selfPeer_x (i : Bool) (kr kw : KPeer) : selfPeer (xSrc i kr kw) (xDst i kr kw) i = kw := by
  cases i <;> rfl

theorem isProtected_iff (e : Engine) (pod : Pod) (i : Bool) :
    isProtected e pod i = true ↔ ∃ np ∈ e.netpols, np.selects pod (dirOf i) = true := by
  unfold isProtected
  rw [List.any_eq_true]
  rfl

/-- the direction query of a protected workload with a representative peer -/
theorem xgressConns_repr (e : Engine) (hv : NpValid e) (i : Bool) (rp : Pod) (nso : Option NsObj)
    (hrp : RepWF rp) (pod : Pod) (nsw : Option NsObj) (hpod : (KPeer.pod pod nsw).DstOK)
    (hprot : isProtected e pod i = true) :
    ∃ c, xgressConns e (xSrc i (.pod rp nso) (.pod pod nsw)) (xDst i (.pod rp nso) (.pod pod nsw)) i
        = .ok c ∧ EntrySpec e pod (.pod pod nsw) i rp.reprPodSel rp.reprNsSel c := by
  have hpc : ∀ np ∈ Engine.sortByName (e.netpols.filter (fun np => np.selects pod (dirOf i))),
      policyConns np (xSrc i (.pod rp nso) (.pod pod nsw)) (xDst i (.pod rp nso) (.pod pod nsw)) i =
        .ok (pcOf i (.pod rp nso) (.pod pod nsw) np) ∧
      PolicySpec np i (.pod pod nsw) rp.reprPodSel rp.reprNsSel
        (pcOf i (.pod rp nso) (.pod pod nsw) np) :=
    fun np hnp => by
      obtain ⟨c, hc, hspec⟩ := policyConns_repr np i (hv.rules (List.mem_filter.mp (Engine.mem_sortByName.mp hnp)).1 _) rp nso
        hrp (.pod pod nsw) hpod rfl
      have : pcOf i (.pod rp nso) (.pod pod nsw) np = c := by simp [pcOf, hc]
      rw [this]
      exact ⟨hc, hspec⟩
  rw [xgressConns_eq, selfPeer_x]
  have hpols : e.policiesSelecting (.pod pod nsw) (dirOf i) =
      Engine.sortByName (e.netpols.filter (fun np => np.selects pod (dirOf i))) := rfl
  rw [hpols, Engine.sortByName_isEmpty]
  have hne : (e.netpols.filter (fun np => np.selects pod (dirOf i))).isEmpty = false := by
    obtain ⟨np, h1, h2⟩ := (isProtected_iff e pod i).mp hprot
    cases h : (e.netpols.filter (fun np => np.selects pod (dirOf i))).isEmpty
    · rfl
    · exact absurd ⟨np, h1, h2⟩ ((isEmpty_filter_iff _ _).mp h)
  rw [hne]
  simp only [Bool.false_eq_true, if_false]
  have hfold := foldlM_ok_eq_foldl
    (xFold (xSrc i (.pod rp nso) (.pod pod nsw)) (xDst i (.pod rp nso) (.pod pod nsw)) i)
    (fun acc np => acc.union (pcOf i (.pod rp nso) (.pod pod nsw) np))
    (Engine.sortByName (e.netpols.filter (fun np => np.selects pod (dirOf i))))
    (fun acc np hnp => by
      unfold xFold
      rw [(hpc np hnp).1]
      rfl) (ConnSet.mk' false)
  rw [hfold]
  refine ⟨_, rfl, ?_⟩
  rw [← List.foldl_map]
  have hW : ∀ c ∈ (Engine.sortByName (e.netpols.filter (fun np => np.selects pod (dirOf i)))).map
      (pcOf i (.pod rp nso) (.pod pod nsw)), c.WFE := by
    intro c hc
    obtain ⟨np, hnp, rfl⟩ := List.mem_map.mp hc
    exact (hpc np hnp).2.wf.wfe
  obtain ⟨u1, u2, u3, u4, u5⟩ := ConnSet.foldl_union_spec _ hW (ConnSet.mk' false)
    (ConnSet.wf_mk false)
  refine ⟨u1, fun pr x => ?_, fun pr n hn => ?_, fun hi pr n hn => ?_⟩
  · rw [u2]
    constructor
    · rintro (h | ⟨c, hc, h⟩)
      · exact absurd h (ConnSet.den_mk_none pr x)
      · obtain ⟨np, hnp, rfl⟩ := List.mem_map.mp hc
        obtain ⟨r, hr, h1, h2⟩ := ((hpc np hnp).2.den pr x).mp h
        obtain ⟨hnp1, hnp2⟩ := List.mem_filter.mp (Engine.mem_sortByName.mp hnp)
        exact ⟨np, r, ⟨hnp1, hnp2, hr⟩, h1, h2⟩
    · rintro ⟨np, r, ⟨hnp1, hnp2, hr⟩, h1, h2⟩
      have hnp : np ∈ Engine.sortByName (e.netpols.filter (fun np => np.selects pod (dirOf i))) :=
        Engine.mem_sortByName.mpr (List.mem_filter.mpr ⟨hnp1, hnp2⟩)
      exact Or.inr ⟨_, List.mem_map.mpr ⟨np, hnp, rfl⟩,
        ((hpc np hnp).2.den pr x).mpr ⟨r, hr, h1, h2⟩⟩
  · rcases u3 pr n hn with h | ⟨c, hc, h⟩
    · rw [ConnSet.names_mk'] at h; exact absurd h (List.not_mem_nil)
    · obtain ⟨np, hnp, rfl⟩ := List.mem_map.mp hc
      obtain ⟨hi, r, hr, h1, h2⟩ := (hpc np hnp).2.namesSub pr n h
      obtain ⟨hnp1, hnp2⟩ := List.mem_filter.mp (Engine.mem_sortByName.mp hnp)
      exact ⟨hi, np, r, ⟨hnp1, hnp2, hr⟩, h1, h2⟩
  · obtain ⟨np, r, ⟨hnp1, hnp2, hr⟩, h1, h2⟩ := hn
    have hnp : np ∈ Engine.sortByName (e.netpols.filter (fun np => np.selects pod (dirOf i))) :=
      Engine.mem_sortByName.mpr (List.mem_filter.mpr ⟨hnp1, hnp2⟩)
    have hmem : pcOf i (.pod rp nso) (.pod pod nsw) np ∈
        (Engine.sortByName (e.netpols.filter (fun np => np.selects pod (dirOf i)))).map
          (pcOf i (.pod rp nso) (.pod pod nsw)) := List.mem_map.mpr ⟨np, hnp, rfl⟩
    rcases (hpc np hnp).2.namesSup hi pr n ⟨r, hr, h1, h2⟩ with h | h
    · exact u4 pr n (Or.inr ⟨_, hmem, h⟩)
    · exact Or.inr (u5 (Or.inr ⟨_, hmem, h⟩))

theorem xgressConns_of_repr_self (e : Engine) (src dst : KPeer) (i : Bool) (rp : Pod)
    (nso : Option NsObj) (hrep : rp.isRepresentative = true)
    (hself : selfPeer src dst i = .pod rp nso) :
    xgressConns e src dst i = .ok (ConnSet.mk' true) := by
  rw [xgressConns_eq, hself, policiesSelecting_repr e rp nso hrep]
  rfl

theorem ConnSet.all_inter (o : ConnSet) :
    (ConnSet.mk' true).inter o =
      if o.allowAll then ConnSet.mk' true else { o with allowAll := false } := by
  unfold ConnSet.inter
  split
  · rfl
  · simp only [if_true, ConnSet.mk']
    cases o.tcp <;> cases o.udp <;> cases o.sctp <;> rfl

theorem ConnSet.names_all_inter (o : ConnSet) (pr : Proto) (n : String)
    (h : n ∈ ((ConnSet.mk' true).inter o).names pr) : n ∈ o.names pr := by
  rw [ConnSet.all_inter] at h
  split at h
  · rw [ConnSet.names_mk'] at h; exact absurd h (List.not_mem_nil)
  · have : ({ o with allowAll := false } : ConnSet).names pr = o.names pr := by
      cases pr <;> rfl
    rw [this] at h
    exact h

theorem ConnSet.inter_all (c : ConnSet) : c.inter (ConnSet.mk' true) = c := by
  unfold ConnSet.inter
  rfl

/-- the pair query of a protected workload with a representative peer -/
theorem peerConns_repr (e : Engine) (hv : NpValid e) (i : Bool) (rp : Pod) (nso : Option NsObj)
    (hrp : RepWF rp) (pod : Pod) (nsw : Option NsObj) (hpod : (KPeer.pod pod nsw).DstOK)
    (hprot : isProtected e pod i = true)
    (hne : isPodToItself (xSrc i (.pod rp nso) (.pod pod nsw))
      (xDst i (.pod rp nso) (.pod pod nsw)) = false) :
    ∃ c, peerConns e (xSrc i (.pod rp nso) (.pod pod nsw)) (xDst i (.pod rp nso) (.pod pod nsw))
        = .ok c ∧ EntrySpec e pod (.pod pod nsw) i rp.reprPodSel rp.reprNsSel c := by
  obtain ⟨c0, hc0, hs⟩ := xgressConns_repr e hv i rp nso hrp pod nsw hpod hprot
  rw [peerConns_eq, hne]
  simp only [Bool.false_eq_true, if_false]
  cases i
  · -- egress from the workload; nothing restricts the ingress of the representative peer
    rw [hc0]
    simp only [bind, Except.bind]
    split
    · exact ⟨c0, rfl, hs⟩
    · rw [xgressConns_of_repr_self e (xSrc false (.pod rp nso) (.pod pod nsw))
        (xDst false (.pod rp nso) (.pod pod nsw)) true rp nso hrp.isRepr rfl]
      simp only [ConnSet.inter_all]
      exact ⟨c0, rfl, hs⟩
  · -- ingress to the workload; nothing restricts the egress of the representative peer
    rw [xgressConns_of_repr_self e (xSrc true (.pod rp nso) (.pod pod nsw))
      (xDst true (.pod rp nso) (.pod pod nsw)) false rp nso hrp.isRepr rfl]
    simp only [bind, Except.bind]
    have : (ConnSet.mk' true).isEmpty = false := rfl
    rw [this]
    simp only [Bool.false_eq_true, if_false]
    rw [hc0]
    refine ⟨_, rfl, ConnSet.wf_inter (ConnSet.wf_mk true) hs.wf, fun pr x => ?_, fun pr n hn => ?_,
      fun h => by cases h⟩
    · rw [ConnSet.den_inter (ConnSet.wf_mk true) hs.wf, ConnSet.den_mk_all, ← hs.den]
      exact ⟨fun h => h.2, fun h => ⟨hs.wf.den_inRange h, h⟩⟩
    · exact hs.namesSub pr n (ConnSet.names_all_inter c0 pr n hn)

/-! ## H. `xgressExposure` -/

open Structure in
/-- an element produced for a list member is in the collected result -/
theorem collect_mem_of {ε α β : Type} {g : α → Except ε (List β)} {l : List α} {r : List β}
    (h : collect g l = .ok r) {a : α} (ha : a ∈ l) {xs : List β} (hg : g a = .ok xs) {x : β}
    (hx : x ∈ xs) : x ∈ r := by
  induction l generalizing r with
  | nil => cases ha
  | cons b l ih =>
    unfold collect at h
    cases hgb : g b with
    | error err => simp [hgb] at h
    | ok ys =>
      cases hc : collect g l with
      | error err => simp [hgb, hc] at h
      | ok r' =>
        simp only [hgb, hc, Except.ok.injEq] at h
        subst h
        rcases List.mem_cons.mp ha with rfl | ha'
        · rw [hg] at hgb
          cases hgb
          exact List.mem_append_left _ hx
        · exact List.mem_append_right _ (ih hc ha')

/-- what one representative peer contributes to the exposure entries of a workload -/
def repEntry (e : Engine) (kw : KPeer) (cw : ConnSet) (i : Bool) (krp : String × Pod) :
    Except Err (List XEntry) :=
  if krp.2.ns != "" && (e.findNs krp.2.ns).isNone then .error .missingNamespace
  else
    peerConns e (xSrc i (.pod krp.2 (if krp.2.ns == "" then none else e.findNs krp.2.ns)) kw)
        (xDst i (.pod krp.2 (if krp.2.ns == "" then none else e.findNs krp.2.ns)) kw) >>= fun c =>
      if c.isEmpty then pure []
      else if !cw.isEmpty && c.containedIn cw then pure []
      else pure [⟨false, krp.2.reprNsSel, krp.2.reprPodSel, c⟩]

/-- the entire-cluster entry -/
def general (cw : ConnSet) : List XEntry := if cw.isEmpty then [] else [⟨true, none, none, cw⟩]

open Structure in
theorem xgressExposure_eq (x : XEngine) (n : String) (pod : Pod) (i : Bool) :
    xgressExposure x (.wl n pod) i =
      x.eng.toKPeer (.wl n pod) >>= fun kw =>
        if !isProtected x.eng pod i then pure (some (false, []))
        else clusterWideConn x.eng pod i >>= fun cw =>
          collect (repEntry x.eng kw cw i) x.reps >>= fun perRep =>
            pure (if (general cw).isEmpty && perRep.isEmpty then none
              else some (true, general cw ++ perRep)) := by
  unfold xgressExposure
  simp only []
  congr 1
  funext kw
  split
  · rfl
  · congr 1
    funext cw
    have hstep : (fun (acc : List XEntry) (x_1 : String × Pod) =>
        match x_1 with
        | (_, rp) => do
          let kr : KPeer := .pod rp (if rp.ns == "" then none else x.eng.findNs rp.ns)
          if rp.ns != "" && (x.eng.findNs rp.ns).isNone then throw Err.missingNamespace
          let c ← if i then peerConns x.eng kr kw else peerConns x.eng kw kr
          if c.isEmpty then pure acc
          else if !cw.isEmpty && c.containedIn cw then pure acc
          else pure (acc ++ [⟨false, rp.reprNsSel, rp.reprPodSel, c⟩])) =
        fun acc krp => (repEntry x.eng kw cw i krp).map (acc ++ ·) := by
      funext acc krp
      obtain ⟨k, rp⟩ := krp
      unfold repEntry
      simp only []
      split
      · rfl
      · cases i
        · simp only [xSrc, xDst, Bool.false_eq_true, if_false, bind, Except.bind, pure, Except.pure]
          cases peerConns x.eng kw (.pod rp (if rp.ns == "" then none else x.eng.findNs rp.ns)) with
          | error err => rfl
          | ok c =>
            simp only [Except.map]
            split
            · simp
            · split <;> simp
        · simp only [xSrc, xDst, if_true, bind, Except.bind, pure, Except.pure]
          cases peerConns x.eng (.pod rp (if rp.ns == "" then none else x.eng.findNs rp.ns)) kw with
          | error err => rfl
          | ok c =>
            simp only [Except.map]
            split
            · simp
            · split <;> simp
    rw [hstep, foldlM_append_eq]
    cases collect (repEntry x.eng kw cw i) x.reps with
    | error err => rfl
    | ok r =>
      simp only [Except.map, List.nil_append, bind, Except.bind, pure, Except.pure]
      show (if ((general cw).isEmpty && r.isEmpty) = true then Except.ok none
        else Except.ok (some (true, general cw ++ r))) = _
      split <;> rfl

theorem toKPeer_wl_real {e : Engine} {n : String} {pod : Pod} (hrep : pod.isRepresentative = false)
    {k : KPeer} (h : e.toKPeer (.wl n pod) = .ok k) :
    ∃ ns, e.findNs pod.ns = some ns ∧ k = .pod pod (some ns) := by
  unfold toKPeer at h
  simp only [hrep, Bool.and_false, Bool.false_eq_true, if_false] at h
  cases hf : e.findNs pod.ns with
  | none => rw [hf] at h; cases h
  | some ns => rw [hf] at h; cases h; exact ⟨ns, rfl, rfl⟩

/-- a real pod is never "itself" a representative peer: the `fake` flags differ, or (a fake pod that
is not a representative one) the names do -/
theorem isPodToItself_x (i : Bool) (rp pod : Pod) (nso nsw : Option NsObj)
    (hrp : RepWF rp) (hpod : pod.isRepresentative = false) :
    isPodToItself (xSrc i (.pod rp nso) (.pod pod nsw)) (xDst i (.pod rp nso) (.pod pod nsw)) =
      false := by
  have hdiff : (pod.name == rp.name && pod.fake == rp.fake) = false := by
    rw [hrp.name, hrp.fake]
    unfold Pod.isRepresentative at hpod
    cases hf : pod.fake
    · simp
    · rw [hf] at hpod
      simpa using hpod
  have hdiff' : (rp.name == pod.name && rp.fake == pod.fake) = false := by
    rw [← hdiff]
    congr 1
    · exact Bool.eq_iff_iff.mpr ⟨fun h => by simpa using (beq_iff_eq.mp h).symm,
        fun h => by simpa using (beq_iff_eq.mp h).symm⟩
    · exact Bool.eq_iff_iff.mpr ⟨fun h => by simpa using (beq_iff_eq.mp h).symm,
        fun h => by simpa using (beq_iff_eq.mp h).symm⟩
  cases i
  · simp only [xSrc, xDst, Bool.false_eq_true, if_false, isPodToItself]
    cases h1 : (pod.name == rp.name) <;> cases h2 : (pod.fake == rp.fake) <;>
      simp_all
  · simp only [xSrc, xDst, if_true, isPodToItself]
    cases h1 : (rp.name == pod.name) <;> cases h2 : (rp.fake == pod.fake) <;>
      simp_all

/-- the exposure data of a protected workload in one direction -/
structure XSpec (x : XEngine) (pod : Pod) (kw : KPeer) (i : Bool) (cw : ConnSet)
    (perRep : List XEntry) : Prop where
  /-- every selector entry is the (non-empty) connection with a representative peer -/
  sound : ∀ en ∈ perRep, ∃ krp ∈ x.reps, ∃ c,
    EntrySpec x.eng pod kw i krp.2.reprPodSel krp.2.reprNsSel c ∧ c.isEmpty = false ∧
      en = ⟨false, krp.2.reprNsSel, krp.2.reprPodSel, c⟩
  /-- every representative peer yields an entry, unless its connection is empty or contained in the
  entire-cluster connection -/
  complete : ∀ krp ∈ x.reps, ∃ c, EntrySpec x.eng pod kw i krp.2.reprPodSel krp.2.reprNsSel c ∧
    (c.isEmpty = true ∨ (cw.isEmpty = false ∧ c.containedIn cw = true) ∨
      (⟨false, krp.2.reprNsSel, krp.2.reprPodSel, c⟩ : XEntry) ∈ perRep)

open Structure in
/-- `xgressExposure` of a real workload: the flag is `isProtected`; for a protected workload the
entries are the entire-cluster connection (when not empty) followed by the selector entries -/
theorem xgressExposure_spec (x : XEngine) (hv : NpValid x.eng) (hreps : ∀ krp ∈ x.reps, RepWF krp.2)
    (n : String) (pod : Pod) (hpod : pod.isRepresentative = false ∧ pod.ValidPorts)
    (i : Bool) (res : Option (Bool × List XEntry))
    (h : xgressExposure x (.wl n pod) i = .ok res) :
    ∃ ns, x.eng.findNs pod.ns = some ns ∧
      ((isProtected x.eng pod i = false ∧ res = some (false, [])) ∨
       (isProtected x.eng pod i = true ∧ ∃ cw perRep, clusterWideConn x.eng pod i = .ok cw ∧
          XSpec x pod (.pod pod (some ns)) i cw perRep ∧
          res = (if (general cw).isEmpty && perRep.isEmpty then none
            else some (true, general cw ++ perRep)))) := by
  rw [xgressExposure_eq] at h
  cases hk : x.eng.toKPeer (.wl n pod) with
  | error err => rw [hk] at h; cases h
  | ok kw =>
    obtain ⟨ns, hns, rfl⟩ := toKPeer_wl_real hpod.1 hk
    refine ⟨ns, hns, ?_⟩
    rw [hk] at h
    simp only [bind, Except.bind] at h
    cases hprot : isProtected x.eng pod i
    · left
      simp only [hprot, Bool.not_false, if_true, pure, Except.pure] at h
      cases h
      exact ⟨rfl, rfl⟩
    · right
      simp only [hprot, Bool.not_true, Bool.false_eq_true, if_false] at h
      cases hcw : clusterWideConn x.eng pod i with
      | error err => rw [hcw] at h; cases h
      | ok cw =>
        rw [hcw] at h
        simp only [] at h
        cases hcol : collect (repEntry x.eng (.pod pod (some ns)) cw i) x.reps with
        | error err => rw [hcol] at h; cases h
        | ok perRep =>
          rw [hcol] at h
          simp only [pure, Except.pure] at h
          cases h
          refine ⟨rfl, cw, perRep, rfl, ⟨?_, ?_⟩, rfl⟩
          · intro en hen
            obtain ⟨krp, hkrp, xs, hg, hx⟩ := collect_mem hcol hen
            refine ⟨krp, hkrp, ?_⟩
            unfold repEntry at hg
            split at hg
            · cases hg
            · obtain ⟨c, hc, hs⟩ := peerConns_repr x.eng hv i krp.2
                (if krp.2.ns == "" then none else x.eng.findNs krp.2.ns) (hreps krp hkrp) pod
                (some ns) hpod hprot (isPodToItself_x i _ _ _ _ (hreps krp hkrp) hpod.1)
              rw [hc] at hg
              simp only [bind, Except.bind, pure, Except.pure] at hg
              split at hg
              · cases hg; cases hx
              · rename_i hce
                split at hg
                · cases hg; cases hx
                · cases hg
                  rw [List.mem_singleton] at hx
                  exact ⟨c, hs, by simpa using hce, hx⟩
          · intro krp hkrp
            obtain ⟨xs, hg⟩ := collect_ok_all hcol krp hkrp
            obtain ⟨c, hc, hs⟩ := peerConns_repr x.eng hv i krp.2
              (if krp.2.ns == "" then none else x.eng.findNs krp.2.ns) (hreps krp hkrp) pod
              (some ns) hpod hprot (isPodToItself_x i _ _ _ _ (hreps krp hkrp) hpod.1)
            refine ⟨c, hs, ?_⟩
            have hg' := hg
            unfold repEntry at hg'
            split at hg'
            · cases hg'
            · rw [hc] at hg'
              simp only [bind, Except.bind, pure, Except.pure] at hg'
              split at hg'
              · rename_i hce; exact Or.inl hce
              · split at hg'
                · rename_i hcc
                  rw [Bool.and_eq_true] at hcc
                  exact Or.inr (Or.inl ⟨by simpa using hcc.1, hcc.2⟩)
                · cases hg'
                  exact Or.inr (Or.inr (collect_mem_of hcol hkrp hg (List.mem_singleton.mpr rfl)))

/-! ## I. hypothetical pods -/

/-- the labels of the hypothetical pod's namespace carry the name of that namespace under
`kubernetes.io/metadata.name`, as the API server sets it on every namespace -/
def NsConsistent (q : Pod) (nsl : Labels) : Prop := nsl.get? nsNameLabelKey = some q.ns

/-- the hypothetical pod `q`, in a namespace with labels `nsl`, satisfies the selectors of an
exposure entry (`none` = no requirement) -/
def Sat (P N : Option Selector) (q : Pod) (nsl : Labels) : Prop :=
  (∀ ps, P = some ps → ps.matches q.labels = true) ∧ (∀ ns, N = some ns → ns.matches nsl = true)

/-- `SelectorsFullMatch(rule, rep)` is semantically sound: labels that satisfy the representative
selector satisfy the rule selector. Holds outright when the rule selector is empty or when the two
are the same selector (`fullMatchSound_of_isEmpty`, `fullMatchSound_self`); in general it says that
equal requirement strings mean equivalent requirements (true of labels with Kubernetes syntax). -/
def FullMatchSound (s : Selector) (t : Option Selector) : Prop :=
  selectorsFullMatch s t = true → ∀ l, (∀ ts, t = some ts → ts.matches l = true) → s.matches l = true

theorem fullMatchSound_of_isEmpty {s : Selector} (h : s.isEmpty = true) (t : Option Selector) :
    FullMatchSound s t := fun _ l _ => Selector.matches_of_isEmpty h l

theorem fullMatchSound_self (s : Selector) : FullMatchSound s (some s) :=
  fun _ _ h => h s rfl

theorem fullMatchSound_none {s : Selector} (h : s.isEmpty = false) : FullMatchSound s none := by
  intro hm
  simp [selectorsFullMatch, h] at hm

/-- `FullMatchSound` for every selector of the rule peer against the representative selectors -/
def PeerFaithful (np : NetPol) (P N : Option Selector) (peer : NPPeer) : Prop :=
  match peer with
  | .ip .. => True
  | .sel podSel nsSel =>
    FullMatchSound (nsSel.getD ⟨[(nsNameLabelKey, np.ns)], []⟩) N ∧
    ∀ ps, podSel = some ps → FullMatchSound ps P

/-- … for every rule peer of every policy of the engine -/
def Faithful (e : Engine) (P N : Option Selector) : Prop :=
  ∀ np ∈ e.netpols, ∀ r ∈ np.ingress ++ np.egress, ∀ peer ∈ r.peers, PeerFaithful np P N peer

theorem Faithful.peer {e : Engine} {P N : Option Selector} (h : Faithful e P N) {np : NetPol}
    (hnp : np ∈ e.netpols) {d : Dir} {r : NPRule} (hr : r ∈ Spec.npRules np d) {peer : NPPeer}
    (hp : peer ∈ r.peers) : PeerFaithful np P N peer := by
  apply h np hnp r _ peer hp
  cases d
  · exact List.mem_append_left _ hr
  · exact List.mem_append_right _ hr

/-- a rule peer that selects the representative peer matches every pod that satisfies the
representative selectors -/
theorem npPeerMatches_of_repPeerMatch (np : NetPol) (P N : Option Selector) (peer : NPPeer)
    (hF : PeerFaithful np P N peer) (q : Pod) (nsl : Labels) (hs : Sat P N q nsl)
    (hc : NsConsistent q nsl) (h : repPeerMatch np P N peer = true) :
    Spec.npPeerMatches np peer (.pod q nsl) = true := by
  cases peer with
  | ip c ex => simp [repPeerMatch] at h
  | sel podSel nsSel =>
    unfold repPeerMatch at h
    rw [Bool.and_eq_true] at h
    rw [Spec.npPeerMatches_sel_pod, Bool.and_eq_true]
    obtain ⟨hF1, hF2⟩ := hF
    constructor
    · cases nsSel with
      | none =>
        have := hF1 h.1 nsl hs.2
        simp only [Option.getD_none, Selector.matches, List.all_cons, List.all_nil, Bool.and_true,
          beq_iff_eq] at this
        rw [hc] at this
        simp only [Option.some.injEq] at this
        simp [this]
      | some s => exact hF1 h.1 nsl hs.2
    · cases podSel with
      | none => rfl
      | some ps => exact hF2 ps rfl h.2 q.labels hs.1

theorem npRuleSelects_of_repSel (np : NetPol) (P N : Option Selector) (r : NPRule)
    (hF : ∀ peer ∈ r.peers, PeerFaithful np P N peer) (q : Pod) (nsl : Labels) (hs : Sat P N q nsl)
    (hc : NsConsistent q nsl) (h : repSel np P N r = true) :
    Spec.npRuleSelects np r (.pod q nsl) = true := by
  unfold repSel at h
  unfold Spec.npRuleSelects
  rw [Bool.or_eq_true] at h ⊢
  rcases h with h | h
  · exact Or.inl h
  · right
    rw [List.any_eq_true] at h ⊢
    obtain ⟨peer, hp, hm⟩ := h
    exact ⟨peer, hp, npPeerMatches_of_repPeerMatch np P N peer (hF peer hp) q nsl hs hc hm⟩

/-- a cluster-wide rule selects every pod, whatever its labels and namespace -/
theorem npRuleSelects_of_isCW (np : NetPol) (r : NPRule) (q : Pod) (nsl : Labels)
    (h : isCW r = true) : Spec.npRuleSelects np r (.pod q nsl) = true := by
  unfold isCW at h
  unfold Spec.npRuleSelects
  rw [Bool.or_eq_true] at h ⊢
  rcases h with h | h
  · exact Or.inl h
  · right
    rw [List.any_eq_true] at h ⊢
    obtain ⟨peer, hp, hec⟩ := h
    refine ⟨peer, hp, ?_⟩
    obtain ⟨podSel, s, rfl, hs, hps⟩ := (isEntireClusterPeer_iff peer).mp hec
    rw [Spec.npPeerMatches_sel_pod, Bool.and_eq_true]
    refine ⟨Selector.matches_of_isEmpty hs nsl, ?_⟩
    cases podSel with
    | none => rfl
    | some ps => exact Selector.matches_of_isEmpty (hps ps rfl) q.labels

/-- a rule of a selecting policy that allows the point is allowed by `Spec.npAllows` -/
theorem npAllows_of_rule (e : Engine) (pod : Pod) (hrep : pod.isRepresentative = false) (d : Dir)
    (np : NetPol) (r : NPRule) (hP : PRule e pod d np r) (other dst : Spec.End) (pr : Proto) (x : Int)
    (h : Spec.npRuleAllows np r other dst pr x = true) :
    Spec.npAllows e.toView pod other dst d pr x = true := by
  rw [npAllows_iff e pod d other dst pr x hrep]
  exact ⟨np, List.mem_filter.mpr ⟨hP.1, hP.2.1⟩, r, hP.2.2, h⟩

theorem npAllows_rule (e : Engine) (pod : Pod) (hrep : pod.isRepresentative = false) (d : Dir)
    (other dst : Spec.End) (pr : Proto) (x : Int)
    (h : Spec.npAllows e.toView pod other dst d pr x = true) :
    ∃ np r, PRule e pod d np r ∧ Spec.npRuleAllows np r other dst pr x = true := by
  rw [npAllows_iff e pod d other dst pr x hrep] at h
  obtain ⟨np, hnp, r, hr, h⟩ := h
  obtain ⟨h1, h2⟩ := List.mem_filter.mp hnp
  exact ⟨np, r, ⟨h1, h2, hr⟩, h⟩

/-- the points a connection set of an exposure report stands for, for the hypothetical pod `q`:
its numeric points and, on egress, every named port as `q` declares it -/
def denFor (i : Bool) (c : ConnSet) (q : Pod) (pr : Proto) (x : Int) : Prop :=
  c.den pr x ∨ (i = false ∧ ∃ n ∈ c.names pr, ∃ cp,
    q.ports.find? (fun k => k.name == n) = some cp ∧ cp.proto = pr ∧ cp.port = x)

/-- the destination end of a query between the workload and the hypothetical pod -/
def dstEnd (i : Bool) (pod : Pod) (nslw : Labels) (q : Pod) (nsl : Labels) : Spec.End :=
  if i then .pod pod nslw else .pod q nsl

theorem RD_allows {i : Bool} {pod : Pod} {ns : NsObj} {r : NPRule} {pr : Proto} {x : Int}
    (h : RD i (.pod pod (some ns)) r pr x) (q : Pod) (nsl : Labels) :
    (r.ports.isEmpty || r.ports.any (Spec.npPortMatches · (dstEnd i pod ns.labels q nsl) pr x))
      = true := by
  unfold RD at h
  cases i
  · exact (portsNum_spec h _).2
  · exact h.2

/-- Soundness of one connection described by `EntrySpec` -/
theorem entrySpec_sound (e : Engine) (pod : Pod) (hrep : pod.isRepresentative = false) (ns : NsObj)
    (i : Bool) (P N : Option Selector) (c : ConnSet)
    (hs : EntrySpec e pod (.pod pod (some ns)) i P N c) (hF : Faithful e P N) (q : Pod)
    (nsl : Labels) (hsat : Sat P N q nsl) (hc : NsConsistent q nsl) (pr : Proto) (x : Int)
    (h : denFor i c q pr x) :
    Spec.npAllows e.toView pod (.pod q nsl) (dstEnd i pod ns.labels q nsl) (dirOf i) pr x = true := by
  rcases h with h | ⟨hi, n, hn, cp, hf, hpr, hx⟩
  · obtain ⟨np, r, hP, hsel, hrd⟩ := (hs.den pr x).mp h
    apply npAllows_of_rule e pod hrep _ np r hP
    rw [Spec.npRuleAllows_eq, Bool.and_eq_true]
    exact ⟨npRuleSelects_of_repSel np P N r (fun peer hp => hF.peer hP.1 hP.2.2 hp) q nsl hsat hc hsel,
      RD_allows hrd q nsl⟩
  · obtain ⟨_, np, r, hP, hsel, hnm⟩ := hs.namesSub pr n hn
    subst hi
    apply npAllows_of_rule e pod hrep _ np r hP
    rw [Spec.npRuleAllows_eq, Bool.and_eq_true]
    refine ⟨npRuleSelects_of_repSel np P N r (fun peer hp => hF.peer hP.1 hP.2.2 hp) q nsl hsat hc
      hsel, ?_⟩
    subst hx
    exact portsNamed_spec hnm q nsl cp hf hpr

/-- Soundness of the entire-cluster connection -/
theorem clusterWide_sound (e : Engine) (hv : NpValid e) (pod : Pod)
    (hpod : pod.isRepresentative = false ∧ pod.ValidPorts) (nslw : Labels) (i : Bool) (cw : ConnSet)
    (hcw : clusterWideConn e pod i = .ok cw) (q : Pod) (nsl : Labels) (pr : Proto) (x : Int)
    (h : denFor i cw q pr x) :
    Spec.npAllows e.toView pod (.pod q nsl) (dstEnd i pod nslw q nsl) (dirOf i) pr x = true := by
  obtain ⟨cw', hcw', _, hden, hn1, _⟩ := clusterWideConn_spec e hv pod hpod.2 i
  rw [hcw] at hcw'
  cases hcw'
  rcases h with h | ⟨hi, n, hn, cp, hf, hpr, hx⟩
  · obtain ⟨np, r, ⟨h1, h2, h3, h4⟩, hp⟩ := (hden pr x).mp h
    apply npAllows_of_rule e pod hpod.1 _ np r ⟨h1, h2, h3⟩
    rw [Spec.npRuleAllows_eq, Bool.and_eq_true]
    refine ⟨npRuleSelects_of_isCW np r q nsl h4, ?_⟩
    rcases hp with hp | ⟨hi, n, hnm, hcv⟩
    · exact (portsNum_spec hp _).2
    · subst hi
      obtain ⟨cp, hf, hpr, hx⟩ := (convertNamedPort_iff pod n pr x).mp hcv
      subst hx
      exact portsNamed_spec hnm pod nslw cp hf hpr
  · obtain ⟨np, r, ⟨h1, h2, h3, h4⟩, hnm⟩ := hn1 pr n hn
    subst hi
    apply npAllows_of_rule e pod hpod.1 _ np r ⟨h1, h2, h3⟩
    rw [Spec.npRuleAllows_eq, Bool.and_eq_true]
    refine ⟨npRuleSelects_of_isCW np r q nsl h4, ?_⟩
    subst hx
    exact portsNamed_spec hnm q nsl cp hf hpr

/-! ### coverage -/

/-- port names in rules are not empty (API validation: an `IANA_SVC_NAME`) -/
def NamesNonEmpty (e : Engine) : Prop :=
  ∀ np ∈ e.netpols, ∀ r ∈ np.ingress ++ np.egress, ∀ q ∈ r.ports, q.kind ≠ .name ""

instance (e : Engine) : Decidable (NamesNonEmpty e) := by unfold NamesNonEmpty; infer_instance

theorem NamesNonEmpty.rule {e : Engine} (h : NamesNonEmpty e) {np : NetPol} (hnp : np ∈ e.netpols)
    {d : Dir} {r : NPRule} (hr : r ∈ Spec.npRules np d) :
    ∀ q ∈ r.ports, ∀ n, q.kind = .name n → n ≠ "" := by
  intro q hq n hk hn
  subst hn
  refine h np hnp r ?_ q hq hk
  cases d
  · exact List.mem_append_left _ hr
  · exact List.mem_append_right _ hr

/-- a representative peer of the engine stands for the rule peer and for the hypothetical pod -/
def RepCovers (x : XEngine) (np : NetPol) (peer : NPPeer) (q : Pod) (nsl : Labels) : Prop :=
  ∃ krp ∈ x.reps, repPeerMatch np krp.2.reprPodSel krp.2.reprNsSel peer = true ∧
    Sat krp.2.reprPodSel krp.2.reprNsSel q nsl

/-- what the port clauses of a rule allow towards the pod `d`: a numeric clause, or a named clause
that `d` declares -/
theorem ports_cases {ports : List NPPort} (hne : ∀ q ∈ ports, ∀ n, q.kind = .name n → n ≠ "")
    {d : Pod} {l : Labels} {pr : Proto} {x : Int} (hx : inRange x)
    (h : (ports.isEmpty || ports.any (Spec.npPortMatches · (.pod d l) pr x)) = true) :
    portsNum ports pr x ∨ ∃ n cp, portsNamed ports pr n ∧
      d.ports.find? (fun k => k.name == n) = some cp ∧ cp.proto = pr ∧ cp.port = x := by
  rw [Bool.or_eq_true, List.any_eq_true] at h
  rcases h with h | ⟨q, hq, hm⟩
  · exact Or.inl (Or.inl ⟨h, hx⟩)
  · rcases npPortMatches_cases hx hm with h | ⟨n, cp, hk, hp, hf, h1, h2⟩
    · exact Or.inl (Or.inr ⟨q, hq, h⟩)
    · exact Or.inr ⟨n, cp, ⟨q, hq, hp, hk, hne q hq n hk⟩, hf, h1, h2⟩

theorem ConnSet.containedIn_names {c o : ConnSet} (h : c.containedIn o = true)
    {pr : Proto} {n : String} (hn : n ∈ c.names pr) :
    n ∈ o.names pr ∨ ∀ x, inRange x → o.den pr x := by
  cases hb : o.allowAll
  · cases ha : c.allowAll
    · rw [ConnSet.containedIn_of_not_allowAll ha hb] at h
      obtain ⟨ps, hg, hm⟩ := (ConnSet.mem_names_iff c pr n).mp hn
      obtain ⟨op, hg', hci⟩ := h pr ps hg
      unfold PortSet.containedIn at hci
      rw [Bool.and_eq_true, Bool.or_eq_true] at hci
      rcases hci.2 with h2 | h2
      · right
        intro x hx
        simp only [CSet.equal, decide_eq_true_eq] at h2
        refine Or.inr ⟨op, hg', ?_⟩
        rw [h2]
        exact (memL_full x).mpr hx
      · left
        rw [List.all_eq_true] at h2
        have := h2 n hm
        rw [List.contains_iff_mem] at this
        exact (ConnSet.mem_names_iff o pr n).mpr ⟨op, hg', this⟩
    · rw [ConnSet.containedIn_eq, ha, hb] at h
      simp at h
  · exact Or.inr (fun x hx => Or.inl ⟨hb, hx⟩)

theorem denFor_of_containedIn {i : Bool} {c o : ConnSet} (hc : c.WF) (ho : o.WF)
    (h : c.containedIn o = true) {q : Pod} {pr : Proto} {x : Int} (hx : inRange x)
    (hd : denFor i c q pr x) : denFor i o q pr x := by
  rcases hd with hd | ⟨hi, n, hn, hcp⟩
  · exact Or.inl (ConnSet.containedIn_sound hc ho h pr x hd)
  · rcases ConnSet.containedIn_names h hn with h' | h'
    · exact Or.inr ⟨hi, n, h', hcp⟩
    · exact Or.inl (h' x hx)

theorem not_denFor_of_isEmpty {i : Bool} {c : ConnSet} (h : c.isEmpty = true) (q : Pod) (pr : Proto)
    (x : Int) : ¬ denFor i c q pr x := by
  rintro (hd | ⟨_, n, hn, _⟩)
  · exact ConnSet.not_den_of_isEmpty h pr x hd
  · rw [ConnSet.names_of_isEmpty h] at hn
    exact absurd hn (List.not_mem_nil)

/-- Completeness: for a protected workload, whatever its policies allow with the hypothetical pod
`q` is covered by the entire-cluster connection or by a selector entry `q` satisfies — provided a
representative peer stands for every rule peer that matches `q` (`hcov`) -/
theorem xspec_complete (x : XEngine) (hv : NpValid x.eng) (hnn : NamesNonEmpty x.eng) (pod : Pod)
    (hpod : pod.isRepresentative = false ∧ pod.ValidPorts) (ns : NsObj) (i : Bool) (cw : ConnSet)
    (hcw : clusterWideConn x.eng pod i = .ok cw) (perRep : List XEntry)
    (hX : XSpec x pod (.pod pod (some ns)) i cw perRep) (q : Pod) (nsl : Labels) (pr : Proto)
    (p : Int) (hp : inRange p)
    (hcov : ∀ np r, PRule x.eng pod (dirOf i) np r → isCW r = false → ∀ peer ∈ r.peers,
      Spec.npPeerMatches np peer (.pod q nsl) = true → RepCovers x np peer q nsl)
    (h : Spec.npAllows x.eng.toView pod (.pod q nsl) (dstEnd i pod ns.labels q nsl) (dirOf i) pr p
      = true) :
    denFor i cw q pr p ∨
      ∃ en ∈ perRep, en.entireCluster = false ∧ Sat en.podSel en.nsSel q nsl ∧
        denFor i en.conn q pr p := by
  obtain ⟨cw', hcw', hcwWF, hcwden, _, hcwsup⟩ := clusterWideConn_spec x.eng hv pod hpod.2 i
  rw [hcw] at hcw'
  cases hcw'
  obtain ⟨np, r, hP, hal⟩ := npAllows_rule x.eng pod hpod.1 _ _ _ pr p h
  rw [Spec.npRuleAllows_eq, Bool.and_eq_true] at hal
  obtain ⟨hsel, hports⟩ := hal
  have hne := hnn.rule hP.1 hP.2.2
  cases hcwr : isCW r
  · -- a rule with selectors: a representative peer
    have hpeer : ∃ peer ∈ r.peers, Spec.npPeerMatches np peer (.pod q nsl) = true := by
      unfold Spec.npRuleSelects at hsel
      rw [Bool.or_eq_true, List.any_eq_true] at hsel
      rcases hsel with hsel | hsel
      · simp [isCW, hsel] at hcwr
      · exact hsel
    obtain ⟨peer, hpm, hmatch⟩ := hpeer
    obtain ⟨krp, hkrp, hrm, hsat⟩ := hcov np r hP hcwr peer hpm hmatch
    have hrs : repSel np krp.2.reprPodSel krp.2.reprNsSel r = true := by
      unfold repSel
      rw [Bool.or_eq_true, List.any_eq_true]
      exact Or.inr ⟨peer, hpm, hrm⟩
    obtain ⟨c, hs, hcase⟩ := hX.complete krp hkrp
    -- the connection with that representative peer holds the point
    have hden : denFor i c q pr p := by
      cases i
      · rcases ports_cases hne hp hports with h1 | ⟨n, cp, hnm, hf, h1, h2⟩
        · exact Or.inl ((hs.den pr p).mpr ⟨np, r, hP, hrs, h1⟩)
        · rcases hs.namesSup rfl pr n ⟨np, r, hP, hrs, hnm⟩ with h3 | h3
          · exact Or.inr ⟨rfl, n, h3, cp, hf, h1, h2⟩
          · exact Or.inl (Or.inl ⟨h3, hp⟩)
      · exact Or.inl ((hs.den pr p).mpr ⟨np, r, hP, hrs, ⟨hp, hports⟩⟩)
    rcases hcase with hc | ⟨_, hc⟩ | hc
    · exact absurd hden (not_denFor_of_isEmpty hc q pr p)
    · exact Or.inl (denFor_of_containedIn hs.wf hcwWF hc hp hden)
    · exact Or.inr ⟨_, hc, rfl, hsat, hden⟩
  · -- a cluster-wide rule: the entire-cluster connection
    left
    cases i
    · rcases ports_cases hne hp hports with h1 | ⟨n, cp, hnm, hf, h1, h2⟩
      · exact Or.inl ((hcwden pr p).mpr ⟨np, r, ⟨hP.1, hP.2.1, hP.2.2, hcwr⟩, Or.inl h1⟩)
      · rcases hcwsup rfl pr n ⟨np, r, ⟨hP.1, hP.2.1, hP.2.2, hcwr⟩, hnm⟩ with h3 | h3
        · exact Or.inr ⟨rfl, n, h3, cp, hf, h1, h2⟩
        · exact Or.inl (Or.inl ⟨h3, hp⟩)
    · rcases ports_cases hne hp hports with h1 | ⟨n, cp, hnm, hf, h1, h2⟩
      · exact Or.inl ((hcwden pr p).mpr ⟨np, r, ⟨hP.1, hP.2.1, hP.2.2, hcwr⟩, Or.inl h1⟩)
      · exact Or.inl ((hcwden pr p).mpr ⟨np, r, ⟨hP.1, hP.2.1, hP.2.2, hcwr⟩,
          Or.inr ⟨rfl, n, hnm, (convertNamedPort_iff pod n pr p).mpr ⟨cp, hf, h1, h2⟩⟩⟩)

/-! ### `exposedPeers` -/

/-- what one peer of the list contributes to the exposed peers -/
def xPeerOf (x : XEngine) (focus : String) (w : LPeer) : Except Err (List XPeer) :=
  match w with
  | .ip _ => pure []
  | .wl n _ =>
    if !isFocus focus w then pure []
    else
      xgressExposure x w true >>= fun i =>
      xgressExposure x w false >>= fun g =>
        match i, g with
        | none, none => pure []
        | _, _ => pure [⟨n, (i.getD (true, [])).1, (i.getD (true, [])).2,
                         (g.getD (true, [])).1, (g.getD (true, [])).2⟩]

open Structure in
theorem foldlM_eq_collect {ε α β : Type} (f : List β → α → Except ε (List β))
    (g : α → Except ε (List β)) (h : ∀ acc a, f acc a = (g a).map (acc ++ ·)) (l : List α) :
    l.foldlM f [] = collect g l := by
  have : f = fun acc a => (g a).map (acc ++ ·) := by
    funext acc a
    exact h acc a
  rw [this, foldlM_append_eq]
  cases collect g l with
  | error err => rfl
  | ok r => simp [Except.map]

open Structure in
theorem exposedPeers_eq (x : XEngine) (peers : List LPeer) (focus : String) :
    exposedPeers x peers focus = collect (xPeerOf x focus) peers := by
  unfold exposedPeers
  apply foldlM_eq_collect
  intro acc w
  cases w with
  | ip r => simp [xPeerOf, Except.map, pure, Except.pure]
  | wl n pod =>
    unfold xPeerOf
    simp only []
    split
    · simp [Except.map, pure, Except.pure]
    · simp only [bind, Except.bind]
      cases xgressExposure x (.wl n pod) true with
      | error err => rfl
      | ok i =>
        simp only []
        cases xgressExposure x (.wl n pod) false with
        | error err => rfl
        | ok g =>
          cases i <;> cases g <;> simp [Except.map, pure, Except.pure]

open Structure in
/-- every reported exposed peer is a focus workload of the list with its two direction results -/
theorem exposedPeers_mem {x : XEngine} {peers : List LPeer} {focus : String} {xs : List XPeer}
    (h : exposedPeers x peers focus = .ok xs) {xp : XPeer} (hxp : xp ∈ xs) :
    ∃ n pod ri rg, LPeer.wl n pod ∈ peers ∧ isFocus focus (.wl n pod) = true ∧
      xgressExposure x (.wl n pod) true = .ok ri ∧ xgressExposure x (.wl n pod) false = .ok rg ∧
      xp = ⟨n, (ri.getD (true, [])).1, (ri.getD (true, [])).2,
               (rg.getD (true, [])).1, (rg.getD (true, [])).2⟩ := by
  rw [exposedPeers_eq] at h
  obtain ⟨w, hw, l, hl, hx⟩ := collect_mem h hxp
  cases w with
  | ip r => simp [xPeerOf, pure, Except.pure] at hl; subst hl; cases hx
  | wl n pod =>
    unfold xPeerOf at hl
    simp only [] at hl
    split at hl
    · cases hl; cases hx
    · rename_i hf
      cases hi : xgressExposure x (.wl n pod) true with
      | error err => simp [hi, bind, Except.bind] at hl
      | ok ri =>
        cases hg : xgressExposure x (.wl n pod) false with
        | error err => simp [hi, hg, bind, Except.bind] at hl
        | ok rg =>
          simp only [hi, hg, bind, Except.bind] at hl
          refine ⟨n, pod, ri, rg, hw, by simpa using hf, hi, hg, ?_⟩
          cases ri with
          | none =>
            cases rg with
            | none => simp only [pure, Except.pure] at hl; cases hl; cases hx
            | some b =>
              simp only [pure, Except.pure] at hl; cases hl; exact List.mem_singleton.mp hx
          | some a =>
            cases rg <;>
            · simp only [pure, Except.pure] at hl; cases hl; exact List.mem_singleton.mp hx

open Structure in
/-- every focus workload of the list with an exposure result in some direction is reported -/
theorem exposedPeers_mem_of {x : XEngine} {peers : List LPeer} {focus : String} {xs : List XPeer}
    (h : exposedPeers x peers focus = .ok xs) {n : String} {pod : Pod} (hw : LPeer.wl n pod ∈ peers)
    (hf : isFocus focus (.wl n pod) = true) :
    ∃ ri rg, xgressExposure x (.wl n pod) true = .ok ri ∧
      xgressExposure x (.wl n pod) false = .ok rg ∧
      ((ri = none ∧ rg = none) ∨
        (⟨n, (ri.getD (true, [])).1, (ri.getD (true, [])).2,
             (rg.getD (true, [])).1, (rg.getD (true, [])).2⟩ : XPeer) ∈ xs) := by
  rw [exposedPeers_eq] at h
  obtain ⟨l, hl⟩ := collect_ok_all h _ hw
  have hl' := hl
  unfold xPeerOf at hl'
  simp only [hf, Bool.not_true, Bool.false_eq_true, if_false] at hl'
  cases hi : xgressExposure x (.wl n pod) true with
  | error err => simp [hi, bind, Except.bind] at hl'
  | ok ri =>
    cases hg : xgressExposure x (.wl n pod) false with
    | error err => simp [hi, hg, bind, Except.bind] at hl'
    | ok rg =>
      refine ⟨ri, rg, rfl, rfl, ?_⟩
      simp only [hi, hg, bind, Except.bind] at hl'
      cases ri with
      | none =>
        cases rg with
        | none => exact Or.inl ⟨rfl, rfl⟩
        | some b =>
          simp only [pure, Except.pure] at hl'
          cases hl'
          exact Or.inr (collect_mem_of h hw hl (List.mem_singleton.mpr rfl))
      | some a =>
        cases rg <;>
        · simp only [pure, Except.pure] at hl'
          cases hl'
          exact Or.inr (collect_mem_of h hw hl (List.mem_singleton.mpr rfl))

/-! ### `xgressExposure` succeeds on well-formed input -/

open Structure in
theorem collect_ok_of_all {ε α β : Type} {g : α → Except ε (List β)} {l : List α}
    (h : ∀ a ∈ l, ∃ xs, g a = .ok xs) : ∃ r, collect g l = .ok r := by
  induction l with
  | nil => exact ⟨[], rfl⟩
  | cons a l ih =>
    obtain ⟨xs, hxs⟩ := h a (List.mem_cons_self ..)
    obtain ⟨r, hr⟩ := ih (fun a' ha' => h a' (List.mem_cons_of_mem _ ha'))
    refine ⟨xs ++ r, ?_⟩
    unfold collect
    rw [hxs, hr]

/-- the namespaces the representative peers are placed in are held by the engine (what
`Exposure.build` provides) -/
def RepNamespaces (x : XEngine) : Prop :=
  ∀ krp ∈ x.reps, krp.2.ns ≠ "" → (x.eng.findNs krp.2.ns).isSome = true

instance (x : XEngine) : Decidable (RepNamespaces x) := by unfold RepNamespaces; infer_instance

theorem toKPeer_wl_ok {e : Engine} (n : String) {pod : Pod} (hrep : pod.isRepresentative = false)
    {ns : NsObj} (hns : e.findNs pod.ns = some ns) :
    e.toKPeer (.wl n pod) = .ok (.pod pod (some ns)) := by
  unfold toKPeer
  simp [hrep, hns]

open Structure in
theorem xgressExposure_ok (x : XEngine) (hv : NpValid x.eng) (hreps : ∀ krp ∈ x.reps, RepWF krp.2)
    (hrns : RepNamespaces x) (n : String) (pod : Pod)
    (hpod : pod.isRepresentative = false ∧ pod.ValidPorts)
    (ns : NsObj) (hns : x.eng.findNs pod.ns = some ns)
    (i : Bool) : ∃ res, xgressExposure x (.wl n pod) i = .ok res := by
  rw [xgressExposure_eq, toKPeer_wl_ok n hpod.1 hns]
  simp only [bind, Except.bind]
  cases hprot : isProtected x.eng pod i
  · exact ⟨_, rfl⟩
  · simp only [Bool.not_true, Bool.false_eq_true, if_false]
    rw [clusterWideConn_eq x.eng hv pod i]
    simp only []
    have : ∃ r, collect (repEntry x.eng (.pod pod (some ns))
        (((x.eng.netpols.filter (fun np => np.selects pod (dirOf i))).map (cwOf pod i)).foldl
          ConnSet.union (ConnSet.mk' false)) i) x.reps = .ok r := by
      apply collect_ok_of_all
      intro krp hkrp
      unfold repEntry
      have hnsr : (krp.2.ns != "" && (x.eng.findNs krp.2.ns).isNone) = false := by
        by_cases h : krp.2.ns = ""
        · simp [h]
        · have := hrns krp hkrp h
          cases hf : x.eng.findNs krp.2.ns with
          | none => rw [hf] at this; cases this
          | some _ => simp
      rw [hnsr]
      simp only [Bool.false_eq_true, if_false]
      obtain ⟨c, hc, _⟩ := peerConns_repr x.eng hv i krp.2
        (if krp.2.ns == "" then none else x.eng.findNs krp.2.ns) (hreps krp hkrp) pod
        (some ns) hpod hprot (isPodToItself_x i _ _ _ _ (hreps krp hkrp) hpod.1)
      rw [hc]
      simp only [bind, Except.bind, pure, Except.pure]
      split
      · exact ⟨_, rfl⟩
      · split <;> exact ⟨_, rfl⟩
    obtain ⟨r, hr⟩ := this
    rw [hr]
    exact ⟨_, rfl⟩

end Exposure

end Netpol
