import Netpol.Model.Interval

/-! Proofs about the interval layer (`Netpol.Model.Interval`): membership characterisations and
preservation of the canonical form for every `CSet` operation, plus extensionality of canonical
lists. Core Lean only. -/
namespace Netpol.CSet

/-! ### basic facts -/

theorem memL_nil (x : Int) : ¬ memL [] x := by
  simp [memL]

theorem memL_cons (i : Iv) (l : CSet) (x : Int) : memL (i :: l) x ↔ i.mem x ∨ memL l x := by
  simp only [memL, List.mem_cons, exists_eq_or_imp]

theorem memL_append (l₁ l₂ : CSet) (x : Int) : memL (l₁ ++ l₂) x ↔ memL l₁ x ∨ memL l₂ x := by
  simp only [memL, List.mem_append, or_and_right, exists_or]

theorem canon_nil : Canon [] := by
  simp [Canon]

theorem canon_cons (i : Iv) (l : CSet) :
    Canon (i :: l) ↔ (∀ a ∈ l, i.hi + 1 < a.lo) ∧ i.lo ≤ i.hi ∧ Canon l := by
  simp only [Canon, List.pairwise_cons, List.mem_cons, forall_eq_or_imp]
  constructor
  · rintro ⟨⟨h1, h2⟩, h3, h4⟩; exact ⟨h1, h3, h2, h4⟩
  · rintro ⟨h1, h3, h2, h4⟩; exact ⟨⟨h1, h2⟩, h3, h4⟩

theorem isEmpty_eq_true (i : Iv) : i.isEmpty = true ↔ i.hi < i.lo := by
  simp [Iv.isEmpty]

theorem isEmpty_eq_false (i : Iv) : i.isEmpty = false ↔ i.lo ≤ i.hi := by
  simp [Iv.isEmpty]

theorem not_mem_of_isEmpty (i : Iv) (h : i.isEmpty = true) (x : Int) : ¬ i.mem x := by
  rw [isEmpty_eq_true] at h
  simp only [Iv.mem]; omega

/-! ### `addIvNE` / `addIv` -/

theorem mem_addIvNE (v : Iv) (l : CSet) (x : Int) :
    memL (addIvNE v l) x ↔ v.mem x ∨ memL l x := by
  induction l generalizing v with
  | nil => simp [addIvNE, memL]
  | cons i rest ih =>
    unfold addIvNE
    split
    · simp only [memL_cons]
      rw [ih v]
      constructor
      · rintro (h | h | h)
        · exact Or.inr (Or.inl h)
        · exact Or.inl h
        · exact Or.inr (Or.inr h)
      · rintro (h | h | h)
        · exact Or.inr (Or.inl h)
        · exact Or.inl h
        · exact Or.inr (Or.inr h)
    · split
      · simp only [memL_cons]
      · rename_i h1 h2
        simp only [memL_cons]
        rw [ih _]
        simp only [Iv.mem]
        constructor
        · rintro (h | h)
          · by_cases hx : v.lo ≤ x ∧ x ≤ v.hi
            · exact Or.inl hx
            · right; left; omega
          · exact Or.inr (Or.inr h)
        · rintro (h | h | h)
          · left; omega
          · left; omega
          · exact Or.inr h

/-- lower bound: every interval of `addIvNE v l` starts above `b` when `v` and all of `l` do -/
theorem addIvNE_lo_bound (v : Iv) (l : CSet) (b : Int)
    (hv : b < v.lo) (hl : ∀ a ∈ l, b < a.lo) : ∀ a ∈ addIvNE v l, b < a.lo := by
  induction l generalizing v with
  | nil => intro a ha; simp [addIvNE] at ha; subst ha; exact hv
  | cons i rest ih =>
    intro a ha
    unfold addIvNE at ha
    split at ha
    · rcases List.mem_cons.mp ha with rfl | h
      · exact hl _ (List.mem_cons_self ..)
      · exact ih v hv (fun a ha => hl a (List.mem_cons_of_mem _ ha)) a h
    · split at ha
      · rcases List.mem_cons.mp ha with rfl | h
        · exact hv
        · exact hl a h
      · refine ih _ ?_ (fun a ha => hl a (List.mem_cons_of_mem _ ha)) a ha
        have := hl i (List.mem_cons_self ..)
        simp only; omega

theorem canon_addIvNE (v : Iv) (l : CSet) (hv : v.lo ≤ v.hi) (hl : Canon l) :
    Canon (addIvNE v l) := by
  induction l generalizing v with
  | nil => simp [addIvNE, Canon, hv]
  | cons i rest ih =>
    obtain ⟨hp, hne⟩ := hl
    have hp' := List.pairwise_cons.mp hp
    have hrest : Canon rest := ⟨hp'.2, fun a ha => hne a (List.mem_cons_of_mem _ ha)⟩
    unfold addIvNE
    split
    · rename_i h1
      have ihr := ih v hv hrest
      refine ⟨List.pairwise_cons.mpr ⟨?_, ihr.1⟩, ?_⟩
      · intro a ha
        exact addIvNE_lo_bound v rest (i.hi + 1) h1 (fun a ha => hp'.1 a ha) a ha
      · intro a ha
        rcases List.mem_cons.mp ha with rfl | h
        · exact hne _ (List.mem_cons_self ..)
        · exact ihr.2 a h
    · split
      · rename_i h1 h2
        refine ⟨List.pairwise_cons.mpr ⟨?_, hp⟩, ?_⟩
        · intro a ha
          rcases List.mem_cons.mp ha with rfl | h
          · exact h2
          · have := hp'.1 a h
            have := hne i (List.mem_cons_self ..)
            omega
        · intro a ha
          rcases List.mem_cons.mp ha with rfl | h
          · exact hv
          · exact hne a h
      · apply ih _ _ hrest
        have := hne i (List.mem_cons_self ..)
        simp only; omega

theorem mem_addIv (v : Iv) (l : CSet) (x : Int) :
    memL (addIv v l) x ↔ v.mem x ∨ memL l x := by
  unfold addIv
  split
  · rename_i h
    have := not_mem_of_isEmpty v h x
    constructor
    · exact Or.inr
    · rintro (h' | h')
      · exact absurd h' this
      · exact h'
  · exact mem_addIvNE v l x

theorem canon_addIv (v : Iv) (l : CSet) (hl : Canon l) : Canon (addIv v l) := by
  unfold addIv
  split
  · exact hl
  · rename_i h
    have h' : v.isEmpty = false := by simpa using h
    exact canon_addIvNE v l ((isEmpty_eq_false v).mp h') hl

theorem mem_new (s e x : Int) : (Iv.new s e).mem x ↔ s ≤ x ∧ x ≤ e := by
  unfold Iv.new
  split
  · simp only [Iv.mem]; omega
  · simp only [Iv.mem]

theorem new_lo_le_hi_or_empty (s e : Int) :
    (Iv.new s e).isEmpty = true ∨ (Iv.new s e) = ⟨s, e⟩ := by
  unfold Iv.new
  split
  · left; simp [Iv.isEmpty]
  · right; rfl

/-! ### `subtractSplit` / `addHole` -/

theorem mem_iv_inter (i o : Iv) (x : Int) : (i.inter o).mem x ↔ i.mem x ∧ o.mem x := by
  unfold Iv.inter
  rw [mem_new]
  simp only [Iv.mem]
  omega

theorem mem_subtractSplit (i h : Iv) (hh : h.isEmpty = false) (x : Int) :
    memL (i.subtractSplit h) x ↔ i.mem x ∧ ¬ h.mem x := by
  unfold Iv.subtractSplit
  simp only [hh, Iv.overlap, Iv.isSubset]
  simp only [Iv.isEmpty, decide_eq_false_iff_not] at hh
  split
  · rename_i h1
    simp only [Iv.isEmpty, decide_eq_true_eq] at h1
    simp only [memL_nil, Iv.mem, false_iff]; omega
  · rename_i h1
    simp only [Iv.isEmpty, decide_eq_true_eq] at h1
    simp only [Bool.false_eq_true, if_false, Bool.not_eq_true', decide_eq_false_iff_not,
      decide_eq_true_eq]
    split
    · simp only [memL_cons, memL_nil, Iv.mem, or_false]; omega
    · split
      · simp only [memL_nil, Iv.mem, false_iff]; omega
      · split
        · simp only [memL_cons, memL_nil, Iv.mem, or_false]; omega
        · split
          · simp only [memL_cons, memL_nil, Iv.mem, or_false]; omega
          · simp only [memL_cons, memL_nil, Iv.mem, or_false]; omega

theorem canon_singleton (i : Iv) (h : i.lo ≤ i.hi) : Canon [i] := by
  rw [canon_cons]
  exact ⟨fun a ha => absurd ha (List.not_mem_nil), h, canon_nil⟩

/-- the pieces of `i.subtractSplit h` are canonical and stay inside `i` -/
theorem canon_subtractSplit (i h : Iv) (hh : h.isEmpty = false) :
    Canon (i.subtractSplit h) ∧ ∀ p ∈ i.subtractSplit h, i.lo ≤ p.lo ∧ p.hi ≤ i.hi := by
  unfold Iv.subtractSplit
  simp only [hh, Iv.overlap, Iv.isSubset]
  simp only [Iv.isEmpty, decide_eq_false_iff_not] at hh
  split
  · exact ⟨canon_nil, fun p hp => absurd hp (List.not_mem_nil)⟩
  · rename_i h1
    simp only [Iv.isEmpty, decide_eq_true_eq] at h1
    simp only [Bool.false_eq_true, if_false, Bool.not_eq_true', decide_eq_false_iff_not,
      decide_eq_true_eq]
    split
    · refine ⟨canon_singleton i (by omega), ?_⟩
      intro p hp
      rw [List.mem_singleton] at hp; subst hp; omega
    · split
      · exact ⟨canon_nil, fun p hp => absurd hp (List.not_mem_nil)⟩
      · split
        · refine ⟨?_, ?_⟩
          · rw [canon_cons]
            refine ⟨?_, by simp only; omega, canon_singleton _ (by simp only; omega)⟩
            intro a ha
            rw [List.mem_singleton] at ha; subst ha; simp only; omega
          · intro p hp
            simp only [List.mem_cons, List.not_mem_nil, or_false] at hp
            rcases hp with rfl | rfl <;> simp only <;> omega
        · split
          · refine ⟨canon_singleton _ (by simp only; omega), ?_⟩
            intro p hp
            rw [List.mem_singleton] at hp; subst hp; simp only; omega
          · refine ⟨canon_singleton _ (by simp only; omega), ?_⟩
            intro p hp
            rw [List.mem_singleton] at hp; subst hp; simp only; omega

theorem canon_append (l₁ l₂ : CSet) (h₁ : Canon l₁) (h₂ : Canon l₂)
    (h : ∀ a ∈ l₁, ∀ b ∈ l₂, a.hi + 1 < b.lo) : Canon (l₁ ++ l₂) := by
  refine ⟨List.pairwise_append.mpr ⟨h₁.1, h₂.1, h⟩, ?_⟩
  intro a ha
  rcases List.mem_append.mp ha with ha | ha
  · exact h₁.2 a ha
  · exact h₂.2 a ha

theorem memL_flatMap (f : Iv → CSet) (l : CSet) (x : Int) :
    memL (l.flatMap f) x ↔ ∃ i ∈ l, memL (f i) x := by
  simp only [memL, List.mem_flatMap]
  constructor
  · rintro ⟨p, ⟨i, hi, hp⟩, hx⟩; exact ⟨i, hi, p, hp, hx⟩
  · rintro ⟨i, hi, p, hp, hx⟩; exact ⟨p, ⟨i, hi, hp⟩, hx⟩

theorem canon_flatMap (f : Iv → CSet) (l : CSet) (hl : Canon l)
    (hf : ∀ i, Canon (f i) ∧ ∀ p ∈ f i, i.lo ≤ p.lo ∧ p.hi ≤ i.hi) : Canon (l.flatMap f) := by
  induction l with
  | nil => exact canon_nil
  | cons i rest ih =>
    rw [canon_cons] at hl
    obtain ⟨h1, _, h3⟩ := hl
    rw [List.flatMap_cons]
    refine canon_append _ _ (hf i).1 (ih h3) ?_
    intro a ha b hb
    obtain ⟨r, hr, hbr⟩ := List.mem_flatMap.mp hb
    have := h1 r hr
    have := (hf i).2 a ha
    have := (hf r).2 b hbr
    omega

theorem mem_addHole (h : Iv) (l : CSet) (x : Int) :
    memL (addHole h l) x ↔ memL l x ∧ ¬ h.mem x := by
  unfold addHole
  split
  · rename_i he
    have := not_mem_of_isEmpty h he x
    exact ⟨fun hx => ⟨hx, this⟩, fun hx => hx.1⟩
  · rename_i he
    have he' : h.isEmpty = false := by simpa using he
    rw [memL_flatMap]
    constructor
    · rintro ⟨i, hi, hx⟩
      rw [mem_subtractSplit i h he'] at hx
      exact ⟨⟨i, hi, hx.1⟩, hx.2⟩
    · rintro ⟨⟨i, hi, hx⟩, hn⟩
      exact ⟨i, hi, (mem_subtractSplit i h he' x).mpr ⟨hx, hn⟩⟩

theorem canon_addHole (h : Iv) (l : CSet) (hl : Canon l) : Canon (addHole h l) := by
  unfold addHole
  split
  · exact hl
  · rename_i he
    have he' : h.isEmpty = false := by simpa using he
    exact canon_flatMap _ l hl (fun i => canon_subtractSplit i h he')

/-! ### `union` -/

theorem mem_union (a b : CSet) (x : Int) : memL (union a b) x ↔ memL a x ∨ memL b x := by
  unfold union
  induction b generalizing a with
  | nil => simp only [List.foldl_nil, memL_nil, or_false]
  | cons v rest ih =>
    rw [List.foldl_cons, ih, mem_addIv, memL_cons]
    constructor
    · rintro ((h | h) | h)
      · exact Or.inr (Or.inl h)
      · exact Or.inl h
      · exact Or.inr (Or.inr h)
    · rintro (h | h | h)
      · exact Or.inl (Or.inr h)
      · exact Or.inl (Or.inl h)
      · exact Or.inr h

theorem canon_union (a b : CSet) (ha : Canon a) : Canon (union a b) := by
  unfold union
  induction b generalizing a with
  | nil => exact ha
  | cons v rest ih =>
    rw [List.foldl_cons]
    exact ih _ (canon_addIv v a ha)

/-! ### `inter` -/

theorem mem_inter_inner (l : Iv) (b acc : CSet) (x : Int) :
    memL (b.foldl (fun acc r => addIv (l.inter r) acc) acc) x ↔
      memL acc x ∨ (l.mem x ∧ memL b x) := by
  induction b generalizing acc with
  | nil => simp only [List.foldl_nil, memL_nil, and_false, or_false]
  | cons r rest ih =>
    rw [List.foldl_cons, ih, mem_addIv, mem_iv_inter, memL_cons]
    constructor
    · rintro ((h | h) | h)
      · exact Or.inr ⟨h.1, Or.inl h.2⟩
      · exact Or.inl h
      · exact Or.inr ⟨h.1, Or.inr h.2⟩
    · rintro (h | ⟨h1, h2 | h2⟩)
      · exact Or.inl (Or.inr h)
      · exact Or.inl (Or.inl ⟨h1, h2⟩)
      · exact Or.inr ⟨h1, h2⟩

theorem canon_inter_inner (l : Iv) (b acc : CSet) (hacc : Canon acc) :
    Canon (b.foldl (fun acc r => addIv (l.inter r) acc) acc) := by
  induction b generalizing acc with
  | nil => exact hacc
  | cons r rest ih =>
    rw [List.foldl_cons]
    exact ih _ (canon_addIv _ acc hacc)

theorem mem_inter_outer (a b acc : CSet) (x : Int) :
    memL (a.foldl (fun acc l => b.foldl (fun acc r => addIv (l.inter r) acc) acc) acc) x ↔
      memL acc x ∨ (memL a x ∧ memL b x) := by
  induction a generalizing acc with
  | nil => simp only [List.foldl_nil, memL_nil, false_and, or_false]
  | cons l rest ih =>
    rw [List.foldl_cons, ih, mem_inter_inner, memL_cons]
    constructor
    · rintro ((h | h) | h)
      · exact Or.inl h
      · exact Or.inr ⟨Or.inl h.1, h.2⟩
      · exact Or.inr ⟨Or.inr h.1, h.2⟩
    · rintro (h | ⟨h1 | h1, h2⟩)
      · exact Or.inl (Or.inl h)
      · exact Or.inl (Or.inr ⟨h1, h2⟩)
      · exact Or.inr ⟨h1, h2⟩

theorem canon_inter_outer (a b acc : CSet) (hacc : Canon acc) :
    Canon (a.foldl (fun acc l => b.foldl (fun acc r => addIv (l.inter r) acc) acc) acc) := by
  induction a generalizing acc with
  | nil => exact hacc
  | cons l rest ih =>
    rw [List.foldl_cons]
    exact ih _ (canon_inter_inner l b acc hacc)

theorem mem_inter (a b : CSet) (x : Int) : memL (inter a b) x ↔ memL a x ∧ memL b x := by
  unfold inter
  rw [mem_inter_outer]
  simp only [memL_nil, false_or]

theorem canon_inter (a b : CSet) : Canon (inter a b) := by
  unfold inter
  exact canon_inter_outer a b [] canon_nil

/-! ### `subtract` -/

theorem mem_subtract (a b : CSet) (x : Int) :
    memL (subtract a b) x ↔ memL a x ∧ ¬ memL b x := by
  unfold subtract
  induction b generalizing a with
  | nil => simp only [List.foldl_nil, memL_nil, not_false_eq_true, and_true]
  | cons h rest ih =>
    rw [List.foldl_cons, ih, mem_addHole, memL_cons]
    constructor
    · rintro ⟨⟨h1, h2⟩, h3⟩
      exact ⟨h1, fun h => h.elim h2 h3⟩
    · rintro ⟨h1, h2⟩
      exact ⟨⟨h1, fun h => h2 (Or.inl h)⟩, fun h => h2 (Or.inr h)⟩

theorem canon_subtract (a b : CSet) (ha : Canon a) : Canon (subtract a b) := by
  unfold subtract
  induction b generalizing a with
  | nil => exact ha
  | cons h rest ih =>
    rw [List.foldl_cons]
    exact ih _ (canon_addHole h a ha)

/-! ### `isSubset` -/

theorem canon_tail {i : Iv} {l : CSet} (h : Canon (i :: l)) : Canon l :=
  ((canon_cons i l).mp h).2.2

/-- every member of a canonical list is at or above the start of its head -/
theorem head_lo_le_of_memL {i : Iv} {l : CSet} (h : Canon (i :: l)) {x : Int}
    (hx : memL (i :: l) x) : i.lo ≤ x := by
  rw [canon_cons] at h
  rcases (memL_cons i l x).mp hx with hx | ⟨a, ha, hx⟩
  · exact hx.1
  · have := h.1 a ha
    have := hx.1
    omega

/-- every member of the tail of a canonical list is beyond the end of its head (non-touching) -/
theorem head_hi_lt_of_memL_tail {i : Iv} {l : CSet} (h : Canon (i :: l)) {x : Int}
    (hx : memL l x) : i.hi + 1 < x := by
  rw [canon_cons] at h
  obtain ⟨a, ha, hx⟩ := hx
  have := h.1 a ha
  have := hx.1
  omega

/-- two intervals of a canonical list are equal or separated -/
theorem canon_trichotomy {l : CSet} (hl : Canon l) {j k : Iv} (hj : j ∈ l) (hk : k ∈ l) :
    j = k ∨ j.hi + 1 < k.lo ∨ k.hi + 1 < j.lo := by
  induction l with
  | nil => exact absurd hj (List.not_mem_nil)
  | cons i rest ih =>
    have hc := (canon_cons i rest).mp hl
    rcases List.mem_cons.mp hj with rfl | hj' <;> rcases List.mem_cons.mp hk with rfl | hk'
    · exact Or.inl rfl
    · exact Or.inr (Or.inl (hc.1 k hk'))
    · exact Or.inr (Or.inr (hc.1 j hj'))
    · exact ih hc.2.2 hj' hk'

/-- a non-empty interval covered by a canonical list is covered by one of its intervals -/
theorem single_interval_of_covered {b : CSet} (hb : Canon b) {t : Iv} (ht : t.lo ≤ t.hi)
    (h : ∀ x, t.mem x → memL b x) : ∃ j ∈ b, j.lo ≤ t.lo ∧ t.hi ≤ j.hi := by
  obtain ⟨j, hj, hjx⟩ := h t.lo ⟨Int.le_refl _, ht⟩
  refine ⟨j, hj, hjx.1, ?_⟩
  apply Classical.byContradiction
  intro hlt
  have hjx2 := hjx.2
  obtain ⟨k, hk, hkx⟩ := h (j.hi + 1) ⟨by omega, by omega⟩
  have hk1 := hkx.1
  have hk2 := hkx.2
  have hjne := hb.2 j hj
  rcases canon_trichotomy hb hj hk with rfl | h' | h'
  · omega
  · omega
  · omega

theorem subsetStep_some {t : Iv} {b b' : CSet} (h : subsetStep t b = some b') :
    ∃ pre j rest, b = pre ++ j :: rest ∧ b' = j :: rest ∧ (∀ p ∈ pre, p.hi < t.hi) ∧
      j.lo ≤ t.lo ∧ t.hi ≤ j.hi := by
  induction b with
  | nil => simp [subsetStep] at h
  | cons j rest ih =>
    unfold subsetStep at h
    split at h
    · rename_i h1
      split at h
      · exact absurd h (by simp)
      · rename_i h2
        refine ⟨[], j, rest, rfl, ?_, ?_, by omega, by omega⟩
        · exact (Option.some.inj h).symm
        · intro p hp; exact absurd hp (List.not_mem_nil)
    · rename_i h1
      obtain ⟨pre, j', rest', e1, e2, h3, h4⟩ := ih h
      refine ⟨j :: pre, j', rest', by rw [e1]; rfl, e2, ?_, h4⟩
      intro p hp
      rcases List.mem_cons.mp hp with rfl | hp
      · omega
      · exact h3 p hp

theorem subsetStep_none {t : Iv} (ht : t.lo ≤ t.hi) {b : CSet} (hb : Canon b)
    (h : subsetStep t b = none) : ∀ j ∈ b, ¬ (j.lo ≤ t.lo ∧ t.hi ≤ j.hi) := by
  induction b with
  | nil => intro j hj; exact absurd hj (List.not_mem_nil)
  | cons j rest ih =>
    have hc := (canon_cons j rest).mp hb
    unfold subsetStep at h
    intro k hk
    split at h
    · rename_i h1
      split at h
      · rename_i h2
        rcases List.mem_cons.mp hk with rfl | hk
        · omega
        · have := hc.1 k hk
          omega
      · exact absurd h (by simp)
    · rename_i h1
      rcases List.mem_cons.mp hk with rfl | hk
      · omega
      · exact ih hc.2.2 h k hk

theorem canon_of_append_right {l₁ l₂ : CSet} (h : Canon (l₁ ++ l₂)) : Canon l₂ :=
  ⟨(List.pairwise_append.mp h.1).2.1, fun a ha => h.2 a (List.mem_append_right _ ha)⟩

theorem isSubset_iff (a b : CSet) (ha : Canon a) (hb : Canon b) :
    isSubset a b = true ↔ ∀ x, memL a x → memL b x := by
  induction a generalizing b with
  | nil =>
    simp only [isSubset, true_iff]
    intro x hx; exact absurd hx (memL_nil x)
  | cons t ts ih =>
    have hc := (canon_cons t ts).mp ha
    unfold isSubset
    split
    · rename_i hnone
      simp only [Bool.false_eq_true, false_iff]
      intro hall
      obtain ⟨j, hj, hjt⟩ := single_interval_of_covered hb hc.2.1
        (fun x hx => hall x ((memL_cons t ts x).mpr (Or.inl hx)))
      exact subsetStep_none hc.2.1 hb hnone j hj hjt
    · rename_i b' hsome
      obtain ⟨pre, j, rest, e1, e2, hpre, hjlo, hjhi⟩ := subsetStep_some hsome
      have hb' : Canon b' := by
        rw [e2]; rw [e1] at hb; exact canon_of_append_right hb
      rw [ih b' hc.2.2 hb']
      constructor
      · intro hall x hx
        rcases (memL_cons t ts x).mp hx with hx | hx
        · refine ⟨j, ?_, ?_⟩
          · rw [e1]; exact List.mem_append_right _ (List.mem_cons_self ..)
          · have h1 := hx.1
            have h2 := hx.2
            exact ⟨by omega, by omega⟩
        · obtain ⟨p, hp, hpx⟩ := hall x hx
          refine ⟨p, ?_, hpx⟩
          rw [e1]; rw [e2] at hp; exact List.mem_append_right _ hp
      · intro hall x hx
        obtain ⟨p, hp, hpx⟩ := hall x ((memL_cons t ts x).mpr (Or.inr hx))
        rw [e1] at hp
        rcases List.mem_append.mp hp with hp | hp
        · have := hpre p hp
          have := head_hi_lt_of_memL_tail ha hx
          have := hpx.2
          omega
        · exact ⟨p, by rw [e2]; exact hp, hpx⟩

theorem contains_iff (l : CSet) (n : Int) (hl : Canon l) : contains l n = true ↔ memL l n := by
  unfold contains
  rw [isSubset_iff _ _ (canon_singleton ⟨n, n⟩ (Int.le_refl n)) hl]
  constructor
  · intro h
    exact h n ((memL_cons _ _ _).mpr (Or.inl ⟨Int.le_refl n, Int.le_refl n⟩))
  · intro h x hx
    rcases (memL_cons _ _ _).mp hx with hx | hx
    · have h1 := hx.1
      have h2 := hx.2
      simp only at h1 h2
      have : x = n := by omega
      rw [this]; exact h
    · exact absurd hx (memL_nil x)

/-! ### extensionality, `equal`, `isEmpty` -/

theorem isEmpty_iff (l : CSet) (hl : Canon l) : l.isEmpty = true ↔ ∀ x, ¬ memL l x := by
  cases l with
  | nil => simp only [List.isEmpty_nil, true_iff]; exact memL_nil
  | cons i rest =>
    simp only [List.isEmpty_cons, Bool.false_eq_true, false_iff]
    intro h
    have hc := (canon_cons i rest).mp hl
    exact h i.lo ((memL_cons i rest i.lo).mpr (Or.inl ⟨Int.le_refl _, hc.2.1⟩))

theorem eq_of_same_mem (a b : CSet) (ha : Canon a) (hb : Canon b)
    (h : ∀ x, memL a x ↔ memL b x) : a = b := by
  induction a generalizing b with
  | nil =>
    cases b with
    | nil => rfl
    | cons j bs =>
      have hc := (canon_cons j bs).mp hb
      exact absurd ((h j.lo).mpr ((memL_cons j bs j.lo).mpr (Or.inl ⟨Int.le_refl _, hc.2.1⟩)))
        (memL_nil _)
  | cons i as ih =>
    cases b with
    | nil =>
      have hc := (canon_cons i as).mp ha
      exact absurd ((h i.lo).mp ((memL_cons i as i.lo).mpr (Or.inl ⟨Int.le_refl _, hc.2.1⟩)))
        (memL_nil _)
    | cons j bs =>
      have hca := (canon_cons i as).mp ha
      have hcb := (canon_cons j bs).mp hb
      have hi_in : ∀ x, i.mem x → memL (i :: as) x := fun x hx => (memL_cons i as x).mpr (Or.inl hx)
      have hj_in : ∀ x, j.mem x → memL (j :: bs) x := fun x hx => (memL_cons j bs x).mpr (Or.inl hx)
      -- the heads start at the same point
      have h1 : j.lo ≤ i.lo := head_lo_le_of_memL hb ((h _).mp (hi_in i.lo ⟨Int.le_refl _, hca.2.1⟩))
      have h2 : i.lo ≤ j.lo := head_lo_le_of_memL ha ((h _).mpr (hj_in j.lo ⟨Int.le_refl _, hcb.2.1⟩))
      have hlo : i.lo = j.lo := by omega
      -- and end at the same point
      have h3 : ¬ i.hi < j.hi := by
        intro hlt
        have hm := (h (i.hi + 1)).mpr (hj_in (i.hi + 1) ⟨by omega, by omega⟩)
        rcases (memL_cons i as _).mp hm with hm | hm
        · have := hm.2; omega
        · have := head_hi_lt_of_memL_tail ha hm; omega
      have h4 : ¬ j.hi < i.hi := by
        intro hlt
        have hm := (h (j.hi + 1)).mp (hi_in (j.hi + 1) ⟨by omega, by omega⟩)
        rcases (memL_cons j bs _).mp hm with hm | hm
        · have := hm.2; omega
        · have := head_hi_lt_of_memL_tail hb hm; omega
      have hhi : i.hi = j.hi := by omega
      have hij : i = j := by
        cases i; cases j; simp only at hlo hhi; subst hlo; subst hhi; rfl
      subst hij
      have htl : as = bs := by
        apply ih bs hca.2.2 hcb.2.2
        intro x
        constructor
        · intro hx
          rcases (memL_cons i bs x).mp ((h x).mp ((memL_cons i as x).mpr (Or.inr hx))) with hm | hm
          · have := head_hi_lt_of_memL_tail ha hx
            have := hm.2
            omega
          · exact hm
        · intro hx
          rcases (memL_cons i as x).mp ((h x).mpr ((memL_cons i bs x).mpr (Or.inr hx))) with hm | hm
          · have := head_hi_lt_of_memL_tail hb hx
            have := hm.2
            omega
          · exact hm
      rw [htl]

theorem equal_iff (a b : CSet) (ha : Canon a) (hb : Canon b) :
    equal a b = true ↔ ∀ x, memL a x ↔ memL b x := by
  unfold equal
  rw [decide_eq_true_eq]
  constructor
  · intro h x; rw [h]
  · exact eq_of_same_mem a b ha hb

end Netpol.CSet
