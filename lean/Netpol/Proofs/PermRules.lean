import Netpol.Proofs.PermLayer

/-! Property C08, part 2: the semantically unordered parts of a NetworkPolicy — the order of its
ingress / egress rules, of the peers and of the ports inside a rule, and of `policyTypes` — do not
change the `list` report `WorldDriver.runList`. Core Lean only.

Layout: A lists related position by position; B the similarity relations (all decidable); C the
NetworkPolicy layer (`allowedConns` on similar rule lists); D engines that differ in the inner
order of their NetworkPolicies; E the report (`runList_rules_perm`); F findings (what the
hypotheses exclude, with concrete inputs) and a non-vacuity example.

Main statements:
* `runList_rules_perm`: `Forall₂ ObjSim objs objs'` (same objects position by position,
  NetworkPolicies up to `NpSim`), `NPRulesValid objs`, `PodsReal objs`, `PodPortsValid objs` ⊢
  `runList objs focus = runList objs' focus`. (Before `allowedConns` examined every rule a fourth
  hypothesis, `NoNamedPorts`, excluded a failure that the rule order could mask.)
* `Findings.rule_order_repaired`: the two inputs that used to have different reports — the order
  of two egress rules — now have the same one, `(err namedPortOnIP)`. -/
namespace Netpol.PermRules
open Netpol Netpol.Engine Netpol.Structure Netpol.PermLayer

/-! ## A. lists related position by position -/

/-- two lists of the same length whose elements are related position by position (core Lean has
no `List.Forall₂`) -/
inductive Forall₂ {α β : Type} (R : α → β → Prop) : List α → List β → Prop
  | nil : Forall₂ R [] []
  | cons {a : α} {b : β} {l : List α} {l' : List β} : R a b → Forall₂ R l l' →
      Forall₂ R (a :: l) (b :: l')

section Forall₂
variable {α β γ ε : Type} {R : α → β → Prop}

theorem Forall₂.refl {S : α → α → Prop} (h : ∀ a, S a a) (l : List α) : Forall₂ S l l := by
  induction l with
  | nil => exact .nil
  | cons a l ih => exact .cons (h a) ih

theorem Forall₂.length_eq {l : List α} {l' : List β} (h : Forall₂ R l l') :
    l.length = l'.length := by
  induction h with
  | nil => rfl
  | cons _ _ ih => simp [ih]

theorem Forall₂.isEmpty_eq {l : List α} {l' : List β} (h : Forall₂ R l l') :
    l.isEmpty = l'.isEmpty := by
  cases h <;> rfl

theorem Forall₂.mem_left {l : List α} {l' : List β} (h : Forall₂ R l l') {a : α} (ha : a ∈ l) :
    ∃ b ∈ l', R a b := by
  induction h with
  | nil => cases ha
  | cons hab _ ih =>
    rcases List.mem_cons.mp ha with rfl | ha'
    · exact ⟨_, List.mem_cons_self .., hab⟩
    · obtain ⟨b, hb, hr⟩ := ih ha'
      exact ⟨b, List.mem_cons_of_mem _ hb, hr⟩

theorem Forall₂.mem_right {l : List α} {l' : List β} (h : Forall₂ R l l') {b : β} (hb : b ∈ l') :
    ∃ a ∈ l, R a b := by
  induction h with
  | nil => cases hb
  | cons hab _ ih =>
    rcases List.mem_cons.mp hb with rfl | hb'
    · exact ⟨_, List.mem_cons_self .., hab⟩
    · obtain ⟨a, ha, hr⟩ := ih hb'
      exact ⟨a, List.mem_cons_of_mem _ ha, hr⟩

theorem Forall₂.imp {S : α → β → Prop} {l : List α} {l' : List β} (h : Forall₂ R l l')
    (hi : ∀ a b, R a b → S a b) : Forall₂ S l l' := by
  induction h with
  | nil => exact .nil
  | cons hab _ ih => exact .cons (hi _ _ hab) ih

/-- add a property of the left elements to the relation -/
theorem Forall₂.and_left {P : α → Prop} {l : List α} {l' : List β} (h : Forall₂ R l l')
    (hp : ∀ a ∈ l, P a) : Forall₂ (fun a b => R a b ∧ P a) l l' := by
  induction h with
  | nil => exact .nil
  | cons hab _ ih =>
    exact .cons ⟨hab, hp _ (List.mem_cons_self ..)⟩ (ih (fun a ha => hp a (List.mem_cons_of_mem _ ha)))

theorem Forall₂.append {l m : List α} {l' m' : List β} (h : Forall₂ R l l') (h' : Forall₂ R m m') :
    Forall₂ R (l ++ m) (l' ++ m') := by
  induction h with
  | nil => exact h'
  | cons hab _ ih => exact .cons hab ih

theorem Forall₂.map {α' β' : Type} {S : α' → β' → Prop} {f : α → α'} {g : β → β'} {l : List α}
    {l' : List β} (h : Forall₂ R l l') (hfg : ∀ a b, R a b → S (f a) (g b)) :
    Forall₂ S (l.map f) (l'.map g) := by
  induction h with
  | nil => exact .nil
  | cons hab _ ih => exact .cons (hfg _ _ hab) ih

theorem Forall₂.filter {f : α → Bool} {g : β → Bool} {l : List α} {l' : List β}
    (h : Forall₂ R l l') (hfg : ∀ a b, R a b → f a = g b) :
    Forall₂ R (l.filter f) (l'.filter g) := by
  induction h with
  | nil => exact .nil
  | @cons a b l l' hab _ ih =>
    rw [List.filter_cons, List.filter_cons, ← hfg a b hab]
    split
    · exact .cons hab ih
    · exact ih

theorem Forall₂.any_eq {f : α → Bool} {g : β → Bool} {l : List α} {l' : List β}
    (h : Forall₂ R l l') (hfg : ∀ a b, R a b → f a = g b) : l.any f = l'.any g := by
  induction h with
  | nil => rfl
  | cons hab _ ih => rw [List.any_cons, List.any_cons, hfg _ _ hab, ih]

theorem Forall₂.filterMap_eq {f : α → Option γ} {g : β → Option γ} {l : List α} {l' : List β}
    (h : Forall₂ R l l') (hfg : ∀ a b, R a b → f a = g b) : l.filterMap f = l'.filterMap g := by
  induction h with
  | nil => rfl
  | cons hab _ ih => rw [List.filterMap_cons, List.filterMap_cons, hfg _ _ hab, ih]

theorem Forall₂.flatMap_eq {f : α → List γ} {g : β → List γ} {l : List α} {l' : List β}
    (h : Forall₂ R l l') (hfg : ∀ a b, R a b → f a = g b) : l.flatMap f = l'.flatMap g := by
  induction h with
  | nil => rfl
  | cons hab _ ih => rw [List.flatMap_cons, List.flatMap_cons, hfg _ _ hab, ih]

theorem Forall₂.flatMap_perm {f : α → List γ} {g : β → List γ} {l : List α} {l' : List β}
    (h : Forall₂ R l l') (hfg : ∀ a b, R a b → (f a).Perm (g b)) :
    (l.flatMap f).Perm (l'.flatMap g) := by
  induction h with
  | nil => exact List.Perm.refl _
  | cons hab _ ih =>
    rw [List.flatMap_cons, List.flatMap_cons]
    exact (hfg _ _ hab).append ih

/-- a fold in `Except` over related lists with steps that agree on related elements -/
theorem Forall₂.foldlM_eq {σ : Type} {f : σ → α → Except ε σ} {g : σ → β → Except ε σ}
    {l : List α} {l' : List β} (h : Forall₂ R l l')
    (hfg : ∀ a b, R a b → ∀ s, f s a = g s b) (init : σ) :
    l.foldlM f init = l'.foldlM g init := by
  induction h generalizing init with
  | nil => rfl
  | @cons a b l l' hab _ ih =>
    rw [List.foldlM_cons, List.foldlM_cons, hfg _ _ hab]
    cases g init b with
    | error err => rfl
    | ok v => exact ih v

end Forall₂

theorem collect_congr {α β ε : Type} {g g' : α → Except ε (List β)} {l : List α}
    (h : ∀ a ∈ l, g a = g' a) : collect g l = collect g' l := by
  induction l with
  | nil => rfl
  | cons a l ih =>
    unfold collect
    rw [h a (List.mem_cons_self ..), ih (fun a' ha' => h a' (List.mem_cons_of_mem _ ha'))]

/-! ## B. the similarity relations -/

/-- the same rule up to the order of its peers and of its ports -/
def RuleSim (r r' : NPRule) : Prop := r.peers.Perm r'.peers ∧ r.ports.Perm r'.ports

instance (r r' : NPRule) : Decidable (RuleSim r r') := by unfold RuleSim; infer_instance

/-- `l'` is a permutation of `l` whose rules are permuted inside -/
def RulesSim (l l' : List NPRule) : Prop := ∃ m, l.Perm m ∧ Forall₂ RuleSim m l'

/-- the same NetworkPolicy up to the order of `policyTypes`, of the rules, and of the peers and
ports inside the rules -/
structure NpSim (p p' : NetPol) : Prop where
  ns : p.ns = p'.ns
  name : p.name = p'.name
  podSel : p.podSel = p'.podSel
  types : p.types.Perm p'.types
  ingress : RulesSim p.ingress p'.ingress
  egress : RulesSim p.egress p'.egress

/-- the same object; NetworkPolicies may differ in their inner order -/
inductive ObjSim : Obj → Obj → Prop
  | np {p p' : NetPol} (h : NpSim p p') : ObjSim (.np p) (.np p')
  | refl (o : Obj) : ObjSim o o

theorem RuleSim.refl (r : NPRule) : RuleSim r r := ⟨.refl _, .refl _⟩

theorem RuleSim.symm {r r' : NPRule} (h : RuleSim r r') : RuleSim r' r := ⟨h.1.symm, h.2.symm⟩

theorem RulesSim.refl (l : List NPRule) : RulesSim l l := ⟨l, .refl _, Forall₂.refl RuleSim.refl l⟩

theorem NpSim.refl (p : NetPol) : NpSim p p :=
  ⟨rfl, rfl, rfl, .refl _, RulesSim.refl _, RulesSim.refl _⟩

theorem RulesSim.fwd {l l' : List NPRule} (h : RulesSim l l') {r : NPRule} (hr : r ∈ l) :
    ∃ r' ∈ l', RuleSim r r' := by
  obtain ⟨m, hp, hf⟩ := h
  exact hf.mem_left (hp.mem_iff.mp hr)

theorem RulesSim.bwd {l l' : List NPRule} (h : RulesSim l l') {r' : NPRule} (hr : r' ∈ l') :
    ∃ r ∈ l, RuleSim r r' := by
  obtain ⟨m, hp, hf⟩ := h
  obtain ⟨r, hm, hs⟩ := hf.mem_right hr
  exact ⟨r, hp.mem_iff.mpr hm, hs⟩

theorem RulesSim.isEmpty_eq {l l' : List NPRule} (h : RulesSim l l') : l.isEmpty = l'.isEmpty := by
  obtain ⟨m, hp, hf⟩ := h
  rw [hp.isEmpty_eq, hf.isEmpty_eq]

/-- an existential over the rules transfers along the similarity -/
theorem RulesSim.exists_iff {l l' : List NPRule} (h : RulesSim l l') {A A' : NPRule → Prop}
    (hA : ∀ r r', RuleSim r r' → (A r ↔ A' r')) : (∃ r ∈ l, A r) ↔ ∃ r' ∈ l', A' r' := by
  constructor
  · rintro ⟨r, hr, ha⟩
    obtain ⟨r', hr', hs⟩ := h.fwd hr
    exact ⟨r', hr', (hA r r' hs).mp ha⟩
  · rintro ⟨r', hr', ha⟩
    obtain ⟨r, hr, hs⟩ := h.bwd hr'
    exact ⟨r, hr, (hA r r' hs).mpr ha⟩

/-- a sound check of `RulesSim`: match every rule of `l'` with the first similar rule still
unmatched in `l` (`RuleSim` is an equivalence, so the greedy choice loses nothing) -/
def rulesSimB : List NPRule → List NPRule → Bool
  | l, [] => l.isEmpty
  | l, r' :: rest' =>
    match l.find? (fun r => decide (RuleSim r r')) with
    | none => false
    | some r => rulesSimB (l.erase r) rest'

theorem rulesSim_of_check {l l' : List NPRule} (h : rulesSimB l l' = true) : RulesSim l l' := by
  induction l' generalizing l with
  | nil =>
    have : l = [] := by simpa [rulesSimB] using h
    subst this
    exact RulesSim.refl []
  | cons r' rest' ih =>
    unfold rulesSimB at h
    cases hf : l.find? (fun r => decide (RuleSim r r')) with
    | none => rw [hf] at h; cases h
    | some r =>
      rw [hf] at h
      obtain ⟨m, hp, hm⟩ := ih h
      have hr : r ∈ l := List.mem_of_find?_eq_some hf
      have hs : RuleSim r r' := by simpa using List.find?_some hf
      exact ⟨r :: m, (List.perm_cons_erase hr).trans (hp.cons r), .cons hs hm⟩

theorem RuleSim.trans {a b c : NPRule} (h1 : RuleSim a b) (h2 : RuleSim b c) : RuleSim a c :=
  ⟨h1.1.trans h2.1, h1.2.trans h2.2⟩

/-- in a matched list a rule may be replaced by a similar one -/
theorem rulesSim_replace {m l' : List NPRule} (hf : Forall₂ RuleSim m l') {r a : NPRule}
    (hr : r ∈ m) (ha : RuleSim a r) : RulesSim (a :: m.erase r) l' := by
  induction hf with
  | nil => cases hr
  | @cons x y xs ys hxy hrest ih =>
    by_cases hx : x = r
    · subst hx
      rw [List.erase_cons_head]
      exact ⟨a :: xs, .refl _, .cons (ha.trans hxy) hrest⟩
    · have hr' : r ∈ xs := by
        rcases List.mem_cons.mp hr with h | h
        · exact absurd h.symm hx
        · exact h
      rw [List.erase_cons_tail (by simpa using hx)]
      obtain ⟨m2, hp, hm2⟩ := ih hr'
      exact ⟨x :: m2, (List.Perm.swap x a _).trans (hp.cons x), .cons hxy hm2⟩

/-- the check is complete -/
theorem check_of_rulesSim {l l' : List NPRule} (h : RulesSim l l') : rulesSimB l l' = true := by
  induction l' generalizing l with
  | nil =>
    obtain ⟨m, hp, hf⟩ := h
    cases hf
    have : l = [] := List.perm_nil.mp hp
    subst this
    rfl
  | cons r' rest' ih =>
    obtain ⟨m, hp, hf⟩ := h
    cases hf with
    | @cons a _ m' _ har hrest =>
      have ha : a ∈ l := hp.mem_iff.mpr (List.mem_cons_self ..)
      unfold rulesSimB
      cases hfind : l.find? (fun r => decide (RuleSim r r')) with
      | none =>
        have := List.find?_eq_none.mp hfind a ha
        simp [har] at this
      | some r =>
        simp only
        apply ih
        have hr : r ∈ l := List.mem_of_find?_eq_some hfind
        have hs : RuleSim r r' := by simpa using List.find?_some hfind
        have hpe : (l.erase r).Perm ((a :: m').erase r) := hp.erase r
        by_cases hra : a = r
        · subst hra
          rw [List.erase_cons_head] at hpe
          exact ⟨m', hpe, hrest⟩
        · rw [List.erase_cons_tail (by simpa using hra)] at hpe
          have hrm : r ∈ m' := by
            rcases List.mem_cons.mp (hp.mem_iff.mp hr) with h | h
            · exact absurd h.symm hra
            · exact h
          obtain ⟨m2, hp2, hm2⟩ := rulesSim_replace hrest hrm (har.trans hs.symm)
          exact ⟨m2, hpe.trans hp2, hm2⟩

instance (l l' : List NPRule) : Decidable (RulesSim l l') :=
  decidable_of_iff (rulesSimB l l' = true) ⟨rulesSim_of_check, check_of_rulesSim⟩

instance (p p' : NetPol) : Decidable (NpSim p p') :=
  decidable_of_iff (p.ns = p'.ns ∧ p.name = p'.name ∧ p.podSel = p'.podSel ∧
      p.types.Perm p'.types ∧ RulesSim p.ingress p'.ingress ∧ RulesSim p.egress p'.egress)
    ⟨fun ⟨a, b, c, d, e, f⟩ => ⟨a, b, c, d, e, f⟩, fun ⟨a, b, c, d, e, f⟩ => ⟨a, b, c, d, e, f⟩⟩

/-- equality of objects (`Obj` derives no `DecidableEq`) -/
def objEqB : Obj → Obj → Bool
  | .ns a, .ns b => decide (a = b)
  | .wl a, .wl b => decide (a = b)
  | .pod a, .pod b => decide (a = b)
  | .np a, .np b => decide (a = b)
  | .anp a, .anp b => decide (a = b)
  | .banp a, .banp b => decide (a = b)
  | .svc a, .svc b => decide (a = b)
  | .ing a, .ing b => decide (a = b)
  | .route a, .route b => decide (a = b)
  | _, _ => false

theorem objEqB_iff (o o' : Obj) : objEqB o o' = true ↔ o = o' := by
  cases o <;> cases o' <;> simp [objEqB]

/-- the Boolean form of `ObjSim` -/
def objSimB : Obj → Obj → Bool
  | .np p, .np p' => decide (NpSim p p')
  | o, o' => objEqB o o'

theorem objSimB_iff (o o' : Obj) : objSimB o o' = true ↔ ObjSim o o' := by
  constructor
  · intro h
    cases o <;> cases o' <;>
      first
      | (simp only [objSimB, decide_eq_true_eq] at h; exact .np h)
      | (simp only [objSimB] at h; rw [(objEqB_iff _ _).mp h]; exact .refl _)
  · intro h
    cases h with
    | np h => simp only [objSimB, decide_eq_true_eq]; exact h
    | refl o =>
      cases o <;>
        first
        | (simp only [objSimB, decide_eq_true_eq]; exact NpSim.refl _)
        | (simp only [objSimB]; exact (objEqB_iff _ _).mpr rfl)

instance (o o' : Obj) : Decidable (ObjSim o o') := decidable_of_iff _ (objSimB_iff o o')

instance Forall₂.decide {α β : Type} {R : α → β → Prop} [∀ a b, Decidable (R a b)] :
    ∀ (l : List α) (l' : List β), Decidable (Forall₂ R l l')
  | [], [] => isTrue .nil
  | [], _ :: _ => isFalse (fun h => by cases h)
  | _ :: _, [] => isFalse (fun h => by cases h)
  | a :: l, b :: l' =>
    have := Forall₂.decide (R := R) l l'
    decidable_of_iff (R a b ∧ Forall₂ R l l')
      ⟨fun ⟨h1, h2⟩ => .cons h1 h2, fun h => by cases h with | cons h1 h2 => exact ⟨h1, h2⟩⟩

/-! ## C. the NetworkPolicy layer -/

/-- the rule selects the peer (the order-free form of `ruleSelectsPeer`, see
`PermLayer.ruleSelectsPeer_any`) -/
def selB (np : NetPol) (k : KPeer) (r : NPRule) : Bool :=
  r.peers.isEmpty || r.peers.any (peerSel np k)

/-- some port clause of the rule matches (protocol, port) on the destination -/
def portsB (r : NPRule) (dst : KPeer) (pr : Proto) (x : Int) : Bool :=
  r.ports.isEmpty || r.ports.any (Spec.npPortMatches · (dst.toEnd 0) pr x)

/-- the test of a rule peer reads the policy only through its namespace -/
theorem peerSel_ns {np np' : NetPol} (h : np.ns = np'.ns) (k : KPeer) (rp : NPPeer) :
    peerSel np k rp = peerSel np' k rp := by
  cases rp with
  | ip c ex => cases k <;> rfl
  | sel podSel nsSel =>
    cases k with
    | ip r => rfl
    | pod p nso =>
      cases nsSel with
      | some s => rfl
      | none => simp only [peerSel, NetPol.nsMatchNil, h]

theorem selB_sim {np np' : NetPol} (h : np.ns = np'.ns) (k : KPeer) {r r' : NPRule}
    (hs : RuleSim r r') : selB np k r = selB np' k r' := by
  unfold selB
  rw [hs.1.isEmpty_eq, hs.1.any_eq]
  congr 2
  funext rp
  exact peerSel_ns h k rp

theorem portsB_sim {r r' : NPRule} (hs : RuleSim r r') (dst : KPeer) (pr : Proto) (x : Int) :
    portsB r dst pr x = portsB r' dst pr x := by
  unfold portsB
  rw [hs.2.isEmpty_eq, hs.2.any_eq]

theorem RuleSim.valid {r r' : NPRule} (hs : RuleSim r r') (h : r.Valid) : r'.Valid :=
  ⟨fun q hq => h.1 q (hs.2.mem_iff.mpr hq), fun rp hrp => h.2 rp (hs.1.mem_iff.mpr hrp)⟩

theorem RulesSim.valid {l l' : List NPRule} (hs : RulesSim l l') (h : ∀ r ∈ l, r.Valid) :
    ∀ r' ∈ l', r'.Valid := by
  intro r' hr'
  obtain ⟨r, hr, hrr⟩ := hs.bwd hr'
  exact hrr.valid (h r hr)

open NetPol.allowedConns in
/-- the loop of `allowedConns` for an arbitrary peer `other`: whenever it returns a set, the set —
canonical, without named or excluded ports — denotes the accumulated set and the in-range ports of
the rules that select `other`. -/
theorem allowedConns_go_den (np : NetPol) (other dst : KPeer) (hd : dst.DstOK)
    (rules : List NPRule) (hv : ∀ r ∈ rules, r.Valid)
    (res : ConnSet) (hcan : res.Canonical) (hpl : Plain res) :
    ∀ c, go np other dst res rules = .ok c → c.Canonical ∧ Plain c ∧
      ∀ pr x, c.den pr x ↔ res.den pr x ∨ (inRange x ∧
        ∃ r ∈ rules, selB np other r = true ∧ portsB r dst pr x = true) := by
  induction rules generalizing res with
  | nil =>
    intro c h
    rw [NetPol.allowedConns.go_nil] at h
    cases h
    refine ⟨hcan, hpl, fun pr x => ?_⟩
    simp
  | cons r rest ih =>
    have hres : res.WF := hcan.1
    have hr := hv r (List.mem_cons_self ..)
    have hv' : ∀ r' ∈ rest, r'.Valid := fun r' h => hv r' (List.mem_cons_of_mem _ h)
    rw [NetPol.allowedConns.go_cons, ruleSelectsPeer_any np other r.peers hr.2]
    show ∀ c, (if (!selB np other r) = true then _ else _) = _ → _
    cases hS : selB np other r
    · -- the rule does not select the other end
      simp only [Bool.not_false, if_true]
      intro c hc
      obtain ⟨h1, h2, hden⟩ := ih hv' res hcan hpl c hc
      refine ⟨h1, h2, fun pr x => ?_⟩
      rw [hden]
      simp only [List.mem_cons, exists_eq_or_imp, hS, Bool.false_eq_true, false_and, false_or]
    · simp only [Bool.not_true, Bool.false_eq_true, if_false]
      cases hrc : NetPol.ruleConnections r.ports (some dst) with
      | error err => intro c h; cases h
      | ok rc =>
        obtain ⟨hw, _, hden⟩ := NetPol.ruleConnections_dst_ok r.ports dst 0 hd hr.1 rc hrc
        have hcan' : (res.union rc).Canonical := ConnSet.canonical_union_wfe hcan hw
        have hpl' : Plain (res.union rc) :=
          plain_union hpl (ruleConnections_plain hd.real r.ports hrc)
        have hw' : (res.union rc).WF := hcan'.1
        have hden' := fun pr x => ConnSet.den_union_wfe hres hw pr x
        have hrule : ∀ pr x, rc.den pr x ↔ (inRange x ∧ portsB r dst pr x = true) := hden
        -- carry on with the union (every rule is examined)
        show ∀ c, go np other dst (res.union rc) rest = _ → _
        intro c hc
        obtain ⟨h1, h2, hcden⟩ := ih hv' (res.union rc) hcan' hpl' c hc
        refine ⟨h1, h2, fun pr x => ?_⟩
        rw [hcden, hden', hrule]
        simp only [List.mem_cons, exists_eq_or_imp, hS, true_and]
        constructor
        · rintro ((h | ⟨h1, h2⟩) | ⟨h1, h2⟩)
          · exact Or.inl h
          · exact Or.inr ⟨h1, Or.inl h2⟩
          · exact Or.inr ⟨h1, Or.inr h2⟩
        · rintro (h | ⟨h1, h2 | h2⟩)
          · exact Or.inl (Or.inl h)
          · exact Or.inl (Or.inr ⟨h1, h2⟩)
          · exact Or.inr ⟨h1, h2⟩

open NetPol.allowedConns in
/-- the loop succeeds when every rule that selects `other` has an error-free `ruleConnections` -/
theorem allowedConns_go_ok (np : NetPol) (other dst : KPeer) (rules : List NPRule)
    (hv : ∀ r ∈ rules, r.Valid)
    (hok : ∀ r ∈ rules, selB np other r = true →
      ∃ rc, NetPol.ruleConnections r.ports (some dst) = .ok rc) (res : ConnSet) :
    ∃ c, go np other dst res rules = .ok c := by
  induction rules generalizing res with
  | nil => exact ⟨res, rfl⟩
  | cons r rest ih =>
    have hr := hv r (List.mem_cons_self ..)
    have ih' := ih (fun r' h => hv r' (List.mem_cons_of_mem _ h))
      (fun r' h => hok r' (List.mem_cons_of_mem _ h))
    rw [NetPol.allowedConns.go_cons, ruleSelectsPeer_any np other r.peers hr.2]
    show ∃ c, (if (!selB np other r) = true then _ else _) = _
    cases hS : selB np other r
    · simp only [Bool.not_false, if_true]
      exact ih' res
    · simp only [Bool.not_true, Bool.false_eq_true, if_false]
      obtain ⟨rc, hrc⟩ := hok r (List.mem_cons_self ..) hS
      rw [hrc]
      exact ih' _

open NetPol.allowedConns in
/-- … and only then: every rule is examined, so a rule that selects `other` and fails to evaluate
fails the loop, wherever it stands -/
theorem allowedConns_go_ok_inv (np : NetPol) (other dst : KPeer) (rules : List NPRule)
    (hv : ∀ r ∈ rules, r.Valid) (res : ConnSet) {c : ConnSet}
    (h : go np other dst res rules = .ok c) :
    ∀ r ∈ rules, selB np other r = true →
      ∃ rc, NetPol.ruleConnections r.ports (some dst) = .ok rc := by
  induction rules generalizing res with
  | nil => intro r hr; cases hr
  | cons r rest ih =>
    have hr := hv r (List.mem_cons_self ..)
    have hv' : ∀ r' ∈ rest, r'.Valid := fun r' h => hv r' (List.mem_cons_of_mem _ h)
    rw [NetPol.allowedConns.go_cons, ruleSelectsPeer_any np other r.peers hr.2] at h
    change (if (!selB np other r) = true then _ else _) = _ at h
    cases hS : selB np other r
    · rw [hS] at h
      simp only [Bool.not_false, if_true] at h
      intro r' hr' hsel
      rcases List.mem_cons.mp hr' with rfl | hm
      · rw [hS] at hsel; cases hsel
      · exact ih hv' res h r' hm hsel
    · rw [hS] at h
      simp only [Bool.not_true, Bool.false_eq_true, if_false] at h
      cases hrc : NetPol.ruleConnections r.ports (some dst) with
      | error err => rw [hrc] at h; cases h
      | ok rc =>
        rw [hrc] at h
        intro r' hr' hsel
        rcases List.mem_cons.mp hr' with rfl | hm
        · exact ⟨rc, hrc⟩
        · exact ih hv' _ h r' hm hsel

/-- whether a rule evaluates towards `dst` does not depend on the order of its ports: towards a
pod it always does, towards an IP block iff no port is named -/
theorem rc_ok_sim {r r' : NPRule} (hs : RuleSim r r') (hv : r.Valid) (dst : KPeer) (hd : dst.DstOK)
    (h : ∃ rc, NetPol.ruleConnections r.ports (some dst) = .ok rc) :
    ∃ rc, NetPol.ruleConnections r'.ports (some dst) = .ok rc := by
  cases dst with
  | pod p nso =>
    obtain ⟨c, hc, _⟩ := NetPol.ruleConnections_pod r'.ports p nso hd.1 (hs.valid hv).1 hd.2
    exact ⟨c, hc⟩
  | ip r0 =>
    cases hrc : NetPol.ruleConnections r'.ports (some (.ip r0)) with
    | ok rc => exact ⟨rc, rfl⟩
    | error err =>
      obtain ⟨q, hq, hqn⟩ := (NetPol.ruleConnections_ip_err_iff r'.ports r0).mp ⟨err, hrc⟩
      obtain ⟨err', herr'⟩ := (NetPol.ruleConnections_ip_err_iff r.ports r0).mpr
        ⟨q, hs.2.mem_iff.mpr hq, hqn⟩
      obtain ⟨rc, hrc'⟩ := h
      rw [hrc'] at herr'; cases herr'

/-- two results of `allowedConns` on similar rule lists are equal -/
theorem allowedConns_eq_of_ok {np np' : NetPol} (hns : np.ns = np'.ns) {rules rules' : List NPRule}
    (hs : RulesSim rules rules') (other dst : KPeer) (hd : dst.DstOK)
    (hv : ∀ r ∈ rules, r.Valid) {c c' : ConnSet} (hc : np.allowedConns rules other dst = .ok c)
    (hc' : np'.allowedConns rules' other dst = .ok c') : c = c' := by
  obtain ⟨c1, c2, cden⟩ := allowedConns_go_den np other dst hd rules hv _
    (ConnSet.canonical_mk false) (plain_mk false) c hc
  obtain ⟨c1', c2', cden'⟩ := allowedConns_go_den np' other dst hd rules' (hs.valid hv) _
    (ConnSet.canonical_mk false) (plain_mk false) c' hc'
  apply eq_of_den_plain c1 c1' c2 c2'
  intro pr x
  rw [cden, cden']
  have := hs.exists_iff (A := fun r => selB np other r = true ∧ portsB r dst pr x = true)
    (A' := fun r => selB np' other r = true ∧ portsB r dst pr x = true)
    (fun r r' hrr => by rw [selB_sim hns other hrr, portsB_sim hrr])
  rw [this]

/-- **rule order, peer order, port order**: `allowedConns` on two similar rule lists (of two
policies of one namespace) returns the same connection set or the same error. Every rule is
examined, so the call fails iff some rule that selects the peer fails to evaluate — whatever the
order. -/
theorem allowedConns_sim {np np' : NetPol} (hns : np.ns = np'.ns) {rules rules' : List NPRule}
    (hs : RulesSim rules rules') (other dst : KPeer) (hd : dst.DstOK)
    (hv : ∀ r ∈ rules, r.Valid) :
    np.allowedConns rules other dst = np'.allowedConns rules' other dst := by
  have hv' := hs.valid hv
  have e1 := (allowedConns_go_struct np other dst hd rules hv _ (ConnSet.canonical_mk false)
    (plain_mk false)).2
  have e2 := (allowedConns_go_struct np' other dst hd rules' hv' _
    (ConnSet.canonical_mk false) (plain_mk false)).2
  cases hc : np.allowedConns rules other dst with
  | error err =>
    cases hc' : np'.allowedConns rules' other dst with
    | error err' => rw [e1 err hc, e2 err' hc']
    | ok c' =>
      -- the primed loop evaluates every selecting rule, hence so does the other one
      have hall := allowedConns_go_ok_inv np' other dst rules' hv' _ hc'
      obtain ⟨c, hcc⟩ : ∃ c, np.allowedConns rules other dst = .ok c := by
        apply allowedConns_go_ok np other dst rules hv
        intro r hr hsel
        obtain ⟨r', hr', hrr⟩ := hs.fwd hr
        exact rc_ok_sim hrr.symm (hv' r' hr') dst hd
          (hall r' hr' (by rw [← selB_sim hns other hrr]; exact hsel))
      rw [hcc] at hc; cases hc
  | ok c =>
    cases hc' : np'.allowedConns rules' other dst with
    | error err' =>
      have hall := allowedConns_go_ok_inv np other dst rules hv _ hc
      obtain ⟨c', hcc⟩ : ∃ c, np'.allowedConns rules' other dst = .ok c := by
        apply allowedConns_go_ok np' other dst rules' hv'
        intro r' hr' hsel
        obtain ⟨r, hr, hrr⟩ := hs.bwd hr'
        exact rc_ok_sim hrr (hv r hr) dst hd
          (hall r hr (by rw [selB_sim hns other hrr]; exact hsel))
      rw [hcc] at hc'; cases hc'
    | ok c' => rw [allowedConns_eq_of_ok hns hs other dst hd hv hc hc']

/-- the NetworkPolicy is accepted by the API server: its rules are valid. (Before
`allowedConns` examined every rule, a third clause excluded named ports in egress rules that can
select an IP block, whose failure could be masked by the rule order.) -/
structure NpGood (np : NetPol) : Prop where
  ingress : ∀ r ∈ np.ingress, r.Valid
  egress : ∀ r ∈ np.egress, r.Valid

instance (np : NetPol) : Decidable (NpGood np) :=
  decidable_of_iff ((∀ r ∈ np.ingress, r.Valid) ∧ (∀ r ∈ np.egress, r.Valid))
    ⟨fun ⟨a, b⟩ => ⟨a, b⟩, fun ⟨a, b⟩ => ⟨a, b⟩⟩

theorem NpGood.sim {p p' : NetPol} (hs : NpSim p p') (h : NpGood p) : NpGood p' :=
  ⟨hs.ingress.valid h.ingress, hs.egress.valid h.egress⟩

/-- **one policy, one pair**: two similar policies contribute the same connection set or the same
error -/
theorem npStep_sim {np np' : NetPol} (hs : NpSim np np') (hg : NpGood np) (src dst : KPeer)
    (hd : dst.DstOK) (isIngress : Bool) :
    npStep src dst isIngress np = npStep src dst isIngress np' := by
  cases isIngress with
  | false => exact allowedConns_sim hs.ns hs.egress dst dst hd hg.egress
  | true => exact allowedConns_sim hs.ns hs.ingress src dst hd hg.ingress

/-! `selects`, `referencedIPBlocks` -/

theorem affects_sim {np np' : NetPol} (hs : NpSim np np') (d : Dir) : np.affects d = np'.affects d := by
  unfold NetPol.affects
  rw [hs.types.isEmpty_eq, hs.types.contains_eq, hs.egress.isEmpty_eq]

theorem selects_sim {np np' : NetPol} (hs : NpSim np np') (p : Pod) (d : Dir) :
    np.selects p d = np'.selects p d := by
  unfold NetPol.selects
  rw [hs.ns, affects_sim hs, hs.podSel]

/-- the blocks of the `ipBlock` peers of one rule -/
def ruleBlocks (r : NPRule) : List Iv :=
  r.peers.flatMap fun p => match p with
    | .ip c ex => NetPol.ipBlockSet c ex
    | _ => []

theorem rulesBlocks_perm {l l' : List NPRule} (hs : RulesSim l l') :
    (l.flatMap ruleBlocks).Perm (l'.flatMap ruleBlocks) := by
  obtain ⟨m, hp, hf⟩ := hs
  exact (hp.flatMap_right _).trans (hf.flatMap_perm fun r r' hrr => hrr.1.flatMap_right _)

theorem referencedIPBlocks_sim {np np' : NetPol} (hs : NpSim np np') :
    np.referencedIPBlocks.Perm np'.referencedIPBlocks := by
  show ((np.ingress ++ np.egress).flatMap ruleBlocks).Perm
    ((np'.ingress ++ np'.egress).flatMap ruleBlocks)
  rw [List.flatMap_append, List.flatMap_append]
  exact (rulesBlocks_perm hs.ingress).append (rulesBlocks_perm hs.egress)

/-! ## D. engines that differ in the inner order of their NetworkPolicies -/

/-- two engines hold the same objects in the same order; their NetworkPolicies agree position by
position up to the inner order -/
structure EngSim (e e' : Engine) : Prop where
  namespaces : e.namespaces = e'.namespaces
  pods : e.pods = e'.pods
  netpols : Forall₂ NpSim e.netpols e'.netpols
  anps : e.anps = e'.anps
  anpNames : e.anpNames = e'.anpNames
  banp : e.banp = e'.banp
  exposure : e.exposure = e'.exposure

theorem EngSim.refl (e : Engine) : EngSim e e :=
  ⟨rfl, rfl, Forall₂.refl NpSim.refl _, rfl, rfl, rfl, rfl⟩

/-- two runs agree: the same error, or similar engines -/
def ExSim : Except Err Engine → Except Err Engine → Prop
  | .ok a, .ok b => EngSim a b
  | .error x, .error y => x = y
  | _, _ => False

theorem normNp_sim {p p' : NetPol} (h : NpSim p p') : NpSim (normNp p) (normNp p') := by
  unfold normNp
  rw [← h.ns]
  split
  · exact ⟨rfl, h.name, h.podSel, h.types, h.ingress, h.egress⟩
  · exact h

theorem insertNetpol_eq (e : Engine) (p : NetPol) :
    e.insertNetpol p =
      if e.netpols.any (fun q => q.ns == (normNp p).ns && q.name == (normNp p).name) then
        .error .dupNetpol
      else .ok { e with netpols := e.netpols ++ [normNp p] } := rfl

theorem insertNetpol_sim {e e' : Engine} (h : EngSim e e') {p p' : NetPol} (hp : NpSim p p') :
    ExSim (e.insertNetpol p) (e'.insertNetpol p') := by
  have hn := normNp_sim hp
  rw [insertNetpol_eq, insertNetpol_eq, ← hn.ns, ← hn.name]
  have hany : e.netpols.any (fun q => q.ns == (normNp p).ns && q.name == (normNp p).name) =
      e'.netpols.any (fun q => q.ns == (normNp p).ns && q.name == (normNp p).name) :=
    h.netpols.any_eq fun a b hab => by rw [hab.ns, hab.name]
  rw [← hany]
  split
  · exact rfl
  · exact ⟨h.namespaces, h.pods, h.netpols.append (.cons hn .nil), h.anps, h.anpNames, h.banp,
      h.exposure⟩

theorem insertPodObj_sim {e e' : Engine} (h : EngSim e e') (p : Pod) :
    EngSim (e.insertPodObj p) (e'.insertPodObj p) :=
  ⟨h.namespaces, by show upsert podKey p e.pods = upsert podKey p e'.pods; rw [h.pods],
    h.netpols, h.anps, h.anpNames, h.banp, h.exposure⟩

theorem insertPods_sim (l : List Pod) {e e' : Engine} (h : EngSim e e') :
    EngSim (l.foldl insertPodObj e) (l.foldl insertPodObj e') := by
  induction l generalizing e e' with
  | nil => exact h
  | cons p l ih => exact ih (insertPodObj_sim h p)

theorem insertObject_sim {e e' : Engine} (h : EngSim e e') {o o' : Obj} (ho : ObjSim o o') :
    ExSim (e.insertObject o) (e'.insertObject o') := by
  cases ho with
  | np hp => exact insertNetpol_sim h hp
  | refl o =>
    cases o with
    | np p => exact insertNetpol_sim h (NpSim.refl p)
    | ns n =>
      exact ⟨by show upsert _ _ e.namespaces = upsert _ _ e'.namespaces; rw [h.namespaces],
        h.pods, h.netpols, h.anps, h.anpNames, h.banp, h.exposure⟩
    | wl w => exact insertPods_sim _ h
    | pod p =>
      simp only [insertObject]
      split
      · exact rfl
      · exact insertPodObj_sim h p
    | anp a =>
      simp only [insertObject, insertANP, ← h.exposure, ← h.anpNames, ← h.anps]
      split
      · exact rfl
      split
      · exact rfl
      split
      · exact rfl
      split
      · exact rfl
      exact ⟨h.namespaces, h.pods, h.netpols, rfl, rfl, h.banp, rfl⟩
    | banp b =>
      simp only [insertObject, insertBANP, ← h.exposure, ← h.banp]
      split
      · exact rfl
      split
      · exact rfl
      split
      · exact rfl
      exact ⟨h.namespaces, h.pods, h.netpols, h.anps, h.anpNames, rfl, rfl⟩
    | svc _ => exact h
    | ing _ => exact h
    | route _ => exact h

theorem fold_sim {objs objs' : List Obj} (ho : Forall₂ ObjSim objs objs') {e e' : Engine}
    (h : EngSim e e') : ExSim (objs.foldlM insertObject e) (objs'.foldlM insertObject e') := by
  induction ho generalizing e e' with
  | nil => exact h
  | @cons o o' l l' hoo _ ih =>
    rw [List.foldlM_cons, List.foldlM_cons]
    have := insertObject_sim h hoo
    cases h1 : e.insertObject o with
    | error err =>
      cases h2 : e'.insertObject o' with
      | error err' => rw [h1, h2] at this; exact this
      | ok e2 => rw [h1, h2] at this; exact absurd this id
    | ok e1 =>
      cases h2 : e'.insertObject o' with
      | error err' => rw [h1, h2] at this; exact absurd this id
      | ok e2 => rw [h1, h2] at this; exact ih this

theorem sortANPs_sim {e e' : Engine} (h : EngSim e e') : ExSim e.sortANPs e'.sortANPs := by
  unfold sortANPs
  simp only [← h.anps]
  split
  · exact rfl
  split
  · exact rfl
  exact ⟨h.namespaces, h.pods, h.netpols, rfl, h.anpNames, h.banp, h.exposure⟩

theorem resolve_sim {e e' : Engine} (h : EngSim e e') :
    EngSim e.resolveMissingNamespaces e'.resolveMissingNamespaces := by
  rw [resolve_eq, resolve_eq]
  exact ⟨by show List.foldl addMissing e.namespaces _ = List.foldl addMissing e'.namespaces _
            rw [h.namespaces, h.pods],
    h.pods, h.netpols, h.anps, h.anpNames, h.banp, h.exposure⟩

/-- **the engine**: `build` on similar inputs fails with the same error or returns similar
engines -/
theorem build_sim {objs objs' : List Obj} (ho : Forall₂ ObjSim objs objs') :
    ExSim (Engine.build objs) (Engine.build objs') := by
  rw [build_eq, build_eq]
  have h1 := fold_sim ho (EngSim.refl {})
  cases hf : objs.foldlM insertObject ({} : Engine) with
  | error err =>
    cases hf' : objs'.foldlM insertObject ({} : Engine) with
    | error err' => rw [hf, hf'] at h1; exact h1
    | ok e2 => rw [hf, hf'] at h1; exact absurd h1 id
  | ok e1 =>
    cases hf' : objs'.foldlM insertObject ({} : Engine) with
    | error err' => rw [hf, hf'] at h1; exact absurd h1 id
    | ok e2 =>
      rw [hf, hf'] at h1
      have h2 := sortANPs_sim h1
      simp only
      cases hs : e1.sortANPs with
      | error err =>
        cases hs' : e2.sortANPs with
        | error err' => rw [hs, hs'] at h2; exact h2
        | ok e4 => rw [hs, hs'] at h2; exact absurd h2 id
      | ok e3 =>
        cases hs' : e2.sortANPs with
        | error err' => rw [hs, hs'] at h2; exact absurd h2 id
        | ok e4 => rw [hs, hs'] at h2; exact resolve_sim h2

/-! ### `peerConns` on similar engines -/

/-- sorting by name two lists of policies that agree position by position (same names) -/
theorem forall₂_insertByName {R : NetPol → NetPol → Prop} (hn : ∀ a b, R a b → a.name = b.name)
    {p p' : NetPol} (hp : R p p') {l l' : List NetPol} (h : Forall₂ R l l') :
    Forall₂ R (insertByName p l) (insertByName p' l') := by
  induction h with
  | nil => exact .cons hp .nil
  | @cons a b l l' hab hl ih =>
    unfold insertByName
    rw [← hn p p' hp, ← hn a b hab]
    split
    · exact .cons hp (.cons hab hl)
    · exact .cons hab ih

theorem forall₂_sortByName {R : NetPol → NetPol → Prop} (hn : ∀ a b, R a b → a.name = b.name)
    {l l' : List NetPol} (h : Forall₂ R l l') : Forall₂ R (sortByName l) (sortByName l') := by
  induction h with
  | nil => exact .nil
  | cons hab _ ih => exact forall₂_insertByName hn hab ih

/-- the policies selecting a peer agree position by position -/
theorem policiesSelecting_sim {e e' : Engine} (h : EngSim e e') {P : NetPol → Prop}
    (hg : ∀ np ∈ e.netpols, P np) (k : KPeer) (d : Dir) :
    Forall₂ (fun a b => NpSim a b ∧ P a) (e.policiesSelecting k d)
      (e'.policiesSelecting k d) := by
  cases k with
  | ip r => exact .nil
  | pod p nso =>
    rw [policiesSelecting_pod, policiesSelecting_pod]
    exact forall₂_sortByName (fun a b hab => hab.1.name)
      ((h.netpols.and_left hg).filter fun a b hab => selects_sim hab.1 p d)

/-- **the NetworkPolicy layer** -/
theorem netpolConns_sim {e e' : Engine} (h : EngSim e e') (hg : ∀ np ∈ e.netpols, NpGood np)
    (src dst : KPeer) (hd : dst.DstOK) (isIngress : Bool) :
    e.netpolConns src dst isIngress = e'.netpolConns src dst isIngress := by
  rw [netpolConns_eq, netpolConns_eq]
  have hpol := policiesSelecting_sim h hg (selfPeer src dst isIngress) (dirOf isIngress)
  rw [hpol.isEmpty_eq]
  split
  · rfl
  · rw [hpol.foldlM_eq (f := npFold src dst isIngress) (g := npFold src dst isIngress)]
    intro a b hab acc
    unfold npFold
    rw [npStep_sim hab.1 hab.2 src dst hd isIngress]

theorem xgressConns_sim {e e' : Engine} (h : EngSim e e') (hg : ∀ np ∈ e.netpols, NpGood np)
    (src dst : KPeer) (hd : dst.DstOK) (i : Bool) :
    e.xgressConns src dst i = e'.xgressConns src dst i := by
  unfold xgressConns
  rw [anpConns_equiv h.anps, defaultConns_equiv h.banp, netpolConns_sim h hg src dst hd]

/-- **one pair**: similar engines compute the same connection set (or the same error) for every
source and every admissible destination -/
theorem peerConns_sim {e e' : Engine} (h : EngSim e e') (hg : ∀ np ∈ e.netpols, NpGood np)
    (src dst : KPeer) (hd : dst.DstOK) : e.peerConns src dst = e'.peerConns src dst := by
  unfold peerConns
  rw [xgressConns_sim h hg src dst hd false, xgressConns_sim h hg src dst hd true]

/-! ### the peers list and the loop -/

theorem disjointIPBlocks_sim {e e' : Engine} (h : EngSim e e') :
    e.disjointIPBlocks = e'.disjointIPBlocks := by
  unfold disjointIPBlocks
  exact partition_perm
    ((h.netpols.flatMap_perm fun a b hab => referencedIPBlocks_sim hab).append_right _)

theorem podOwnersMap_sim {e e' : Engine} (h : EngSim e e') : e.podOwnersMap = e'.podOwnersMap := by
  unfold podOwnersMap sortedPods
  rw [h.pods]

/-- **the peers list** is literally the same -/
theorem peersList_sim {e e' : Engine} (h : EngSim e e') : e.peersList = e'.peersList := by
  unfold peersList
  rw [podOwnersMap_sim h, disjointIPBlocks_sim h]

theorem toKPeer_sim {e e' : Engine} (h : EngSim e e') (s : LPeer) : e.toKPeer s = e'.toKPeer s := by
  unfold toKPeer findNs
  rw [h.namespaces]

/-- the pods of the engine are real pods with legal container ports -/
def PodsOK (e : Engine) : Prop := ∀ p ∈ e.pods, p.isRepresentative = false ∧ p.ValidPorts

theorem dstOK_of_toKPeer {e : Engine} (hp : PodsOK e) {n : String} {p : Pod} (hm : p ∈ e.pods)
    {k : KPeer} (hk : e.toKPeer (.wl n p) = .ok k) : k.DstOK := by
  obtain ⟨a, rfl⟩ := PermLayer.toKPeer_wl_pod hk
  exact hp p hm

theorem pairEntry_sim {e e' : Engine} (h : EngSim e e') (hg : ∀ np ∈ e.netpols, NpGood np)
    (focus : String) (s d : LPeer)
    (hd : ∀ k, e.toKPeer d = .ok k → k.DstOK) :
    pairEntry e focus s d = pairEntry e' focus s d := by
  unfold pairEntry
  rw [← toKPeer_sim h s, ← toKPeer_sim h d]
  split
  · rfl
  split
  · rfl
  split
  · rfl
  cases e.toKPeer s with
  | error err => rfl
  | ok ks =>
    simp only
    cases hkd : e.toKPeer d with
    | error err => rfl
    | ok kd =>
      simp only
      rw [peerConns_sim h hg ks kd (hd kd hkd)]

/-- **the loop** returns literally the same entries (or the same error) -/
theorem connsBetweenPeers_sim {e e' : Engine} (h : EngSim e e') (hg : ∀ np ∈ e.netpols, NpGood np)
    (hp : PodsOK e) {peers : List LPeer} (hpl : e.peersList = .ok peers) (focus : String) :
    e.connsBetweenPeers peers focus = e'.connsBetweenPeers peers focus := by
  rw [connsBetweenPeers_eq, connsBetweenPeers_eq]
  apply collect_congr
  intro s _
  apply collect_congr
  intro d hd
  apply pairEntry_sim h hg
  intro k hk
  cases d with
  | ip r => cases hk; trivial
  | wl m q => exact dstOK_of_toKPeer hp (peersList_wl hpl hd).2 hk

/-! ## E. the report -/

/-! ### the hypotheses on the input -/

/-! (`NPRulesValid objs` — legal rule ports, no empty rule peer — and `PodsReal objs` — no
representative pod — are defined in `Netpol.Proofs.PermLayer`.) -/

theorem mem_foldl_upsert {α : Type} (key : α → String) (l acc : List α) {x : α}
    (h : x ∈ l.foldl (fun a p => upsert key p a) acc) : x ∈ acc ∨ x ∈ l := by
  induction l generalizing acc with
  | nil => exact Or.inl h
  | cons y ys ih =>
    rw [List.foldl_cons] at h
    rcases ih _ h with h1 | h1
    · rcases mem_upsert h1 with rfl | h2
      · exact Or.inr (List.mem_cons_self ..)
      · exact Or.inl h2
    · exact Or.inr (List.mem_cons_of_mem _ h1)

/-- the pods of the engine `build` returns are pods of the input -/
theorem build_pods_subset {objs : List Obj} {e : Engine} (h : Engine.build objs = .ok e) {p : Pod}
    (hp : p ∈ e.pods) : p ∈ podsIn objs := by
  obtain ⟨e1, hf, _, he⟩ := build_ok_parts h
  rw [he, resolve_eq] at hp
  have hp' : p ∈ e1.pods := hp
  rw [(fold_data hf).1] at hp'
  rcases mem_foldl_upsert podKey _ _ hp' with h1 | h1
  · cases h1
  · exact h1

theorem build_podsOK {objs : List Obj} {e : Engine} (h : Engine.build objs = .ok e)
    (hr : PodsReal objs) (hpp : PodPortsValid objs) : PodsOK e :=
  fun p hp => ⟨hr p (build_pods_subset h hp), hpp p (build_pods_subset h hp)⟩

theorem normNp_good {p : NetPol} (h : NpGood p) : NpGood (normNp p) := by
  unfold normNp
  split
  · exact ⟨h.ingress, h.egress⟩
  · exact h

theorem build_npGood {objs : List Obj} {e : Engine} (h : Engine.build objs = .ok e)
    (hv : NPRulesValid objs) : ∀ np ∈ e.netpols, NpGood np := by
  intro np hnp
  rw [(build_policies h).1] at hnp
  obtain ⟨q, hq, rfl⟩ := List.mem_map.mp hnp
  exact normNp_good ⟨(hv q hq).1, (hv q hq).2⟩

/-! ### the Ingress / Route lines -/

/-- the Services, Ingresses and Routes of similar inputs coincide -/
theorem allowedIngress_sim {objs objs' : List Obj} (ho : Forall₂ ObjSim objs objs')
    (owners : List (String × Pod)) :
    IngressA.allowedIngress objs owners = IngressA.allowedIngress objs' owners := by
  have h1 : IngressA.services objs owners = IngressA.services objs' owners := by
    unfold IngressA.services
    apply ho.filterMap_eq
    intro a b hab
    cases hab <;> rfl
  have h2 : IngressA.targets objs = IngressA.targets objs' := by
    unfold IngressA.targets
    apply ho.filterMap_eq
    intro a b hab
    cases hab <;> rfl
  rw [IngressLayer.allowedIngress_eq, IngressLayer.allowedIngress_eq, h1, h2]

theorem ingressEngine_sim {e e' : Engine} (h : EngSim e e') :
    EngSim (IngressLayer.ingressEngine e) (IngressLayer.ingressEngine e') := by
  unfold IngressLayer.ingressEngine findNs
  rw [← h.namespaces]
  split
  · exact h
  · exact ⟨rfl, h.pods, h.netpols, h.anps, h.anpNames, h.banp, h.exposure⟩

theorem ingressEngine_fields (e : Engine) :
    (IngressLayer.ingressEngine e).pods = e.pods ∧
      (IngressLayer.ingressEngine e).netpols = e.netpols := by
  unfold IngressLayer.ingressEngine
  split <;> exact ⟨rfl, rfl⟩

theorem entryStep_sim {e e' : Engine} (h : EngSim e e') (hg : ∀ np ∈ e.netpols, NpGood np)
    (focus : String) (acc : List Entry × List String) (n : String) (p : Pod) (c : ConnSet)
    (hd : ∀ k, e.toKPeer (.wl n p) = .ok k → k.DstOK) :
    IngressLayer.entryStep e focus acc (n, p, c) = IngressLayer.entryStep e' focus acc (n, p, c) := by
  simp only [IngressLayer.entryStep]
  rw [← toKPeer_sim h, ← toKPeer_sim h]
  split
  · rfl
  cases e.toKPeer IngressLayer.ingressSrc with
  | error err => rfl
  | ok ks =>
    cases hkd : e.toKPeer (.wl n p) with
    | error err => rfl
    | ok kd =>
      simp only [bind, Except.bind]
      rw [peerConns_sim h hg ks kd (hd kd hkd)]

/-- the workloads of the Ingress / Route lines stand on pods of the engine -/
theorem allowedIngress_pods {e : Engine} {objs : List Obj} {owners : List (String × Pod)}
    (ho : e.podOwnersMap = .ok owners) {l : List IngressLayer.Contrib}
    (hl : IngressA.allowedIngress objs owners = some l) {n : String} {p : Pod} {c : ConnSet}
    (hm : (n, p, c) ∈ l) : p ∈ e.pods := by
  have := IngressLayer.allowedIngress_some hl
  subst this
  rcases IngressLayer.pod_group _ hm with ⟨_, h⟩ | ⟨c', h⟩
  · cases h
  · have := (IngressLayer.contrib_owner h).1
    exact ((podOwnersMap_facts ho).2.1 _ this).2

/-- **the Ingress / Route lines** are literally the same -/
theorem ingressEntries_sim {objs objs' : List Obj} (hobj : Forall₂ ObjSim objs objs')
    {e e' : Engine} (h : EngSim e e') (hg : ∀ np ∈ e.netpols, NpGood np) (hp : PodsOK e)
    {owners : List (String × Pod)} (ho : e.podOwnersMap = .ok owners) (focus : String) :
    IngressA.ingressEntries e objs owners focus = IngressA.ingressEntries e' objs' owners focus := by
  rw [IngressLayer.ingressEntries_eq, IngressLayer.ingressEntries_eq, ← allowedIngress_sim hobj]
  cases hl : IngressA.allowedIngress objs owners with
  | none => rfl
  | some l =>
    simp only
    apply foldlM_congr_mem
    intro x hx acc
    obtain ⟨n, p, c⟩ := x
    have hf := ingressEngine_fields e
    apply entryStep_sim (ingressEngine_sim h) (by rw [hf.2]; exact hg)
    intro k hk
    have hpe : p ∈ e.pods := allowedIngress_pods ho hl hx
    have hp' : PodsOK (IngressLayer.ingressEngine e) := by
      intro q hq
      rw [hf.1] at hq
      exact hp q hq
    exact dstOK_of_toKPeer hp' (by rw [hf.1]; exact hpe) hk

/-! ### the main theorem -/

open WorldDriver in
/-- **C08, part 2: the `list` report does not depend on the inner order of the
NetworkPolicies.** Reordering the ingress / egress rules of any number of NetworkPolicies, the
peers and the ports inside their rules, and their `policyTypes` leaves `runList` unchanged — the
same report or the same error — provided the rules are valid and the pods are real pods with legal
container ports. (`allowedConns` examines every rule: a named port towards an IP block fails the
policy wherever its rule stands.) No assumption on keys, Services, Ingresses, Routes or admin
policies; `build` may fail. -/
theorem runList_rules_perm {objs objs' : List Obj} (h : Forall₂ ObjSim objs objs')
    (hv : NPRulesValid objs) (hr : PodsReal objs)
    (hpp : PodPortsValid objs) (focus : String) :
    runList objs focus = runList objs' focus := by
  have hsim := build_sim h
  cases hb : Engine.build objs with
  | error err =>
    cases hb' : Engine.build objs' with
    | error err' =>
      rw [hb, hb'] at hsim
      have : err = err' := hsim
      subst this
      unfold runList
      rw [hb, hb']
    | ok e' => rw [hb, hb'] at hsim; exact absurd hsim id
  | ok e =>
    cases hb' : Engine.build objs' with
    | error err' => rw [hb, hb'] at hsim; exact absurd hsim id
    | ok e' =>
      rw [hb, hb'] at hsim
      have hs : EngSim e e' := hsim
      have hg := build_npGood hb hv
      have hp := build_podsOK hb hr hpp
      unfold runList
      simp only [hb, hb']
      rw [← hs.pods, ← peersList_sim hs, ← podOwnersMap_sim hs]
      split
      · rfl
      cases hpl : e.peersList with
      | error err => rfl
      | ok peers =>
        cases ho : e.podOwnersMap with
        | error err => rfl
        | ok owners =>
          simp only
          rw [← allowedIngress_sim h owners, ← connsBetweenPeers_sim hs hg hp hpl focus,
            ← ingressEntries_sim h hs hg hp ho focus]

/-- the same, from the validity hypothesis of `PermLayer` -/
theorem runList_rules_perm' {objs objs' : List Obj} (h : Forall₂ ObjSim objs objs')
    (hv : PoliciesValid objs) (hr : PodsReal objs)
    (hpp : PodPortsValid objs) (focus : String) :
    WorldDriver.runList objs focus = WorldDriver.runList objs' focus :=
  runList_rules_perm h (npRulesValid_of_policiesValid hv) hr hpp focus

/-- the former sharp form (equal, or one of the reports is `(err namedPortOnIP)`), kept for its
name: since `allowedConns` examines every rule the reports are simply equal -/
theorem runList_rules_perm_or {objs objs' : List Obj} (h : Forall₂ ObjSim objs objs')
    (hv : NPRulesValid objs) (hr : PodsReal objs) (hpp : PodPortsValid objs) (focus : String) :
    WorldDriver.runList objs focus = WorldDriver.runList objs' focus ∨
      WorldDriver.runList objs focus = WorldDriver.errSx .namedPortOnIP ∨
      WorldDriver.runList objs' focus = WorldDriver.errSx .namedPortOnIP :=
  Or.inl (runList_rules_perm h hv hr hpp focus)

/-! ## F. findings and non-vacuity

**Former finding (repaired): rule order decided between a report and an error.**
`allowedConns.go` used to stop evaluating rules once the accumulated set was All Connections, so a
later rule whose evaluation fails — a named port in an egress rule that selects an IP block,
`Err.namedPortOnIP` — was masked or not depending on the rule order: with the egress rules
`r1 = {}` (everything) and `r2 = {to: [ipBlock 10.0.0.0/8], ports: [http]}`, the order `[r1, r2]`
gave a report and the order `[r2, r1]` gave `(err namedPortOnIP)` (also on the Go code). Now every
rule is examined and both orders give `(err namedPortOnIP)` (`rule_order_repaired`, `report_err`).

The order of the *ports* inside one rule never matters for failure (`ruleConnections` has no early
exit: towards an IP block it fails iff some port is named, `NetPol.ruleConnections_ip_err_iff`),
and there is only one error the layer can raise on valid rules. What `NPRule.Valid` still excludes
(rules the API server rejects): `ruleSelectsPeer` returns at the first matching peer, so an empty
peer (`.sel none none`, `Err.emptyRulePeer`) behind a matching peer is masked by the *peer* order;
and when a policy holds both a rule with an empty peer and a rule with a named port towards an IP
block, the first failing rule decides *which* error is reported, which depends on the *rule*
order. -/
namespace Findings

local instance decEqExcept {ε α : Type} [DecidableEq ε] [DecidableEq α] : DecidableEq (Except ε α) := by
  intro x y
  cases x with
  | error a =>
    cases y with
    | error b => exact decidable_of_iff (a = b) (by simp)
    | ok b => exact isFalse (by simp)
  | ok a =>
    cases y with
    | error b => exact isFalse (by simp)
    | ok b => exact decidable_of_iff (a = b) (by simp)

def podA : Pod := { ns := "default", name := "a", labels := [("app", "a")], ports := [] }
def podB : Pod := { ns := "default", name := "b", labels := [("app", "b")], ports := [] }
def nsDefault : NsObj := ⟨"default", [(nsNameLabelKey, "default")]⟩

/-- `10.0.0.0/8` -/
def cidr10 : Cidr := ⟨0x0A000000, 8⟩
/-- 10.0.0.0 – 10.255.255.255, a range of the peers list -/
def range10 : Iv := ⟨167772160, 184549375⟩

/-- allows everything -/
def r1 : NPRule := ⟨[], []⟩
/-- a named port towards an IP block -/
def r2 : NPRule := ⟨[.ip cidr10 []], [⟨none, .name "http"⟩]⟩

def mkNp (eg : List NPRule) : NetPol :=
  { ns := "default", name := "p", podSel := ⟨[("app", "a")], []⟩, types := [.egress],
    ingress := [], egress := eg }

/-- the two inputs differ in the order of the two egress rules only -/
def worldOK : List Obj := [.pod podA, .np (mkNp [r1, r2])]
def worldErr : List Obj := [.pod podA, .np (mkNp [r2, r1])]

example : Forall₂ ObjSim worldOK worldErr := by decide

/-- all hypotheses of `runList_rules_perm` hold -/
theorem world_hyps : NPRulesValid worldOK ∧ PodsReal worldOK ∧ PodPortsValid worldOK := by decide

/-- the policy layer: raised in both orders (it used to be masked in the first) -/
example :
    (mkNp [r1, r2]).egressAllowedConns (.ip [range10]) = .error .namedPortOnIP ∧
    (mkNp [r2, r1]).egressAllowedConns (.ip [range10]) = .error .namedPortOnIP := by decide

def engOf (eg : List NPRule) : Engine :=
  { namespaces := [nsDefault], pods := [podA], netpols := [mkNp eg] }

theorem build_world (eg : List NPRule) : Engine.build [.pod podA, .np (mkNp eg)] = .ok (engOf eg) := rfl

/-- one pair of the engines `build` returns: pod `a` → 10.0.0.0/8 -/
example :
    (engOf [r1, r2]).peerConns (.pod podA (some nsDefault)) (.ip [range10]) =
      .error .namedPortOnIP ∧
    (engOf [r2, r1]).peerConns (.pod podA (some nsDefault)) (.ip [range10]) =
      .error .namedPortOnIP := by decide

/-- the peers of both worlds -/
def peers : List LPeer :=
  [.ip ⟨0, 167772159⟩, .ip range10, .ip ⟨184549376, 4294967295⟩, .wl "default/a[Pod]" podA]

theorem blocks_eq (eg : List NPRule) (h : (mkNp eg).referencedIPBlocks = [range10]) :
    (engOf eg).disjointIPBlocks = [⟨0, 167772159⟩, range10, ⟨184549376, 4294967295⟩] := by
  unfold disjointIPBlocks
  simp only [engOf, List.flatMap_cons, List.flatMap_nil, List.append_nil, h]
  simp [partition, range10, List.mergeSort, List.MergeSort.Internal.splitInTwo, ipMax,
    List.eraseDups_cons]

/-- the owner map of both worlds (`podOwnersMap_eq`: `decide` does not unfold the `mergeSort` of
`sortedPods`) -/
theorem owners_eq (eg : List NPRule) : (engOf eg).podOwnersMap = .ok [("default/a[Pod]", podA)] := by
  rw [Structure.podOwnersMap_eq (l := [podA]) (List.Perm.refl _) (by decide)]
  rfl

theorem peersList_eq' (eg : List NPRule) (h : (mkNp eg).referencedIPBlocks = [range10]) :
    (engOf eg).peersList = .ok peers := by
  unfold peersList
  rw [blocks_eq eg h, owners_eq]
  rfl

def isErr {α : Type} (x : Except Err α) (e : Err) : Bool :=
  match x with
  | .error e' => e' == e
  | .ok _ => false

theorem eq_of_isErr {α : Type} {x : Except Err α} {e : Err} (h : isErr x e = true) :
    x = .error e := by
  cases x with
  | error e' => simp only [isErr, beq_iff_eq] at h; rw [h]
  | ok _ => cases h

def isOk {α : Type} (x : Except Err α) : Bool :=
  match x with
  | .error _ => false
  | .ok _ => true

theorem exists_of_isOk {α : Type} {x : Except Err α} (h : isOk x = true) : ∃ a, x = .ok a := by
  cases x with
  | error e => cases h
  | ok a => exact ⟨a, rfl⟩

/-- **the report, order `[r2, r1]`**: `(err namedPortOnIP)` -/
theorem report_err : WorldDriver.runList worldErr "" = WorldDriver.errSx .namedPortOnIP := by
  have hb : Engine.build worldErr = .ok (engOf [r2, r1]) := build_world _
  have hpl := peersList_eq' [r2, r1] (by decide)
  have ho : (engOf [r2, r1]).podOwnersMap = .ok [("default/a[Pod]", podA)] := owners_eq _
  have hc : (engOf [r2, r1]).connsBetweenPeers peers "" = .error .namedPortOnIP :=
    eq_of_isErr (by decide)
  unfold WorldDriver.runList
  simp only [hb, hpl, ho, hc]
  rfl

/-- **the two orders give the same report** — the former counterexample, now an instance of the
theorem -/
theorem rule_order_repaired (focus : String) :
    WorldDriver.runList worldOK focus = WorldDriver.runList worldErr focus :=
  runList_rules_perm (by decide) world_hyps.1 world_hyps.2.1 world_hyps.2.2 focus

/-- … namely `(err namedPortOnIP)` in the order `[r1, r2]` too (before the repair: a report with
All Connections between the pod and the three IP ranges) -/
theorem report_err' : WorldDriver.runList worldOK "" = WorldDriver.errSx .namedPortOnIP := by
  rw [rule_order_repaired, report_err]

/-! the order of the ports inside one rule: the same error in every order -/
example :
    NetPol.ruleConnections [⟨none, .num 80 none⟩, ⟨none, .name "http"⟩] (some (.ip [range10])) =
      .error .namedPortOnIP ∧
    NetPol.ruleConnections [⟨none, .name "http"⟩, ⟨none, .num 80 none⟩] (some (.ip [range10])) =
      .error .namedPortOnIP ∧
    NetPol.ruleConnections [⟨some .TCP, .all⟩, ⟨some .UDP, .all⟩, ⟨some .SCTP, .all⟩,
      ⟨none, .name "http"⟩] (some (.ip [range10])) = .error .namedPortOnIP := by decide

/-- the order of the peers matters for rules with an empty peer (which `NPRule.Valid` excludes):
a matching peer in front masks the failure. On the report: the ingress rule
`[ipBlock 0.0.0.0/0, {podSelector: {}, namespaceSelector: {}}, {}]` gives an `ok` report, the
order `[{}, ipBlock 0.0.0.0/0, …]` gives `(err emptyRulePeer)` (`#eval`). -/
example :
    (mkNp []).ruleSelectsPeer [.sel (some ⟨[("app", "b")], []⟩) none, .sel none none]
      (.pod podB (some nsDefault)) = .ok true ∧
    (mkNp []).ruleSelectsPeer [.sel none none, .sel (some ⟨[("app", "b")], []⟩) none]
      (.pod podB (some nsDefault)) = .error .emptyRulePeer ∧
    ¬ (⟨[.sel (some ⟨[("app", "b")], []⟩) none, .sel none none], []⟩ : NPRule).Valid := by decide

/-- a rule with an empty peer behind a rule that allows everything is no longer masked by the rule
order … -/
example :
    (mkNp [r1, ⟨[.sel none none], []⟩]).egressAllowedConns (.pod podB (some nsDefault)) =
      .error .emptyRulePeer ∧
    (mkNp [⟨[.sel none none], []⟩, r1]).egressAllowedConns (.pod podB (some nsDefault)) =
      .error .emptyRulePeer := by decide

/-- … but with two *different* failing rules the first one decides which error is reported: the
kind of error still depends on the rule order for policies `NPRule.Valid` excludes -/
example :
    (mkNp [r2, ⟨[.sel none none], []⟩]).egressAllowedConns (.ip [range10]) = .error .namedPortOnIP ∧
    (mkNp [⟨[.sel none none], []⟩, r2]).egressAllowedConns (.ip [range10]) = .error .emptyRulePeer ∧
    ¬ (⟨[.sel none none], []⟩ : NPRule).Valid := by decide

end Findings

/-! ### non-vacuity: a pair of inputs that satisfies every hypothesis -/
namespace Example

def web : Pod :=
  { ns := "default", name := "web", labels := [("app", "web")], ports := [⟨"http", .TCP, 8080⟩] }
def client : Pod := { ns := "default", name := "client", labels := [("app", "client")], ports := [] }
def db : Workload :=
  { kind := "Deployment", ns := "prod", name := "db", replicas := some 3, labels := [("app", "db")],
    ports := [⟨"pg", .TCP, 5432⟩] }

def blk : NPPeer := .ip ⟨0x0A000000, 8⟩ [⟨0x0A010000, 16⟩]
def fromClient : NPPeer := .sel (some ⟨[("app", "client")], []⟩) none
def fromProd : NPPeer := .sel none (some ⟨[(nsNameLabelKey, "prod")], []⟩)

def ruleA : NPRule :=
  ⟨[fromClient, blk], [⟨none, .name "http"⟩, ⟨some .UDP, .num 53 none⟩, ⟨none, .num 9000 (some 9100)⟩]⟩
def ruleA' : NPRule :=
  ⟨[blk, fromClient], [⟨none, .num 9000 (some 9100)⟩, ⟨none, .name "http"⟩, ⟨some .UDP, .num 53 none⟩]⟩
def ruleB : NPRule := ⟨[fromProd], [⟨none, .num 443 none⟩]⟩
def egA : NPRule := ⟨[blk], [⟨none, .num 443 none⟩, ⟨some .UDP, .num 53 none⟩]⟩
def egA' : NPRule := ⟨[blk], [⟨some .UDP, .num 53 none⟩, ⟨none, .num 443 none⟩]⟩
/-- a named port in an egress rule that cannot select an IP block -/
def egB : NPRule := ⟨[fromProd], [⟨none, .name "pg"⟩]⟩

def pol : NetPol :=
  { ns := "", name := "web", podSel := ⟨[("app", "web")], []⟩, types := [.ingress, .egress],
    ingress := [ruleA, ruleB], egress := [egA, egB] }
/-- the same policy: `policyTypes`, the rules, and the peers and ports inside them reordered -/
def pol' : NetPol :=
  { ns := "", name := "web", podSel := ⟨[("app", "web")], []⟩, types := [.egress, .ingress],
    ingress := [ruleB, ruleA'], egress := [egB, egA'] }

def objs : List Obj := [.ns ⟨"prod", [("env", "prod")]⟩, .pod web, .wl db, .np pol, .pod client]
def objs' : List Obj := [.ns ⟨"prod", [("env", "prod")]⟩, .pod web, .wl db, .np pol', .pod client]

theorem objs_sim : Forall₂ ObjSim objs objs' := by decide

/-- the relation is not trivially true: a policy that lost a port is not similar -/
example : ¬ Forall₂ ObjSim objs
    [.ns ⟨"prod", [("env", "prod")]⟩, .pod web, .wl db,
      .np { pol' with egress := [egB, ⟨[blk], [⟨none, .num 443 none⟩]⟩] }, .pod client] := by
  decide

example : pol ≠ pol' := by decide

theorem objs_hyps : NPRulesValid objs ∧ PodsReal objs ∧ PodPortsValid objs := by
  decide

/-- the theorem at work -/
example (focus : String) : WorldDriver.runList objs focus = WorldDriver.runList objs' focus :=
  runList_rules_perm objs_sim objs_hyps.1 objs_hyps.2.1 objs_hyps.2.2 focus

end Example

end Netpol.PermRules
