import Netpol.Proofs.FormatParse
import Netpol.Proofs.FormatExposure
/-! Read-back of the node lines of the dot outputs (`listDot`, `diffDot`): every drawn peer with its label, its colour and
the namespace cluster it is drawn in. For the diff graph the colour is the workload annotation (new `#008000`, lost
`red`, persistent `blue`), so `diff_dot_annotations` says that the graph encodes the new/lost flags of the computed diff. -/
set_option linter.unusedSimpArgs false
namespace Netpol
namespace Format
open List

/-- a node of a dot graph: peer string, label, colour, and the namespace of the cluster it is drawn in -/
structure DotNode where
  str : String
  label : String
  color : String
  cluster : Option String
deriving Repr, DecidableEq, Inhabited

/-- `"STR" [label="L" color="C" fontcolor="C"]` -/
def parseNodeBody (l : List Char) : Option (List Char × List Char × List Char) :=
  match l with
  | [] => none
  | q :: r =>
    if q ≠ '"' then none
    else
      let a := untilChar '"' r
      match stripPrefix "\" [label=\"".toList a.2 with
      | none => none
      | some r =>
        let b := untilChar '"' r
        match stripPrefix "\" color=\"".toList b.2 with
        | none => none
        | some r =>
          let c := untilChar '"' r
          match stripPrefix "\" fontcolor=\"".toList c.2 with
          | none => none
          | some r =>
            let d := untilChar '"' r
            if d.2 = "\"]".toList ∧ d.1 = c.1 then some (a.1, b.1, c.1) else none

/-- the part of a node line after its first tab -/
def nodeBody (str label color : String) : List Char :=
  '"' :: (str.toList ++ ("\" [label=\"".toList ++ (label.toList ++ ("\" color=\"".toList ++ (color.toList ++
    ("\" fontcolor=\"".toList ++ (color.toList ++ "\"]".toList)))))))

theorem nodeLine_body {str label color : String} (hs : QuotePlain str) (hl : QuotePlain label) (hc : QuotePlain color) :
    (nodeLine str label color).toList = '\t' :: nodeBody str label color := by
  rw [nodeLine_toList hs hl hc]; simp [nodeBody]

theorem parseNodeBody_nodeBody {str label color : String} (hs : QuotePlain str) (hl : QuotePlain label) (hc : QuotePlain color) :
    parseNodeBody (nodeBody str label color) = some (str.toList, label.toList, color.toList) := by
  unfold parseNodeBody nodeBody
  simp only [ne_eq, not_true_eq_false, ↓reduceIte,
    untilChar_append' hs.noQuote _ _ (by decide : "\" [label=\"".toList.head? = some '"'), stripPrefix_append,
    untilChar_append' hl.noQuote _ _ (by decide : "\" color=\"".toList.head? = some '"'),
    untilChar_append' hc.noQuote _ _ (by decide : "\" fontcolor=\"".toList.head? = some '"')]
  have e : color.toList ++ "\"]".toList = color.toList ++ ("\"]".toList ++ []) := by simp
  rw [e, untilChar_append' hc.noQuote _ _ (by decide : "\"]".toList.head? = some '"')]
  simp

/-- what a line contributes to the nodes -/
inductive LineKind where
  | member (n : List Char × List Char × List Char)
  | clusterLabel (ns : List Char)
  | ext (n : List Char × List Char × List Char)
  | other

/-- `label="NS"` -/
def parseLabelBody (l : List Char) : Option (List Char) :=
  match stripPrefix "label=\"".toList l with
  | none => none
  | some r => if r.getLast? = some '"' then some r.dropLast else none

def lineKind : List Char → LineKind
  | t1 :: t2 :: rest =>
    if t1 = '\t' ∧ t2 = '\t' then
      match parseNodeBody rest with
      | some n => .member n
      | none => match parseLabelBody rest with
        | some ns => .clusterLabel ns
        | none => .other
    else if t1 = '\t' then
      match parseNodeBody (t2 :: rest) with
      | some n => .ext n
      | none => .other
    else .other
  | _ => .other

abbrev NState := List (List Char × List Char × List Char) × List DotNode

def mkNode (n : List Char × List Char × List Char) (cluster : Option String) : DotNode :=
  ⟨String.ofList n.1, String.ofList n.2.1, String.ofList n.2.2, cluster⟩

def nodeStep (st : NState) (l : List Char) : NState :=
  match lineKind l with
  | .member n => (st.1 ++ [n], st.2)
  | .clusterLabel ns => ([], st.2 ++ st.1.map fun n => mkNode n (some (String.ofList ns)))
  | .ext n => (st.1, st.2 ++ [mkNode n none])
  | .other => st

/-- the nodes of a dot text, in the order of their lines -/
def parseDotNodes (s : String) : List DotNode := ((linesOf s).foldl nodeStep ([], [])).2

/-- a line that contributes no node when no cluster is open: not a node line (the `label="Legend"` line of the diff
legend reads as a cluster label of no member) -/
def LineKind.inert : LineKind → Bool
  | .other => true
  | .clusterLabel _ => true
  | _ => false

def Inert (l : List Char) : Prop := (lineKind l).inert = true

instance (l : List Char) : Decidable (Inert l) := by unfold Inert; infer_instance

theorem nodeStep_inert {l : List Char} (h : Inert l) (out : List DotNode) : nodeStep ([], out) l = ([], out) := by
  unfold Inert at h
  unfold nodeStep
  cases hk : lineKind l <;> simp_all [LineKind.inert]

theorem foldl_inert {ls : List (List Char)} (h : ∀ l ∈ ls, Inert l) (out : List DotNode) :
    ls.foldl nodeStep ([], out) = ([], out) := by
  induction ls with
  | nil => rfl
  | cons l ls ih =>
    rw [foldl_cons, nodeStep_inert (h l mem_cons_self), ih (fun x hx => h x (mem_cons_of_mem _ hx))]

-- ------------------------------------------------------------------------------------------
-- the kinds of the lines of a dot output

theorem parseNodeBody_none_head {c : Char} (h : c ≠ '"') (l : List Char) : parseNodeBody (c :: l) = none := by
  simp [parseNodeBody, h]

theorem inert_nil : Inert [] := by simp [Inert, lineKind, LineKind.inert]

theorem inert_single (c : Char) : Inert [c] := by simp [Inert, lineKind, LineKind.inert]

theorem inert_of_head {c : Char} (h : c ≠ '\t') (d : Char) (l : List Char) : Inert (c :: d :: l) := by
  simp [Inert, lineKind, h, LineKind.inert]

theorem inert_second {c : Char} (h1 : c ≠ '\t') (h2 : c ≠ '"') (l : List Char) : Inert ('\t' :: c :: l) := by
  simp [Inert, lineKind, h1, parseNodeBody_none_head h2, LineKind.inert]

theorem inert_tabtab {c : Char} (h : c ≠ '"') (l : List Char) : Inert ('\t' :: '\t' :: c :: l) := by
  unfold Inert lineKind
  simp only [and_self, ↓reduceIte, parseNodeBody_none_head h]
  cases parseLabelBody (c :: l) <;> simp [LineKind.inert]

/-- an edge line is no node line -/
theorem inert_edge {e : DotEdge} (h : e.WF) : Inert e.line.toList := by
  rw [DotEdge.line_toList h]
  have e1 : "\t\"".toList = ['\t', '"'] := by decide
  rw [e1]
  simp only [cons_append, nil_append]
  unfold Inert lineKind
  have hq : ('"' : Char) ≠ '\t' := by decide
  simp only [hq, and_false, ↓reduceIte]
  have e2 : parseNodeBody ('"' :: (e.src.toList ++ ("\" -> \"".toList ++ (e.dst.toList ++ ("\" [label=\"".toList ++
      (e.label.toList ++ ("\" color=\"".toList ++ (e.color.toList ++ ("\" fontcolor=\"".toList ++ (e.fontColor.toList ++
      ("\" weight=".toList ++ ((if e.src ≤ e.dst then "0.5" else "1") ++ "]").toList))))))))))) = none := by
    unfold parseNodeBody
    simp only [ne_eq, not_true_eq_false, ↓reduceIte,
      untilChar_append' h.1.noQuote _ _ (by decide : "\" -> \"".toList.head? = some '"')]
    have e3 : "\" -> \"".toList = ['"', ' ', '-', '>', ' ', '"'] := by decide
    have e4 : "\" [label=\"".toList = ['"', ' ', '[', 'l', 'a', 'b', 'e', 'l', '=', '"'] := by decide
    rw [e3, e4]
    simp [stripPrefix]
  rw [e2]
  simp [LineKind.inert]

theorem lineKind_member {str label color : String} (hs : QuotePlain str) (hl : QuotePlain label) (hc : QuotePlain color) :
    lineKind ("\t" ++ nodeLine str label color).toList = .member (str.toList, label.toList, color.toList) := by
  have e : ("\t" ++ nodeLine str label color).toList = '\t' :: '\t' :: nodeBody str label color := by
    rw [String.toList_append, nodeLine_body hs hl hc]; rfl
  rw [e]
  simp [lineKind, parseNodeBody_nodeBody hs hl hc]

theorem lineKind_ext {str label color : String} (hs : QuotePlain str) (hl : QuotePlain label) (hc : QuotePlain color) :
    lineKind (nodeLine str label color).toList = .ext (str.toList, label.toList, color.toList) := by
  rw [nodeLine_body hs hl hc]
  have hb := parseNodeBody_nodeBody hs hl hc
  unfold nodeBody at hb ⊢
  have hq : ('"' : Char) ≠ '\t' := by decide
  unfold lineKind
  simp only [hq, and_false, ↓reduceIte, hb]

theorem lineKind_label (ns : String) : lineKind ("\t\tlabel=\"" ++ ns ++ "\"").toList = .clusterLabel ns.toList := by
  have e : ("\t\tlabel=\"" ++ ns ++ "\"").toList = '\t' :: '\t' :: 'l' :: ("abel=\"".toList ++ (ns.toList ++ ['"'])) := by
    simp [String.toList_append]
  rw [e]
  have hl : ('l' : Char) ≠ '"' := by decide
  have e2 : parseLabelBody ('l' :: ("abel=\"".toList ++ (ns.toList ++ ['"']))) = some ns.toList := by
    unfold parseLabelBody
    have h0 : "label=\"".toList = 'l' :: "abel=\"".toList := by decide
    have : 'l' :: ("abel=\"".toList ++ (ns.toList ++ ['"'])) = "label=\"".toList ++ (ns.toList ++ ['"']) := by rw [h0]; rfl
    rw [this, stripPrefix_append]
    simp
  simp only [lineKind, and_self, ↓reduceIte, parseNodeBody_none_head hl, e2]

theorem inert_get1 {l : List Char} {c : Char} (h0 : l[0]? = some '\t') (h1 : l[1]? = some c) (hc1 : c ≠ '\t') (hc2 : c ≠ '"') :
    Inert l := by
  match l, h0, h1 with
  | a :: b :: rest, h0, h1 =>
    simp only [getElem?_cons_zero, Option.some.injEq, getElem?_cons_succ] at h0 h1
    subst h0; subst h1
    exact inert_second hc1 hc2 rest

theorem inert_get2 {l : List Char} {c : Char} (h0 : l[0]? = some '\t') (h1 : l[1]? = some '\t') (h2 : l[2]? = some c)
    (hc : c ≠ '"') : Inert l := by
  match l, h0, h1, h2 with
  | a :: b :: d :: rest, h0, h1, h2 =>
    simp only [getElem?_cons_zero, Option.some.injEq, getElem?_cons_succ] at h0 h1 h2
    subst h0; subst h1; subst h2
    exact inert_tabtab hc rest

theorem inert_clusterHeader (ns : String) :
    Inert ("\tsubgraph \"cluster_" ++ ns.map (fun c => if c = '-' then '_' else c) ++ "\" {").toList :=
  inert_get1 (c := 's') (by simp [String.toList_append]) (by simp [String.toList_append]) (by decide) (by decide)

theorem inert_attr (key : String) (hk : key.toList.head? = some 'c' ∨ key.toList.head? = some 'f') (color : String) :
    Inert ("\t\t" ++ key ++ "=" ++ goQuote color).toList := by
  obtain ⟨k, ks, hks⟩ : ∃ k ks, key.toList = k :: ks ∧ (k = 'c' ∨ k = 'f') := by
    cases h : key.toList with
    | nil => simp [h] at hk
    | cons k ks => exact ⟨k, ks, rfl, by simpa [h] using hk⟩
  refine inert_get2 (c := k) (by simp [String.toList_append]) (by simp [String.toList_append])
    (by simp [String.toList_append, hks.1]) ?_
  rcases hks.2 with rfl | rfl <;> decide

/-- what the node lines need of a node: nothing to escape in its strings, no newline in its namespace -/
def DotNode.WF (n : DotNode) : Prop :=
  QuotePlain n.str ∧ QuotePlain n.label ∧ QuotePlain n.color ∧ ∀ ns, n.cluster = some ns → NoNL ns

def DotNode.line (n : DotNode) : String := nodeLine n.str n.label n.color

def DotNode.triple (n : DotNode) : List Char × List Char × List Char := (n.str.toList, n.label.toList, n.color.toList)

theorem mkNode_triple (n : DotNode) : mkNode n.triple n.cluster = n := by
  cases n; simp [mkNode, DotNode.triple]

/-- the (namespace, line) pairs handed to `AddNsGroups` -/
def clusterMembers (nodes : List DotNode) : List (String × String) :=
  nodes.filterMap fun n => n.cluster.map fun ns => (ns, n.line)

/-- the node lines of a graph: the namespace clusters, then the nodes outside clusters -/
def renderNodeLines (nodes : List DotNode) : List String :=
  nsGroups (clusterMembers nodes) "black" ++ sortStrings ((nodes.filter (·.cluster.isNone)).map DotNode.line)

/-- the nodes of a cluster in the order of their lines -/
def nodesOfCluster (nodes : List DotNode) (k : String) : List DotNode :=
  (nodes.filter (·.cluster == some k)).mergeSort fun a b => decide ("\t" ++ a.line ≤ "\t" ++ b.line)

/-- the nodes in the order of the output: clusters by namespace, inside by line; then the nodes outside clusters -/
def orderedNodes (nodes : List DotNode) : List DotNode :=
  (sortStrings (dedupKey id ((clusterMembers nodes).map (·.1)))).flatMap (nodesOfCluster nodes) ++
    (nodes.filter (·.cluster.isNone)).mergeSort fun a b => decide (a.line ≤ b.line)

theorem clusterMembers_filter (nodes : List DotNode) (k : String) :
    ((clusterMembers nodes).filter (·.1 == k)).map (fun m => "\t" ++ m.2) =
      (nodes.filter (·.cluster == some k)).map fun n => "\t" ++ n.line := by
  unfold clusterMembers
  induction nodes with
  | nil => rfl
  | cons n ns ih =>
    cases hc : n.cluster with
    | none => simp [filterMap_cons, hc, filter_cons, ih]
    | some c =>
      by_cases hk : c = k
      · subst hk; simp [filterMap_cons, hc, filter_cons, ih]
      · have : (c == k) = false := by simpa using hk
        simp [filterMap_cons, hc, filter_cons, ih, this, hk]

theorem fold_members : ∀ (Y : List DotNode), (∀ n ∈ Y, n.WF) → ∀ (cur : List (List Char × List Char × List Char)) (out : List DotNode),
    (Y.map fun n => ("\t" ++ n.line).toList).foldl nodeStep (cur, out) = (cur ++ Y.map DotNode.triple, out)
  | [], _, cur, out => by simp
  | n :: Y, h, cur, out => by
    obtain ⟨h1, h2, h3, _⟩ := h n mem_cons_self
    have ih := fold_members Y (fun x hx => h x (mem_cons_of_mem _ hx)) (cur ++ [n.triple]) out
    simp only [map_cons, foldl_cons]
    have e : nodeStep (cur, out) ("\t" ++ n.line).toList = (cur ++ [n.triple], out) := by
      unfold nodeStep DotNode.line
      rw [lineKind_member h1 h2 h3]
      rfl
    rw [e, ih]
    simp

theorem fold_exts : ∀ (Y : List DotNode), (∀ n ∈ Y, n.WF ∧ n.cluster = none) → ∀ (out : List DotNode),
    (Y.map fun n => n.line.toList).foldl nodeStep ([], out) = ([], out ++ Y)
  | [], _, out => by simp
  | n :: Y, h, out => by
    obtain ⟨⟨h1, h2, h3, _⟩, hc⟩ := h n mem_cons_self
    have ih := fold_exts Y (fun x hx => h x (mem_cons_of_mem _ hx)) (out ++ [n])
    simp only [map_cons, foldl_cons]
    have e : nodeStep ([], out) n.line.toList = ([], out ++ [n]) := by
      unfold nodeStep DotNode.line
      rw [lineKind_ext h1 h2 h3]
      have := mkNode_triple n
      rw [hc] at this
      simp only [DotNode.triple] at this
      simp [this]
    rw [e, ih]
    simp

theorem mem_nodesOfCluster {nodes : List DotNode} {k : String} {n : DotNode} (h : n ∈ nodesOfCluster nodes k) :
    n ∈ nodes ∧ n.cluster = some k := by
  have := (mergeSort_perm _ _).mem_iff.mp h
  obtain ⟨h1, h2⟩ := mem_filter.mp this
  exact ⟨h1, by simpa using h2⟩

/-- the lines of one cluster, as `nsGroups` prints them -/
def blockLines (nodes : List DotNode) (k : String) : List String :=
  ["\tsubgraph \"cluster_" ++ k.map (fun c => if c = '-' then '_' else c) ++ "\" {", "\t\tcolor=" ++ goQuote "black",
    "\t\tfontcolor=" ++ goQuote "black"] ++
  (nodesOfCluster nodes k).map (fun n => "\t" ++ n.line) ++ ["\t\tlabel=\"" ++ k ++ "\"", "\t}"]

theorem nsGroups_blocks (nodes : List DotNode) :
    nsGroups (clusterMembers nodes) "black" =
      (sortStrings (dedupKey id ((clusterMembers nodes).map (·.1)))).flatMap (blockLines nodes) := by
  unfold nsGroups blockLines
  congr 1
  funext k
  rw [clusterMembers_filter]
  have := map_mergeSort_by (fun n : DotNode => "\t" ++ n.line) (nodes.filter (·.cluster == some k))
  rw [← this]
  rfl

theorem fold_block {nodes : List DotNode} (h : ∀ n ∈ nodes, n.WF) (k : String) (out : List DotNode) :
    ((blockLines nodes k).map String.toList).foldl nodeStep ([], out) = ([], out ++ nodesOfCluster nodes k) := by
  unfold blockLines
  simp only [map_append, map_cons, map_nil, foldl_append, foldl_cons, foldl_nil, map_map, cons_append, nil_append]
  rw [nodeStep_inert (inert_clusterHeader k),
    nodeStep_inert (by decide : Inert ("\t\tcolor=" ++ goQuote "black").toList),
    nodeStep_inert (by decide : Inert ("\t\tfontcolor=" ++ goQuote "black").toList)]
  have hm := fold_members (nodesOfCluster nodes k) (fun n hn => h n (mem_nodesOfCluster hn).1) [] out
  simp only [nil_append] at hm
  rw [show map (String.toList ∘ fun n : DotNode => "\t" ++ n.line) (nodesOfCluster nodes k) =
    (nodesOfCluster nodes k).map (fun n => ("\t" ++ n.line).toList) from rfl, hm]
  have e1 : nodeStep ((nodesOfCluster nodes k).map DotNode.triple, out) ("\t\tlabel=\"" ++ k ++ "\"").toList =
      ([], out ++ nodesOfCluster nodes k) := by
    unfold nodeStep
    rw [lineKind_label]
    simp only [map_map, String.ofList_toList]
    congr 2
    conv => rhs; rw [← map_id (nodesOfCluster nodes k)]
    apply map_congr_left
    intro n hn
    have := mkNode_triple n
    rw [(mem_nodesOfCluster hn).2] at this
    simpa using this
  rw [e1]
  exact nodeStep_inert (by decide) _

theorem fold_blocks {nodes : List DotNode} (h : ∀ n ∈ nodes, n.WF) : ∀ (ks : List String) (out : List DotNode),
    ((ks.flatMap (blockLines nodes)).map String.toList).foldl nodeStep ([], out) = ([], out ++ ks.flatMap (nodesOfCluster nodes))
  | [], out => by simp
  | k :: ks, out => by
    rw [flatMap_cons, map_append, foldl_append, fold_block h, fold_blocks h ks, flatMap_cons, append_assoc]

theorem mem_clusterKeys {nodes : List DotNode} {k : String}
    (h : k ∈ sortStrings (dedupKey id ((clusterMembers nodes).map (·.1)))) : ∃ n ∈ nodes, n.cluster = some k := by
  have h1 : k ∈ (clusterMembers nodes).map (·.1) := dedupKey_subset id _ k (mem_sortStrings.mp h)
  obtain ⟨m, hm, rfl⟩ := mem_map.mp h1
  unfold clusterMembers at hm
  obtain ⟨n, hn, hnm⟩ := mem_filterMap.mp hm
  cases hc : n.cluster with
  | none => simp [hc] at hnm
  | some c =>
    simp only [hc, Option.map_some, Option.some.injEq] at hnm
    subst hnm
    exact ⟨n, hn, hc⟩

theorem renderNodeLines_noNL {nodes : List DotNode} (h : ∀ n ∈ nodes, n.WF) : ∀ l ∈ renderNodeLines nodes, NoNL l := by
  intro l hl
  unfold renderNodeLines at hl
  rw [nsGroups_blocks] at hl
  rcases mem_append.mp hl with hl | hl
  · obtain ⟨k, hk, hlk⟩ := mem_flatMap.mp hl
    obtain ⟨n0, hn0, hc0⟩ := mem_clusterKeys hk
    have hkn : NoNL k := (h n0 hn0).2.2.2 k hc0
    unfold blockLines at hlk
    simp only [cons_append, nil_append, mem_cons, mem_append, mem_map, not_mem_nil, or_false] at hlk
    rcases hlk with rfl | rfl | rfl | ⟨n, hn, rfl⟩ | rfl | rfl
    · exact (clusterHeader_notEdge hkn).1
    · decide
    · decide
    · obtain ⟨h1, h2, h3, _⟩ := h n (mem_nodesOfCluster hn).1
      exact (tab_nodeLine_notEdge h1 h2 h3).1
    · exact (clusterLabel_notEdge hkn).1
    · decide
  · obtain ⟨n, hn, rfl⟩ := mem_map.mp (mem_sortStrings.mp hl)
    obtain ⟨h1, h2, h3, _⟩ := h n (mem_filter.mp hn).1
    exact nodeLine_noNL h1 h2 h3

/-- a line before or after the node lines: without newline, and no node line -/
abbrev InertLine (l : String) : Prop := NoNL l ∧ Inert l.toList
instance (l : String) : Decidable (InertLine l) := by unfold InertLine; infer_instance

/-- the node lines between lines that are no node lines are read back, in the order of the output -/
theorem parseDotNodes_lines {pre post : List String} {nodes : List DotNode} (hpre : ∀ l ∈ pre, InertLine l)
    (hpost : ∀ l ∈ post, InertLine l) (hn : ∀ n ∈ nodes, n.WF) (hne : pre ≠ []) :
    parseDotNodes ("\n".intercalate (pre ++ renderNodeLines nodes ++ post)) = orderedNodes nodes := by
  unfold parseDotNodes
  rw [linesOf_intercalate (by simp [hne])]
  · simp only [map_append, foldl_append]
    rw [foldl_inert (by intro l hl; obtain ⟨x, hx, rfl⟩ := mem_map.mp hl; exact (hpre x hx).2)]
    unfold renderNodeLines
    rw [nsGroups_blocks, map_append, foldl_append, fold_blocks hn]
    have hs := map_mergeSort_by DotNode.line (nodes.filter (·.cluster.isNone))
    rw [← hs, map_map]
    rw [show map (String.toList ∘ DotNode.line) (mergeSort (nodes.filter (·.cluster.isNone)) fun a b => decide (a.line ≤ b.line)) =
      (mergeSort (nodes.filter (·.cluster.isNone)) fun a b => decide (a.line ≤ b.line)).map (fun n => n.line.toList) from rfl]
    rw [fold_exts]
    · rw [foldl_inert (by intro l hl; obtain ⟨x, hx, rfl⟩ := mem_map.mp hl; exact (hpost x hx).2)]
      simp [orderedNodes]
    · intro n hn'
      have := (mergeSort_perm _ _).mem_iff.mp hn'
      obtain ⟨h1, h2⟩ := mem_filter.mp this
      refine ⟨hn n h1, ?_⟩
      cases hc : n.cluster <;> simp_all
  · intro l hl
    simp only [mem_append] at hl
    rcases hl with (hl | hl) | hl
    · exact (hpre l hl).1
    · exact renderNodeLines_noNL hn l hl
    · exact (hpost l hl).1

-- ------------------------------------------------------------------------------------------
-- the read-back nodes are the drawn nodes, each once

theorem sum_ite_nodup : ∀ (ks : List String), ks.Nodup → ∀ (c : String) (N : Nat),
    (ks.map fun k => if k = c then N else 0).sum = if c ∈ ks then N else 0
  | [], _, c, N => by simp
  | k :: ks, hnd, c, N => by
    rw [nodup_cons] at hnd
    have ih := sum_ite_nodup ks hnd.2 c N
    by_cases hk : k = c
    · subst hk
      have : k ∉ ks := hnd.1
      simp [ih, this]
    · have hk' : ¬ c = k := fun e => hk e.symm
      simp [ih, hk, hk']

theorem count_flatMap_sum {α β : Type} [BEq α] (a : α) (f : β → List α) : ∀ (l : List β),
    count a (l.flatMap f) = (l.map fun b => count a (f b)).sum
  | [] => rfl
  | b :: l => by simp [flatMap_cons, count_append, count_flatMap_sum a f l]

/-- the clusters together hold every clustered node once -/
theorem clusters_perm (nodes : List DotNode) :
    (sortStrings (dedupKey id ((clusterMembers nodes).map (·.1)))).flatMap (fun k => nodes.filter (·.cluster == some k)) ~
      nodes.filter (·.cluster.isSome) := by
  rw [perm_iff_count]
  intro a
  rw [count_flatMap_sum]
  have hnd : (sortStrings (dedupKey id ((clusterMembers nodes).map (·.1)))).Nodup :=
    (sortStrings_perm_self _).nodup_iff.mpr (dedupKey_nodup id _)
  cases hc : a.cluster with
  | none =>
    have h0 : ∀ k : String, count a (nodes.filter (·.cluster == some k)) = 0 := by
      intro k; rw [count_filter_ite]; simp [hc]
    have hz : ∀ (l : List String), (l.map fun _ => 0).sum = 0 := by
      intro l; induction l <;> simp_all
    simp [h0, count_filter_ite, hc, hz]
  | some c =>
    have h1 : ∀ k : String, count a (nodes.filter (·.cluster == some k)) = if k = c then count a nodes else 0 := by
      intro k
      rw [count_filter_ite]
      by_cases hk : k = c
      · simp [hc, hk]
      · have : ¬ c = k := fun e => hk e.symm
        simp [hc, hk, this]
    simp only [h1]
    rw [sum_ite_nodup _ hnd, count_filter_ite]
    simp only [hc, Option.isSome_some, ↓reduceIte]
    by_cases hm : c ∈ sortStrings (dedupKey id ((clusterMembers nodes).map (·.1)))
    · simp [hm]
    · simp only [hm, ↓reduceIte]
      symm
      rw [count_eq_zero]
      intro ha
      apply hm
      rw [mem_sortStrings, mem_dedupKey (keyInj_id _), mem_map]
      refine ⟨(c, a.line), ?_, rfl⟩
      unfold clusterMembers
      rw [mem_filterMap]
      exact ⟨a, ha, by simp [hc]⟩

/-- the nodes read back are a permutation of the drawn nodes -/
theorem orderedNodes_perm (nodes : List DotNode) : orderedNodes nodes ~ nodes := by
  unfold orderedNodes
  have h1 : (sortStrings (dedupKey id ((clusterMembers nodes).map (·.1)))).flatMap (nodesOfCluster nodes) ~
      nodes.filter (·.cluster.isSome) :=
    (flatMap_perm_congr fun k _ => mergeSort_perm _ _).trans (clusters_perm nodes)
  refine (h1.append (mergeSort_perm _ _)).trans ?_
  have := filter_append_perm (fun n : DotNode => n.cluster.isSome) nodes
  refine Perm.trans ?_ this
  apply Perm.append_left
  rw [show (fun n : DotNode => n.cluster.isNone) = fun n => !n.cluster.isSome from by funext n; cases n.cluster <;> rfl]

-- ------------------------------------------------------------------------------------------
-- list dot and diff dot

theorem renderNodeLines_map {α : Type} (f : α → DotNode) (ext : α → Bool) (nsf : α → String)
    (hf : ∀ a, (f a).cluster = if ext a then none else some (nsf a)) (l : List α) :
    renderNodeLines (l.map f) =
      nsGroups ((l.filter (fun a => !ext a)).map fun a => (nsf a, (f a).line)) "black" ++
        sortStrings ((l.filter ext).map fun a => (f a).line) := by
  have e1 : clusterMembers (l.map f) = (l.filter (fun a => !ext a)).map fun a => (nsf a, (f a).line) := by
    unfold clusterMembers
    induction l with
    | nil => rfl
    | cons a l ih =>
      cases he : ext a <;> simp [filterMap_cons, filter_cons, hf a, he, ih]
  have e2 : ((l.map f).filter (·.cluster.isNone)).map DotNode.line = (l.filter ext).map fun a => (f a).line := by
    clear e1
    induction l with
    | nil => rfl
    | cons a l ih =>
      cases he : ext a <;> simp [filter_cons, hf a, he, ih]
  unfold renderNodeLines
  rw [e1, e2]

/-- the node of a peer in the connectivity graph -/
def PeerInfo.node (p : PeerInfo) : DotNode := ⟨p.str, p.label, p.listColor, if p.external then none else some p.ns⟩

theorem listNodeLines_eq (conns : List Conn) (peers : List PeerInfo) :
    listNodeLines conns peers = renderNodeLines ((listVisited conns peers).map PeerInfo.node) := by
  rw [renderNodeLines_map PeerInfo.node PeerInfo.external PeerInfo.ns (fun _ => rfl)]
  rfl

theorem PeerInfo.node_wf {p : PeerInfo} (h : p.DotWF) : p.node.WF := by
  obtain ⟨h1, h2, h3⟩ := h
  refine ⟨h1, h2, listColor_plain p, ?_⟩
  intro ns hns
  simp only [PeerInfo.node] at hns
  split at hns
  · cases hns
  · cases hns; exact h3

theorem edgeLines_inert {edges : List DotEdge} (h : ∀ e ∈ edges, e.WF) (l : String)
    (hl : l ∈ sortStrings (edges.map DotEdge.line)) : NoNL l ∧ Inert l.toList := by
  have hm := mem_sortStrings.mp hl
  rw [mem_map] at hm
  obtain ⟨e, he, hel⟩ := hm
  rw [← hel]
  exact And.intro (DotEdge.line_noNL (h e he)) (inert_edge (h e he))

/-- the nodes of the connectivity graph are read back: every visited peer with its label, colour and namespace cluster -/
theorem parseDotNodes_listDot {conns : List Conn} {peers : List PeerInfo} (hc : ∀ c ∈ conns, c.row.edge.WF)
    (hp : ∀ p ∈ listVisitSeq conns peers, p.DotWF) :
    parseDotNodes (listDot conns peers) = orderedNodes ((listVisited conns peers).map PeerInfo.node) := by
  unfold listDot
  rw [listNodeLines_eq, append_assoc]
  apply parseDotNodes_lines
  · intro l hl; simp only [mem_cons, not_mem_nil, or_false] at hl; subst hl; decide
  · intro l hl
    rcases mem_append.mp hl with hl | hl
    · have e : (conns.map fun c => c.row.dotEdge) = (conns.map fun c => c.row.edge).map DotEdge.line := by
        rw [map_map]; rfl
      rw [e] at hl
      exact edgeLines_inert (by intro x hx; obtain ⟨c, hc', rfl⟩ := mem_map.mp hx; exact hc c hc') l hl
    · simp only [mem_cons, not_mem_nil, or_false] at hl; subst hl; decide
  · intro n hn
    obtain ⟨p, hp', rfl⟩ := mem_map.mp hn
    exact PeerInfo.node_wf (hp p (dedupKey_subset _ _ p hp'))
  · simp

/-- the node of a visited peer in the diff graph: its colour is that of the visit -/
def diffNode (v : PeerInfo × String) : DotNode := ⟨v.1.str, v.1.label, v.2, if v.1.external then none else some v.1.ns⟩

theorem diffNodeLines_eq (ds : List DConn) : diffNodeLines ds = renderNodeLines ((diffVisited ds).map diffNode) := by
  rw [renderNodeLines_map diffNode (fun v => v.1.external) (fun v => v.1.ns) (fun _ => rfl)]
  rfl

set_option maxRecDepth 100000 in
theorem legend_inert : ∀ l ∈ legend, InertLine l := by decide

/-- the nodes of the diff graph are read back: every visited peer with its label, its colour (new `#008000`, lost
`red`, persistent `blue`) and its namespace cluster -/
theorem parseDotNodes_diffDot (ref1 : String) {ds : List DConn} (hc : ∀ d ∈ ds, (d.row.edge ref1).WF)
    (hp : ∀ v ∈ diffVisitSeq ds, v.1.DotWF) :
    parseDotNodes (diffDot ref1 ds) = orderedNodes ((diffVisited ds).map diffNode) := by
  unfold diffDot
  simp only
  rw [diffNodeLines_eq, append_assoc, append_assoc, append_assoc]
  have hedges : ∀ (p : DConn → Bool), ∀ l ∈ sortStrings (((diffDotSeq ds).filter p).map (DConn.dotEdge ref1)), InertLine l := by
    intro p l hl
    have e : ((diffDotSeq ds).filter p).map (DConn.dotEdge ref1) =
        (((diffDotSeq ds).filter p).map fun d => d.row.edge ref1).map DotEdge.line := by
      rw [map_map]
      apply map_congr_left
      intro d hd
      exact DConn.dotEdge_eq ref1 (mem_diffDotSeq.mp (mem_filter.mp hd).1).2
    rw [e] at hl
    refine edgeLines_inert ?_ l hl
    intro x hx
    obtain ⟨d, hd, rfl⟩ := mem_map.mp hx
    exact hc d (mem_diffDotSeq.mp (mem_filter.mp hd).1).1
  apply parseDotNodes_lines
  · intro l hl; simp only [mem_cons, not_mem_nil, or_false] at hl; subst hl; decide
  · intro l hl
    simp only [mem_append, mem_cons, not_mem_nil, or_false] at hl
    rcases hl with hl | hl | hl | rfl
    · exact hedges _ l hl
    · exact hedges _ l hl
    · exact legend_inert l hl
    · decide
  · intro n hn
    obtain ⟨v, hv, rfl⟩ := mem_map.mp hn
    have hv' : v ∈ diffVisitSeq ds := dedupKey_subset _ _ v hv
    obtain ⟨h1, h2, h3⟩ := hp v hv'
    refine ⟨h1, h2, ?_, ?_⟩
    · unfold diffVisitSeq at hv'
      obtain ⟨d, _, hd⟩ := mem_flatMap.mp hv'
      simp only [mem_cons, not_mem_nil, or_false] at hd
      rcases hd with rfl | rfl <;> exact diffNodeColor_plain _ _
    · intro ns hns
      simp only [diffNode] at hns
      split at hns
      · cases hns
      · cases hns; exact h3
  · simp

/-- the diff graph encodes the workload annotations: for every entry of the four types, the node of its source (and of
its destination) is drawn with the colour of its new/lost flag — provided all visits of a peer string agree -/
theorem diff_dot_annotations (ref1 : String) {ds : List DConn} (hc : ∀ d ∈ ds, (d.row.edge ref1).WF)
    (hp : ∀ v ∈ diffVisitSeq ds, v.1.DotWF) (hk : DiffPeersConsistent ds) {d : DConn} (hd : d ∈ ds) (hdr : d.drawn = true) :
    diffNode (d.src, diffNodeColor d.typ d.newSrc) ∈ parseDotNodes (diffDot ref1 ds) ∧
    diffNode (d.dst, diffNodeColor d.typ d.newDst) ∈ parseDotNodes (diffDot ref1 ds) := by
  rw [parseDotNodes_diffDot ref1 hc hp]
  have hseq : d ∈ diffDotSeq ds := mem_diffDotSeq.mpr ⟨hd, hdr⟩
  have h1 : (d.src, diffNodeColor d.typ d.newSrc) ∈ diffVisitSeq ds := by
    unfold diffVisitSeq; exact mem_flatMap.mpr ⟨d, hseq, by simp⟩
  have h2 : (d.dst, diffNodeColor d.typ d.newDst) ∈ diffVisitSeq ds := by
    unfold diffVisitSeq; exact mem_flatMap.mpr ⟨d, hseq, by simp⟩
  constructor
  · exact (orderedNodes_perm _).mem_iff.mpr (mem_map_of_mem ((mem_dedupKey hk).mpr h1))
  · exact (orderedNodes_perm _).mem_iff.mpr (mem_map_of_mem ((mem_dedupKey hk).mpr h2))

/-- the colours of the diff graph: new peers of added entries are green, lost peers of removed entries are red -/
theorem diffNodeColor_iff (typ : String) (flag : Bool) (h : typ = "added" ∨ typ = "removed" ∨ typ = "changed" ∨ typ = "unchanged") :
    (diffNodeColor typ flag = "#008000" ↔ flag = true ∧ typ = "added") ∧
    (diffNodeColor typ flag = "red" ↔ flag = true ∧ typ = "removed") ∧
    (diffNodeColor typ flag = "blue" ↔ ¬ (flag = true ∧ (typ = "added" ∨ typ = "removed"))) := by
  rcases h with rfl | rfl | rfl | rfl <;> cases flag <;> decide

end Format
end Netpol
