import Netpol.Proofs.ExposureLayer
import Netpol.Proofs.SelectorStrings

/-! `Exposure.build` (model of `AddObjectsForExposureAnalysis`): what the engine and the
representative peers it returns satisfy. Helper lemmas for properties C06 and C07: the hypotheses
those theorems make on an `XEngine` hold for every engine `build` returns, and the representative
peer of every rule selector is there unless a real pod removed it (the documented omission).
Core Lean only. -/
namespace Netpol
namespace Exposure
open Engine NetPol

/-! ## A. the pre-scan never fails -/

theorem portSetOf_none_ok (q : NPPort) : ∃ ps, portSetOf q none = .ok ps := by
  unfold portSetOf portsRange
  cases q.kind with
  | all => exact ⟨_, rfl⟩
  | num a e => exact ⟨_, rfl⟩
  | name n => exact ⟨_, rfl⟩

theorem rc_fold_none_ok (ports : List NPPort) (c0 : ConnSet) :
    ∃ c, ports.foldlM (rcStep none) c0 = .ok c := by
  induction ports generalizing c0 with
  | nil => exact ⟨c0, rfl⟩
  | cons q rest ih =>
    obtain ⟨ps, hps⟩ := portSetOf_none_ok q
    rw [List.foldlM_cons]
    simp only [rcStep, hps]
    exact ih _

theorem ruleConnections_none_eq' (ports : List NPPort) :
    ruleConnections ports none = .ok (rcNone ports) := by
  have : ∃ c, ruleConnections ports none = .ok c := by
    rw [ruleConnections_eq]
    split
    · exact ⟨_, rfl⟩
    · exact rc_fold_none_ok ports _
  obtain ⟨c, hc⟩ := this
  simp [rcNone, hc]

theorem scanRule_eq' (sc : Scan) (r : NPRule) : scanRule sc r = .ok (scanStep sc r) := by
  unfold scanRule scanStep
  rw [ruleConnections_none_eq' r.ports, scanRule_go_eq]
  cases h1 : r.peers.isEmpty
  · cases h2 : r.peers.any isEntireClusterPeer <;> rfl
  · rfl

theorem scan_eq' (np : NetPol) (d : Dir) : scan np d = .ok (scanPure np d) := by
  unfold scan scanPure
  split
  · rfl
  · exact foldlM_ok_eq_foldl scanRule scanStep (Spec.npRules np d)
      (fun sc r _ => scanRule_eq' sc r) _

/-! ## B. `addRepresentative`, `removeMatching` -/

/-- the namespace selector of the representative peer of a rule selector pair: the rule's
namespaceSelector, or the name label of the policy's namespace -/
def nsOf (ns : String) (rs : RuleSel) : Selector :=
  match rs.nsSel with
  | some s => s
  | none => nsNameSelector ns

/-- the map key of the representative peer -/
def keyOf (ns : String) (rs : RuleSel) : String :=
  uniqueKey (some (nsOf ns rs)) ++ "|" ++ uniqueKey rs.podSel

/-- the representative pod generated for a rule selector pair of a policy in namespace `ns` -/
def newRep (ns : String) (rs : RuleSel) : Pod :=
  { ns := if rs.nsSel.isNone then ns else "", name := representativePodName, labels := [],
    ports := [], fake := true, reprPodSel := rs.podSel, reprNsSel := some (nsOf ns rs) }

theorem addRepresentative_eq (reps : List (String × Pod)) (ns : String) (rs : RuleSel) :
    addRepresentative reps ns rs =
      match reps.find? (·.1 == keyOf ns rs) with
      | some (_, old) =>
        if spelling (newRep ns rs) < spelling old then
          reps.map fun kp => if kp.1 == keyOf ns rs then (keyOf ns rs, newRep ns rs) else kp
        else reps
      | none => reps ++ [(keyOf ns rs, newRep ns rs)] := by
  unfold addRepresentative keyOf newRep nsOf
  cases rs.nsSel <;> rfl

/-- every entry of the result is an old one or the new pod under its key -/
theorem addRepresentative_mem {reps : List (String × Pod)} {ns : String} {rs : RuleSel}
    {krp : String × Pod} (h : krp ∈ addRepresentative reps ns rs) :
    krp ∈ reps ∨ krp = (keyOf ns rs, newRep ns rs) := by
  rw [addRepresentative_eq] at h
  split at h
  · split at h
    · obtain ⟨kp, hkp, heq⟩ := List.mem_map.mp h
      split at heq
      · exact Or.inr heq.symm
      · exact Or.inl (heq ▸ hkp)
    · exact Or.inl h
  · rcases List.mem_append.mp h with h | h
    · exact Or.inl h
    · exact Or.inr (List.mem_singleton.mp h)

/-- the keys of the old entries are kept -/
theorem addRepresentative_keys {reps : List (String × Pod)} (ns : String) (rs : RuleSel)
    {krp : String × Pod} (h : krp ∈ reps) :
    ∃ krp' ∈ addRepresentative reps ns rs, krp'.1 = krp.1 := by
  rw [addRepresentative_eq]
  split
  · split
    · by_cases hk : (krp.1 == keyOf ns rs) = true
      · refine ⟨(keyOf ns rs, newRep ns rs), List.mem_map.mpr ⟨krp, h, by simp [hk]⟩, ?_⟩
        exact (beq_iff_eq.mp hk).symm
      · exact ⟨krp, List.mem_map.mpr ⟨krp, h, by simp [hk]⟩, rfl⟩
    · exact ⟨krp, h, rfl⟩
  · exact ⟨krp, List.mem_append_left _ h, rfl⟩

/-- the key of the new pair is present afterwards -/
theorem addRepresentative_key (reps : List (String × Pod)) (ns : String) (rs : RuleSel) :
    ∃ krp ∈ addRepresentative reps ns rs, krp.1 = keyOf ns rs := by
  cases hf : reps.find? (·.1 == keyOf ns rs) with
  | some kp =>
    obtain ⟨krp', h1, h2⟩ := addRepresentative_keys ns rs (List.mem_of_find?_eq_some hf)
    refine ⟨krp', h1, h2.trans ?_⟩
    have := List.find?_some hf
    exact beq_iff_eq.mp this
  | none =>
    rw [addRepresentative_eq, hf]
    exact ⟨_, List.mem_append_right _ (List.mem_singleton.mpr rfl), rfl⟩

/-- the fold of `generateRepresentativePeers` -/
def addAll (reps : List (String × Pod)) (ns : String) (sels : List RuleSel) : List (String × Pod) :=
  sels.foldl (fun acc rs => addRepresentative acc ns rs) reps

theorem addAll_mem {reps : List (String × Pod)} {ns : String} {sels : List RuleSel}
    {krp : String × Pod} (h : krp ∈ addAll reps ns sels) :
    krp ∈ reps ∨ ∃ rs ∈ sels, krp = (keyOf ns rs, newRep ns rs) := by
  induction sels generalizing reps with
  | nil => exact Or.inl h
  | cons rs rest ih =>
    rcases ih (reps := addRepresentative reps ns rs) h with h1 | ⟨rs', hrs', h1⟩
    · rcases addRepresentative_mem h1 with h2 | h2
      · exact Or.inl h2
      · exact Or.inr ⟨rs, List.mem_cons_self .., h2⟩
    · exact Or.inr ⟨rs', List.mem_cons_of_mem _ hrs', h1⟩

theorem addAll_keys {reps : List (String × Pod)} (ns : String) (sels : List RuleSel)
    {krp : String × Pod} (h : krp ∈ reps) : ∃ krp' ∈ addAll reps ns sels, krp'.1 = krp.1 := by
  induction sels generalizing reps krp with
  | nil => exact ⟨krp, h, rfl⟩
  | cons rs rest ih =>
    obtain ⟨k1, h1, e1⟩ := addRepresentative_keys ns rs h
    obtain ⟨k2, h2, e2⟩ := ih (reps := addRepresentative reps ns rs) h1
    exact ⟨k2, h2, e2.trans e1⟩

theorem addAll_key (reps : List (String × Pod)) (ns : String) (sels : List RuleSel) {rs : RuleSel}
    (h : rs ∈ sels) : ∃ krp ∈ addAll reps ns sels, krp.1 = keyOf ns rs := by
  induction sels generalizing reps with
  | nil => cases h
  | cons rs' rest ih =>
    rcases List.mem_cons.mp h with rfl | h'
    · obtain ⟨k1, h1, e1⟩ := addRepresentative_key reps ns rs
      obtain ⟨k2, h2, e2⟩ := addAll_keys ns rest (reps := addRepresentative reps ns rs) h1
      exact ⟨k2, h2, e2.trans e1⟩
    · exact ih (reps := addRepresentative reps ns rs') h'

/-- the condition under which `removeRepresentativePeersMatchingLabels` drops a representative
peer: both selectors are label equalities only (and not empty), and the pod's labels and its
namespace's labels satisfy them -/
def Dropped (rp : Pod) (podLabels nsLabels : Labels) : Prop :=
  ∃ ps ns, rp.reprPodSel = some ps ∧ rp.reprNsSel = some ns ∧ ps.exprs = [] ∧ ns.exprs = [] ∧
    ps.matchLabels ≠ [] ∧ ns.matchLabels ≠ [] ∧
    (⟨ps.matchLabels, []⟩ : Selector).matches podLabels = true ∧
    (⟨ns.matchLabels, []⟩ : Selector).matches nsLabels = true

theorem removeMatching_sub {reps : List (String × Pod)} {pl nl : Labels} {krp : String × Pod}
    (h : krp ∈ removeMatching reps pl nl) : krp ∈ reps :=
  (List.mem_filter.mp h).1

theorem removeMatching_cases {reps : List (String × Pod)} (pl nl : Labels) {krp : String × Pod}
    (h : krp ∈ reps) : krp ∈ removeMatching reps pl nl ∨ Dropped krp.2 pl nl := by
  unfold removeMatching
  rw [List.mem_filter]
  obtain ⟨k, rp⟩ := krp
  simp only []
  cases hP : rp.reprPodSel with
  | none => exact Or.inl ⟨h, rfl⟩
  | some ps =>
    cases hN : rp.reprNsSel with
    | none => exact Or.inl ⟨h, rfl⟩
    | some ns =>
      simp only []
      by_cases h1 : (!ps.exprs.isEmpty || !ns.exprs.isEmpty) = true
      · exact Or.inl ⟨h, by simp [h1]⟩
      · by_cases h2 : (ns.matchLabels.isEmpty || ps.matchLabels.isEmpty) = true
        · exact Or.inl ⟨h, by simp [h1, h2]⟩
        · by_cases h3 : ((⟨ps.matchLabels, []⟩ : Selector).matches pl &&
              (⟨ns.matchLabels, []⟩ : Selector).matches nl) = true
          · right
            rw [Bool.and_eq_true] at h3
            simp only [Bool.or_eq_true, Bool.not_eq_true', not_or, Bool.not_eq_false,
              List.isEmpty_iff] at h1 h2
            exact ⟨ps, ns, hP, hN, h1.1, h1.2, h2.2, h2.1, h3.1, h3.2⟩
          · exact Or.inl ⟨h, by simp [h1, h2, h3]⟩

/-! ## C. the insertion fold of `build` -/

def isPolNs (o : Obj) : Bool := match o with | .np _ | .ns _ => true | _ => false

/-- the engine with the namespace `ns` created when it is missing -/
def ensureNs (e : Engine) (ns : String) : Engine :=
  if (e.findNs ns).isSome then e
  else { e with namespaces := e.namespaces ++ [⟨ns, [(nsNameLabelKey, ns)]⟩] }

/-- the policy with its namespace defaulted -/
def npDefaulted (p : NetPol) : NetPol := if p.ns == "" then { p with ns := "default" } else p

/-- the selector pairs of a policy for which representative peers are generated -/
def allSels (p : NetPol) : List RuleSel := (scanPure p .ingress).sels ++ (scanPure p .egress).sels

/-- the step of the insertion fold -/
def bstep (x : XEngine) (o : Obj) : Except Err XEngine :=
  match o with
  | .np p =>
    x.eng.insertNetpol p >>= fun e =>
      let p' := npDefaulted p
      let e' := if (allSels p').any (fun rs => rs.nsSel.isNone) && (e.findNs p'.ns).isNone
        then { e with namespaces := e.namespaces ++ [⟨p'.ns, [(nsNameLabelKey, p'.ns)]⟩] } else e
      pure { eng := e', reps := addAll x.reps p'.ns (allSels p') }
  | .wl w =>
    let e := ensureNs (x.eng.insertWorkload w) w.ns
    pure { eng := e, reps := removeMatching x.reps w.labels (((e.findNs w.ns).map (·.labels)).getD []) }
  | .pod p =>
    if p.hostIP == "" then .error .badPod
    else
      let e := ensureNs (x.eng.insertPodObj p) p.ns
      pure { eng := e, reps := removeMatching x.reps p.labels (((e.findNs p.ns).map (·.labels)).getD []) }
  | o => x.eng.insertObject o >>= fun e => pure { x with eng := e }

def x0 : XEngine := { eng := { exposure := true }, reps := [] }

theorem build_eq (objs : List Obj) :
    build objs = (objs.filter isPolNs).foldlM bstep x0 >>= fun x =>
      (objs.filter (fun o => !isPolNs o)).foldlM bstep x := by
  have key : ∀ (f : XEngine → Obj → Except Err XEngine) (l1 l2 : List Obj),
      (∀ x o, f x o = bstep x o) →
      (l1.foldlM f x0 >>= fun x => l2.foldlM f x) =
        (l1.foldlM bstep x0 >>= fun x => l2.foldlM bstep x) := by
    intro f l1 l2 hf
    have : f = bstep := funext fun x => funext fun o => hf x o
    rw [this]
  unfold build
  apply key
  intro x o
  cases o with
  | np p =>
    simp only [bstep, scan_eq', bind, Except.bind, pure, Except.pure]
    rfl
  | wl w => rfl
  | pod p => rfl
  | ns n => rfl
  | anp a => rfl
  | banp b => rfl
  | svc s => rfl
  | ing i => rfl
  | route r => rfl

/-! ## D. invariants of the fold -/

theorem foldlM_invariant_mem {ε σ ω : Type} {f : σ → ω → Except ε σ} (P : σ → Prop) (l : List ω)
    (step : ∀ s o s', o ∈ l → P s → f s o = .ok s' → P s') (s0 s : σ) (h0 : P s0)
    (h : l.foldlM f s0 = .ok s) : P s := by
  induction l generalizing s0 with
  | nil => cases h; exact h0
  | cons o l ih =>
    rw [List.foldlM_cons] at h
    cases h1 : f s0 o with
    | error err => simp [h1, bind, Except.bind] at h
    | ok s1 =>
      simp only [h1, bind, Except.bind] at h
      exact ih (fun s o' s' ho' => step s o' s' (List.mem_cons_of_mem _ ho')) s1
        (step s0 o s1 (List.mem_cons_self ..) h0 h1) h

/-! ### namespaces only grow -/

theorem find?_upsert_isSome (n : NsObj) (l : List NsObj) (k : String)
    (h : (l.find? (·.name == k)).isSome = true) :
    ((upsert (·.name) n l).find? (·.name == k)).isSome = true := by
  induction l with
  | nil => simp at h
  | cons y ys ih =>
    unfold upsert
    by_cases hy : (y.name == n.name) = true
    · simp only [hy, if_true, List.find?_cons]
      rw [List.find?_cons] at h
      by_cases hk : (y.name == k) = true
      · have : (n.name == k) = true := by
          rw [beq_iff_eq] at hy hk ⊢
          rw [← hy, hk]
        simp [this]
      · have hk' : (y.name == k) = false := by simpa using hk
        rw [hk'] at h
        have : (n.name == k) = false := by
          rw [beq_iff_eq] at hy
          rw [← hy]; exact hk'
        simp only [this]
        exact h
    · have hy' : (y.name == n.name) = false := by simpa using hy
      simp only [hy', Bool.false_eq_true, if_false, List.find?_cons]
      rw [List.find?_cons] at h
      cases hk : (y.name == k)
      · rw [hk] at h
        exact ih h
      · rfl

theorem findNs_insertNamespace_isSome (e : Engine) (n : NsObj) (k : String)
    (h : (e.findNs k).isSome = true) : ((e.insertNamespace n).findNs k).isSome = true :=
  find?_upsert_isSome _ _ k h

theorem find?_append_of_some {α : Type} (p : α → Bool) (l l' : List α) {a : α}
    (h : l.find? p = some a) : (l ++ l').find? p = some a := by
  rw [List.find?_append, h]
  rfl

theorem findNs_ensureNs_of_some (e : Engine) (ns k : String) {n : NsObj} (h : e.findNs k = some n) :
    (ensureNs e ns).findNs k = some n := by
  unfold ensureNs
  split
  · exact h
  · exact find?_append_of_some _ _ _ h

theorem findNs_ensureNs_self (e : Engine) (ns : String) :
    ((ensureNs e ns).findNs ns).isSome = true := by
  unfold ensureNs
  split
  · assumption
  · rename_i h
    have hn : e.findNs ns = none := by simpa using h
    unfold findNs at hn ⊢
    rw [List.find?_append, hn]
    simp

theorem insertWorkload_namespaces (e : Engine) (w : Workload) :
    (e.insertWorkload w).namespaces = e.namespaces := by
  unfold insertWorkload
  generalize podsFromWorkload w = l
  induction l generalizing e with
  | nil => rfl
  | cons p l ih => rw [List.foldl_cons, ih]; rfl

theorem findNs_congr {e e' : Engine} (h : e'.namespaces = e.namespaces) (k : String) :
    e'.findNs k = e.findNs k := by
  unfold findNs
  rw [h]

theorem insertNetpol_ok {e e' : Engine} {p : NetPol} (h : e.insertNetpol p = .ok e') :
    e' = { e with netpols := e.netpols ++ [npDefaulted p] } := by
  unfold insertNetpol at h
  unfold npDefaulted
  generalize (if p.ns == "" then { p with ns := "default" } else p) = p' at h ⊢
  by_cases hd : (e.netpols.any fun q => q.ns == p'.ns && q.name == p'.name) = true
  · simp only [hd, if_true] at h; cases h
  · simp only [hd] at h; cases h; rfl

/-! ### the invariant -/

/-- what holds of every state of the insertion fold -/
structure Inv (x : XEngine) : Prop where
  anps : x.eng.anps = []
  banp : x.eng.banp = none
  expo : x.eng.exposure = true
  /-- the namespaces in which representative pods are placed exist -/
  repNs : ∀ krp ∈ x.reps, krp.2.ns ≠ "" → (x.eng.findNs krp.2.ns).isSome = true
  /-- every representative peer was generated from a rule selector pair of a policy of the engine -/
  origin : ∀ krp ∈ x.reps, ∃ np ∈ x.eng.netpols, ∃ rs ∈ allSels np,
    krp = (keyOf np.ns rs, newRep np.ns rs)

theorem inv_x0 : Inv x0 :=
  ⟨rfl, rfl, rfl, fun _ h => (by cases h), fun _ h => (by cases h)⟩

theorem repWF_newRep (ns : String) (rs : RuleSel) : RepWF (newRep ns rs) := ⟨rfl, rfl, rfl⟩

theorem Inv.repWF {x : XEngine} (h : Inv x) : ∀ krp ∈ x.reps, RepWF krp.2 := by
  intro krp hk
  obtain ⟨np, _, rs, _, rfl⟩ := h.origin krp hk
  exact repWF_newRep _ _

/-- the key of every rule selector pair of every policy is the key of a representative peer -/
def Cov1 (x : XEngine) : Prop :=
  ∀ np ∈ x.eng.netpols, ∀ rs ∈ allSels np, ∃ krp ∈ x.reps, krp.1 = keyOf np.ns rs

/-- the labels and namespace of the pods an input object stands for -/
def objPod (o : Obj) : Option (Labels × String) :=
  match o with
  | .wl w => some (w.labels, w.ns)
  | .pod p => some (p.labels, p.ns)
  | _ => none

/-- an input workload (or pod) whose labels, together with the labels of its namespace, make
`removeRepresentativePeersMatchingLabels` drop the representative pod `rp` -/
def DroppedBy (x : XEngine) (objs : List Obj) (rp : Pod) : Prop :=
  ∃ o ∈ objs, ∃ labels nsName nsobj, objPod o = some (labels, nsName) ∧
    x.eng.findNs nsName = some nsobj ∧ Dropped rp labels nsobj.labels

/-- the key of every rule selector pair is the key of a representative peer, or a representative
peer with that key was dropped because of an input workload -/
def Cov2 (x : XEngine) (objs : List Obj) : Prop :=
  ∀ np ∈ x.eng.netpols, ∀ rs ∈ allSels np,
    (∃ krp ∈ x.reps, krp.1 = keyOf np.ns rs) ∨
    ∃ np' ∈ x.eng.netpols, ∃ rs' ∈ allSels np', keyOf np'.ns rs' = keyOf np.ns rs ∧
      DroppedBy x objs (newRep np'.ns rs')

/-- phase 1: policies and namespaces -/
theorem bstep_phase1 (x x' : XEngine) (o : Obj) (ho : isPolNs o = true) (hi : Inv x) (hc : Cov1 x)
    (h : bstep x o = .ok x') : Inv x' ∧ Cov1 x' := by
  cases o with
  | np p =>
    unfold bstep at h
    cases hins : x.eng.insertNetpol p with
    | error err => simp [hins, bind, Except.bind] at h
    | ok e =>
      simp only [hins, bind, Except.bind, pure, Except.pure] at h
      have he := insertNetpol_ok hins
      subst he
      cases h
      -- abbreviations
      generalize hp' : npDefaulted p = p' at *
      have hnet : ∀ (c : Bool), (if c then
          ({ ({ x.eng with netpols := x.eng.netpols ++ [p'] } : Engine) with
            namespaces := ({ x.eng with netpols := x.eng.netpols ++ [p'] } : Engine).namespaces ++
              [⟨p'.ns, [(nsNameLabelKey, p'.ns)]⟩] } : Engine)
          else ({ x.eng with netpols := x.eng.netpols ++ [p'] } : Engine)).netpols =
          x.eng.netpols ++ [p'] := by
        intro c; cases c <;> rfl
      refine ⟨⟨?_, ?_, ?_, ?_, ?_⟩, ?_⟩
      · simp only []; split <;> exact hi.anps
      · simp only []; split <;> exact hi.banp
      · simp only []; split <;> exact hi.expo
      · intro krp hk hne
        simp only [] at hk
        rcases addAll_mem hk with hk | ⟨rs, hrs, rfl⟩
        · have := hi.repNs krp hk hne
          simp only []
          split
          · cases hf : x.eng.findNs krp.2.ns with
            | none => rw [hf] at this; cases this
            | some n =>
              have : ({ x.eng with netpols := x.eng.netpols ++ [p'] } : Engine).findNs krp.2.ns =
                  some n := hf
              show (List.find? _ (_ ++ _)).isSome = true
              rw [find?_append_of_some _ _ _ this]
              rfl
          · exact this
        · -- a new representative pod placed in the policy's namespace
          have hnone : rs.nsSel.isNone = true := by
            cases hn : rs.nsSel.isNone
            · simp [newRep, hn] at hne
            · rfl
          have hnsp : (newRep p'.ns rs).ns = p'.ns := by simp [newRep, hnone]
          simp only [hnsp]
          have hany : (allSels p').any (fun rs => rs.nsSel.isNone) = true :=
            List.any_eq_true.mpr ⟨rs, hrs, hnone⟩
          rw [hany]
          simp only [Bool.true_and]
          cases hf : (({ x.eng with netpols := x.eng.netpols ++ [p'] } : Engine).findNs p'.ns).isNone
          · simp only [Bool.false_eq_true, if_false]
            cases hf' : ({ x.eng with netpols := x.eng.netpols ++ [p'] } : Engine).findNs p'.ns with
            | none => rw [hf'] at hf; cases hf
            | some _ => rfl
          · simp only [if_true]
            have hn : ({ x.eng with netpols := x.eng.netpols ++ [p'] } : Engine).findNs p'.ns = none := by
              simpa using hf
            show (List.find? _ (_ ++ _)).isSome = true
            unfold findNs at hn
            rw [List.find?_append, hn]
            simp
      · intro krp hk
        simp only [] at hk
        rw [hnet]
        rcases addAll_mem hk with hk | ⟨rs, hrs, rfl⟩
        · obtain ⟨np, hnp, rs, hrs, heq⟩ := hi.origin krp hk
          exact ⟨np, List.mem_append_left _ hnp, rs, hrs, heq⟩
        · exact ⟨p', List.mem_append_right _ (List.mem_singleton.mpr rfl), rs, hrs, rfl⟩
      · intro np hnp rs hrs
        simp only [] at hnp ⊢
        rw [hnet] at hnp
        rcases List.mem_append.mp hnp with hnp | hnp
        · obtain ⟨krp, hk, he⟩ := hc np hnp rs hrs
          obtain ⟨krp', hk', he'⟩ := addAll_keys p'.ns (allSels p') hk
          exact ⟨krp', hk', he'.trans he⟩
        · rw [List.mem_singleton] at hnp
          subst hnp
          exact addAll_key x.reps np.ns (allSels np) hrs
  | ns n =>
    unfold bstep at h
    simp only [insertObject, bind, Except.bind, pure, Except.pure] at h
    cases h
    refine ⟨⟨hi.anps, hi.banp, hi.expo, ?_, hi.origin⟩, hc⟩
    intro krp hk hne
    exact findNs_insertNamespace_isSome _ _ _ (hi.repNs krp hk hne)
  | wl w => cases ho
  | pod p => cases ho
  | anp a => cases ho
  | banp b => cases ho
  | svc s => cases ho
  | ing i => cases ho
  | route r => cases ho

theorem ensureNs_fields (e : Engine) (ns : String) :
    Structure.polFields (ensureNs e ns) = Structure.polFields e := by
  unfold ensureNs
  split <;> rfl

theorem polFields_netpols' {e e' : Engine} (h : Structure.polFields e' = Structure.polFields e) :
    e'.netpols = e.netpols ∧ e'.anps = e.anps ∧ e'.banp = e.banp ∧ e'.exposure = e.exposure := by
  simp only [Structure.polFields, Prod.mk.injEq] at h
  exact ⟨h.1, h.2.1, h.2.2.2.1, h.2.2.2.2⟩

/-- phase 2, a workload or pod object: the pods are inserted, the namespace is created when
missing, the representative peers its labels satisfy are dropped -/
theorem phase2_common (x : XEngine) (objs : List Obj) (e1 : Engine)
    (hns : e1.namespaces = x.eng.namespaces)
    (hpf : Structure.polFields e1 = Structure.polFields x.eng) (o : Obj) (ho : o ∈ objs)
    (labels : Labels) (nsName : String) (hobj : objPod o = some (labels, nsName)) (hi : Inv x)
    (hc : Cov2 x objs) (x' : XEngine)
    (hx' : x' = { eng := ensureNs e1 nsName,
                  reps := removeMatching x.reps labels
                    ((((ensureNs e1 nsName).findNs nsName).map (·.labels)).getD []) }) :
    Inv x' ∧ Cov2 x' objs ∧ x'.eng.netpols = x.eng.netpols := by
  subst hx'
  obtain ⟨f1, f2, f3, f4⟩ := polFields_netpols' ((ensureNs_fields e1 nsName).trans hpf)
  have hstable : ∀ k n, x.eng.findNs k = some n → (ensureNs e1 nsName).findNs k = some n := by
    intro k n hk
    apply findNs_ensureNs_of_some
    rw [findNs_congr hns]
    exact hk
  refine ⟨⟨?_, ?_, ?_, ?_, ?_⟩, ?_, f1⟩
  · exact f2.trans hi.anps
  · exact f3.trans hi.banp
  · exact f4.trans hi.expo
  · intro krp hk hne
    have := hi.repNs krp (removeMatching_sub hk) hne
    cases hf : x.eng.findNs krp.2.ns with
    | none => rw [hf] at this; cases this
    | some n =>
      show ((ensureNs e1 nsName).findNs krp.2.ns).isSome = true
      rw [hstable _ _ hf]
      rfl
  · intro krp hk
    obtain ⟨np, hnp, rs, hrs, heq⟩ := hi.origin krp (removeMatching_sub hk)
    exact ⟨np, by show np ∈ (ensureNs e1 nsName).netpols; rw [f1]; exact hnp, rs, hrs, heq⟩
  · intro np hnp rs hrs
    have hnp' : np ∈ x.eng.netpols := by
      have : np ∈ (ensureNs e1 nsName).netpols := hnp
      rw [f1] at this; exact this
    have hdrop : ∀ rp, DroppedBy x objs rp →
        DroppedBy { eng := ensureNs e1 nsName,
                    reps := removeMatching x.reps labels
                      ((((ensureNs e1 nsName).findNs nsName).map (·.labels)).getD []) } objs rp := by
      rintro rp ⟨o', ho', l', n', nso', h1, h2, h3⟩
      exact ⟨o', ho', l', n', nso', h1, hstable _ _ h2, h3⟩
    rcases hc np hnp' rs hrs with ⟨krp, hk, he⟩ | ⟨np', hnp'', rs', hrs', hkey, hd⟩
    · rcases removeMatching_cases labels
          ((((ensureNs e1 nsName).findNs nsName).map (·.labels)).getD []) hk with hk' | hdr
      · exact Or.inl ⟨krp, hk', he⟩
      · right
        obtain ⟨np', hnp'', rs', hrs', heq⟩ := hi.origin krp hk
        subst heq
        refine ⟨np', by show np' ∈ (ensureNs e1 nsName).netpols; rw [f1]; exact hnp'', rs', hrs',
          he, o, ho, labels, nsName, ?_⟩
        have hsome := findNs_ensureNs_self e1 nsName
        cases hf : (ensureNs e1 nsName).findNs nsName with
        | none => rw [hf] at hsome; cases hsome
        | some nsobj =>
          rw [hf] at hdr
          exact ⟨nsobj, hobj, rfl, hdr⟩
    · exact Or.inr ⟨np', by show np' ∈ (ensureNs e1 nsName).netpols; rw [f1]; exact hnp'', rs', hrs',
        hkey, hdrop _ hd⟩

/-- phase 2: workloads, pods and the other objects -/
theorem bstep_phase2 (objs : List Obj) (x x' : XEngine) (o : Obj) (ho : o ∈ objs)
    (hpol : isPolNs o = false) (hi : Inv x) (hc : Cov2 x objs) (h : bstep x o = .ok x') :
    Inv x' ∧ Cov2 x' objs ∧ x'.eng.netpols = x.eng.netpols := by
  cases o with
  | np p => cases hpol
  | ns n => cases hpol
  | wl w =>
    unfold bstep at h
    simp only [pure, Except.pure] at h
    cases h
    exact phase2_common x objs (x.eng.insertWorkload w) (insertWorkload_namespaces _ _)
      (Structure.polFields_insertWorkload _ _) _ ho w.labels w.ns rfl hi hc _ rfl
  | pod p =>
    unfold bstep at h
    simp only [pure, Except.pure] at h
    split at h
    · cases h
    · cases h
      exact phase2_common x objs (x.eng.insertPodObj p) rfl
        (Structure.polFields_insertPodObj _ _) _ ho p.labels p.ns rfl hi hc _ rfl
  | anp a =>
    unfold bstep at h
    simp only [insertObject, insertANP, hi.expo, if_true, bind, Except.bind] at h
    cases h
  | banp b =>
    unfold bstep at h
    simp only [insertObject, insertBANP, hi.expo, if_true, bind, Except.bind] at h
    cases h
  | svc s =>
    unfold bstep at h
    simp only [insertObject, bind, Except.bind, pure, Except.pure] at h
    cases h
    exact ⟨hi, hc, rfl⟩
  | ing i =>
    unfold bstep at h
    simp only [insertObject, bind, Except.bind, pure, Except.pure] at h
    cases h
    exact ⟨hi, hc, rfl⟩
  | route r =>
    unfold bstep at h
    simp only [insertObject, bind, Except.bind, pure, Except.pure] at h
    cases h
    exact ⟨hi, hc, rfl⟩

/-- what `build` establishes -/
theorem build_inv {objs : List Obj} {x : XEngine} (h : build objs = .ok x) :
    Inv x ∧ Cov2 x objs := by
  rw [build_eq] at h
  cases h1 : (objs.filter isPolNs).foldlM bstep x0 with
  | error err => simp [h1, bind, Except.bind] at h
  | ok x1 =>
    simp only [h1, bind, Except.bind] at h
    -- phase 1
    have p1 : Inv x1 ∧ Cov1 x1 :=
      foldlM_invariant_mem (fun x => Inv x ∧ Cov1 x) (objs.filter isPolNs)
        (fun s o s' ho hs hstep =>
          bstep_phase1 s s' o (List.mem_filter.mp ho).2 hs.1 hs.2 hstep) x0 x1
        ⟨inv_x0, fun np hnp => by cases hnp⟩ h1
    -- phase 2
    have c2 : Cov2 x1 objs := fun np hnp rs hrs => Or.inl (p1.2 np hnp rs hrs)
    have p2 : Inv x ∧ Cov2 x objs :=
      foldlM_invariant_mem (fun x => Inv x ∧ Cov2 x objs) (objs.filter (fun o => !isPolNs o))
        (fun s o s' ho hs hstep => by
          obtain ⟨ho1, ho2⟩ := List.mem_filter.mp ho
          obtain ⟨a, b, _⟩ := bstep_phase2 objs s s' o ho1 (by simpa using ho2) hs.1 hs.2 hstep
          exact ⟨a, b⟩) x1 x ⟨p1.1, c2⟩ h
    exact p2

/-! ## E. consequences -/

theorem build_np_only {objs : List Obj} {x : XEngine} (h : build objs = .ok x) :
    x.eng.anps = [] ∧ x.eng.banp = none :=
  ⟨(build_inv h).1.anps, (build_inv h).1.banp⟩

theorem build_repWF {objs : List Obj} {x : XEngine} (h : build objs = .ok x) :
    ∀ krp ∈ x.reps, RepWF krp.2 :=
  (build_inv h).1.repWF

theorem build_repNamespaces {objs : List Obj} {x : XEngine} (h : build objs = .ok x) :
    RepNamespaces x :=
  (build_inv h).1.repNs

/-- the `missingNamespace` failure of the pair loop over representative peers never arises for an
engine `build` returns -/
theorem build_no_repNamespaceError {objs : List Obj} {x : XEngine} (h : build objs = .ok x)
    (peers : List LPeer) (focus : String) : repNamespaceError x peers focus = false := by
  unfold repNamespaceError
  have : (x.reps.any fun (krp : String × Pod) =>
      krp.2.ns != "" && (x.eng.findNs krp.2.ns).isNone) = false := by
    rw [List.any_eq_false]
    intro krp hk
    by_cases hn : krp.2.ns = ""
    · simp [hn]
    · have := build_repNamespaces h krp hk hn
      cases hf : x.eng.findNs krp.2.ns with
      | none => rw [hf] at this; cases this
      | some _ => simp
  rw [this]
  rfl

/-- two (optional) selectors with the same requirement strings and the same meaning; an absent
selector and an empty one are the same (no requirement) -/
def SelEquiv (a b : Option Selector) : Prop :=
  match a, b with
  | none, none => True
  | some s, some t => s.reqStrings = t.reqStrings ∧ ∀ l, s.matches l = t.matches l
  | none, some t => t.isEmpty = true
  | some s, none => s.isEmpty = true

theorem SelEquiv.refl (a : Option Selector) : SelEquiv a a := by
  cases a with
  | none => trivial
  | some s => exact ⟨rfl, fun _ => rfl⟩

/-- the map key of the representative peers is faithful on the rule selectors of the engine: two
selector pairs with the same key are the same pair up to the spelling of the selectors. (A theorem
for input with label syntax: `keyFaithful_of_ok`.) -/
def KeyFaithful (e : Engine) : Prop :=
  ∀ np1 ∈ e.netpols, ∀ rs1 ∈ allSels np1, ∀ np2 ∈ e.netpols, ∀ rs2 ∈ allSels np2,
    keyOf np1.ns rs1 = keyOf np2.ns rs2 →
      SelEquiv rs1.podSel rs2.podSel ∧ SelEquiv (some (nsOf np1.ns rs1)) (some (nsOf np2.ns rs2))

/-- the documented omission: the selectors `P` (pods) and `N` (namespaces) are — up to spelling —
label equalities only, and an input workload satisfies them with its labels and the labels of its
namespace -/
def Omitted (x : XEngine) (objs : List Obj) (P : Option Selector) (N : Selector) : Prop :=
  ∃ ps ns, SelEquiv (some ps) P ∧ SelEquiv (some ns) (some N) ∧ ps.exprs = [] ∧ ns.exprs = [] ∧
    ps.matchLabels ≠ [] ∧ ns.matchLabels ≠ [] ∧
    ∃ o ∈ objs, ∃ labels nsName nsobj, objPod o = some (labels, nsName) ∧
      x.eng.findNs nsName = some nsobj ∧ ps.matches labels = true ∧ ns.matches nsobj.labels = true

theorem mem_peerSels {peers : List NPPeer} {p n : Option Selector} (h : NPPeer.sel p n ∈ peers) :
    (⟨p, n⟩ : RuleSel) ∈ peerSels peers := by
  unfold peerSels
  rw [List.mem_filterMap]
  exact ⟨_, h, rfl⟩

theorem mem_allSels {np : NetPol} {d : Dir} (haff : np.affects d = true) {r : NPRule}
    (hr : r ∈ Spec.npRules np d) (hcw : isCW r = false) {p n : Option Selector}
    (h : NPPeer.sel p n ∈ r.peers) : (⟨p, n⟩ : RuleSel) ∈ allSels np := by
  have hs : (⟨p, n⟩ : RuleSel) ∈ (scanPure np d).sels := by
    rw [scanPure_sels, List.mem_flatMap]
    refine ⟨r, List.mem_filter.mpr ⟨?_, by simp [hcw]⟩, mem_peerSels h⟩
    unfold scanRules
    rw [haff]
    exact hr
  unfold allSels
  cases d
  · exact List.mem_append_left _ hs
  · exact List.mem_append_right _ hs

theorem nsOf_eq (ns : String) (p n : Option Selector) :
    nsOf ns ⟨p, n⟩ = n.getD (nsNameSelector ns) := by
  cases n <;> rfl

theorem selectorsFullMatch_of_reqStrings {s t : Selector} (h : s.reqStrings = t.reqStrings) :
    selectorsFullMatch s (some t) = true := by
  unfold selectorsFullMatch
  split
  · rfl
  · simp [h]

theorem matches_eq_of_exprs_nil {s : Selector} (h : s.exprs = []) (l : Labels) :
    (⟨s.matchLabels, []⟩ : Selector).matches l = s.matches l := by
  cases s
  simp only at h
  subst h
  rfl

/-- Every rule peer with selectors has its representative peer in the engine `build` returns —
one that the rule peer selects and that every pod matched by the rule peer satisfies — unless the
representative peer was dropped because an input workload satisfies its selectors -/
theorem build_covers {objs : List Obj} {x : XEngine} (h : build objs = .ok x)
    (hK : KeyFaithful x.eng) (np : NetPol) (hnp : np ∈ x.eng.netpols) (d : Dir)
    (haff : np.affects d = true) (r : NPRule) (hr : r ∈ Spec.npRules np d) (hcw : isCW r = false)
    (podSel nsSel : Option Selector) (hpeer : NPPeer.sel podSel nsSel ∈ r.peers) (q : Pod)
    (nsl : Labels) (hc : NsConsistent q nsl)
    (hm : Spec.npPeerMatches np (.sel podSel nsSel) (.pod q nsl) = true) :
    RepCovers x np (.sel podSel nsSel) q nsl ∨
      Omitted x objs podSel (nsSel.getD (nsNameSelector np.ns)) := by
  obtain ⟨hinv, hcov⟩ := build_inv h
  have hrs := mem_allSels haff hr hcw hpeer
  -- the rule peer's own selectors are satisfied by `q`
  rw [Spec.npPeerMatches_sel_pod, Bool.and_eq_true] at hm
  have hN : (nsSel.getD (nsNameSelector np.ns)).matches nsl = true := by
    cases nsSel with
    | some s => exact hm.1
    | none =>
      have : np.ns = q.ns := by simpa using hm.1
      simp only [Option.getD_none, nsNameSelector, Selector.matches, List.all_cons, List.all_nil,
        Bool.and_true, beq_iff_eq]
      rw [hc, this]
  rcases hcov np hnp ⟨podSel, nsSel⟩ hrs with ⟨krp, hk, hkey⟩ | ⟨np', hnp', rs', hrs', hkey, hd⟩
  · -- present: generated from a selector pair with the same key
    left
    obtain ⟨np', hnp', rs', hrs', heq⟩ := hinv.origin krp hk
    subst heq
    obtain ⟨eP, eN⟩ := hK np' hnp' rs' hrs' np hnp ⟨podSel, nsSel⟩ hrs hkey
    rw [nsOf_eq np.ns podSel nsSel] at eN
    refine ⟨_, hk, ?_, ?_, ?_⟩
    · show repPeerMatch np rs'.podSel (some (nsOf np'.ns rs')) (.sel podSel nsSel) = true
      unfold repPeerMatch
      rw [Bool.and_eq_true]
      constructor
      · cases nsSel with
        | none => exact selectorsFullMatch_of_reqStrings eN.1.symm
        | some s => exact selectorsFullMatch_of_reqStrings eN.1.symm
      · cases podSel with
        | none => rfl
        | some ps =>
          cases hp' : rs'.podSel with
          | none => rw [hp'] at eP; exact selectorsFullMatch_of_isEmpty eP _
          | some ps' =>
            rw [hp'] at eP
            exact selectorsFullMatch_of_reqStrings eP.1.symm
    · intro ps' hps'
      have hps'' : rs'.podSel = some ps' := hps'
      rw [hps''] at eP
      cases podSel with
      | none => exact Selector.matches_of_isEmpty eP _
      | some ps => rw [eP.2]; exact hm.2
    · intro ns' hns'
      have : ns' = nsOf np'.ns rs' := (Option.some.inj hns').symm
      subst this
      rw [eN.2]
      exact hN
  · -- dropped
    right
    obtain ⟨eP, eN⟩ := hK np' hnp' rs' hrs' np hnp ⟨podSel, nsSel⟩ hrs hkey
    rw [nsOf_eq np.ns podSel nsSel] at eN
    obtain ⟨o, ho, labels, nsName, nsobj, h1, h2, ps, ns, hP, hNs, e1, e2, n1, n2, m1, m2⟩ := hd
    have hP' : rs'.podSel = some ps := hP
    have hNs' : nsOf np'.ns rs' = ns := Option.some.inj hNs
    rw [hP'] at eP
    rw [hNs'] at eN
    refine ⟨ps, ns, eP, eN, e1, e2, n1, n2, o, ho, labels, nsName, nsobj, h1, h2, ?_, ?_⟩
    · rw [← matches_eq_of_exprs_nil e1]; exact m1
    · rw [← matches_eq_of_exprs_nil e2]; exact m2

/-! ## F. the engine of `Exposure.build` and the engine of `Engine.build`

`list --exposure` inserts policies and namespaces first and creates missing namespaces on the way;
`list` inserts in input order and creates the missing namespaces at the end. The two engines hold
the same policies and pods, and every pod finds the same namespace object. -/

def npStep (a : List NetPol) (o : Obj) : List NetPol :=
  match o with
  | .np p => a ++ [npDefaulted p]
  | _ => a

def podStep (a : List Pod) (o : Obj) : List Pod :=
  match o with
  | .wl w => (podsFromWorkload w).foldl (fun a p => upsert podKey p a) a
  | .pod p => upsert podKey p a
  | _ => a

def nsStep (a : List NsObj) (o : Obj) : List NsObj :=
  match o with
  | .ns n => upsert (·.name) (nsFromCore n) a
  | _ => a

theorem foldl_filter_of_id {α β : Type} (step : β → α → β) (keep : α → Bool)
    (h : ∀ o, keep o = false → ∀ a, step a o = a) (l : List α) (a : β) :
    (l.filter keep).foldl step a = l.foldl step a := by
  induction l generalizing a with
  | nil => rfl
  | cons o l ih =>
    rw [List.filter_cons]
    cases hk : keep o
    · simp only [Bool.false_eq_true, if_false, List.foldl_cons, h o hk a]
      exact ih a
    · simp only [if_true, List.foldl_cons]
      exact ih _

theorem foldl_filter_all_id {α β : Type} (step : β → α → β) (keep : α → Bool)
    (h : ∀ o, keep o = true → ∀ a, step a o = a) (l : List α) (a : β) :
    (l.filter keep).foldl step a = a := by
  induction l generalizing a with
  | nil => rfl
  | cons o l ih =>
    rw [List.filter_cons]
    cases hk : keep o
    · simp only [Bool.false_eq_true, if_false]
      exact ih a
    · simp only [if_true, List.foldl_cons, h o hk a]
      exact ih a

/-- policies/namespaces first, then the rest: the same three components as in input order -/
theorem split_npStep (objs : List Obj) (a : List NetPol) :
    (objs.filter (fun o => !isPolNs o)).foldl npStep ((objs.filter isPolNs).foldl npStep a) =
      objs.foldl npStep a := by
  rw [foldl_filter_all_id npStep (fun o => !isPolNs o)
    (fun o ho b => by cases o <;> first | rfl | (simp [isPolNs] at ho))]
  exact foldl_filter_of_id npStep isPolNs
    (fun o ho b => by cases o <;> first | rfl | (simp [isPolNs] at ho)) objs a

theorem split_podStep (objs : List Obj) (a : List Pod) :
    (objs.filter (fun o => !isPolNs o)).foldl podStep ((objs.filter isPolNs).foldl podStep a) =
      objs.foldl podStep a := by
  rw [foldl_filter_all_id podStep isPolNs
    (fun o ho b => by cases o <;> first | rfl | (simp [isPolNs] at ho))]
  exact foldl_filter_of_id podStep (fun o => !isPolNs o)
    (fun o ho b => by cases o <;> first | rfl | (simp [isPolNs] at ho)) objs a

theorem split_nsStep (objs : List Obj) (a : List NsObj) :
    (objs.filter (fun o => !isPolNs o)).foldl nsStep ((objs.filter isPolNs).foldl nsStep a) =
      objs.foldl nsStep a := by
  rw [foldl_filter_all_id nsStep (fun o => !isPolNs o)
    (fun o ho b => by cases o <;> first | rfl | (simp [isPolNs] at ho))]
  exact foldl_filter_of_id nsStep isPolNs
    (fun o ho b => by cases o <;> first | rfl | (simp [isPolNs] at ho)) objs a

theorem insertWorkload_pods (e : Engine) (w : Workload) :
    (e.insertWorkload w).pods = (podsFromWorkload w).foldl (fun a p => upsert podKey p a) e.pods := by
  unfold insertWorkload
  generalize podsFromWorkload w = l
  induction l generalizing e with
  | nil => rfl
  | cons p l ih => rw [List.foldl_cons, List.foldl_cons, ih]; rfl

/-- one step of the plain insertion fold on the three components -/
theorem insertObject_comps {e e' : Engine} {o : Obj} (h : e.insertObject o = .ok e') :
    e'.netpols = npStep e.netpols o ∧ e'.pods = podStep e.pods o ∧
      e'.namespaces = nsStep e.namespaces o := by
  cases o with
  | ns n => simp only [insertObject, Except.ok.injEq] at h; subst h; exact ⟨rfl, rfl, rfl⟩
  | wl w =>
    simp only [insertObject, Except.ok.injEq] at h; subst h
    exact ⟨(polFields_netpols' (Structure.polFields_insertWorkload e w)).1, insertWorkload_pods e w,
      insertWorkload_namespaces e w⟩
  | pod p =>
    simp only [insertObject] at h
    split at h
    · cases h
    · simp only [Except.ok.injEq] at h; subst h; exact ⟨rfl, rfl, rfl⟩
  | np p =>
    have := insertNetpol_ok (show e.insertNetpol p = .ok e' from h)
    subst this
    exact ⟨rfl, rfl, rfl⟩
  | anp a =>
    have he := Structure.insertANP_eq (show e.insertANP a = .ok e' from h)
    subst he; exact ⟨rfl, rfl, rfl⟩
  | banp b =>
    simp only [insertObject, insertBANP] at h
    split at h
    · cases h
    · split at h
      · cases h
      · split at h
        · cases h
        · simp only [Except.ok.injEq] at h; subst h; exact ⟨rfl, rfl, rfl⟩
  | svc _ => simp only [insertObject, Except.ok.injEq] at h; subst h; exact ⟨rfl, rfl, rfl⟩
  | ing _ => simp only [insertObject, Except.ok.injEq] at h; subst h; exact ⟨rfl, rfl, rfl⟩
  | route _ => simp only [insertObject, Except.ok.injEq] at h; subst h; exact ⟨rfl, rfl, rfl⟩

theorem foldlM_insertObject_comps (objs : List Obj) (e0 e : Engine)
    (h : objs.foldlM insertObject e0 = .ok e) :
    e.netpols = objs.foldl npStep e0.netpols ∧ e.pods = objs.foldl podStep e0.pods ∧
      e.namespaces = objs.foldl nsStep e0.namespaces := by
  induction objs generalizing e0 with
  | nil => cases h; exact ⟨rfl, rfl, rfl⟩
  | cons o l ih =>
    rw [List.foldlM_cons] at h
    cases h1 : e0.insertObject o with
    | error err => simp [h1, bind, Except.bind] at h
    | ok e1 =>
      simp only [h1, bind, Except.bind] at h
      obtain ⟨a, b, c⟩ := insertObject_comps h1
      obtain ⟨a', b', c'⟩ := ih e1 h
      simp only [List.foldl_cons]
      rw [← a, ← b, ← c]
      exact ⟨a', b', c'⟩

/-! ### namespaces: a base list of explicit namespace objects, plus default objects for missing names -/

theorem find?_upsert (n : NsObj) (l : List NsObj) (k : String) :
    (upsert (·.name) n l).find? (·.name == k) =
      if n.name == k then some n else l.find? (·.name == k) := by
  induction l with
  | nil => cases h : (n.name == k) <;> simp [upsert, h]
  | cons y ys ih =>
    unfold upsert
    by_cases hy : (y.name == n.name) = true
    · simp only [hy, if_true, List.find?_cons]
      by_cases hk : (n.name == k) = true
      · simp [hk]
      · have hk' : (n.name == k) = false := by simpa using hk
        have : (y.name == k) = false := by
          rw [beq_iff_eq] at hy
          rw [hy]; exact hk'
        simp [hk', this]
    · have hy' : (y.name == n.name) = false := by simpa using hy
      simp only [hy', Bool.false_eq_true, if_false, List.find?_cons, ih]
      by_cases hk : (n.name == k) = true
      · have : (y.name == k) = false := by
          rw [beq_iff_eq] at hk
          rw [← hk]; exact hy'
        simp [hk, this]
      · have hk' : (n.name == k) = false := by simpa using hk
        simp [hk']

/-- `N` extends the base list `B` by default objects for names `B` does not hold -/
def NsInv (B N : List NsObj) : Prop :=
  ∀ k, (∀ n, B.find? (·.name == k) = some n → N.find? (·.name == k) = some n) ∧
    (B.find? (·.name == k) = none → N.find? (·.name == k) = none ∨
      N.find? (·.name == k) = some ⟨k, [(nsNameLabelKey, k)]⟩)

theorem nsInv_refl (B : List NsObj) : NsInv B B := fun _ => ⟨fun _ h => h, fun h => Or.inl h⟩

theorem nsInv_upsert {B N : List NsObj} (h : NsInv B N) (n : NsObj) :
    NsInv (upsert (·.name) n B) (upsert (·.name) n N) := by
  intro k
  rw [find?_upsert, find?_upsert]
  by_cases hk : (n.name == k) = true
  · simp only [hk, if_true]
    exact ⟨fun _ h => h, fun h => by cases h⟩
  · simp only [hk]
    exact h k

theorem nsInv_append {B N : List NsObj} (h : NsInv B N) (k0 : String)
    (_hk0 : N.find? (·.name == k0) = none) :
    NsInv B (N ++ [⟨k0, [(nsNameLabelKey, k0)]⟩]) := by
  intro k
  obtain ⟨h1, h2⟩ := h k
  constructor
  · intro n hn
    exact find?_append_of_some _ _ _ (h1 n hn)
  · intro hn
    rcases h2 hn with h3 | h3
    · rw [List.find?_append, h3]
      by_cases hk : (k0 == k) = true
      · right
        have : k0 = k := beq_iff_eq.mp hk
        subst this
        simp
      · left
        have hk' : (k0 == k) = false := by simpa using hk
        simp [hk']
    · exact Or.inr (find?_append_of_some _ _ _ h3)

theorem nsInv_ensureNs {B : List NsObj} {e : Engine} (h : NsInv B e.namespaces) (ns : String) :
    NsInv B (ensureNs e ns).namespaces := by
  unfold ensureNs
  split
  · exact h
  · rename_i hn
    exact nsInv_append h ns (by simpa [findNs] using hn)

/-- two extensions of the same base agree on every name both hold -/
theorem nsInv_agree {B N N' : List NsObj} (h : NsInv B N) (h' : NsInv B N') (k : String)
    (hs : (N.find? (·.name == k)).isSome = true) (hs' : (N'.find? (·.name == k)).isSome = true) :
    N.find? (·.name == k) = N'.find? (·.name == k) := by
  cases hb : B.find? (·.name == k) with
  | some n => rw [(h k).1 n hb, (h' k).1 n hb]
  | none =>
    rcases (h k).2 hb with h1 | h1
    · rw [h1] at hs; cases hs
    · rcases (h' k).2 hb with h2 | h2
      · rw [h2] at hs'; cases hs'
      · rw [h1, h2]

/-! ### the exposure fold on the three components -/

/-- the components of the state, the namespaces relative to a base list, and: every pod finds its
namespace -/
structure CompInv (A : List NetPol) (P : List Pod) (B : List NsObj) (x : XEngine) : Prop where
  nps : x.eng.netpols = A
  pods : x.eng.pods = P
  nss : NsInv B x.eng.namespaces
  podNs : ∀ p ∈ x.eng.pods, (x.eng.findNs p.ns).isSome = true

theorem findNs_isSome_append (e : Engine) (extra : List NsObj) (k : String)
    (h : (e.findNs k).isSome = true) :
    (({ e with namespaces := e.namespaces ++ extra } : Engine).findNs k).isSome = true := by
  cases hf : e.findNs k with
  | none => rw [hf] at h; cases h
  | some n =>
    show (List.find? _ (_ ++ _)).isSome = true
    rw [find?_append_of_some _ _ _ hf]
    rfl

theorem mem_foldl_upsert {l : List Pod} {a : List Pod} {p : Pod}
    (h : p ∈ l.foldl (fun a p => upsert podKey p a) a) : p ∈ l ∨ p ∈ a := by
  induction l generalizing a with
  | nil => exact Or.inr h
  | cons q l ih =>
    rcases ih (a := upsert podKey q a) h with h1 | h1
    · exact Or.inl (List.mem_cons_of_mem _ h1)
    · rcases Structure.mem_upsert h1 with rfl | h2
      · exact Or.inl (List.mem_cons_self ..)
      · exact Or.inr h2

theorem podsFromWorkload_ns {w : Workload} {p : Pod} (h : p ∈ podsFromWorkload w) : p.ns = w.ns := by
  unfold podsFromWorkload at h
  simp only [List.mem_map] at h
  obtain ⟨i, _, rfl⟩ := h
  rfl

theorem bstep_comps {A : List NetPol} {P : List Pod} {B : List NsObj} {x x' : XEngine} {o : Obj}
    (hi : CompInv A P B x) (h : bstep x o = .ok x') :
    CompInv (npStep A o) (podStep P o) (nsStep B o) x' := by
  obtain ⟨i1, i2, i3, i4⟩ := hi
  cases o with
  | np p =>
    unfold bstep at h
    cases hins : x.eng.insertNetpol p with
    | error err => simp [hins, bind, Except.bind] at h
    | ok e =>
      simp only [hins, bind, Except.bind, pure, Except.pure] at h
      have he := insertNetpol_ok hins
      subst he
      cases h
      refine ⟨?_, ?_, ?_, ?_⟩
      · simp only []
        split <;> (show _ ++ [npDefaulted p] = _; rw [i1]; rfl)
      · simp only []
        split <;> exact i2
      · simp only []
        split
        · rename_i hc
          rw [Bool.and_eq_true] at hc
          exact nsInv_append i3 (npDefaulted p).ns (by simpa [findNs] using hc.2)
        · exact i3
      · intro q hq
        simp only [] at hq ⊢
        have hq' : q ∈ x.eng.pods := by
          split at hq <;> exact hq
        have := i4 q hq'
        split
        · exact findNs_isSome_append _ _ _ this
        · exact this
  | wl w =>
    unfold bstep at h
    simp only [pure, Except.pure] at h
    cases h
    have hns := insertWorkload_namespaces x.eng w
    obtain ⟨f1, _⟩ := polFields_netpols' ((ensureNs_fields (x.eng.insertWorkload w) w.ns).trans
      (Structure.polFields_insertWorkload x.eng w))
    have hpods : (ensureNs (x.eng.insertWorkload w) w.ns).pods = (x.eng.insertWorkload w).pods := by
      unfold ensureNs; split <;> rfl
    refine ⟨f1.trans i1, ?_, ?_, ?_⟩
    · show (ensureNs (x.eng.insertWorkload w) w.ns).pods = _
      rw [hpods, insertWorkload_pods, i2]
      rfl
    · apply nsInv_ensureNs
      rw [hns]; exact i3
    · intro q hq
      have hq' : q ∈ (x.eng.insertWorkload w).pods := by
        have : q ∈ (ensureNs (x.eng.insertWorkload w) w.ns).pods := hq
        rw [hpods] at this; exact this
      rw [insertWorkload_pods] at hq'
      rcases mem_foldl_upsert hq' with h1 | h1
      · rw [podsFromWorkload_ns h1]
        exact findNs_ensureNs_self _ _
      · have := i4 q h1
        cases hf : x.eng.findNs q.ns with
        | none => rw [hf] at this; cases this
        | some n =>
          show ((ensureNs (x.eng.insertWorkload w) w.ns).findNs q.ns).isSome = true
          rw [findNs_ensureNs_of_some _ _ _ (by rw [findNs_congr hns]; exact hf)]
          rfl
  | pod p =>
    unfold bstep at h
    simp only [pure, Except.pure] at h
    split at h
    · cases h
    · cases h
      have hpods : (ensureNs (x.eng.insertPodObj p) p.ns).pods = (x.eng.insertPodObj p).pods := by
        unfold ensureNs; split <;> rfl
      obtain ⟨f1, _⟩ := polFields_netpols' ((ensureNs_fields (x.eng.insertPodObj p) p.ns).trans
        (Structure.polFields_insertPodObj x.eng p))
      refine ⟨f1.trans i1, ?_, ?_, ?_⟩
      · show (ensureNs (x.eng.insertPodObj p) p.ns).pods = _
        rw [hpods]
        show upsert podKey p x.eng.pods = _
        rw [i2]; rfl
      · exact nsInv_ensureNs (e := x.eng.insertPodObj p) i3 p.ns
      · intro q hq
        have hq' : q ∈ upsert podKey p x.eng.pods := by
          have : q ∈ (ensureNs (x.eng.insertPodObj p) p.ns).pods := hq
          rw [hpods] at this; exact this
        rcases Structure.mem_upsert hq' with rfl | h1
        · exact findNs_ensureNs_self _ _
        · have := i4 q h1
          cases hf : x.eng.findNs q.ns with
          | none => rw [hf] at this; cases this
          | some n =>
            show ((ensureNs (x.eng.insertPodObj p) p.ns).findNs q.ns).isSome = true
            rw [findNs_ensureNs_of_some (x.eng.insertPodObj p) p.ns q.ns hf]
            rfl
  | ns n =>
    unfold bstep at h
    simp only [insertObject, bind, Except.bind, pure, Except.pure] at h
    cases h
    refine ⟨i1, i2, nsInv_upsert i3 _, ?_⟩
    intro q hq
    exact findNs_insertNamespace_isSome _ _ _ (i4 q hq)
  | anp a =>
    unfold bstep at h
    cases hio : x.eng.insertObject (.anp a) with
    | error err => simp [hio, bind, Except.bind] at h
    | ok e =>
      simp only [hio, bind, Except.bind, pure, Except.pure] at h
      cases h
      obtain ⟨a1, a2, a3⟩ := insertObject_comps hio
      exact ⟨a1.trans i1, a2.trans i2, by rw [a3]; exact i3,
        fun q hq => by
          have hq' : q ∈ x.eng.pods := by rw [← show e.pods = x.eng.pods from a2]; exact hq
          have := i4 q hq'
          rw [← findNs_congr (show e.namespaces = x.eng.namespaces from a3)] at this
          exact this⟩
  | banp b =>
    unfold bstep at h
    cases hio : x.eng.insertObject (.banp b) with
    | error err => simp [hio, bind, Except.bind] at h
    | ok e =>
      simp only [hio, bind, Except.bind, pure, Except.pure] at h
      cases h
      obtain ⟨a1, a2, a3⟩ := insertObject_comps hio
      exact ⟨a1.trans i1, a2.trans i2, by rw [a3]; exact i3,
        fun q hq => by
          have hq' : q ∈ x.eng.pods := by rw [← show e.pods = x.eng.pods from a2]; exact hq
          have := i4 q hq'
          rw [← findNs_congr (show e.namespaces = x.eng.namespaces from a3)] at this
          exact this⟩
  | svc _ =>
    unfold bstep at h
    simp only [insertObject, bind, Except.bind, pure, Except.pure] at h
    cases h
    exact ⟨i1, i2, i3, i4⟩
  | ing _ =>
    unfold bstep at h
    simp only [insertObject, bind, Except.bind, pure, Except.pure] at h
    cases h
    exact ⟨i1, i2, i3, i4⟩
  | route _ =>
    unfold bstep at h
    simp only [insertObject, bind, Except.bind, pure, Except.pure] at h
    cases h
    exact ⟨i1, i2, i3, i4⟩

theorem foldlM_bstep_comps (l : List Obj) {A : List NetPol} {P : List Pod} {B : List NsObj}
    {x x' : XEngine} (hi : CompInv A P B x) (h : l.foldlM bstep x = .ok x') :
    CompInv (l.foldl npStep A) (l.foldl podStep P) (l.foldl nsStep B) x' := by
  induction l generalizing A P B x with
  | nil => cases h; exact hi
  | cons o l ih =>
    rw [List.foldlM_cons] at h
    cases h1 : bstep x o with
    | error err => simp [h1, bind, Except.bind] at h
    | ok x1 =>
      simp only [h1, bind, Except.bind] at h
      exact ih (bstep_comps hi h1) h

/-! ### the plain build -/

theorem resolveMissing_eq (e : Engine) :
    e.resolveMissingNamespaces = e.pods.foldl (fun acc p => ensureNs acc p.ns) e := rfl

theorem foldl_ensureNs_spec (B : List NsObj) (ps : List Pod) (a : Engine)
    (h : NsInv B a.namespaces) :
    let a' := ps.foldl (fun acc p => ensureNs acc p.ns) a
    NsInv B a'.namespaces ∧ Structure.polFields a' = Structure.polFields a ∧ a'.pods = a.pods ∧
      (∀ k, (a.findNs k).isSome = true → (a'.findNs k).isSome = true) ∧
      ∀ p ∈ ps, (a'.findNs p.ns).isSome = true := by
  induction ps generalizing a with
  | nil => exact ⟨h, rfl, rfl, fun _ hk => hk, fun _ hp => by cases hp⟩
  | cons q rest ih =>
    obtain ⟨i1, i2, i3, i4, i5⟩ := ih (ensureNs a q.ns) (nsInv_ensureNs h q.ns)
    have hpods : (ensureNs a q.ns).pods = a.pods := by unfold ensureNs; split <;> rfl
    have hmono : ∀ k, (a.findNs k).isSome = true → ((ensureNs a q.ns).findNs k).isSome = true := by
      intro k hk
      cases hf : a.findNs k with
      | none => rw [hf] at hk; cases hk
      | some n => rw [findNs_ensureNs_of_some a q.ns k hf]; rfl
    refine ⟨i1, i2.trans (ensureNs_fields a q.ns), i3.trans hpods, fun k hk => i4 k (hmono k hk), ?_⟩
    intro p hp
    rcases List.mem_cons.mp hp with rfl | hp'
    · exact i4 _ (findNs_ensureNs_self a p.ns)
    · exact i5 p hp'

def isAdmin (o : Obj) : Bool := match o with | .anp _ | .banp _ => true | _ => false

theorem bstep_expo {x x' : XEngine} {o : Obj} (h : bstep x o = .ok x') :
    x'.eng.exposure = x.eng.exposure := by
  cases o with
  | np p =>
    unfold bstep at h
    cases hins : x.eng.insertNetpol p with
    | error err => simp [hins, bind, Except.bind] at h
    | ok e =>
      simp only [hins, bind, Except.bind, pure, Except.pure] at h
      have he := insertNetpol_ok hins
      subst he
      cases h
      simp only []
      split <;> rfl
  | wl w =>
    unfold bstep at h
    simp only [pure, Except.pure] at h
    cases h
    exact (polFields_netpols' ((ensureNs_fields _ _).trans
      (Structure.polFields_insertWorkload x.eng w))).2.2.2
  | pod p =>
    unfold bstep at h
    simp only [pure, Except.pure] at h
    split at h
    · cases h
    · cases h
      exact (polFields_netpols' ((ensureNs_fields _ _).trans
        (Structure.polFields_insertPodObj x.eng p))).2.2.2
  | ns n =>
    unfold bstep at h
    simp only [insertObject, bind, Except.bind, pure, Except.pure] at h
    cases h; rfl
  | anp a =>
    unfold bstep at h
    cases hio : x.eng.insertObject (.anp a) with
    | error err => simp [hio, bind, Except.bind] at h
    | ok e =>
      simp only [hio, bind, Except.bind, pure, Except.pure] at h
      cases h
      have := Structure.insertObject_ok hio
      simp only [] at this
      exact congrArg (·.2.2.2.2) this.2.2
  | banp b =>
    unfold bstep at h
    cases hio : x.eng.insertObject (.banp b) with
    | error err => simp [hio, bind, Except.bind] at h
    | ok e =>
      simp only [hio, bind, Except.bind, pure, Except.pure] at h
      cases h
      have := Structure.insertObject_ok hio
      simp only [] at this
      have h4 := this.2.2.2
      exact congrArg (·.2.2.2.2) h4
  | svc _ =>
    unfold bstep at h
    simp only [insertObject, bind, Except.bind, pure, Except.pure] at h
    cases h; rfl
  | ing _ =>
    unfold bstep at h
    simp only [insertObject, bind, Except.bind, pure, Except.pure] at h
    cases h; rfl
  | route _ =>
    unfold bstep at h
    simp only [insertObject, bind, Except.bind, pure, Except.pure] at h
    cases h; rfl

/-- a successful exposure fold met no admin policy -/
theorem foldlM_bstep_noadmin (l : List Obj) (x x' : XEngine) (hx : x.eng.exposure = true)
    (h : l.foldlM bstep x = .ok x') : (∀ o ∈ l, isAdmin o = false) ∧ x'.eng.exposure = true := by
  induction l generalizing x with
  | nil => cases h; exact ⟨fun _ ho => (by cases ho), hx⟩
  | cons o l ih =>
    rw [List.foldlM_cons] at h
    cases h1 : bstep x o with
    | error err => simp [h1, bind, Except.bind] at h
    | ok x1 =>
      simp only [h1, bind, Except.bind] at h
      obtain ⟨a, b⟩ := ih x1 ((bstep_expo h1).trans hx) h
      refine ⟨?_, b⟩
      intro o' ho'
      rcases List.mem_cons.mp ho' with rfl | ho''
      · cases o' with
        | anp a' =>
          exfalso
          unfold bstep at h1
          simp only [insertObject, insertANP, hx, if_true, bind, Except.bind] at h1
          cases h1
        | banp b' =>
          exfalso
          unfold bstep at h1
          simp only [insertObject, insertBANP, hx, if_true, bind, Except.bind] at h1
          cases h1
        | _ => rfl
      · exact a o' ho''

theorem build_noadmin {objs : List Obj} {x : XEngine} (h : build objs = .ok x) :
    ∀ o ∈ objs, isAdmin o = false := by
  rw [build_eq] at h
  cases h1 : (objs.filter isPolNs).foldlM bstep x0 with
  | error err => simp [h1, bind, Except.bind] at h
  | ok x1 =>
    simp only [h1, bind, Except.bind] at h
    obtain ⟨_, e1⟩ := foldlM_bstep_noadmin _ x0 x1 rfl h1
    obtain ⟨a2, _⟩ := foldlM_bstep_noadmin _ x1 x e1 h
    intro o ho
    cases hp : isPolNs o
    · exact a2 o (List.mem_filter.mpr ⟨ho, by simp [hp]⟩)
    · cases o <;> first | rfl | (simp [isPolNs] at hp)

theorem foldlM_insertObject_noadmin (objs : List Obj) (h : ∀ o ∈ objs, isAdmin o = false)
    (e0 e : Engine) (hf : objs.foldlM insertObject e0 = .ok e) :
    e.anps = e0.anps ∧ e.banp = e0.banp := by
  induction objs generalizing e0 with
  | nil => cases hf; exact ⟨rfl, rfl⟩
  | cons o l ih =>
    rw [List.foldlM_cons] at hf
    cases h1 : e0.insertObject o with
    | error err => simp [h1, bind, Except.bind] at hf
    | ok e1 =>
      simp only [h1, bind, Except.bind] at hf
      obtain ⟨a, b⟩ := ih (fun o' ho' => h o' (List.mem_cons_of_mem _ ho')) e1 hf
      have hadm := h o (List.mem_cons_self ..)
      have hok := Structure.insertObject_ok h1
      have : e1.anps = e0.anps ∧ e1.banp = e0.banp := by
        cases o with
        | anp _ => cases hadm
        | banp _ => cases hadm
        | np p =>
          simp only [] at hok
          exact ⟨congrArg (·.2.1) hok.2, congrArg (·.2.2.2.1) hok.2⟩
        | pod p =>
          simp only [] at hok
          exact ⟨Structure.polFields_anps hok.2, Structure.polFields_banp hok.2⟩
        | ns _ => exact ⟨Structure.polFields_anps hok, Structure.polFields_banp hok⟩
        | wl _ => exact ⟨Structure.polFields_anps hok, Structure.polFields_banp hok⟩
        | svc _ => exact ⟨Structure.polFields_anps hok, Structure.polFields_banp hok⟩
        | ing _ => exact ⟨Structure.polFields_anps hok, Structure.polFields_banp hok⟩
        | route _ => exact ⟨Structure.polFields_anps hok, Structure.polFields_banp hok⟩
      exact ⟨a.trans this.1, b.trans this.2⟩

/-- The engine `list --exposure` analyses and the engine `list` analyses, for the same input: the
same policies, the same pods, no admin policies, and every pod finds the same namespace object -/
theorem build_agree {objs : List Obj} {x : XEngine} {e : Engine} (hx : build objs = .ok x)
    (he : Engine.build objs = .ok e) :
    x.eng.netpols = e.netpols ∧ x.eng.pods = e.pods ∧ e.anps = [] ∧ e.banp = none ∧
      ∀ p ∈ e.pods, x.eng.findNs p.ns = e.findNs p.ns ∧ (e.findNs p.ns).isSome = true := by
  -- the exposure side
  rw [build_eq] at hx
  cases h1 : (objs.filter isPolNs).foldlM bstep x0 with
  | error err => simp [h1, bind, Except.bind] at hx
  | ok x1 =>
    simp only [h1, bind, Except.bind] at hx
    have c0 : CompInv [] [] [] x0 := ⟨rfl, rfl, nsInv_refl _, fun _ hp => by cases hp⟩
    have c1 := foldlM_bstep_comps _ c0 h1
    have c2 := foldlM_bstep_comps _ c1 hx
    rw [split_npStep, split_podStep, split_nsStep] at c2
    -- the plain side
    have hadm := build_noadmin (by rw [build_eq, h1]; exact hx : build objs = .ok x)
    rw [Structure.build_eq] at he
    cases h2 : objs.foldlM insertObject ({} : Engine) with
    | error err => simp [h2] at he
    | ok e0 =>
      simp only [h2] at he
      obtain ⟨n1, n2, n3⟩ := foldlM_insertObject_comps objs {} e0 h2
      obtain ⟨a1, a2⟩ := foldlM_insertObject_noadmin objs hadm {} e0 h2
      cases h3 : e0.sortANPs with
      | error err => simp [h3] at he
      | ok e1 =>
        simp only [h3] at he
        cases he
        have hs : e1 = { e0 with anps := e0.anps.foldr insertByPrio [] } := by
          unfold sortANPs at h3
          simp only [] at h3
          split at h3
          · cases h3
          · split at h3
            · cases h3
            · cases h3; rfl
        subst hs
        obtain ⟨r1, r2, r3, _, r5⟩ := foldl_ensureNs_spec (objs.foldl nsStep [])
          ({ e0 with anps := e0.anps.foldr insertByPrio [] } : Engine).pods
          ({ e0 with anps := e0.anps.foldr insertByPrio [] } : Engine)
          (by show NsInv _ e0.namespaces; rw [n3]; exact nsInv_refl _)
        rw [resolveMissing_eq]
        obtain ⟨f1, f2, f3, _⟩ := polFields_netpols' r2
        refine ⟨?_, ?_, ?_, ?_, ?_⟩
        · rw [f1]; show _ = e0.netpols; rw [n1, c2.nps]
        · rw [r3]; show _ = e0.pods; rw [n2, c2.pods]
        · rw [f2]; show e0.anps.foldr insertByPrio [] = []; rw [a1]; rfl
        · rw [f3]; show e0.banp = none; rw [a2]
        · intro p hp
          rw [r3] at hp
          have hp' : p ∈ x.eng.pods := by
            rw [c2.pods]; show p ∈ objs.foldl podStep []
            have : p ∈ e0.pods := hp
            rw [n2] at this; exact this
          have hs1 := c2.podNs p hp'
          have hs2 := r5 p hp
          exact ⟨nsInv_agree c2.nss r1 p.ns hs1 hs2, hs2⟩

/-! ## G. the two runs -/

/-- the plain evaluation reads an engine only through its policies -/
theorem xgressConns_fields (e e' : Engine) (h1 : e'.netpols = e.netpols) (h2 : e'.anps = e.anps)
    (h3 : e'.banp = e.banp) (src dst : KPeer) (i : Bool) :
    e'.xgressConns src dst i = e.xgressConns src dst i := by
  unfold Engine.xgressConns Engine.anpConns Engine.netpolConns Engine.defaultConns
    Engine.policiesSelecting
  rw [h1, h2, h3]

theorem peerConns_fields (e e' : Engine) (h1 : e'.netpols = e.netpols) (h2 : e'.anps = e.anps)
    (h3 : e'.banp = e.banp) (src dst : KPeer) : e'.peerConns src dst = e.peerConns src dst := by
  unfold Engine.peerConns
  simp only [xgressConns_fields e e' h1 h2 h3]

theorem connsBetweenPeers_fields (e e' : Engine) (h1 : e'.netpols = e.netpols)
    (h2 : e'.anps = e.anps) (h3 : e'.banp = e.banp) (peers : List LPeer)
    (hk : ∀ p ∈ peers, e'.toKPeer p = e.toKPeer p) (focus : String) :
    e'.connsBetweenPeers peers focus = e.connsBetweenPeers peers focus := by
  rw [Engine.connsBetweenPeers_eq_pairStep, Engine.connsBetweenPeers_eq_pairStep]
  apply foldlM_congr_mem
  intro s hs acc
  apply foldlM_congr_mem
  intro d hd acc'
  unfold pairStep
  rw [hk s hs, hk d hd]
  simp only [peerConns_fields e e' h1 h2 h3]

theorem peersList_fields (e e' : Engine) (h1 : e'.netpols = e.netpols) (h2 : e'.pods = e.pods) :
    e'.peersList = e.peersList := by
  unfold Engine.peersList Engine.podOwnersMap Engine.sortedPods Engine.disjointIPBlocks
  rw [h1, h2]

/-- the pods of the workload peers of the peers list are pods of the engine -/
theorem peersList_pods {e : Engine} {peers : List LPeer} (h : e.peersList = .ok peers) {n : String}
    {pod : Pod} (hm : LPeer.wl n pod ∈ peers) : pod ∈ e.pods := by
  obtain ⟨owners, ho, rfl⟩ := Structure.peersList_eq h
  rcases List.mem_append.mp hm with h1 | h1
  · obtain ⟨r, _, hr⟩ := List.mem_map.mp h1
    cases hr
  · obtain ⟨np, hnp, hr⟩ := List.mem_map.mp h1
    have hq := Structure.go_forall (fun x => x.2 ∈ e.pods) (res := [])
      (fun _ h => by cases h) (fun p hp => Structure.mem_sortedPods.mp hp) ho np hnp
    cases hr
    exact hq

/-- The two runs on the same input: the peers list of `list --exposure` is the peers list of `list`,
and the base report of `list --exposure` is the report of `list` — unless `list` fails with the
named-port-on-IP error (`Dev`). `hreal`: the workload peers stand for real pods with legal container
ports. -/
theorem runs_agree {objs : List Obj} {x : XEngine} {e : Engine} (hx : build objs = .ok x)
    (he : Engine.build objs = .ok e) (hv : NpValid e) (peers : List LPeer)
    (hpl : e.peersList = .ok peers) (hreal : ∀ p ∈ peers, p.Real) (focus : String) :
    x.eng.peersList = .ok peers ∧
      Dev (e.connsBetweenPeers peers focus) (connsBetweenPeers x.eng peers focus) := by
  obtain ⟨a1, a2, a3, a4, a5⟩ := build_agree hx he
  have hx' := build_np_only hx
  constructor
  · rw [peersList_fields e x.eng a1 a2]; exact hpl
  · have hk : ∀ p ∈ peers, x.eng.toKPeer p = e.toKPeer p := by
      intro p hp
      cases p with
      | ip r => rfl
      | wl n pod =>
        have hpod := peersList_pods hpl hp
        unfold toKPeer
        simp only [(a5 pod hpod).1]
    have hvx : NpValid x.eng := by unfold NpValid; rw [a1]; exact hv
    have hd := connsBetweenPeers_dev x.eng hx'.1 hx'.2 hvx peers hreal focus
    rw [connsBetweenPeers_fields e x.eng a1 (hx'.1.trans a3.symm) (hx'.2.trans a4.symm) peers hk
      focus] at hd
    exact hd

/-! ## H. label syntax: `SelectorsFullMatch` is sound, the map key is injective -/

open SelStr in
/-- on selectors with label syntax `SelectorsFullMatch` is semantically sound -/
theorem fullMatchSound_of_ok (s : Selector) (t : Option Selector) (hs : s.OK)
    (ht : ∀ ts, t = some ts → ts.OK) : FullMatchSound s t := by
  intro hm l hsat
  unfold selectorsFullMatch at hm
  split at hm
  · rename_i he; exact Selector.matches_of_isEmpty he l
  · cases t with
    | none => cases hm
    | some ts =>
      simp only [beq_iff_eq] at hm
      rw [reqStrings_faithful s ts hs (ht ts rfl) hm l]
      exact hsat ts rfl

/-- an optional selector has label syntax -/
def optOK (o : Option Selector) : Prop :=
  match o with
  | none => True
  | some s => s.OK

instance (o : Option Selector) : Decidable (optOK o) := by
  cases o with
  | none => exact isTrue trivial
  | some s => exact inferInstanceAs (Decidable s.OK)

theorem optOK_iff (o : Option Selector) : optOK o ↔ ∀ s, o = some s → s.OK := by
  cases o with
  | none => exact ⟨fun _ _ h => (by cases h), fun _ => trivial⟩
  | some s => exact ⟨fun h _ h' => (by cases h'; exact h), fun h => h s rfl⟩

/-- the selectors of a rule peer have label syntax -/
def PeerOK (peer : NPPeer) : Prop :=
  match peer with
  | .ip .. => True
  | .sel podSel nsSel => optOK podSel ∧ optOK nsSel

instance (peer : NPPeer) : Decidable (PeerOK peer) := by
  cases peer with
  | ip c ex => exact isTrue trivial
  | sel podSel nsSel => exact inferInstanceAs (Decidable (optOK podSel ∧ optOK nsSel))

/-- the namespaces of the policies and the selectors of their rule peers have label syntax -/
def SelectorsOK (e : Engine) : Prop :=
  ∀ np ∈ e.netpols, SelStr.okl np.ns.toList ∧
    ∀ r ∈ np.ingress ++ np.egress, ∀ peer ∈ r.peers, PeerOK peer

instance (e : Engine) : Decidable (SelectorsOK e) := by unfold SelectorsOK; infer_instance

theorem nsNameSelector_ok {ns : String} (h : SelStr.okl ns.toList) :
    (⟨[(nsNameLabelKey, ns)], []⟩ : Selector).OK := by
  refine ⟨?_, fun r hr => by cases hr⟩
  intro kv hkv
  rw [List.mem_singleton] at hkv
  subst hkv
  exact ⟨(by decide : SelStr.okl nsNameLabelKey.toList), h, (by decide : nsNameLabelKey ≠ "")⟩

theorem faithful_of_ok (e : Engine) (h : SelectorsOK e) (P N : Option Selector)
    (hP : ∀ s, P = some s → s.OK) (hN : ∀ s, N = some s → s.OK) : Faithful e P N := by
  intro np hnp r hr peer hpeer
  obtain ⟨hns, hall⟩ := h np hnp
  have hp := hall r hr peer hpeer
  cases peer with
  | ip c ex => trivial
  | sel podSel nsSel =>
    obtain ⟨h1, h2⟩ := hp
    refine ⟨?_, fun ps hps => fullMatchSound_of_ok ps P ((optOK_iff _).mp h1 ps hps) hP⟩
    cases nsSel with
    | none => exact fullMatchSound_of_ok _ N (nsNameSelector_ok hns) hN
    | some s => exact fullMatchSound_of_ok s N h2 hN

theorem mem_peerSels_iff {peers : List NPPeer} {rs : RuleSel} (h : rs ∈ peerSels peers) :
    NPPeer.sel rs.podSel rs.nsSel ∈ peers := by
  unfold peerSels at h
  rw [List.mem_filterMap] at h
  obtain ⟨peer, hp, he⟩ := h
  cases peer with
  | ip c ex => cases he
  | sel p n => cases he; exact hp

/-- a selector pair for which a representative peer is generated is a rule peer of the policy -/
theorem allSels_peer {np : NetPol} {rs : RuleSel} (h : rs ∈ allSels np) :
    ∃ r ∈ np.ingress ++ np.egress, NPPeer.sel rs.podSel rs.nsSel ∈ r.peers := by
  unfold allSels at h
  rcases List.mem_append.mp h with h1 | h1
  · rw [scanPure_sels, List.mem_flatMap] at h1
    obtain ⟨r, hr, hm⟩ := h1
    exact ⟨r, List.mem_append_left _ (mem_scanRules (List.mem_filter.mp hr).1), mem_peerSels_iff hm⟩
  · rw [scanPure_sels, List.mem_flatMap] at h1
    obtain ⟨r, hr, hm⟩ := h1
    exact ⟨r, List.mem_append_right _ (mem_scanRules (List.mem_filter.mp hr).1), mem_peerSels_iff hm⟩

theorem allSels_ok {e : Engine} (h : SelectorsOK e) {np : NetPol} (hnp : np ∈ e.netpols)
    {rs : RuleSel} (hrs : rs ∈ allSels np) :
    (∀ s, rs.podSel = some s → s.OK) ∧ (nsOf np.ns rs).OK := by
  obtain ⟨hns, hall⟩ := h np hnp
  obtain ⟨r, hr, hp⟩ := allSels_peer hrs
  obtain ⟨h1, h2⟩ := hall r hr _ hp
  refine ⟨(optOK_iff _).mp h1, ?_⟩
  unfold nsOf
  cases hn : rs.nsSel with
  | none => exact nsNameSelector_ok hns
  | some s => exact (optOK_iff _).mp h2 s hn

/-- in the engine `build` returns, `SelectorsFullMatch` is sound against every representative peer
when the selectors of the input have label syntax -/
theorem build_faithful {objs : List Obj} {x : XEngine} (h : build objs = .ok x)
    (hok : SelectorsOK x.eng) : ∀ krp ∈ x.reps, Faithful x.eng krp.2.reprPodSel krp.2.reprNsSel := by
  intro krp hk
  obtain ⟨np, hnp, rs, hrs, rfl⟩ := (build_inv h).1.origin krp hk
  obtain ⟨h1, h2⟩ := allSels_ok hok hnp hrs
  exact faithful_of_ok x.eng hok _ _ h1 (fun s hs => by cases hs; exact h2)

/-- the requirement strings of an optional selector (none for an absent one) -/
def optReqs (o : Option Selector) : List String :=
  match o with
  | none => []
  | some s => s.reqStrings

theorem uniqueKey_eq (o : Option Selector) : uniqueKey o = ";".intercalate (optReqs o) := by
  cases o <;> rfl

/-- the map key has no collision on the rule selectors of the engine: two selector pairs with the
same key have the same requirement strings, component by component -/
def KeyInjective (e : Engine) : Prop :=
  ∀ np1 ∈ e.netpols, ∀ rs1 ∈ allSels np1, ∀ np2 ∈ e.netpols, ∀ rs2 ∈ allSels np2,
    keyOf np1.ns rs1 = keyOf np2.ns rs2 →
      optReqs rs1.podSel = optReqs rs2.podSel ∧
      (nsOf np1.ns rs1).reqStrings = (nsOf np2.ns rs2).reqStrings

open SelStr in
theorem keyFaithful_of_injective {e : Engine} (hok : SelectorsOK e) (hk : KeyInjective e) :
    KeyFaithful e := by
  intro np1 h1 rs1 hr1 np2 h2 rs2 hr2 hkey
  obtain ⟨eP, eN⟩ := hk np1 h1 rs1 hr1 np2 h2 rs2 hr2 hkey
  obtain ⟨o1, o2⟩ := allSels_ok hok h1 hr1
  obtain ⟨o3, o4⟩ := allSels_ok hok h2 hr2
  constructor
  · cases hp1 : rs1.podSel with
    | none =>
      cases hp2 : rs2.podSel with
      | none => trivial
      | some t =>
        rw [hp1, hp2] at eP
        exact (reqStrings_eq_nil_iff t).mp eP.symm
    | some s =>
      cases hp2 : rs2.podSel with
      | none =>
        rw [hp1, hp2] at eP
        exact (reqStrings_eq_nil_iff s).mp eP
      | some t =>
        rw [hp1, hp2] at eP
        exact ⟨eP, reqStrings_faithful s t (o1 s hp1) (o3 t hp2) eP⟩
  · exact ⟨eN, reqStrings_faithful _ _ o2 o4 eN⟩

open SelStr in
/-- the `;`-joined requirement strings of an optional selector with label syntax determine them -/
theorem uniqueKey_inj (a b : Option Selector) (ha : ∀ s, a = some s → s.OK)
    (hb : ∀ s, b = some s → s.OK) (h : uniqueKey a = uniqueKey b) : optReqs a = optReqs b := by
  -- an absent selector has the requirement strings of the empty one
  have key : ∀ o : Option Selector, (∀ s, o = some s → s.OK) →
      ∃ s : Selector, s.OK ∧ optReqs o = s.reqStrings := by
    intro o ho
    cases o with
    | none =>
      refine ⟨⟨[], []⟩, ⟨fun _ h => (by cases h), fun _ h => (by cases h)⟩, ?_⟩
      exact ((reqStrings_eq_nil_iff ⟨[], []⟩).mpr rfl).symm
    | some s => exact ⟨s, ho s rfl, rfl⟩
  obtain ⟨s, hs, es⟩ := key a ha
  obtain ⟨t, ht, et⟩ := key b hb
  rw [uniqueKey_eq, uniqueKey_eq, es, et] at h
  rw [es, et]
  exact intercalate_reqStrings_inj s t hs ht h

open SelStr in
/-- With separators the map key is injective on selectors with label syntax: the pair key
`uniqueKey N ++ "|" ++ uniqueKey P` determines the requirement strings of both components -/
theorem keyInjective_of_ok {e : Engine} (hok : SelectorsOK e) : KeyInjective e := by
  intro np1 h1 rs1 hr1 np2 h2 rs2 hr2 hkey
  obtain ⟨o1, o2⟩ := allSels_ok hok h1 hr1
  obtain ⟨o3, o4⟩ := allSels_ok hok h2 hr2
  unfold keyOf at hkey
  have h' := congrArg String.toList hkey
  simp only [String.toList_append] at h'
  have hbar : "|".toList = ['|'] := rfl
  rw [hbar] at h'
  simp only [List.append_assoc, List.singleton_append] at h'
  have n1 : '|' ∉ (uniqueKey (some (nsOf np1.ns rs1))).toList :=
    intercalate_reqStrings_no_bar _ o2
  have n2 : '|' ∉ (uniqueKey (some (nsOf np2.ns rs2))).toList :=
    intercalate_reqStrings_no_bar _ o4
  obtain ⟨e1, e2⟩ := Structure.split_unique n1 n2 h'
  have eN := uniqueKey_inj (some (nsOf np1.ns rs1)) (some (nsOf np2.ns rs2))
    (fun s hs => by cases hs; exact o2) (fun s hs => by cases hs; exact o4) (String.toList_inj.mp e1)
  have eP := uniqueKey_inj rs1.podSel rs2.podSel o1 o3 (String.toList_inj.mp e2)
  exact ⟨eP, eN⟩

/-- … hence faithful -/
theorem keyFaithful_of_ok {e : Engine} (hok : SelectorsOK e) : KeyFaithful e :=
  keyFaithful_of_injective hok (keyInjective_of_ok hok)

/-- `build_covers` for input with label syntax -/
theorem build_covers_ok {objs : List Obj} {x : XEngine} (h : build objs = .ok x)
    (hok : SelectorsOK x.eng) (np : NetPol) (hnp : np ∈ x.eng.netpols) (d : Dir)
    (haff : np.affects d = true) (r : NPRule) (hr : r ∈ Spec.npRules np d) (hcw : isCW r = false)
    (podSel nsSel : Option Selector) (hpeer : NPPeer.sel podSel nsSel ∈ r.peers) (q : Pod)
    (nsl : Labels) (hc : NsConsistent q nsl)
    (hm : Spec.npPeerMatches np (.sel podSel nsSel) (.pod q nsl) = true) :
    RepCovers x np (.sel podSel nsSel) q nsl ∨
      Omitted x objs podSel (nsSel.getD (nsNameSelector np.ns)) :=
  build_covers h (keyFaithful_of_ok hok) np hnp d haff r hr hcw podSel nsSel hpeer q nsl hc hm

end Exposure
end Netpol
