import Netpol.Model.Engine
import Netpol.Proofs.NPLayer
import Netpol.Proofs.ANPLayer

/-! The engine layer (`Netpol.Model.Engine`: `netpolConns`, `anpConns`, `defaultConns`,
`xgressConns`, `peerConns`, model of `check.go`) computes exactly the pointwise specification
`Netpol.Spec` (`governs`, `npAllows`, `anpVerdict`, `banpVerdict`, `allowedDir`, `allowed`).
Built on the NetworkPolicy layer (`Netpol.Proofs.NPLayer`) and the admin-policy layer
(`Netpol.Proofs.ANPLayer`). Core Lean only. -/
namespace Netpol

/-! ### vocabulary -/

/-- the two translations of a model peer to a specification end agree on every peer the
specification can speak about -/
theorem KPeer.toEnd_eq_toEnd' {k : KPeer} {a : Int} (h : k.Concrete a) : k.toEnd a = k.toEnd' := by
  cases k with
  | pod p nso => cases nso <;> rfl
  | ip r =>
    have : r = [⟨a, a⟩] := h
    subst this
    rfl

theorem KPeer.toEnd'_pod (p : Pod) (ns : Option NsObj) (a : Int) :
    (KPeer.pod p ns).toEnd' = (KPeer.pod p ns).toEnd a := by
  cases ns <;> rfl

theorem KPeer.DstOK.validPorts {k : KPeer} (h : k.DstOK) : k.ValidPorts := by
  cases k with
  | pod p ns => exact h.2
  | ip r => trivial

namespace Engine

/-- the specification-level view of an engine -/
def toView (e : Engine) : Spec.View :=
  { pods := e.pods.map fun p => (p, ((e.findNs p.ns).map (·.labels)).getD []),
    netpols := e.netpols, anps := e.anps, banp := e.banp }

/-- validity of the engine's objects (what Kubernetes validation and `sortANPs` guarantee) -/
structure Valid (e : Engine) : Prop where
  npRules : ∀ np ∈ e.netpols, (∀ r ∈ np.ingress, r.Valid) ∧ (∀ r ∈ np.egress, r.Valid)
  anpRules : ∀ a ∈ e.anps, ARule.ListValid a.ingress ∧ ARule.ListValid a.egress
  banpRules : ∀ b, e.banp = some b → ARule.ListValid b.ingress ∧ ARule.ListValid b.egress ∧
    (∀ r ∈ b.ingress, r.action ≠ .Pass) ∧ (∀ r ∈ b.egress, r.action ≠ .Pass)
  anpSorted : e.anps.Pairwise (fun a b => a.prio ≤ b.prio)

/-- the direction an `isIngress` flag of `check.go` stands for -/
def dirOf (isIngress : Bool) : Dir := if isIngress then .ingress else .egress

/-- the peer whose policies apply: the destination on ingress, the source on egress -/
def selfPeer (src dst : KPeer) (isIngress : Bool) : KPeer := if isIngress then dst else src

/-- the peer the rules' peer clauses are matched against -/
def otherPeer (src dst : KPeer) (isIngress : Bool) : KPeer := if isIngress then src else dst

/-- the specification ends of `selfPeer` / `otherPeer` for chosen addresses `a` (of `src`) and
`b` (of `dst`) -/
def selfEnd (src dst : KPeer) (a b : Int) (isIngress : Bool) : Spec.End :=
  if isIngress then dst.toEnd b else src.toEnd a

def otherEnd (src dst : KPeer) (a b : Int) (isIngress : Bool) : Spec.End :=
  if isIngress then src.toEnd a else dst.toEnd b

@[simp] theorem dirOf_true : dirOf true = .ingress := rfl
@[simp] theorem dirOf_false : dirOf false = .egress := rfl
@[simp] theorem selfPeer_true (s d : KPeer) : selfPeer s d true = d := rfl
@[simp] theorem selfPeer_false (s d : KPeer) : selfPeer s d false = s := rfl
@[simp] theorem otherPeer_true (s d : KPeer) : otherPeer s d true = s := rfl
@[simp] theorem otherPeer_false (s d : KPeer) : otherPeer s d false = d := rfl
@[simp] theorem selfEnd_true (s d : KPeer) (a b : Int) : selfEnd s d a b true = d.toEnd b := rfl
@[simp] theorem selfEnd_false (s d : KPeer) (a b : Int) : selfEnd s d a b false = s.toEnd a := rfl
@[simp] theorem otherEnd_true (s d : KPeer) (a b : Int) : otherEnd s d a b true = s.toEnd a := rfl
@[simp] theorem otherEnd_false (s d : KPeer) (a b : Int) : otherEnd s d a b false = d.toEnd b := rfl

/-! ### 1. `netpolConns` -/

/-- what one selecting policy contributes -/
def npStep (src dst : KPeer) (isIngress : Bool) (np : NetPol) : Except Err ConnSet :=
  if isIngress then np.ingressAllowedConns src dst else np.egressAllowedConns dst

/-- the fold of `netpolConns` -/
def npFold (src dst : KPeer) (isIngress : Bool) (acc : ConnSet) (np : NetPol) : Except Err ConnSet :=
  npStep src dst isIngress np >>= fun c => pure (acc.union c)

theorem netpolConns_eq (e : Engine) (src dst : KPeer) (isIngress : Bool) :
    e.netpolConns src dst isIngress =
      if (e.policiesSelecting (selfPeer src dst isIngress) (dirOf isIngress)).isEmpty then .ok none
      else (e.policiesSelecting (selfPeer src dst isIngress) (dirOf isIngress)).foldlM
        (npFold src dst isIngress) (ConnSet.mk' false) >>= fun res => pure (some res) := by
  cases isIngress <;> rfl

/-- a fold of unions over policies whose contributions are characterised one by one -/
theorem npFold_spec (src dst : KPeer) (isIngress : Bool) (P : NetPol → Proto → Int → Prop)
    (pols : List NetPol)
    (hstep : ∀ np ∈ pols, ∀ c, npStep src dst isIngress np = .ok c →
      c.WF ∧ ∀ pr x, c.den pr x ↔ P np pr x)
    (acc : ConnSet) (hacc : acc.WF) :
    (∀ res, pols.foldlM (npFold src dst isIngress) acc = .ok res →
      res.WF ∧ ∀ pr x, res.den pr x ↔ acc.den pr x ∨ ∃ np ∈ pols, P np pr x) ∧
    (∀ err, pols.foldlM (npFold src dst isIngress) acc = .error err →
      ∃ np ∈ pols, npStep src dst isIngress np = .error err) := by
  induction pols generalizing acc with
  | nil =>
    constructor
    · intro res h
      cases h
      exact ⟨hacc, fun pr x => by simp⟩
    · intro err h; cases h
  | cons np rest ih =>
    rw [List.foldlM_cons]
    cases hs : npStep src dst isIngress np with
    | error err' =>
      have : npFold src dst isIngress acc np = .error err' := by
        simp only [npFold, hs]; rfl
      rw [this]
      constructor
      · intro res h; cases h
      · intro err h
        cases h
        exact ⟨np, List.mem_cons_self .., hs⟩
    | ok c =>
      have : npFold src dst isIngress acc np = .ok (acc.union c) := by
        simp only [npFold, hs]; rfl
      rw [this]
      obtain ⟨hcw, hcd⟩ := hstep np (List.mem_cons_self ..) c hs
      obtain ⟨ih1, ih2⟩ := ih (fun np' h => hstep np' (List.mem_cons_of_mem _ h)) (acc.union c)
        (ConnSet.wf_union hacc hcw)
      constructor
      · intro res h
        obtain ⟨hw, hden⟩ := ih1 res h
        refine ⟨hw, fun pr x => ?_⟩
        rw [hden, ConnSet.den_union hacc hcw, hcd]
        simp only [List.mem_cons, exists_eq_or_imp, or_assoc]
      · intro err h
        obtain ⟨np', hm, he⟩ := ih2 err h
        exact ⟨np', List.mem_cons_of_mem _ hm, he⟩

theorem governs_iff (e : Engine) (p : Pod) (d : Dir) (hrep : p.isRepresentative = false) :
    Spec.governs e.toView p d = true ↔ ∃ np ∈ e.netpols, np.selects p d = true := by
  simp only [Spec.governs, toView, List.any_eq_true, NetPol.selects_spec _ p d hrep]

theorem npAllows_iff (e : Engine) (p : Pod) (d : Dir) (other dstE : Spec.End) (pr : Proto) (x : Int)
    (hrep : p.isRepresentative = false) :
    Spec.npAllows e.toView p other dstE d pr x = true ↔
      ∃ np ∈ e.netpols.filter (fun np => np.selects p d),
        ∃ r ∈ Spec.npRules np d, Spec.npRuleAllows np r other dstE pr x = true := by
  simp only [Spec.npAllows, toView, List.any_eq_true, List.mem_filter, Bool.and_eq_true,
    NetPol.selects_spec _ p d hrep]
  constructor
  · rintro ⟨np, h1, h2, r, h3, h4⟩; exact ⟨np, ⟨h1, h2⟩, r, h3, h4⟩
  · rintro ⟨np, ⟨h1, h2⟩, r, h3, h4⟩; exact ⟨np, h1, h2, r, h3, h4⟩

theorem isEmpty_filter_iff {α : Type} (l : List α) (f : α → Bool) :
    (l.filter f).isEmpty = true ↔ ¬ ∃ x ∈ l, f x = true := by
  rw [List.isEmpty_iff, List.filter_eq_nil_iff]
  constructor
  · rintro h ⟨x, hx, hf⟩; exact h x hx hf
  · intro h x hx hf; exact h ⟨x, hx, hf⟩

/-! the policies in the order of their names -/

theorem insertByName_perm (p : NetPol) (l : List NetPol) : (insertByName p l).Perm (p :: l) := by
  induction l with
  | nil => exact List.Perm.refl _
  | cons q qs ih =>
    unfold insertByName
    split
    · exact List.Perm.refl _
    · exact (List.Perm.cons q ih).trans (List.Perm.swap p q qs)

theorem sortByName_perm (l : List NetPol) : (sortByName l).Perm l := by
  induction l with
  | nil => exact List.Perm.refl _
  | cons p l ih => exact (insertByName_perm p _).trans (List.Perm.cons p ih)

theorem mem_sortByName {l : List NetPol} {x : NetPol} : x ∈ sortByName l ↔ x ∈ l :=
  (sortByName_perm l).mem_iff

theorem sortByName_isEmpty (l : List NetPol) : (sortByName l).isEmpty = l.isEmpty :=
  (sortByName_perm l).isEmpty_eq

theorem policiesSelecting_pod (e : Engine) (p : Pod) (ns : Option NsObj) (d : Dir) :
    e.policiesSelecting (.pod p ns) d = sortByName (e.netpols.filter (fun np => np.selects p d)) :=
  rfl

/-- the policies visited are policies of the engine that select the pod -/
theorem mem_policiesSelecting {e : Engine} {p : Pod} {ns : Option NsObj} {d : Dir} {np : NetPol} :
    np ∈ e.policiesSelecting (.pod p ns) d ↔ np ∈ e.netpols ∧ np.selects p d = true := by
  rw [policiesSelecting_pod, mem_sortByName, List.mem_filter]

theorem policiesSelecting_sub {e : Engine} {k : KPeer} {d : Dir} {np : NetPol}
    (h : np ∈ e.policiesSelecting k d) : np ∈ e.netpols := by
  cases k with
  | ip r => exact absurd h List.not_mem_nil
  | pod p ns => exact (mem_policiesSelecting.mp h).1

/-- an IP block is never governed by a NetworkPolicy -/
theorem netpolConns_ip (e : Engine) (src dst : KPeer) (isIngress : Bool) (r : CSet)
    (hself : selfPeer src dst isIngress = .ip r) :
    e.netpolConns src dst isIngress = .ok none := by
  rw [netpolConns_eq, hself]
  rfl

/-- Theorem 1. `netpolConns` for a real pod `p` (the destination on ingress, the source on egress):
it answers "not captured" exactly when no NetworkPolicy governs `p` in the direction; a returned
set is well-formed and denotes exactly the in-range points `Spec.npAllows` allows; the only failure
is a named port towards an IP block, on egress. -/
theorem netpolConns_spec (e : Engine) (hv : e.Valid) (src dst : KPeer) (a b : Int)
    (hs : src.Concrete a) (hd : dst.Concrete b) (hdok : dst.DstOK) (isIngress : Bool)
    (p : Pod) (ns : NsObj) (hself : selfPeer src dst isIngress = .pod p (some ns)) :
    (e.netpolConns src dst isIngress = .ok none ↔
      Spec.governs e.toView p (dirOf isIngress) = false) ∧
    (∀ c, e.netpolConns src dst isIngress = .ok (some c) →
      c.WF ∧ Spec.governs e.toView p (dirOf isIngress) = true ∧
      ∀ pr x, c.den pr x ↔ (inRange x ∧
        Spec.npAllows e.toView p (otherEnd src dst a b isIngress) (dst.toEnd b) (dirOf isIngress)
          pr x = true)) ∧
    (∀ err, e.netpolConns src dst isIngress = .error err →
      err = .namedPortOnIP ∧ isIngress = false ∧ dst.isPod = false) := by
  have hrep : p.isRepresentative = false := by
    cases isIngress
    · simp only [selfPeer_false] at hself; subst hself; exact hs
    · simp only [selfPeer_true] at hself; subst hself; exact hd
  -- the contribution of one policy
  have hstep : ∀ np ∈ sortByName (e.netpols.filter (fun np => np.selects p (dirOf isIngress))),
      (∀ c, npStep src dst isIngress np = .ok c → c.WF ∧ ∀ pr x, c.den pr x ↔
        (inRange x ∧ ∃ r ∈ Spec.npRules np (dirOf isIngress),
          Spec.npRuleAllows np r (otherEnd src dst a b isIngress) (dst.toEnd b) pr x = true)) ∧
      (∀ err, npStep src dst isIngress np = .error err →
        err = .namedPortOnIP ∧ isIngress = false ∧ dst.isPod = false) := by
    intro np hnp
    have hnpv := hv.npRules np (List.mem_filter.mp (mem_sortByName.mp hnp)).1
    cases isIngress
    · -- egress
      simp only [npStep, Bool.false_eq_true, if_false, dirOf_false, otherEnd_false, Spec.npRules]
      constructor
      · intro c h
        obtain ⟨hw, _, hden⟩ := NetPol.egressAllowedConns_ok np dst b hd hdok hnpv.2 c h
        exact ⟨hw, hden⟩
      · intro err h
        obtain ⟨h1, h2, _⟩ := NetPol.egressAllowedConns_err np dst b hd hdok hnpv.2 err h
        exact ⟨h1, trivial, h2⟩
    · -- ingress
      simp only [selfPeer_true] at hself
      subst hself
      simp only [npStep, if_true, dirOf_true, otherEnd_true, Spec.npRules]
      obtain ⟨c', hc', hw, _, hden⟩ := NetPol.ingressAllowedConns_spec np src p (some ns) a hs hrep
        hdok.2 hnpv.1
      constructor
      · intro c h
        rw [hc'] at h
        cases h
        exact ⟨hw, hden⟩
      · intro err h
        rw [hc'] at h
        cases h
  rw [netpolConns_eq, hself]
  have hpol : e.policiesSelecting (.pod p (some ns)) (dirOf isIngress) =
      sortByName (e.netpols.filter (fun np => np.selects p (dirOf isIngress))) := rfl
  rw [hpol, sortByName_isEmpty]
  have hgov := governs_iff e p (dirOf isIngress) hrep
  cases hemp : (e.netpols.filter (fun np => np.selects p (dirOf isIngress))).isEmpty
  · -- some policy selects the pod
    have hg : Spec.governs e.toView p (dirOf isIngress) = true := by
      rw [hgov]
      apply Classical.byContradiction
      intro hne
      rw [(isEmpty_filter_iff _ _).mpr hne] at hemp
      cases hemp
    simp only [Bool.false_eq_true, if_false]
    obtain ⟨f1, f2⟩ := npFold_spec src dst isIngress
      (fun np pr x => inRange x ∧ ∃ r ∈ Spec.npRules np (dirOf isIngress),
        Spec.npRuleAllows np r (otherEnd src dst a b isIngress) (dst.toEnd b) pr x = true)
      _ (fun np hnp => (hstep np hnp).1) (ConnSet.mk' false) (ConnSet.wf_mk false)
    cases hf : (sortByName (e.netpols.filter (fun np => np.selects p (dirOf isIngress)))).foldlM
        (npFold src dst isIngress) (ConnSet.mk' false) with
    | error err' =>
      obtain ⟨np, hnp, he⟩ := f2 err' hf
      refine ⟨?_, ?_, ?_⟩
      · constructor
        · intro h; cases h
        · intro h; rw [hg] at h; cases h
      · intro c h; cases h
      · intro err h
        cases h
        exact (hstep np hnp).2 err' he
    | ok res =>
      obtain ⟨hw, hden⟩ := f1 res hf
      refine ⟨?_, ?_, ?_⟩
      · constructor
        · intro h; cases h
        · intro h; rw [hg] at h; cases h
      · intro c h
        cases h
        refine ⟨hw, hg, fun pr x => ?_⟩
        rw [hden, npAllows_iff e p _ _ _ pr x hrep]
        constructor
        · rintro (h | ⟨np, hnp, hx, r, hr, hal⟩)
          · exact absurd h (ConnSet.den_mk_none pr x)
          · exact ⟨hx, np, mem_sortByName.mp hnp, r, hr, hal⟩
        · rintro ⟨hx, np, hnp, r, hr, hal⟩
          exact Or.inr ⟨np, mem_sortByName.mpr hnp, hx, r, hr, hal⟩
      · intro err h; cases h
  · -- no policy selects the pod
    have hg : Spec.governs e.toView p (dirOf isIngress) = false := by
      rw [← Bool.not_eq_true, hgov]
      exact (isEmpty_filter_iff _ _).mp hemp
    simp only [if_true]
    refine ⟨⟨fun _ => hg, fun _ => trivial⟩, ?_, ?_⟩
    · intro c h; cases h
    · intro err h; cases h

/-! ### 2. `anpConns` -/

/-- the rules one ANP contributes to the verdict on `self` in direction `d` -/
def anpContrib (self : Spec.End) (d : Dir) (a : ANP) : List ARule :=
  if Spec.subjectMatches a.subject self then Spec.anpRules a d else []

/-- the policy connections of one ANP -/
def anpSingle (src dst : KPeer) (isIngress : Bool) (a : ANP) : Except Err PolicyConns :=
  if !isIngress then
    (if a.selects src false then adminPolicyConns a.egress dst dst false else pure PolicyConns.empty)
  else
    (if a.selects dst true then adminPolicyConns a.ingress src dst false else pure PolicyConns.empty)

/-- the fold of `anpConns` -/
def anpFold (src dst : KPeer) (isIngress : Bool) (pc : PolicyConns) (a : ANP) :
    Except Err PolicyConns :=
  anpSingle src dst isIngress a >>= fun single =>
    pure (if !single.isEmpty then pc.collectANP single else pc)

theorem anpConns_eq (e : Engine) (src dst : KPeer) (isIngress : Bool) :
    e.anpConns src dst isIngress =
      e.anps.foldlM (anpFold src dst isIngress) PolicyConns.empty >>= fun pc =>
        if pc.isEmpty then pure (PolicyConns.empty, false) else pure (pc, true) := by
  cases isIngress <;> rfl

/-- the verdict function of a rule list, cut to the port range -/
def fmIn (rules : List ARule) (other dst : Spec.End) : Proto → Int → Option Action :=
  fun pr x => if inRange x then Spec.firstMatch rules other dst pr x else none

theorem _root_.Netpol.ANP.selects_true {a : ANP} {k : KPeer} {ing : Bool} (h : a.selects k ing = true) :
    anpContrib k.toEnd' (dirOf ing) a = Spec.anpRules a (dirOf ing) := by
  unfold ANP.selects at h
  rw [Bool.and_eq_true, Subject.selectsPeer_eq] at h
  simp [anpContrib, h.2]

theorem _root_.Netpol.ANP.selects_false {a : ANP} {k : KPeer} {ing : Bool} (h : a.selects k ing = false) :
    anpContrib k.toEnd' (dirOf ing) a = [] := by
  unfold anpContrib
  split
  · rename_i hm
    unfold ANP.selects at h
    rw [Subject.selectsPeer_eq, hm, Bool.and_true, Bool.and_eq_false_iff] at h
    rcases h with h | h
    · cases k with
      | ip r => simp [KPeer.toEnd', Spec.subjectMatches] at hm
      | pod p ns => simp [KPeer.isPod] at h
    · cases ing
      · simpa [Spec.anpRules] using h
      · simpa [Spec.anpRules] using h
  · rfl

theorem _root_.Netpol.PolicyConns.agrees_none_of_isEmpty {pc : PolicyConns}
    {f : Proto → Int → Option Action} (h : pc.Agrees f) (he : pc.isEmpty = true) :
    ∀ pr x, f pr x = none := by
  intro pr x
  unfold PolicyConns.isEmpty at he
  simp only [Bool.and_eq_true] at he
  obtain ⟨h1, h2, h3⟩ := h pr x
  cases hf : f pr x with
  | none => rfl
  | some v =>
    cases v
    · exact absurd (h1.mpr hf) (ConnSet.not_den_of_isEmpty he.1.1 pr x)
    · exact absurd (h2.mpr hf) (ConnSet.not_den_of_isEmpty he.1.2 pr x)
    · exact absurd (h3.mpr hf) (ConnSet.not_den_of_isEmpty he.2 pr x)

/-- one ANP: its policy connections agree with the first match among the rules it contributes -/
theorem anpSingle_spec (src dst : KPeer) (isIngress : Bool) (a : ANP) (hd : dst.ValidPorts)
    (ha : ARule.ListValid a.ingress ∧ ARule.ListValid a.egress) :
    ∃ single, anpSingle src dst isIngress a = .ok single ∧ single.WF ∧
      single.Agrees (fmIn (anpContrib (selfPeer src dst isIngress).toEnd' (dirOf isIngress) a)
        (otherPeer src dst isIngress).toEnd' dst.toEnd') := by
  have hempty : ∀ other dstE, PolicyConns.empty.Agrees (fmIn [] other dstE) :=
    fun other dstE => PolicyConns.agrees_empty.congr (fun pr x => by simp [fmIn, Spec.firstMatch])
  cases isIngress
  · simp only [anpSingle, Bool.not_false, if_true, selfPeer_false, otherPeer_false]
    cases hsel : a.selects src false
    · rw [show anpContrib src.toEnd' (dirOf false) a = [] from ANP.selects_false hsel]
      exact ⟨_, rfl, PolicyConns.wf_empty, hempty _ _⟩
    · rw [show anpContrib src.toEnd' (dirOf false) a = _ from ANP.selects_true hsel]
      exact adminPolicyConns_spec a.egress dst dst hd ha.2
  · simp only [anpSingle, Bool.not_true, Bool.false_eq_true, if_false, selfPeer_true,
      otherPeer_true]
    cases hsel : a.selects dst true
    · rw [show anpContrib dst.toEnd' (dirOf true) a = [] from ANP.selects_false hsel]
      exact ⟨_, rfl, PolicyConns.wf_empty, hempty _ _⟩
    · rw [show anpContrib dst.toEnd' (dirOf true) a = _ from ANP.selects_true hsel]
      exact adminPolicyConns_spec a.ingress src dst hd ha.1

theorem fmIn_append_of_none (rules₁ rules₂ : List ARule) (other dstE : Spec.End)
    (h : ∀ pr x, fmIn rules₂ other dstE pr x = none) (pr : Proto) (x : Int) :
    fmIn rules₁ other dstE pr x = fmIn (rules₁ ++ rules₂) other dstE pr x := by
  have := h pr x
  unfold fmIn at this ⊢
  by_cases hx : inRange x
  · simp only [hx, if_true] at this ⊢
    rw [Spec.firstMatch_append, this]
    cases Spec.firstMatch rules₁ other dstE pr x <;> rfl
  · simp only [hx, if_false]

/-- the fold of `anpConns` from an accumulator that agrees with the first match of `rules₁`: the
result agrees with the first match of `rules₁` followed by the contributions of the policies, in
the order of the list. A policy whose connections are empty is skipped, which changes nothing. -/
theorem anpFold_spec (src dst : KPeer) (isIngress : Bool) (hd : dst.ValidPorts) (l : List ANP)
    (hl : ∀ a ∈ l, ARule.ListValid a.ingress ∧ ARule.ListValid a.egress)
    (pc : PolicyConns) (rules₁ : List ARule) (hw : pc.WF)
    (hf : pc.Agrees (fmIn rules₁ (otherPeer src dst isIngress).toEnd' dst.toEnd')) :
    ∃ pc', l.foldlM (anpFold src dst isIngress) pc = .ok pc' ∧ pc'.WF ∧
      pc'.Agrees (fmIn (rules₁ ++ l.flatMap
          (anpContrib (selfPeer src dst isIngress).toEnd' (dirOf isIngress)))
        (otherPeer src dst isIngress).toEnd' dst.toEnd') := by
  induction l generalizing pc rules₁ with
  | nil => exact ⟨pc, rfl, hw, by simpa using hf⟩
  | cons a rest ih =>
    obtain ⟨single, hs, hsw, hsa⟩ := anpSingle_spec src dst isIngress a hd (hl a (List.mem_cons_self ..))
    have hl' : ∀ a' ∈ rest, ARule.ListValid a'.ingress ∧ ARule.ListValid a'.egress :=
      fun a' h => hl a' (List.mem_cons_of_mem _ h)
    have hstep : anpFold src dst isIngress pc a =
        .ok (if !single.isEmpty then pc.collectANP single else pc) := by
      simp only [anpFold, hs]; rfl
    rw [List.foldlM_cons, hstep, List.flatMap_cons, ← List.append_assoc]
    cases he : single.isEmpty
    · simp only [Bool.not_false, if_true]
      obtain ⟨w, ag⟩ := PolicyConns.collectANP_firstMatch hw hf hsw hsa
      exact ih hl' _ _ w ag
    · simp only [Bool.not_true, Bool.false_eq_true, if_false]
      exact ih hl' pc _ hw (hf.congr
        (fmIn_append_of_none _ _ _ _ (PolicyConns.agrees_none_of_isEmpty hsa he)))

/-- on a list sorted by priority the specification's `mergeSort` is the identity -/
theorem anpVerdict_sorted (e : Engine) (hs : e.anps.Pairwise (fun a b => a.prio ≤ b.prio))
    (self other dstE : Spec.End) (d : Dir) (pr : Proto) (x : Int) :
    Spec.anpVerdict e.toView self other dstE d pr x =
      Spec.firstMatch (e.anps.flatMap (anpContrib self d)) other dstE pr x := by
  unfold Spec.anpVerdict
  have : e.toView.anps.mergeSort (fun a b => decide (a.prio ≤ b.prio)) = e.anps :=
    List.mergeSort_of_pairwise (hs.imp (fun h => by simpa using h))
  simp only [this]
  rfl

/-- Theorem 2. `anpConns` never fails; the three sets it returns are the level sets of
`Spec.anpVerdict` on the port range; "not captured" comes with the empty `PolicyConns`, and then
the verdict is `none` on the whole port range. -/
theorem anpConns_spec (e : Engine) (hv : e.Valid) (src dst : KPeer) (hd : dst.ValidPorts)
    (isIngress : Bool) :
    ∃ pc captured, e.anpConns src dst isIngress = .ok (pc, captured) ∧ pc.WF ∧
      pc.Agrees (fun pr x => if inRange x then
        Spec.anpVerdict e.toView (selfPeer src dst isIngress).toEnd'
          (otherPeer src dst isIngress).toEnd' dst.toEnd' (dirOf isIngress) pr x else none) ∧
      (captured = false → pc = PolicyConns.empty ∧ ∀ pr x, inRange x →
        Spec.anpVerdict e.toView (selfPeer src dst isIngress).toEnd'
          (otherPeer src dst isIngress).toEnd' dst.toEnd' (dirOf isIngress) pr x = none) := by
  obtain ⟨pc, hpc, hw, hag⟩ := anpFold_spec src dst isIngress hd e.anps hv.anpRules
    PolicyConns.empty [] PolicyConns.wf_empty
    (PolicyConns.agrees_empty.congr (fun pr x => by simp [fmIn, Spec.firstMatch]))
  have hag' : pc.Agrees (fun pr x => if inRange x then
      Spec.anpVerdict e.toView (selfPeer src dst isIngress).toEnd'
        (otherPeer src dst isIngress).toEnd' dst.toEnd' (dirOf isIngress) pr x else none) := by
    refine hag.congr (fun pr x => ?_)
    rw [anpVerdict_sorted e hv.anpSorted]
    rfl
  rw [anpConns_eq, hpc]
  cases he : pc.isEmpty
  · exact ⟨pc, true, by simp only [bind, Except.bind, he]; rfl, hw, hag', fun h => by cases h⟩
  · have hnone := PolicyConns.agrees_none_of_isEmpty hag' he
    refine ⟨PolicyConns.empty, false, by simp only [bind, Except.bind, he]; rfl,
      PolicyConns.wf_empty, PolicyConns.agrees_empty.congr (fun pr x => (hnone pr x).symm), ?_⟩
    intro _
    refine ⟨rfl, fun pr x hx => ?_⟩
    have := hnone pr x
    simpa [hx] using this

/-- an IP block is never the subject of an admin policy -/
theorem _root_.Netpol.Spec.anpVerdict_ip (v : Spec.View) (a : Int) (other dstE : Spec.End) (d : Dir)
    (pr : Proto) (x : Int) : Spec.anpVerdict v (.ip a) other dstE d pr x = none := by
  unfold Spec.anpVerdict
  have : ∀ l : List ANP, (l.flatMap fun a' =>
      if Spec.subjectMatches a'.subject (.ip a) then Spec.anpRules a' d else []) = [] := by
    intro l
    induction l with
    | nil => rfl
    | cons a' rest ih => rw [List.flatMap_cons, ih]; rfl
  simp only [this]
  rfl

theorem _root_.Netpol.Spec.banpVerdict_ip (v : Spec.View) (a : Int) (other dstE : Spec.End) (d : Dir)
    (pr : Proto) (x : Int) : Spec.banpVerdict v (.ip a) other dstE d pr x = none := by
  unfold Spec.banpVerdict
  cases v.banp <;> rfl

/-! ### 3. `defaultConns` -/

/-- the policy connections of the BANP before the "empty means allow all" default -/
def banpSingle (src dst : KPeer) (isIngress : Bool) (b : BANP) : Except Err PolicyConns :=
  if isIngress then
    (if b.selects dst true then adminPolicyConns b.ingress src dst true else pure PolicyConns.empty)
  else
    (if b.selects src false then adminPolicyConns b.egress dst dst true else pure PolicyConns.empty)

theorem defaultConns_some (e : Engine) (src dst : KPeer) (isIngress : Bool) (b : BANP)
    (hb : e.banp = some b) :
    e.defaultConns src dst isIngress = banpSingle src dst isIngress b >>= fun res =>
      pure (if res.isEmpty then { res with allowed := ConnSet.mk' true } else res) := by
  unfold defaultConns
  rw [hb]
  cases isIngress <;> rfl

/-- the rules the BANP contributes to the verdict on `self` in direction `d` -/
def banpContrib (self : Spec.End) (d : Dir) (b : BANP) : List ARule :=
  if Spec.subjectMatches b.subject self then
    (match d with | .ingress => b.ingress | .egress => b.egress) else []

theorem _root_.Netpol.BANP.selects_true {b : BANP} {k : KPeer} {ing : Bool} (h : b.selects k ing = true) :
    banpContrib k.toEnd' (dirOf ing) b = if ing then b.ingress else b.egress := by
  unfold BANP.selects at h
  rw [Bool.and_eq_true, Subject.selectsPeer_eq] at h
  cases ing <;> simp [banpContrib, h.2]

theorem _root_.Netpol.BANP.selects_false {b : BANP} {k : KPeer} {ing : Bool} (h : b.selects k ing = false) :
    banpContrib k.toEnd' (dirOf ing) b = [] := by
  unfold banpContrib
  split
  · rename_i hm
    unfold BANP.selects at h
    rw [Subject.selectsPeer_eq, hm, Bool.and_true, Bool.and_eq_false_iff] at h
    rcases h with h | h
    · cases k with
      | ip r => simp [KPeer.toEnd', Spec.subjectMatches] at hm
      | pod p ns => simp [KPeer.isPod] at h
    · cases ing
      · simpa using h
      · simpa using h
  · rfl

theorem banpVerdict_eq (e : Engine) (b : BANP) (hb : e.banp = some b) (self other dstE : Spec.End)
    (d : Dir) (pr : Proto) (x : Int) :
    Spec.banpVerdict e.toView self other dstE d pr x =
      Spec.firstMatch (banpContrib self d b) other dstE pr x := by
  unfold Spec.banpVerdict banpContrib
  simp only [toView, hb]
  split
  · rfl
  · rfl

theorem banpSingle_spec (src dst : KPeer) (isIngress : Bool) (b : BANP) (hd : dst.ValidPorts)
    (hb : ARule.ListValid b.ingress ∧ ARule.ListValid b.egress ∧
      (∀ r ∈ b.ingress, r.action ≠ .Pass) ∧ (∀ r ∈ b.egress, r.action ≠ .Pass)) :
    ∃ res, banpSingle src dst isIngress b = .ok res ∧ res.WF ∧
      res.Agrees (fmIn (banpContrib (selfPeer src dst isIngress).toEnd' (dirOf isIngress) b)
        (otherPeer src dst isIngress).toEnd' dst.toEnd') := by
  have hempty : ∀ other dstE, PolicyConns.empty.Agrees (fmIn [] other dstE) :=
    fun other dstE => PolicyConns.agrees_empty.congr (fun pr x => by simp [fmIn, Spec.firstMatch])
  cases isIngress
  · simp only [banpSingle, Bool.false_eq_true, if_false, selfPeer_false, otherPeer_false]
    cases hsel : b.selects src false
    · rw [show banpContrib src.toEnd' (dirOf false) b = [] from BANP.selects_false hsel]
      exact ⟨_, rfl, PolicyConns.wf_empty, hempty _ _⟩
    · rw [show banpContrib src.toEnd' (dirOf false) b = _ from BANP.selects_true hsel]
      exact adminPolicyConns_banp b.egress dst dst hd hb.2.1 hb.2.2.2
  · simp only [banpSingle, if_true, selfPeer_true, otherPeer_true]
    cases hsel : b.selects dst true
    · rw [show banpContrib dst.toEnd' (dirOf true) b = [] from BANP.selects_false hsel]
      exact ⟨_, rfl, PolicyConns.wf_empty, hempty _ _⟩
    · rw [show banpContrib dst.toEnd' (dirOf true) b = _ from BANP.selects_true hsel]
      exact adminPolicyConns_banp b.ingress src dst hd hb.1 hb.2.2.1

/-- Theorem 3. `defaultConns` never fails. Its `denied` set is exactly what the BANP denies on the
port range, its `pass` set is empty, and its `allowed` set holds what the BANP allows — or the
whole port range when the BANP (or its absence) says nothing at all. -/
theorem defaultConns_spec (e : Engine) (hv : e.Valid) (src dst : KPeer) (hd : dst.ValidPorts)
    (isIngress : Bool) :
    ∃ d, e.defaultConns src dst isIngress = .ok d ∧ d.WF ∧
      (∀ pr x, d.denied.den pr x ↔ (inRange x ∧
        Spec.banpVerdict e.toView (selfPeer src dst isIngress).toEnd'
          (otherPeer src dst isIngress).toEnd' dst.toEnd' (dirOf isIngress) pr x = some .Deny)) ∧
      (∀ pr x, d.allowed.den pr x → (inRange x ∧
        Spec.banpVerdict e.toView (selfPeer src dst isIngress).toEnd'
          (otherPeer src dst isIngress).toEnd' dst.toEnd' (dirOf isIngress) pr x ≠ some .Deny)) ∧
      (∀ pr x, inRange x → Spec.banpVerdict e.toView (selfPeer src dst isIngress).toEnd'
          (otherPeer src dst isIngress).toEnd' dst.toEnd' (dirOf isIngress) pr x = some .Allow →
        d.allowed.den pr x) ∧
      (∀ pr x, ¬ d.pass.den pr x) := by
  cases hb : e.banp with
  | none =>
    have hnone : ∀ self other dstE d pr x,
        Spec.banpVerdict e.toView self other dstE d pr x = none := by
      intro self other dstE d pr x
      simp [Spec.banpVerdict, toView, hb]
    refine ⟨{ PolicyConns.empty with allowed := ConnSet.mk' true }, ?_,
      ⟨ConnSet.wf_mk true, ConnSet.wf_mk false, ConnSet.wf_mk false⟩, ?_, ?_, ?_, ?_⟩
    · unfold defaultConns; rw [hb]
    · intro pr x
      simp [hnone, PolicyConns.empty, ConnSet.den_mk_none]
    · intro pr x h
      rw [hnone]
      exact ⟨(ConnSet.den_mk_all pr x).mp h, by simp⟩
    · intro pr x _ h
      rw [hnone] at h
      cases h
    · intro pr x
      exact ConnSet.den_mk_none pr x
  | some b =>
    obtain ⟨res, hres, hw, hag⟩ := banpSingle_spec src dst isIngress b hd (hv.banpRules b hb)
    have hverd : ∀ pr x, fmIn (banpContrib (selfPeer src dst isIngress).toEnd' (dirOf isIngress) b)
        (otherPeer src dst isIngress).toEnd' dst.toEnd' pr x =
        if inRange x then Spec.banpVerdict e.toView (selfPeer src dst isIngress).toEnd'
          (otherPeer src dst isIngress).toEnd' dst.toEnd' (dirOf isIngress) pr x else none := by
      intro pr x
      rw [banpVerdict_eq e b hb]
      rfl
    have hag' := hag.congr hverd
    have hnp : ∀ pr x, Spec.banpVerdict e.toView (selfPeer src dst isIngress).toEnd'
        (otherPeer src dst isIngress).toEnd' dst.toEnd' (dirOf isIngress) pr x ≠ some .Pass := by
      intro pr x
      rw [banpVerdict_eq e b hb]
      apply Spec.firstMatch_ne_pass
      intro r hr
      unfold banpContrib at hr
      obtain ⟨_, _, h1, h2⟩ := hv.banpRules b hb
      split at hr
      · cases isIngress
        · exact h2 r hr
        · exact h1 r hr
      · exact absurd hr List.not_mem_nil
    have hpass : ∀ pr x, ¬ res.pass.den pr x := by
      intro pr x h
      have := ((hag' pr x).2.2).mp h
      by_cases hx : inRange x
      · simp only [hx, if_true] at this
        exact hnp pr x this
      · simp [hx] at this
    rw [defaultConns_some e src dst isIngress b hb, hres]
    cases he : res.isEmpty
    · refine ⟨res, by simp only [bind, Except.bind, he]; rfl, hw, ?_, ?_, ?_, hpass⟩
      · intro pr x
        rw [((hag' pr x).2.1)]
        by_cases hx : inRange x <;> simp [hx]
      · intro pr x h
        have := ((hag' pr x).1).mp h
        by_cases hx : inRange x
        · simp only [hx, if_true] at this
          exact ⟨hx, by rw [this]; simp⟩
        · simp [hx] at this
      · intro pr x hx h
        apply ((hag' pr x).1).mpr
        simp [hx, h]
    · have hnone := PolicyConns.agrees_none_of_isEmpty hag' he
      have hnone' : ∀ pr x, inRange x →
          Spec.banpVerdict e.toView (selfPeer src dst isIngress).toEnd'
            (otherPeer src dst isIngress).toEnd' dst.toEnd' (dirOf isIngress) pr x = none := by
        intro pr x hx
        simpa [hx] using hnone pr x
      refine ⟨{ res with allowed := ConnSet.mk' true }, by simp only [bind, Except.bind, he]; rfl,
        ⟨ConnSet.wf_mk true, hw.2.1, hw.2.2⟩, ?_, ?_, ?_, hpass⟩
      · intro pr x
        show res.denied.den pr x ↔ _
        rw [((hag' pr x).2.1)]
        by_cases hx : inRange x <;> simp [hx]
      · intro pr x h
        have hx := (ConnSet.den_mk_all pr x).mp h
        exact ⟨hx, by rw [hnone' pr x hx]; simp⟩
      · intro pr x hx h
        exact (ConnSet.den_mk_all pr x).mpr hx

/-! ### 4. `xgressConns` -/

end Engine

/-- `Spec.governs` on an end: an external address is never governed -/
def Spec.governsEnd (v : Spec.View) (self : Spec.End) (d : Dir) : Bool :=
  match self with
  | .pod p _ => Spec.governs v p d
  | .ip _ => false

/-- `Spec.npAllows` on an end -/
def Spec.npAllowsEnd (v : Spec.View) (self other dst : Spec.End) (d : Dir) (pr : Proto) (x : Int) :
    Bool :=
  match self with
  | .pod p _ => Spec.npAllows v p other dst d pr x
  | .ip _ => false

/-- `Spec.allowedDir` as one three-layer decision, uniform in the kind of `self`: the ANP verdict
first; without one (or on `Pass`) the NetworkPolicies when they govern `self`; otherwise the BANP,
whose only way to forbid is an explicit `Deny` -/
theorem Spec.allowedDir_eq (v : Spec.View) (self other dst : Spec.End) (d : Dir) (pr : Proto)
    (x : Int) :
    Spec.allowedDir v self other dst d pr x =
      match Spec.anpVerdict v self other dst d pr x with
      | some .Allow => true
      | some .Deny => false
      | _ =>
        if Spec.governsEnd v self d then Spec.npAllowsEnd v self other dst d pr x
        else Spec.banpVerdict v self other dst d pr x != some .Deny := by
  cases self with
  | pod p l => rfl
  | ip a =>
    rw [Spec.anpVerdict_ip, Spec.banpVerdict_ip]
    rfl

namespace Engine

/-- `netpolConns` for any concrete peer, pod or IP block (Theorem 1 and `netpolConns_ip` together) -/
theorem netpolConns_end (e : Engine) (hv : e.Valid) (src dst : KPeer) (a b : Int)
    (hs : src.Concrete a) (hd : dst.Concrete b) (hdok : dst.DstOK) (isIngress : Bool) :
    (e.netpolConns src dst isIngress = .ok none ↔
      Spec.governsEnd e.toView (selfEnd src dst a b isIngress) (dirOf isIngress) = false) ∧
    (∀ c, e.netpolConns src dst isIngress = .ok (some c) →
      c.WF ∧ Spec.governsEnd e.toView (selfEnd src dst a b isIngress) (dirOf isIngress) = true ∧
      ∀ pr x, c.den pr x ↔ (inRange x ∧
        Spec.npAllowsEnd e.toView (selfEnd src dst a b isIngress) (otherEnd src dst a b isIngress)
          (dst.toEnd b) (dirOf isIngress) pr x = true)) ∧
    (∀ err, e.netpolConns src dst isIngress = .error err →
      err = .namedPortOnIP ∧ isIngress = false ∧ dst.isPod = false ∧ src.isPod = true) := by
  have hse : selfEnd src dst a b isIngress =
      (selfPeer src dst isIngress).toEnd (if isIngress then b else a) := by
    cases isIngress <;> rfl
  have hsc : (selfPeer src dst isIngress).Concrete (if isIngress then b else a) := by
    cases isIngress
    · exact hs
    · exact hd
  cases hself : selfPeer src dst isIngress with
  | ip r =>
    rw [hse, hself, netpolConns_ip e src dst isIngress r hself]
    refine ⟨⟨fun _ => rfl, fun _ => rfl⟩, ?_, ?_⟩
    · intro c h; cases h
    · intro err h; cases h
  | pod p nso =>
    cases nso with
    | none => rw [hself] at hsc; exact absurd hsc id
    | some ns =>
      obtain ⟨h1, h2, h3⟩ := netpolConns_spec e hv src dst a b hs hd hdok isIngress p ns hself
      rw [hse, hself]
      refine ⟨h1, h2, ?_⟩
      intro err h
      obtain ⟨e1, e2, e3⟩ := h3 err h
      refine ⟨e1, e2, e3, ?_⟩
      subst e2
      simp only [selfPeer_false] at hself
      rw [hself]
      rfl

theorem xgressConns_of_anp {e : Engine} {src dst : KPeer} {isIngress : Bool} {pc : PolicyConns}
    {cap : Bool} (h : e.anpConns src dst isIngress = .ok (pc, cap)) :
    e.xgressConns src dst isIngress =
      if cap && pc.determinesAll then .ok pc.allowed
      else e.netpolConns src dst isIngress >>= fun np =>
        match np with
        | some npc => if !cap then .ok npc else .ok (pc.collectNetpols npc).allowed
        | none => e.defaultConns src dst isIngress >>= fun dflt =>
            .ok (pc.collectBANP dflt).allowed := by
  unfold xgressConns
  rw [h]
  rfl

/-- `collectBANP` only reads the `denied` set of the BANP connections -/
theorem _root_.Netpol.PolicyConns.collectBANP_denied {pc d : PolicyConns}
    {f : Proto → Int → Option Action} {D : Proto → Int → Prop}
    (hw : pc.WF) (hf : pc.Agrees f) (hdw : d.denied.WF) (hD : ∀ pr x, d.denied.den pr x ↔ D pr x) :
    (pc.collectBANP d).allowed.WF ∧ ∀ pr x, (pc.collectBANP d).allowed.den pr x ↔
      (inRange x ∧ f pr x ≠ some .Deny ∧ ¬ (D pr x ∧ f pr x ≠ some .Allow)) := by
  obtain ⟨hwa, hwp, hwd⟩ := hw
  have w1 := ConnSet.wf_subtract hdw hwa
  have w2 := ConnSet.wf_union hwd w1
  refine ⟨ConnSet.wf_subtract (ConnSet.wf_mk true) w2, ?_⟩
  intro pr x
  obtain ⟨h1, h2, _⟩ := hf pr x
  simp only [PolicyConns.collectBANP, ConnSet.den_subtract (ConnSet.wf_mk true) w2,
    ConnSet.den_mk_all, ConnSet.den_union hwd w1, ConnSet.den_subtract hdw hwa, h1, h2, hD, ne_eq,
    not_or]

/-- Theorem 4. `xgressConns` (the three-way switch of `allAllowedXgressConnections`): a returned
set is well-formed and denotes exactly the in-range points `Spec.allowedDir` allows for the peer
whose policies apply; the only failure is a named port towards an IP block, on egress from a pod. -/
theorem xgressConns_spec (e : Engine) (hv : e.Valid) (src dst : KPeer) (a b : Int)
    (hs : src.Concrete a) (hd : dst.Concrete b) (hdok : dst.DstOK) (isIngress : Bool) :
    (∀ c, e.xgressConns src dst isIngress = .ok c →
      c.WF ∧ ∀ pr x, c.den pr x ↔ (inRange x ∧
        Spec.allowedDir e.toView (selfEnd src dst a b isIngress) (otherEnd src dst a b isIngress)
          (dst.toEnd b) (dirOf isIngress) pr x = true)) ∧
    (∀ err, e.xgressConns src dst isIngress = .error err →
      err = .namedPortOnIP ∧ isIngress = false ∧ dst.isPod = false ∧ src.isPod = true) := by
  have hse : (selfPeer src dst isIngress).toEnd' = selfEnd src dst a b isIngress := by
    cases isIngress
    · exact (KPeer.toEnd_eq_toEnd' hs).symm
    · exact (KPeer.toEnd_eq_toEnd' hd).symm
  have hoe : (otherPeer src dst isIngress).toEnd' = otherEnd src dst a b isIngress := by
    cases isIngress
    · exact (KPeer.toEnd_eq_toEnd' hd).symm
    · exact (KPeer.toEnd_eq_toEnd' hs).symm
  have hde : dst.toEnd' = dst.toEnd b := (KPeer.toEnd_eq_toEnd' hd).symm
  obtain ⟨pc, cap, hanp, hpw, hpa, hcap⟩ := anpConns_spec e hv src dst hdok.validPorts isIngress
  obtain ⟨dd, hdflt, hdw, hdden, _, _, _⟩ := defaultConns_spec e hv src dst hdok.validPorts isIngress
  obtain ⟨hn1, hn2, hn3⟩ := netpolConns_end e hv src dst a b hs hd hdok isIngress
  rw [hse, hoe, hde] at hpa hcap hdden
  rw [xgressConns_of_anp hanp]
  -- abbreviations for the three layers
  generalize hA : Spec.anpVerdict e.toView (selfEnd src dst a b isIngress)
    (otherEnd src dst a b isIngress) (dst.toEnd b) (dirOf isIngress) = A at hpa hcap
  generalize hB : Spec.banpVerdict e.toView (selfEnd src dst a b isIngress)
    (otherEnd src dst a b isIngress) (dst.toEnd b) (dirOf isIngress) = B at hdden
  generalize hG : Spec.governsEnd e.toView (selfEnd src dst a b isIngress) (dirOf isIngress) = G
    at hn1 hn2
  generalize hN : Spec.npAllowsEnd e.toView (selfEnd src dst a b isIngress)
    (otherEnd src dst a b isIngress) (dst.toEnd b) (dirOf isIngress) = N at hn2
  have hdir : ∀ pr x, Spec.allowedDir e.toView (selfEnd src dst a b isIngress)
      (otherEnd src dst a b isIngress) (dst.toEnd b) (dirOf isIngress) pr x =
      match A pr x with
      | some .Allow => true
      | some .Deny => false
      | _ => if G then N pr x else B pr x != some .Deny := by
    intro pr x
    rw [Spec.allowedDir_eq, hA, hB, hG, hN]
  simp only [hdir]
  cases hdet : (cap && pc.determinesAll)
  · -- the admin policies do not decide everything: NetworkPolicies, then the BANP
    simp only [Bool.false_eq_true, if_false]
    cases hnp : e.netpolConns src dst isIngress with
    | error err' =>
      refine ⟨fun c h => (by cases h), fun err h => ?_⟩
      cases h
      exact hn3 err' hnp
    | ok npo =>
      cases npo with
      | some npc =>
        obtain ⟨hcw, hg, hcd⟩ := hn2 npc hnp
        cases cap
        · -- no ANP says anything: the NetworkPolicies alone
          obtain ⟨_, hnone⟩ := hcap rfl
          refine ⟨fun c h => ?_, fun err h => by cases h⟩
          cases h
          refine ⟨hcw, fun pr x => ?_⟩
          rw [hcd]
          constructor
          · rintro ⟨hx, h⟩; exact ⟨hx, by simp [hnone pr x hx, hg, h]⟩
          · rintro ⟨hx, h⟩; exact ⟨hx, by simpa [hnone pr x hx, hg] using h⟩
        · -- ANP verdicts first, the NetworkPolicies fill what is left undecided or passed
          obtain ⟨_, _, _, hal⟩ := PolicyConns.collectNetpols_spec hpw hpa hcw
          refine ⟨fun c h => ?_, fun err h => by cases h⟩
          cases h
          refine ⟨(PolicyConns.collectNetpols_spec hpw hpa hcw).1.1, fun pr x => ?_⟩
          rw [hal, hcd]
          by_cases hx : inRange x
          · simp only [hx, if_true, true_and, hg]
            cases hAx : A pr x with
            | none => simp
            | some v => cases v <;> simp
          · simp [hx]
      | none =>
        have hg : G = false := hn1.mp hnp
        obtain ⟨hbw, hbd⟩ := PolicyConns.collectBANP_denied hpw hpa hdw.2.2 hdden
        refine ⟨fun c h => ?_, fun err h => ?_⟩
        · simp only [bind, Except.bind, hdflt] at h
          cases h
          refine ⟨hbw, fun pr x => ?_⟩
          rw [hbd]
          by_cases hx : inRange x
          · simp only [hx, if_true, true_and, hg]
            cases hAx : A pr x with
            | none => simp
            | some v => cases v <;> simp
          · simp [hx]
        · simp only [bind, Except.bind, hdflt] at h
          cases h
  · -- the admin policies decide every point of the port range
    simp only [if_true]
    rw [Bool.and_eq_true] at hdet
    have hall := PolicyConns.determinesAll_spec hpw hpa hdet.2
    refine ⟨fun c h => ?_, fun err h => by cases h⟩
    cases h
    refine ⟨hpw.1, fun pr x => ?_⟩
    rw [(hpa pr x).1]
    by_cases hx : inRange x
    · have := hall pr x hx
      simp only [hx, if_true] at this ⊢
      rcases this with h | h <;> simp [h]
    · simp [hx]

/-! ### 5. `peerConns` -/

theorem peerConns_self (e : Engine) (src dst : KPeer) (h : isPodToItself src dst = true) :
    e.peerConns src dst = .ok (ConnSet.mk' true) := by
  unfold peerConns
  rw [h]
  rfl

theorem peerConns_eq (e : Engine) (src dst : KPeer) (h : isPodToItself src dst = false) :
    e.peerConns src dst = e.xgressConns src dst false >>= fun res =>
      if res.isEmpty then .ok res
      else e.xgressConns src dst true >>= fun ing => .ok (res.inter ing) := by
  unfold peerConns
  rw [h]
  rfl

theorem _root_.Netpol.Spec.inPortRange_iff (x : Int) : Spec.inPortRange x = true ↔ inRange x := by
  simp [Spec.inPortRange, inRange]

/-- Theorem 5. `peerConns` between two different peers: a returned set is well-formed and denotes
exactly `Spec.allowed`; the only failure is a named port of an egress rule towards an IP block. -/
theorem peerConns_spec (e : Engine) (hv : e.Valid) (src dst : KPeer) (a b : Int)
    (hs : src.Concrete a) (hd : dst.Concrete b) (hdok : dst.DstOK)
    (hne : isPodToItself src dst = false) :
    (∀ c, e.peerConns src dst = .ok c →
      c.WF ∧ ∀ pr x, c.den pr x ↔ Spec.allowed e.toView (src.toEnd a) (dst.toEnd b) pr x = true) ∧
    (∀ err, e.peerConns src dst = .error err →
      err = .namedPortOnIP ∧ dst.isPod = false ∧ src.isPod = true) := by
  obtain ⟨eg1, eg2⟩ := xgressConns_spec e hv src dst a b hs hd hdok false
  obtain ⟨in1, in2⟩ := xgressConns_spec e hv src dst a b hs hd hdok true
  simp only [selfEnd_false, otherEnd_false, dirOf_false] at eg1
  simp only [selfEnd_true, otherEnd_true, dirOf_true] at in1
  have hal : ∀ pr x, Spec.allowed e.toView (src.toEnd a) (dst.toEnd b) pr x = true ↔
      (inRange x ∧ Spec.allowedDir e.toView (src.toEnd a) (dst.toEnd b) (dst.toEnd b) .egress pr x
        = true) ∧
      (inRange x ∧ Spec.allowedDir e.toView (dst.toEnd b) (src.toEnd a) (dst.toEnd b) .ingress pr x
        = true) := by
    intro pr x
    simp only [Spec.allowed, Bool.and_eq_true, Spec.inPortRange_iff]
    constructor
    · rintro ⟨⟨h1, h2⟩, h3⟩; exact ⟨⟨h1, h2⟩, h1, h3⟩
    · rintro ⟨⟨h1, h2⟩, _, h3⟩; exact ⟨⟨h1, h2⟩, h3⟩
  rw [peerConns_eq e src dst hne]
  cases heg : e.xgressConns src dst false with
  | error err' =>
    refine ⟨fun c h => (by cases h), fun err h => ?_⟩
    cases h
    obtain ⟨h1, _, h3, h4⟩ := eg2 err' heg
    exact ⟨h1, h3, h4⟩
  | ok res =>
    obtain ⟨hrw, hrd⟩ := eg1 res heg
    cases hemp : res.isEmpty
    · cases hin : e.xgressConns src dst true with
      | error err' =>
        obtain ⟨_, h2, _⟩ := in2 err' hin
        cases h2
      | ok ing =>
        obtain ⟨hiw, hid⟩ := in1 ing hin
        refine ⟨fun c h => ?_, fun err h => ?_⟩
        · simp only [bind, Except.bind, hemp, Bool.false_eq_true, if_false] at h
          cases h
          refine ⟨ConnSet.wf_inter hrw hiw, fun pr x => ?_⟩
          rw [ConnSet.den_inter hrw hiw, hrd, hid, hal]
        · simp only [bind, Except.bind, hemp, Bool.false_eq_true, if_false] at h
          cases h
    · -- nothing may leave the source: the ingress side is not evaluated
      refine ⟨fun c h => ?_, fun err h => ?_⟩
      · simp only [bind, Except.bind, hemp, if_true] at h
        cases h
        refine ⟨hrw, fun pr x => ?_⟩
        have hno := ConnSet.not_den_of_isEmpty hemp pr x
        constructor
        · intro h; exact absurd h hno
        · intro h
          exact absurd ((hrd pr x).mpr ((hal pr x).mp h).1) hno
      · simp only [bind, Except.bind, hemp, if_true] at h
        cases h

/-! ### 6. IP ranges: every address of a reported range has the connectivity of the range -/

/-- every `ipBlock` peer of every NetworkPolicy rule of the engine has constant membership on `R`
(what `disjointIPBlocks` provides for the ranges the connlist loop queries) -/
def UniformOn (e : Engine) (R : Iv) : Prop :=
  ∀ np ∈ e.netpols, NPRule.UniformOn np.ingress R ∧ NPRule.UniformOn np.egress R

theorem foldlM_congr_mem {α β ε : Type} (l : List α) (f g : β → α → Except ε β)
    (h : ∀ x ∈ l, ∀ acc, f acc x = g acc x) (init : β) : l.foldlM f init = l.foldlM g init := by
  induction l generalizing init with
  | nil => rfl
  | cons x rest ih =>
    rw [List.foldlM_cons, List.foldlM_cons, h x (List.mem_cons_self ..)]
    cases g init x with
    | error err => rfl
    | ok v => exact ih (fun y hy => h y (List.mem_cons_of_mem _ hy)) v

theorem _root_.Netpol.ARule.selectsPeer_ip (r : ARule) (x : CSet) : r.selectsPeer (.ip x) = false := by
  unfold ARule.selectsPeer
  rw [List.any_eq_false]
  intro s _
  simp [Subject.selectsPeer]

/-- admin policies see an IP block only as "not a pod" -/
theorem adminPolicyConns_ip (rules : List ARule) (x y : CSet) (dst dst' : KPeer) (banp : Bool) :
    adminPolicyConns rules (.ip x) dst banp = adminPolicyConns rules (.ip y) dst' banp := by
  rw [adminPolicyConns_eq, adminPolicyConns_eq]
  congr 1
  funext pc r
  simp [adminStep, ARule.selectsPeer_ip]

theorem anpConns_congr (e : Engine) (src dst src' dst' : KPeer) (isIngress : Bool)
    (h : ∀ a, anpSingle src dst isIngress a = anpSingle src' dst' isIngress a) :
    e.anpConns src dst isIngress = e.anpConns src' dst' isIngress := by
  rw [anpConns_eq, anpConns_eq]
  have : anpFold src dst isIngress = anpFold src' dst' isIngress := by
    funext pc a
    simp only [anpFold, h]
  rw [this]

theorem defaultConns_congr (e : Engine) (src dst src' dst' : KPeer) (isIngress : Bool)
    (h : ∀ b, banpSingle src dst isIngress b = banpSingle src' dst' isIngress b) :
    e.defaultConns src dst isIngress = e.defaultConns src' dst' isIngress := by
  cases hb : e.banp with
  | none => unfold defaultConns; rw [hb]
  | some b => rw [defaultConns_some e _ _ _ b hb, defaultConns_some e _ _ _ b hb, h]

theorem xgressConns_congr (e : Engine) (src dst src' dst' : KPeer) (isIngress : Bool)
    (h1 : e.anpConns src dst isIngress = e.anpConns src' dst' isIngress)
    (h2 : e.netpolConns src dst isIngress = e.netpolConns src' dst' isIngress)
    (h3 : e.defaultConns src dst isIngress = e.defaultConns src' dst' isIngress) :
    e.xgressConns src dst isIngress = e.xgressConns src' dst' isIngress := by
  unfold xgressConns
  rw [h1, h2, h3]

/-- the side of an IP block (egress from it, ingress into it) does not depend on the block -/
theorem xgressConns_self_ip (e : Engine) (src dst src' dst' : KPeer) (isIngress : Bool) (x y : CSet)
    (hs : selfPeer src dst isIngress = .ip x) (hs' : selfPeer src' dst' isIngress = .ip y) :
    e.xgressConns src dst isIngress = e.xgressConns src' dst' isIngress := by
  apply xgressConns_congr
  · apply anpConns_congr
    intro a
    cases isIngress
    · simp only [selfPeer_false] at hs hs'
      subst hs hs'
      rfl
    · simp only [selfPeer_true] at hs hs'
      subst hs hs'
      rfl
  · rw [netpolConns_ip e src dst isIngress x hs, netpolConns_ip e src' dst' isIngress y hs']
  · apply defaultConns_congr
    intro b
    cases isIngress
    · simp only [selfPeer_false] at hs hs'
      subst hs hs'
      rfl
    · simp only [selfPeer_true] at hs hs'
      subst hs hs'
      rfl

/-- ingress from an IP range on which the engine's policies are uniform -/
theorem xgressConns_ip_range_src (e : Engine) (R : Iv) (hR : R.lo ≤ R.hi) (hu : e.UniformOn R)
    (a : Int) (ha : R.mem a) (dst : KPeer) :
    e.xgressConns (.ip [R]) dst true = e.xgressConns (.ip [⟨a, a⟩]) dst true := by
  apply xgressConns_congr
  · apply anpConns_congr
    intro p
    simp only [anpSingle, Bool.not_true, Bool.false_eq_true, if_false]
    rw [adminPolicyConns_ip p.ingress [R] [⟨a, a⟩] dst dst]
  · rw [netpolConns_eq, netpolConns_eq]
    simp only [selfPeer_true]
    have : (e.policiesSelecting dst (dirOf true)).foldlM (npFold (.ip [R]) dst true) (ConnSet.mk' false)
        = (e.policiesSelecting dst (dirOf true)).foldlM (npFold (.ip [⟨a, a⟩]) dst true)
          (ConnSet.mk' false) := by
      apply foldlM_congr_mem
      intro np hnp acc
      have hmem : np ∈ e.netpols := policiesSelecting_sub hnp
      simp only [npFold, npStep, if_true, NetPol.ingressAllowedConns]
      rw [NetPol.allowedConns_ip_range_src np np.ingress R hR (hu np hmem).1 a ha dst]
    simp only [this]
    rfl
  · apply defaultConns_congr
    intro b
    simp only [banpSingle, if_true]
    rw [adminPolicyConns_ip b.ingress [R] [⟨a, a⟩] dst dst]

/-- egress to an IP range on which the engine's policies are uniform -/
theorem xgressConns_ip_range_dst (e : Engine) (R : Iv) (hR : R.lo ≤ R.hi) (hu : e.UniformOn R)
    (a : Int) (ha : R.mem a) (src : KPeer) :
    e.xgressConns src (.ip [R]) false = e.xgressConns src (.ip [⟨a, a⟩]) false := by
  apply xgressConns_congr
  · apply anpConns_congr
    intro p
    simp only [anpSingle, Bool.not_false, if_true]
    rw [adminPolicyConns_ip p.egress [R] [⟨a, a⟩] (.ip [R]) (.ip [⟨a, a⟩])]
  · rw [netpolConns_eq, netpolConns_eq]
    simp only [selfPeer_false]
    have : (e.policiesSelecting src (dirOf false)).foldlM (npFold src (.ip [R]) false)
          (ConnSet.mk' false)
        = (e.policiesSelecting src (dirOf false)).foldlM (npFold src (.ip [⟨a, a⟩]) false)
          (ConnSet.mk' false) := by
      apply foldlM_congr_mem
      intro np hnp acc
      have hmem : np ∈ e.netpols := policiesSelecting_sub hnp
      simp only [npFold, npStep, Bool.false_eq_true, if_false, NetPol.egressAllowedConns]
      rw [NetPol.allowedConns_ip_range_dst np np.egress R hR (hu np hmem).2 a ha]
    simp only [this]
    rfl
  · apply defaultConns_congr
    intro b
    simp only [banpSingle, Bool.false_eq_true, if_false]
    rw [adminPolicyConns_ip b.egress [R] [⟨a, a⟩] (.ip [R]) (.ip [⟨a, a⟩])]

/-- Theorem 6 (source). Every address `a` of an IP range `R` on which the engine's policies are
uniform has, as a source, exactly the connectivity computed for the range. -/
theorem peerConns_ip_range_src (e : Engine) (R : Iv) (hR : R.lo ≤ R.hi) (hu : e.UniformOn R)
    (a : Int) (ha : R.mem a) (dst : KPeer) :
    e.peerConns (.ip [R]) dst = e.peerConns (.ip [⟨a, a⟩]) dst := by
  rw [peerConns_eq e _ _ rfl, peerConns_eq e _ _ rfl,
    xgressConns_ip_range_src e R hR hu a ha dst,
    xgressConns_self_ip e (.ip [R]) dst (.ip [⟨a, a⟩]) dst false [R] [⟨a, a⟩] rfl rfl]

/-- Theorem 6 (destination). -/
theorem peerConns_ip_range_dst (e : Engine) (R : Iv) (hR : R.lo ≤ R.hi) (hu : e.UniformOn R)
    (a : Int) (ha : R.mem a) (src : KPeer) :
    e.peerConns src (.ip [R]) = e.peerConns src (.ip [⟨a, a⟩]) := by
  have h : ∀ r, isPodToItself src (.ip r) = false := by
    intro r; cases src <;> rfl
  rw [peerConns_eq e _ _ (h _), peerConns_eq e _ _ (h _),
    xgressConns_ip_range_dst e R hR hu a ha src,
    xgressConns_self_ip e src (.ip [R]) src (.ip [⟨a, a⟩]) true [R] [⟨a, a⟩] rfl rfl]

/-- Theorem 6. "Every address inside a reported IP range has exactly the connectivity reported for
that range", as a source and as a destination. -/
theorem peerConns_ip_range (e : Engine) (R : Iv) (hR : R.lo ≤ R.hi) (hu : e.UniformOn R)
    (a : Int) (ha : R.mem a) :
    (∀ dst, e.peerConns (.ip [R]) dst = e.peerConns (.ip [⟨a, a⟩]) dst) ∧
    (∀ src, e.peerConns src (.ip [R]) = e.peerConns src (.ip [⟨a, a⟩])) :=
  ⟨peerConns_ip_range_src e R hR hu a ha, peerConns_ip_range_dst e R hR hu a ha⟩

/-! ### 7. the order of the admin policies: priorities only -/

theorem insertByPrio_perm (a : ANP) (l : List ANP) : (insertByPrio a l).Perm (a :: l) := by
  induction l with
  | nil => exact List.Perm.refl _
  | cons b bs ih =>
    unfold insertByPrio
    split
    · exact List.Perm.refl _
    · exact (List.Perm.cons b ih).trans (List.Perm.swap a b bs)

theorem insertByPrio_sorted (a : ANP) (l : List ANP)
    (h : l.Pairwise (fun a b => a.prio ≤ b.prio)) :
    (insertByPrio a l).Pairwise (fun a b => a.prio ≤ b.prio) := by
  induction l with
  | nil => simp [insertByPrio]
  | cons b bs ih =>
    rw [List.pairwise_cons] at h
    unfold insertByPrio
    split
    · rename_i hlt
      rw [List.pairwise_cons]
      refine ⟨?_, List.pairwise_cons.mpr h⟩
      intro c hc
      rcases List.mem_cons.mp hc with rfl | hc
      · omega
      · have := h.1 c hc; omega
    · rename_i hlt
      rw [List.pairwise_cons]
      refine ⟨?_, ih h.2⟩
      intro c hc
      rcases List.mem_cons.mp ((insertByPrio_perm a bs).mem_iff.mp hc) with rfl | hc
      · omega
      · exact h.1 c hc

theorem foldr_insertByPrio_perm (l : List ANP) : (l.foldr insertByPrio []).Perm l := by
  induction l with
  | nil => exact List.Perm.refl _
  | cons a rest ih => exact (insertByPrio_perm a _).trans (List.Perm.cons a ih)

theorem foldr_insertByPrio_sorted (l : List ANP) :
    (l.foldr insertByPrio []).Pairwise (fun a b => a.prio ≤ b.prio) := by
  induction l with
  | nil => exact List.Pairwise.nil
  | cons a rest ih => exact insertByPrio_sorted a _ ih

/-- distinct priorities identify the policies of a list -/
theorem eq_of_prio_eq {l : List ANP} (hn : (l.map (·.prio)).Nodup) {a b : ANP} (ha : a ∈ l)
    (hb : b ∈ l) (h : a.prio = b.prio) : a = b := by
  induction l with
  | nil => exact absurd ha List.not_mem_nil
  | cons c rest ih =>
    rw [List.map_cons, List.nodup_cons] at hn
    rcases List.mem_cons.mp ha with rfl | ha' <;> rcases List.mem_cons.mp hb with rfl | hb'
    · rfl
    · exact absurd (List.mem_map.mpr ⟨b, hb', h.symm⟩) hn.1
    · exact absurd (List.mem_map.mpr ⟨a, ha', h⟩) hn.1
    · exact ih hn.2 ha' hb'

/-- two lists sorted by priority, permutations of each other, with distinct priorities, are equal -/
theorem sorted_perm_unique {s s' l : List ANP} (hn : (l.map (·.prio)).Nodup)
    (hs : s.Pairwise (fun a b => a.prio ≤ b.prio)) (hs' : s'.Pairwise (fun a b => a.prio ≤ b.prio))
    (hp : s.Perm l) (hp' : s'.Perm l) : s = s' := by
  refine List.Perm.eq_of_pairwise (le := fun a b => a.prio ≤ b.prio) ?_ hs hs' (hp.trans hp'.symm)
  intro a b ha hb h1 h2
  exact eq_of_prio_eq hn (hp.mem_iff.mp ha) (hp'.mem_iff.mp hb) (by omega)

/-- `sortAdminNetpolsByPriority` is insensitive to the order of its input when the priorities are
pairwise distinct (which it checks) -/
theorem anp_order_free {l l' : List ANP} (hp : l.Perm l') (hn : (l.map (·.prio)).Nodup) :
    l.foldr insertByPrio [] = l'.foldr insertByPrio [] :=
  sorted_perm_unique hn (foldr_insertByPrio_sorted l) (foldr_insertByPrio_sorted l')
    (foldr_insertByPrio_perm l) ((foldr_insertByPrio_perm l').trans hp.symm)

/-- the position `insertANP` chooses is the one `insertByPrio` chooses -/
theorem insertSorted_eq (a : ANP) (l : List ANP) : insertSorted a l = insertByPrio a l := by
  induction l with
  | nil => rfl
  | cons b bs ih =>
    unfold insertSorted insertByPrio
    rw [ih]

/-- the slice `insertANP` maintains object after object is insensitive to the order of insertion -/
theorem anp_order_free_insertSorted {l l' : List ANP} (hp : l.Perm l')
    (hn : (l.map (·.prio)).Nodup) :
    l.foldl (fun acc a => insertSorted a acc) [] = l'.foldl (fun acc a => insertSorted a acc) [] := by
  have h : ∀ m : List ANP, m.foldl (fun acc a => insertSorted a acc) [] =
      m.reverse.foldr insertByPrio [] := by
    intro m
    rw [List.foldr_reverse]
    congr 1
    funext acc a
    exact insertSorted_eq a acc
  rw [h, h]
  exact anp_order_free ((List.reverse_perm l).trans (hp.trans (List.reverse_perm l').symm))
    (((List.reverse_perm l).map (·.prio)).nodup_iff.mpr hn)

/-- … and it is the list `sortANPs` would build -/
theorem foldl_insertSorted_eq_foldr {l : List ANP} (hn : (l.map (·.prio)).Nodup) :
    l.foldl (fun acc a => insertSorted a acc) [] = l.foldr insertByPrio [] := by
  have h : l.foldl (fun acc a => insertSorted a acc) [] = l.reverse.foldr insertByPrio [] := by
    rw [List.foldr_reverse]
    congr 1
    funext acc a
    exact insertSorted_eq a acc
  rw [h]
  exact anp_order_free (List.reverse_perm l) (((List.reverse_perm l).map (·.prio)).nodup_iff.mpr hn)

/-- `sortANPs` on two engines that differ only in the order of their admin policies -/
theorem sortANPs_order_free (e : Engine) {l l' : List ANP} (hp : l.Perm l') :
    ({ e with anps := l } : Engine).sortANPs = ({ e with anps := l' } : Engine).sortANPs := by
  unfold sortANPs
  simp only
  rw [hp.any_eq]
  split
  · rfl
  · by_cases hn : (l.map (·.prio)).Nodup
    · have hn' : (l'.map (·.prio)).Nodup := (hp.map (·.prio)).nodup_iff.mp hn
      simp only [hn, hn', decide_true, Bool.not_true, Bool.false_eq_true, if_false]
      rw [anp_order_free hp hn]
    · have hn' : ¬ (l'.map (·.prio)).Nodup := fun h => hn ((hp.map (·.prio)).nodup_iff.mpr h)
      simp only [hn, hn', decide_false, Bool.not_false, if_true]

/-- `sortANPs` establishes the `anpSorted` clause of `Engine.Valid` -/
theorem sortANPs_sorted {e e' : Engine} (h : e.sortANPs = .ok e') :
    e'.anps.Pairwise (fun a b => a.prio ≤ b.prio) := by
  unfold sortANPs at h
  simp only at h
  split at h
  · cases h
  · split at h
    · cases h
    · cases h
      exact foldr_insertByPrio_sorted e.anps

theorem resolveMissingNamespaces_anps (e : Engine) : e.resolveMissingNamespaces.anps = e.anps := by
  unfold resolveMissingNamespaces
  suffices h : ∀ (l : List Pod) (acc : Engine), (l.foldl (fun acc p =>
      if (acc.findNs p.ns).isSome then acc
      else { acc with namespaces := acc.namespaces ++ [⟨p.ns, [(nsNameLabelKey, p.ns)]⟩] })
      acc).anps = acc.anps from h e.pods e
  intro l
  induction l with
  | nil => intro acc; rfl
  | cons p rest ih =>
    intro acc
    rw [List.foldl_cons, ih]
    split <;> rfl

/-- … and so does `build`, whatever the objects -/
theorem build_sorted {objs : List Obj} {e : Engine} (h : build objs = .ok e) :
    e.anps.Pairwise (fun a b => a.prio ≤ b.prio) := by
  unfold build at h
  cases h1 : objs.foldlM insertObject ({} : Engine) with
  | error err => rw [h1] at h; cases h
  | ok e1 =>
    rw [h1] at h
    cases h2 : e1.sortANPs with
    | error err => simp only [bind, Except.bind, h2] at h; cases h
    | ok e2 =>
      simp only [bind, Except.bind, h2] at h
      cases h
      rw [resolveMissingNamespaces_anps]
      exact sortANPs_sorted h2

/-! ### 8. the model side of "an IP block is never the subject of an admin policy" -/

theorem anpFold_self_ip (src dst : KPeer) (isIngress : Bool) (r : CSet)
    (hs : selfPeer src dst isIngress = .ip r) (l : List ANP) (pc : PolicyConns) :
    l.foldlM (anpFold src dst isIngress) pc = .ok pc := by
  induction l with
  | nil => rfl
  | cons a rest ih =>
    rw [List.foldlM_cons]
    have : anpFold src dst isIngress pc a = .ok pc := by
      cases isIngress
      · simp only [selfPeer_false] at hs
        subst hs
        rfl
      · simp only [selfPeer_true] at hs
        subst hs
        rfl
    rw [this]
    exact ih

/-- for an IP block the ANP layer answers "not captured", whatever the policies -/
theorem anpConns_self_ip (e : Engine) (src dst : KPeer) (isIngress : Bool) (r : CSet)
    (hs : selfPeer src dst isIngress = .ip r) :
    e.anpConns src dst isIngress = .ok (PolicyConns.empty, false) := by
  rw [anpConns_eq, anpFold_self_ip src dst isIngress r hs]
  rfl

/-! ### 9. validity is decidable -/

instance (ports : Option (List APort)) : Decidable (ARule.PortsValid ports) := by
  cases ports with
  | none => exact isTrue (fun ps h => by cases h)
  | some ps =>
    exact decidable_of_iff (∀ q ∈ ps, q.Valid)
      ⟨fun h ps' e => by cases e; exact h, fun h => h ps rfl⟩

instance (rules : List ARule) : Decidable (ARule.ListValid rules) := by
  unfold ARule.ListValid; infer_instance

/-- the `banpRules` clause of `Valid` on the optional BANP -/
def banpOK : Option BANP → Prop
  | none => True
  | some b => ARule.ListValid b.ingress ∧ ARule.ListValid b.egress ∧
      (∀ r ∈ b.ingress, r.action ≠ .Pass) ∧ (∀ r ∈ b.egress, r.action ≠ .Pass)

instance (o : Option BANP) : Decidable (banpOK o) := by
  cases o <;> (unfold banpOK; infer_instance)

theorem valid_iff (e : Engine) : e.Valid ↔
    (∀ np ∈ e.netpols, (∀ r ∈ np.ingress, r.Valid) ∧ (∀ r ∈ np.egress, r.Valid)) ∧
    (∀ a ∈ e.anps, ARule.ListValid a.ingress ∧ ARule.ListValid a.egress) ∧
    banpOK e.banp ∧ e.anps.Pairwise (fun a b => a.prio ≤ b.prio) := by
  constructor
  · intro h
    refine ⟨h.npRules, h.anpRules, ?_, h.anpSorted⟩
    cases hb : e.banp with
    | none => trivial
    | some b => exact h.banpRules b hb
  · rintro ⟨h1, h2, h3, h4⟩
    refine ⟨h1, h2, ?_, h4⟩
    intro b hb
    rw [hb] at h3
    exact h3

instance (e : Engine) : Decidable e.Valid := decidable_of_iff _ (valid_iff e).symm

/-- equality of results is decidable (for the examples; activate with
`attribute [local instance] Engine.decEqExcept`) -/
@[reducible] def decEqExcept {ε α : Type} [DecidableEq ε] [DecidableEq α] : DecidableEq (Except ε α) := by
  intro x y
  cases x with
  | error a =>
    cases y with
    | error b => exact decidable_of_iff (a = b) (by simp)
    | ok b => exact isFalse (by simp)
  | ok a =>
    cases y with
    | error b => exact isFalse (by simp)
    | ok b => exact decidable_of_iff (a = b) (by simp)

end Engine
end Netpol
