import Netpol.Model.Cache
import Netpol.Proofs.Structure
/-! The cache layer (`Netpol.Model.Cache`, model of `eval_cache.go` + `check_eval.go` +
the `PolicyEngine` update entry points): the LRU verdict cache is transparent. -/
namespace Netpol
open EState

/-- one operation of a history (the `hist` lines of the driver) -/
inductive HOp where
  | ins (o : Obj)
  | del (o : Obj)
  | q (src dst proto port : String)
  | clear

namespace EState

/-- one step of the engine (the driver `Netpol/Model/HistDriver.lean` folds exactly these calls) -/
def step (s : EState) : HOp → EState × EState.Out
  | .ins o => let (out, s') := s.insert o; (s', out)
  | .del o => let (out, s') := s.delete o; (s', out)
  | .clear => ({ cache := { cap := s.cache.cap } }, .ok)
  | .q a b pr po =>
    let (r, s') := s.checkIfAllowed a b pr po
    (s', match r with | .ok v => .ans v | .error e => .err e)

def run (s : EState) (ops : List HOp) : EState := ops.foldl (fun st op => (st.step op).1) s

/-- the cache-less answer of the current state -/
def uncached (s : EState) (src dst proto port : String) : Except Err Bool :=
  ({ s with cache := { items := [], cap := s.cache.cap } }.checkIfAllowed src dst proto port).1

/-- one direction of the evaluation; `xgress` reads the state only through `s.eng` -/
def xg (e : Engine) (src dst : KPeer) (isIngress : Bool) (proto port : String) : Except Err Bool :=
  xgress { eng := e } src dst isIngress proto port

theorem xgress_eq_xg (s : EState) (src dst : KPeer) (i : Bool) (proto port : String) :
    xgress s src dst i proto port = xg s.eng src dst i proto port := rfl

/-- the rule walk on already resolved peers: egress, then ingress -/
def walk (e : Engine) (sp dp : KPeer) (proto port : String) : Except Err Bool :=
  match xg e sp dp false proto port with
  | .error err => .error err
  | .ok eg => if !eg then .ok false else xg e sp dp true proto port

/-- the validation of the query port in `CheckIfAllowed`, before the cache lookup and before any
rule is examined: a query that names a protocol or a port must carry a port that parses -/
def badQuery (proto port : String) : Bool := (proto != "" || port != "") && port.toInt?.isNone

/-- the uncached verdict on already resolved peers (everything after the two `getPeer` calls
and the self check, without the cache lookup): the validation of the query port, then the walk -/
def verdict (e : Engine) (sp dp : KPeer) (proto port : String) : Except Err Bool :=
  if badQuery proto port then .error .badPort else walk e sp dp proto port

theorem badQuery_of_toInt {proto port : String} {n : Int} (h : port.toInt? = some n) :
    badQuery proto port = false := by
  simp [badQuery, h]

theorem badQuery_of_none {proto port : String} (h : port.toInt? = none)
    (hq : (proto != "" || port != "") = true) : badQuery proto port = true := by
  simp only [badQuery, hq, h, Option.isNone_none, Bool.and_self]

/-- a query whose port does not parse is rejected before any rule is examined -/
theorem verdict_of_badQuery (e : Engine) (sp dp : KPeer) {proto port : String}
    (h : badQuery proto port = true) : verdict e sp dp proto port = .error .badPort := by
  simp only [verdict, h, if_true]

/-- on a query that passes the validation the verdict is the walk -/
theorem verdict_of_goodQuery (e : Engine) (sp dp : KPeer) {proto port : String}
    (h : badQuery proto port = false) : verdict e sp dp proto port = walk e sp dp proto port := by
  simp only [verdict, h, Bool.false_eq_true, if_false]

/-- on a port that parses the verdict is the walk: egress, then ingress -/
theorem verdict_of_toInt (e : Engine) (sp dp : KPeer) {proto port : String} {n : Int}
    (h : port.toInt? = some n) : verdict e sp dp proto port = walk e sp dp proto port :=
  verdict_of_goodQuery e sp dp (badQuery_of_toInt h)

/-- `CheckIfAllowed` after the validation of the query port: the cache lookup, then the walk
(written with `verdict`, which is the walk on a query that passed the validation:
`verdict_of_goodQuery`) -/
def cachedAnswer (s : EState) (sp dp : KPeer) (proto port : String) : Except Err Bool × EState :=
  if connKey sp dp proto port = "" then (verdict s.eng sp dp proto port, s)
  else
    match s.cache.items.find? (·.1 == connKey sp dp proto port) with
    | some kv =>
      (.ok kv.2, { s with cache := { s.cache with
        items := kv :: s.cache.items.filter (·.1 != connKey sp dp proto port) } })
    | none =>
      match verdict s.eng sp dp proto port with
      | .error e => (.error e, s)
      | .ok v => (.ok v, { s with cache := s.cache.add (connKey sp dp proto port) v })

/-- `CheckIfAllowed` after peer resolution and the self check: the validation of the query port
(a rejected query touches neither the cache nor its LRU order), then the lookup, then the walk -/
def answer (s : EState) (sp dp : KPeer) (proto port : String) : Except Err Bool × EState :=
  if badQuery proto port then (.error .badPort, s) else s.cachedAnswer sp dp proto port

/-- a query whose port does not pass the validation is rejected and leaves the state as it is,
whatever is cached and whatever the policies -/
theorem answer_badQuery (s : EState) (sp dp : KPeer) {proto port : String}
    (hb : badQuery proto port = true) : s.answer sp dp proto port = (.error .badPort, s) := by
  simp only [answer, hb, if_true]

theorem answer_goodQuery (s : EState) (sp dp : KPeer) {proto port : String}
    (hb : badQuery proto port = false) :
    s.answer sp dp proto port = s.cachedAnswer sp dp proto port := by
  simp only [answer, hb, Bool.false_eq_true, if_false]

theorem checkIfAllowed_eq (s : EState) (src dst proto port : String) :
    s.checkIfAllowed src dst proto port =
      match getPeer s.eng src with
      | .error e => (.error e, s)
      | .ok sp =>
        match getPeer s.eng dst with
        | .error e => (.error e, s)
        | .ok dp =>
          if Engine.isPodToItself sp dp then (.ok true, s) else s.answer sp dp proto port := by
  unfold checkIfAllowed
  cases h1 : getPeer s.eng src with
  | error e => rfl
  | ok sp =>
    cases h2 : getPeer s.eng dst with
    | error e => rfl
    | ok dp =>
      simp only
      by_cases hs : Engine.isPodToItself sp dp = true
      · simp [hs]
      · simp only [hs, if_false, Bool.false_eq_true]
        by_cases hb : badQuery proto port = true
        case pos =>
          have hb' : ((proto != "" || port != "") && port.toInt?.isNone) = true := hb
          rw [if_pos hb', answer_badQuery _ _ _ hb]
        case neg =>
          have hb' : ¬ ((proto != "" || port != "") && port.toInt?.isNone) = true := hb
          have hg : badQuery proto port = false := by simpa using hb
          rw [if_neg hb', answer_goodQuery _ _ _ hg]
          unfold cachedAnswer
          rw [verdict_of_goodQuery _ _ _ hg]
          by_cases hk : connKey sp dp proto port = ""
          · simp only [hk, beq_self_eq_true, if_true, cacheAdd, xgress_eq_xg]
            unfold walk
            cases hx : xg s.eng sp dp false proto port with
            | error e => rfl
            | ok eg =>
              cases eg
              · rfl
              · simp only [Bool.not_true, Bool.false_eq_true, if_false]
                cases hy : xg s.eng sp dp true proto port <;> rfl
          · have hk' : (connKey sp dp proto port == "") = false := by simpa using hk
            simp only [hk', if_false, Bool.false_eq_true, hk, LRU.get]
            cases hf : s.cache.items.find? (·.1 == connKey sp dp proto port) with
            | some kv => rfl
            | none =>
              simp only [cacheAdd, hk', xgress_eq_xg, Bool.false_eq_true, if_false]
              unfold walk
              cases hx : xg s.eng sp dp false proto port with
              | error e => rfl
              | ok eg =>
                cases eg
                · rfl
                · simp only [Bool.not_true, Bool.false_eq_true, if_false]
                  cases hy : xg s.eng sp dp true proto port <;> rfl

/-- the verdict of `answer` when nothing is cached -/
theorem cachedAnswer_nil (s : EState) (sp dp : KPeer) (proto port : String) (c : Nat) :
    (({ s with cache := { items := [], cap := c } } : EState).cachedAnswer sp dp proto port).1 =
      verdict s.eng sp dp proto port := by
  unfold cachedAnswer
  by_cases hk : connKey sp dp proto port = ""
  · simp [hk]
  · simp only [hk, if_false, List.find?_nil]
    cases verdict s.eng sp dp proto port <;> rfl

theorem answer_nil (s : EState) (sp dp : KPeer) (proto port : String) (c : Nat) :
    (({ s with cache := { items := [], cap := c } } : EState).answer sp dp proto port).1 =
      verdict s.eng sp dp proto port := by
  cases hb : badQuery proto port with
  | true => rw [answer_badQuery _ _ _ hb, verdict_of_badQuery _ _ _ hb]
  | false => rw [answer_goodQuery _ _ _ hb]; exact cachedAnswer_nil s sp dp proto port c

theorem uncached_eq (s : EState) (src dst proto port : String) :
    s.uncached src dst proto port =
      match getPeer s.eng src with
      | .error e => .error e
      | .ok sp =>
        match getPeer s.eng dst with
        | .error e => .error e
        | .ok dp =>
          if Engine.isPodToItself sp dp then .ok true else verdict s.eng sp dp proto port := by
  unfold uncached
  rw [checkIfAllowed_eq]
  simp only
  cases h1 : getPeer s.eng src with
  | error e => rfl
  | ok sp =>
    cases h2 : getPeer s.eng dst with
    | error e => rfl
    | ok dp =>
      simp only
      by_cases hs : Engine.isPodToItself sp dp = true
      · simp [hs]
      · simp only [hs, if_false, Bool.false_eq_true]
        exact answer_nil s sp dp proto port _

end EState

/-! ### (b) congruence: the evaluation reads a real pod only through namespace, labels, ports -/

/-- two real (non-representative) pods that agree on what the evaluation reads: namespace,
labels and container ports. Name, owner kind/name, variant, host address are free. -/
structure PodSim (p p' : Pod) : Prop where
  ns : p.ns = p'.ns
  labels : p.labels = p'.labels
  ports : p.ports = p'.ports
  real : p.isRepresentative = false
  real' : p'.isRepresentative = false

theorem PodSim.refl {p : Pod} (h : p.isRepresentative = false) : PodSim p p := ⟨rfl, rfl, rfl, h, h⟩
theorem PodSim.symm {p p' : Pod} (h : PodSim p p') : PodSim p' p :=
  ⟨h.ns.symm, h.labels.symm, h.ports.symm, h.real', h.real⟩

section Congr
variable {p p' q q' : Pod} (n m : Option NsObj)

theorem CacheLayer.np_selects_congr (h : PodSim p p') (np : NetPol) (d : Dir) :
    np.selects p d = np.selects p' d := by
  simp only [NetPol.selects, h.ns, h.labels, h.real, h.real']

theorem CacheLayer.subject_selectsPeer_congr (h : PodSim p p') (s : Subject) :
    s.selectsPeer (.pod p n) = s.selectsPeer (.pod p' n) := by
  cases s <;> cases n <;> simp only [Subject.selectsPeer, KPeer.nsLabels, h.labels]

theorem CacheLayer.arule_selectsPeer_congr (h : PodSim p p') (r : ARule) :
    r.selectsPeer (.pod p n) = r.selectsPeer (.pod p' n) := by
  simp only [ARule.selectsPeer, CacheLayer.subject_selectsPeer_congr n h]

theorem CacheLayer.anp_selects_congr (h : PodSim p p') (a : ANP) (i : Bool) :
    a.selects (.pod p n) i = a.selects (.pod p' n) i := by
  simp only [ANP.selects, KPeer.isPod, CacheLayer.subject_selectsPeer_congr n h]

theorem CacheLayer.banp_selects_congr (h : PodSim p p') (b : BANP) (i : Bool) :
    b.selects (.pod p n) i = b.selects (.pod p' n) i := by
  simp only [BANP.selects, KPeer.isPod, CacheLayer.subject_selectsPeer_congr n h]

theorem CacheLayer.convertNamedPort_congr (h : PodSim p p') (name : String) :
    p.convertNamedPort name = p'.convertNamedPort name := by
  simp only [Pod.convertNamedPort, h.ports]

theorem CacheLayer.arule_portContains_congr (h : PodSim p p') (ports : Option (List APort)) (pr : Option Proto)
    (port : Int) : ARule.portContains ports pr port (.pod p n) = ARule.portContains ports pr port (.pod p' n) := by
  simp only [ARule.portContains, CacheLayer.convertNamedPort_congr h]

theorem EState.anpPortContains_congr (h : PodSim p p') (ports : Option (List APort)) (proto port : String) :
    anpPortContains ports proto port (.pod p n) = anpPortContains ports proto port (.pod p' n) := by
  simp only [anpPortContains, CacheLayer.arule_portContains_congr n h]

theorem EState.adminCheck_go_cons (other dst : KPeer) (proto port : String) (banp : Bool) (r : ARule)
    (rest : List ARule) :
    adminCheck.go other dst proto port banp (r :: rest) =
      if r.peers.isEmpty then .error .anpRulePeers
      else if !r.selectsPeer other then adminCheck.go other dst proto port banp rest
      else (do
        let c ← anpPortContains r.ports proto port dst
        if !c then adminCheck.go other dst proto port banp rest
        else match r.action with
          | .Pass => if banp then .error .badAction else pure .pass
          | .Allow => pure .allow
          | .Deny => pure .deny) := rfl

theorem EState.adminCheck_congr (h1 : PodSim p p') (h2 : PodSim q q') (rules : List ARule)
    (proto port : String) (banp : Bool) :
    adminCheck rules (.pod p n) (.pod q m) proto port banp =
      adminCheck rules (.pod p' n) (.pod q' m) proto port banp := by
  unfold adminCheck
  induction rules with
  | nil => rfl
  | cons r rest ih =>
    rw [adminCheck_go_cons, adminCheck_go_cons, ih, CacheLayer.arule_selectsPeer_congr n h1,
      anpPortContains_congr m h2]

theorem EState.byANPs_go_cons (src dst : KPeer) (i : Bool) (proto port : String) (a : ANP)
    (rest : List ANP) :
    byANPs.go src dst i proto port (a :: rest) =
      if i then
        if a.selects dst true then (do
          let r ← adminCheck a.ingress src dst proto port false
          match r with
          | .notCaptured => byANPs.go src dst i proto port rest
          | .pass => pure (false, true)
          | .allow => pure (true, false)
          | .deny => pure (false, false))
        else byANPs.go src dst i proto port rest
      else
        if a.selects src false then (do
          let r ← adminCheck a.egress dst dst proto port false
          match r with
          | .notCaptured => byANPs.go src dst i proto port rest
          | .pass => pure (false, true)
          | .allow => pure (true, false)
          | .deny => pure (false, false))
        else byANPs.go src dst i proto port rest := rfl

theorem EState.byANPs_congr (h1 : PodSim p p') (h2 : PodSim q q') (e : Engine) (i : Bool)
    (proto port : String) :
    byANPs e (.pod p n) (.pod q m) i proto port = byANPs e (.pod p' n) (.pod q' m) i proto port := by
  unfold byANPs
  induction e.anps with
  | nil => rfl
  | cons a rest ih =>
    rw [byANPs_go_cons, byANPs_go_cons, ih, CacheLayer.anp_selects_congr m h2, CacheLayer.anp_selects_congr n h1,
      adminCheck_congr n m h1 h2, adminCheck_congr m m h2 h2]

theorem EState.byBANP_congr (h1 : PodSim p p') (h2 : PodSim q q') (e : Engine) (i : Bool)
    (proto port : String) :
    byBANP e (.pod p n) (.pod q m) i proto port = byBANP e (.pod p' n) (.pod q' m) i proto port := by
  unfold byBANP
  cases e.banp with
  | none => rfl
  | some b =>
    simp only [CacheLayer.banp_selects_congr m h2, CacheLayer.banp_selects_congr n h1,
      adminCheck_congr n m h1 h2, adminCheck_congr m m h2 h2]

theorem CacheLayer.portsRange_congr (h : PodSim p p') (port : NPPort) :
    NetPol.portsRange port (some (.pod p n)) = NetPol.portsRange port (some (.pod p' n)) := by
  simp only [NetPol.portsRange, CacheLayer.convertNamedPort_congr h]

theorem CacheLayer.ruleConnsContain_congr (h : PodSim p p') (ports : List NPPort) (pr : Option Proto)
    (port : Int) :
    NetPol.ruleConnsContain ports pr port (.pod p n) = NetPol.ruleConnsContain ports pr port (.pod p' n) := by
  have hgo : NetPol.ruleConnsContain.go pr port (.pod p n) ports =
      NetPol.ruleConnsContain.go pr port (.pod p' n) ports := by
    induction ports with
    | nil => rfl
    | cons x rest ih =>
      simp only [NetPol.ruleConnsContain.go, ih, CacheLayer.portsRange_congr n h]
  simp only [NetPol.ruleConnsContain, hgo]

theorem EState.npRuleConnsContain_congr (h : PodSim p p') (ports : List NPPort) (proto port : String) :
    npRuleConnsContain ports proto port (.pod p n) = npRuleConnsContain ports proto port (.pod p' n) := by
  simp only [npRuleConnsContain, CacheLayer.ruleConnsContain_congr n h]

/-- the equation of `ruleSelectsPeer.go` on a selector peer and a pod (the equation compiler
fails to generate it) -/
theorem CacheLayer.rsp_go_sel_pod (np : NetPol) (rest : List NPPeer) (p : Pod) (nso : Option NsObj)
    (podSel nsSel : Option Selector) (h : NPPeer.sel podSel nsSel ≠ .sel none none) :
    NetPol.ruleSelectsPeer.go np (.pod p nso) (.sel podSel nsSel :: rest) =
      if !(match nsSel with
          | none => NetPol.nsMatchNil np p
          | some s => NetPol.selectorsMatch s p.reprNsSel ((nso.map (·.labels)).getD []) p.isRepresentative)
      then NetPol.ruleSelectsPeer.go np (.pod p nso) rest
      else if (match podSel with
          | none => true
          | some s => NetPol.selectorsMatch s p.reprPodSel p.labels p.isRepresentative)
        then .ok true else NetPol.ruleSelectsPeer.go np (.pod p nso) rest := by
  cases podSel <;> cases nsSel <;> first | rfl | exact absurd rfl h

theorem CacheLayer.ruleSelectsPeer_congr (h : PodSim p p') (np : NetPol) (peers : List NPPeer) :
    np.ruleSelectsPeer peers (.pod p n) = np.ruleSelectsPeer peers (.pod p' n) := by
  have hgo : NetPol.ruleSelectsPeer.go np (.pod p n) peers =
      NetPol.ruleSelectsPeer.go np (.pod p' n) peers := by
    induction peers with
    | nil => rfl
    | cons rp rest ih =>
      cases rp with
      | ip c ex => exact ih
      | sel podSel nsSel =>
        cases podSel <;> cases nsSel
        · rfl
        all_goals
          rw [rsp_go_sel_pod _ _ _ _ _ _ (by simp), rsp_go_sel_pod _ _ _ _ _ _ (by simp)]
          simp only [ih, h.ns, h.labels, h.real, h.real', NetPol.selectorsMatch,
            NetPol.nsMatchNil_real np p h.real, NetPol.nsMatchNil_real np p' h.real',
            Bool.false_eq_true, if_false]
  simp only [NetPol.ruleSelectsPeer, hgo]

theorem EState.npAllowedConn_go_cons (np : NetPol) (other : KPeer) (proto port : String)
    (dst : KPeer) (r : NPRule) (rest : List NPRule) :
    npAllowedConn.go np other proto port dst (r :: rest) = (do
      let sel ← np.ruleSelectsPeer r.peers other
      if !sel then npAllowedConn.go np other proto port dst rest
      else
        let c ← npRuleConnsContain r.ports proto port dst
        if c then pure true else npAllowedConn.go np other proto port dst rest) := rfl

theorem EState.npAllowedConn_congr (h1 : PodSim p p') (h2 : PodSim q q') (np : NetPol)
    (rules : List NPRule) (proto port : String) :
    npAllowedConn np rules (.pod p n) proto port (.pod q m) =
      npAllowedConn np rules (.pod p' n) proto port (.pod q' m) := by
  unfold npAllowedConn
  induction rules with
  | nil => rfl
  | cons r rest ih =>
    rw [npAllowedConn_go_cons, npAllowedConn_go_cons, ih, CacheLayer.ruleSelectsPeer_congr n h1,
      npRuleConnsContain_congr m h2]

theorem CacheLayer.policiesSelecting_congr (h : PodSim p p') (e : Engine) (d : Dir) :
    e.policiesSelecting (.pod p n) d = e.policiesSelecting (.pod p' n) d := by
  simp only [Engine.policiesSelecting, CacheLayer.np_selects_congr h]

theorem EState.byNetpols_go_cons (src dst : KPeer) (i : Bool) (proto port : String) (np : NetPol)
    (rest : List NetPol) :
    byNetpols.go src dst i proto port (np :: rest) = (do
      let r ← if i then npAllowedConn np np.ingress src proto port dst
              else npAllowedConn np np.egress dst proto port dst
      if r then pure (true, true) else byNetpols.go src dst i proto port rest) := rfl

theorem EState.byNetpols_congr (h1 : PodSim p p') (h2 : PodSim q q') (e : Engine) (i : Bool)
    (proto port : String) :
    byNetpols e (.pod p n) (.pod q m) i proto port =
      byNetpols e (.pod p' n) (.pod q' m) i proto port := by
  have hgo : ∀ pols : List NetPol, byNetpols.go (.pod p n) (.pod q m) i proto port pols =
      byNetpols.go (.pod p' n) (.pod q' m) i proto port pols := by
    intro pols
    induction pols with
    | nil => rfl
    | cons np rest ih =>
      rw [byNetpols_go_cons, byNetpols_go_cons, ih, npAllowedConn_congr n m h1 h2,
        npAllowedConn_congr m m h2 h2]
  simp only [byNetpols, hgo, CacheLayer.policiesSelecting_congr m h2, CacheLayer.policiesSelecting_congr n h1]

theorem EState.xg_congr (h1 : PodSim p p') (h2 : PodSim q q') (e : Engine) (i : Bool)
    (proto port : String) :
    xg e (.pod p n) (.pod q m) i proto port = xg e (.pod p' n) (.pod q' m) i proto port := by
  simp only [xg, xgress, byANPs_congr n m h1 h2, byNetpols_congr n m h1 h2, byBANP_congr n m h1 h2]

/-- (b) the verdict for two pod peers reads each pod only through namespace, labels and ports -/
theorem EState.verdict_congr (h1 : PodSim p p') (h2 : PodSim q q') (e : Engine) (proto port : String) :
    verdict e (.pod p n) (.pod q m) proto port = verdict e (.pod p' n) (.pod q' m) proto port := by
  simp only [verdict, walk, xg_congr n m h1 h2]

end Congr

/-- (a) the verdict reads the engine only through its policies -/
theorem EState.verdict_eng_congr {e e' : Engine} (h1 : e.netpols = e'.netpols) (h2 : e.anps = e'.anps)
    (h3 : e.banp = e'.banp) (sp dp : KPeer) (proto port : String) :
    verdict e sp dp proto port = verdict e' sp dp proto port := by
  have a1 : ∀ i, byANPs e sp dp i proto port = byANPs e' sp dp i proto port := by
    intro i; unfold byANPs; rw [h2]
  have a2 : ∀ i, byNetpols e sp dp i proto port = byNetpols e' sp dp i proto port := by
    intro i; unfold byNetpols Engine.policiesSelecting; rw [h1]
  have a3 : ∀ i, byBANP e sp dp i proto port = byBANP e' sp dp i proto port := by
    intro i; unfold byBANP; rw [h3]
  simp only [verdict, walk, xg, xgress, a1, a2, a3]


/-! ### the cache invariant -/

namespace EState

/-- the name under which `getPeer` looks up the namespace object of a pod -/
def nsKey (p : Pod) : String := if p.ns == "" then "default" else p.ns

/-- the (non-empty) cache key of a pair of owned pods -/
def ckey (sp dp : Pod) (proto port : String) : String :=
  ownerKey sp ++ "/" ++ ownerKey dp ++ "/" ++ proto ++ "/" ++ port

theorem connKey_pod (sp dp : Pod) (n m : Option NsObj) (proto port : String) :
    connKey (.pod sp n) (.pod dp m) proto port =
      if sp.ownerName != "" && dp.ownerName != "" then ckey sp dp proto port else "" := rfl

/-- a non-empty key comes from two owned pods -/
theorem connKey_ne_empty {sp dp : KPeer} {proto port : String} (h : connKey sp dp proto port ≠ "") :
    ∃ p n q m, sp = .pod p n ∧ dp = .pod q m ∧ p.ownerName ≠ "" ∧ q.ownerName ≠ "" ∧
      connKey sp dp proto port = ckey p q proto port := by
  cases sp with
  | ip r => exact absurd rfl h
  | pod p n =>
    cases dp with
    | ip r => exact absurd rfl h
    | pod q m =>
      rw [connKey_pod] at h ⊢
      by_cases ho : (p.ownerName != "" && q.ownerName != "") = true
      · rw [if_pos ho]
        simp only [Bool.and_eq_true, bne_iff_ne, ne_eq] at ho
        exact ⟨p, n, q, m, rfl, rfl, ho.1, ho.2, rfl⟩
      · rw [if_neg ho] at h
        exact absurd rfl h

/-- **The assumption the key design forces.** `P` = the pods in play, `Q` = the (protocol, port)
query strings in play. The cache key of a query is the *string concatenation*
`ns/owner/variant/ns/owner/variant/proto/port`; the Go cache presupposes that this string determines
everything the evaluation reads: the two pods' namespace, labels and container ports (pods with one
owner key are interchangeable, they are real pods) and the protocol and port strings. -/
def KeyFaithful (P : Pod → Prop) (Q : String → String → Prop) : Prop :=
  ∀ s d s' d' pr po pr' po', P s → P d → P s' → P d' →
    s.ownerName ≠ "" → d.ownerName ≠ "" → s'.ownerName ≠ "" → d'.ownerName ≠ "" →
    Q pr po → Q pr' po' → ckey s d pr po = ckey s' d' pr' po' →
    PodSim s s' ∧ PodSim d d' ∧ pr = pr' ∧ po = po'

/-- a resolved peer: what `getPeer` returns -/
def Resolved (s : EState) : KPeer → Prop
  | .pod p (some n) => p ∈ s.eng.pods ∧ s.eng.findNs (nsKey p) = some n
  | .pod _ none => False
  | .ip _ => True

theorem getPeer_resolved (s : EState) (x : String) (k : KPeer) (h : getPeer s.eng x = .ok k) :
    Resolved s k := by
  unfold getPeer at h
  simp only at h
  split at h
  · cases h; trivial
  · split at h
    · cases h; trivial
    · split at h
      · split at h
        · cases h
        · split at h
          · cases h
          · cases h
            rename_i pod hp _ ns hn
            exact ⟨List.mem_of_find?_eq_some hp, hn⟩
      · cases h

/-- the invariant: the engine only holds pods in play, and every cached verdict is the uncached
verdict of *every* resolved query in play with that key -/
structure Inv (P : Pod → Prop) (Q : String → String → Prop) (s : EState) : Prop where
  pods : ∀ p ∈ s.eng.pods, P p
  cache : ∀ kv ∈ s.cache.items, ∀ sp dp nS nD pr po, P sp → P dp →
    sp.ownerName ≠ "" → dp.ownerName ≠ "" → Q pr po →
    s.eng.findNs (nsKey sp) = some nS → s.eng.findNs (nsKey dp) = some nD →
    ckey sp dp pr po = kv.1 →
    verdict s.eng (.pod sp (some nS)) (.pod dp (some nD)) pr po = .ok kv.2

variable {P : Pod → Prop} {Q : String → String → Prop}

theorem Inv.of_empty {s : EState} (hc : s.cache.items = []) (hp : ∀ p ∈ s.eng.pods, P p) : Inv P Q s :=
  ⟨hp, by intro kv hkv; rw [hc] at hkv; cases hkv⟩

/-- updates that keep policies and namespaces and only drop cache entries keep the invariant:
the verdict of a resolved pair does not depend on which other pods exist -/
theorem Inv.frame {s s' : EState} (hi : Inv P Q s)
    (h1 : s'.eng.netpols = s.eng.netpols) (h2 : s'.eng.anps = s.eng.anps)
    (h3 : s'.eng.banp = s.eng.banp) (h4 : s'.eng.namespaces = s.eng.namespaces)
    (hp : ∀ p ∈ s'.eng.pods, P p) (hc : ∀ kv ∈ s'.cache.items, kv ∈ s.cache.items) : Inv P Q s' := by
  refine ⟨hp, ?_⟩
  intro kv hkv sp dp nS nD pr po hsp hdp hso hdo hq hnS hnD hk
  have hf : ∀ x, s'.eng.findNs x = s.eng.findNs x := by intro x; simp only [Engine.findNs, h4]
  rw [verdict_eng_congr h1 h2 h3]
  exact hi.cache kv (hc kv hkv) sp dp nS nD pr po hsp hdp hso hdo hq (hf _ ▸ hnS) (hf _ ▸ hnD) hk


/-- under the invariant the (possibly cached) answer is the uncached verdict -/
theorem cachedAnswer_transparent {s : EState} (hi : Inv P Q s) {sp dp : KPeer} (hs : Resolved s sp)
    (hd : Resolved s dp) {proto port : String} (hq : Q proto port) :
    (s.cachedAnswer sp dp proto port).1 = verdict s.eng sp dp proto port := by
  unfold cachedAnswer
  by_cases hk : connKey sp dp proto port = ""
  · rw [if_pos hk]
  · rw [if_neg hk]
    cases hf : s.cache.items.find? (·.1 == connKey sp dp proto port) with
    | none => simp only; cases verdict s.eng sp dp proto port <;> rfl
    | some kv =>
      simp only
      obtain ⟨p, n, q, m, rfl, rfl, hpo, hqo, hkey⟩ := connKey_ne_empty hk
      cases n with
      | none => exact absurd hs id
      | some nS =>
        cases m with
        | none => exact absurd hd id
        | some nD =>
          have hmem := List.mem_of_find?_eq_some hf
          have hk1 : kv.1 = connKey (.pod p (some nS)) (.pod q (some nD)) proto port := by
            simpa using List.find?_some hf
          exact (hi.cache kv hmem p q nS nD proto port (hi.pods p hs.1) (hi.pods q hd.1) hpo hqo hq
            hs.2 hd.2 (by rw [hk1, hkey])).symm

theorem answer_transparent {s : EState} (hi : Inv P Q s) {sp dp : KPeer} (hs : Resolved s sp)
    (hd : Resolved s dp) {proto port : String} (hq : Q proto port) :
    (s.answer sp dp proto port).1 = verdict s.eng sp dp proto port := by
  cases hb : badQuery proto port with
  | true => rw [answer_badQuery _ _ _ hb, verdict_of_badQuery _ _ _ hb]
  | false => rw [answer_goodQuery _ _ _ hb]; exact cachedAnswer_transparent hi hs hd hq

theorem mem_lru_add {c : LRU} {k : String} {v : Bool} {kv : String × Bool}
    (h : kv ∈ (c.add k v).items) : kv = (k, v) ∨ kv ∈ c.items := by
  simp only [LRU.add] at h
  rcases List.mem_cons.mp (List.mem_of_mem_take h) with h | h
  · exact Or.inl h
  · exact Or.inr (List.mem_filter.mp h).1

/-- a query keeps the invariant: a hit only reorders, a miss stores the verdict just computed,
which by `KeyFaithful` is the verdict of every query in play with the same key -/
theorem cachedAnswer_inv (hf : KeyFaithful P Q) {s : EState} (hi : Inv P Q s) {sp dp : KPeer}
    (hs : Resolved s sp) (hd : Resolved s dp) {proto port : String} (hq : Q proto port) :
    Inv P Q (s.cachedAnswer sp dp proto port).2 := by
  unfold cachedAnswer
  by_cases hk : connKey sp dp proto port = ""
  · rw [if_pos hk]; exact hi
  · rw [if_neg hk]
    cases hfind : s.cache.items.find? (·.1 == connKey sp dp proto port) with
    | some kv =>
      simp only
      refine hi.frame rfl rfl rfl rfl hi.pods ?_
      intro kv' hkv'
      rcases List.mem_cons.mp hkv' with h | h
      · exact h ▸ List.mem_of_find?_eq_some hfind
      · exact (List.mem_filter.mp h).1
    | none =>
      simp only
      cases hv : verdict s.eng sp dp proto port with
      | error e => exact hi
      | ok v =>
        simp only
        refine ⟨hi.pods, ?_⟩
        intro kv hkv sp' dp' nS' nD' pr po hsp' hdp' hso' hdo' hq' hnS' hnD' hk'
        rcases mem_lru_add hkv with h | h
        · subst h
          obtain ⟨p, n, q, m, rfl, rfl, hpo, hqo, hkey⟩ := connKey_ne_empty hk
          cases n with
          | none => exact absurd hs id
          | some nS =>
            cases m with
            | none => exact absurd hd id
            | some nD =>
              simp only at hk'
              rw [hkey] at hk'
              obtain ⟨h1, h2, rfl, rfl⟩ := hf sp' dp' p q pr po _ _ hsp' hdp' (hi.pods p hs.1)
                (hi.pods q hd.1) hso' hdo' hpo hqo hq' hq hk'
              have e1 : nS' = nS := by
                have : nsKey sp' = nsKey p := by simp only [nsKey, h1.ns]
                rw [this, hs.2] at hnS'; exact (Option.some.inj hnS').symm
              have e2 : nD' = nD := by
                have : nsKey dp' = nsKey q := by simp only [nsKey, h2.ns]
                rw [this, hd.2] at hnD'; exact (Option.some.inj hnD').symm
              subst e1 e2
              show verdict s.eng _ _ _ _ = _
              rw [verdict_congr _ _ h1 h2, hv]
        · exact hi.cache kv h sp' dp' nS' nD' pr po hsp' hdp' hso' hdo' hq' hnS' hnD' hk'

theorem answer_inv (hf : KeyFaithful P Q) {s : EState} (hi : Inv P Q s) {sp dp : KPeer}
    (hs : Resolved s sp) (hd : Resolved s dp) {proto port : String} (hq : Q proto port) :
    Inv P Q (s.answer sp dp proto port).2 := by
  cases hb : badQuery proto port with
  | true => rw [answer_badQuery _ _ _ hb]; exact hi
  | false => rw [answer_goodQuery _ _ _ hb]; exact cachedAnswer_inv hf hi hs hd hq

/-! ### updates -/

theorem mem_upsert {α} (key : α → String) (x : α) (l : List α) {y : α}
    (h : y ∈ Engine.upsert key x l) : y = x ∨ y ∈ l := by
  induction l with
  | nil => simp only [Engine.upsert, List.mem_singleton] at h; exact Or.inl h
  | cons z zs ih =>
    simp only [Engine.upsert] at h
    split at h
    · rcases List.mem_cons.mp h with h | h
      · exact Or.inl h
      · exact Or.inr (List.mem_cons_of_mem _ h)
    · rcases List.mem_cons.mp h with h | h
      · exact Or.inr (h ▸ List.mem_cons_self ..)
      · rcases ih h with h | h
        · exact Or.inl h
        · exact Or.inr (List.mem_cons_of_mem _ h)

/-- inserting one pod: `insertPodObj` + `cacheAddPod` (the cache keeps its entries) -/
def addPod (s : EState) (p : Pod) : EState :=
  ({ s with eng := s.eng.insertPodObj p } : EState).cacheAddPod p

theorem addPod_inv {s : EState} (hi : Inv P Q s) {p : Pod} (hp : P p) : Inv P Q (s.addPod p) := by
  refine hi.frame rfl rfl rfl rfl ?_ (fun _ h => h)
  intro x hx
  rcases mem_upsert _ _ _ hx with h | h
  · exact h ▸ hp
  · exact hi.pods x h

theorem addPods_inv {s : EState} (hi : Inv P Q s) (l : List Pod) (hl : ∀ p ∈ l, P p) :
    Inv P Q (l.foldl addPod s) := by
  induction l generalizing s with
  | nil => exact hi
  | cons p rest ih =>
    exact ih (addPod_inv hi (hl p (List.mem_cons_self ..)))
      (fun x hx => hl x (List.mem_cons_of_mem _ hx))

/-- the pods an operation brings into play -/
def _root_.Netpol.HOp.pods : HOp → List Pod
  | .ins (.pod p) => if p.hostIP == "" then [] else [p]   -- a pod without host address is rejected
  | .ins (.wl w) => Engine.podsFromWorkload w
  | _ => []

/-- the (protocol, port) strings an operation queries -/
def _root_.Netpol.HOp.queries : HOp → List (String × String)
  | .q _ _ pr po => [(pr, po)]
  | _ => []

theorem insertNetpol_eq {e e' : Engine} {np : NetPol} (h : e.insertNetpol np = .ok e') :
    e' = { e with netpols := e'.netpols } := by
  unfold Engine.insertNetpol at h
  dsimp only at h
  generalize (if (np.ns == "") = true then ({ np with ns := "default" } : NetPol) else np) = np' at h
  split at h
  · cases h
  · cases h; rfl

theorem insertNetpol_pods {e e' : Engine} {np : NetPol} (h : e.insertNetpol np = .ok e') :
    e'.pods = e.pods := by
  rw [insertNetpol_eq h]

theorem insert_inv {s : EState} (hi : Inv P Q s) (o : Obj) (ho : ∀ p ∈ (HOp.ins o).pods, P p) :
    Inv P Q (s.insert o).2 := by
  cases o with
  | ns n => exact Inv.of_empty rfl hi.pods
  | wl w => exact addPods_inv hi _ ho
  | pod p =>
    simp only [insert]
    split
    · exact hi
    · rename_i hh
      exact addPod_inv hi (ho p (by simp only [HOp.pods, hh]; exact List.mem_singleton.mpr rfl))
  | np x =>
    simp only [insert]
    cases h : s.eng.insertNetpol x with
    | error e => exact hi
    | ok e =>
      refine Inv.of_empty rfl ?_
      show ∀ p ∈ e.pods, P p
      rw [insertNetpol_pods h]
      exact hi.pods
  | anp x =>
    simp only [insert]
    cases h : s.eng.insertANP x with
    | error e => exact hi
    | ok e =>
      refine Inv.of_empty rfl ?_
      have he := Structure.insertANP_eq h
      subst he
      exact hi.pods
  | banp x =>
    simp only [insert]
    cases h : s.eng.insertBANP x with
    | error e => exact hi
    | ok e =>
      refine Inv.of_empty rfl ?_
      simp only [Engine.insertBANP] at h
      split at h
      · cases h
      · split at h
        · cases h
        · split at h
          · cases h
          · cases h; exact hi.pods
  | svc x => exact hi
  | ing x => exact hi
  | route x => exact hi

theorem delete_inv {s : EState} (hi : Inv P Q s) (o : Obj) : Inv P Q (s.delete o).2 := by
  cases o with
  | ns n => exact Inv.of_empty rfl hi.pods
  | wl w => exact hi
  | pod p =>
    simp only [delete]
    cases h : s.eng.findPod (Engine.podKey p) with
    | none => exact hi
    | some cur =>
      simp only [cacheDeletePod]
      split
      · refine hi.frame rfl rfl rfl rfl ?_ ?_
        · intro x hx; exact hi.pods x (List.mem_filter.mp hx).1
        · intro kv hkv; exact (List.mem_filter.mp hkv).1
      · refine hi.frame rfl rfl rfl rfl ?_ (fun _ h => h)
        intro x hx; exact hi.pods x (List.mem_filter.mp hx).1
  | np x => exact Inv.of_empty rfl hi.pods
  | anp x => exact Inv.of_empty rfl hi.pods
  | banp x =>
    simp only [delete]
    split
    · exact hi
    · split
      · exact Inv.of_empty rfl hi.pods
      · exact hi
  | svc x => exact hi
  | ing x => exact hi
  | route x => exact hi


/-! ### queries, steps, runs -/

theorem checkIfAllowed_inv (hf : KeyFaithful P Q) {s : EState} (hi : Inv P Q s)
    (src dst : String) {proto port : String} (hq : Q proto port) :
    Inv P Q (s.checkIfAllowed src dst proto port).2 := by
  rw [checkIfAllowed_eq]
  cases h1 : getPeer s.eng src with
  | error e => exact hi
  | ok sp =>
    cases h2 : getPeer s.eng dst with
    | error e => exact hi
    | ok dp =>
      simp only
      split
      · exact hi
      · exact answer_inv hf hi (getPeer_resolved s _ _ h1) (getPeer_resolved s _ _ h2) hq

/-- under the invariant `CheckIfAllowed` answers what it would answer with an empty cache -/
theorem checkIfAllowed_transparent {s : EState} (hi : Inv P Q s)
    (src dst : String) {proto port : String} (hq : Q proto port) :
    (s.checkIfAllowed src dst proto port).1 = s.uncached src dst proto port := by
  rw [checkIfAllowed_eq, uncached_eq]
  cases h1 : getPeer s.eng src with
  | error e => rfl
  | ok sp =>
    cases h2 : getPeer s.eng dst with
    | error e => rfl
    | ok dp =>
      simp only
      split
      · rfl
      · exact answer_transparent hi (getPeer_resolved s _ _ h1) (getPeer_resolved s _ _ h2) hq

/-- the operation only brings pods of `P` and queries of `Q` into play -/
def _root_.Netpol.HOp.ok (P : Pod → Prop) (Q : String → String → Prop) (op : HOp) : Prop :=
  (∀ p ∈ op.pods, P p) ∧ (∀ x ∈ op.queries, Q x.1 x.2)

theorem step_inv (hf : KeyFaithful P Q) {s : EState} (hi : Inv P Q s) (op : HOp) (hop : op.ok P Q) :
    Inv P Q (s.step op).1 := by
  cases op with
  | ins o => exact insert_inv hi o hop.1
  | del o => exact delete_inv hi o
  | clear => exact Inv.of_empty rfl (by intro p hp; cases hp)
  | q a b pr po => exact checkIfAllowed_inv hf hi a b (hop.2 (pr, po) (List.mem_singleton.mpr rfl))

theorem run_inv (hf : KeyFaithful P Q) {s : EState} (hi : Inv P Q s) (ops : List HOp)
    (hops : ∀ op ∈ ops, op.ok P Q) : Inv P Q (s.run ops) := by
  induction ops generalizing s with
  | nil => exact hi
  | cons op rest ih =>
    exact ih (step_inv hf hi op (hops op (List.mem_cons_self ..)))
      (fun o ho => hops o (List.mem_cons_of_mem _ ho))

theorem init_inv (n : Nat) : Inv P Q ({ cache := { cap := n } } : EState) :=
  Inv.of_empty rfl (by intro p hp; cases hp)

end EState

/-! ### histories -/

def opsPods (ops : List HOp) : List Pod := ops.flatMap HOp.pods
def opsQueries (ops : List HOp) : List (String × String) := ops.flatMap HOp.queries

/-- the weakest form of the assumption: on the pods and query strings of the history the cache key
is faithful (`EState.KeyFaithful`) -/
def OpsFaithful (ops : List HOp) : Prop :=
  EState.KeyFaithful (· ∈ opsPods ops) (fun pr po => (pr, po) ∈ opsQueries ops)

/-- **`H_owner`**, the assumption in the terms of the key design: pods with one owner key are
interchangeable. There are functions `attrs` and `nsOf` on owner keys such that every owned pod
ever inserted (by `ins (pod p)` or produced by `podsFromWorkload w` for `ins (wl w)`) is a real pod
with `(labels, ports) = attrs (ownerKey p)` and `ns = nsOf (ownerKey p)` (the key
`ns/owner/variant` is a string concatenation whose components cannot be recovered without
assumptions on the alphabet); and the concatenation `key/key/proto/port` of the queries of the
history can be split in one way only. This is what the Go cache design presupposes. -/
structure OpsConsistent (attrs : String → Labels × List CPort) (nsOf : String → String)
    (ops : List HOp) : Prop where
  real : ∀ p ∈ opsPods ops, p.ownerName ≠ "" → p.isRepresentative = false
  attrs_eq : ∀ p ∈ opsPods ops, p.ownerName ≠ "" → (p.labels, p.ports) = attrs (EState.ownerKey p)
  ns_eq : ∀ p ∈ opsPods ops, p.ownerName ≠ "" → p.ns = nsOf (EState.ownerKey p)
  split : ∀ s ∈ opsPods ops, ∀ d ∈ opsPods ops, ∀ s' ∈ opsPods ops, ∀ d' ∈ opsPods ops,
    ∀ x ∈ opsQueries ops, ∀ x' ∈ opsQueries ops,
    s.ownerName ≠ "" → d.ownerName ≠ "" → s'.ownerName ≠ "" → d'.ownerName ≠ "" →
    EState.ckey s d x.1 x.2 = EState.ckey s' d' x'.1 x'.2 →
    EState.ownerKey s = EState.ownerKey s' ∧ EState.ownerKey d = EState.ownerKey d' ∧ x = x'

theorem OpsConsistent.faithful {attrs : String → Labels × List CPort} {nsOf : String → String}
    {ops : List HOp} (h : OpsConsistent attrs nsOf ops) : OpsFaithful ops := by
  intro s d s' d' pr po pr' po' hs hd hs' hd' hso hdo hso' hdo' hq hq' hk
  obtain ⟨k1, k2, k3⟩ := h.split s hs d hd s' hs' d' hd' (pr, po) hq (pr', po') hq' hso hdo hso' hdo' hk
  have sim : ∀ a ∈ opsPods ops, ∀ b ∈ opsPods ops, a.ownerName ≠ "" → b.ownerName ≠ "" →
      EState.ownerKey a = EState.ownerKey b → PodSim a b := by
    intro a ha b hb hao hbo hab
    have e1 := h.attrs_eq a ha hao
    have e2 := h.attrs_eq b hb hbo
    rw [hab, ← e2] at e1
    have e3 := h.ns_eq a ha hao
    rw [hab, ← h.ns_eq b hb hbo] at e3
    exact ⟨e3, (Prod.mk.inj e1).1, (Prod.mk.inj e1).2, h.real a ha hao, h.real b hb hbo⟩
  exact ⟨sim s hs s' hs' hso hso' k1, sim d hd d' hd' hdo hdo' k2, (Prod.mk.inj k3).1, (Prod.mk.inj k3).2⟩

/-- the assumption only speaks about the sets of pods and query strings of the history -/
theorem OpsConsistent.of_subset {attrs : String → Labels × List CPort} {nsOf : String → String}
    {ops ops' : List HOp} (h : OpsConsistent attrs nsOf ops)
    (hp : ∀ p ∈ opsPods ops', p ∈ opsPods ops) (hq : ∀ x ∈ opsQueries ops', x ∈ opsQueries ops) :
    OpsConsistent attrs nsOf ops' :=
  ⟨fun p m => h.real p (hp p m), fun p m => h.attrs_eq p (hp p m), fun p m => h.ns_eq p (hp p m),
   fun s ms d md s' ms' d' md' x mx x' mx' =>
     h.split s (hp s ms) d (hp d md) s' (hp s' ms') d' (hp d' md') x (hq x mx) x' (hq x' mx')⟩

theorem opsPods_append (a b : List HOp) : opsPods (a ++ b) = opsPods a ++ opsPods b := by
  simp [opsPods]

theorem opsQueries_append (a b : List HOp) : opsQueries (a ++ b) = opsQueries a ++ opsQueries b := by
  simp [opsQueries]

theorem HOp.ok_of_mem {ops : List HOp} {op : HOp} (h : op ∈ ops) :
    op.ok (· ∈ opsPods ops) (fun pr po => (pr, po) ∈ opsQueries ops) :=
  ⟨fun _ hp => List.mem_flatMap.mpr ⟨op, h, hp⟩, fun _ hx => List.mem_flatMap.mpr ⟨op, h, hx⟩⟩

/-- the invariant after a prefix of a faithful history -/
theorem EState.run_prefix_inv {pre post : List HOp} (h : OpsFaithful (pre ++ post)) (n : Nat) :
    EState.Inv (· ∈ opsPods (pre ++ post)) (fun pr po => (pr, po) ∈ opsQueries (pre ++ post))
      (EState.run { cache := { cap := n } } pre) :=
  EState.run_inv h (EState.init_inv n) pre
    (fun _ hop => HOp.ok_of_mem (List.mem_append_left _ hop))

/-- **cache transparency**, weakest hypothesis: after any history, a query answers what the same
engine answers without any cache, provided the cache key is faithful on the history including
that query -/
theorem cache_transparent_faithful (n : Nat) (ops : List HOp) (src dst proto port : String)
    (h : OpsFaithful (ops ++ [.q src dst proto port])) :
    ((EState.run { cache := { cap := n } } ops).checkIfAllowed src dst proto port).1 =
      (EState.run { cache := { cap := n } } ops).uncached src dst proto port :=
  EState.checkIfAllowed_transparent (EState.run_prefix_inv h n) src dst
    (by rw [opsQueries_append]; exact List.mem_append_right _ (List.mem_singleton.mpr rfl))


/-- every query of a faithful history is answered as without cache -/
theorem cache_transparent_everywhere (n : Nat) (pre post : List HOp) (src dst proto port : String)
    (h : OpsFaithful (pre ++ .q src dst proto port :: post)) :
    ((EState.run { cache := { cap := n } } pre).checkIfAllowed src dst proto port).1 =
      (EState.run { cache := { cap := n } } pre).uncached src dst proto port :=
  EState.checkIfAllowed_transparent (EState.run_prefix_inv h n) src dst
    (by rw [opsQueries_append]
        exact List.mem_append_right _ (List.mem_flatMap.mpr ⟨_, List.mem_cons_self .., List.mem_singleton.mpr rfl⟩))

/-! ### admin policies stay ordered by priority -/

def CacheLayer.ByPrio (l : List ANP) : Prop := l.Pairwise (fun a b => a.prio ≤ b.prio)

theorem CacheLayer.mem_insertSorted {a x : ANP} {l : List ANP} :
    x ∈ Engine.insertSorted a l ↔ x = a ∨ x ∈ l := by
  induction l with
  | nil => simp [Engine.insertSorted]
  | cons b bs ih =>
    simp only [Engine.insertSorted]
    split
    · simp only [List.mem_cons]
    · simp only [List.mem_cons, ih]
      constructor
      · rintro (h | h | h)
        · exact Or.inr (Or.inl h)
        · exact Or.inl h
        · exact Or.inr (Or.inr h)
      · rintro (h | h | h)
        · exact Or.inr (Or.inl h)
        · exact Or.inl h
        · exact Or.inr (Or.inr h)

theorem CacheLayer.insertSorted_byPrio {a : ANP} {l : List ANP} (h : CacheLayer.ByPrio l) : CacheLayer.ByPrio (Engine.insertSorted a l) := by
  induction l with
  | nil => simp [Engine.insertSorted, CacheLayer.ByPrio]
  | cons b bs ih =>
    have hb := List.pairwise_cons.mp h
    simp only [Engine.insertSorted]
    split
    · rename_i hgt
      refine List.pairwise_cons.mpr ⟨?_, h⟩
      intro x hx
      rcases List.mem_cons.mp hx with rfl | hx
      · omega
      · have := hb.1 x hx; omega
    · rename_i hgt
      refine List.pairwise_cons.mpr ⟨?_, ih hb.2⟩
      intro x hx
      rcases CacheLayer.mem_insertSorted.mp hx with rfl | hx
      · omega
      · exact hb.1 x hx

theorem CacheLayer.insertSorted_perm (a : ANP) (l : List ANP) : (Engine.insertSorted a l).Perm (a :: l) := by
  induction l with
  | nil => exact List.Perm.refl _
  | cons b bs ih =>
    simp only [Engine.insertSorted]
    split
    · exact List.Perm.refl _
    · exact ((List.Perm.cons b ih).trans (List.Perm.swap a b bs))

theorem CacheLayer.removeFirstNamed_sublist (name : String) (l : List ANP) :
    (EState.removeFirstNamed name l).Sublist l := by
  induction l with
  | nil => exact List.Sublist.refl _
  | cons a rest ih =>
    simp only [EState.removeFirstNamed]
    split
    · exact List.sublist_cons_self ..
    · exact ih.cons_cons a

theorem CacheLayer.removeFirstNamed_byPrio {name : String} {l : List ANP} (h : CacheLayer.ByPrio l) :
    CacheLayer.ByPrio (EState.removeFirstNamed name l) :=
  List.Pairwise.sublist (CacheLayer.removeFirstNamed_sublist name l) h

namespace EState

theorem addPods_eng (s : EState) (l : List Pod) :
    (l.foldl addPod s).eng = { s.eng with pods := (l.foldl addPod s).eng.pods } ∧
      (l.foldl addPod s).cache = s.cache := by
  induction l generalizing s with
  | nil => exact ⟨rfl, rfl⟩
  | cons p rest ih =>
    obtain ⟨h1, h2⟩ := ih (s.addPod p)
    refine ⟨?_, h2⟩
    rw [List.foldl_cons, h1]
    rfl

/-- a query never touches the objects -/
theorem checkIfAllowed_eng (s : EState) (src dst proto port : String) :
    (s.checkIfAllowed src dst proto port).2.eng = s.eng := by
  rw [checkIfAllowed_eq]
  cases getPeer s.eng src with
  | error e => rfl
  | ok sp =>
    cases getPeer s.eng dst with
    | error e => rfl
    | ok dp =>
      simp only
      split
      · rfl
      · unfold answer
        split
        · rfl
        · unfold cachedAnswer
          split
          · rfl
          · split
            · rfl
            · split <;> rfl

/-- the admin-policy bookkeeping of the engine: the sorted slice and the name map -/
def _root_.Netpol.Engine.adm (e : Engine) : List ANP × List String := (e.anps, e.anpNames)

/-- the effect of one step on the admin-policy bookkeeping -/
theorem step_adm (s : EState) (op : HOp) :
    (s.step op).1.eng.adm = s.eng.adm ∨
    (∃ a, s.eng.anpNames.contains a.name = false ∧ a.validPriority = true ∧
      (∀ b ∈ s.eng.anps, b.prio ≠ a.prio) ∧
      (s.step op).1.eng.adm = (Engine.insertSorted a s.eng.anps, s.eng.anpNames ++ [a.name])) ∨
    (∃ name, (s.step op).1.eng.adm =
      (removeFirstNamed name s.eng.anps, s.eng.anpNames.filter (· != name))) ∨
    (s.step op).1.eng.adm = ([], []) := by
  cases op with
  | clear => exact Or.inr (Or.inr (Or.inr rfl))
  | q a b pr po => exact Or.inl (congrArg Engine.adm (checkIfAllowed_eng s a b pr po))
  | del o =>
    cases o with
    | anp a => exact Or.inr (Or.inr (Or.inl ⟨a.name, rfl⟩))
    | pod p =>
      left
      simp only [step, delete]
      cases s.eng.findPod (Engine.podKey p) with
      | none => rfl
      | some cur => simp only [cacheDeletePod]; split <;> rfl
    | banp b =>
      left
      simp only [step, delete]
      split
      · rfl
      · split <;> rfl
    | _ => exact Or.inl rfl
  | ins o =>
    cases o with
    | wl w =>
      left
      show (List.foldl addPod s (Engine.podsFromWorkload w)).eng.adm = _
      rw [(addPods_eng s _).1]
      rfl
    | pod p =>
      left
      simp only [step, insert]
      split <;> rfl
    | np x =>
      left
      simp only [step, insert]
      cases h : s.eng.insertNetpol x with
      | error e => rfl
      | ok e =>
        show e.adm = _
        rw [insertNetpol_eq h]
        rfl
    | anp x =>
      simp only [step, insert]
      cases h : s.eng.insertANP x with
      | error e => exact Or.inl rfl
      | ok e =>
        right; left
        have hok := Structure.insertObject_ok (o := .anp x) h
        have hp := Structure.insertANP_ok_prio h
        have he := Structure.insertANP_eq h
        subst he
        exact ⟨x, by simpa using hok.2.1, hp.1, hp.2, rfl⟩
    | banp x =>
      left
      simp only [step, insert]
      cases h : s.eng.insertBANP x with
      | error e => rfl
      | ok e =>
        simp only [Engine.insertBANP] at h
        split at h
        · cases h
        · split at h
          · cases h
          · split at h
            · cases h
            · cases h; rfl
    | _ => exact Or.inl rfl

theorem step_anps (s : EState) (op : HOp) :
    (s.step op).1.eng.anps = s.eng.anps ∨
    (∃ a, (s.step op).1.eng.anps = Engine.insertSorted a s.eng.anps) ∨
    (∃ name, (s.step op).1.eng.anps = removeFirstNamed name s.eng.anps) ∨
    (s.step op).1.eng.anps = [] := by
  rcases step_adm s op with h | ⟨a, _, _, _, h⟩ | ⟨n, h⟩ | h
  · exact Or.inl (congrArg Prod.fst h)
  · exact Or.inr (Or.inl ⟨a, congrArg Prod.fst h⟩)
  · exact Or.inr (Or.inr (Or.inl ⟨n, congrArg Prod.fst h⟩))
  · exact Or.inr (Or.inr (Or.inr (congrArg Prod.fst h)))

theorem step_byPrio {s : EState} (h : CacheLayer.ByPrio s.eng.anps) (op : HOp) : CacheLayer.ByPrio (s.step op).1.eng.anps := by
  rcases step_anps s op with h' | ⟨a, h'⟩ | ⟨n, h'⟩ | h' <;> rw [h']
  · exact h
  · exact CacheLayer.insertSorted_byPrio h
  · exact CacheLayer.removeFirstNamed_byPrio h
  · exact List.Pairwise.nil

theorem run_byPrio {s : EState} (h : CacheLayer.ByPrio s.eng.anps) (ops : List HOp) : CacheLayer.ByPrio (s.run ops).eng.anps := by
  induction ops generalizing s with
  | nil => exact h
  | cons op rest ih => exact ih (step_byPrio h op)


/-- no step changes the capacity of the cache (so `clear` restores the initial state, as the
driver does) -/
theorem step_cap (s : EState) (op : HOp) : (s.step op).1.cache.cap = s.cache.cap := by
  cases op with
  | clear => rfl
  | q a b pr po =>
    show (s.checkIfAllowed a b pr po).2.cache.cap = _
    rw [checkIfAllowed_eq]
    cases getPeer s.eng a with
    | error e => rfl
    | ok sp =>
      cases getPeer s.eng b with
      | error e => rfl
      | ok dp =>
        simp only
        split
        · rfl
        · unfold answer
          split
          · rfl
          · unfold cachedAnswer
            split
            · rfl
            · split
              · rfl
              · split <;> rfl
  | del o =>
    cases o with
    | pod p =>
      simp only [step, delete]
      cases s.eng.findPod (Engine.podKey p) with
      | none => rfl
      | some cur => simp only [cacheDeletePod]; split <;> rfl
    | banp b =>
      simp only [step, delete]
      split
      · rfl
      · split <;> rfl
    | _ => rfl
  | ins o =>
    cases o with
    | wl w =>
      show (List.foldl addPod s (Engine.podsFromWorkload w)).cache.cap = _
      rw [(addPods_eng s _).2]
    | pod p => simp only [step, insert]; split <;> rfl
    | np x => simp only [step, insert]; cases s.eng.insertNetpol x <;> rfl
    | anp x => simp only [step, insert]; cases s.eng.insertANP x <;> rfl
    | banp x => simp only [step, insert]; cases s.eng.insertBANP x <;> rfl
    | _ => rfl

theorem run_cap (s : EState) (ops : List HOp) : (s.run ops).cache.cap = s.cache.cap := by
  induction ops generalizing s with
  | nil => rfl
  | cons op rest ih => exact (ih (s.step op).1).trans (step_cap s op)

/-- the sorted slice and the name map agree: names in the slice are distinct and registered -/
def AdmInv (e : Engine) : Prop :=
  (e.anps.map (·.name)).Nodup ∧ ∀ a ∈ e.anps, a.name ∈ e.anpNames

theorem removeFirstNamed_eq_self {name : String} {l : List ANP} (h : ∀ x ∈ l, x.name ≠ name) :
    removeFirstNamed name l = l := by
  induction l with
  | nil => rfl
  | cons a rest ih =>
    have ha : (a.name == name) = false := by simpa using h a (List.mem_cons_self ..)
    simp only [removeFirstNamed, ha, Bool.false_eq_true, if_false]
    rw [ih (fun x hx => h x (List.mem_cons_of_mem _ hx))]

theorem removeFirstNamed_name_ne {name : String} {l : List ANP} (h : (l.map (·.name)).Nodup) :
    ∀ x ∈ removeFirstNamed name l, x.name ≠ name := by
  induction l with
  | nil => intro x hx; cases hx
  | cons a rest ih =>
    have hn := List.nodup_cons.mp h
    simp only [removeFirstNamed]
    split
    · rename_i heq
      have heq' : a.name = name := by simpa using heq
      intro x hx hxn
      exact hn.1 (List.mem_map.mpr ⟨x, hx, by show x.name = a.name; rw [hxn, heq']⟩)
    · rename_i hne
      intro x hx
      rcases List.mem_cons.mp hx with rfl | hx
      · simpa using hne
      · exact ih hn.2 x hx

theorem step_admInv {s : EState} (h : AdmInv s.eng) (op : HOp) : AdmInv (s.step op).1.eng := by
  unfold AdmInv
  rcases step_adm s op with h' | ⟨a, ha, _, _, h'⟩ | ⟨n, h'⟩ | h'
  · rw [show (s.step op).1.eng.anps = s.eng.anps from congrArg Prod.fst h',
      show (s.step op).1.eng.anpNames = s.eng.anpNames from congrArg Prod.snd h']
    exact h
  · rw [show (s.step op).1.eng.anps = _ from congrArg Prod.fst h',
      show (s.step op).1.eng.anpNames = _ from congrArg Prod.snd h']
    have hfresh : a.name ∉ s.eng.anps.map (·.name) := by
      intro hm
      obtain ⟨x, hx, hxn⟩ := List.mem_map.mp hm
      have := h.2 x hx
      rw [hxn] at this
      simp only [List.contains_eq_mem, decide_eq_false_iff_not] at ha
      exact ha this
    constructor
    · exact ((CacheLayer.insertSorted_perm a s.eng.anps).map (·.name)).nodup_iff.mpr
        (List.nodup_cons.mpr ⟨hfresh, h.1⟩)
    · intro x hx
      rcases CacheLayer.mem_insertSorted.mp hx with rfl | hx
      · exact List.mem_append_right _ (List.mem_singleton.mpr rfl)
      · exact List.mem_append_left _ (h.2 x hx)
  · rw [show (s.step op).1.eng.anps = _ from congrArg Prod.fst h',
      show (s.step op).1.eng.anpNames = _ from congrArg Prod.snd h']
    constructor
    · exact List.Nodup.sublist ((CacheLayer.removeFirstNamed_sublist n s.eng.anps).map _) h.1
    · intro x hx
      refine List.mem_filter.mpr ⟨h.2 x ((CacheLayer.removeFirstNamed_sublist n s.eng.anps).subset hx), ?_⟩
      simpa using removeFirstNamed_name_ne h.1 x hx
  · rw [show (s.step op).1.eng.anps = _ from congrArg Prod.fst h']
    exact ⟨List.nodup_nil, fun a ha => by cases ha⟩

theorem run_admInv {s : EState} (h : AdmInv s.eng) (ops : List HOp) : AdmInv (s.run ops).eng := by
  induction ops generalizing s with
  | nil => exact h
  | cons op rest ih => exact ih (step_admInv h op)

/-- every step keeps the priorities of the held admin policies pairwise distinct and within
0..1000: an insertion that would not is refused, a deletion removes, a clear empties -/
theorem step_prioInv {s : EState} (h : Structure.PrioInv s.eng) (op : HOp) :
    Structure.PrioInv (s.step op).1.eng := by
  unfold Structure.PrioInv
  rcases step_adm s op with h' | ⟨a, _, hv, hp, h'⟩ | ⟨n, h'⟩ | h'
  · rw [show (s.step op).1.eng.anps = s.eng.anps from congrArg Prod.fst h']
    exact h
  · rw [show (s.step op).1.eng.anps = _ from congrArg Prod.fst h']
    exact Structure.prioInv_insertSorted h hv hp
  · rw [show (s.step op).1.eng.anps = _ from congrArg Prod.fst h']
    have hsub := CacheLayer.removeFirstNamed_sublist n s.eng.anps
    exact ⟨List.Nodup.sublist (hsub.map _) h.1, fun a ha => h.2 a (hsub.subset ha)⟩
  · rw [show (s.step op).1.eng.anps = _ from congrArg Prod.fst h']
    exact ⟨List.nodup_nil, fun a ha => by cases ha⟩

theorem run_prioInv {s : EState} (h : Structure.PrioInv s.eng) (ops : List HOp) :
    Structure.PrioInv (s.run ops).eng := by
  induction ops generalizing s with
  | nil => exact h
  | cons op rest ih => exact ih (step_prioInv h op)

/-- sorted with pairwise distinct priorities is strictly sorted -/
theorem _root_.Netpol.CacheLayer.strict_of_byPrio_nodup {l : List ANP} (hs : CacheLayer.ByPrio l)
    (hn : (l.map (·.prio)).Nodup) : l.Pairwise (fun a b => a.prio < b.prio) := by
  induction l with
  | nil => exact List.Pairwise.nil
  | cons a rest ih =>
    obtain ⟨h1, h2⟩ := List.pairwise_cons.mp hs
    obtain ⟨n1, n2⟩ := List.nodup_cons.mp (show (a.prio :: rest.map (·.prio)).Nodup from hn)
    refine List.pairwise_cons.mpr ⟨fun b hb => ?_, ih h2 n2⟩
    have hle := h1 b hb
    have hne : a.prio ≠ b.prio := fun h => n1 (List.mem_map.mpr ⟨b, hb, h.symm⟩)
    omega

/-! ### a rejected admin policy leaves the state as it is -/

/-- `InsertObject` of an admin policy whose priority is held already: rejected with `anpPriority`
(when the two earlier checks pass), the state — engine, cache, owner bookkeeping — is unchanged -/
theorem insert_same_prio (s : EState) {a b : ANP} (hexp : s.eng.exposure = false)
    (hn : a.name ∉ s.eng.anpNames) (hb : b ∈ s.eng.anps) (hp : b.prio = a.prio) :
    s.insert (.anp a) = (.err .anpPriority, s) := by
  simp only [insert, Structure.insertANP_same_prio hexp hn hb hp]

/-- the same for a priority outside 0..1000 -/
theorem insert_invalid_prio (s : EState) {a : ANP} (hexp : s.eng.exposure = false)
    (hn : a.name ∉ s.eng.anpNames) (hv : a.validPriority = false) :
    s.insert (.anp a) = (.err .anpPriority, s) := by
  simp only [insert, Structure.insertANP_invalid hexp hn hv]

/-- whatever the reason, a rejected insertion leaves the state as it is -/
theorem insert_err_unchanged (s : EState) (o : Obj) {err : Err} (h : (s.insert o).1 = .err err) :
    (s.insert o).2 = s := by
  cases o with
  | ns n => cases h
  | wl w => cases h
  | pod p =>
    simp only [insert] at h ⊢
    split
    · rfl
    · rename_i hh; rw [if_neg hh] at h; cases h
  | np x =>
    simp only [insert] at h ⊢
    cases hx : s.eng.insertNetpol x with
    | error e => rfl
    | ok e => rw [hx] at h; cases h
  | anp x =>
    simp only [insert] at h ⊢
    cases hx : s.eng.insertANP x with
    | error e => rfl
    | ok e => rw [hx] at h; cases h
  | banp x =>
    simp only [insert] at h ⊢
    cases hx : s.eng.insertBANP x with
    | error e => rfl
    | ok e => rw [hx] at h; cases h
  | svc _ => cases h
  | ing _ => cases h
  | route _ => cases h

/-! ### deleting an absent object is a no-op -/

theorem delete_absent_pod (s : EState) (p : Pod) (h : s.eng.findPod (Engine.podKey p) = none) :
    s.delete (.pod p) = (.ok, s) := by
  simp only [delete, h]

/-- the engine is unchanged; as for every namespace update the cache is cleared -/
theorem delete_absent_ns (s : EState) (n : NsObj) (h : ∀ x ∈ s.eng.namespaces, x.name ≠ n.name) :
    s.delete (.ns n) = (.ok, s.cacheClear) := by
  have : s.eng.namespaces.filter (·.name != n.name) = s.eng.namespaces :=
    List.filter_eq_self.mpr (by simpa using h)
  simp only [delete, this]

/-- the namespace a NetworkPolicy is stored and looked up under: `default` when it is written with none -/
def npNs (p : NetPol) : String := if p.ns == "" then "default" else p.ns

/-- the engine is unchanged; as for every NetworkPolicy update the cache is cleared -/
theorem delete_absent_np (s : EState) (p : NetPol)
    (h : ∀ x ∈ s.eng.netpols, ¬ (x.ns = npNs p ∧ x.name = p.name)) :
    s.delete (.np p) = (.ok, s.cacheClear) := by
  have : s.eng.netpols.filter (fun q => !(q.ns == npNs p && q.name == p.name)) = s.eng.netpols :=
    List.filter_eq_self.mpr (by
      intro x hx
      have h0 := h x hx
      by_cases e1 : x.ns = npNs p <;> by_cases e2 : x.name = p.name <;> simp_all)
  simp only [delete]
  show (Out.ok, ({ s with eng := { s.eng with netpols := s.eng.netpols.filter (fun q => !(q.ns == npNs p && q.name == p.name)) } } : EState).cacheClear) = _
  rw [this]

/-- **a policy written without a namespace is deleted from where it was stored**: after `DeleteObject` no policy of
that name is left in the namespace the insert put it in, whether the object carries a namespace or not -/
theorem delete_np_removes (s : EState) (p : NetPol) :
    ∀ x ∈ (s.delete (.np p)).2.eng.netpols, ¬ (x.ns = npNs p ∧ x.name = p.name) := by
  intro x hx
  have hx' : x ∈ s.eng.netpols.filter (fun q => !(q.ns == npNs p && q.name == p.name)) := hx
  have := (List.mem_filter.mp hx').2
  intro ⟨h1, h2⟩
  simp [h1, h2] at this

/-- `SetResources` (`EState.setResources`) is a history of inserts: the state it leaves is the state after inserting a
prefix of namespaces ++ policies ++ pods, one by one (the prefix ends with the first rejected object) -/
theorem insertAll_is_run (s : EState) (l : List Obj) :
    ∃ k, (s.insertAll l).2 = s.run ((l.take k).map HOp.ins) := by
  induction l generalizing s with
  | nil => exact ⟨0, rfl⟩
  | cons o rest ih =>
    unfold insertAll
    cases hi : s.insert o with
    | mk out s' =>
      cases out with
      | err e => exact ⟨1, by simp [run, step, hi]⟩
      | ok =>
        obtain ⟨k, hk⟩ := ih s'
        exact ⟨k + 1, by simp [run, step, hi] at hk ⊢; exact hk⟩
      | ans b =>
        obtain ⟨k, hk⟩ := ih s'
        exact ⟨k + 1, by simp [run, step, hi] at hk ⊢; exact hk⟩
      | panic =>
        obtain ⟨k, hk⟩ := ih s'
        exact ⟨k + 1, by simp [run, step, hi] at hk ⊢; exact hk⟩

/-- the engine is unchanged; as for every admin policy update the cache is cleared -/
theorem delete_absent_anp (s : EState) (a : ANP) (h : a.name ∉ s.eng.anpNames)
    (h' : ∀ x ∈ s.eng.anps, x.name ≠ a.name) :
    s.delete (.anp a) = (.ok, s.cacheClear) := by
  have h1 : s.eng.anpNames.filter (· != a.name) = s.eng.anpNames :=
    List.filter_eq_self.mpr (by
      intro x hx
      have : x ≠ a.name := fun e => h (e ▸ hx)
      simpa using this)
  simp only [delete, h1, removeFirstNamed_eq_self h']

/-- in a reachable state "absent" is decided by the name map alone -/
theorem delete_absent_anp_of_admInv (s : EState) (hs : AdmInv s.eng) (a : ANP)
    (h : a.name ∉ s.eng.anpNames) : s.delete (.anp a) = (.ok, s.cacheClear) :=
  delete_absent_anp s a h (fun x hx e => h (e ▸ hs.2 x hx))

theorem delete_absent_banp (s : EState) (b : BANP) (h : s.eng.banp = none) :
    s.delete (.banp b) = (.ok, s) := by
  simp only [delete, h]

theorem delete_other_banp (s : EState) (b cur : BANP) (h : s.eng.banp = some cur)
    (hn : cur.name ≠ b.name) : s.delete (.banp b) = (.ok, s) := by
  have : (cur.name == b.name) = false := by simpa using hn
  simp only [delete, h, this, Bool.false_eq_true, if_false]

theorem cacheClear_eng (s : EState) : s.cacheClear.eng = s.eng := rfl
theorem cacheClear_items (s : EState) : s.cacheClear.cache.items = [] := rfl

/-! ### an update of a policy or a namespace never leaves a cached verdict behind -/

/-- the objects whose insertion or deletion invalidates every cached verdict -/
def _root_.Netpol.Obj.isPolicyOrNs : Obj → Bool
  | .ns _ | .np _ | .anp _ | .banp _ => true
  | _ => false

theorem insert_policy_cache (s : EState) (o : Obj) (ho : o.isPolicyOrNs = true) :
    (s.insert o).2 = s ∨ (s.insert o).2.cache.items = [] := by
  cases o with
  | ns n => exact Or.inr rfl
  | np x => simp only [insert]; cases s.eng.insertNetpol x <;> simp [cacheClear, LRU.purge]
  | anp x => simp only [insert]; cases s.eng.insertANP x <;> simp [cacheClear, LRU.purge]
  | banp x => simp only [insert]; cases s.eng.insertBANP x <;> simp [cacheClear, LRU.purge]
  | _ => cases ho

/-- an accepted insertion of a policy or namespace empties the cache -/
theorem insert_policy_ok_cache (s : EState) (o : Obj) (ho : o.isPolicyOrNs = true)
    (hok : (s.insert o).1 = .ok) : (s.insert o).2.cache.items = [] := by
  cases o with
  | ns n => rfl
  | np x =>
    simp only [insert] at hok ⊢
    cases h : s.eng.insertNetpol x with
    | error e => rw [h] at hok; cases hok
    | ok e => rfl
  | anp x =>
    simp only [insert] at hok ⊢
    cases h : s.eng.insertANP x with
    | error e => rw [h] at hok; cases hok
    | ok e => rfl
  | banp x =>
    simp only [insert] at hok ⊢
    cases h : s.eng.insertBANP x with
    | error e => rw [h] at hok; cases hok
    | ok e => rfl
  | _ => cases ho

theorem delete_policy_cache (s : EState) (o : Obj) (ho : o.isPolicyOrNs = true) :
    (s.delete o).2 = s ∨ (s.delete o).2.cache.items = [] := by
  cases o with
  | ns n => exact Or.inr rfl
  | np x => exact Or.inr rfl
  | anp x => exact Or.inr rfl
  | banp x =>
    simp only [delete]
    split
    · exact Or.inl rfl
    · split
      · exact Or.inr rfl
      · exact Or.inl rfl
  | _ => cases ho

end EState

/-! ### insertion order of admin policies -/

def CacheLayer.insertANPs (e : Engine) (l : List ANP) : Except Err Engine := l.foldlM Engine.insertANP e

theorem CacheLayer.insertANPs_cons (e : Engine) (a : ANP) (rest : List ANP) :
    CacheLayer.insertANPs e (a :: rest) =
      match e.insertANP a with
      | .error err => .error err
      | .ok e1 => CacheLayer.insertANPs e1 rest := by
  simp only [CacheLayer.insertANPs, List.foldlM_cons]
  cases e.insertANP a <;> rfl

/-- the admission condition of a sequence of admin-policy insertions: the exposure flag is off,
the names are new and pairwise distinct, the priorities are within 0..1000, held by no policy of
the engine and pairwise distinct. Every clause speaks about the multiset of `l`. -/
structure CacheLayer.Insertable (e : Engine) (l : List ANP) : Prop where
  expo : l ≠ [] → e.exposure = false
  fresh : ∀ a ∈ l, a.name ∉ e.anpNames
  names : (l.map (·.name)).Nodup
  valid : ∀ a ∈ l, a.validPriority = true
  free : ∀ a ∈ l, ∀ b ∈ e.anps, b.prio ≠ a.prio
  prios : (l.map (·.prio)).Nodup

theorem CacheLayer.Insertable.perm {e : Engine} {l l' : List ANP} (hp : l.Perm l')
    (h : CacheLayer.Insertable e l) : CacheLayer.Insertable e l' where
  expo := fun hne => h.expo (fun h0 => hne (by rw [h0] at hp; exact hp.nil_eq.symm))
  fresh := fun a ha => h.fresh a (hp.mem_iff.mpr ha)
  names := ((hp.map _).nodup_iff).mp h.names
  valid := fun a ha => h.valid a (hp.mem_iff.mpr ha)
  free := fun a ha => h.free a (hp.mem_iff.mpr ha)
  prios := ((hp.map _).nodup_iff).mp h.prios

/-- a sequence of insertions is accepted exactly when it is admissible -/
theorem CacheLayer.insertANPs_ok_iff (e : Engine) (l : List ANP) :
    (∃ e', CacheLayer.insertANPs e l = .ok e') ↔ CacheLayer.Insertable e l := by
  induction l generalizing e with
  | nil =>
    exact ⟨fun _ => ⟨fun h => absurd rfl h, fun _ h => (by cases h), List.nodup_nil,
      fun _ h => (by cases h), fun _ h => (by cases h), List.nodup_nil⟩, fun _ => ⟨e, rfl⟩⟩
  | cons a rest ih =>
    rw [CacheLayer.insertANPs_cons]
    constructor
    · rintro ⟨e', h⟩
      cases h1 : e.insertANP a with
      | error err => rw [h1] at h; cases h
      | ok e1 =>
        rw [h1] at h
        obtain ⟨hexp, hn, hv, hp⟩ := Structure.insertANP_ok_iff.mp ⟨e1, h1⟩
        have he := Structure.insertANP_eq h1
        have hr := (ih e1).mp ⟨e', h⟩
        subst he
        refine ⟨fun _ => hexp, ?_, ?_, ?_, ?_, ?_⟩
        · intro x hx
          rcases List.mem_cons.mp hx with rfl | hx
          · exact hn
          · exact fun hm => hr.fresh x hx (List.mem_append_left _ hm)
        · rw [List.map_cons, List.nodup_cons]
          refine ⟨?_, hr.names⟩
          intro hm
          obtain ⟨x, hx, hxn⟩ := List.mem_map.mp hm
          exact hr.fresh x hx (List.mem_append_right _ (by simp [hxn]))
        · intro x hx
          rcases List.mem_cons.mp hx with rfl | hx
          · exact hv
          · exact hr.valid x hx
        · intro x hx b hb
          rcases List.mem_cons.mp hx with rfl | hx
          · exact hp b hb
          · exact hr.free x hx b (CacheLayer.mem_insertSorted.mpr (Or.inr hb))
        · rw [List.map_cons, List.nodup_cons]
          refine ⟨?_, hr.prios⟩
          intro hm
          obtain ⟨x, hx, hxn⟩ := List.mem_map.mp hm
          exact hr.free x hx a (CacheLayer.mem_insertSorted.mpr (Or.inl rfl)) hxn.symm
    · intro hi
      have hmem : a ∈ a :: rest := List.mem_cons_self ..
      obtain ⟨e1, h1⟩ := Structure.insertANP_ok_iff.mpr
        ⟨hi.expo (by simp), hi.fresh a hmem, hi.valid a hmem, hi.free a hmem⟩
      have he := Structure.insertANP_eq h1
      rw [h1]
      apply (ih e1).mpr
      subst he
      have hn := List.nodup_cons.mp (show (a.name :: rest.map (·.name)).Nodup from hi.names)
      have hq := List.nodup_cons.mp (show (a.prio :: rest.map (·.prio)).Nodup from hi.prios)
      refine ⟨fun _ => hi.expo (by simp), ?_, hn.2,
        fun x hx => hi.valid x (List.mem_cons_of_mem _ hx), ?_, hq.2⟩
      · intro x hx hm
        rcases List.mem_append.mp hm with hm | hm
        · exact hi.fresh x (List.mem_cons_of_mem _ hx) hm
        · have : x.name = a.name := by simpa using hm
          exact hn.1 (List.mem_map.mpr ⟨x, hx, this⟩)
      · intro x hx b hb
        rcases CacheLayer.mem_insertSorted.mp hb with rfl | hb
        · intro h; exact hq.1 (List.mem_map.mpr ⟨x, hx, h.symm⟩)
        · exact hi.free x (List.mem_cons_of_mem _ hx) b hb

/-- the engine an accepted sequence of insertions returns -/
theorem CacheLayer.insertANPs_result {e e' : Engine} {l : List ANP}
    (h : CacheLayer.insertANPs e l = .ok e') :
    e' = { e with anpNames := e.anpNames ++ l.map (·.name),
                  anps := l.foldl (fun acc a => Engine.insertSorted a acc) e.anps } := by
  induction l generalizing e with
  | nil =>
    simp only [CacheLayer.insertANPs, List.foldlM_nil, pure, Except.pure, Except.ok.injEq] at h
    subst h
    simp
  | cons a rest ih =>
    rw [CacheLayer.insertANPs_cons] at h
    cases h1 : e.insertANP a with
    | error err => rw [h1] at h; cases h
    | ok e1 =>
      rw [h1] at h
      have he := Structure.insertANP_eq h1
      rw [ih h, he]
      simp [List.append_assoc]

/-- the errors of a rejected sequence of insertions -/
theorem CacheLayer.insertANPs_error {e : Engine} {l : List ANP} {err : Err}
    (h : CacheLayer.insertANPs e l = .error err) :
    err = .exposureWithANP ∧ e.exposure = true ∨ err = .dupANP ∨ err = .anpPriority := by
  induction l generalizing e with
  | nil => cases h
  | cons a rest ih =>
    rw [CacheLayer.insertANPs_cons] at h
    cases h1 : e.insertANP a with
    | error err' =>
      rw [h1] at h
      cases h
      unfold Engine.insertANP at h1
      split at h1
      · rename_i hx; cases h1; exact Or.inl ⟨rfl, hx⟩
      split at h1
      · cases h1; exact Or.inr (Or.inl rfl)
      split at h1
      · cases h1; exact Or.inr (Or.inr rfl)
      split at h1
      · cases h1; exact Or.inr (Or.inr rfl)
      · cases h1
    | ok e1 =>
      rw [h1] at h
      have he := Structure.insertANP_eq h1
      rcases ih h with ⟨h2, h3⟩ | h2 | h2
      · exact Or.inl ⟨h2, by rw [he] at h3; exact h3⟩
      · exact Or.inr (Or.inl h2)
      · exact Or.inr (Or.inr h2)

/-- two insertions with different priorities commute, whatever the list -/
theorem CacheLayer.insertSorted_comm (a b : ANP) (h : a.prio ≠ b.prio) (l : List ANP) :
    Engine.insertSorted a (Engine.insertSorted b l) = Engine.insertSorted b (Engine.insertSorted a l) := by
  induction l with
  | nil =>
    simp only [Engine.insertSorted]
    by_cases h1 : b.prio > a.prio <;> by_cases h2 : a.prio > b.prio <;>
      simp [h1, h2] <;> omega
  | cons c cs ih =>
    simp only [Engine.insertSorted]
    by_cases h1 : c.prio > b.prio <;> by_cases h2 : c.prio > a.prio <;>
      by_cases h3 : b.prio > a.prio <;> by_cases h4 : a.prio > b.prio <;>
      simp [Engine.insertSorted, h1, h2, h3, h4, ih] <;> omega

/-- the slice after a sequence of insertions with pairwise distinct priorities does not depend on
their order, whatever the slice before -/
theorem CacheLayer.foldl_insertSorted_perm {l₁ l₂ : List ANP} (hp : l₁.Perm l₂)
    (hn : (l₁.map (·.prio)).Nodup) (acc : List ANP) :
    l₁.foldl (fun acc a => Engine.insertSorted a acc) acc =
      l₂.foldl (fun acc a => Engine.insertSorted a acc) acc := by
  induction hp generalizing acc with
  | nil => rfl
  | cons x _ ih =>
    simp only [List.foldl_cons]
    exact ih (List.nodup_cons.mp hn).2 _
  | swap x y l =>
    simp only [List.foldl_cons]
    have hne : x.prio ≠ y.prio := by
      intro h
      have := (List.nodup_cons.mp hn).1
      exact this (by simp [h])
    rw [CacheLayer.insertSorted_comm x y hne acc]
  | trans h1 _ ih1 ih2 =>
    exact (ih1 hn acc).trans (ih2 ((h1.map _).nodup_iff.mp hn) acc)

/-- **admin policies are applied by priority regardless of the insertion order**, and admission
does not depend on the order either: two permutations of a list of policies, inserted one by one
into the same engine, are both rejected or both accepted, and when accepted the engines hold the
same sorted slice (they are equal up to the order of the name map). No hypothesis on the engine
nor on the policies. -/
theorem CacheLayer.insertANPs_perm (e : Engine) {l₁ l₂ : List ANP} (hp : l₁.Perm l₂) :
    (∃ err₁ err₂, CacheLayer.insertANPs e l₁ = .error err₁ ∧ CacheLayer.insertANPs e l₂ = .error err₂) ∨
    (∃ e₁ e₂, CacheLayer.insertANPs e l₁ = .ok e₁ ∧ CacheLayer.insertANPs e l₂ = .ok e₂ ∧
      e₁.anps = e₂.anps ∧ e₁.anpNames.Perm e₂.anpNames ∧ e₂ = { e₁ with anpNames := e₂.anpNames }) := by
  cases h1 : CacheLayer.insertANPs e l₁ with
  | error err₁ =>
    cases h2 : CacheLayer.insertANPs e l₂ with
    | error err₂ => exact Or.inl ⟨err₁, err₂, rfl, rfl⟩
    | ok e₂ =>
      obtain ⟨e₁, h⟩ := (CacheLayer.insertANPs_ok_iff e l₁).mpr
        (((CacheLayer.insertANPs_ok_iff e l₂).mp ⟨e₂, h2⟩).perm hp.symm)
      rw [h1] at h; cases h
  | ok e₁ =>
    have hi := (CacheLayer.insertANPs_ok_iff e l₁).mp ⟨e₁, h1⟩
    obtain ⟨e₂, h2⟩ := (CacheLayer.insertANPs_ok_iff e l₂).mpr (hi.perm hp)
    right
    refine ⟨e₁, e₂, rfl, h2, ?_⟩
    have r1 := CacheLayer.insertANPs_result h1
    have r2 := CacheLayer.insertANPs_result h2
    have hf := CacheLayer.foldl_insertSorted_perm hp hi.prios e.anps
    subst r1; subst r2
    exact ⟨hf, (hp.map _).append_left _, by simp only [hf]⟩

/-! ### the `InsertObject` path (`EState.insertAll`) on admin policies -/

theorem EState.insertAll_anps_error {s : EState} {l : List ANP} {err : Err}
    (h : CacheLayer.insertANPs s.eng l = .error err) : (s.insertAll (l.map .anp)).1 = .err err := by
  induction l generalizing s with
  | nil => cases h
  | cons a rest ih =>
    rw [CacheLayer.insertANPs_cons] at h
    simp only [List.map_cons, EState.insertAll, EState.insert]
    cases h1 : s.eng.insertANP a with
    | error err' => rw [h1] at h; cases h; rfl
    | ok e1 =>
      rw [h1] at h
      exact ih (s := ({ s with eng := e1 } : EState).cacheClear) h

theorem EState.insertAll_anps_ok {s : EState} {l : List ANP} {e : Engine}
    (h : CacheLayer.insertANPs s.eng l = .ok e) :
    s.insertAll (l.map .anp) =
      (.ok, if l.isEmpty then s else ({ s with eng := e } : EState).cacheClear) := by
  induction l generalizing s with
  | nil => rfl
  | cons a rest ih =>
    rw [CacheLayer.insertANPs_cons] at h
    simp only [List.map_cons, EState.insertAll, EState.insert]
    cases h1 : s.eng.insertANP a with
    | error err' => rw [h1] at h; cases h
    | ok e1 =>
      rw [h1] at h
      have := ih (s := ({ s with eng := e1 } : EState).cacheClear) h
      simp only [this, List.isEmpty_cons, Bool.false_eq_true, if_false]
      cases rest with
      | nil =>
        simp only [CacheLayer.insertANPs, List.foldlM_nil, pure, Except.pure,
          Except.ok.injEq] at h
        have h' : e1 = e := h
        subst h'
        rfl
      | cons b rest' => rfl

/-- **the `InsertObject` path does not depend on the order of the admin policies**: two
permutations of a list of admin policies, inserted one by one (`EState.insertAll`, which stops at
the first rejected object) into the same state, are both rejected, or both accepted with final
states that are equal up to the order of the name map — same sorted slice, same other objects,
same (cleared) cache -/
theorem EState.insertAll_anps_perm (s : EState) {l₁ l₂ : List ANP} (hp : l₁.Perm l₂) :
    (∃ err₁ err₂, (s.insertAll (l₁.map .anp)).1 = .err err₁ ∧
      (s.insertAll (l₂.map .anp)).1 = .err err₂) ∨
    (∃ s₁ s₂, s.insertAll (l₁.map .anp) = (.ok, s₁) ∧ s.insertAll (l₂.map .anp) = (.ok, s₂) ∧
      s₁.eng.anps = s₂.eng.anps ∧ s₁.eng.anpNames.Perm s₂.eng.anpNames ∧
      s₂ = { s₁ with eng := { s₁.eng with anpNames := s₂.eng.anpNames } }) := by
  rcases CacheLayer.insertANPs_perm s.eng hp with ⟨err₁, err₂, h1, h2⟩ | ⟨e₁, e₂, h1, h2, h3, h4, h5⟩
  · exact Or.inl ⟨err₁, err₂, EState.insertAll_anps_error h1, EState.insertAll_anps_error h2⟩
  · right
    refine ⟨_, _, EState.insertAll_anps_ok h1, EState.insertAll_anps_ok h2, ?_⟩
    have hemp : l₂.isEmpty = l₁.isEmpty := by
      cases l₁ with
      | nil => rw [hp.nil_eq.symm]
      | cons a r =>
        cases l₂ with
        | nil => exact absurd hp.eq_nil (by simp)
        | cons b r' => rfl
    rw [hemp]
    cases hl : l₁.isEmpty with
    | true =>
      simp only [if_true]
      exact ⟨trivial, List.Perm.refl _, trivial⟩
    | false =>
      simp only [Bool.false_eq_true, if_false]
      refine ⟨h3, h4, ?_⟩
      show (_ : EState) = _
      simp only [EState.cacheClear]
      rw [h5]

/-- a history extended by a query whose (protocol, port) strings were queried before is as
consistent as the history -/
theorem OpsConsistent.requery {attrs : String → Labels × List CPort} {nsOf : String → String}
    {ops : List HOp} (h : OpsConsistent attrs nsOf ops) (src dst : String) {proto port : String}
    (hq : (proto, port) ∈ opsQueries ops) :
    OpsConsistent attrs nsOf (ops ++ [.q src dst proto port]) := by
  refine h.of_subset ?_ ?_
  · intro p hp
    rw [opsPods_append] at hp
    rcases List.mem_append.mp hp with hp | hp
    · exact hp
    · simp [opsPods, HOp.pods] at hp
  · intro x hx
    rw [opsQueries_append] at hx
    rcases List.mem_append.mp hx with hx | hx
    · exact hx
    · simp only [opsQueries, HOp.queries, List.flatMap_cons, List.flatMap_nil, List.append_nil,
        List.mem_singleton] at hx
      exact hx ▸ hq

/-- without any assumption: a query whose peers are not two owned pods (an address, a pod without
owner) is never cached, it is answered by the rule walk and leaves the state as it is -/
theorem EState.uncacheable_transparent (s : EState) (src dst proto port : String)
    (h : ∀ sp dp, getPeer s.eng src = .ok sp → getPeer s.eng dst = .ok dp →
      connKey sp dp proto port = "") :
    s.checkIfAllowed src dst proto port = (s.uncached src dst proto port, s) := by
  rw [checkIfAllowed_eq, uncached_eq]
  cases h1 : getPeer s.eng src with
  | error e => rfl
  | ok sp =>
    cases h2 : getPeer s.eng dst with
    | error e => rfl
    | ok dp =>
      simp only
      split
      · rfl
      · cases hb : badQuery proto port with
        | true => rw [answer_badQuery _ _ _ hb, verdict_of_badQuery _ _ _ hb]
        | false => simp only [answer_goodQuery _ _ _ hb, cachedAnswer, h sp dp h1 h2, if_true]

/-! ### the validation of the query port

`CheckIfAllowed` rejects a query that names a protocol or a port and whose port does not parse
right after the self check: before the cache lookup and before any rule is examined
(`EState.badQuery`, first test of `EState.answer`; `EState.verdict` is the same without cache). -/

namespace EState

/-- `CheckIfAllowed` on such a query: resolved peers, not a pod to itself — in any state, whatever
is cached -/
theorem checkIfAllowed_badQuery (s : EState) (src dst : String) {sp dp : KPeer} {proto port : String}
    (hs : getPeer s.eng src = .ok sp) (hd : getPeer s.eng dst = .ok dp)
    (hself : Engine.isPodToItself sp dp = false) (hb : badQuery proto port = true) :
    s.checkIfAllowed src dst proto port = (.error .badPort, s) := by
  rw [checkIfAllowed_eq, hs, hd]
  simp only [hself, Bool.false_eq_true, if_false]
  exact answer_badQuery s sp dp hb

/-- `CheckIfAllowed` on such a query, in any state: `badPort` unless the peers do not resolve or
are one pod; the state is left as it is -/
theorem checkIfAllowed_badQuery_eq (s : EState) (src dst : String) {proto port : String}
    (hb : badQuery proto port = true) :
    s.checkIfAllowed src dst proto port =
      (match getPeer s.eng src with
      | .error e => .error e
      | .ok sp =>
        match getPeer s.eng dst with
        | .error e => .error e
        | .ok dp => if Engine.isPodToItself sp dp then .ok true else .error .badPort, s) := by
  rw [checkIfAllowed_eq]
  cases getPeer s.eng src with
  | error e => rfl
  | ok sp =>
    cases getPeer s.eng dst with
    | error e => rfl
    | ok dp =>
      simp only [answer_badQuery _ _ _ hb]
      split <;> rfl

/-- the uncached answer to such a query: `badPort` unless the peers do not resolve or are one pod -/
theorem uncached_badQuery (s : EState) (src dst : String) {proto port : String}
    (hb : badQuery proto port = true) :
    s.uncached src dst proto port =
      match getPeer s.eng src with
      | .error e => .error e
      | .ok sp =>
        match getPeer s.eng dst with
        | .error e => .error e
        | .ok dp => if Engine.isPodToItself sp dp then .ok true else .error .badPort := by
  rw [uncached_eq]
  cases getPeer s.eng src with
  | error e => rfl
  | ok sp =>
    cases getPeer s.eng dst with
    | error e => rfl
    | ok dp => simp only [verdict_of_badQuery _ _ _ hb]

/-- the key was formed for a query that passed the validation of the port -/
def StoredKey (k : String) : Prop :=
  ∃ sp dp proto port, k = connKey sp dp proto port ∧ badQuery proto port = false

/-- every cached verdict was stored for a query that passed the validation -/
def CacheValidated (s : EState) : Prop := ∀ kv ∈ s.cache.items, StoredKey kv.1

theorem CacheValidated.of_sub {s s' : EState} (h : s.CacheValidated)
    (hsub : ∀ kv ∈ s'.cache.items, kv ∈ s.cache.items) : s'.CacheValidated :=
  fun kv hkv => h kv (hsub kv hkv)

theorem CacheValidated.of_empty {s : EState} (h : s.cache.items = []) : s.CacheValidated := by
  intro kv hkv; rw [h] at hkv; cases hkv

theorem cachedAnswer_validated {s : EState} (h : s.CacheValidated) (sp dp : KPeer) (proto port : String) :
    (s.cachedAnswer sp dp proto port).2.CacheValidated := by
  unfold cachedAnswer
  by_cases hk : connKey sp dp proto port = ""
  · rw [if_pos hk]; exact h
  · rw [if_neg hk]
    cases hfind : s.cache.items.find? (·.1 == connKey sp dp proto port) with
    | some kv =>
      refine h.of_sub ?_
      intro kv' hkv'
      rcases List.mem_cons.mp hkv' with h' | h'
      · exact h' ▸ List.mem_of_find?_eq_some hfind
      · exact (List.mem_filter.mp h').1
    | none =>
      simp only
      cases hv : verdict s.eng sp dp proto port with
      | error e => exact h
      | ok v =>
        intro kv hkv
        rcases mem_lru_add hkv with h' | h'
        · subst h'
          refine ⟨sp, dp, proto, port, rfl, ?_⟩
          cases hb : badQuery proto port with
          | false => rfl
          | true => rw [verdict_of_badQuery _ _ _ hb] at hv; cases hv
        · exact h kv h'

theorem answer_validated {s : EState} (h : s.CacheValidated) (sp dp : KPeer) (proto port : String) :
    (s.answer sp dp proto port).2.CacheValidated := by
  cases hb : badQuery proto port with
  | true => rw [answer_badQuery _ _ _ hb]; exact h
  | false => rw [answer_goodQuery _ _ _ hb]; exact cachedAnswer_validated h sp dp proto port

theorem checkIfAllowed_validated {s : EState} (h : s.CacheValidated) (src dst proto port : String) :
    (s.checkIfAllowed src dst proto port).2.CacheValidated := by
  rw [checkIfAllowed_eq]
  cases getPeer s.eng src with
  | error e => exact h
  | ok sp =>
    cases getPeer s.eng dst with
    | error e => exact h
    | ok dp =>
      simp only
      split
      · exact h
      · exact answer_validated h sp dp proto port

theorem step_validated {s : EState} (h : s.CacheValidated) (op : HOp) : (s.step op).1.CacheValidated := by
  cases op with
  | clear => exact CacheValidated.of_empty rfl
  | q a b pr po => exact checkIfAllowed_validated h a b pr po
  | del o =>
    cases o with
    | pod p =>
      simp only [step, delete]
      cases s.eng.findPod (Engine.podKey p) with
      | none => exact h
      | some cur =>
        simp only [cacheDeletePod]
        split
        · exact h.of_sub (fun kv hkv => (List.mem_filter.mp hkv).1)
        · exact h
    | banp b =>
      simp only [step, delete]
      split
      · exact h
      · split
        · exact CacheValidated.of_empty rfl
        · exact h
    | ns n => exact CacheValidated.of_empty rfl
    | np x => exact CacheValidated.of_empty rfl
    | anp x => exact CacheValidated.of_empty rfl
    | wl w => exact h
    | svc x => exact h
    | ing x => exact h
    | route x => exact h
  | ins o =>
    cases o with
    | wl w =>
      refine h.of_sub ?_
      intro kv hkv
      have : (s.step (.ins (.wl w))).1.cache = s.cache := (addPods_eng s _).2
      rw [this] at hkv
      exact hkv
    | pod p => simp only [step, insert]; split <;> exact h
    | np x =>
      simp only [step, insert]
      cases s.eng.insertNetpol x with
      | error e => exact h
      | ok e => exact CacheValidated.of_empty rfl
    | anp x =>
      simp only [step, insert]
      cases s.eng.insertANP x with
      | error e => exact h
      | ok e => exact CacheValidated.of_empty rfl
    | banp x =>
      simp only [step, insert]
      cases s.eng.insertBANP x with
      | error e => exact h
      | ok e => exact CacheValidated.of_empty rfl
    | ns n => exact CacheValidated.of_empty rfl
    | svc x => exact h
    | ing x => exact h
    | route x => exact h

theorem run_validated {s : EState} (h : s.CacheValidated) (ops : List HOp) :
    (s.run ops).CacheValidated := by
  induction ops generalizing s with
  | nil => exact h
  | cons op rest ih => exact ih (step_validated h op)

end EState

end Netpol
