import Netpol.Proofs.PermLayer
import Netpol.Proofs.ExposureBuild
import Netpol.Proofs.PermRules
import Netpol.Proofs.PermIngress

/-! Property C08 for `list --exposure`: the model `WorldDriver.runListX` does not depend on the
order of the input objects (Go maps / document order), nor on the inner order of a NetworkPolicy
(rules, rule peers, rule ports, `policyTypes`). Core Lean only.

Main statements (section F, G4, H):
* `runListX_perm`: `objs.Perm objs'`, `Exposure.build objs` succeeds, `DistinctKeys objs`,
  `PodsReal objs`, `PodPortsValid objs`, `NPRulesValid objs`, `RepSpellings objs`,
  `EntriesPrintInj objs focus` ⊢ `runListX objs focus = runListX objs' focus`.
* `runListX_perm_struct`: the same without `EntriesPrintInj`: the two reports are the same
  non-report value, or `renderX peers entries xs` / `renderX peers entries xs'` with the same peers,
  the same base entries and exposed peers that agree up to the order of their entries (`ReportSim`).
* `runListX_rules_perm` / `runListX_rules_perm_struct`: the same for
  `PermRules.Forall₂ PermRules.ObjSim objs objs'` (no `DistinctKeys`: the objects are met in the
  same order).
* `build_perm`, `build_inner`: `Exposure.build` on the two inputs (`XSim`): acceptance
  (`build_isOk_iff`: a property of the multiset of objects), the same policies / pods / namespace
  lookups, the same representative peers up to order.
* `listx_order_independent` …: the same from one decidable predicate `ListXWF` (`RepSpellingsS`, a
  `mergeSort`-free sufficient condition for `RepSpellings`), with an example checked by `decide`.

The hypotheses.
* acceptance: which failure `build` reports depends on the order (an AdminNetworkPolicy object and a
  pod without host IP: `(err exposureWithANP)` / `(err badPod)`, the first met wins).
* `DistinctKeys`: two Namespace objects `default` with labels `env=x` / `env=y` and a policy peer
  `{app=a, ns env=x}`: the later object wins, the entry `(ent SEL … (env x) … (app a) …)` is
  reported in one order and the pair `a → b` instead in the other; two pods `default/a` with
  labels `app=a` / `app=b` and a policy selecting `app=a`: `(ing 0)` / `(ing 1)`.
* `NPRulesValid`: an empty rule peer and a named port towards an ipBlock in two policies:
  `(err emptyRulePeer)` / `(err namedPortOnIP)`. Out-of-range rule ports and container ports, and
  pods that look like representative peers (`PodsReal`, `PodPortsValid`) are excluded because the
  proofs go through well-formed port sets; no order dependence was found by probing them.
* `RepSpellings`: when two rule selector pairs have the same map key and the same spelling the first
  one met is kept. They can differ (matchLabels listed in two orders, which the Go maps do not
  have; label strings that defeat `LabelSelector.String()`); no such difference is visible in the
  report (probed), but the proof goes through equality of the representative pods.
* `EntriesPrintInj`: `Sexp.toStr` is a `partial def`, so `toString : Sexp → String` is opaque:
  `sortSx` (a stable sort by the printed form) is order-free only if the printer tells the sorted
  entries apart. It does on atoms without blanks and parentheses; nothing of it can be proved in
  Lean, and the hypothesis can only be checked by evaluation.

A finding (repaired since, in the Go code and in the model). With the former
`ReplaceNamedPortWithMatchingPortNum` (the converted name moved to `excluded`), the pod
`default/a` (container port `http` TCP 80) and three policies selecting it with one ingress rule
from the entire cluster each — A: TCP 1-65535 and UDP 1-65535, B: SCTP 1-65535, C: the named
port `http` — the entire-cluster entry was `All_Connections` in the order A, B, C and
`SCTP_1-65535,TCP_1-65535,UDP_1-65535` in the order C, A, B: the excluded name kept
`checkIfAllConnections` from recognising the full set. Now a converted name is dropped, the class
`NS` (no excluded port, named ports sorted) is closed under the conversion (`ns_convertNamedPorts`)
and no hypothesis on named ports is needed.

Layout.
* A  named ports as strictly sorted lists; connection sets without excluded named ports whose
     named ports are sorted (`NS`); extensionality (`eq_of_den_names`); a fold of unions over a
     permuted list (`foldl_union_perm`, `foldlM_uStep_perm`).
* B  the connection sets of one policy (`policyConns`) are in that class; one error class.
* C  `xgressConns`, `peerConns`, `clusterWideConn`, `isProtected` on engines whose policies are
     permuted; `EvalSim`.
* D  `Exposure.build`: acceptance, components, representative peers (`RepsSpec`: one candidate of
     least spelling per key; `removeMatching` as one filter), `build_perm`.
* E  `xgressExposure`, `exposedPeers`, `connsBetweenPeers` on two builds related by `XSim`.
* F  the report.
* G  the inner order: the pre-scan, `policyConns` and `build` on similar policies.
* H  the decidable hypotheses, an example. -/
namespace Netpol.PermExposure
open Netpol Netpol.Engine Netpol.Exposure Netpol.Structure

/-! ## A. named ports: strictly sorted lists -/

/-- a strictly sorted list of strings: the canonical form of a Go `map[string]bool` used as a set -/
def SSorted (l : List String) : Prop := l.Pairwise (· < ·)

theorem String.lt_of_not_lt_of_ne {a b : String} (h1 : ¬ a < b) (h2 : a ≠ b) : b < a := by
  rcases String.le_total a b with h | h
  · exact absurd (String.le_antisymm h (String.not_lt.mp h1)) h2
  · exact String.not_le.mp (fun h3 => h2 (String.le_antisymm h3 h))

theorem ssorted_sinsert (s : String) {l : List String} (h : SSorted l) : SSorted (sinsert s l) := by
  induction l with
  | nil => exact List.pairwise_singleton _ _
  | cons x xs ih =>
    unfold SSorted at h ih ⊢
    rw [List.pairwise_cons] at h
    unfold sinsert
    split
    · rename_i hlt
      rw [List.pairwise_cons]
      refine ⟨?_, List.pairwise_cons.mpr h⟩
      intro y hy
      rcases List.mem_cons.mp hy with rfl | hy'
      · exact hlt
      · exact String.lt_trans hlt (h.1 y hy')
    · rename_i hnlt
      split
      · exact List.pairwise_cons.mpr h
      · rename_i hne
        rw [List.pairwise_cons]
        refine ⟨?_, ih h.2⟩
        intro y hy
        rcases (mem_sinsert y s xs).mp hy with rfl | hy'
        · exact String.lt_of_not_lt_of_ne hnlt hne
        · exact h.1 y hy'

theorem ssorted_foldl_sinsert (ks : List String) {acc : List String} (h : SSorted acc) :
    SSorted (ks.foldl (fun acc k => sinsert k acc) acc) := by
  induction ks generalizing acc with
  | nil => exact h
  | cons k ks ih => exact ih (ssorted_sinsert k h)

theorem SSorted.nodup {l : List String} (h : SSorted l) : l.Nodup := by
  unfold SSorted at h
  unfold List.Nodup
  refine h.imp ?_
  intro a b hab heq
  subst heq
  exact String.lt_irrefl _ hab

/-- strictly sorted lists with the same members are equal -/
theorem ssorted_ext {a b : List String} (ha : SSorted a) (hb : SSorted b)
    (h : ∀ n, n ∈ a ↔ n ∈ b) : a = b := by
  have hp : a.Perm b := (List.perm_ext_iff_of_nodup ha.nodup hb.nodup).mpr h
  exact List.Perm.eq_of_pairwise (le := (· < ·))
    (fun x y _ _ h1 h2 => absurd h2 (String.lt_asymm h1)) ha hb hp

theorem foldl_serase_nil (ks : List String) : ks.foldl (fun acc k => serase k acc) [] = [] := by
  induction ks with
  | nil => rfl
  | cons k ks ih => simpa [serase] using ih

/-- the named part of a port set: no excluded port, the named ports strictly sorted -/
def PNS (ps : PortSet) : Prop := ps.excluded = [] ∧ SSorted ps.named

theorem pns_union {p o : PortSet} (hp : PNS p) (ho : PNS o) : PNS (p.union o) := by
  refine ⟨?_, ssorted_foldl_sinsert _ hp.2⟩
  show List.foldl _ (List.foldl _ p.excluded o.named) o.excluded = []
  rw [hp.1, ho.1, foldl_serase_nil]
  rfl

theorem pns_mk' (b : Bool) : PNS (PortSet.mk' b) := by
  cases b <;> exact ⟨rfl, List.Pairwise.nil⟩

/-- the class of connection sets of the exposure-mode evaluation: no excluded named port, named
ports strictly sorted -/
def NS (c : ConnSet) : Prop := ∀ pr ps, c.get pr = some ps → PNS ps

theorem ns_mk (b : Bool) : NS (ConnSet.mk' b) := by
  intro pr ps h; simp at h

theorem ns_checkIfAll {c : ConnSet} (h : NS c) : NS c.checkIfAll := by
  unfold ConnSet.checkIfAll
  split
  · exact ns_mk true
  · exact h

theorem ns_union {c o : ConnSet} (hc : NS c) (ho : NS o) : NS (c.union o) := by
  unfold ConnSet.union
  split
  · exact hc
  · split
    · exact ns_mk true
    · apply ns_checkIfAll
      intro pr ps hg
      rw [ConnSet.get_mapProtos] at hg
      split at hg
      · rename_i ports op h1 h2
        cases hg
        exact pns_union (hc _ _ h1) (ho _ _ h2)
      · rename_i ports h1 h2
        cases hg
        exact hc _ _ h1
      · rename_i op h1 h2
        cases hg
        exact ho _ _ h2
      · cases hg

theorem ns_addConnection {c : ConnSet} (hc : NS c) (pr : Proto) {ps : PortSet} (hps : PNS ps) :
    NS (c.addConnection pr ps) := by
  cases ha : c.allowAll
  case true => rw [ConnSet.addConnection_of_allowAll ha]; exact hc
  rw [ConnSet.addConnection_of_not_allowAll ha]
  apply ns_checkIfAll
  unfold ConnSet.addConnectionRaw
  split
  · exact hc
  · split
    · rename_i cur hcur
      intro pr' ps' hg
      rw [ConnSet.get_set] at hg
      split at hg
      · cases hg
        exact pns_union (hc _ _ hcur) hps
      · exact hc _ _ hg
    · intro pr' ps' hg
      rw [ConnSet.get_set] at hg
      split at hg
      · cases hg
        exact hps
      · exact hc _ _ hg

theorem NS.excluded {c : ConnSet} (h : NS c) : ∀ pr ps, c.get pr = some ps → ps.excluded = [] :=
  fun pr ps hg => (h pr ps hg).1

theorem wfe_union {c o : ConnSet} (hc : c.WFE) (ho : o.WFE) : (c.union o).WFE := by
  cases ha : c.allowAll
  · exact (ConnSet.wf_union_wfe (ConnSet.wf_of_wfe hc ha) ho).wfe
  · unfold ConnSet.union
    simp only [ha, Bool.true_or, if_true]
    exact hc

/-- canonical sets of the class with the same numeric denotation and the same named ports are the
same value -/
theorem eq_of_den_names {c d : ConnSet} (hc : c.Canonical) (hd : d.Canonical) (nc : NS c)
    (nd : NS d) (hden : ∀ pr x, c.den pr x ↔ d.den pr x)
    (hn : c.allowAll = false → d.allowAll = false → ∀ pr n, n ∈ c.names pr ↔ n ∈ d.names pr) :
    c = d := by
  have hall : c.allowAll = d.allowAll := by
    rw [Bool.eq_iff_iff, ConnSet.allowAll_iff_full' hc nc.excluded,
      ConnSet.allowAll_iff_full' hd nd.excluded]
    constructor
    · intro h1 pr p hp; exact (hden pr p).mp (h1 pr p hp)
    · intro h1 pr p hp; exact (hden pr p).mpr (h1 pr p hp)
  cases ha : c.allowAll
  · have hb : d.allowAll = false := by rw [← hall, ha]
    have hn' := hn ha hb
    apply ConnSet.ext_get hall
    intro pr
    -- an entry is not empty: it holds a port or a name
    have nonempty : ∀ {e : ConnSet}, e.WF → ∀ {qs : PortSet}, e.get pr = some qs →
        (∃ x, CSet.memL qs.ports x) ∨ ∃ n, n ∈ qs.named := by
      intro e he qs hg
      cases hq : qs.named with
      | nil => exact Or.inl (ConnSet.exists_memL_of_entry he hg hq)
      | cons n rest => exact Or.inr ⟨n, List.mem_cons_self ..⟩
    cases h1 : c.get pr with
    | none =>
      cases h2 : d.get pr with
      | none => rfl
      | some qs =>
        exfalso
        rcases nonempty hd.1 h2 with ⟨x, hx⟩ | ⟨n, hn1⟩
        · have := (hden pr x).mpr (Or.inr ⟨qs, h2, hx⟩)
          rw [ConnSet.den_of_not_allowAll ha, h1] at this
          simp at this
        · have := (hn' pr n).mpr (by rw [ConnSet.names_of_get h2]; exact hn1)
          rw [ConnSet.names_of_get_none h1] at this
          exact absurd this (List.not_mem_nil)
    | some ps =>
      cases h2 : d.get pr with
      | none =>
        exfalso
        rcases nonempty hc.1 h1 with ⟨x, hx⟩ | ⟨n, hn1⟩
        · have := (hden pr x).mp (Or.inr ⟨ps, h1, hx⟩)
          rw [ConnSet.den_of_not_allowAll hb, h2] at this
          simp at this
        · have := (hn' pr n).mp (by rw [ConnSet.names_of_get h1]; exact hn1)
          rw [ConnSet.names_of_get_none h2] at this
          exact absurd this (List.not_mem_nil)
      | some qs =>
        have hports : ps.ports = qs.ports := by
          apply CSet.eq_of_same_mem _ _ (hc.1.entry h1).canon (hd.1.entry h2).canon
          intro x
          have := hden pr x
          rw [ConnSet.den_of_not_allowAll ha, ConnSet.den_of_not_allowAll hb, h1, h2] at this
          simpa using this
        have hnamed : ps.named = qs.named := by
          apply ssorted_ext (nc pr ps h1).2 (nd pr qs h2).2
          intro n
          have := hn' pr n
          rw [ConnSet.names_of_get h1, ConnSet.names_of_get h2] at this
          exact this
        have hex := (nc pr ps h1).1
        have hex' := (nd pr qs h2).1
        cases ps; cases qs
        simp only at hnamed hex hex' hports
        subst hnamed hex hex' hports
        rfl
  · have hb : d.allowAll = true := by rw [← hall, ha]
    rw [ConnSet.eq_all_of_wf hc.1 ha, ConnSet.eq_all_of_wf hd.1 hb]

/-! ### a fold of unions over a permuted list -/

theorem foldl_union_struct (l : List ConnSet) (hl : ∀ c ∈ l, c.WFE ∧ NS c) (acc : ConnSet)
    (hacc : acc.Canonical ∧ NS acc) :
    (l.foldl ConnSet.union acc).Canonical ∧ NS (l.foldl ConnSet.union acc) := by
  induction l generalizing acc with
  | nil => exact hacc
  | cons c rest ih =>
    rw [List.foldl_cons]
    obtain ⟨h1, h2⟩ := hl c (List.mem_cons_self ..)
    exact ih (fun c' h => hl c' (List.mem_cons_of_mem _ h)) _
      ⟨ConnSet.canonical_union_wfe hacc.1 h1, ns_union hacc.2 h2⟩

/-- the union of a list of connection sets of the class does not depend on the order of the list -/
theorem foldl_union_perm {l l' : List ConnSet} (hp : l.Perm l') (hl : ∀ c ∈ l, c.WFE ∧ NS c) :
    l.foldl ConnSet.union (ConnSet.mk' false) = l'.foldl ConnSet.union (ConnSet.mk' false) := by
  have hl' : ∀ c ∈ l', c.WFE ∧ NS c := fun c h => hl c (hp.mem_iff.mpr h)
  obtain ⟨c1, n1⟩ := foldl_union_struct l hl _ ⟨ConnSet.canonical_mk false, ns_mk false⟩
  obtain ⟨c2, n2⟩ := foldl_union_struct l' hl' _ ⟨ConnSet.canonical_mk false, ns_mk false⟩
  obtain ⟨_, d1, s1, t1, _⟩ := ConnSet.foldl_union_spec l (fun c h => (hl c h).1) _ (ConnSet.wf_mk false)
  obtain ⟨_, d2, s2, t2, _⟩ :=
    ConnSet.foldl_union_spec l' (fun c h => (hl' c h).1) _ (ConnSet.wf_mk false)
  apply eq_of_den_names c1 c2 n1 n2
  · intro pr x
    rw [d1, d2]
    constructor
    · rintro (h | ⟨c, hc, h⟩)
      · exact Or.inl h
      · exact Or.inr ⟨c, hp.mem_iff.mp hc, h⟩
    · rintro (h | ⟨c, hc, h⟩)
      · exact Or.inl h
      · exact Or.inr ⟨c, hp.mem_iff.mpr hc, h⟩
  · intro ha hb pr n
    constructor
    · intro h
      have : n ∈ (ConnSet.mk' false).names pr ∨ ∃ c ∈ l', n ∈ c.names pr := by
        rcases s1 pr n h with h | ⟨c, hc, h⟩
        · exact Or.inl h
        · exact Or.inr ⟨c, hp.mem_iff.mp hc, h⟩
      rcases t2 pr n this with h | h
      · exact h
      · rw [hb] at h; cases h
    · intro h
      have : n ∈ (ConnSet.mk' false).names pr ∨ ∃ c ∈ l, n ∈ c.names pr := by
        rcases s2 pr n h with h | ⟨c, hc, h⟩
        · exact Or.inl h
        · exact Or.inr ⟨c, hp.mem_iff.mpr hc, h⟩
      rcases t1 pr n this with h | h
      · exact h
      · rw [ha] at h; cases h

/-- the step of a monadic fold of unions -/
def uStep {α : Type} (f : α → Except Err ConnSet) (acc : ConnSet) (a : α) : Except Err ConnSet :=
  f a >>= fun c => pure (acc.union c)

/-- the value of `f` (the empty set when it fails) -/
def okOf {α : Type} (f : α → Except Err ConnSet) (a : α) : ConnSet :=
  match f a with
  | .ok c => c
  | .error _ => ConnSet.mk' false

theorem foldlM_uStep_ok {α : Type} (f : α → Except Err ConnSet) (l : List α)
    (h : ∀ a ∈ l, ∃ c, f a = .ok c) (acc : ConnSet) :
    l.foldlM (uStep f) acc = .ok ((l.map (okOf f)).foldl ConnSet.union acc) := by
  induction l generalizing acc with
  | nil => rfl
  | cons a rest ih =>
    obtain ⟨c, hc⟩ := h a (List.mem_cons_self ..)
    rw [List.foldlM_cons]
    have : uStep f acc a = .ok (acc.union (okOf f a)) := by simp [uStep, okOf, hc, bind, Except.bind, pure, Except.pure]
    rw [this]
    exact ih (fun a' h' => h a' (List.mem_cons_of_mem _ h')) _

theorem foldlM_uStep_err {α : Type} (f : α → Except Err ConnSet) (l : List α) (acc : ConnSet)
    {err : Err} (h : l.foldlM (uStep f) acc = .error err) : ∃ a ∈ l, f a = .error err := by
  induction l generalizing acc with
  | nil => cases h
  | cons a rest ih =>
    rw [List.foldlM_cons] at h
    cases hc : f a with
    | error e' =>
      have : uStep f acc a = .error e' := by simp [uStep, hc, bind, Except.bind]
      rw [this] at h
      cases h
      exact ⟨a, List.mem_cons_self .., hc⟩
    | ok c =>
      have : uStep f acc a = .ok (acc.union c) := by simp [uStep, hc, bind, Except.bind, pure, Except.pure]
      rw [this] at h
      obtain ⟨a', ha', h'⟩ := ih _ h
      exact ⟨a', List.mem_cons_of_mem _ ha', h'⟩

theorem foldlM_uStep_ok_all {α : Type} (f : α → Except Err ConnSet) (l : List α) (acc : ConnSet)
    {res : ConnSet} (h : l.foldlM (uStep f) acc = .ok res) : ∀ a ∈ l, ∃ c, f a = .ok c := by
  induction l generalizing acc with
  | nil => intro a ha; cases ha
  | cons a rest ih =>
    rw [List.foldlM_cons] at h
    cases hc : f a with
    | error e' =>
      have : uStep f acc a = .error e' := by simp [uStep, hc, bind, Except.bind]
      rw [this] at h
      cases h
    | ok c =>
      have : uStep f acc a = .ok (acc.union c) := by simp [uStep, hc, bind, Except.bind, pure, Except.pure]
      rw [this] at h
      intro a' ha'
      rcases List.mem_cons.mp ha' with rfl | hm
      · exact ⟨c, hc⟩
      · exact ih _ h a' hm

/-- **a monadic fold of unions does not depend on the order of the list**, when the values are of
the class and all failures are the same error -/
theorem foldlM_uStep_perm {α : Type} (f : α → Except Err ConnSet) {l l' : List α} (hp : l.Perm l')
    (hok : ∀ a ∈ l, ∀ c, f a = .ok c → c.WFE ∧ NS c) (E : Err)
    (herr : ∀ a ∈ l, ∀ e, f a = .error e → e = E) :
    l.foldlM (uStep f) (ConnSet.mk' false) = l'.foldlM (uStep f) (ConnSet.mk' false) := by
  cases h : l.foldlM (uStep f) (ConnSet.mk' false) with
  | ok res =>
    have hall := foldlM_uStep_ok_all f l _ h
    have hall' : ∀ a ∈ l', ∃ c, f a = .ok c := fun a ha => hall a (hp.mem_iff.mpr ha)
    rw [foldlM_uStep_ok f l hall] at h
    rw [← h, foldlM_uStep_ok f l' hall']
    congr 1
    apply foldl_union_perm (hp.map _)
    intro c hc
    obtain ⟨a, ha, rfl⟩ := List.mem_map.mp hc
    obtain ⟨c', hc'⟩ := hall a ha
    have : okOf f a = c' := by simp [okOf, hc']
    rw [this]
    exact hok a ha c' hc'
  | error err =>
    obtain ⟨a, ha, hfa⟩ := foldlM_uStep_err f l _ h
    have e1 := herr a ha err hfa
    cases h' : l'.foldlM (uStep f) (ConnSet.mk' false) with
    | ok res' =>
      obtain ⟨c, hc⟩ := foldlM_uStep_ok_all f l' _ h' a (hp.mem_iff.mp ha)
      rw [hc] at hfa; cases hfa
    | error err' =>
      obtain ⟨a', ha', hfa'⟩ := foldlM_uStep_err f l' _ h'
      rw [e1, herr a' (hp.mem_iff.mpr ha') err' hfa']

/-! ## B. the connection sets of one policy -/

theorem foldl_union_ns (l : List ConnSet) (hl : ∀ c ∈ l, NS c) (acc : ConnSet) (hacc : NS acc) :
    NS (l.foldl ConnSet.union acc) := by
  induction l generalizing acc with
  | nil => exact hacc
  | cons c rest ih =>
    rw [List.foldl_cons]
    exact ih (fun c' h => hl c' (List.mem_cons_of_mem _ h)) _
      (ns_union hacc (hl c (List.mem_cons_self ..)))

/-- the port set of one port clause, whatever the destination: at most one name, nothing excluded -/
theorem portSetOf_pns (q : NPPort) (dst : Option KPeer) {ps : PortSet}
    (h : NetPol.portSetOf q dst = .ok ps) : PNS ps := by
  unfold NetPol.portSetOf at h
  split at h
  · cases h; exact pns_mk' true
  · cases hpr : NetPol.portsRange q dst with
    | error err => rw [hpr] at h; cases h
    | ok t =>
      obtain ⟨s, e, name⟩ := t
      rw [hpr] at h
      simp only [bind, Except.bind, pure, Except.pure, Except.ok.injEq] at h
      subst h
      have h1 : PNS ((PortSet.mk' false).addPort (.name name)) :=
        ⟨rfl, List.pairwise_singleton _ _⟩
      have key : ∀ b : Bool, PNS (if b = true then (PortSet.mk' false).addPort (.name name)
          else PortSet.mk' false) := by
        intro b; cases b
        · exact pns_mk' false
        · exact h1
      have rng : ∀ p : PortSet, PNS p → PNS (p.addPortRange s e) := fun p hp => hp
      split
      · exact rng _ (key _)
      · exact key _

theorem rcFold_ns (dst : Option KPeer) (ports : List NPPort) {c0 c : ConnSet} (h0 : NS c0)
    (h : ports.foldlM (NetPol.rcStep dst) c0 = .ok c) : NS c := by
  induction ports generalizing c0 with
  | nil => cases h; exact h0
  | cons q rest ih =>
    rw [List.foldlM_cons] at h
    cases hps : NetPol.portSetOf q dst with
    | error err =>
      have : NetPol.rcStep dst c0 q = .error err := by simp only [NetPol.rcStep, hps]; rfl
      rw [this] at h; cases h
    | ok ps =>
      have : NetPol.rcStep dst c0 q = .ok (c0.addConnection (q.proto.getD .TCP) ps) := by
        simp only [NetPol.rcStep, hps]; rfl
      rw [this] at h
      exact ih (ns_addConnection h0 _ (portSetOf_pns q dst hps)) h

theorem ruleConnections_ns (ports : List NPPort) (dst : Option KPeer) {c : ConnSet}
    (h : NetPol.ruleConnections ports dst = .ok c) : NS c := by
  rw [NetPol.ruleConnections_eq] at h
  split at h
  · cases h; exact ns_mk true
  · exact rcFold_ns dst ports (ns_mk false) h

theorem rcNone_ns (ports : List NPPort) : NS (NetPol.rcNone ports) :=
  ruleConnections_ns ports none (ruleConnections_none_eq' ports)

theorem scanPure_external_ns (np : NetPol) (d : Dir) : NS (scanPure np d).external := by
  rw [scanPure_external]
  apply foldl_union_ns _ _ _ (ns_mk false)
  intro c hc
  obtain ⟨r, _, rfl⟩ := List.mem_map.mp hc
  exact rcNone_ns _

theorem scanPure_clusterWide_ns (np : NetPol) (d : Dir) : NS (scanPure np d).clusterWide := by
  rw [scanPure_clusterWide]
  apply foldl_union_ns _ _ _ (ns_mk false)
  intro c hc
  obtain ⟨r, _, rfl⟩ := List.mem_map.mp hc
  exact rcNone_ns _

/-- the destinations of the exposure-mode evaluation: a real pod with legal container ports, an IP
block, or a representative peer -/
def DstX (k : KPeer) : Prop := k.DstOK ∨ ∃ rp ns, k = .pod rp ns ∧ RepWF rp

theorem ruleConnections_dstX_ok {dst : KPeer} (hd : DstX dst) (ports : List NPPort)
    (hv : ∀ q ∈ ports, q.Valid) {c : ConnSet} (h : NetPol.ruleConnections ports (some dst) = .ok c) :
    c.WFE := by
  rcases hd with hd | ⟨rp, ns, rfl, hrp⟩
  · exact (NetPol.ruleConnections_dst_ok ports dst 0 hd hv c h).1
  · rw [NetPol.ruleConnections_repr ports rp ns hrp.isRepr hrp.ports] at h
    obtain ⟨c', hc', hw, _⟩ := NetPol.ruleConnections_none ports hv
    rw [hc'] at h; cases h
    exact hw

theorem ruleConnections_dstX_err {dst : KPeer} (hd : DstX dst) (ports : List NPPort)
    (hv : ∀ q ∈ ports, q.Valid) {e : Err} (h : NetPol.ruleConnections ports (some dst) = .error e) :
    e = .namedPortOnIP := by
  rcases hd with hd | ⟨rp, ns, rfl, hrp⟩
  · exact (NetPol.ruleConnections_dst_err ports dst hd hv e h).1
  · rw [NetPol.ruleConnections_repr ports rp ns hrp.isRepr hrp.ports,
      ruleConnections_none_eq' ports] at h
    cases h

open NetPol.allowedConns in
/-- the only failure of `allowedConns` over valid rules is a failure of `ruleConnections` -/
theorem allowedConns_go_err (np : NetPol) (other dst : KPeer) (rules : List NPRule)
    (hsel : ∀ r ∈ rules, ∀ rp ∈ r.peers, rp ≠ .sel none none) (res : ConnSet) {e : Err}
    (h : NetPol.allowedConns.go np other dst res rules = .error e) :
    ∃ r ∈ rules, NetPol.ruleConnections r.ports (some dst) = .error e := by
  induction rules generalizing res with
  | nil => rw [NetPol.allowedConns.go_nil] at h; cases h
  | cons r rest ih =>
    have hsel' : ∀ r' ∈ rest, ∀ rp ∈ r'.peers, rp ≠ .sel none none :=
      fun r' h' => hsel r' (List.mem_cons_of_mem _ h')
    rw [NetPol.allowedConns.go_cons, NetPol.ruleSelectsPeer_eq_selOf np other r (hsel r (List.mem_cons_self ..))] at h
    simp only [bind, Except.bind] at h
    cases hS : NetPol.selOf np other r
    · simp only [hS, Bool.not_false, if_true] at h
      obtain ⟨r', hr', h'⟩ := ih hsel' res h
      exact ⟨r', List.mem_cons_of_mem _ hr', h'⟩
    · simp only [hS, Bool.not_true, Bool.false_eq_true, if_false] at h
      cases hrc : NetPol.ruleConnections r.ports (some dst) with
      | error e' =>
        rw [hrc] at h
        cases h
        exact ⟨r, List.mem_cons_self .., hrc⟩
      | ok rc =>
        rw [hrc] at h
        obtain ⟨r', hr', h'⟩ := ih hsel' _ h
        exact ⟨r', List.mem_cons_of_mem _ hr', h'⟩

/-- **one policy**: the exposure-mode connections of a policy towards an admissible destination are
well-formed and of the class; the only failure is the named port towards an IP block -/
theorem policyConns_struct (np : NetPol) (src dst : KPeer) (i : Bool)
    (hv : ∀ r ∈ Spec.npRules np (dirOf i), r.Valid) (hd : DstX dst) :
    (∀ c, policyConns np src dst i = .ok c → c.WFE ∧ NS c) ∧
    (∀ e, policyConns np src dst i = .error e → e = .namedPortOnIP) := by
  have hvp : ∀ r ∈ Spec.npRules np (dirOf i), ∀ q ∈ r.ports, q.Valid := fun r hr => (hv r hr).1
  have S := scanSpec np (dirOf i) hvp
  rw [policyConns_eq np src dst i hvp]
  split
  · exact ⟨fun c h => (by cases h; exact ⟨S.extWF.wfe, scanPure_external_ns _ _⟩),
      fun e h => (by cases h)⟩
  · split
    · exact ⟨fun c h => (by cases h; exact ⟨S.cwWF.wfe, scanPure_clusterWide_ns _ _⟩),
        fun e h => (by cases h)⟩
    · rw [npStep_eq_allowedConns]
      unfold NetPol.allowedConns
      constructor
      · intro c h
        constructor
        · refine NetPol.allowedConns_go_inv np _ dst ConnSet.WFE (fun a b => wfe_union) _ ?_ _
            (ConnSet.wf_mk false).wfe c h
          intro r hr rc hrc
          exact ruleConnections_dstX_ok hd r.ports (hvp r hr) hrc
        · refine NetPol.allowedConns_go_inv np _ dst NS (fun a b => ns_union) _ ?_ _
            (ns_mk false) c h
          intro r hr rc hrc
          exact ruleConnections_ns r.ports _ hrc
      · intro e h
        obtain ⟨r, hr, hrc⟩ := allowedConns_go_err np _ dst _ (fun r hr => (hv r hr).2) _ h
        exact ruleConnections_dstX_err hd r.ports (hvp r hr) hrc

/-! ## C. the evaluation on engines whose policies are permuted -/

theorem xFold_eq_uStep (src dst : KPeer) (i : Bool) :
    xFold src dst i = uStep (fun np => policyConns np src dst i) := rfl

theorem policiesSelecting_perm {e e' : Engine} (hp : e.netpols.Perm e'.netpols) (k : KPeer)
    (d : Dir) : (e.policiesSelecting k d).Perm (e'.policiesSelecting k d) := by
  cases k with
  | ip r => exact List.Perm.refl _
  | pod p ns =>
    rw [Engine.policiesSelecting_pod, Engine.policiesSelecting_pod]
    exact (Engine.sortByName_perm _).trans ((hp.filter _).trans (Engine.sortByName_perm _).symm)

theorem mem_policiesSelecting' {e : Engine} {k : KPeer} {d : Dir} {np : NetPol}
    (h : np ∈ e.policiesSelecting k d) : np ∈ e.netpols := by
  exact Engine.policiesSelecting_sub h

/-- **one direction, permuted policies**: the same connection set or the same error -/
theorem xgressConns_perm {e e' : Engine} (hp : e.netpols.Perm e'.netpols) (hv : NpValid e)
    (src dst : KPeer) (hd : DstX dst) (i : Bool) :
    Exposure.xgressConns e src dst i = Exposure.xgressConns e' src dst i := by
  rw [xgressConns_eq, xgressConns_eq]
  have hpol := policiesSelecting_perm hp (selfPeer src dst i) (dirOf i)
  rw [hpol.isEmpty_eq]
  split
  · rfl
  · rw [xFold_eq_uStep]
    apply foldlM_uStep_perm _ hpol _ .namedPortOnIP
    · intro np hnp e1 he1
      exact (policyConns_struct np src dst i (hv.rules (mem_policiesSelecting' hnp) _) hd).2 e1 he1
    · intro np hnp c hc
      exact (policyConns_struct np src dst i (hv.rules (mem_policiesSelecting' hnp) _) hd).1 c hc

/-- **one pair, permuted policies** -/
theorem peerConns_perm {e e' : Engine} (hp : e.netpols.Perm e'.netpols) (hv : NpValid e)
    (src dst : KPeer) (hd : DstX dst) :
    Exposure.peerConns e src dst = Exposure.peerConns e' src dst := by
  rw [Exposure.peerConns_eq, Exposure.peerConns_eq, xgressConns_perm hp hv src dst hd false,
    xgressConns_perm hp hv src dst hd true]

theorem isProtected_perm {e e' : Engine} (hp : e.netpols.Perm e'.netpols) (pod : Pod) (i : Bool) :
    isProtected e pod i = isProtected e' pod i := by
  unfold isProtected
  exact hp.any_eq

/-! `checkAndConvertNamedPortsInConnection` keeps the class: a converted name leaves the named
ports, its number joins the numeric ports, nothing is excluded -/

theorem ssorted_serase (s : String) {l : List String} (h : SSorted l) : SSorted (serase s l) := by
  unfold SSorted serase at *
  exact h.filter _

theorem ns_replaceNamedPort {c c' : ConnSet} (hc : NS c) (pr : Proto) (name : String) (num : Int)
    (h : c.replaceNamedPort pr name num = some c') : NS c' := by
  unfold ConnSet.replaceNamedPort at h
  cases hg : c.get pr with
  | none => rw [hg] at h; cases h
  | some ps =>
    rw [hg] at h
    simp only [Option.some.injEq] at h
    subst h
    have hps := hc pr ps hg
    intro pr' ps' hg'
    rw [ConnSet.get_set] at hg'
    split at hg'
    · cases hg'
      split
      · exact ⟨hps.1, ssorted_serase name hps.2⟩
      · exact ⟨hps.1, ssorted_serase name hps.2⟩
    · exact hc _ _ hg'

theorem ns_cnStep (pod : Pod) (pr : Proto) {acc : ConnSet} (hacc : NS acc) (name : String) :
    NS (cnStep pod pr acc name) := by
  unfold cnStep
  cases pod.convertNamedPort name with
  | none => exact hacc
  | some t =>
    obtain ⟨ppr, n⟩ := t
    simp only []
    split
    · cases hr : acc.replaceNamedPort pr name n with
      | none => exact hacc
      | some c' => exact ns_replaceNamedPort hacc pr name n hr
    · exact hacc

theorem ns_cnFold (pod : Pod) (pr : Proto) (names : List String) {acc : ConnSet} (hacc : NS acc) :
    NS (names.foldl (cnStep pod pr) acc) := by
  induction names generalizing acc with
  | nil => exact hacc
  | cons nm rest ih => exact ih (ns_cnStep pod pr hacc nm)

theorem ns_convertNamedPorts (pod : Pod) {c : ConnSet} (hc : NS c) : NS (convertNamedPorts pod c) := by
  rw [convertNamedPorts_eq]
  exact ns_cnFold _ _ _ (ns_cnFold _ _ _ (ns_cnFold _ _ _ hc))

theorem cwOf_struct (pod : Pod) (hp : pod.ValidPorts) (i : Bool) (np : NetPol)
    (hv : ∀ r ∈ Spec.npRules np (dirOf i), ∀ q ∈ r.ports, q.Valid) :
    (cwOf pod i np).WFE ∧ NS (cwOf pod i np) := by
  refine ⟨(cwOf_spec pod hp i np hv).1.wfe, ?_⟩
  unfold cwOf
  split
  · exact ns_convertNamedPorts pod (scanPure_clusterWide_ns _ _)
  · exact scanPure_clusterWide_ns _ _

/-- **the cluster-wide connection of a pod, permuted policies** -/
theorem clusterWideConn_perm {e e' : Engine} (hp : e.netpols.Perm e'.netpols) (hv : NpValid e)
    (pod : Pod) (hpod : pod.ValidPorts) (i : Bool) :
    clusterWideConn e pod i = clusterWideConn e' pod i := by
  have hv' : NpValid e' := fun np h => hv np (hp.mem_iff.mpr h)
  rw [clusterWideConn_eq e hv, clusterWideConn_eq e' hv']
  congr 1
  apply foldl_union_perm ((hp.filter _).map _)
  intro c hc'
  obtain ⟨np, hnp, rfl⟩ := List.mem_map.mp hc'
  obtain ⟨h1, _⟩ := List.mem_filter.mp hnp
  exact cwOf_struct pod hpod i np (fun r hr => (hv.rules h1 _ r hr).1)

/-- two engines on which the exposure-mode evaluation agrees: what sections E and F read of the
policies of an engine -/
structure EvalSim (e e' : Engine) : Prop where
  peerConns : ∀ src dst, DstX dst → Exposure.peerConns e src dst = Exposure.peerConns e' src dst
  isProtected : ∀ pod i, isProtected e pod i = isProtected e' pod i
  cw : ∀ pod, pod.ValidPorts → ∀ i, clusterWideConn e pod i = clusterWideConn e' pod i
  blocks : e.disjointIPBlocks = e'.disjointIPBlocks

theorem evalSim_of_perm {e e' : Engine} (hp : e.netpols.Perm e'.netpols) (hv : NpValid e) :
    EvalSim e e' :=
  ⟨fun src dst hd => peerConns_perm hp hv src dst hd, fun pod i => isProtected_perm hp pod i,
    fun pod hpod i => clusterWideConn_perm hp hv pod hpod i, PermLayer.disjointIPBlocks_perm hp⟩

/-! ## D. `Exposure.build` under a permutation of the objects

### D1. acceptance -/

/-- the step of the insertion fold succeeds -/
def stepOK (nps : List NetPol) (o : Obj) : Bool :=
  match o with
  | .np p => !(nps.any fun q => q.ns == (npDefaulted p).ns && q.name == (npDefaulted p).name)
  | .pod p => p.hostIP != ""
  | .anp _ | .banp _ => false
  | _ => true

theorem bstep_isOk (x : XEngine) (hx : x.eng.exposure = true) (o : Obj) :
    (∃ x', bstep x o = .ok x') ↔ stepOK x.eng.netpols o = true := by
  cases o with
  | np p =>
    show (∃ x', (x.eng.insertNetpol p >>= _) = .ok x') ↔
      (!(x.eng.netpols.any fun q =>
        q.ns == (npDefaulted p).ns && q.name == (npDefaulted p).name)) = true
    cases hany : (x.eng.netpols.any fun q =>
        q.ns == (npDefaulted p).ns && q.name == (npDefaulted p).name)
    · have : x.eng.insertNetpol p = .ok { x.eng with netpols := x.eng.netpols ++ [npDefaulted p] } := by
        unfold insertNetpol
        unfold npDefaulted at hany
        simp only [hany, Bool.false_eq_true, if_false]
        rfl
      rw [this]
      exact ⟨fun _ => rfl, fun _ => ⟨_, rfl⟩⟩
    · have : x.eng.insertNetpol p = .error .dupNetpol := by
        unfold insertNetpol
        unfold npDefaulted at hany
        simp only [hany, if_true]
      rw [this]
      constructor
      · rintro ⟨x', h⟩
        cases h
      · intro h
        cases h
  | wl w => simp [bstep, stepOK, pure, Except.pure]
  | pod p =>
    unfold bstep stepOK
    by_cases h : p.hostIP = ""
    · simp [h]
    · simp [h, pure, Except.pure]
  | ns n => simp [bstep, stepOK, insertObject, bind, Except.bind, pure, Except.pure]
  | anp a => simp [bstep, stepOK, insertObject, insertANP, hx, bind, Except.bind]
  | banp b => simp [bstep, stepOK, insertObject, insertBANP, hx, bind, Except.bind]
  | svc s => simp [bstep, stepOK, insertObject, bind, Except.bind, pure, Except.pure]
  | ing i => simp [bstep, stepOK, insertObject, bind, Except.bind, pure, Except.pure]
  | route r => simp [bstep, stepOK, insertObject, bind, Except.bind, pure, Except.pure]

theorem bstep_netpols {x x' : XEngine} {o : Obj} (h : bstep x o = .ok x') :
    x'.eng.netpols = Exposure.npStep x.eng.netpols o := by
  cases o with
  | np p =>
    unfold bstep at h
    cases hins : x.eng.insertNetpol p with
    | error err => simp [hins, bind, Except.bind] at h
    | ok e =>
      simp only [hins, bind, Except.bind, pure, Except.pure] at h
      have he := insertNetpol_ok hins
      subst he
      cases h
      simp only []
      split <;> rfl
  | wl w =>
    unfold bstep at h
    simp only [pure, Except.pure] at h
    cases h
    exact (polFields_netpols' ((ensureNs_fields _ _).trans
      (Structure.polFields_insertWorkload x.eng w))).1
  | pod p =>
    unfold bstep at h
    simp only [pure, Except.pure] at h
    split at h
    · cases h
    · cases h
      exact (polFields_netpols' ((ensureNs_fields _ _).trans
        (Structure.polFields_insertPodObj x.eng p))).1
  | ns n =>
    unfold bstep at h
    simp only [insertObject, bind, Except.bind, pure, Except.pure] at h
    cases h; rfl
  | anp a =>
    unfold bstep at h
    cases hio : x.eng.insertObject (.anp a) with
    | error err => simp [hio, bind, Except.bind] at h
    | ok e =>
      simp only [hio, bind, Except.bind, pure, Except.pure] at h
      cases h
      have := Structure.insertObject_ok hio
      simp only [] at this
      exact congrArg (·.1) this.2.2
  | banp b =>
    unfold bstep at h
    cases hio : x.eng.insertObject (.banp b) with
    | error err => simp [hio, bind, Except.bind] at h
    | ok e =>
      simp only [hio, bind, Except.bind, pure, Except.pure] at h
      cases h
      have := Structure.insertObject_ok hio
      simp only [] at this
      exact congrArg (·.1) this.2.2.2
  | svc _ =>
    unfold bstep at h
    simp only [insertObject, bind, Except.bind, pure, Except.pure] at h
    cases h; rfl
  | ing _ =>
    unfold bstep at h
    simp only [insertObject, bind, Except.bind, pure, Except.pure] at h
    cases h; rfl
  | route _ =>
    unfold bstep at h
    simp only [insertObject, bind, Except.bind, pure, Except.pure] at h
    cases h; rfl

/-- the whole fold succeeds -/
def foldOK : List NetPol → List Obj → Prop
  | _, [] => True
  | nps, o :: l => stepOK nps o = true ∧ foldOK (Exposure.npStep nps o) l

theorem foldlM_bstep_isOk (l : List Obj) (x : XEngine) (hx : x.eng.exposure = true) :
    (∃ x', l.foldlM bstep x = .ok x') ↔ foldOK x.eng.netpols l := by
  induction l generalizing x with
  | nil => exact ⟨fun _ => trivial, fun _ => ⟨x, rfl⟩⟩
  | cons o l ih =>
    rw [List.foldlM_cons]
    constructor
    · rintro ⟨x', h⟩
      cases h1 : bstep x o with
      | error err => simp [h1, bind, Except.bind] at h
      | ok x1 =>
        simp only [h1, bind, Except.bind] at h
        refine ⟨(bstep_isOk x hx o).mp ⟨x1, h1⟩, ?_⟩
        rw [← bstep_netpols h1]
        exact (ih x1 ((bstep_expo h1).trans hx)).mp ⟨x', h⟩
    · rintro ⟨h1, h2⟩
      obtain ⟨x1, hx1⟩ := (bstep_isOk x hx o).mpr h1
      rw [← bstep_netpols hx1] at h2
      obtain ⟨x', hx'⟩ := (ih x1 ((bstep_expo hx1).trans hx)).mpr h2
      exact ⟨x', by simp only [hx1, bind, Except.bind]; exact hx'⟩

/-- the key under which a stored policy is filed -/
def nk (q : NetPol) : String × String := (q.ns, q.name)

/-- an object the insertion accepts whatever the engine holds -/
def basicOK (o : Obj) : Bool :=
  match o with
  | .pod p => p.hostIP != ""
  | .anp _ | .banp _ => false
  | _ => true

theorem any_key_iff (nps : List NetPol) (p : NetPol) :
    (nps.any fun q => q.ns == p.ns && q.name == p.name) = true ↔ nk p ∈ nps.map nk := by
  simp only [List.any_eq_true, Bool.and_eq_true, beq_iff_eq, List.mem_map, nk, Prod.mk.injEq]

/-- acceptance as a property of the multiset of objects -/
theorem foldOK_iff (l : List Obj) (nps : List NetPol) :
    foldOK nps l ↔ (∀ o ∈ l, basicOK o = true) ∧
      (∀ p ∈ npsOf l, nk (npDefaulted p) ∉ nps.map nk) ∧
      ((npsOf l).map (fun p => nk (npDefaulted p))).Nodup := by
  induction l generalizing nps with
  | nil => simp [foldOK, npsOf]
  | cons o l ih =>
    show (stepOK nps o = true ∧ foldOK (Exposure.npStep nps o) l) ↔ _
    rw [ih]
    cases o with
    | np p =>
      have hn : npsOf (Obj.np p :: l) = p :: npsOf l := rfl
      have hs : stepOK nps (.np p) = true ↔ nk (npDefaulted p) ∉ nps.map nk := by
        rw [← any_key_iff]
        unfold stepOK
        simp
      have hstep : Exposure.npStep nps (.np p) = nps ++ [npDefaulted p] := rfl
      have hmem : ∀ k, k ∈ (nps ++ [npDefaulted p]).map nk ↔ k ∈ nps.map nk ∨ k = nk (npDefaulted p) := by
        intro k; simp [List.map_append]
      rw [hn, hs, hstep, List.map_cons, List.nodup_cons]
      constructor
      · rintro ⟨h1, h2, h3, h4⟩
        refine ⟨?_, ?_, ?_, h4⟩
        · intro o ho
          rcases List.mem_cons.mp ho with rfl | ho'
          · rfl
          · exact h2 o ho'
        · intro q hq
          rcases List.mem_cons.mp hq with rfl | hq'
          · exact h1
          · exact fun hm => h3 q hq' ((hmem _).mpr (Or.inl hm))
        · intro hm
          obtain ⟨q, hq, heq⟩ := List.mem_map.mp hm
          exact h3 q hq ((hmem _).mpr (Or.inr heq))
      · rintro ⟨h2, h3, h5, h4⟩
        refine ⟨h3 p (List.mem_cons_self ..), fun o ho => h2 o (List.mem_cons_of_mem _ ho), ?_, h4⟩
        intro q hq hm
        rcases (hmem _).mp hm with hm | hm
        · exact h3 q (List.mem_cons_of_mem _ hq) hm
        · exact h5 (List.mem_map.mpr ⟨q, hq, hm⟩)
    | pod p =>
      have hn : npsOf (Obj.pod p :: l) = npsOf l := rfl
      rw [hn]
      simp only [stepOK, Exposure.npStep, List.mem_cons, forall_eq_or_imp, basicOK]
      constructor
      · rintro ⟨h1, h2, h3⟩; exact ⟨⟨h1, h2⟩, h3⟩
      · rintro ⟨⟨h1, h2⟩, h3⟩; exact ⟨h1, h2, h3⟩
    | anp a => simp [stepOK, basicOK]
    | banp b => simp [stepOK, basicOK]
    | wl _ | ns _ | svc _ | ing _ | route _ =>
      simp only [stepOK, Exposure.npStep, List.mem_cons, forall_eq_or_imp, basicOK, true_and]
      rfl

theorem npsOf_filter_polNs (objs : List Obj) : npsOf (objs.filter isPolNs) = npsOf objs := by
  induction objs with
  | nil => rfl
  | cons o l ih =>
    cases o with
    | np p =>
      rw [List.filter_cons_of_pos (by simp [isPolNs])]
      show p :: npsOf _ = p :: npsOf l
      rw [ih]
    | ns n => rw [List.filter_cons_of_pos (by simp [isPolNs])]; exact ih
    | wl _ | pod _ | anp _ | banp _ | svc _ | ing _ | route _ =>
      rw [List.filter_cons_of_neg (by simp [isPolNs])]; exact ih

theorem npsOf_filter_rest (objs : List Obj) : npsOf (objs.filter (fun o => !isPolNs o)) = [] := by
  induction objs with
  | nil => rfl
  | cons o l ih =>
    cases o with
    | np _ | ns _ => rw [List.filter_cons_of_neg (by simp [isPolNs])]; exact ih
    | wl _ | pod _ | anp _ | banp _ | svc _ | ing _ | route _ =>
      rw [List.filter_cons_of_pos (by simp [isPolNs])]; exact ih

/-- what `Exposure.build` accepts: no AdminNetworkPolicy objects, no pod without host IP, no two
NetworkPolicies with the same name in the same namespace — a property of the multiset of objects -/
def XBuildOK (objs : List Obj) : Prop :=
  (∀ o ∈ objs, basicOK o = true) ∧ ((npsOf objs).map (fun p => nk (npDefaulted p))).Nodup

theorem XBuildOK.perm {objs objs' : List Obj} (hp : objs.Perm objs') (h : XBuildOK objs) :
    XBuildOK objs' :=
  ⟨fun o ho => h.1 o (hp.mem_iff.mpr ho), (((PermLayer.npsOf_perm hp).map _).nodup_iff).mp h.2⟩

theorem build_isOk_iff (objs : List Obj) : (∃ x, Exposure.build objs = .ok x) ↔ XBuildOK objs := by
  rw [Exposure.build_eq]
  constructor
  · rintro ⟨x, h⟩
    cases h1 : (objs.filter isPolNs).foldlM bstep x0 with
    | error err => simp [h1, bind, Except.bind] at h
    | ok x1 =>
      simp only [h1, bind, Except.bind] at h
      have e1 := (foldlM_bstep_noadmin _ x0 x1 rfl h1).2
      have f1 := (foldOK_iff _ _).mp ((foldlM_bstep_isOk _ x0 rfl).mp ⟨x1, h1⟩)
      have f2 := (foldOK_iff _ _).mp ((foldlM_bstep_isOk _ x1 e1).mp ⟨x, h⟩)
      rw [npsOf_filter_polNs] at f1
      refine ⟨?_, f1.2.2⟩
      intro o ho
      cases hpn : isPolNs o
      · exact f2.1 o (List.mem_filter.mpr ⟨ho, by simp [hpn]⟩)
      · exact f1.1 o (List.mem_filter.mpr ⟨ho, hpn⟩)
  · rintro ⟨h1, h2⟩
    have f1 : foldOK x0.eng.netpols (objs.filter isPolNs) := by
      rw [foldOK_iff, npsOf_filter_polNs]
      refine ⟨fun o ho => h1 o (List.mem_filter.mp ho).1, ?_, h2⟩
      intro p _ hm
      cases hm
    obtain ⟨x1, hx1⟩ := (foldlM_bstep_isOk _ x0 rfl).mpr f1
    have e1 := (foldlM_bstep_noadmin _ x0 x1 rfl hx1).2
    have f2 : foldOK x1.eng.netpols (objs.filter (fun o => !isPolNs o)) := by
      rw [foldOK_iff, npsOf_filter_rest]
      refine ⟨fun o ho => h1 o (List.mem_filter.mp ho).1, ?_, List.nodup_nil⟩
      intro p hp
      cases hp
    obtain ⟨x, hx⟩ := (foldlM_bstep_isOk _ x1 e1).mpr f2
    exact ⟨x, by simp only [hx1, bind, Except.bind]; exact hx⟩

/-- **acceptance by `Exposure.build` does not depend on the order of the objects** -/
theorem build_isOk_perm {objs objs' : List Obj} (hp : objs.Perm objs') :
    (∃ x, Exposure.build objs = .ok x) ↔ (∃ x, Exposure.build objs' = .ok x) := by
  rw [build_isOk_iff, build_isOk_iff]
  exact ⟨XBuildOK.perm hp, XBuildOK.perm hp.symm⟩

/-! ### D2. the representative peers: one candidate per rule selector pair, the least spelling per key -/

/-- `addRepresentativePod` on a (key, pod) candidate -/
def addCand (reps : List (String × Pod)) (c : String × Pod) : List (String × Pod) :=
  match reps.find? (·.1 == c.1) with
  | some (_, old) =>
    if spelling c.2 < spelling old then reps.map fun kp => if kp.1 == c.1 then c else kp
    else reps
  | none => reps ++ [c]

/-- the candidates of one (defaulted) policy, in rule order -/
def cands (p : NetPol) : List (String × Pod) :=
  (allSels p).map fun rs => (keyOf p.ns rs, newRep p.ns rs)

/-- the candidates of the policies of a list of objects, in input order -/
def candsOf (l : List Obj) : List (String × Pod) :=
  (npsOf l).flatMap fun p => cands (npDefaulted p)

theorem addRepresentative_eq_addCand (reps : List (String × Pod)) (ns : String) (rs : RuleSel) :
    addRepresentative reps ns rs = addCand reps (keyOf ns rs, newRep ns rs) := by
  rw [addRepresentative_eq]
  rfl

theorem addAll_eq (reps : List (String × Pod)) (ns : String) (sels : List RuleSel) :
    addAll reps ns sels =
      (sels.map fun rs => (keyOf ns rs, newRep ns rs)).foldl addCand reps := by
  unfold addAll
  induction sels generalizing reps with
  | nil => rfl
  | cons rs rest ih =>
    rw [List.foldl_cons, List.map_cons, List.foldl_cons, ih, addRepresentative_eq_addCand]

theorem bstep_polNs_reps {x x' : XEngine} {o : Obj} (ho : isPolNs o = true)
    (h : bstep x o = .ok x') : x'.reps = (candsOf [o]).foldl addCand x.reps := by
  cases o with
  | np p =>
    unfold bstep at h
    cases hins : x.eng.insertNetpol p with
    | error err => simp [hins, bind, Except.bind] at h
    | ok e =>
      simp only [hins, bind, Except.bind, pure, Except.pure] at h
      cases h
      show addAll x.reps (npDefaulted p).ns (allSels (npDefaulted p)) = _
      rw [addAll_eq]
      simp [candsOf, npsOf, cands]
  | ns n =>
    unfold bstep at h
    simp only [insertObject, bind, Except.bind, pure, Except.pure] at h
    cases h; rfl
  | wl _ | pod _ | anp _ | banp _ | svc _ | ing _ | route _ => simp [isPolNs] at ho

theorem candsOf_cons (o : Obj) (l : List Obj) : candsOf (o :: l) = candsOf [o] ++ candsOf l := by
  unfold candsOf
  cases o <;> simp [npsOf]

/-- phase 1: the representative peers are the candidates of the policies, added in input order -/
theorem phase1_reps (l : List Obj) (hl : ∀ o ∈ l, isPolNs o = true) {x x' : XEngine}
    (h : l.foldlM bstep x = .ok x') : x'.reps = (candsOf l).foldl addCand x.reps := by
  induction l generalizing x with
  | nil => cases h; rfl
  | cons o l ih =>
    rw [List.foldlM_cons] at h
    cases h1 : bstep x o with
    | error err => simp [h1, bind, Except.bind] at h
    | ok x1 =>
      simp only [h1, bind, Except.bind] at h
      rw [ih (fun o' ho' => hl o' (List.mem_cons_of_mem _ ho')) h, candsOf_cons, List.foldl_append,
        bstep_polNs_reps (hl o (List.mem_cons_self ..)) h1]

/-- what the fold of `addCand` over the candidates `C` returns: one entry per key, a candidate of
least spelling -/
structure RepsSpec (C R : List (String × Pod)) : Prop where
  nodup : (R.map (·.1)).Nodup
  sub : ∀ c ∈ R, c ∈ C
  min : ∀ c ∈ R, ∀ c' ∈ C, c'.1 = c.1 → spelling c.2 ≤ spelling c'.2
  cover : ∀ c' ∈ C, ∃ c ∈ R, c.1 = c'.1

theorem String.le_of_lt' {a b : String} (h : a < b) : a ≤ b :=
  String.not_lt.mp (String.lt_asymm h)

theorem String.le_trans' {a b c : String} (h1 : a ≤ b) (h2 : b ≤ c) : a ≤ c := String.le_trans h1 h2

theorem map_replace_keys (R : List (String × Pod)) (c : String × Pod) :
    (R.map fun kp => if kp.1 == c.1 then c else kp).map (·.1) = R.map (·.1) := by
  induction R with
  | nil => rfl
  | cons kp rest ih =>
    simp only [List.map_cons, ih]
    congr 1
    split
    · rename_i h; exact (beq_iff_eq.mp h).symm
    · rfl

theorem repsSpec_addCand {C R : List (String × Pod)} (h : RepsSpec C R) (c : String × Pod) :
    RepsSpec (C ++ [c]) (addCand R c) := by
  unfold addCand
  cases hf : R.find? (·.1 == c.1) with
  | none =>
    have hnk : ∀ kp ∈ R, kp.1 ≠ c.1 := by
      intro kp hkp heq
      have := List.find?_eq_none.mp hf kp hkp
      simp [heq] at this
    simp only []
    refine ⟨?_, ?_, ?_, ?_⟩
    · rw [List.map_append, List.nodup_append]
      refine ⟨h.nodup, by simp, ?_⟩
      intro a ha b hb hab
      obtain ⟨kp, hkp, rfl⟩ := List.mem_map.mp ha
      simp only [List.map_cons, List.map_nil, List.mem_singleton] at hb
      exact hnk kp hkp (hab.trans hb)
    · intro d hd
      rcases List.mem_append.mp hd with hd | hd
      · exact List.mem_append_left _ (h.sub d hd)
      · exact List.mem_append_right _ hd
    · intro d hd d' hd' hk
      rcases List.mem_append.mp hd with hd1 | hd1
      · rcases List.mem_append.mp hd' with hd2 | hd2
        · exact h.min d hd1 d' hd2 hk
        · rw [List.mem_singleton] at hd2
          rw [hd2] at hk
          exact absurd hk.symm (hnk d hd1)
      · rw [List.mem_singleton] at hd1
        rcases List.mem_append.mp hd' with hd2 | hd2
        · obtain ⟨kp, hkp, hkk⟩ := h.cover d' hd2
          rw [hd1] at hk
          exact absurd (hkk.trans hk) (hnk kp hkp)
        · rw [List.mem_singleton] at hd2
          rw [hd1, hd2]
          exact String.le_refl _
    · intro d' hd'
      rcases List.mem_append.mp hd' with hd' | hd'
      · obtain ⟨kp, hkp, hkk⟩ := h.cover d' hd'
        exact ⟨kp, List.mem_append_left _ hkp, hkk⟩
      · exact ⟨d', List.mem_append_right _ hd', rfl⟩
  | some kold =>
    obtain ⟨k, old⟩ := kold
    have hold : (k, old) ∈ R := List.mem_of_find?_eq_some hf
    have hk : k = c.1 := by simpa using List.find?_some hf
    subst hk
    simp only []
    split
    · rename_i hlt
      -- the new candidate replaces the old entry
      refine ⟨?_, ?_, ?_, ?_⟩
      · rw [map_replace_keys]; exact h.nodup
      · intro d hd
        obtain ⟨kp, hkp, rfl⟩ := List.mem_map.mp hd
        split
        · exact List.mem_append_right _ (List.mem_singleton.mpr rfl)
        · exact List.mem_append_left _ (h.sub kp hkp)
      · intro d hd d' hd' hkk
        obtain ⟨kp, hkp, rfl⟩ := List.mem_map.mp hd
        split at hkk
        · rename_i hkc
          simp only [hkc, if_true]
          rcases List.mem_append.mp hd' with hd' | hd'
          · exact String.le_trans' (String.le_of_lt' hlt) (h.min _ hold d' hd' hkk)
          · rw [List.mem_singleton] at hd'
            subst hd'
            exact String.le_refl _
        · rename_i hkc
          simp only [hkc]
          rcases List.mem_append.mp hd' with hd' | hd'
          · exact h.min kp hkp d' hd' hkk
          · rw [List.mem_singleton] at hd'
            subst hd'
            exact absurd (by simpa using hkk.symm) hkc
      · intro d' hd'
        have : ∃ kp ∈ R, kp.1 = d'.1 := by
          rcases List.mem_append.mp hd' with hd' | hd'
          · exact h.cover d' hd'
          · rw [List.mem_singleton] at hd'
            subst hd'
            exact ⟨_, hold, rfl⟩
        obtain ⟨kp, hkp, hkk⟩ := this
        refine ⟨_, List.mem_map.mpr ⟨kp, hkp, rfl⟩, ?_⟩
        split
        · rename_i hkc
          rw [← hkk]; exact (beq_iff_eq.mp hkc).symm
        · exact hkk
    · rename_i hnlt
      refine ⟨h.nodup, fun d hd => List.mem_append_left _ (h.sub d hd), ?_, ?_⟩
      · intro d hd d' hd' hkk
        rcases List.mem_append.mp hd' with hd' | hd'
        · exact h.min d hd d' hd' hkk
        · rw [List.mem_singleton] at hd'
          subst hd'
          -- `d` is the old entry of that key
          have : d = (d'.1, old) :=
            PermLayer.eq_of_key_eq (key := fun kp : String × Pod => kp.1) h.nodup hd hold hkk.symm
          subst this
          exact String.not_lt.mp hnlt
      · intro d' hd'
        rcases List.mem_append.mp hd' with hd' | hd'
        · exact h.cover d' hd'
        · rw [List.mem_singleton] at hd'
          subst hd'
          exact ⟨_, hold, rfl⟩

theorem repsSpec_foldl (l : List (String × Pod)) {C R : List (String × Pod)} (h : RepsSpec C R) :
    RepsSpec (C ++ l) (l.foldl addCand R) := by
  induction l generalizing C R with
  | nil => simpa using h
  | cons c rest ih =>
    rw [List.foldl_cons]
    have := ih (repsSpec_addCand h c)
    simpa using this

theorem repsSpec_nil : RepsSpec [] [] :=
  ⟨List.nodup_nil, fun _ h => absurd h List.not_mem_nil, fun _ h => absurd h List.not_mem_nil,
    fun _ h => absurd h List.not_mem_nil⟩

/-- spellings tell the candidates of one key apart: two rule selector pairs with the same map key
and the same spelling generate the same representative pod -/
def SpellInj (C : List (String × Pod)) : Prop :=
  ∀ c ∈ C, ∀ c' ∈ C, c.1 = c'.1 → spelling c.2 = spelling c'.2 → c = c'

/-- the entries are determined by the set of candidates -/
theorem repsSpec_perm {C C' R R' : List (String × Pod)} (h : RepsSpec C R) (h' : RepsSpec C' R')
    (hC : ∀ c, c ∈ C ↔ c ∈ C') (hinj : SpellInj C) : R.Perm R' := by
  have sub : ∀ {C C' R R' : List (String × Pod)}, RepsSpec C R → RepsSpec C' R' →
      (∀ c, c ∈ C ↔ c ∈ C') → SpellInj C → ∀ c ∈ R, c ∈ R' := by
    intro C C' R R' h h' hC hinj c hc
    have hcC := h.sub c hc
    obtain ⟨c2, hc2, hk⟩ := h'.cover c ((hC c).mp hcC)
    have hc2C : c2 ∈ C := (hC c2).mpr (h'.sub c2 hc2)
    have l1 := h.min c hc c2 hc2C hk
    have l2 := h'.min c2 hc2 c ((hC c).mp hcC) hk.symm
    have := hinj c hcC c2 hc2C hk.symm (String.le_antisymm l1 l2)
    rw [this]; exact hc2
  rw [List.perm_ext_iff_of_nodup (PermLayer.nodup_of_map _ h.nodup) (PermLayer.nodup_of_map _ h'.nodup)]
  intro c
  constructor
  · exact sub h h' hC hinj c
  · apply sub h' h (fun c => (hC c).symm)
    intro a ha b hb
    exact hinj a ((hC a).mpr ha) b ((hC b).mpr hb)

/-! ### D3. phase 2: the representative peers matched by real pods are removed -/

/-- the labels of the namespace `k`: of the Namespace object of the input, or the name label only -/
def nsLabels (B : List NsObj) (k : String) : Labels :=
  match B.find? (·.name == k) with
  | some n => n.labels
  | none => [(nsNameLabelKey, k)]

theorem nsInv_labels {B N : List NsObj} (h : NsInv B N) (k : String)
    (hs : (N.find? (·.name == k)).isSome = true) :
    ((N.find? (·.name == k)).map (·.labels)).getD [] = nsLabels B k := by
  unfold nsLabels
  cases hb : B.find? (·.name == k) with
  | some n => rw [(h k).1 n hb]; rfl
  | none =>
    rcases (h k).2 hb with h1 | h1
    · rw [h1] at hs; cases hs
    · rw [h1]; rfl

/-- the filter of `removeRepresentativePeersMatchingLabels` -/
def keepP (podLabels nsLabels : Labels) (krp : String × Pod) : Bool :=
  match krp with
  | (_, rp) =>
    match rp.reprPodSel, rp.reprNsSel with
    | none, _ => true
    | some ps, some ns =>
      if !ps.exprs.isEmpty || !ns.exprs.isEmpty then true
      else if ns.matchLabels.isEmpty || ps.matchLabels.isEmpty then true
      else !((⟨ps.matchLabels, []⟩ : Selector).matches podLabels && (⟨ns.matchLabels, []⟩ : Selector).matches nsLabels)
    | some _, none => true

theorem removeMatching_eq (reps : List (String × Pod)) (pl nl : Labels) :
    removeMatching reps pl nl = reps.filter (keepP pl nl) := rfl

/-- what one input object lets pass -/
def keepObj (B : List NsObj) (o : Obj) (krp : String × Pod) : Bool :=
  match o with
  | .pod p => keepP p.labels (nsLabels B p.ns) krp
  | .wl w => keepP w.labels (nsLabels B w.ns) krp
  | _ => true

theorem bstep_rest_reps {A : List NetPol} {P : List Pod} {B : List NsObj} {x x' : XEngine} {o : Obj}
    (hi : CompInv A P B x) (ho : isPolNs o = false) (h : bstep x o = .ok x') :
    x'.reps = x.reps.filter (keepObj B o) := by
  have ftrue : ∀ l : List (String × Pod), l = l.filter (fun _ => true) := by
    intro l
    induction l with
    | nil => rfl
    | cons a l ih => rw [List.filter_cons_of_pos rfl, ← ih]
  cases o with
  | np _ | ns _ => simp [isPolNs] at ho
  | wl w =>
    unfold bstep at h
    simp only [pure, Except.pure] at h
    cases h
    show removeMatching x.reps w.labels _ = _
    rw [removeMatching_eq]
    have hN : NsInv B (ensureNs (x.eng.insertWorkload w) w.ns).namespaces := by
      apply nsInv_ensureNs
      rw [insertWorkload_namespaces]; exact hi.nss
    have := nsInv_labels hN w.ns (findNs_ensureNs_self _ _)
    show List.filter (keepP w.labels
      ((((ensureNs (x.eng.insertWorkload w) w.ns).namespaces.find? (·.name == w.ns)).map
        (·.labels)).getD [])) x.reps = _
    rw [this]
    rfl
  | pod p =>
    unfold bstep at h
    simp only [pure, Except.pure] at h
    split at h
    · cases h
    · cases h
      show removeMatching x.reps p.labels _ = _
      rw [removeMatching_eq]
      have hN : NsInv B (ensureNs (x.eng.insertPodObj p) p.ns).namespaces :=
        nsInv_ensureNs (e := x.eng.insertPodObj p) hi.nss p.ns
      have := nsInv_labels hN p.ns (findNs_ensureNs_self _ _)
      show List.filter (keepP p.labels
        ((((ensureNs (x.eng.insertPodObj p) p.ns).namespaces.find? (·.name == p.ns)).map
          (·.labels)).getD [])) x.reps = _
      rw [this]
      rfl
  | anp a =>
    unfold bstep at h
    cases hio : x.eng.insertObject (.anp a) with
    | error err => simp [hio, bind, Except.bind] at h
    | ok e =>
      simp only [hio, bind, Except.bind, pure, Except.pure] at h
      cases h
      exact ftrue _
  | banp b =>
    unfold bstep at h
    cases hio : x.eng.insertObject (.banp b) with
    | error err => simp [hio, bind, Except.bind] at h
    | ok e =>
      simp only [hio, bind, Except.bind, pure, Except.pure] at h
      cases h
      exact ftrue _
  | svc _ =>
    unfold bstep at h
    simp only [insertObject, bind, Except.bind, pure, Except.pure] at h
    cases h
    exact ftrue _
  | ing _ =>
    unfold bstep at h
    simp only [insertObject, bind, Except.bind, pure, Except.pure] at h
    cases h
    exact ftrue _
  | route _ =>
    unfold bstep at h
    simp only [insertObject, bind, Except.bind, pure, Except.pure] at h
    cases h
    exact ftrue _

theorem nsStep_rest {o : Obj} (ho : isPolNs o = false) (B : List NsObj) : nsStep B o = B := by
  cases o <;> first | rfl | (simp [isPolNs] at ho)

/-- phase 2: the representative peers that no pod of the input matches remain -/
theorem phase2_reps (l : List Obj) (hl : ∀ o ∈ l, isPolNs o = false) {A : List NetPol}
    {P : List Pod} {B : List NsObj} {x x' : XEngine} (hi : CompInv A P B x)
    (h : l.foldlM bstep x = .ok x') :
    x'.reps = x.reps.filter (fun krp => l.all (fun o => keepObj B o krp)) := by
  induction l generalizing A P x with
  | nil =>
    cases h
    show x'.reps = List.filter (fun _ => true) x'.reps
    generalize x'.reps = r
    induction r with
    | nil => rfl
    | cons a l ih => rw [List.filter_cons_of_pos rfl, ← ih]
  | cons o l ih =>
    rw [List.foldlM_cons] at h
    cases h1 : bstep x o with
    | error err => simp [h1, bind, Except.bind] at h
    | ok x1 =>
      simp only [h1, bind, Except.bind] at h
      have ho := hl o (List.mem_cons_self ..)
      have hi1 := bstep_comps hi h1
      rw [nsStep_rest ho] at hi1
      rw [ih (fun o' ho' => hl o' (List.mem_cons_of_mem _ ho')) hi1 h, bstep_rest_reps hi ho h1,
        List.filter_filter]
      congr 1
      funext krp
      simp [List.all_cons, Bool.and_comm]

/-! ### D4. what `build` returns, in terms of the objects -/

theorem all_filter_rest (objs : List Obj) (f : Obj → Bool) (hf : ∀ o, isPolNs o = true → f o = true) :
    (objs.filter (fun o => !isPolNs o)).all f = objs.all f := by
  induction objs with
  | nil => rfl
  | cons o l ih =>
    cases hp : isPolNs o
    · rw [List.filter_cons_of_pos (by simp [hp]), List.all_cons, List.all_cons, ih]
    · rw [List.filter_cons_of_neg (by simp [hp]), List.all_cons, ih, hf o hp, Bool.true_and]

theorem keepObj_polNs (B : List NsObj) (krp : String × Pod) (o : Obj) (h : isPolNs o = true) :
    keepObj B o krp = true := by
  cases o <;> first | rfl | (simp [isPolNs] at h)

/-- the components of the engine `build` returns, and its representative peers -/
theorem build_data {objs : List Obj} {x : XEngine} (h : Exposure.build objs = .ok x) :
    CompInv (objs.foldl Exposure.npStep []) (objs.foldl podStep []) (objs.foldl nsStep []) x ∧
    x.reps = ((candsOf objs).foldl addCand []).filter
      (fun krp => objs.all (fun o => keepObj (objs.foldl nsStep []) o krp)) := by
  rw [Exposure.build_eq] at h
  cases h1 : (objs.filter isPolNs).foldlM bstep x0 with
  | error err => simp [h1, bind, Except.bind] at h
  | ok x1 =>
    simp only [h1, bind, Except.bind] at h
    have c0 : CompInv [] [] [] x0 := ⟨rfl, rfl, nsInv_refl _, fun _ hp => by cases hp⟩
    have c1 := foldlM_bstep_comps _ c0 h1
    have c2 := foldlM_bstep_comps _ c1 h
    have r1 := phase1_reps _ (fun o ho => (List.mem_filter.mp ho).2) h1
    have r2 := phase2_reps _ (fun o ho => by simpa using (List.mem_filter.mp ho).2) c1 h
    have hB : (objs.filter isPolNs).foldl nsStep [] = objs.foldl nsStep [] :=
      foldl_filter_of_id nsStep isPolNs
        (fun o ho b => by cases o <;> first | rfl | (simp [isPolNs] at ho)) objs []
    rw [split_npStep, split_podStep, split_nsStep] at c2
    refine ⟨c2, ?_⟩
    rw [r2, r1, hB]
    have hc : candsOf (objs.filter isPolNs) = candsOf objs := by
      unfold candsOf; rw [npsOf_filter_polNs]
    rw [hc]
    show List.filter _ (List.foldl addCand [] (candsOf objs)) = _
    congr 1
    funext krp
    exact all_filter_rest objs _ (fun o ho => keepObj_polNs _ krp o ho)

theorem foldl_npStep (objs : List Obj) (a : List NetPol) :
    objs.foldl Exposure.npStep a = a ++ (npsOf objs).map npDefaulted := by
  induction objs generalizing a with
  | nil => simp [npsOf]
  | cons o l ih =>
    rw [List.foldl_cons, ih]
    cases o <;> simp [Exposure.npStep, npsOf]

theorem foldl_podStep (objs : List Obj) (a : List Pod) :
    objs.foldl podStep a = (PermLayer.podsIn objs).foldl (fun a p => upsert podKey p a) a := by
  induction objs generalizing a with
  | nil => rfl
  | cons o l ih =>
    rw [List.foldl_cons, ih, PermLayer.podsIn_cons, List.foldl_append]
    cases o <;> simp [podStep, PermLayer.podsIn]

theorem foldl_nsStep (objs : List Obj) (a : List NsObj) :
    objs.foldl nsStep a = (PermLayer.nssIn objs).foldl (fun a n => upsert (·.name) n a) a := by
  induction objs generalizing a with
  | nil => rfl
  | cons o l ih =>
    rw [List.foldl_cons, ih, PermLayer.nssIn_cons, List.foldl_append]
    cases o <;> simp [nsStep, PermLayer.nssIn]

/-- with distinct keys: the policies, the pods and the Namespace objects of the input -/
theorem build_fields {objs : List Obj} {x : XEngine} (hk : PermLayer.DistinctKeys objs)
    (h : Exposure.build objs = .ok x) :
    x.eng.netpols = (npsOf objs).map npDefaulted ∧ x.eng.pods = PermLayer.podsIn objs ∧
    NsInv (PermLayer.nssIn objs) x.eng.namespaces ∧
    (∀ p ∈ x.eng.pods, (x.eng.findNs p.ns).isSome = true) ∧
    x.reps = ((candsOf objs).foldl addCand []).filter
      (fun krp => objs.all (fun o => keepObj (PermLayer.nssIn objs) o krp)) := by
  obtain ⟨c, r⟩ := build_data h
  have hp : objs.foldl podStep [] = PermLayer.podsIn objs := by
    rw [foldl_podStep]
    simpa using PermLayer.foldl_upsert_nodup podKey (PermLayer.podsIn objs) [] (by simpa using hk.pods)
  have hn : objs.foldl nsStep [] = PermLayer.nssIn objs := by
    rw [foldl_nsStep]
    simpa using PermLayer.foldl_upsert_nodup (fun x : NsObj => x.name) (PermLayer.nssIn objs) []
      (by simpa using hk.nss)
  refine ⟨?_, ?_, ?_, c.podNs, ?_⟩
  · rw [c.nps, foldl_npStep]; rfl
  · rw [c.pods, hp]
  · rw [← hn]; exact c.nss
  · rw [r, hn]

theorem npDefaulted_rules (p : NetPol) :
    (npDefaulted p).ingress = p.ingress ∧ (npDefaulted p).egress = p.egress := by
  unfold npDefaulted; split <;> exact ⟨rfl, rfl⟩

theorem npValid_of_rules {objs : List Obj} {x : XEngine} (hv : PermLayer.NPRulesValid objs)
    (h : Exposure.build objs = .ok x) : NpValid x.eng := by
  obtain ⟨c, _⟩ := build_data h
  intro np hnp
  rw [c.nps, foldl_npStep] at hnp
  simp only [List.nil_append] at hnp
  obtain ⟨q, hq, rfl⟩ := List.mem_map.mp hnp
  rw [(npDefaulted_rules q).1, (npDefaulted_rules q).2]
  exact hv q hq

theorem mem_foldl_upsert_sub {l acc : List Pod} {p : Pod}
    (h : p ∈ l.foldl (fun a q => upsert podKey q a) acc) : p ∈ l ∨ p ∈ acc := mem_foldl_upsert h

theorem build_pods_sub {objs : List Obj} {x : XEngine} (h : Exposure.build objs = .ok x) {p : Pod}
    (hp : p ∈ x.eng.pods) : p ∈ PermLayer.podsIn objs := by
  obtain ⟨c, _⟩ := build_data h
  rw [c.pods, foldl_podStep] at hp
  rcases mem_foldl_upsert_sub hp with h1 | h1
  · exact h1
  · cases h1

/-! ### D5. the two builds -/

/-- the engines and representative peers `build` returns for two orders of the same objects -/
structure XSim (x x' : XEngine) : Prop where
  eval : EvalSim x.eng x'.eng
  pods : x.eng.pods.Perm x'.eng.pods
  owners : x.eng.podOwnersMap = x'.eng.podOwnersMap
  ns : ∀ k, (x.eng.findNs k).isSome = true → (x'.eng.findNs k).isSome = true →
    x.eng.findNs k = x'.eng.findNs k
  reps : x.reps.Perm x'.reps

theorem candsOf_perm {objs objs' : List Obj} (hp : objs.Perm objs') :
    (candsOf objs).Perm (candsOf objs') :=
  (PermLayer.npsOf_perm hp).flatMap_right _

/-- two rule selector pairs of the input with the same map key and the same spelling generate the
same representative pod -/
def RepSpellings (objs : List Obj) : Prop := SpellInj (candsOf objs)

theorem RepSpellings.perm {objs objs' : List Obj} (hp : objs.Perm objs') (h : RepSpellings objs) :
    RepSpellings objs' := by
  intro a ha b hb
  exact h a ((candsOf_perm hp).mem_iff.mpr ha) b ((candsOf_perm hp).mem_iff.mpr hb)

/-- **`Exposure.build` is order-independent**: on a reordered input it returns an engine with the
same policies, pods and namespace lookups, and the same representative peers (up to order) -/
theorem build_perm {objs objs' : List Obj} (hp : objs.Perm objs') (hk : PermLayer.DistinctKeys objs)
    (hv : PermLayer.NPRulesValid objs) (hs : RepSpellings objs) {x : XEngine}
    (h : Exposure.build objs = .ok x) :
    ∃ x', Exposure.build objs' = .ok x' ∧ XSim x x' := by
  obtain ⟨x', h'⟩ := (build_isOk_perm hp).mp ⟨x, h⟩
  refine ⟨x', h', ?_⟩
  obtain ⟨a1, a2, a3, _, a5⟩ := build_fields hk h
  obtain ⟨b1, b2, b3, _, b5⟩ := build_fields (hk.perm hp) h'
  have hB : ∀ k, (PermLayer.nssIn objs).find? (·.name == k) =
      (PermLayer.nssIn objs').find? (·.name == k) :=
    fun k => PermLayer.find?_key_perm (key := fun x : NsObj => x.name) (PermLayer.nssIn_perm hp) hk.nss k
  have b3' : NsInv (PermLayer.nssIn objs) x'.eng.namespaces := by
    intro k
    rw [hB k]
    exact b3 k
  have hlab : nsLabels (PermLayer.nssIn objs) = nsLabels (PermLayer.nssIn objs') := by
    funext k
    unfold nsLabels
    rw [hB k]
  have hpods : x.eng.pods.Perm x'.eng.pods := by rw [a2, b2]; exact PermLayer.podsIn_perm hp
  refine ⟨?_, hpods, ?_, ?_, ?_⟩
  · apply evalSim_of_perm
    · rw [a1, b1]; exact (PermLayer.npsOf_perm hp).map _
    · exact npValid_of_rules hv h
  · exact PermLayer.podOwnersMap_perm hpods (by rw [a2]; exact hk.pods)
  · intro k h1 h2
    exact nsInv_agree a3 b3' k h1 h2
  · rw [a5, b5]
    have hpred : (fun krp => objs.all (fun o => keepObj (PermLayer.nssIn objs) o krp)) =
        (fun krp => objs'.all (fun o => keepObj (PermLayer.nssIn objs') o krp)) := by
      funext krp
      rw [hp.all_eq]
      congr 1
      funext o
      unfold keepObj
      rw [hlab]
    rw [hpred]
    apply List.Perm.filter
    have s1 := repsSpec_foldl (candsOf objs) repsSpec_nil
    have s2 := repsSpec_foldl (candsOf objs') repsSpec_nil
    simp only [List.nil_append] at s1 s2
    exact repsSpec_perm s1 s2 (fun c => (candsOf_perm hp).mem_iff) hs

/-! ## E. the exposure data on the two engines

### E1. what holds of an engine `build` returns on well-formed input -/

structure XFacts (x : XEngine) : Prop where
  valid : NpValid x.eng
  repWF : ∀ krp ∈ x.reps, RepWF krp.2
  repNs : RepNamespaces x
  podsReal : ∀ p ∈ x.eng.pods, p.isRepresentative = false ∧ p.ValidPorts
  podNs : ∀ p ∈ x.eng.pods, (x.eng.findNs p.ns).isSome = true

theorem build_facts {objs : List Obj} {x : XEngine}
    (hr : PermLayer.PodsReal objs) (hpp : PermLayer.PodPortsValid objs)
    (hv : PermLayer.NPRulesValid objs)
    (h : Exposure.build objs = .ok x) : XFacts x := by
  refine ⟨npValid_of_rules hv h, build_repWF h, build_repNamespaces h, ?_, (build_data h).1.podNs⟩
  intro p hp
  have := build_pods_sub h hp
  exact ⟨hr p this, hpp p this⟩

/-! ### E2. peers, pairs -/

theorem peersList_sim {x x' : XEngine} (h : XSim x x') : x.eng.peersList = x'.eng.peersList := by
  unfold peersList
  rw [h.owners, h.eval.blocks]

theorem findNs_pod_sim {x x' : XEngine} (h : XSim x x') (f : XFacts x) (f' : XFacts x') {pod : Pod}
    (hp : pod ∈ x.eng.pods) : x.eng.findNs pod.ns = x'.eng.findNs pod.ns :=
  h.ns _ (f.podNs pod hp) (f'.podNs pod (h.pods.mem_iff.mp hp))

theorem toKPeer_sim {x x' : XEngine} (h : XSim x x') (f : XFacts x) (f' : XFacts x')
    {peers : List LPeer} (hpl : x.eng.peersList = .ok peers) {s : LPeer} (hs : s ∈ peers) :
    x.eng.toKPeer s = x'.eng.toKPeer s := by
  cases s with
  | ip r => rfl
  | wl n pod =>
    unfold toKPeer
    simp only [findNs_pod_sim h f f' (peersList_pods hpl hs)]

theorem peers_real {x : XEngine} (f : XFacts x) {peers : List LPeer}
    (hpl : x.eng.peersList = .ok peers) {s : LPeer} (hs : s ∈ peers) : s.Real := by
  cases s with
  | ip r => trivial
  | wl n pod => exact f.podsReal pod (peersList_pods hpl hs)

/-- **the base report of `list --exposure` on the two engines** -/
theorem connsBetweenPeers_sim {x x' : XEngine} (h : XSim x x') (f : XFacts x) (f' : XFacts x')
    {peers : List LPeer} (hpl : x.eng.peersList = .ok peers) (focus : String) :
    Exposure.connsBetweenPeers x.eng peers focus = Exposure.connsBetweenPeers x'.eng peers focus := by
  rw [Exposure.connsBetweenPeers_eq_pairStep, Exposure.connsBetweenPeers_eq_pairStep]
  apply foldlM_congr_mem
  intro s hs acc
  apply foldlM_congr_mem
  intro d hd acc'
  unfold pairStep
  rw [toKPeer_sim h f f' hpl hs, toKPeer_sim h f f' hpl hd]
  split
  · rfl
  · split
    · rfl
    · split
      · rfl
      · cases hks : x'.eng.toKPeer s with
        | error err => rfl
        | ok ks =>
          cases hkd : x'.eng.toKPeer d with
          | error err => rfl
          | ok kd =>
            simp only [bind, Except.bind]
            have hdok : kd.DstOK := by
              rw [← toKPeer_sim h f f' hpl hd] at hkd
              exact toKPeer_real (peers_real f hpl hd) hkd
            rw [h.eval.peerConns ks kd (Or.inl hdok)]

/-! ### E3. the exposure entries of one workload -/

/-- the value of `g` (nothing when it fails) -/
def okL {α β : Type} (g : α → Except Err (List β)) (a : α) : List β :=
  match g a with
  | .ok xs => xs
  | .error _ => []

theorem collect_eq_flatMap {α β : Type} (g : α → Except Err (List β)) (l : List α)
    (h : ∀ a ∈ l, ∃ xs, g a = .ok xs) : collect g l = .ok (l.flatMap (okL g)) := by
  induction l with
  | nil => rfl
  | cons a l ih =>
    obtain ⟨xs, hxs⟩ := h a (List.mem_cons_self ..)
    unfold collect
    rw [hxs, ih (fun b hb => h b (List.mem_cons_of_mem _ hb))]
    simp [okL, hxs]

/-- `collect` over a permuted list, when no element fails: a permutation of the results -/
theorem collect_perm_ok {α β : Type} (g : α → Except Err (List β)) {l l' : List α} (hp : l.Perm l')
    (h : ∀ a ∈ l, ∃ xs, g a = .ok xs) :
    ∃ r r', collect g l = .ok r ∧ collect g l' = .ok r' ∧ r.Perm r' :=
  ⟨_, _, collect_eq_flatMap g l h,
    collect_eq_flatMap g l' (fun a ha => h a (hp.mem_iff.mpr ha)), hp.flatMap_right _⟩

theorem repNs_false {x : XEngine} (f : XFacts x) {krp : String × Pod} (hk : krp ∈ x.reps) :
    (krp.2.ns != "" && (x.eng.findNs krp.2.ns).isNone) = false := by
  by_cases hn : krp.2.ns = ""
  · simp [hn]
  · have := f.repNs krp hk hn
    cases hf : x.eng.findNs krp.2.ns with
    | none => rw [hf] at this; cases this
    | some _ => simp

/-- one representative peer never fails against a protected real workload -/
theorem repEntry_ok {x : XEngine} (f : XFacts x) {pod : Pod} (hp : pod ∈ x.eng.pods) (ns : NsObj)
    (cw : ConnSet) (i : Bool) (hprot : isProtected x.eng pod i = true) {krp : String × Pod}
    (hk : krp ∈ x.reps) : ∃ xs, repEntry x.eng (.pod pod (some ns)) cw i krp = .ok xs := by
  unfold repEntry
  rw [repNs_false f hk]
  simp only [Bool.false_eq_true, if_false]
  obtain ⟨c, hc, _⟩ := peerConns_repr x.eng f.valid i krp.2
    (if krp.2.ns == "" then none else x.eng.findNs krp.2.ns) (f.repWF krp hk) pod
    (some ns) (f.podsReal pod hp) hprot (isPodToItself_x i _ _ _ _ (f.repWF krp hk) (f.podsReal pod hp).1)
  rw [hc]
  simp only [bind, Except.bind, pure, Except.pure]
  split
  · exact ⟨_, rfl⟩
  · split <;> exact ⟨_, rfl⟩

/-- one representative peer on the two engines -/
theorem repEntry_sim {x x' : XEngine} (h : XSim x x') (f : XFacts x) (f' : XFacts x') {kw : KPeer}
    (hkw : kw.DstOK) (cw : ConnSet) (i : Bool) {krp : String × Pod} (hk : krp ∈ x.reps) :
    repEntry x.eng kw cw i krp = repEntry x'.eng kw cw i krp := by
  have hk' : krp ∈ x'.reps := h.reps.mem_iff.mp hk
  have hns : (if krp.2.ns == "" then none else x.eng.findNs krp.2.ns) =
      (if krp.2.ns == "" then none else x'.eng.findNs krp.2.ns) := by
    by_cases hn : krp.2.ns = ""
    · simp [hn]
    · have : (krp.2.ns == "") = false := by simpa using hn
      simp only [this, Bool.false_eq_true, if_false]
      exact h.ns _ (f.repNs krp hk hn) (f'.repNs krp hk' hn)
  unfold repEntry
  rw [repNs_false f hk, repNs_false f' hk', hns]
  simp only [Bool.false_eq_true, if_false]
  have hd : DstX (xDst i (.pod krp.2 (if krp.2.ns == "" then none else x'.eng.findNs krp.2.ns)) kw) := by
    cases i
    · exact Or.inr ⟨_, _, rfl, f.repWF krp hk⟩
    · exact Or.inl hkw
  rw [h.eval.peerConns _ _ hd]

/-- the exposure data of a workload in one direction on the two engines: the same flag, the same
entries up to order -/
def OptSim : Option (Bool × List XEntry) → Option (Bool × List XEntry) → Prop
  | none, none => True
  | some (b, l), some (b', l') => b = b' ∧ l.Perm l'
  | _, _ => False

theorem xgressExposure_sim {x x' : XEngine} (h : XSim x x') (f : XFacts x) (f' : XFacts x')
    (n : String) {pod : Pod} (hp : pod ∈ x.eng.pods) (i : Bool) :
    ∃ r r', xgressExposure x (.wl n pod) i = .ok r ∧ xgressExposure x' (.wl n pod) i = .ok r' ∧
      OptSim r r' := by
  have hp' : pod ∈ x'.eng.pods := h.pods.mem_iff.mp hp
  obtain ⟨ns, hns⟩ := Option.isSome_iff_exists.mp (f.podNs pod hp)
  have hns' : x'.eng.findNs pod.ns = some ns := by rw [← findNs_pod_sim h f f' hp]; exact hns
  have hreal := f.podsReal pod hp
  rw [xgressExposure_eq, xgressExposure_eq, toKPeer_wl_ok n hreal.1 hns, toKPeer_wl_ok n hreal.1 hns',
    ← h.eval.isProtected pod i]
  simp only [bind, Except.bind]
  cases hprot : isProtected x.eng pod i
  · exact ⟨_, _, rfl, rfl, ⟨rfl, List.Perm.refl _⟩⟩
  · simp only [Bool.not_true, Bool.false_eq_true, if_false]
    have hprot' : isProtected x'.eng pod i = true := by
      rw [← h.eval.isProtected pod i]; exact hprot
    rw [← h.eval.cw pod hreal.2 i,
      clusterWideConn_eq x.eng f.valid pod i]
    simp only []
    generalize (((x.eng.netpols.filter (fun np => np.selects pod (dirOf i))).map (cwOf pod i)).foldl
      ConnSet.union (ConnSet.mk' false)) = cw
    obtain ⟨r, r', h1, h2, hperm⟩ := collect_perm_ok (repEntry x.eng (.pod pod (some ns)) cw i) h.reps
      (fun krp hk => repEntry_ok f hp ns cw i hprot hk)
    have h2' : collect (repEntry x'.eng (.pod pod (some ns)) cw i) x'.reps = .ok r' := by
      rw [← h2]
      apply PermLayer.collect_congr
      intro krp hk
      exact (repEntry_sim h f f' (kw := .pod pod (some ns)) hreal cw i (h.reps.mem_iff.mpr hk)).symm
    rw [h1, h2']
    simp only [pure, Except.pure]
    refine ⟨_, _, rfl, rfl, ?_⟩
    rw [hperm.isEmpty_eq]
    split
    · trivial
    · exact ⟨rfl, hperm.append_left _⟩

/-! ### E4. the exposed peers -/

/-- one exposed peer on the two engines: the same name and flags, the same entries up to order -/
structure XPeerSim (p p' : XPeer) : Prop where
  name : p.name = p'.name
  ingP : p.ingProtected = p'.ingProtected
  egP : p.egProtected = p'.egProtected
  ing : p.ing.Perm p'.ing
  eg : p.eg.Perm p'.eg

theorem forall₂_flatMap {α β γ : Type} {R : β → γ → Prop} {f : α → List β} {g : α → List γ}
    (l : List α) (h : ∀ a ∈ l, PermRules.Forall₂ R (f a) (g a)) : PermRules.Forall₂ R (l.flatMap f) (l.flatMap g) := by
  induction l with
  | nil => exact .nil
  | cons a l ih =>
    rw [List.flatMap_cons, List.flatMap_cons]
    exact (h a (List.mem_cons_self ..)).append (ih (fun b hb => h b (List.mem_cons_of_mem _ hb)))

theorem optSim_getD {r r' : Option (Bool × List XEntry)} (h : OptSim r r') :
    (r.getD (true, [])).1 = (r'.getD (true, [])).1 ∧
      (r.getD (true, [])).2.Perm (r'.getD (true, [])).2 := by
  cases r with
  | none =>
    cases r' with
    | none => exact ⟨rfl, List.Perm.refl _⟩
    | some v => exact absurd h id
  | some u =>
    cases r' with
    | none => obtain ⟨b, l⟩ := u; exact absurd h id
    | some v =>
      obtain ⟨b, l⟩ := u
      obtain ⟨b', l'⟩ := v
      exact h

theorem optSim_isNone {r r' : Option (Bool × List XEntry)} (h : OptSim r r') :
    r.isNone = r'.isNone := by
  cases r with
  | none =>
    cases r' with
    | none => rfl
    | some v => exact absurd h id
  | some u =>
    cases r' with
    | none => obtain ⟨b, l⟩ := u; exact absurd h id
    | some v => rfl

theorem xPeerOf_sim {x x' : XEngine} (h : XSim x x') (f : XFacts x) (f' : XFacts x')
    {peers : List LPeer} (hpl : x.eng.peersList = .ok peers) (focus : String) {w : LPeer}
    (hw : w ∈ peers) :
    ∃ l l', xPeerOf x focus w = .ok l ∧ xPeerOf x' focus w = .ok l' ∧ PermRules.Forall₂ XPeerSim l l' := by
  cases w with
  | ip r => exact ⟨[], [], rfl, rfl, .nil⟩
  | wl n pod =>
    have hp := peersList_pods hpl hw
    unfold xPeerOf
    simp only []
    split
    · exact ⟨[], [], rfl, rfl, .nil⟩
    · obtain ⟨i, i', hi, hi', si⟩ := xgressExposure_sim h f f' n hp true
      obtain ⟨g, g', hg, hg', sg⟩ := xgressExposure_sim h f f' n hp false
      rw [hi, hi', hg, hg']
      simp only [bind, Except.bind]
      have ni := optSim_isNone si
      have ng := optSim_isNone sg
      cases i with
      | none =>
        cases i' with
        | some v => cases ni
        | none =>
          cases g with
          | none =>
            cases g' with
            | some v => cases ng
            | none => exact ⟨[], [], rfl, rfl, .nil⟩
          | some u =>
            cases g' with
            | none => cases ng
            | some v =>
              refine ⟨_, _, rfl, rfl, .cons ?_ .nil⟩
              exact ⟨rfl, rfl, (optSim_getD sg).1, List.Perm.refl _, (optSim_getD sg).2⟩
      | some u =>
        cases i' with
        | none => cases ni
        | some v =>
          refine ⟨_, _, rfl, rfl, .cons ?_ .nil⟩
          exact ⟨rfl, (optSim_getD si).1, (optSim_getD sg).1, (optSim_getD si).2, (optSim_getD sg).2⟩

/-- **the exposed peers on the two engines** -/
theorem exposedPeers_sim {x x' : XEngine} (h : XSim x x') (f : XFacts x) (f' : XFacts x')
    {peers : List LPeer} (hpl : x.eng.peersList = .ok peers) (focus : String) :
    ∃ xs xs', exposedPeers x peers focus = .ok xs ∧ exposedPeers x' peers focus = .ok xs' ∧
      PermRules.Forall₂ XPeerSim xs xs' := by
  rw [exposedPeers_eq, exposedPeers_eq]
  have ok1 : ∀ w ∈ peers, ∃ l, xPeerOf x focus w = .ok l := by
    intro w hw
    obtain ⟨l, _, h1, _, _⟩ := xPeerOf_sim h f f' hpl focus hw
    exact ⟨l, h1⟩
  have ok2 : ∀ w ∈ peers, ∃ l, xPeerOf x' focus w = .ok l := by
    intro w hw
    obtain ⟨_, l', _, h2, _⟩ := xPeerOf_sim h f f' hpl focus hw
    exact ⟨l', h2⟩
  refine ⟨_, _, collect_eq_flatMap _ peers ok1, collect_eq_flatMap _ peers ok2, ?_⟩
  apply forall₂_flatMap
  intro w hw
  obtain ⟨l, l', h1, h2, hs⟩ := xPeerOf_sim h f f' hpl focus hw
  have e1 : okL (xPeerOf x focus) w = l := by simp [okL, h1]
  have e2 : okL (xPeerOf x' focus) w = l' := by simp [okL, h2]
  rw [e1, e2]
  exact hs

/-! ## F. the report -/

/-- the printer tells the elements of the list apart. (`Sexp.toStr` is a `partial def`: nothing can
be proved about it; on atoms without blanks and parentheses it is injective.) -/
def PrintInj (l : List Sexp) : Prop := ∀ a ∈ l, ∀ b ∈ l, toString a = toString b → a = b

/-- sorting by the printed form forgets the order of the list -/
theorem sortSx_perm {l l' : List Sexp} (hp : l.Perm l') (hinj : PrintInj l) :
    WorldDriver.sortSx l = WorldDriver.sortSx l' := by
  unfold WorldDriver.sortSx
  congr 1
  have tr : ∀ a b c : String × Sexp, decide (a.1 ≤ b.1) = true → decide (b.1 ≤ c.1) = true →
      decide (a.1 ≤ c.1) = true := by
    intro a b c h1 h2
    simp only [decide_eq_true_eq] at *
    exact String.le_trans h1 h2
  have tot : ∀ a b : String × Sexp, (decide (a.1 ≤ b.1) || decide (b.1 ≤ a.1)) = true := by
    intro a b
    simp only [Bool.or_eq_true, decide_eq_true_eq]
    exact String.le_total a.1 b.1
  have hpm : (l.map fun x => (toString x, x)).Perm (l'.map fun x => (toString x, x)) := hp.map _
  refine List.Perm.eq_of_pairwise (le := fun a b : String × Sexp => decide (a.1 ≤ b.1) = true) ?_
    (List.pairwise_mergeSort tr tot _) (List.pairwise_mergeSort tr tot _)
    ((List.mergeSort_perm _ _).trans (hpm.trans (List.mergeSort_perm _ _).symm))
  intro a b ha hb h1 h2
  simp only [decide_eq_true_eq] at h1 h2
  have ha' := (List.mergeSort_perm _ _).mem_iff.mp ha
  have hb' := hpm.mem_iff.mpr ((List.mergeSort_perm _ _).mem_iff.mp hb)
  obtain ⟨u, hu, rfl⟩ := List.mem_map.mp ha'
  obtain ⟨v, hv, rfl⟩ := List.mem_map.mp hb'
  have := hinj u hu v hv (String.le_antisymm h1 h2)
  rw [this]

/-- one `x` item of the report -/
def xItem (p : XPeer) : Sexp :=
  .list [.atom "x", .atom p.name,
    .list (.atom "ing" :: .atom (WorldDriver.runListX.b01' p.ingProtected) ::
      WorldDriver.sortSx (p.ing.map WorldDriver.xEntrySx)),
    .list (.atom "eg" :: .atom (WorldDriver.runListX.b01' p.egProtected) ::
      WorldDriver.sortSx (p.eg.map WorldDriver.xEntrySx))]

/-- the report from the peers, the base entries and the exposed peers -/
def renderX (peers : List LPeer) (entries : List Entry) (xs : List XPeer) : Sexp :=
  .list ([.atom "ok", .list (.atom "peers" :: (WorldDriver.sortStrs (peers.map (·.str))).map .atom)] ++
    ((WorldDriver.sortStrs (entries.map fun e =>
        e.src.str ++ " " ++ e.dst.str ++ " " ++
          WorldDriver.us (ConnSet.connStrFromProps e.conn.allowAll e.conn.protocolsAndPorts))).map
      fun l => .list (.atom "e" :: (l.splitOn " ").map .atom)) ++
    WorldDriver.sortSx (xs.map xItem))

/-- `runListX` after a successful `build` -/
theorem runListX_ok {objs : List Obj} {focus : String} {x : XEngine}
    (h : Exposure.build objs = .ok x) :
    WorldDriver.runListX objs focus =
      if x.eng.pods.isEmpty then .list [.atom "ok", .list [.atom "peers"]]
      else match x.eng.peersList with
        | .error e => WorldDriver.errSx e
        | .ok peers =>
          if !(focus == "" || peers.any (Engine.isFocus focus)) then .list [.atom "ok", .atom "nofocus"]
          else if Exposure.repNamespaceError x peers focus then WorldDriver.errSx .missingNamespace
          else match Exposure.connsBetweenPeers x.eng peers focus, Exposure.exposedPeers x peers focus with
            | .error e, _ => WorldDriver.errSx e
            | _, .error e => WorldDriver.errSx e
            | .ok entries, .ok xs => renderX peers entries xs := by
  unfold WorldDriver.runListX
  rw [h]
  rfl

/-- the printer tells the exposure entries of every exposed peer of the run apart (a statement about
the opaque printer `Sexp.toStr`; it can be checked by evaluation, not by `decide`) -/
def EntriesPrintInj (objs : List Obj) (focus : String) : Prop :=
  ∀ x peers xs, Exposure.build objs = .ok x → x.eng.peersList = .ok peers →
    Exposure.exposedPeers x peers focus = .ok xs →
    ∀ p ∈ xs, PrintInj (p.ing.map WorldDriver.xEntrySx) ∧ PrintInj (p.eg.map WorldDriver.xEntrySx)

theorem xItem_sim {p p' : XPeer} (h : XPeerSim p p')
    (hi : PrintInj (p.ing.map WorldDriver.xEntrySx)) (he : PrintInj (p.eg.map WorldDriver.xEntrySx)) :
    xItem p = xItem p' := by
  unfold xItem
  rw [h.name, h.ingP, h.egP, sortSx_perm (h.ing.map _) hi, sortSx_perm (h.eg.map _) he]

theorem map_xItem_sim {xs xs' : List XPeer} (h : PermRules.Forall₂ XPeerSim xs xs')
    (hinj : ∀ p ∈ xs, PrintInj (p.ing.map WorldDriver.xEntrySx) ∧
      PrintInj (p.eg.map WorldDriver.xEntrySx)) : xs.map xItem = xs'.map xItem := by
  induction h with
  | nil => rfl
  | cons hab _ ih =>
    rw [List.map_cons, List.map_cons, ih (fun p hp => hinj p (List.mem_cons_of_mem _ hp)),
      xItem_sim hab (hinj _ (List.mem_cons_self ..)).1 (hinj _ (List.mem_cons_self ..)).2]

/-- the two reports, before the printer-dependent sort of the exposure entries: the same value that is
not a report (failure, no pods, no focus), or reports from the same peers, the same base entries and
exposed peers that agree up to the order of their entries -/
inductive ReportSim : Sexp → Sexp → Prop
  | same (r : Sexp) : ReportSim r r
  | report (peers : List LPeer) (entries : List Entry) (xs xs' : List XPeer) :
      PermRules.Forall₂ XPeerSim xs xs' →
      ReportSim (renderX peers entries xs) (renderX peers entries xs')

/-- the reports of two runs whose builds are related by `XSim`, without any assumption on the
printer -/
theorem runListX_struct_of_sim {objs objs' : List Obj} {x x' : XEngine}
    (h : Exposure.build objs = .ok x) (h' : Exposure.build objs' = .ok x') (sim : XSim x x')
    (f : XFacts x) (f' : XFacts x') (focus : String) :
    ReportSim (WorldDriver.runListX objs focus) (WorldDriver.runListX objs' focus) := by
  rw [runListX_ok h, runListX_ok h', ← peersList_sim sim, sim.pods.isEmpty_eq]
  split
  · exact .same _
  · cases hpl : x.eng.peersList with
    | error e => exact .same _
    | ok peers =>
      simp only []
      rw [build_no_repNamespaceError h, build_no_repNamespaceError h',
        ← connsBetweenPeers_sim sim f f' hpl focus]
      obtain ⟨xs, xs', e1, e2, hsim⟩ := exposedPeers_sim sim f f' hpl focus
      rw [e1, e2]
      split
      · exact .same _
      · simp only [Bool.false_eq_true, if_false]
        cases Exposure.connsBetweenPeers x.eng peers focus with
        | error e => exact .same _
        | ok entries => exact .report peers entries xs xs' hsim

/-- the reports of two runs whose builds are related by `XSim` are equal, when the printer tells the
exposure entries of a peer apart -/
theorem runListX_of_sim {objs objs' : List Obj} {x x' : XEngine}
    (h : Exposure.build objs = .ok x) (h' : Exposure.build objs' = .ok x') (sim : XSim x x')
    (f : XFacts x) (f' : XFacts x') (focus : String) (hinj : EntriesPrintInj objs focus) :
    WorldDriver.runListX objs focus = WorldDriver.runListX objs' focus := by
  rw [runListX_ok h, runListX_ok h', ← peersList_sim sim, sim.pods.isEmpty_eq]
  split
  · rfl
  · cases hpl : x.eng.peersList with
    | error e => rfl
    | ok peers =>
      simp only []
      rw [build_no_repNamespaceError h, build_no_repNamespaceError h',
        ← connsBetweenPeers_sim sim f f' hpl focus]
      obtain ⟨xs, xs', e1, e2, hsim⟩ := exposedPeers_sim sim f f' hpl focus
      rw [e1, e2]
      split
      · rfl
      · simp only [Bool.false_eq_true, if_false]
        cases Exposure.connsBetweenPeers x.eng peers focus with
        | error e => rfl
        | ok entries =>
          simp only []
          unfold renderX
          rw [map_xItem_sim hsim (hinj x peers xs h hpl e1)]

/-- **C08 for `list --exposure`: the report does not depend on the order of the input objects.**
`hok`: `Exposure.build` accepts the input; `hk`: no two pods / Namespace objects under one key;
`hr`, `hpp`, `hv`: real pods, legal container ports, rules as the API server accepts them; `hs`:
spellings tell the rule selector pairs of one map key apart; `hinj`: the printer tells the exposure
entries of a peer apart. -/
theorem runListX_perm {objs objs' : List Obj} (hp : objs.Perm objs')
    (hok : ∃ x, Exposure.build objs = .ok x) (hk : PermLayer.DistinctKeys objs)
    (hr : PermLayer.PodsReal objs) (hpp : PermLayer.PodPortsValid objs)
    (hv : PermLayer.NPRulesValid objs) (hs : RepSpellings objs) (focus : String)
    (hinj : EntriesPrintInj objs focus) :
    WorldDriver.runListX objs focus = WorldDriver.runListX objs' focus := by
  obtain ⟨x, h⟩ := hok
  obtain ⟨x', h', sim⟩ := build_perm hp hk hv hs h
  exact runListX_of_sim h h' sim (build_facts hr hpp hv h)
    (build_facts (hr.perm hp) (hpp.perm hp) (hv.perm hp) h') focus hinj

/-- **the order of the objects, without any assumption on the printer**: the two reports are built
from the same peers and the same base entries, and from exposed peers with the same entries up to
order (`renderX` sorts them by their printed form) -/
theorem runListX_perm_struct {objs objs' : List Obj} (hp : objs.Perm objs')
    (hok : ∃ x, Exposure.build objs = .ok x) (hk : PermLayer.DistinctKeys objs)
    (hr : PermLayer.PodsReal objs) (hpp : PermLayer.PodPortsValid objs)
    (hv : PermLayer.NPRulesValid objs) (hs : RepSpellings objs) (focus : String) :
    ReportSim (WorldDriver.runListX objs focus) (WorldDriver.runListX objs' focus) := by
  obtain ⟨x, h⟩ := hok
  obtain ⟨x', h', sim⟩ := build_perm hp hk hv hs h
  exact runListX_struct_of_sim h h' sim (build_facts hr hpp hv h)
    (build_facts (hr.perm hp) (hpp.perm hp) (hv.perm hp) h') focus

/-! ### a sufficient condition for `RepSpellings` that the kernel can evaluate (no `mergeSort`) -/

/-- `goSelString` for a selector whose matchLabels are written in key order -/
def goSelStringS (s : Option Selector) : String :=
  match s with
  | none => "nil"
  | some x =>
    let ml := x.matchLabels.map fun kv => kv.1 ++ ": " ++ kv.2 ++ ","
    let me := x.exprs.map fun r =>
      "LabelSelectorRequirement{Key:" ++ r.key ++ ",Operator:" ++
        (match r.op with | .In => "In" | .NotIn => "NotIn" | .Exists => "Exists" | .DoesNotExist => "DoesNotExist") ++
        ",Values:[" ++ " ".intercalate r.vals ++ "],},"
    "&LabelSelector{MatchLabels:map[string]string{" ++ String.join ml ++ "},MatchExpressions:[]LabelSelectorRequirement{" ++
      String.join me ++ "},}"

/-- the matchLabels of the selector are written in key order -/
def MlSorted (s : Option Selector) : Prop :=
  match s with
  | none => True
  | some x => x.matchLabels.Pairwise (fun a b => a.1 ≤ b.1)

instance (s : Option Selector) : Decidable (MlSorted s) := by
  unfold MlSorted; split <;> infer_instance

theorem goSelString_sorted {s : Option Selector} (h : MlSorted s) : goSelString s = goSelStringS s := by
  cases s with
  | none => rfl
  | some x =>
    unfold goSelString goSelStringS
    simp only []
    have hs : x.matchLabels.mergeSort (fun a b => decide (a.1 ≤ b.1)) = x.matchLabels :=
      List.mergeSort_of_pairwise (List.Pairwise.imp (fun hab => by simpa using hab) h)
    rw [hs]
    rfl

def spellingS (p : Pod) : String :=
  (if p.ns == "" then "true" else "false") ++ "|" ++ goSelStringS p.reprNsSel ++ "|" ++ goSelStringS p.reprPodSel

/-- the representative pods generated for the rule selector pairs of the input -/
def candPods (objs : List Obj) : List Pod :=
  (npsOf objs).flatMap fun p => (allSels (npDefaulted p)).map (newRep (npDefaulted p).ns)

/-- matchLabels in key order, and the spellings tell the generated representative pods apart -/
def RepSpellingsS (objs : List Obj) : Prop :=
  (∀ p ∈ candPods objs, MlSorted p.reprNsSel ∧ MlSorted p.reprPodSel) ∧
  ∀ p ∈ candPods objs, ∀ q ∈ candPods objs, spellingS p = spellingS q → p = q

instance (objs : List Obj) : Decidable (RepSpellingsS objs) := by
  unfold RepSpellingsS; infer_instance

theorem mem_candsOf {objs : List Obj} {c : String × Pod} (h : c ∈ candsOf objs) : c.2 ∈ candPods objs := by
  unfold candsOf cands at h
  unfold candPods
  rw [List.mem_flatMap] at h ⊢
  obtain ⟨p, hp, hc⟩ := h
  obtain ⟨rs, hrs, rfl⟩ := List.mem_map.mp hc
  exact ⟨p, hp, List.mem_map.mpr ⟨rs, hrs, rfl⟩⟩

theorem repSpellings_of_S {objs : List Obj} (h : RepSpellingsS objs) : RepSpellings objs := by
  intro c hc c' hc' hk hsp
  have m := mem_candsOf hc
  have m' := mem_candsOf hc'
  have e : ∀ p ∈ candPods objs, spelling p = spellingS p := by
    intro p hp
    unfold spelling spellingS
    rw [goSelString_sorted (h.1 p hp).1, goSelString_sorted (h.1 p hp).2]
  rw [e _ m, e _ m'] at hsp
  exact Prod.ext hk (h.2 _ m _ m' hsp)

/-! ## G. the inner order of the NetworkPolicies: rules, rule peers, rule ports, `policyTypes`

### G1. the pre-scan of similar policies -/

theorem rcFold_canonical (ports : List NPPort) (hv : ∀ q ∈ ports, q.Valid) {c0 c : ConnSet}
    (h0 : c0.Canonical) (h : ports.foldlM (NetPol.rcStep none) c0 = .ok c) : c.Canonical := by
  induction ports generalizing c0 with
  | nil => cases h; exact h0
  | cons q rest ih =>
    rw [List.foldlM_cons] at h
    obtain ⟨ps, hps, hw, _⟩ := NetPol.portSetOf_none q (hv q (List.mem_cons_self ..))
    have : NetPol.rcStep none c0 q = .ok (c0.addConnection (q.proto.getD .TCP) ps) := by
      simp only [NetPol.rcStep, hps]; rfl
    rw [this] at h
    exact ih (fun q' hq' => hv q' (List.mem_cons_of_mem _ hq'))
      (ConnSet.canonical_addConnection _ h0.1 hw) h

theorem rcNone_canonical (ports : List NPPort) (hv : ∀ q ∈ ports, q.Valid) :
    (NetPol.rcNone ports).Canonical := by
  have h := ruleConnections_none_eq' ports
  rw [NetPol.ruleConnections_eq] at h
  split at h
  · simp only [Except.ok.injEq] at h
    rw [← h]
    exact ConnSet.canonical_mk true
  · exact rcFold_canonical ports hv (ConnSet.canonical_mk false) h

theorem portsNum_perm {ports ports' : List NPPort} (hp : ports.Perm ports') (pr : Proto) (x : Int) :
    NetPol.portsNum ports pr x ↔ NetPol.portsNum ports' pr x := by
  unfold NetPol.portsNum
  rw [hp.isEmpty_eq]
  constructor
  · rintro (h | ⟨q, hq, h⟩)
    · exact Or.inl h
    · exact Or.inr ⟨q, hp.mem_iff.mp hq, h⟩
  · rintro (h | ⟨q, hq, h⟩)
    · exact Or.inl h
    · exact Or.inr ⟨q, hp.mem_iff.mpr hq, h⟩

theorem portsNamed_perm {ports ports' : List NPPort} (hp : ports.Perm ports') (pr : Proto)
    (n : String) : NetPol.portsNamed ports pr n ↔ NetPol.portsNamed ports' pr n := by
  unfold NetPol.portsNamed
  constructor
  · rintro ⟨q, hq, h⟩; exact ⟨q, hp.mem_iff.mp hq, h⟩
  · rintro ⟨q, hq, h⟩; exact ⟨q, hp.mem_iff.mpr hq, h⟩

/-- **the port clauses of a rule in another order**: the same pre-scanned connection set -/
theorem rcNone_perm {ports ports' : List NPPort} (hp : ports.Perm ports')
    (hv : ∀ q ∈ ports, q.Valid) : NetPol.rcNone ports = NetPol.rcNone ports' := by
  have hv' : ∀ q ∈ ports', q.Valid := fun q hq => hv q (hp.mem_iff.mpr hq)
  obtain ⟨_, _, d1, s1, t1⟩ := NetPol.rcNone_spec ports hv
  obtain ⟨_, _, d2, s2, t2⟩ := NetPol.rcNone_spec ports' hv'
  apply eq_of_den_names (rcNone_canonical ports hv) (rcNone_canonical ports' hv') (rcNone_ns _)
    (rcNone_ns _)
  · intro pr x
    rw [d1, d2, portsNum_perm hp]
  · intro ha hb pr n
    constructor
    · intro h
      rcases t2 pr n ((portsNamed_perm hp pr n).mp (s1 pr n h)) with h' | h'
      · exact h'
      · rw [hb] at h'; cases h'
    · intro h
      rcases t1 pr n ((portsNamed_perm hp pr n).mpr (s2 pr n h)) with h' | h'
      · exact h'
      · rw [ha] at h'; cases h'

theorem isCW_sim {r r' : NPRule} (hs : PermRules.RuleSim r r') : isCW r = isCW r' := by
  unfold isCW
  rw [hs.1.isEmpty_eq, hs.1.any_eq]

theorem peerSels_perm {peers peers' : List NPPeer} (hp : peers.Perm peers') :
    (peerSels peers).Perm (peerSels peers') := hp.filterMap _

theorem scanRules_sim {np np' : NetPol} (hs : PermRules.NpSim np np') (d : Dir) :
    PermRules.RulesSim (scanRules np d) (scanRules np' d) := by
  unfold scanRules
  rw [PermRules.affects_sim hs d]
  split
  · cases d
    · exact hs.ingress
    · exact hs.egress
  · exact PermRules.RulesSim.refl []

theorem forall₂_filter_map_eq {β : Type} {f : NPRule → Bool} {g : NPRule → β} {m l' : List NPRule}
    (h : PermRules.Forall₂ PermRules.RuleSim m l')
    (hf : ∀ r r', PermRules.RuleSim r r' → f r = f r')
    (hg : ∀ r ∈ m, ∀ r', PermRules.RuleSim r r' → g r = g r') :
    (m.filter f).map g = (l'.filter f).map g := by
  induction h with
  | nil => rfl
  | @cons a b l l' hab _ ih =>
    have ih' := ih (fun r hr => hg r (List.mem_cons_of_mem _ hr))
    rw [List.filter_cons, List.filter_cons, ← hf a b hab]
    split
    · rw [List.map_cons, List.map_cons, ih', hg a (List.mem_cons_self ..) b hab]
    · exact ih'

theorem rulesSim_filter_map_perm {β : Type} {f : NPRule → Bool} {g : NPRule → β}
    {l l' : List NPRule} (hs : PermRules.RulesSim l l')
    (hf : ∀ r r', PermRules.RuleSim r r' → f r = f r')
    (hg : ∀ r ∈ l, ∀ r', PermRules.RuleSim r r' → g r = g r') :
    ((l.filter f).map g).Perm ((l'.filter f).map g) := by
  obtain ⟨m, hp, hfa⟩ := hs
  rw [← forall₂_filter_map_eq hfa hf (fun r hr => hg r (hp.mem_iff.mpr hr))]
  exact (hp.filter f).map g

theorem rulesSim_filter_flatMap_perm {β : Type} {f : NPRule → Bool} {g : NPRule → List β}
    {l l' : List NPRule} (hs : PermRules.RulesSim l l')
    (hf : ∀ r r', PermRules.RuleSim r r' → f r = f r')
    (hg : ∀ r r', PermRules.RuleSim r r' → (g r).Perm (g r')) :
    ((l.filter f).flatMap g).Perm ((l'.filter f).flatMap g) := by
  obtain ⟨m, hp, hfa⟩ := hs
  refine ((hp.filter f).flatMap_right g).trans ?_
  exact (hfa.filter hf).flatMap_perm hg

/-- the rules of the direction are valid -/
def DirValid (np : NetPol) (d : Dir) : Prop := ∀ r ∈ Spec.npRules np d, r.Valid

theorem scanRules_valid {np : NetPol} {d : Dir} (hv : DirValid np d) :
    ∀ r ∈ scanRules np d, ∀ q ∈ r.ports, q.Valid :=
  fun r hr => (hv r (mem_scanRules hr)).1

/-- **the pre-scan of two similar policies**: the same external and cluster-wide connections, the
same rule selector pairs up to order -/
theorem scanPure_sim {np np' : NetPol} (hs : PermRules.NpSim np np') (d : Dir) (hv : DirValid np d) :
    (scanPure np d).external = (scanPure np' d).external ∧
    (scanPure np d).clusterWide = (scanPure np' d).clusterWide ∧
    (scanPure np d).sels.Perm (scanPure np' d).sels := by
  have hR := scanRules_sim hs d
  have hvp := scanRules_valid hv
  have hg : ∀ r ∈ scanRules np d, ∀ r', PermRules.RuleSim r r' →
      NetPol.rcNone r.ports = NetPol.rcNone r'.ports :=
    fun r hr r' hrr => rcNone_perm hrr.2 (hvp r hr)
  have hcls : ∀ (f : NPRule → Bool), ∀ c ∈ ((scanRules np d).filter f).map (NetPol.rcNone ·.ports),
      c.WFE ∧ NS c := by
    intro f c hc
    obtain ⟨r, hr, rfl⟩ := List.mem_map.mp hc
    exact ⟨(NetPol.rcNone_spec r.ports (hvp r (List.mem_filter.mp hr).1)).1, rcNone_ns _⟩
  refine ⟨?_, ?_, ?_⟩
  · rw [scanPure_external, scanPure_external]
    exact foldl_union_perm (rulesSim_filter_map_perm hR (fun r r' h => h.1.isEmpty_eq) hg) (hcls _)
  · rw [scanPure_clusterWide, scanPure_clusterWide]
    exact foldl_union_perm (rulesSim_filter_map_perm hR (fun r r' h => isCW_sim h) hg) (hcls _)
  · rw [scanPure_sels, scanPure_sels]
    exact rulesSim_filter_flatMap_perm hR (fun r r' h => by rw [isCW_sim h])
      (fun r r' h => peerSels_perm h.1)

/-! ### G2. the connections of two similar policies -/

theorem selOf_eq_selB (np : NetPol) (other : KPeer) (r : NPRule)
    (hne : ∀ rp ∈ r.peers, rp ≠ .sel none none) :
    NetPol.selOf np other r = PermRules.selB np other r := by
  unfold NetPol.selOf PermRules.selB
  rw [PermLayer.ruleSelectsPeer_any np other r.peers hne]

theorem selOf_sim {np np' : NetPol} (hns : np.ns = np'.ns) (other : KPeer) {r r' : NPRule}
    (hs : PermRules.RuleSim r r') (hv : r.Valid) :
    NetPol.selOf np other r = NetPol.selOf np' other r' := by
  rw [selOf_eq_selB np other r hv.2, selOf_eq_selB np' other r' (hs.valid hv).2,
    PermRules.selB_sim hns other hs]

/-- `allowedConns` towards a representative peer, on two similar rule lists: the same connection
set (towards a representative peer no rule fails to evaluate) -/
theorem allowedConns_sim_rep {np np' : NetPol} (hns : np.ns = np'.ns) {rules rules' : List NPRule}
    (hs : PermRules.RulesSim rules rules') (other : KPeer) (rp : Pod) (nso : Option NsObj)
    (hrp : RepWF rp) (hv : ∀ r ∈ rules, r.Valid) :
    np.allowedConns rules other (.pod rp nso) = np'.allowedConns rules' other (.pod rp nso) := by
  have hv' := hs.valid hv
  have rcEq : ∀ ports : List NPPort, NetPol.ruleConnections ports (some (.pod rp nso)) =
      .ok (NetPol.rcNone ports) := by
    intro ports
    rw [NetPol.ruleConnections_repr ports rp nso hrp.isRepr hrp.ports, ruleConnections_none_eq']
  -- both succeed
  obtain ⟨c, hc⟩ : ∃ c, np.allowedConns rules other (.pod rp nso) = .ok c :=
    PermRules.allowedConns_go_ok np other _ rules hv (fun r _ _ => ⟨_, rcEq r.ports⟩) _
  obtain ⟨c', hc'⟩ : ∃ c, np'.allowedConns rules' other (.pod rp nso) = .ok c :=
    PermRules.allowedConns_go_ok np' other _ rules' hv' (fun r _ _ => ⟨_, rcEq r.ports⟩) _
  rw [hc, hc']
  congr 1
  -- the two values
  have spec : ∀ (np : NetPol) (rules : List NPRule), (∀ r ∈ rules, r.Valid) → ∀ c,
      np.allowedConns rules other (.pod rp nso) = .ok c →
      c.Canonical ∧ NS c ∧
      (∀ pr x, c.den pr x ↔ ∃ r ∈ rules, NetPol.selOf np other r = true ∧
        NetPol.portsNum r.ports pr x) ∧
      (∀ pr n, n ∈ c.names pr → ∃ r ∈ rules, NetPol.selOf np other r = true ∧
        NetPol.portsNamed r.ports pr n) ∧
      (∀ pr n, (∃ r ∈ rules, NetPol.selOf np other r = true ∧ NetPol.portsNamed r.ports pr n) →
        n ∈ c.names pr ∨ c.allowAll = true) := by
    intro np rules hv c hc
    obtain ⟨g1, _⟩ := NetPol.allowedConns_go_gen np other (.pod rp nso)
      (fun r pr x => NetPol.portsNum r.ports pr x) (fun r pr n => NetPol.portsNamed r.ports pr n)
      rules (fun r hr => (hv r hr).2)
      (fun r hr _ rc hrc => by
        rw [rcEq] at hrc
        cases hrc
        obtain ⟨a1, _, a3, a4, a5⟩ := NetPol.rcNone_spec r.ports (hv r hr).1
        exact ⟨a1, a3, a4, a5⟩)
      (ConnSet.mk' false) (ConnSet.canonical_mk false)
    obtain ⟨b1, b2, b3, b4⟩ := g1 c hc
    have hns : NS c := by
      refine NetPol.allowedConns_go_inv np other (.pod rp nso) NS (fun a b => ns_union) rules ?_ _
        (ns_mk false) c hc
      intro r _ rc hrc
      exact ruleConnections_ns r.ports _ hrc
    refine ⟨b1, hns, fun pr x => ?_, fun pr n hn => ?_, fun pr n hn => b4 pr n (Or.inr hn)⟩
    · rw [b2]
      constructor
      · rintro (h | h)
        · exact absurd h (ConnSet.den_mk_none pr x)
        · exact h
      · exact Or.inr
    · rcases b3 pr n hn with h | h
      · rw [ConnSet.names_mk'] at h; exact absurd h List.not_mem_nil
      · exact h
  obtain ⟨c1, n1, d1, s1, t1⟩ := spec np rules hv c hc
  obtain ⟨c2, n2, d2, s2, t2⟩ := spec np' rules' hv' c' hc'
  have tr : ∀ (A : NPRule → Prop) (A' : NPRule → Prop),
      (∀ r r', PermRules.RuleSim r r' → (A r ↔ A' r')) →
      ((∃ r ∈ rules, NetPol.selOf np other r = true ∧ A r) ↔
        ∃ r' ∈ rules', NetPol.selOf np' other r' = true ∧ A' r') := by
    intro A A' hA
    constructor
    · rintro ⟨r, hr, h1, h2⟩
      obtain ⟨r', hr', hrr⟩ := hs.fwd hr
      exact ⟨r', hr', by rw [← selOf_sim hns other hrr (hv r hr)]; exact h1, (hA r r' hrr).mp h2⟩
    · rintro ⟨r', hr', h1, h2⟩
      obtain ⟨r, hr, hrr⟩ := hs.bwd hr'
      exact ⟨r, hr, by rw [selOf_sim hns other hrr (hv r hr)]; exact h1, (hA r r' hrr).mpr h2⟩
  apply eq_of_den_names c1 c2 n1 n2
  · intro pr x
    rw [d1, d2]
    exact tr _ _ (fun r r' hrr => portsNum_perm hrr.2 pr x)
  · intro ha hb pr n
    have hiff := tr (fun r => NetPol.portsNamed r.ports pr n) (fun r => NetPol.portsNamed r.ports pr n)
      (fun r r' hrr => portsNamed_perm hrr.2 pr n)
    constructor
    · intro h
      rcases t2 pr n (hiff.mp (s1 pr n h)) with h' | h'
      · exact h'
      · rw [hb] at h'; cases h'
    · intro h
      rcases t1 pr n (hiff.mpr (s2 pr n h)) with h' | h'
      · exact h'
      · rw [ha] at h'; cases h'

theorem npRules_sim {np np' : NetPol} (hs : PermRules.NpSim np np') (d : Dir) :
    PermRules.RulesSim (Spec.npRules np d) (Spec.npRules np' d) := by
  cases d
  · exact hs.ingress
  · exact hs.egress

theorem DirValid.sim {np np' : NetPol} (hs : PermRules.NpSim np np') {d : Dir} (hv : DirValid np d) :
    DirValid np' d := (npRules_sim hs d).valid hv

/-- **one policy, one pair, exposure mode**: two similar policies contribute the same connection
set or the same error -/
theorem policyConns_sim {np np' : NetPol} (hs : PermRules.NpSim np np') (src dst : KPeer) (i : Bool)
    (hv : DirValid np (dirOf i)) (hd : DstX dst) :
    policyConns np src dst i = policyConns np' src dst i := by
  have hv' := hv.sim hs
  obtain ⟨e1, e2, _⟩ := scanPure_sim hs (dirOf i) hv
  rw [policyConns_eq np src dst i (fun r hr => (hv r hr).1),
    policyConns_eq np' src dst i (fun r hr => (hv' r hr).1), e1, e2,
    npStep_eq_allowedConns, npStep_eq_allowedConns]
  have : np.allowedConns (Spec.npRules np (dirOf i)) (otherPeer src dst i) dst =
      np'.allowedConns (Spec.npRules np' (dirOf i)) (otherPeer src dst i) dst := by
    rcases hd with hd | ⟨rp, nso, rfl, hrp⟩
    · exact PermRules.allowedConns_sim hs.ns (npRules_sim hs _) _ dst hd hv
    · exact allowedConns_sim_rep hs.ns (npRules_sim hs _) _ rp nso hrp hv
  rw [this]

/-! ### G3. engines whose policies are similar position by position -/

theorem forall₂_filter_map_eq_gen {α β γ : Type} {R : α → β → Prop} {f : α → Bool} {f' : β → Bool}
    {g : α → γ} {g' : β → γ} {l : List α} {l' : List β} (h : PermRules.Forall₂ R l l')
    (hf : ∀ a ∈ l, ∀ b, R a b → f a = f' b) (hg : ∀ a ∈ l, ∀ b, R a b → g a = g' b) :
    (l.filter f).map g = (l'.filter f').map g' := by
  induction h with
  | nil => rfl
  | @cons a b l l' hab _ ih =>
    have ih' := ih (fun a ha => hf a (List.mem_cons_of_mem _ ha))
      (fun a ha => hg a (List.mem_cons_of_mem _ ha))
    rw [List.filter_cons, List.filter_cons, ← hf a (List.mem_cons_self ..) b hab]
    split
    · rw [List.map_cons, List.map_cons, ih', hg a (List.mem_cons_self ..) b hab]
    · exact ih'

theorem policiesSelecting_inner {e e' : Engine}
    (h : PermRules.Forall₂ PermRules.NpSim e.netpols e'.netpols) (k : KPeer) (d : Dir) :
    PermRules.Forall₂ PermRules.NpSim (e.policiesSelecting k d) (e'.policiesSelecting k d) := by
  cases k with
  | ip r => exact .nil
  | pod p ns =>
    rw [Engine.policiesSelecting_pod, Engine.policiesSelecting_pod]
    exact PermRules.forall₂_sortByName (fun a b hab => hab.name)
      (h.filter (fun a b hab => PermRules.selects_sim hab p d))

theorem xgressConns_inner {e e' : Engine}
    (h : PermRules.Forall₂ PermRules.NpSim e.netpols e'.netpols) (hv : NpValid e)
    (src dst : KPeer) (hd : DstX dst) (i : Bool) :
    Exposure.xgressConns e src dst i = Exposure.xgressConns e' src dst i := by
  rw [xgressConns_eq, xgressConns_eq]
  have hpol := policiesSelecting_inner h (selfPeer src dst i) (dirOf i)
  rw [hpol.isEmpty_eq]
  split
  · rfl
  · have hpol' := hpol.and_left (P := fun np => np ∈ e.netpols)
      (fun np hnp => mem_policiesSelecting' hnp)
    apply hpol'.foldlM_eq
    intro np np' ⟨hs, hm⟩ acc
    unfold xFold
    rw [policyConns_sim hs src dst i (hv.rules hm _) hd]

theorem peerConns_inner {e e' : Engine}
    (h : PermRules.Forall₂ PermRules.NpSim e.netpols e'.netpols) (hv : NpValid e)
    (src dst : KPeer) (hd : DstX dst) :
    Exposure.peerConns e src dst = Exposure.peerConns e' src dst := by
  rw [Exposure.peerConns_eq, Exposure.peerConns_eq, xgressConns_inner h hv src dst hd false,
    xgressConns_inner h hv src dst hd true]

theorem cwOf_sim {np np' : NetPol} (hs : PermRules.NpSim np np') (pod : Pod) (i : Bool)
    (hv : DirValid np (dirOf i)) : cwOf pod i np = cwOf pod i np' := by
  unfold cwOf
  rw [(scanPure_sim hs (dirOf i) hv).2.1]

theorem evalSim_of_inner {e e' : Engine}
    (h : PermRules.Forall₂ PermRules.NpSim e.netpols e'.netpols) (hv : NpValid e) : EvalSim e e' := by
  have hv' : NpValid e' := by
    intro np' hnp'
    obtain ⟨np, hnp, hs⟩ := h.mem_right hnp'
    exact ⟨hs.ingress.valid (hv np hnp).1, hs.egress.valid (hv np hnp).2⟩
  refine ⟨fun src dst hd => peerConns_inner h hv src dst hd, ?_, ?_, ?_⟩
  · intro pod i
    unfold isProtected
    exact h.any_eq (fun a b hab => PermRules.selects_sim hab pod _)
  · intro pod _ i
    rw [clusterWideConn_eq e hv, clusterWideConn_eq e' hv']
    congr 2
    exact forall₂_filter_map_eq_gen h (fun a _ b hab => PermRules.selects_sim hab pod _)
      (fun a ha b hab => cwOf_sim hab pod i (hv.rules ha _))
  · unfold disjointIPBlocks
    apply PermLayer.partition_perm
    exact (h.flatMap_perm (fun a b hab => PermRules.referencedIPBlocks_sim hab)).append_right _

/-! ### G4. `Exposure.build` on two inputs that differ in the inner order of their policies -/

theorem npsOf_sim {objs objs' : List Obj} (ho : PermRules.Forall₂ PermRules.ObjSim objs objs') :
    PermRules.Forall₂ PermRules.NpSim (npsOf objs) (npsOf objs') := by
  induction ho with
  | nil => exact .nil
  | @cons o o' l l' hoo _ ih =>
    cases hoo with
    | np hs => exact .cons hs ih
    | refl o =>
      cases o with
      | np p => exact .cons (PermRules.NpSim.refl p) ih
      | ns _ | wl _ | pod _ | anp _ | banp _ | svc _ | ing _ | route _ => exact ih

theorem npDefaulted_sim {p p' : NetPol} (h : PermRules.NpSim p p') :
    PermRules.NpSim (npDefaulted p) (npDefaulted p') := PermRules.normNp_sim h

theorem objSim_steps {o o' : Obj} (h : PermRules.ObjSim o o') :
    basicOK o = basicOK o' ∧ (∀ a, podStep a o = podStep a o') ∧ (∀ a, nsStep a o = nsStep a o') ∧
      (∀ B krp, keepObj B o krp = keepObj B o' krp) ∧ PermLayer.podsIn [o] = PermLayer.podsIn [o'] := by
  cases h with
  | np hs => exact ⟨rfl, fun _ => rfl, fun _ => rfl, fun _ _ => rfl, rfl⟩
  | refl o => exact ⟨rfl, fun _ => rfl, fun _ => rfl, fun _ _ => rfl, rfl⟩

theorem inner_folds {objs objs' : List Obj} (ho : PermRules.Forall₂ PermRules.ObjSim objs objs') :
    (∀ a, objs.foldl podStep a = objs'.foldl podStep a) ∧
    (∀ a, objs.foldl nsStep a = objs'.foldl nsStep a) ∧
    (∀ B krp, objs.all (fun o => keepObj B o krp) = objs'.all (fun o => keepObj B o krp)) ∧
    PermLayer.podsIn objs = PermLayer.podsIn objs' ∧
    ((∀ o ∈ objs, basicOK o = true) ↔ ∀ o ∈ objs', basicOK o = true) := by
  induction ho with
  | nil => exact ⟨fun _ => rfl, fun _ => rfl, fun _ _ => rfl, rfl, Iff.rfl⟩
  | @cons o o' l l' hoo _ ih =>
    obtain ⟨s1, s2, s3, s4, s5⟩ := objSim_steps hoo
    obtain ⟨i1, i2, i3, i4, i5⟩ := ih
    refine ⟨fun a => ?_, fun a => ?_, fun B krp => ?_, ?_, ?_⟩
    · rw [List.foldl_cons, List.foldl_cons, s2, i1]
    · rw [List.foldl_cons, List.foldl_cons, s3, i2]
    · rw [List.all_cons, List.all_cons, s4, i3]
    · rw [PermLayer.podsIn_cons, PermLayer.podsIn_cons o', s5, i4]
    · simp only [List.mem_cons, forall_eq_or_imp, s1, i5]

theorem nk_sim {p p' : NetPol} (h : PermRules.NpSim p p') :
    nk (npDefaulted p) = nk (npDefaulted p') := by
  have := npDefaulted_sim h
  unfold nk
  rw [this.ns, this.name]

theorem map_eq_of_forall₂ {α β γ : Type} {R : α → β → Prop} {f : α → γ} {g : β → γ} {l : List α}
    {l' : List β} (h : PermRules.Forall₂ R l l') (hfg : ∀ a b, R a b → f a = g b) :
    l.map f = l'.map g := by
  induction h with
  | nil => rfl
  | cons hab _ ih => rw [List.map_cons, List.map_cons, hfg _ _ hab, ih]

theorem xBuildOK_sim {objs objs' : List Obj} (ho : PermRules.Forall₂ PermRules.ObjSim objs objs')
    (h : XBuildOK objs) : XBuildOK objs' := by
  obtain ⟨_, _, _, _, i5⟩ := inner_folds ho
  refine ⟨i5.mp h.1, ?_⟩
  rw [← map_eq_of_forall₂ (npsOf_sim ho) (fun a b hab => nk_sim hab)]
  exact h.2

theorem allSels_sim {p p' : NetPol} (hs : PermRules.NpSim p p')
    (hv : (∀ r ∈ p.ingress, r.Valid) ∧ (∀ r ∈ p.egress, r.Valid)) :
    (allSels p).Perm (allSels p') := by
  unfold allSels
  exact (scanPure_sim hs .ingress hv.1).2.2.append (scanPure_sim hs .egress hv.2).2.2

theorem cands_sim {p p' : NetPol} (hs : PermRules.NpSim p p')
    (hv : (∀ r ∈ p.ingress, r.Valid) ∧ (∀ r ∈ p.egress, r.Valid)) :
    (cands p).Perm (cands p') := by
  unfold cands
  rw [← hs.ns]
  exact (allSels_sim hs hv).map _

theorem candsOf_sim {objs objs' : List Obj} (ho : PermRules.Forall₂ PermRules.ObjSim objs objs')
    (hv : PermLayer.NPRulesValid objs) : (candsOf objs).Perm (candsOf objs') := by
  unfold candsOf
  have h := (npsOf_sim ho).and_left (P := fun p => p ∈ npsOf objs) (fun p hp => hp)
  apply h.flatMap_perm
  intro p p' ⟨hs, hm⟩
  apply cands_sim (npDefaulted_sim hs)
  rw [(npDefaulted_rules p).1, (npDefaulted_rules p).2]
  exact hv p hm

theorem npRulesValid_sim {objs objs' : List Obj} (ho : PermRules.Forall₂ PermRules.ObjSim objs objs')
    (hv : PermLayer.NPRulesValid objs) : PermLayer.NPRulesValid objs' := by
  intro p' hp'
  obtain ⟨p, hp, hs⟩ := (npsOf_sim ho).mem_right hp'
  exact ⟨hs.ingress.valid (hv p hp).1, hs.egress.valid (hv p hp).2⟩

/-- **`Exposure.build` on two inputs that differ in the inner order of their NetworkPolicies** -/
theorem build_inner {objs objs' : List Obj} (ho : PermRules.Forall₂ PermRules.ObjSim objs objs')
    (hv : PermLayer.NPRulesValid objs) (hs : RepSpellings objs) {x : XEngine}
    (h : Exposure.build objs = .ok x) : ∃ x', Exposure.build objs' = .ok x' ∧ XSim x x' := by
  obtain ⟨x', h'⟩ := (build_isOk_iff objs').mpr (xBuildOK_sim ho ((build_isOk_iff objs).mp ⟨x, h⟩))
  refine ⟨x', h', ?_⟩
  obtain ⟨c, r⟩ := build_data h
  obtain ⟨c', r'⟩ := build_data h'
  obtain ⟨i1, i2, i3, _, _⟩ := inner_folds ho
  have hpods : x.eng.pods = x'.eng.pods := by rw [c.pods, c'.pods, i1]
  refine ⟨?_, by rw [hpods], ?_, ?_, ?_⟩
  · apply evalSim_of_inner _ (npValid_of_rules hv h)
    rw [c.nps, c'.nps, foldl_npStep, foldl_npStep]
    simp only [List.nil_append]
    exact (npsOf_sim ho).map (fun a b hab => npDefaulted_sim hab)
  · unfold podOwnersMap sortedPods
    rw [hpods]
  · intro k h1 h2
    have cn := c'.nss
    rw [← i2] at cn
    exact nsInv_agree c.nss cn k h1 h2
  · rw [r, r', ← i2]
    have hpred : (fun krp => objs.all (fun o => keepObj (objs.foldl nsStep []) o krp)) =
        (fun krp => objs'.all (fun o => keepObj (objs.foldl nsStep []) o krp)) := by
      funext krp
      exact i3 _ krp
    rw [hpred]
    apply List.Perm.filter
    have s1 := repsSpec_foldl (candsOf objs) repsSpec_nil
    have s2 := repsSpec_foldl (candsOf objs') repsSpec_nil
    simp only [List.nil_append] at s1 s2
    exact repsSpec_perm s1 s2 (fun c => (candsOf_sim ho hv).mem_iff) hs

/-- **C08, inner order, `list --exposure`**: the order of the rules of a NetworkPolicy, of the
peers and ports inside a rule and of `policyTypes` does not change the report -/
theorem runListX_rules_perm {objs objs' : List Obj}
    (ho : PermRules.Forall₂ PermRules.ObjSim objs objs')
    (hok : ∃ x, Exposure.build objs = .ok x)
    (hr : PermLayer.PodsReal objs) (hpp : PermLayer.PodPortsValid objs)
    (hv : PermLayer.NPRulesValid objs) (hs : RepSpellings objs) (focus : String)
    (hinj : EntriesPrintInj objs focus) :
    WorldDriver.runListX objs focus = WorldDriver.runListX objs' focus := by
  obtain ⟨x, h⟩ := hok
  obtain ⟨x', h', sim⟩ := build_inner ho hv hs h
  have hpi := (inner_folds ho).2.2.2.1
  have hr' : PermLayer.PodsReal objs' := by unfold PermLayer.PodsReal; rw [← hpi]; exact hr
  have hpp' : PermLayer.PodPortsValid objs' := by unfold PermLayer.PodPortsValid; rw [← hpi]; exact hpp
  exact runListX_of_sim h h' sim (build_facts hr hpp hv h)
    (build_facts hr' hpp' (npRulesValid_sim ho hv) h') focus hinj

/-- the inner order, without any assumption on the printer -/
theorem runListX_rules_perm_struct {objs objs' : List Obj}
    (ho : PermRules.Forall₂ PermRules.ObjSim objs objs')
    (hok : ∃ x, Exposure.build objs = .ok x)
    (hr : PermLayer.PodsReal objs) (hpp : PermLayer.PodPortsValid objs)
    (hv : PermLayer.NPRulesValid objs) (hs : RepSpellings objs) (focus : String) :
    ReportSim (WorldDriver.runListX objs focus) (WorldDriver.runListX objs' focus) := by
  obtain ⟨x, h⟩ := hok
  obtain ⟨x', h', sim⟩ := build_inner ho hv hs h
  have hpi := (inner_folds ho).2.2.2.1
  have hr' : PermLayer.PodsReal objs' := by unfold PermLayer.PodsReal; rw [← hpi]; exact hr
  have hpp' : PermLayer.PodPortsValid objs' := by unfold PermLayer.PodPortsValid; rw [← hpi]; exact hpp
  exact runListX_struct_of_sim h h' sim (build_facts hr hpp hv h)
    (build_facts hr' hpp' (npRulesValid_sim ho hv) h') focus

/-! ## H. the hypotheses as one decidable predicate; a non-vacuity example -/

instance (objs : List Obj) : Decidable (XBuildOK objs) := by unfold XBuildOK; infer_instance

/-- the decidable hypotheses of the order-independence theorems of `list --exposure` (all but the
statement about the opaque printer) -/
structure ListXWF (objs : List Obj) : Prop where
  accepted : XBuildOK objs
  keys : PermLayer.DistinctKeys objs
  real : PermLayer.PodsReal objs
  ports : PermLayer.PodPortsValid objs
  rules : PermLayer.NPRulesValid objs
  spellings : RepSpellingsS objs

instance (objs : List Obj) : Decidable (ListXWF objs) :=
  decidable_of_iff (XBuildOK objs ∧ PermLayer.DistinctKeys objs ∧ PermLayer.PodsReal objs ∧
      PermLayer.PodPortsValid objs ∧ PermLayer.NPRulesValid objs ∧ RepSpellingsS objs)
    ⟨fun ⟨a, b, c, d, e, f⟩ => ⟨a, b, c, d, e, f⟩, fun ⟨a, b, c, d, e, f⟩ => ⟨a, b, c, d, e, f⟩⟩

theorem RepSpellingsS.perm {objs objs' : List Obj} (hp : objs.Perm objs') (h : RepSpellingsS objs) :
    RepSpellingsS objs' := by
  have hc : (candPods objs).Perm (candPods objs') := (PermLayer.npsOf_perm hp).flatMap_right _
  exact ⟨fun p hp' => h.1 p (hc.mem_iff.mpr hp'),
    fun p hp' q hq' => h.2 p (hc.mem_iff.mpr hp') q (hc.mem_iff.mpr hq')⟩

theorem ListXWF.perm {objs objs' : List Obj} (hp : objs.Perm objs') (h : ListXWF objs) :
    ListXWF objs' :=
  ⟨h.accepted.perm hp, h.keys.perm hp, h.real.perm hp, h.ports.perm hp, h.rules.perm hp,
    h.spellings.perm hp⟩

/-- `runListX_perm` from the decidable hypotheses -/
theorem listx_order_independent {objs objs' : List Obj} (hp : objs.Perm objs') (h : ListXWF objs)
    (focus : String) (hinj : EntriesPrintInj objs focus) :
    WorldDriver.runListX objs focus = WorldDriver.runListX objs' focus :=
  runListX_perm hp ((build_isOk_iff objs).mpr h.accepted) h.keys h.real h.ports h.rules
    (repSpellings_of_S h.spellings) focus hinj

/-- `runListX_perm_struct` from the decidable hypotheses: no assumption on the printer -/
theorem listx_order_independent_struct {objs objs' : List Obj} (hp : objs.Perm objs')
    (h : ListXWF objs) (focus : String) :
    ReportSim (WorldDriver.runListX objs focus) (WorldDriver.runListX objs' focus) :=
  runListX_perm_struct hp ((build_isOk_iff objs).mpr h.accepted) h.keys h.real h.ports h.rules
    (repSpellings_of_S h.spellings) focus

/-- `runListX_rules_perm` from the decidable hypotheses (distinct keys are not needed: the objects
are met in the same order) -/
theorem listx_inner_order_independent {objs objs' : List Obj}
    (ho : PermRules.Forall₂ PermRules.ObjSim objs objs') (h : ListXWF objs) (focus : String)
    (hinj : EntriesPrintInj objs focus) :
    WorldDriver.runListX objs focus = WorldDriver.runListX objs' focus :=
  runListX_rules_perm ho ((build_isOk_iff objs).mpr h.accepted) h.real h.ports h.rules
    (repSpellings_of_S h.spellings) focus hinj

theorem listx_inner_order_independent_struct {objs objs' : List Obj}
    (ho : PermRules.Forall₂ PermRules.ObjSim objs objs') (h : ListXWF objs) (focus : String) :
    ReportSim (WorldDriver.runListX objs focus) (WorldDriver.runListX objs' focus) :=
  runListX_rules_perm_struct ho ((build_isOk_iff objs).mpr h.accepted) h.real h.ports h.rules
    (repSpellings_of_S h.spellings) focus

namespace Example

def selAll : Selector := ⟨[], []⟩
def nsDefault : NsObj := ⟨"default", [("team", "a")]⟩
/-- three replicas requested: two pods `web-1`, `web-2` -/
def web : Workload :=
  ⟨"Deployment", "default", "web", some 3, [("app", "web")], [⟨"http", .TCP, 8080⟩]⟩
def db1 : Pod :=
  { ns := "prod", name := "db-x1", labels := [("app", "db")], ports := [⟨"pg", .TCP, 5432⟩],
    ownerKind := "ReplicaSet", ownerName := "db" }
def db2 : Pod := { db1 with name := "db-x2", hostIP := "10.0.0.7" }
def client : Pod := { ns := "default", name := "client", labels := [("app", "client")], ports := [] }
def blk : NPPeer := .ip ⟨0x0A000000, 8⟩ [⟨0x0A010000, 16⟩]
def toDb : NPPeer := .sel (some ⟨[("app", "db")], []⟩) (some selAll)
def toAudit : NPPeer := .sel (some ⟨[("app", "audit")], []⟩) none

/-- selects `web`: ingress from `client` on the named port `http` (the representative peer of this
selector pair is matched by the real pod `client` and removed); egress to `blk` on TCP 443, and to
`db` in every namespace or `audit` in `default` on 5432 and the named port `pg` -/
def npWeb : NetPol :=
  { ns := "default", name := "web", podSel := ⟨[("app", "web")], []⟩, types := [],
    ingress := [⟨[.sel (some ⟨[("app", "client")], []⟩) none], [⟨none, .name "http"⟩]⟩],
    egress := [⟨[blk], [⟨none, .num 443 none⟩]⟩,
      ⟨[toDb, toAudit], [⟨none, .num 5432 none⟩, ⟨none, .name "pg"⟩]⟩] }
/-- the same policy written in another order -/
def npWeb' : NetPol :=
  { npWeb with
    egress := [⟨[toAudit, toDb], [⟨none, .name "pg"⟩, ⟨none, .num 5432 none⟩]⟩,
      ⟨[blk], [⟨none, .num 443 none⟩]⟩] }
/-- a second policy selecting `web` (namespace defaulted): a cluster-wide rule, and the selector of
`npWeb`'s ingress rule in another spelling (`app in (client)`): the same map key, the least spelling
of the two is kept whatever the order -/
def npWeb2 : NetPol :=
  { ns := "", name := "web-metrics", podSel := ⟨[("app", "web")], []⟩, types := [.ingress],
    ingress := [⟨[], [⟨none, .num 9090 (some 9100)⟩]⟩,
      ⟨[.sel (some ⟨[], [⟨"app", .In, ["client"]⟩]⟩) none], [⟨none, .num 8080 none⟩]⟩], egress := [] }
def npDb : NetPol :=
  { ns := "prod", name := "db", podSel := ⟨[("app", "db")], []⟩, types := [.ingress],
    ingress := [⟨[.sel (some ⟨[("app", "web")], []⟩) (some ⟨[("team", "a")], []⟩)],
      [⟨none, .name "pg"⟩]⟩], egress := [] }

def objs : List Obj :=
  [.np npWeb, .ns nsDefault, .wl web, .pod db1, .pod client, .pod db2, .np npDb, .np npWeb2]
def objs' : List Obj :=
  [.np npWeb', .ns nsDefault, .wl web, .pod db1, .pod client, .pod db2, .np npDb, .np npWeb2]

set_option maxRecDepth 100000 in
/-- the hypotheses hold (`maxRecDepth`: the spellings are long strings) -/
theorem objs_wf : ListXWF objs := by decide

set_option maxRecDepth 100000 in
/-- … and are not trivially true: five candidates for representative peers under four map keys -/
example : (candPods objs).length = 5 ∧ ((candPods objs).map spellingS).Nodup := by decide

theorem objs_sim : PermRules.Forall₂ PermRules.ObjSim objs objs' := by decide

example (focus : String) (hinj : EntriesPrintInj objs focus) :
    WorldDriver.runListX objs focus = WorldDriver.runListX objs.reverse focus :=
  listx_order_independent (List.reverse_perm objs).symm objs_wf focus hinj

example (focus : String) :
    ReportSim (WorldDriver.runListX objs focus) (WorldDriver.runListX objs.reverse focus) :=
  listx_order_independent_struct (List.reverse_perm objs).symm objs_wf focus

example (focus : String) (hinj : EntriesPrintInj objs focus) :
    WorldDriver.runListX objs focus = WorldDriver.runListX objs' focus :=
  listx_inner_order_independent objs_sim objs_wf focus hinj

end Example

end Netpol.PermExposure
