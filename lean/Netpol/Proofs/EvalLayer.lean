import Netpol.Proofs.EngineLayer
import Netpol.Proofs.CacheLayer

/-! The evaluation layer: the rule-walking path of `eval` / `CheckIfAllowed`
(`Netpol.Model.Cache`: `npRuleConnsContain`, `npAllowedConn`, `adminCheck`, `byANPs`, `byNetpols`,
`byBANP`, `xgress`; packaged without cache as `EState.xg` / `EState.verdict` in
`Netpol.Proofs.CacheLayer`) computes the pointwise specification `Netpol.Spec` at the queried
point, hence agrees with the connection-set path of `list` (`Engine.peerConns`, characterised in
`Netpol.Proofs.EngineLayer`). Core Lean only. -/
namespace Netpol
open EState

/-! ### the query strings

`String.toInt?` and `String.toUpper` do not reduce in the kernel, and parsing is not what is
verified here: the two query strings enter through the values they parse to. -/

/-- the query strings `proto`, `port` parse to the point `(pr, n)` (protocol names are compared
case-insensitively, `strings.EqualFold`; the port is a decimal integer, `strconv.ParseInt`) -/
structure EState.Parses (proto port : String) (pr : Proto) (n : Int) : Prop where
  hproto : Proto.ofStrFold? proto = some pr
  hport : port.toInt? = some n

/-- the empty string is no protocol name (kernel evaluation of `String.toUpper`) -/
theorem Proto.ofStrFold?_empty : Proto.ofStrFold? "" = none := by decide +kernel

/-- the test `protocol == "" && port == ""` of the Go code fails on strings that parse -/
theorem EState.Parses.notBothEmpty {proto port : String} {pr : Proto} {n : Int}
    (h : Parses proto port pr n) : (proto == "" && port == "") = false := by
  by_cases hp : proto = ""
  · have := h.hproto
    rw [hp, Proto.ofStrFold?_empty] at this
    cases this
  · have : (proto == "") = false := by simpa using hp
    rw [this]
    rfl

/-! ### 1. one port clause of a NetworkPolicy rule -/

theorem NetPol.rulePortContains_some (rulePr pr : Proto) (s e n : Int) :
    NetPol.rulePortContains rulePr (some pr) s e n =
      (rulePr == pr && !NetPol.isEmptyPortRange s e && decide (s ≤ n ∧ n ≤ e)) := by
  unfold NetPol.rulePortContains
  by_cases h : rulePr = pr
  · subst h
    cases NetPol.isEmptyPortRange s e <;> simp
  · have : (some rulePr != some pr) = true := by simp [h]
    simp [h]

/-- what one port clause answers in the walk of `ruleConnsContain` -/
def NetPol.portContains (q : NPPort) (pr : Option Proto) (n : Int) (dst : KPeer) : Except Err Bool :=
  match q.kind with
  | .all => .ok (some (q.proto.getD .TCP) == pr)
  | _ => do
    let (s, e, _) ← NetPol.portsRange q (some dst)
    pure (NetPol.rulePortContains (q.proto.getD .TCP) pr s e n)

theorem NetPol.ruleConnsContain.go_nil (pr : Option Proto) (n : Int) (dst : KPeer) :
    NetPol.ruleConnsContain.go pr n dst [] = .ok false := rfl

theorem NetPol.ruleConnsContain.go_cons (pr : Option Proto) (n : Int) (dst : KPeer) (q : NPPort)
    (rest : List NPPort) :
    NetPol.ruleConnsContain.go pr n dst (q :: rest) =
      (NetPol.portContains q pr n dst >>= fun b =>
        if b then pure true else NetPol.ruleConnsContain.go pr n dst rest) := by
  rw [NetPol.ruleConnsContain.go]
  unfold NetPol.portContains
  cases hk : q.kind with
  | all =>
    simp only [bind, Except.bind]
    by_cases h : (some (q.proto.getD .TCP) == pr) = true
    · simp [h]; rfl
    · simp [h]
  | num a e =>
    simp only []
    cases NetPol.portsRange q (some dst) with
    | error err => rfl
    | ok v => rfl
  | name nm =>
    simp only []
    cases NetPol.portsRange q (some dst) with
    | error err => rfl
    | ok v => rfl

/-- a port clause towards a pod (real or not: only the container ports are read) -/
theorem NetPol.portContains_pod (q : NPPort) (p : Pod) (ns : Option NsObj) (l : Labels)
    (pr : Proto) (n : Int) (hn : inRange n) :
    NetPol.portContains q (some pr) n (.pod p ns) = .ok (Spec.npPortMatches q (.pod p l) pr n) := by
  have hn1 : n ≠ -1 := by have := hn.1; omega
  unfold NetPol.portContains Spec.npPortMatches
  cases hk : q.kind with
  | all => simp
  | num a e =>
    simp only [NetPol.portsRange, hk, bind, Except.bind, pure, Except.pure,
      NetPol.rulePortContains_some]
    congr 1
    by_cases hem : NetPol.isEmptyPortRange a (e.getD a) = true
    · simp only [NetPol.isEmptyPortRange, noPort, Bool.and_eq_true, beq_iff_eq] at hem
      have : ¬ (a ≤ n ∧ n ≤ e.getD a) := by omega
      simp [this]
    · simp only [Bool.not_eq_true] at hem
      simp [hem]
  | name nm =>
    simp only [NetPol.portsRange, hk, Pod.convertNamedPort]
    cases hf : p.ports.find? (fun c => c.name == nm) with
    | none =>
      simp [bind, Except.bind, pure, Except.pure, NetPol.rulePortContains_some,
        NetPol.isEmptyPortRange_noPort]
    | some c =>
      by_cases hpr : c.proto = q.proto.getD .TCP
      · simp only [Option.map_some, hpr, bne_self_eq_false, Bool.false_eq_true, if_false, bind,
          Except.bind, pure, Except.pure, NetPol.rulePortContains_some]
        congr 1
        cases (q.proto.getD .TCP == pr)
        · rfl
        · by_cases hcn : c.port = n
          · have : NetPol.isEmptyPortRange n n = false := by
              simp [NetPol.isEmptyPortRange, noPort, hn1]
            simp [hcn, this]
          · have : ¬ (c.port ≤ n ∧ n ≤ c.port) := by omega
            simp [hcn, this]
      · have hne : (c.proto != q.proto.getD .TCP) = true := by simp [hpr]
        simp only [Option.map_some, hne, if_true, bind, Except.bind, pure, Except.pure,
          NetPol.rulePortContains_some, NetPol.isEmptyPortRange_noPort]
        congr 1
        by_cases hpp : q.proto.getD .TCP = pr
        · have : (c.proto == pr) = false := by simp [← hpp, hpr]
          simp [this]
        · simp [hpp]

/-- a port clause that is not a named port, towards an IP block -/
theorem NetPol.portContains_ip (q : NPPort) (r : CSet) (a : Int) (pr : Proto) (n : Int)
    (hn : inRange n) (hq : ¬ q.isNamed) :
    NetPol.portContains q (some pr) n (.ip r) = .ok (Spec.npPortMatches q (.ip a) pr n) := by
  unfold NetPol.portContains Spec.npPortMatches
  cases hk : q.kind with
  | all => simp
  | num x e =>
    simp only [NetPol.portsRange, hk, bind, Except.bind, pure, Except.pure,
      NetPol.rulePortContains_some]
    congr 1
    by_cases hem : NetPol.isEmptyPortRange x (e.getD x) = true
    · simp only [NetPol.isEmptyPortRange, noPort, Bool.and_eq_true, beq_iff_eq] at hem
      have := hn.1
      have : ¬ (x ≤ n ∧ n ≤ e.getD x) := by omega
      simp [this]
    · simp only [Bool.not_eq_true] at hem
      simp [hem]
  | name nm => exact absurd ⟨nm, hk⟩ hq

/-- a named port towards an IP block: the walk fails when it gets there -/
theorem NetPol.portContains_ip_named (q : NPPort) (r : CSet) (pr : Option Proto) (n : Int)
    (hq : q.isNamed) : NetPol.portContains q pr n (.ip r) = .error .namedPortOnIP := by
  obtain ⟨nm, hk⟩ := hq
  simp only [NetPol.portContains, hk, NetPol.portsRange]
  rfl

/-- the three cases together: a clause answers what the specification says, or it is a named port
towards an IP block (which the specification matches with nothing) and fails -/
theorem NetPol.portContains_cases (q : NPPort) (dst : KPeer) (b : Int) (pr : Proto) (n : Int)
    (hn : inRange n) :
    NetPol.portContains q (some pr) n dst = .ok (Spec.npPortMatches q (dst.toEnd b) pr n) ∨
    (NetPol.portContains q (some pr) n dst = .error .namedPortOnIP ∧ dst.isPod = false ∧
      q.isNamed ∧ Spec.npPortMatches q (dst.toEnd b) pr n = false) := by
  cases dst with
  | pod p ns =>
    left
    cases ns with
    | none => exact NetPol.portContains_pod q p none [] pr n hn
    | some nso => exact NetPol.portContains_pod q p (some nso) nso.labels pr n hn
  | ip r =>
    by_cases hq : q.isNamed
    · exact Or.inr ⟨NetPol.portContains_ip_named q r _ n hq, rfl, hq,
        Spec.npPortMatches_named_ip hq b pr n⟩
    · exact Or.inl (NetPol.portContains_ip q r b pr n hn hq)

/-! ### 2. the port walk of one rule: `ruleConnsContain` / `npRuleConnsContain` -/

/-- the walk over the port clauses: an answer is the specification's `any`; the only failure is a
named port towards an IP block -/
theorem NetPol.ruleConnsContain_go_spec (ports : List NPPort) (dst : KPeer) (b : Int) (pr : Proto)
    (n : Int) (hn : inRange n) :
    (∀ v, NetPol.ruleConnsContain.go (some pr) n dst ports = .ok v →
      v = ports.any (Spec.npPortMatches · (dst.toEnd b) pr n)) ∧
    (∀ err, NetPol.ruleConnsContain.go (some pr) n dst ports = .error err →
      err = .namedPortOnIP ∧ dst.isPod = false ∧ ∃ q ∈ ports, q.isNamed) ∧
    ((dst.isPod = true ∨ ∀ q ∈ ports, ¬ q.isNamed) →
      NetPol.ruleConnsContain.go (some pr) n dst ports =
        .ok (ports.any (Spec.npPortMatches · (dst.toEnd b) pr n))) := by
  induction ports with
  | nil =>
    refine ⟨fun v h => ?_, fun err h => ?_, fun _ => rfl⟩
    · cases h; rfl
    · cases h
  | cons q rest ih =>
    obtain ⟨ih1, ih2, ih3⟩ := ih
    rw [NetPol.ruleConnsContain.go_cons, List.any_cons]
    rcases NetPol.portContains_cases q dst b pr n hn with h | ⟨h, hip, hq, hsp⟩
    · rw [h]
      cases hm : Spec.npPortMatches q (dst.toEnd b) pr n
      · simp only [bind, Except.bind, Bool.false_eq_true, if_false, Bool.false_or]
        refine ⟨ih1, fun err he => ?_, fun hc => ?_⟩
        · obtain ⟨h1, h2, q', hq', h3⟩ := ih2 err he
          exact ⟨h1, h2, q', List.mem_cons_of_mem _ hq', h3⟩
        · exact ih3 (hc.imp id (fun hc q' hq' => hc q' (List.mem_cons_of_mem _ hq')))
      · simp only [bind, Except.bind, if_true, Bool.true_or]
        refine ⟨fun v hv => ?_, fun err he => ?_, fun _ => rfl⟩
        · cases hv; rfl
        · cases he
    · rw [h]
      refine ⟨fun v hv => ?_, fun err he => ?_, fun hc => ?_⟩
      · cases hv
      · cases he
        exact ⟨rfl, hip, q, List.mem_cons_self .., hq⟩
      · rcases hc with hc | hc
        · rw [hip] at hc; cases hc
        · exact absurd hq (hc q (List.mem_cons_self ..))

/-- `npRuleConnsContain` on query strings that parse: the test on the empty port list, then the
walk -/
theorem EState.npRuleConnsContain_eq (ports : List NPPort) {proto port : String} {pr : Proto}
    {n : Int} (hq : Parses proto port pr n) (dst : KPeer) :
    npRuleConnsContain ports proto port dst =
      if ports.isEmpty then .ok true else NetPol.ruleConnsContain.go (some pr) n dst ports := by
  unfold npRuleConnsContain
  cases he : ports.isEmpty
  · simp only [Bool.false_eq_true, if_false, hq.notBothEmpty, hq.hport, hq.hproto,
      NetPol.ruleConnsContain, he]
  · rfl

/-- **point lemma (rule ports).** `npRuleConnsContain` against `Spec.npPortMatches`: an answer is
the specification's; the only failure is `namedPortOnIP`, towards an IP block, with a named port in
the rule; towards a pod, or without named ports, it answers. -/
theorem EState.npRuleConnsContain_spec (ports : List NPPort) {proto port : String} {pr : Proto}
    {n : Int} (hq : Parses proto port pr n) (hn : inRange n) (dst : KPeer) (b : Int) :
    (∀ v, npRuleConnsContain ports proto port dst = .ok v →
      v = (ports.isEmpty || ports.any (Spec.npPortMatches · (dst.toEnd b) pr n))) ∧
    (∀ err, npRuleConnsContain ports proto port dst = .error err →
      err = .namedPortOnIP ∧ dst.isPod = false ∧ ∃ q ∈ ports, q.isNamed) ∧
    ((dst.isPod = true ∨ ∀ q ∈ ports, ¬ q.isNamed) →
      npRuleConnsContain ports proto port dst =
        .ok (ports.isEmpty || ports.any (Spec.npPortMatches · (dst.toEnd b) pr n))) := by
  rw [npRuleConnsContain_eq ports hq dst]
  cases he : ports.isEmpty
  · simp only [Bool.false_eq_true, if_false, Bool.false_or]
    exact NetPol.ruleConnsContain_go_spec ports dst b pr n hn
  · simp only [if_true, Bool.true_or]
    refine ⟨fun v h => ?_, fun err h => ?_, ?_⟩
    · cases h; rfl
    · cases h
    · intro _; trivial

/-- towards a pod (the form of the task statement) -/
theorem EState.npRuleConnsContain_pod (ports : List NPPort) {proto port : String} {pr : Proto}
    {n : Int} (hq : Parses proto port pr n) (hn : inRange n) (p : Pod) (ns : Option NsObj) :
    npRuleConnsContain ports proto port (.pod p ns) =
      .ok (ports.isEmpty || ports.any (Spec.npPortMatches · ((KPeer.pod p ns).toEnd 0) pr n)) :=
  (npRuleConnsContain_spec ports hq hn (.pod p ns) 0).2.2 (Or.inl rfl)

/-- towards an IP block, no named port in the rule -/
theorem EState.npRuleConnsContain_ip (ports : List NPPort) {proto port : String} {pr : Proto}
    {n : Int} (hq : Parses proto port pr n) (hn : inRange n) (r : CSet) (a : Int)
    (hnn : ∀ q ∈ ports, ¬ q.isNamed) :
    npRuleConnsContain ports proto port (.ip r) =
      .ok (ports.isEmpty || ports.any (Spec.npPortMatches · (.ip a) pr n)) :=
  (npRuleConnsContain_spec ports hq hn (.ip r) a).2.2 (Or.inr hnn)

/-! ### 3. the rule walk of one NetworkPolicy: `npAllowedConn` -/

theorem EState.npAllowedConn_go_nil (np : NetPol) (other : KPeer) (proto port : String)
    (dst : KPeer) : npAllowedConn.go np other proto port dst [] = .ok false := rfl

/-- **point lemma (rules of a policy).** The walk stops at the first rule that allows the point:
an answer is the specification's `any` over the rules; the only failure is a named port towards an
IP block in a rule that selects the other end (and is reached); towards a pod, or without named
ports, the walk answers. -/
theorem EState.npAllowedConn_go_spec (np : NetPol) (other dst : KPeer) (a b : Int)
    (ho : other.Concrete a) {proto port : String} {pr : Proto} {n : Int}
    (hq : Parses proto port pr n) (hn : inRange n) (rules : List NPRule)
    (hv : ∀ r ∈ rules, r.Valid) :
    (∀ v, npAllowedConn.go np other proto port dst rules = .ok v →
      v = rules.any (Spec.npRuleAllows np · (other.toEnd a) (dst.toEnd b) pr n)) ∧
    (∀ err, npAllowedConn.go np other proto port dst rules = .error err →
      err = .namedPortOnIP ∧ dst.isPod = false ∧
        ∃ r ∈ rules, Spec.npRuleSelects np r (other.toEnd a) = true ∧ ∃ q ∈ r.ports, q.isNamed) ∧
    ((dst.isPod = true ∨ ∀ r ∈ rules, ∀ q ∈ r.ports, ¬ q.isNamed) →
      npAllowedConn.go np other proto port dst rules =
        .ok (rules.any (Spec.npRuleAllows np · (other.toEnd a) (dst.toEnd b) pr n))) := by
  induction rules with
  | nil =>
    refine ⟨fun v h => ?_, fun err h => ?_, fun _ => rfl⟩
    · cases h; rfl
    · cases h
  | cons r rest ih =>
    obtain ⟨ih1, ih2, ih3⟩ := ih (fun r' h => hv r' (List.mem_cons_of_mem _ h))
    have hr := hv r (List.mem_cons_self ..)
    have hsel : np.ruleSelectsPeer r.peers other = .ok (Spec.npRuleSelects np r (other.toEnd a)) :=
      NetPol.ruleSelectsPeer_concrete np r.peers other a ho hr.2
    rw [npAllowedConn_go_cons, hsel, List.any_cons, Spec.npRuleAllows_eq]
    cases hS : Spec.npRuleSelects np r (other.toEnd a)
    · -- the rule does not select the other end
      simp only [bind, Except.bind, Bool.not_false, if_true, Bool.false_and, Bool.false_or]
      refine ⟨ih1, fun err he => ?_, fun hc => ?_⟩
      · obtain ⟨h1, h2, r', hr', h3⟩ := ih2 err he
        exact ⟨h1, h2, r', List.mem_cons_of_mem _ hr', h3⟩
      · exact ih3 (hc.imp id (fun hc r' hr' => hc r' (List.mem_cons_of_mem _ hr')))
    · simp only [bind, Except.bind, Bool.not_true, Bool.false_eq_true, if_false, Bool.true_and]
      obtain ⟨r1, r2, r3⟩ := npRuleConnsContain_spec r.ports hq hn dst b
      cases hc : npRuleConnsContain r.ports proto port dst with
      | error err' =>
        obtain ⟨e1, e2, e3⟩ := r2 err' hc
        refine ⟨fun v h => ?_, fun err h => ?_, fun hcond => ?_⟩
        · cases h
        · cases h
          rw [← hS] at *
          exact ⟨e1, e2, r, List.mem_cons_self .., rfl, e3⟩
        · rw [r3 (hcond.imp id (fun hc => hc r (List.mem_cons_self ..)))] at hc
          cases hc
      | ok v =>
        have hv' := r1 v hc
        rw [← hv']
        cases v
        · simp only [Bool.false_eq_true, if_false, Bool.false_or]
          refine ⟨ih1, fun err he => ?_, fun hcond => ?_⟩
          · obtain ⟨h1, h2, r', hr', h3⟩ := ih2 err he
            exact ⟨h1, h2, r', List.mem_cons_of_mem _ hr', h3⟩
          · exact ih3 (hcond.imp id (fun hc r' hr' => hc r' (List.mem_cons_of_mem _ hr')))
        · simp only [if_true, Bool.true_or]
          refine ⟨fun v h => ?_, fun err h => ?_, fun _ => rfl⟩
          · cases h; rfl
          · cases h

/-- `npAllowedConn`, success: the answer is "some rule allows the point" -/
theorem EState.npAllowedConn_ok (np : NetPol) (rules : List NPRule) (other dst : KPeer) (a b : Int)
    (ho : other.Concrete a) (hv : ∀ r ∈ rules, r.Valid) {proto port : String} {pr : Proto} {n : Int}
    (hq : Parses proto port pr n) (hn : inRange n) (v : Bool)
    (h : npAllowedConn np rules other proto port dst = .ok v) :
    v = rules.any (Spec.npRuleAllows np · (other.toEnd a) (dst.toEnd b) pr n) :=
  (npAllowedConn_go_spec np other dst a b ho hq hn rules hv).1 v h

/-- `npAllowedConn`, failure: only a named port towards an IP block, in a rule selecting the other
end. (An error in a rule after the first allowing one is never reached: this is one direction.) -/
theorem EState.npAllowedConn_err (np : NetPol) (rules : List NPRule) (other dst : KPeer) (a : Int)
    (ho : other.Concrete a) (hv : ∀ r ∈ rules, r.Valid) {proto port : String} {pr : Proto} {n : Int}
    (hq : Parses proto port pr n) (hn : inRange n) (err : Err)
    (h : npAllowedConn np rules other proto port dst = .error err) :
    err = .namedPortOnIP ∧ dst.isPod = false ∧
      ∃ r ∈ rules, Spec.npRuleSelects np r (other.toEnd a) = true ∧ ∃ q ∈ r.ports, q.isNamed :=
  (npAllowedConn_go_spec np other dst a 0 ho hq hn rules hv).2.1 err h

/-- `npAllowedConn` towards a pod never fails -/
theorem EState.npAllowedConn_pod (np : NetPol) (rules : List NPRule) (other : KPeer) (p : Pod)
    (ns : Option NsObj) (a : Int) (ho : other.Concrete a) (hv : ∀ r ∈ rules, r.Valid)
    {proto port : String} {pr : Proto} {n : Int} (hq : Parses proto port pr n) (hn : inRange n) :
    npAllowedConn np rules other proto port (.pod p ns) =
      .ok (rules.any (Spec.npRuleAllows np · (other.toEnd a) ((KPeer.pod p ns).toEnd 0) pr n)) :=
  (npAllowedConn_go_spec np other (.pod p ns) a 0 ho hq hn rules hv).2.2 (Or.inl rfl)

/-- **the rule walk answers whenever the connection-set loop does.** If `allowedConns` (the loop
of `list`, which examines every rule) returns a set, the walk of `eval` returns an answer: no
selecting rule fails. (The converse does not hold: the walk stops at the first rule that allows the
point and never sees a failing rule behind it, while the loop of `list` does.) The hypothesis on
the accumulator is kept from the time the loop had an early exit on All Connections. -/
theorem EState.npAllowedConn_go_total (np : NetPol) (other dst : KPeer) (a b : Int)
    (ho : other.Concrete a) (hd : dst.DstOK) {proto port : String} {pr : Proto} {n : Int}
    (hq : Parses proto port pr n) (hn : inRange n) (rules : List NPRule)
    (hv : ∀ r ∈ rules, r.Valid) (res : ConnSet) (hcan : res.Canonical) (hres : ¬ res.den pr n)
    (c : ConnSet) (h : NetPol.allowedConns.go np other dst res rules = .ok c) :
    ∃ v, npAllowedConn.go np other proto port dst rules = .ok v := by
  induction rules generalizing res with
  | nil => exact ⟨false, rfl⟩
  | cons r rest ih =>
    have hv' : ∀ r' ∈ rest, r'.Valid := fun r' h => hv r' (List.mem_cons_of_mem _ h)
    have hr := hv r (List.mem_cons_self ..)
    have hsel : np.ruleSelectsPeer r.peers other = .ok (Spec.npRuleSelects np r (other.toEnd a)) :=
      NetPol.ruleSelectsPeer_concrete np r.peers other a ho hr.2
    rw [NetPol.allowedConns.go_cons, hsel] at h
    rw [npAllowedConn_go_cons, hsel]
    cases hS : Spec.npRuleSelects np r (other.toEnd a)
    · rw [hS] at h
      simp only [bind, Except.bind, Bool.not_false, if_true] at h ⊢
      exact ih hv' res hcan hres h
    · rw [hS] at h
      simp only [bind, Except.bind, Bool.not_true, Bool.false_eq_true, if_false] at h ⊢
      cases hrc : NetPol.ruleConnections r.ports (some dst) with
      | error e' => rw [hrc] at h; cases h
      | ok rc =>
        rw [hrc] at h
        simp only at h
        obtain ⟨hw, _, hden⟩ := NetPol.ruleConnections_dst_ok r.ports dst b hd hr.1 rc hrc
        have hnamed : dst.isPod = true ∨ ∀ q ∈ r.ports, ¬ q.isNamed := by
          cases dst with
          | pod p ns => exact Or.inl rfl
          | ip x =>
            refine Or.inr (fun q hq' hqn => ?_)
            rw [NetPol.ruleConnections_ip_named r.ports x ⟨q, hq', hqn⟩] at hrc
            cases hrc
        rw [(npRuleConnsContain_spec r.ports hq hn dst b).2.2 hnamed]
        cases hm : (r.ports.isEmpty || r.ports.any (Spec.npPortMatches · (dst.toEnd b) pr n))
        · simp only [Bool.false_eq_true, if_false]
          have hnrc : ¬ rc.den pr n := by
            rw [hden, hm]
            simp
          have hcan' : (res.union rc).Canonical := ConnSet.canonical_union_wfe hcan hw
          have hnu : ¬ (res.union rc).den pr n := by
            rw [ConnSet.den_union_wfe hcan.1 hw]
            exact fun hh => hh.elim hres hnrc
          exact ih hv' (res.union rc) hcan' hnu h
        · exact ⟨true, rfl⟩

/-- the same for the whole of `allowedConns` / `npAllowedConn` -/
theorem EState.npAllowedConn_total (np : NetPol) (rules : List NPRule) (other dst : KPeer)
    (a : Int) (ho : other.Concrete a) (hd : dst.DstOK) (hv : ∀ r ∈ rules, r.Valid)
    {proto port : String} {pr : Proto} {n : Int} (hq : Parses proto port pr n) (hn : inRange n)
    (c : ConnSet) (h : np.allowedConns rules other dst = .ok c) :
    ∃ v, npAllowedConn np rules other proto port dst = .ok v :=
  npAllowedConn_go_total np other dst a 0 ho hd hq hn rules hv (ConnSet.mk' false)
    (ConnSet.canonical_mk false) (ConnSet.den_mk_none pr n) c h

/-! ### 4. admin policies: `anpPortContains`, `adminCheck` -/

theorem NetPol.rulePortContains_inRange (q pr : Proto) (a b n : Int) (hn : inRange n) :
    NetPol.rulePortContains q (some pr) a b n = (q == pr && decide (a ≤ n ∧ n ≤ b)) := by
  rw [NetPol.rulePortContains_some]
  by_cases hem : NetPol.isEmptyPortRange a b = true
  · simp only [NetPol.isEmptyPortRange, noPort, Bool.and_eq_true, beq_iff_eq] at hem
    have := hn.1
    have : ¬ (a ≤ n ∧ n ≤ b) := by omega
    simp [this]
  · simp only [Bool.not_eq_true] at hem
    simp [hem]

/-- `ARule.portContains` against `Spec.aPortMatches` at an in-range point -/
theorem ARule.portContains_spec (ports : Option (List APort)) (dst : KPeer) (pr : Proto) (n : Int)
    (hn : inRange n) :
    ARule.portContains ports (some pr) n dst =
      (match ports with
        | none => true
        | some ps => ps.any (Spec.aPortMatches · dst.toEnd' pr n)) := by
  cases ports with
  | none => rfl
  | some ps =>
    simp only [ARule.portContains]
    congr 1
    funext ap
    cases ap with
    | num rpr x =>
      show NetPol.rulePortContains (rpr.getD .TCP) (some pr) x x n = _
      rw [NetPol.rulePortContains_inRange _ _ _ _ _ hn]
      simp only [Spec.aPortMatches]
      congr 1
      by_cases h : n = x
      · subst h; simp
      · have : ¬ (x ≤ n ∧ n ≤ x) := by omega
        simp [this, h]
    | range rpr x y =>
      show NetPol.rulePortContains (rpr.getD .TCP) (some pr) x y n = _
      rw [NetPol.rulePortContains_inRange _ _ _ _ _ hn]
      rfl
    | named nm =>
      cases dst with
      | ip r => rfl
      | pod p ns =>
        have hend : ∃ l, (KPeer.pod p ns).toEnd' = .pod p l := by
          cases ns with
          | none => exact ⟨_, rfl⟩
          | some x => exact ⟨_, rfl⟩
        obtain ⟨l, hl⟩ := hend
        rw [hl]
        simp only [Pod.convertNamedPort, Spec.aPortMatches]
        cases hf : p.ports.find? (fun c => c.name == nm) with
        | none => rfl
        | some c =>
          simp only [Option.map_some]
          rw [NetPol.rulePortContains_inRange _ _ _ _ _ hn]
          congr 1
          by_cases h : c.port = n
          · subst h; simp
          · have : ¬ (c.port ≤ n ∧ n ≤ c.port) := by omega
            simp [this, h]

theorem EState.anpPortContains_eq (ports : Option (List APort)) {proto port : String} {pr : Proto}
    {n : Int} (hq : Parses proto port pr n) (dst : KPeer) :
    anpPortContains ports proto port dst = .ok (ARule.portContains ports (some pr) n dst) := by
  unfold anpPortContains
  cases ports with
  | none => rfl
  | some ps => simp only [hq.notBothEmpty, hq.hport, hq.hproto, Bool.false_eq_true, if_false]

theorem adminPolicyCheck_go_cons (other dst : KPeer) (pr : Option Proto) (n : Int) (banp : Bool)
    (r : ARule) (rest : List ARule) :
    adminPolicyCheck.go other dst pr n banp (r :: rest) =
      if r.peers.isEmpty then .error .anpRulePeers
      else if !r.selectsPeer other then adminPolicyCheck.go other dst pr n banp rest
      else if !ARule.portContains r.ports pr n dst then adminPolicyCheck.go other dst pr n banp rest
      else match r.action with
        | .Pass => if banp then .error .badAction else .ok .pass
        | .Allow => .ok .allow
        | .Deny => .ok .deny := rfl

/-- on query strings that parse, `adminCheck` (the string twin) is `adminPolicyCheck` -/
theorem EState.adminCheck_eq_adminPolicyCheck (rules : List ARule) (other dst : KPeer)
    {proto port : String} {pr : Proto} {n : Int} (hq : Parses proto port pr n) (banp : Bool) :
    adminCheck rules other dst proto port banp =
      adminPolicyCheck rules other dst (some pr) n banp := by
  unfold adminCheck adminPolicyCheck
  induction rules with
  | nil => rfl
  | cons r rest ih =>
    rw [adminCheck_go_cons, adminPolicyCheck_go_cons, ih, anpPortContains_eq r.ports hq dst]
    rfl

/-- the encoding of a first-match verdict as a `RuleRes` -/
def RuleRes.ofVerdict : Option Action → RuleRes
  | none => .notCaptured
  | some .Allow => .allow
  | some .Deny => .deny
  | some .Pass => .pass

theorem Spec.aRuleMatches_eq (r : ARule) (other dst : KPeer) (pr : Proto) (n : Int)
    (hn : inRange n) :
    Spec.aRuleMatches r other.toEnd' dst.toEnd' pr n =
      (r.selectsPeer other && ARule.portContains r.ports (some pr) n dst) := by
  rw [ARule.selectsPeer_eq, ARule.portContains_spec r.ports dst pr n hn]
  rfl

/-- **point lemma (admin rules).** `adminCheck` against `Spec.firstMatch`: under `ListValid` (and,
for the baseline policy, no `Pass` action) it never fails and answers the action of the first
matching rule: `notCaptured` ↔ `none`, `pass` / `allow` / `deny` ↔ `some` action. -/
theorem EState.adminCheck_spec (rules : List ARule) (other dst : KPeer) {proto port : String}
    {pr : Proto} {n : Int} (hq : Parses proto port pr n) (hn : inRange n) (banp : Bool)
    (hr : ARule.ListValid rules) (hb : banp = true → ∀ r ∈ rules, r.action ≠ .Pass) :
    adminCheck rules other dst proto port banp =
      .ok (RuleRes.ofVerdict (Spec.firstMatch rules other.toEnd' dst.toEnd' pr n)) := by
  unfold adminCheck
  induction rules with
  | nil => rfl
  | cons r rest ih =>
    have ih' := ih (fun q h => hr q (List.mem_cons_of_mem _ h))
      (fun h q hq' => hb h q (List.mem_cons_of_mem _ hq'))
    obtain ⟨hpe, _⟩ := hr r (List.mem_cons_self ..)
    have hpe' : r.peers.isEmpty = false := by
      cases h : r.peers with
      | nil => exact absurd h hpe
      | cons _ _ => rfl
    rw [adminCheck_go_cons, hpe', anpPortContains_eq r.ports hq dst, Spec.firstMatch_cons,
      Spec.aRuleMatches_eq r other dst pr n hn, ih']
    simp only [Bool.false_eq_true, if_false]
    cases hsel : r.selectsPeer other
    · simp
    · cases hpc : ARule.portContains r.ports (some pr) n dst
      · simp [bind, Except.bind]
      · simp only [bind, Except.bind, Bool.not_true, Bool.false_eq_true, if_false, Bool.and_self,
          if_true]
        cases hact : r.action with
        | Allow => rfl
        | Deny => rfl
        | Pass =>
          cases banp
          · rfl
          · exact absurd hact (hb rfl r (List.mem_cons_self ..))

/-! ### 5. the three layers: `byANPs`, `byNetpols`, `byBANP` -/

/-- what `byANPs` returns for a verdict of the ANP layer: (allowed, passOrNotCaptured) -/
def EState.anpOut : Option Action → Bool × Bool
  | some .Allow => (true, false)
  | some .Deny => (false, false)
  | _ => (false, true)

open Engine in
theorem EState.byANPs_go_spec (src dst : KPeer) (i : Bool) {proto port : String} {pr : Proto}
    {n : Int} (hq : Parses proto port pr n) (hn : inRange n) (l : List ANP)
    (hl : ∀ a ∈ l, ARule.ListValid a.ingress ∧ ARule.ListValid a.egress) :
    byANPs.go src dst i proto port l =
      .ok (anpOut (Spec.firstMatch (l.flatMap (anpContrib (selfPeer src dst i).toEnd' (dirOf i)))
        (otherPeer src dst i).toEnd' dst.toEnd' pr n)) := by
  induction l with
  | nil => rfl
  | cons a rest ih =>
    have ih' := ih (fun a' h => hl a' (List.mem_cons_of_mem _ h))
    obtain ⟨hai, hae⟩ := hl a (List.mem_cons_self ..)
    rw [byANPs_go_cons, List.flatMap_cons, Spec.firstMatch_append, ih']
    cases i
    · simp only [Bool.false_eq_true, if_false, selfPeer_false, otherPeer_false]
      cases hsel : a.selects src false
      · rw [show anpContrib src.toEnd' (dirOf false) a = [] from ANP.selects_false hsel]
        simp [Spec.firstMatch]
      · rw [show anpContrib src.toEnd' (dirOf false) a = _ from ANP.selects_true hsel]
        simp only [if_true, dirOf_false, Spec.anpRules,
          adminCheck_spec a.egress dst dst hq hn false hae (fun h => by cases h)]
        cases hfm : Spec.firstMatch a.egress dst.toEnd' dst.toEnd' pr n with
        | none => rfl
        | some v => cases v <;> rfl
    · simp only [if_true, selfPeer_true, otherPeer_true]
      cases hsel : a.selects dst true
      · rw [show anpContrib dst.toEnd' (dirOf true) a = [] from ANP.selects_false hsel]
        simp [Spec.firstMatch]
      · rw [show anpContrib dst.toEnd' (dirOf true) a = _ from ANP.selects_true hsel]
        simp only [if_true, dirOf_true, Spec.anpRules,
          adminCheck_spec a.ingress src dst hq hn false hai (fun h => by cases h)]
        cases hfm : Spec.firstMatch a.ingress src.toEnd' dst.toEnd' pr n with
        | none => rfl
        | some v => cases v <;> rfl

open Engine in
/-- **`byANPs` against `Spec.anpVerdict`**: never fails; `Allow` / `Deny` decide, `Pass` and "no
rule matches" hand over to the next layer -/
theorem EState.byANPs_spec (e : Engine) (hv : e.Valid) (src dst : KPeer) (i : Bool)
    {proto port : String} {pr : Proto} {n : Int} (hq : Parses proto port pr n) (hn : inRange n) :
    byANPs e src dst i proto port =
      .ok (anpOut (Spec.anpVerdict e.toView (selfPeer src dst i).toEnd' (otherPeer src dst i).toEnd'
        dst.toEnd' (dirOf i) pr n)) := by
  rw [anpVerdict_sorted e hv.anpSorted]
  exact byANPs_go_spec src dst i hq hn e.anps hv.anpRules

namespace EState
open Engine

/-- what the walk of `byNetpols` asks one selecting policy -/
def evalStep (src dst : KPeer) (i : Bool) (proto port : String) (np : NetPol) : Except Err Bool :=
  npAllowedConn np (Spec.npRules np (dirOf i)) (otherPeer src dst i) proto port dst

theorem byNetpols_go_cons' (src dst : KPeer) (i : Bool) (proto port : String) (np : NetPol)
    (rest : List NetPol) :
    byNetpols.go src dst i proto port (np :: rest) =
      (evalStep src dst i proto port np >>= fun r =>
        if r then pure (true, true) else byNetpols.go src dst i proto port rest) := by
  cases i <;> rfl

theorem npStep_eq (src dst : KPeer) (i : Bool) (np : NetPol) :
    npStep src dst i np = np.allowedConns (Spec.npRules np (dirOf i)) (otherPeer src dst i) dst := by
  cases i <;> rfl

theorem byNetpols_eq (e : Engine) (src dst : KPeer) (i : Bool) (proto port : String) :
    byNetpols e src dst i proto port =
      if (e.policiesSelecting (selfPeer src dst i) (dirOf i)).isEmpty then .ok (false, false)
      else byNetpols.go src dst i proto port (e.policiesSelecting (selfPeer src dst i) (dirOf i)) := by
  cases i <;> rfl

theorem otherPeer_concrete {src dst : KPeer} {a b : Int} (hs : src.Concrete a) (hd : dst.Concrete b)
    (i : Bool) : (otherPeer src dst i).Concrete (if i then a else b) := by
  cases i
  · exact hd
  · exact hs

theorem otherPeer_toEnd (src dst : KPeer) (a b : Int) (i : Bool) :
    (otherPeer src dst i).toEnd (if i then a else b) = otherEnd src dst a b i := by
  cases i <;> rfl

/-- the walk over the selecting policies: it stops at the first policy that allows the point -/
theorem byNetpols_go_spec (src dst : KPeer) (a b : Int) (hs : src.Concrete a) (hd : dst.Concrete b)
    (i : Bool) {proto port : String} {pr : Proto} {n : Int} (hq : Parses proto port pr n)
    (hn : inRange n) (pols : List NetPol)
    (hv : ∀ np ∈ pols, ∀ r ∈ Spec.npRules np (dirOf i), r.Valid) :
    (∀ out, byNetpols.go src dst i proto port pols = .ok out →
      out = (pols.any (fun np => (Spec.npRules np (dirOf i)).any
        (Spec.npRuleAllows np · (otherEnd src dst a b i) (dst.toEnd b) pr n)), true)) ∧
    (∀ err, byNetpols.go src dst i proto port pols = .error err →
      err = .namedPortOnIP ∧ dst.isPod = false) := by
  induction pols with
  | nil =>
    refine ⟨fun out h => ?_, fun err h => ?_⟩
    · cases h; rfl
    · cases h
  | cons np rest ih =>
    obtain ⟨ih1, ih2⟩ := ih (fun np' h => hv np' (List.mem_cons_of_mem _ h))
    obtain ⟨s1, s2, _⟩ := npAllowedConn_go_spec np (otherPeer src dst i) dst _ b
      (otherPeer_concrete hs hd i) hq hn (Spec.npRules np (dirOf i)) (hv np (List.mem_cons_self ..))
    rw [otherPeer_toEnd] at s1
    rw [byNetpols_go_cons', List.any_cons]
    cases hstep : evalStep src dst i proto port np with
    | error err' =>
      refine ⟨fun out h => ?_, fun err h => ?_⟩
      · cases h
      · cases h
        obtain ⟨e1, e2, _⟩ := s2 err' hstep
        exact ⟨e1, e2⟩
    | ok v =>
      have := s1 v hstep
      rw [← this]
      cases v
      · simp only [bind, Except.bind, Bool.false_eq_true, if_false, Bool.false_or]
        exact ⟨ih1, ih2⟩
      · simp only [bind, Except.bind, if_true, Bool.true_or]
        refine ⟨fun out h => ?_, fun err h => ?_⟩
        · cases h; rfl
        · cases h

theorem valid_npRules {e : Engine} (hv : e.Valid) {np : NetPol} (h : np ∈ e.netpols) (d : Dir) :
    ∀ r ∈ Spec.npRules np d, r.Valid := by
  cases d
  · exact (hv.npRules np h).1
  · exact (hv.npRules np h).2

theorem selfEnd_eq (src dst : KPeer) (a b : Int) (i : Bool) :
    selfEnd src dst a b i = (selfPeer src dst i).toEnd (if i then b else a) := by
  cases i <;> rfl

theorem selfPeer_concrete {src dst : KPeer} {a b : Int} (hs : src.Concrete a) (hd : dst.Concrete b)
    (i : Bool) : (selfPeer src dst i).Concrete (if i then b else a) := by
  cases i
  · exact hs
  · exact hd

/-- **`byNetpols` against `Spec.governs` / `Spec.npAllows`**: "captured" is "some NetworkPolicy
governs the pod in the direction", the result is "some rule of some governing policy allows the
point"; the only failure is a named port towards an IP block, on egress from a pod -/
theorem byNetpols_spec (e : Engine) (hv : e.Valid) (src dst : KPeer) (a b : Int)
    (hs : src.Concrete a) (hd : dst.Concrete b) (i : Bool) {proto port : String} {pr : Proto}
    {n : Int} (hq : Parses proto port pr n) (hn : inRange n) :
    (∀ out, byNetpols e src dst i proto port = .ok out →
      out = (Spec.npAllowsEnd e.toView (selfEnd src dst a b i) (otherEnd src dst a b i)
              (dst.toEnd b) (dirOf i) pr n,
             Spec.governsEnd e.toView (selfEnd src dst a b i) (dirOf i))) ∧
    (∀ err, byNetpols e src dst i proto port = .error err →
      err = .namedPortOnIP ∧ i = false ∧ dst.isPod = false ∧ src.isPod = true) := by
  have hsc := selfPeer_concrete hs hd i
  rw [byNetpols_eq, selfEnd_eq]
  cases hself : selfPeer src dst i with
  | ip r =>
    refine ⟨fun out h => ?_, fun err h => ?_⟩
    · cases h; rfl
    · cases h
  | pod p nso =>
    cases nso with
    | none => rw [hself] at hsc; exact absurd hsc id
    | some ns =>
      have hrep : p.isRepresentative = false := by rw [hself] at hsc; exact hsc
      have hpol : e.policiesSelecting (.pod p (some ns)) (dirOf i) =
          sortByName (e.netpols.filter (fun np => np.selects p (dirOf i))) := rfl
      have hgov := governs_iff e p (dirOf i) hrep
      have hall := npAllows_iff e p (dirOf i) (otherEnd src dst a b i) (dst.toEnd b) pr n hrep
      rw [hpol, sortByName_isEmpty]
      show (∀ out, _ = _ → out = (Spec.npAllows e.toView p _ _ (dirOf i) pr n,
          Spec.governs e.toView p (dirOf i))) ∧ _
      cases hemp : (e.netpols.filter (fun np => np.selects p (dirOf i))).isEmpty
      · -- some policy selects the pod
        have hg : Spec.governs e.toView p (dirOf i) = true := by
          rw [hgov]
          apply Classical.byContradiction
          intro hne
          rw [(isEmpty_filter_iff _ _).mpr hne] at hemp
          cases hemp
        simp only [Bool.false_eq_true, if_false]
        obtain ⟨g1, g2⟩ := byNetpols_go_spec src dst a b hs hd i hq hn
          (sortByName (e.netpols.filter (fun np => np.selects p (dirOf i))))
          (fun np hnp => valid_npRules hv (List.mem_filter.mp (mem_sortByName.mp hnp)).1 (dirOf i))
        refine ⟨fun out h => ?_, fun err h => ?_⟩
        · rw [g1 out h, hg]
          congr 1
          rw [Bool.eq_iff_iff, hall, List.any_eq_true]
          simp only [List.any_eq_true, mem_sortByName]
        · obtain ⟨e1, e2⟩ := g2 err h
          refine ⟨e1, ?_, e2, ?_⟩
          · cases i
            · rfl
            · simp only [selfPeer_true] at hself
              rw [hself] at e2
              cases e2
          · cases i
            · simp only [selfPeer_false] at hself
              rw [hself]; rfl
            · simp only [selfPeer_true] at hself
              rw [hself] at e2
              cases e2
      · -- no policy selects the pod
        have hne : ¬ ∃ x ∈ e.netpols, x.selects p (dirOf i) = true := (isEmpty_filter_iff _ _).mp hemp
        have hg : Spec.governs e.toView p (dirOf i) = false := by
          rw [← Bool.not_eq_true, hgov]
          exact hne
        have ha : Spec.npAllows e.toView p (otherEnd src dst a b i) (dst.toEnd b) (dirOf i) pr n
            = false := by
          rw [← Bool.not_eq_true, hall]
          rintro ⟨np, hnp, _⟩
          exact hne ⟨np, (List.mem_filter.mp hnp).1, by simpa using (List.mem_filter.mp hnp).2⟩
        simp only [if_true]
        refine ⟨fun out h => ?_, fun err h => ?_⟩
        · cases h; rw [hg, ha]
        · cases h

/-- **`byBANP` against `Spec.banpVerdict`**: never fails; only an explicit `Deny` forbids -/
theorem byBANP_spec (e : Engine) (hv : e.Valid) (src dst : KPeer) (i : Bool) {proto port : String}
    {pr : Proto} {n : Int} (hq : Parses proto port pr n) (hn : inRange n) :
    byBANP e src dst i proto port =
      .ok (Spec.banpVerdict e.toView (selfPeer src dst i).toEnd' (otherPeer src dst i).toEnd'
        dst.toEnd' (dirOf i) pr n != some .Deny) := by
  unfold byBANP
  cases hb : e.banp with
  | none => simp [Spec.banpVerdict, toView, hb]
  | some b =>
    obtain ⟨vi, ve, pi, pe⟩ := hv.banpRules b hb
    rw [banpVerdict_eq e b hb]
    simp only []
    cases i
    · simp only [Bool.false_eq_true, if_false, selfPeer_false, otherPeer_false]
      cases hsel : b.selects src false
      · rw [show banpContrib src.toEnd' (dirOf false) b = [] from BANP.selects_false hsel]
        rfl
      · rw [show banpContrib src.toEnd' (dirOf false) b = _ from BANP.selects_true hsel]
        simp only [if_true, Bool.false_eq_true, if_false,
          adminCheck_spec b.egress dst dst hq hn true ve (fun _ => pe)]
        have hnp := Spec.firstMatch_ne_pass b.egress pe dst.toEnd' dst.toEnd' pr n
        cases hfm : Spec.firstMatch b.egress dst.toEnd' dst.toEnd' pr n with
        | none => rfl
        | some v =>
          cases v
          · rfl
          · rfl
          · exact absurd hfm hnp
    · simp only [if_true, selfPeer_true, otherPeer_true]
      cases hsel : b.selects dst true
      · rw [show banpContrib dst.toEnd' (dirOf true) b = [] from BANP.selects_false hsel]
        rfl
      · rw [show banpContrib dst.toEnd' (dirOf true) b = _ from BANP.selects_true hsel]
        simp only [if_true,
          adminCheck_spec b.ingress src dst hq hn true vi (fun _ => pi)]
        have hnp := Spec.firstMatch_ne_pass b.ingress pi src.toEnd' dst.toEnd' pr n
        cases hfm : Spec.firstMatch b.ingress src.toEnd' dst.toEnd' pr n with
        | none => rfl
        | some v =>
          cases v
          · rfl
          · rfl
          · exact absurd hfm hnp

/-! ### 6. one direction: `xg` (`allowedXgressConnection`) -/

/-- `xg` once the ANP layer has answered -/
theorem xg_of_anp {e : Engine} {src dst : KPeer} {i : Bool} {proto port : String} {res pass : Bool}
    (h : byANPs e src dst i proto port = .ok (res, pass)) :
    xg e src dst i proto port =
      if !pass then .ok res
      else byNetpols e src dst i proto port >>= fun out =>
        if out.2 then .ok out.1 else byBANP e src dst i proto port := by
  show xgress { eng := e } src dst i proto port = _
  unfold xgress
  simp only [h, bind, Except.bind]
  cases pass
  · simp only [Bool.not_false, if_true]
    cases byNetpols e src dst i proto port with
    | error err => rfl
    | ok out => rfl
  · rfl

/-- **Theorem (one direction).** `xg` computes `Spec.allowedDir` at the queried point; its only
failure is a named port of an egress rule towards an IP block. -/
theorem xg_spec (e : Engine) (hv : e.Valid) (src dst : KPeer) (a b : Int)
    (hs : src.Concrete a) (hd : dst.Concrete b) (i : Bool) {proto port : String} {pr : Proto}
    {n : Int} (hq : Parses proto port pr n) (hn : inRange n) :
    (∀ v, xg e src dst i proto port = .ok v →
      v = Spec.allowedDir e.toView (selfEnd src dst a b i) (otherEnd src dst a b i) (dst.toEnd b)
        (dirOf i) pr n) ∧
    (∀ err, xg e src dst i proto port = .error err →
      err = .namedPortOnIP ∧ i = false ∧ dst.isPod = false ∧ src.isPod = true) := by
  have hse : (selfPeer src dst i).toEnd' = selfEnd src dst a b i := by
    cases i
    · exact (KPeer.toEnd_eq_toEnd' hs).symm
    · exact (KPeer.toEnd_eq_toEnd' hd).symm
  have hoe : (otherPeer src dst i).toEnd' = otherEnd src dst a b i := by
    cases i
    · exact (KPeer.toEnd_eq_toEnd' hd).symm
    · exact (KPeer.toEnd_eq_toEnd' hs).symm
  have hde : dst.toEnd' = dst.toEnd b := (KPeer.toEnd_eq_toEnd' hd).symm
  have hA := byANPs_spec e hv src dst i hq hn
  have hB := byBANP_spec e hv src dst i hq hn
  obtain ⟨n1, n2⟩ := byNetpols_spec e hv src dst a b hs hd i hq hn
  rw [hse, hoe, hde] at hA hB
  simp only [Spec.allowedDir_eq]
  generalize Spec.anpVerdict e.toView (selfEnd src dst a b i) (otherEnd src dst a b i)
    (dst.toEnd b) (dirOf i) pr n = A at hA
  have hxg : xg e src dst i proto port = _ := xg_of_anp (res := (anpOut A).1) (pass := (anpOut A).2) hA
  rw [hxg]
  have hlow : (∀ v, (byNetpols e src dst i proto port >>= fun out =>
        if out.2 then Except.ok out.1 else byBANP e src dst i proto port) = .ok v →
      v = if Spec.governsEnd e.toView (selfEnd src dst a b i) (dirOf i) then
          Spec.npAllowsEnd e.toView (selfEnd src dst a b i) (otherEnd src dst a b i) (dst.toEnd b)
            (dirOf i) pr n
        else Spec.banpVerdict e.toView (selfEnd src dst a b i) (otherEnd src dst a b i)
          (dst.toEnd b) (dirOf i) pr n != some .Deny) ∧
      (∀ err, (byNetpols e src dst i proto port >>= fun out =>
        if out.2 then Except.ok out.1 else byBANP e src dst i proto port) = .error err →
        err = .namedPortOnIP ∧ i = false ∧ dst.isPod = false ∧ src.isPod = true) := by
    cases hnp : byNetpols e src dst i proto port with
    | error err' =>
      refine ⟨fun v h => ?_, fun err h => ?_⟩
      · cases h
      · cases h; exact n2 err' hnp
    | ok out =>
      have ho := n1 out hnp
      subst ho
      simp only [bind, Except.bind]
      cases hG : Spec.governsEnd e.toView (selfEnd src dst a b i) (dirOf i)
      · simp only [Bool.false_eq_true, if_false, hB]
        refine ⟨fun v h => ?_, fun err h => ?_⟩
        · cases h; rfl
        · cases h
      · simp only [if_true]
        refine ⟨fun v h => ?_, fun err h => ?_⟩
        · cases h; rfl
        · cases h
  cases A with
  | none => exact hlow
  | some act =>
    cases act with
    | Allow =>
      refine ⟨fun v h => ?_, fun err h => ?_⟩
      · cases h; rfl
      · cases h
    | Deny =>
      refine ⟨fun v h => ?_, fun err h => ?_⟩
      · cases h; rfl
      · cases h
    | Pass => exact hlow

/-! ### 7. both directions: `verdict` -/

theorem walk_eq (e : Engine) (sp dp : KPeer) (proto port : String) :
    walk e sp dp proto port =
      (xg e sp dp false proto port >>= fun eg =>
        if !eg then .ok false else xg e sp dp true proto port) := by
  unfold walk
  cases xg e sp dp false proto port <;> rfl

/-- query strings that parse pass the validation of the query port -/
theorem Parses.goodQuery {proto port : String} {pr : Proto} {n : Int}
    (h : Parses proto port pr n) : badQuery proto port = false :=
  badQuery_of_toInt h.hport

/-- on query strings that parse the validation of the port is void: the verdict is the walk -/
theorem verdict_eq_walk (e : Engine) (sp dp : KPeer) {proto port : String} {pr : Proto} {n : Int}
    (hq : Parses proto port pr n) : verdict e sp dp proto port = walk e sp dp proto port :=
  verdict_of_toInt e sp dp hq.hport

theorem verdict_eq (e : Engine) (sp dp : KPeer) {proto port : String} {pr : Proto} {n : Int}
    (hq : Parses proto port pr n) :
    verdict e sp dp proto port =
      (xg e sp dp false proto port >>= fun eg =>
        if !eg then .ok false else xg e sp dp true proto port) := by
  rw [verdict_eq_walk e sp dp hq, walk_eq]

/-- **Theorem (`verdict_spec`).** For a valid engine and concrete peers the uncached verdict of
`CheckIfAllowed` on resolved peers is `Spec.allowed` at the queried point; its only failure is
`namedPortOnIP`, for a pod source and an IP destination. (No hypothesis on the destination's
container ports and none excluding the pod-to-itself pair is needed here: the self check of
`CheckIfAllowed` precedes `verdict`, and `Spec.allowed` knows nothing of it.) -/
theorem verdict_spec (e : Engine) (hv : e.Valid) (sp dp : KPeer) (a b : Int)
    (hs : sp.Concrete a) (hd : dp.Concrete b) {proto port : String} {pr : Proto} {n : Int}
    (hq : Parses proto port pr n) (hn : inRange n) :
    (∀ v, verdict e sp dp proto port = .ok v →
      v = Spec.allowed e.toView (sp.toEnd a) (dp.toEnd b) pr n) ∧
    (∀ err, verdict e sp dp proto port = .error err →
      err = .namedPortOnIP ∧ dp.isPod = false ∧ sp.isPod = true) := by
  obtain ⟨eg1, eg2⟩ := xg_spec e hv sp dp a b hs hd false hq hn
  obtain ⟨in1, in2⟩ := xg_spec e hv sp dp a b hs hd true hq hn
  simp only [selfEnd_false, otherEnd_false, dirOf_false] at eg1
  simp only [selfEnd_true, otherEnd_true, dirOf_true] at in1
  have hr : Spec.inPortRange n = true := (Spec.inPortRange_iff n).mpr hn
  rw [verdict_eq e sp dp hq]
  unfold Spec.allowed
  rw [hr, Bool.true_and]
  cases heg : xg e sp dp false proto port with
  | error err' =>
    refine ⟨fun v h => ?_, fun err h => ?_⟩
    · cases h
    · cases h
      obtain ⟨h1, _, h3, h4⟩ := eg2 err' heg
      exact ⟨h1, h3, h4⟩
  | ok eg =>
    rw [← eg1 eg heg]
    cases eg
    · refine ⟨fun v h => ?_, fun err h => ?_⟩
      · cases h; rfl
      · cases h
    · simp only [bind, Except.bind, Bool.not_true, Bool.false_eq_true, if_false, Bool.true_and]
      refine ⟨fun v h => in1 v h, fun err h => ?_⟩
      obtain ⟨_, h2, _⟩ := in2 err h
      cases h2

/-- towards a pod the verdict is never an error -/
theorem verdict_pod_ok (e : Engine) (hv : e.Valid) (sp : KPeer) (p : Pod) (ns : Option NsObj)
    (a : Int) (hs : sp.Concrete a) (hd : (KPeer.pod p ns).Concrete 0) {proto port : String}
    {pr : Proto} {n : Int} (hq : Parses proto port pr n) (hn : inRange n) :
    verdict e sp (.pod p ns) proto port =
      .ok (Spec.allowed e.toView (sp.toEnd a) ((KPeer.pod p ns).toEnd 0) pr n) := by
  obtain ⟨h1, h2⟩ := verdict_spec e hv sp (.pod p ns) a 0 hs hd hq hn
  cases h : verdict e sp (.pod p ns) proto port with
  | error err =>
    obtain ⟨_, hh, _⟩ := h2 err h
    cases hh
  | ok v => rw [h1 v h]

/-! ### 8. the walk answers whenever the connection-set path does

`list` evaluates every selecting policy and, in each, every rule (no exit on All Connections);
`eval` stops at the first policy and the first rule that allow the point. A rule `eval` reaches is
a rule `list` has evaluated. Likewise `list` skips the
NetworkPolicies only when the admin policies decide every point, and then they decide the queried
one. -/

theorem npFold_ok_steps (src dst : KPeer) (i : Bool) (pols : List NetPol) (acc res : ConnSet)
    (h : pols.foldlM (npFold src dst i) acc = .ok res) :
    ∀ np ∈ pols, ∃ c, npStep src dst i np = .ok c := by
  induction pols generalizing acc with
  | nil => intro np hnp; cases hnp
  | cons np rest ih =>
    rw [List.foldlM_cons] at h
    cases hs : npStep src dst i np with
    | error err =>
      have : npFold src dst i acc np = .error err := by simp only [npFold, hs]; rfl
      rw [this] at h
      cases h
    | ok c =>
      have : npFold src dst i acc np = .ok (acc.union c) := by simp only [npFold, hs]; rfl
      rw [this] at h
      intro np' hnp'
      rcases List.mem_cons.mp hnp' with rfl | hm
      · exact ⟨c, hs⟩
      · exact ih (acc.union c) h np' hm

theorem byNetpols_go_total (src dst : KPeer) (a b : Int) (hs : src.Concrete a)
    (hd : dst.Concrete b) (hdok : dst.DstOK) (i : Bool) {proto port : String} {pr : Proto} {n : Int}
    (hq : Parses proto port pr n) (hn : inRange n) (pols : List NetPol)
    (hv : ∀ np ∈ pols, ∀ r ∈ Spec.npRules np (dirOf i), r.Valid)
    (hok : ∀ np ∈ pols, ∃ c, npStep src dst i np = .ok c) :
    ∃ out, byNetpols.go src dst i proto port pols = .ok out := by
  induction pols with
  | nil => exact ⟨_, rfl⟩
  | cons np rest ih =>
    obtain ⟨c, hc⟩ := hok np (List.mem_cons_self ..)
    rw [npStep_eq] at hc
    obtain ⟨v, hv'⟩ := npAllowedConn_total np (Spec.npRules np (dirOf i)) (otherPeer src dst i) dst _
      (otherPeer_concrete hs hd i) hdok (hv np (List.mem_cons_self ..)) hq hn c hc
    have hstep : evalStep src dst i proto port np = .ok v := hv'
    rw [byNetpols_go_cons', hstep]
    cases v
    · exact ih (fun np' h => hv np' (List.mem_cons_of_mem _ h))
        (fun np' h => hok np' (List.mem_cons_of_mem _ h))
    · exact ⟨_, rfl⟩

theorem byNetpols_total (e : Engine) (hv : e.Valid) (src dst : KPeer) (a b : Int)
    (hs : src.Concrete a) (hd : dst.Concrete b) (hdok : dst.DstOK) (i : Bool) {proto port : String}
    {pr : Proto} {n : Int} (hq : Parses proto port pr n) (hn : inRange n) (npo : Option ConnSet)
    (h : e.netpolConns src dst i = .ok npo) :
    ∃ out, byNetpols e src dst i proto port = .ok out := by
  rw [netpolConns_eq] at h
  rw [byNetpols_eq]
  cases hemp : (e.policiesSelecting (selfPeer src dst i) (dirOf i)).isEmpty
  · rw [hemp] at h
    simp only [Bool.false_eq_true, if_false] at h ⊢
    cases hf : (e.policiesSelecting (selfPeer src dst i) (dirOf i)).foldlM (npFold src dst i)
        (ConnSet.mk' false) with
    | error err => rw [hf] at h; cases h
    | ok res =>
      refine byNetpols_go_total src dst a b hs hd hdok i hq hn _ ?_ (npFold_ok_steps src dst i _ _ _ hf)
      intro np hnp
      have hmem : np ∈ e.netpols := policiesSelecting_sub hnp
      exact valid_npRules hv hmem (dirOf i)
  · exact ⟨_, rfl⟩

/-- one direction: whenever `xgressConns` returns a set, `xg` returns an answer -/
theorem xg_total (e : Engine) (hv : e.Valid) (src dst : KPeer) (a b : Int)
    (hs : src.Concrete a) (hd : dst.Concrete b) (hdok : dst.DstOK) (i : Bool) {proto port : String}
    {pr : Proto} {n : Int} (hq : Parses proto port pr n) (hn : inRange n) (c : ConnSet)
    (h : e.xgressConns src dst i = .ok c) :
    ∃ v, xg e src dst i proto port = .ok v := by
  obtain ⟨pc, cap, hanp, hpw, hpa, _⟩ := anpConns_spec e hv src dst hdok.validPorts i
  rw [xgressConns_of_anp hanp] at h
  have hA := byANPs_spec e hv src dst i hq hn
  have hB := byBANP_spec e hv src dst i hq hn
  generalize Spec.anpVerdict e.toView (selfPeer src dst i).toEnd' (otherPeer src dst i).toEnd'
    dst.toEnd' (dirOf i) = A at hA hpa
  have hxg : xg e src dst i proto port = _ :=
    xg_of_anp (res := (anpOut (A pr n)).1) (pass := (anpOut (A pr n)).2) hA
  rw [hxg]
  have hlow : (A pr n = none ∨ A pr n = some .Pass) →
      ∃ v, (byNetpols e src dst i proto port >>= fun out =>
        if out.2 then Except.ok out.1 else byBANP e src dst i proto port) = .ok v := by
    intro hnd
    have hdet : (cap && pc.determinesAll) = false := by
      cases hdet : (cap && pc.determinesAll)
      · rfl
      · rw [Bool.and_eq_true] at hdet
        have := PolicyConns.determinesAll_spec hpw hpa hdet.2 pr n hn
        simp only [hn, if_true] at this
        rcases hnd with h0 | h0 <;> rw [h0] at this <;> rcases this with h1 | h1 <;> cases h1
    rw [hdet] at h
    simp only [Bool.false_eq_true, if_false] at h
    cases hnp : e.netpolConns src dst i with
    | error err => rw [hnp] at h; cases h
    | ok npo =>
      obtain ⟨out, hout⟩ := byNetpols_total e hv src dst a b hs hd hdok i hq hn npo hnp
      rw [hout, hB]
      simp only [bind, Except.bind]
      cases out.2
      · exact ⟨_, rfl⟩
      · exact ⟨_, rfl⟩
  cases hAn : A pr n with
  | none => rw [hAn] at hlow; exact hlow (Or.inl rfl)
  | some act =>
    cases act with
    | Allow => exact ⟨_, rfl⟩
    | Deny => exact ⟨_, rfl⟩
    | Pass => rw [hAn] at hlow; exact hlow (Or.inr rfl)

/-- **Theorem (`verdict_total`).** Whenever `peerConns` (the `list` path) returns a connection set
for a pair of peers, `verdict` (the `eval` path) returns an answer for every in-range point. -/
theorem verdict_total (e : Engine) (hv : e.Valid) (sp dp : KPeer) (a b : Int)
    (hs : sp.Concrete a) (hd : dp.Concrete b) (hdok : dp.DstOK) {proto port : String} {pr : Proto}
    {n : Int} (hq : Parses proto port pr n) (hn : inRange n) (c : ConnSet)
    (h : e.peerConns sp dp = .ok c) :
    ∃ v, verdict e sp dp proto port = .ok v := by
  obtain ⟨_, herr⟩ := verdict_spec e hv sp dp a b hs hd hq hn
  by_cases hself : isPodToItself sp dp = true
  · -- both are pods: the walk cannot fail
    cases hv' : verdict e sp dp proto port with
    | ok v => exact ⟨v, rfl⟩
    | error err =>
      obtain ⟨_, h2, _⟩ := herr err hv'
      cases sp with
      | ip r => cases hself
      | pod p ns =>
        cases dp with
        | ip r => cases hself
        | pod q ms => cases h2
  · simp only [Bool.not_eq_true] at hself
    rw [peerConns_eq e sp dp hself] at h
    cases heg : e.xgressConns sp dp false with
    | error err => rw [heg] at h; cases h
    | ok res =>
      obtain ⟨eg, hxe⟩ := xg_total e hv sp dp a b hs hd hdok false hq hn res heg
      rw [verdict_eq e sp dp hq, hxe]
      cases eg
      · exact ⟨false, rfl⟩
      · simp only [bind, Except.bind, Bool.not_true, Bool.false_eq_true, if_false]
        cases hin : xg e sp dp true proto port with
        | ok v => exact ⟨v, rfl⟩
        | error err =>
          obtain ⟨_, h2, _⟩ := (xg_spec e hv sp dp a b hs hd true hq hn).2 err hin
          cases h2

/-! ### 9. the walk on a parsed point

The same walk with the protocol and the port already parsed (built on the model's
`NetPol.allowedConn` and `adminPolicyCheck`): on query strings that parse it is the walk of
`check_eval.go`, and — unlike `String.toInt?` — it evaluates in the kernel, so concrete queries can
be decided. -/

theorem npRuleConnsContain_eq_parsed (ports : List NPPort) {proto port : String} {pr : Proto}
    {n : Int} (hq : Parses proto port pr n) (dst : KPeer) :
    npRuleConnsContain ports proto port dst = NetPol.ruleConnsContain ports (some pr) n dst := by
  rw [npRuleConnsContain_eq ports hq dst]
  rfl

theorem _root_.Netpol.NetPol.allowedConn_go_cons (np : NetPol) (other : KPeer) (pr : Option Proto)
    (n : Int) (dst : KPeer) (r : NPRule) (rest : List NPRule) :
    NetPol.allowedConn.go np other pr n dst (r :: rest) = (do
      let sel ← np.ruleSelectsPeer r.peers other
      if !sel then NetPol.allowedConn.go np other pr n dst rest
      else
        let c ← NetPol.ruleConnsContain r.ports pr n dst
        if c then pure true else NetPol.allowedConn.go np other pr n dst rest) := rfl

theorem npAllowedConn_eq_parsed (np : NetPol) (rules : List NPRule) (other : KPeer)
    {proto port : String} {pr : Proto} {n : Int} (hq : Parses proto port pr n) (dst : KPeer) :
    npAllowedConn np rules other proto port dst = np.allowedConn rules other (some pr) n dst := by
  unfold npAllowedConn NetPol.allowedConn
  induction rules with
  | nil => rfl
  | cons r rest ih =>
    rw [npAllowedConn_go_cons, NetPol.allowedConn_go_cons, ih, npRuleConnsContain_eq_parsed r.ports hq]

/-- `byANPs` on a parsed point -/
def byANPsP (e : Engine) (src dst : KPeer) (isIngress : Bool) (pr : Option Proto) (n : Int) :
    Except Err (Bool × Bool) :=
  let rec go : List ANP → Except Err (Bool × Bool)
    | [] => .ok (false, true)
    | a :: rest =>
      if isIngress then
        if a.selects dst true then do
          let r ← adminPolicyCheck a.ingress src dst pr n false
          match r with
          | .notCaptured => go rest
          | .pass => pure (false, true)
          | .allow => pure (true, false)
          | .deny => pure (false, false)
        else go rest
      else
        if a.selects src false then do
          let r ← adminPolicyCheck a.egress dst dst pr n false
          match r with
          | .notCaptured => go rest
          | .pass => pure (false, true)
          | .allow => pure (true, false)
          | .deny => pure (false, false)
        else go rest
  go e.anps

/-- `byNetpols` on a parsed point -/
def byNetpolsP (e : Engine) (src dst : KPeer) (isIngress : Bool) (pr : Option Proto) (n : Int) :
    Except Err (Bool × Bool) :=
  let pols := if isIngress then e.policiesSelecting dst .ingress else e.policiesSelecting src .egress
  if pols.isEmpty then .ok (false, false)
  else
    let rec go : List NetPol → Except Err (Bool × Bool)
      | [] => .ok (false, true)
      | np :: rest => do
        let r ← if isIngress then np.allowedConn np.ingress src pr n dst
                else np.allowedConn np.egress dst pr n dst
        if r then pure (true, true) else go rest
    go pols

/-- `byBANP` on a parsed point -/
def byBANPP (e : Engine) (src dst : KPeer) (isIngress : Bool) (pr : Option Proto) (n : Int) :
    Except Err Bool :=
  match e.banp with
  | none => .ok true
  | some b =>
    if isIngress then
      if b.selects dst true then do
        let r ← adminPolicyCheck b.ingress src dst pr n true
        match r with
        | .notCaptured => pure true
        | .allow => pure true
        | .deny => pure false
        | .pass => .error .badAction
      else pure true
    else
      if b.selects src false then do
        let r ← adminPolicyCheck b.egress dst dst pr n true
        match r with
        | .notCaptured => pure true
        | .allow => pure true
        | .deny => pure false
        | .pass => .error .badAction
      else pure true

/-- `allowedXgressConnection` on a parsed point -/
def xgP (e : Engine) (src dst : KPeer) (isIngress : Bool) (pr : Option Proto) (n : Int) :
    Except Err Bool := do
  let (anpRes, pass) ← byANPsP e src dst isIngress pr n
  if !pass then pure anpRes
  else
    let (npRes, captured) ← byNetpolsP e src dst isIngress pr n
    if captured then pure npRes
    else byBANPP e src dst isIngress pr n

/-- `verdict` on a parsed point -/
def verdictP (e : Engine) (sp dp : KPeer) (pr : Option Proto) (n : Int) : Except Err Bool :=
  match xgP e sp dp false pr n with
  | .error err => .error err
  | .ok eg => if !eg then .ok false else xgP e sp dp true pr n

theorem byANPsP_go_cons (src dst : KPeer) (i : Bool) (pr : Option Proto) (n : Int) (a : ANP)
    (rest : List ANP) :
    byANPsP.go src dst i pr n (a :: rest) =
      if i then
        if a.selects dst true then (do
          let r ← adminPolicyCheck a.ingress src dst pr n false
          match r with
          | .notCaptured => byANPsP.go src dst i pr n rest
          | .pass => pure (false, true)
          | .allow => pure (true, false)
          | .deny => pure (false, false))
        else byANPsP.go src dst i pr n rest
      else
        if a.selects src false then (do
          let r ← adminPolicyCheck a.egress dst dst pr n false
          match r with
          | .notCaptured => byANPsP.go src dst i pr n rest
          | .pass => pure (false, true)
          | .allow => pure (true, false)
          | .deny => pure (false, false))
        else byANPsP.go src dst i pr n rest := rfl

theorem byANPs_eq_parsed (e : Engine) (src dst : KPeer) (i : Bool) {proto port : String}
    {pr : Proto} {n : Int} (hq : Parses proto port pr n) :
    byANPs e src dst i proto port = byANPsP e src dst i (some pr) n := by
  unfold byANPs byANPsP
  induction e.anps with
  | nil => rfl
  | cons a rest ih =>
    rw [byANPs_go_cons, byANPsP_go_cons, ih, adminCheck_eq_adminPolicyCheck _ _ _ hq,
      adminCheck_eq_adminPolicyCheck _ _ _ hq]
    rfl

theorem byNetpolsP_go_cons (src dst : KPeer) (i : Bool) (pr : Option Proto) (n : Int) (np : NetPol)
    (rest : List NetPol) :
    byNetpolsP.go src dst i pr n (np :: rest) = (do
      let r ← if i then np.allowedConn np.ingress src pr n dst
              else np.allowedConn np.egress dst pr n dst
      if r then pure (true, true) else byNetpolsP.go src dst i pr n rest) := rfl

theorem byNetpols_eq_parsed (e : Engine) (src dst : KPeer) (i : Bool) {proto port : String}
    {pr : Proto} {n : Int} (hq : Parses proto port pr n) :
    byNetpols e src dst i proto port = byNetpolsP e src dst i (some pr) n := by
  have hgo : ∀ pols : List NetPol, byNetpols.go src dst i proto port pols =
      byNetpolsP.go src dst i (some pr) n pols := by
    intro pols
    induction pols with
    | nil => rfl
    | cons np rest ih =>
      rw [byNetpols_go_cons, byNetpolsP_go_cons, ih, npAllowedConn_eq_parsed _ _ _ hq,
        npAllowedConn_eq_parsed _ _ _ hq]
  simp only [byNetpols, byNetpolsP, hgo]

theorem byBANP_eq_parsed (e : Engine) (src dst : KPeer) (i : Bool) {proto port : String}
    {pr : Proto} {n : Int} (hq : Parses proto port pr n) :
    byBANP e src dst i proto port = byBANPP e src dst i (some pr) n := by
  unfold byBANP byBANPP
  cases e.banp with
  | none => rfl
  | some b =>
    simp only [adminCheck_eq_adminPolicyCheck _ _ _ hq]
    rfl

theorem xg_eq_parsed (e : Engine) (src dst : KPeer) (i : Bool) {proto port : String}
    {pr : Proto} {n : Int} (hq : Parses proto port pr n) :
    xg e src dst i proto port = xgP e src dst i (some pr) n := by
  simp only [xg, xgress, xgP, byANPs_eq_parsed e src dst i hq, byNetpols_eq_parsed e src dst i hq,
    byBANP_eq_parsed e src dst i hq]

/-- on query strings that parse to `(pr, n)` the verdict is the verdict on the parsed point -/
theorem verdict_eq_parsed (e : Engine) (sp dp : KPeer) {proto port : String}
    {pr : Proto} {n : Int} (hq : Parses proto port pr n) :
    verdict e sp dp proto port = verdictP e sp dp (some pr) n := by
  rw [verdict_eq_walk e sp dp hq]
  simp only [walk, verdictP, xg_eq_parsed e sp dp _ hq]
  rfl

end EState

end Netpol
