import Netpol.Model.Diff
import Netpol.Proofs.Structure
import Netpol.Proofs.Interval

/-! Lemmas about the model of the diff (`Netpol/Model/Diff.lean`), used by
`Netpol/Properties/C04.lean`.

* A–C  the diff map as an association list with unique keys (`get`, `DMap.update`), the key
  `src;dst` (`pkey_inj` for names without semicolon), the map built from the two lists (`diffMap`,
  `get_diffMap_of_filter`).
* D–F  the structure of `mergeIPblocks` (`mergeGroups_eq`, `mergeGroups_induction`), invariants
  (`Good`), the frame lemma for pairs of workload names (`get_mergeIPblocks_wl`).
* G–I  the entries of `diffLists` under a pair of names (`diffLists_filter_key`,
  `diffLists_filter_wl`), the diff of a list with itself (`diffLists_self`), `refine` on pairs of
  workload names.
* `disjointBlocks`: pairwise disjoint, inside the blocks, covering them, refining them.
* connection strings: no semicolon, never empty.
* J–N  `mergeRanges` (union, canonical, maximal runs); entries with one IP end (`WPair`);
  `mergeGroups` appends its writes when their keys are new (`mergeGroups_list`,
  `mergeIPblocks_list`); the entries of the merged map covering a point (`merge_point`,
  `merge_point_none`).
* O–R  well-formed reports (`ReportWF`), their refinement (`EntOK`, `RefinesR`,
  `refine_filter_ip`), the map of two refined reports (`mapOK_diffMap`), the merged map at a point
  (workload, address): `point_ip`. -/
namespace Netpol
namespace DiffLayer
open Engine Diff Structure

/-! ## A. the diff map as an association list -/

abbrev keys (m : DMap) : List String := m.map (·.1)

/-- the pair stored under a key (first occurrence; keys are unique in every map built by the model) -/
def get (m : DMap) (k : String) : Option Pair := (m.find? (fun kp => kp.1 == k)).map (·.2)

/-- the field update of `DMap.update` -/
def setP (b : Bool) (c : Option P2P) (p : Pair) : Pair :=
  if b then { p with first := c } else { p with second := c }

theorem setP_setP (b : Bool) (c c' : Option P2P) (p : Pair) : setP b c' (setP b c p) = setP b c' p := by
  cases b <;> rfl

theorem setP_false_true (c c' : Option P2P) (p : Pair) : setP false c' (setP true c p) = ⟨c, c'⟩ := rfl

theorem update_eq (m : DMap) (k : String) (b : Bool) (c : Option P2P) :
    m.update k b c =
      if k ∈ keys m then m.map (fun kp => if kp.1 = k then (kp.1, setP b c kp.2) else kp)
      else m ++ [(k, setP b c {})] := by
  unfold DMap.update
  have hany : (m.any fun x => x.1 == k) = true ↔ k ∈ keys m := by
    simp only [List.any_eq_true, beq_iff_eq, keys, List.mem_map]
  by_cases h : k ∈ keys m
  · rw [if_pos h, if_pos (hany.mpr h)]
    apply List.map_congr_left
    intro kp _
    by_cases hk : kp.1 = k
    · simp [hk, setP]
    · simp [hk]
  · rw [if_neg h, if_neg (fun h' => h (hany.mp h'))]
    cases b <;> rfl

theorem keys_update (m : DMap) (k : String) (b : Bool) (c : Option P2P) :
    keys (m.update k b c) = if k ∈ keys m then keys m else keys m ++ [k] := by
  rw [update_eq]
  by_cases h : k ∈ keys m
  · rw [if_pos h, if_pos h]
    simp only [keys, List.map_map]
    apply List.map_congr_left
    intro kp _
    simp only [Function.comp]
    split <;> rfl
  · rw [if_neg h, if_neg h]
    simp [keys]

theorem mem_keys_update {m : DMap} {k k' : String} {b : Bool} {c : Option P2P} :
    k' ∈ keys (m.update k b c) ↔ k' = k ∨ k' ∈ keys m := by
  rw [keys_update]
  by_cases h : k ∈ keys m
  · rw [if_pos h]
    constructor
    · exact Or.inr
    · rintro (rfl | h')
      · exact h
      · exact h'
  · rw [if_neg h, List.mem_append, List.mem_singleton]
    constructor
    · rintro (h' | h')
      · exact Or.inr h'
      · exact Or.inl h'
    · rintro (h' | h')
      · exact Or.inr h'
      · exact Or.inl h'

theorem nodup_update {m : DMap} (h : (keys m).Nodup) (k : String) (b : Bool) (c : Option P2P) :
    (keys (m.update k b c)).Nodup := by
  rw [keys_update]
  by_cases hk : k ∈ keys m
  · rw [if_pos hk]; exact h
  · rw [if_neg hk]
    rw [List.nodup_append]
    refine ⟨h, by simp, ?_⟩
    intro a ha b hb hab
    rw [List.mem_singleton] at hb
    subst hb; subst hab
    exact hk ha

theorem get_eq_none_iff {m : DMap} {k : String} : get m k = none ↔ k ∉ keys m := by
  unfold get
  rw [Option.map_eq_none_iff, List.find?_eq_none]
  simp only [beq_iff_eq, keys, List.mem_map, not_exists, not_and]

theorem get_update (m : DMap) (k k' : String) (b : Bool) (c : Option P2P) :
    get (m.update k b c) k' =
      if k' = k then some (setP b c ((get m k).getD {})) else get m k' := by
  rw [update_eq]
  by_cases h : k ∈ keys m
  · rw [if_pos h]
    unfold get
    rw [List.find?_map]
    have hfun : ((fun kp : String × Pair => kp.1 == k') ∘
        fun kp : String × Pair => if kp.1 = k then (kp.1, setP b c kp.2) else kp) =
        fun kp => kp.1 == k' := by
      funext kp
      simp only [Function.comp]
      split <;> rfl
    rw [hfun]
    by_cases hk : k' = k
    · subst hk
      rw [if_pos rfl]
      cases hf : m.find? (fun kp => kp.1 == k') with
      | none =>
        exfalso
        have : get m k' = none := by unfold get; rw [hf]; rfl
        exact (get_eq_none_iff.mp this) h
      | some kp =>
        have := List.find?_some hf
        simp only [beq_iff_eq] at this
        simp [this]
    · rw [if_neg hk]
      cases hf : m.find? (fun kp => kp.1 == k') with
      | none => rfl
      | some kp =>
        have := List.find?_some hf
        simp only [beq_iff_eq] at this
        have hne : kp.1 ≠ k := by rw [this]; exact hk
        simp [hne]
  · rw [if_neg h]
    have hnone : get m k = none := get_eq_none_iff.mpr h
    unfold get at hnone ⊢
    rw [List.find?_append]
    by_cases hk : k' = k
    · subst hk
      rw [if_pos rfl]
      have hf : m.find? (fun kp => kp.1 == k') = none := by
        simpa using hnone
      rw [hf]
      simp
    · rw [if_neg hk]
      cases hf : m.find? (fun kp => kp.1 == k') with
      | none =>
        have : ¬ (k = k') := fun h => hk h.symm
        simp [this]
      | some kp => simp

theorem mem_iff_get {m : DMap} (h : (keys m).Nodup) {k : String} {p : Pair} :
    (k, p) ∈ m ↔ get m k = some p := by
  induction m with
  | nil => simp [get]
  | cons kp m ih =>
    obtain ⟨k0, p0⟩ := kp
    have h0 := List.nodup_cons.mp h
    unfold get
    rw [List.find?_cons]
    by_cases hk : k0 = k
    · subst hk
      simp only [beq_self_eq_true, Option.map_some, Option.some.injEq, List.mem_cons, Prod.mk.injEq,
        true_and]
      constructor
      · rintro (h1 | h1)
        · exact h1.symm
        · exact absurd (List.mem_map.mpr ⟨(k0, p), h1, rfl⟩) h0.1
      · intro h1; exact Or.inl h1.symm
    · have : (k0 == k) = false := by simpa using hk
      simp only [this, List.mem_cons, Prod.mk.injEq]
      have ih' := ih h0.2
      unfold get at ih'
      rw [← ih']
      constructor
      · rintro (⟨h1, _⟩ | h1)
        · exact absurd h1.symm hk
        · exact h1
      · exact Or.inr

/-- the entries under one key: at most one -/
theorem filter_key_eq {m : DMap} (h : (keys m).Nodup) (k : String) :
    m.filter (fun kp => kp.1 == k) = ((get m k).map fun p => (k, p)).toList := by
  induction m with
  | nil => rfl
  | cons kp m ih =>
    obtain ⟨k0, p0⟩ := kp
    have h0 := List.nodup_cons.mp h
    rw [List.filter_cons]
    unfold get
    rw [List.find?_cons]
    by_cases hk : k0 = k
    · subst hk
      simp only [beq_self_eq_true, if_true, Option.map_some, Option.toList_some]
      congr 1
      rw [List.filter_eq_nil_iff]
      intro x hx
      simp only [beq_iff_eq]
      intro hxk
      exact h0.1 (List.mem_map.mpr ⟨x, hx, hxk⟩)
    · have : (k0 == k) = false := by simpa using hk
      simp only [this]
      have ih' := ih h0.2
      unfold get at ih'
      exact ih'

/-! ## B. the key `src;dst` -/

/-- the name contains no semicolon (true of Kubernetes names and of IP ranges) -/
def NoSemi (s : String) : Prop := ';' ∉ s.toList

/-- the name is not the name of an IP range -/
def NotIP (s : String) : Prop := ∀ r : Iv, s ≠ (LPeer.ip r).str

def pkey (s d : String) : String := s ++ ";" ++ d

theorem key_eq (p : P2P) : p.key = pkey p.src.str p.dst.str := rfl

theorem pkey_toList (a b : String) : (pkey a b).toList = a.toList ++ ';' :: b.toList := by
  unfold pkey
  simp only [String.toList_append]
  have : ";".toList = [';'] := by decide
  rw [this]; simp

theorem pkey_inj {a a' b b' : String} (ha : NoSemi a) (ha' : NoSemi a')
    (h : pkey a b = pkey a' b') : a = a' ∧ b = b' := by
  have h' := congrArg String.toList h
  rw [pkey_toList, pkey_toList] at h'
  obtain ⟨e1, e2⟩ := split_unique ha ha' h'
  exact ⟨String.toList_inj.mp e1, String.toList_inj.mp e2⟩

theorem noSemi_ipStr (n : Int) : ';' ∉ (ipStr n).toList := fun h => by
  rcases ipStr_chars h with h | h
  · revert h; decide
  · revert h; decide

theorem noSemi_ipRange (r : Iv) : NoSemi (LPeer.ip r).str := by
  unfold NoSemi
  rw [ipRange_toList]
  simp only [List.mem_append, List.mem_cons, not_or]
  exact ⟨noSemi_ipStr _, by decide, noSemi_ipStr _⟩

theorem notIP_of_wl_str {p : LPeer} (h : NotIP p.str) : p.isIP = false := by
  cases p with
  | wl n pod => rfl
  | ip r => exact absurd rfl (h r)

/-! ## C. the map built from the two reports -/

def fill (b : Bool) (l : List P2P) (m : DMap) : DMap :=
  l.foldl (fun m c => m.update c.key b (some c)) m

def diffMap (c1 c2 : List P2P) : DMap := fill false c2 (fill true c1 [])

/-- the classification step of `diffLists` -/
def classify (peers1 peers2 : List String) : String × Pair → Option DEntry :=
  fun (_, d) =>
    match d.first, d.second with
    | some a, some b =>
      let eq := a.all == b.all && a.ports == b.ports
      some ⟨if eq then "unchanged" else "changed", a.src.str, a.dst.str, a.connStr, b.connStr, false, false⟩
    | some a, none => some ⟨"removed", a.src.str, a.dst.str, a.connStr, noConns, isWorkloadAbsent a.src peers2, isWorkloadAbsent a.dst peers2⟩
    | none, some b => some ⟨"added", b.src.str, b.dst.str, noConns, b.connStr, isWorkloadAbsent b.src peers1, isWorkloadAbsent b.dst peers1⟩
    | none, none => none

theorem diffLists_eq (c1 c2 : List P2P) (p1 p2 : List String) :
    diffLists c1 c2 p1 p2 = (mergeIPblocks (diffMap c1 c2)).filterMap (classify p1 p2) := rfl

theorem fill_cons (b : Bool) (c : P2P) (l : List P2P) (m : DMap) :
    fill b (c :: l) m = fill b l (m.update c.key b (some c)) := rfl

theorem nodup_fill {m : DMap} (h : (keys m).Nodup) (b : Bool) (l : List P2P) :
    (keys (fill b l m)).Nodup := by
  induction l generalizing m with
  | nil => exact h
  | cons c l ih => rw [fill_cons]; exact ih (nodup_update h _ _ _)

theorem nodup_diffMap (c1 c2 : List P2P) : (keys (diffMap c1 c2)).Nodup :=
  nodup_fill (nodup_fill (by simp) _ _) _ _

theorem get_fill (b : Bool) (l : List P2P) (m : DMap) (k : String) :
    get (fill b l m) k =
      match l.reverse.find? (fun c => c.key == k) with
      | some c => some (setP b (some c) ((get m k).getD {}))
      | none => get m k := by
  induction l generalizing m with
  | nil => rfl
  | cons c l ih =>
    rw [fill_cons, ih, List.reverse_cons, List.find?_append, get_update]
    cases hf : l.reverse.find? (fun c => c.key == k) with
    | some c' =>
      simp only [Option.some_or]
      by_cases hk : k = c.key
      · rw [if_pos hk]; subst hk
        simp only [Option.getD_some, setP_setP]
      · rw [if_neg hk]
    | none =>
      simp only [Option.none_or, List.find?_cons, List.find?_nil]
      by_cases hk : k = c.key
      · rw [if_pos hk]; subst hk
        simp
      · rw [if_neg hk]
        have : (c.key == k) = false := by simpa using fun h => hk h.symm
        simp [this]

theorem find?_reverse_nodup {α : Type} (f : α → String) (k : String) {l : List α}
    (h : (l.map f).Nodup) :
    l.reverse.find? (fun c => f c == k) = l.find? (fun c => f c == k) := by
  induction l with
  | nil => rfl
  | cons c l ih =>
    have h0 := List.nodup_cons.mp h
    rw [List.reverse_cons, List.find?_append, ih h0.2, List.find?_cons]
    by_cases hk : f c = k
    · have hn : l.find? (fun c => f c == k) = none := by
        rw [List.find?_eq_none]
        intro x hx
        simp only [beq_iff_eq]
        intro hxk
        exact h0.1 (List.mem_map.mpr ⟨x, hx, hxk.trans hk.symm⟩)
      simp [hn, hk]
    · have : (f c == k) = false := by simpa using hk
      simp [this]

/-- the pair of two optional entries, absent when both are -/
def mkPair (o1 o2 : Option P2P) : Option Pair :=
  match o1, o2 with
  | none, none => none
  | _, _ => some ⟨o1, o2⟩

/-- the entry of a list under a key -/
def lookupK (l : List P2P) (k : String) : Option P2P := l.find? (fun c => c.key == k)

theorem get_diffMap {c1 c2 : List P2P} (h1 : (c1.map P2P.key).Nodup) (h2 : (c2.map P2P.key).Nodup)
    (k : String) : get (diffMap c1 c2) k = mkPair (lookupK c1 k) (lookupK c2 k) := by
  unfold diffMap lookupK
  rw [get_fill, get_fill, find?_reverse_nodup P2P.key k h1, find?_reverse_nodup P2P.key k h2]
  cases c1.find? (fun c => c.key == k) <;> cases c2.find? (fun c => c.key == k) <;> rfl

/-! ## D. the structure of `mergeIPblocks` -/

/-- `isIP` of `mergeIPblocks` -/
def isIPp (p : Pair) (src : Bool) : Bool :=
  match p.any with
  | some x => if src then x.src.isIP else x.dst.isIP
  | none => false

def plainOf (m : DMap) : DMap := m.filter fun (_, p) => !isIPp p true && !isIPp p false
def dstIPs (m : DMap) : List Pair := (m.filter fun (_, p) => isIPp p false).map (·.2)
def srcIPs (m : DMap) : List Pair := (m.filter fun (_, p) => !isIPp p false && isIPp p true).map (·.2)

def update2 (res : DMap) (k : String) (c c' : Option P2P) : DMap :=
  (res.update k true c).update k false c'

def rebuild (plain : DMap) (acc : DMap) : DMap :=
  plain.foldl (fun res (k, p) => (res.update k true p.first).update k false p.second) acc

theorem mergeIPblocks_eq (m : DMap) :
    mergeIPblocks m = mergeGroups (srcIPs m) true (mergeGroups (dstIPs m) false (rebuild (plainOf m) [])) := rfl

/-- replace the IP end -/
def mkIP (srcIsIP : Bool) (r : Iv) (x : P2P) : P2P :=
  if srcIsIP then { x with src := .ip r } else { x with dst := .ip r }

/-- one optional write -/
def wr (res : DMap) (o : Option P2P) (b : Bool) : DMap :=
  match o with
  | some x => res.update x.key b (some x)
  | none => res

/-- the writes for one merged range -/
def stepW (b : Bool) (g0 : Pair) (res : DMap) (r : Iv) : DMap :=
  wr (wr res (g0.first.map (mkIP b r)) true) (g0.second.map (mkIP b r)) false

def groupRanges (b : Bool) (grp : List Pair) : List Iv :=
  grp.filterMap fun p => match p.any with
    | some x => (match (if b then x.src else x.dst) with | .ip r => some r | _ => none)
    | none => none

def groupOf (b : Bool) (pairs : List Pair) (k : String) : List Pair :=
  pairs.filter (fun p => groupKey p b == k)

def groupStep (b : Bool) (pairs : List Pair) (res : DMap) (k : String) : DMap :=
  match (groupOf b pairs k).head? with
  | none => res
  | some g0 => (mergeRanges (groupRanges b (groupOf b pairs k))).foldl (stepW b g0) res

def groupKeys (b : Bool) (pairs : List Pair) : List String := (pairs.map (groupKey · b)).eraseDups

theorem mergeGroups_eq (pairs : List Pair) (b : Bool) (res : DMap) :
    mergeGroups pairs b res = (groupKeys b pairs).foldl (groupStep b pairs) res := by
  unfold mergeGroups groupKeys
  show List.foldl _ _ _ = List.foldl _ _ _
  congr 1
  funext res k
  unfold groupStep groupOf
  show (match (pairs.filter (fun p => groupKey p b == k)).head? with
    | none => res
    | some g0 => List.foldl _ _ _) = _
  cases hh : (pairs.filter (fun p => groupKey p b == k)).head? with
  | none => rfl
  | some g0 =>
    show List.foldl _ _ _ = List.foldl _ _ _
    congr 1
    funext res r
    unfold stepW wr mkIP
    cases g0.first <;> cases g0.second <;> rfl

theorem foldl_inv {α β : Type} (I : β → Prop) (f : β → α → β) (l : List α) (b0 : β) (h0 : I b0)
    (hs : ∀ b a, a ∈ l → I b → I (f b a)) : I (l.foldl f b0) := by
  induction l generalizing b0 with
  | nil => exact h0
  | cons a l ih =>
    exact ih _ (hs _ _ (List.mem_cons_self ..) h0) (fun b a' ha' => hs b a' (List.mem_cons_of_mem _ ha'))

theorem mem_of_head? {α : Type} {l : List α} {a : α} (h : l.head? = some a) : a ∈ l := by
  cases l with
  | nil => cases h
  | cons x t => cases h; exact List.mem_cons_self ..

theorem head_groupOf_mem {b : Bool} {pairs : List Pair} {k : String} {g0 : Pair}
    (h : (groupOf b pairs k).head? = some g0) : g0 ∈ pairs ∧ groupKey g0 b = k := by
  have := mem_of_head? h
  unfold groupOf at this
  rw [List.mem_filter] at this
  exact ⟨this.1, by simpa using this.2⟩

/-- induction over the writes of `mergeGroups` -/
theorem mergeGroups_induction (I : DMap → Prop) (pairs : List Pair) (b : Bool) (res : DMap)
    (h0 : I res)
    (hstep : ∀ res k g0 r, I res → (groupOf b pairs k).head? = some g0 →
      r ∈ mergeRanges (groupRanges b (groupOf b pairs k)) → I (stepW b g0 res r)) :
    I (mergeGroups pairs b res) := by
  rw [mergeGroups_eq]
  refine foldl_inv I _ _ _ h0 ?_
  intro res k _ hres
  unfold groupStep
  split
  · exact hres
  · rename_i g0 hg0
    refine foldl_inv I _ _ _ hres ?_
    intro res' r hr hres'
    exact hstep res' k g0 r hres' hg0 hr

theorem get_update2 (m : DMap) (k k' : String) (c c' : Option P2P) :
    get (update2 m k c c') k' = if k' = k then some ⟨c, c'⟩ else get m k' := by
  unfold update2
  rw [get_update]
  by_cases hk : k' = k
  · subst hk; rw [if_pos rfl, get_update, if_pos rfl, if_pos rfl]; rfl
  · rw [if_neg hk, get_update, if_neg hk, if_neg hk]

theorem get_wr (res : DMap) (o : Option P2P) (b : Bool) (k : String) :
    get (wr res o b) k =
      match o with
      | some x => if k = x.key then some (setP b (some x) ((get res x.key).getD {})) else get res k
      | none => get res k := by
  cases o with
  | none => rfl
  | some x => simp only [wr]; rw [get_update]

theorem nodup_wr {res : DMap} (h : (keys res).Nodup) (o : Option P2P) (b : Bool) :
    (keys (wr res o b)).Nodup := by
  cases o with
  | none => exact h
  | some x => exact nodup_update h _ _ _

theorem nodup_stepW {res : DMap} (h : (keys res).Nodup) (b : Bool) (g0 : Pair) (r : Iv) :
    (keys (stepW b g0 res r)).Nodup := nodup_wr (nodup_wr h _ _) _ _

theorem nodup_mergeGroups {res : DMap} (h : (keys res).Nodup) (pairs : List Pair) (b : Bool) :
    (keys (mergeGroups pairs b res)).Nodup :=
  mergeGroups_induction (fun m => (keys m).Nodup) pairs b res h
    (fun _ _ g0 r hres _ _ => nodup_stepW hres b g0 r)

theorem update2_new {m : DMap} {k : String} (h : k ∉ keys m) (c c' : Option P2P) :
    update2 m k c c' = m ++ [(k, ⟨c, c'⟩)] := by
  unfold update2
  rw [update_eq m, if_neg h, update_eq, if_pos (by simp [keys])]
  rw [List.map_append]
  congr 1
  · rw [List.map_congr_left (g := id)]
    · simp
    · intro kp hkp
      have : kp.1 ≠ k := fun hk => h (List.mem_map.mpr ⟨kp, hkp, hk⟩)
      simp [this]
  · simp [setP]

theorem rebuild_cons (kp : String × Pair) (plain acc : DMap) :
    rebuild (kp :: plain) acc = rebuild plain (update2 acc kp.1 kp.2.first kp.2.second) := rfl

theorem rebuild_eq {plain acc : DMap} (h : (keys (acc ++ plain)).Nodup) :
    rebuild plain acc = acc ++ plain := by
  induction plain generalizing acc with
  | nil => simp [rebuild]
  | cons kp plain ih =>
    rw [rebuild_cons]
    have hk : kp.1 ∉ keys acc := by
      simp only [keys, List.map_append, List.map_cons] at h
      have := (List.nodup_append.mp h).2.2
      intro hmem
      exact this _ hmem _ (List.mem_cons_self ..) rfl
    rw [update2_new hk]
    have : acc ++ [(kp.1, (⟨kp.2.first, kp.2.second⟩ : Pair))] = acc ++ [kp] := rfl
    rw [this, ih (by simpa using h)]
    simp

theorem nodup_keys_filter {m : DMap} (h : (keys m).Nodup) (q : String × Pair → Bool) :
    (keys (m.filter q)).Nodup :=
  h.sublist (List.Sublist.map _ List.filter_sublist)

theorem get_filter {m : DMap} (h : (keys m).Nodup) (q : String × Pair → Bool) (k : String) :
    get (m.filter q) k = (get m k).filter (fun p => q (k, p)) := by
  cases hg : get m k with
  | none =>
    rw [Option.filter_none, get_eq_none_iff]
    intro hmem
    have hk := get_eq_none_iff.mp hg
    obtain ⟨kp, hkp, rfl⟩ := List.mem_map.mp hmem
    exact hk (List.mem_map.mpr ⟨kp, (List.mem_filter.mp hkp).1, rfl⟩)
  | some p =>
    have hm := (mem_iff_get h).mpr hg
    rw [Option.filter_some]
    by_cases hq : q (k, p) = true
    · rw [if_pos hq]
      exact (mem_iff_get (nodup_keys_filter h q)).mp (List.mem_filter.mpr ⟨hm, hq⟩)
    · rw [if_neg hq, get_eq_none_iff]
      intro hmem
      obtain ⟨kp, hkp, hk⟩ := List.mem_map.mp hmem
      obtain ⟨hkp1, hkp2⟩ := List.mem_filter.mp hkp
      obtain ⟨k', p'⟩ := kp
      simp only at hk
      subst hk
      have := (mem_iff_get h).mp hkp1
      rw [hg] at this
      cases this
      exact hq hkp2

/-! ## E. invariants of the maps -/

/-- a property of all entries of a map -/
def AllE (Q : String → Pair → Prop) (m : DMap) : Prop := ∀ k p, get m k = some p → Q k p

/-- every connection stored under `k` has key `k` and satisfies `J` -/
def Good (J : P2P → Prop) (k : String) (p : Pair) : Prop :=
  (∀ a, p.first = some a → a.key = k ∧ J a) ∧ (∀ a, p.second = some a → a.key = k ∧ J a)

theorem good_default (J : P2P → Prop) (k : String) : Good J k {} :=
  ⟨fun _ h => (by cases h), fun _ h => (by cases h)⟩

theorem allE_nil (Q : String → Pair → Prop) : AllE Q [] := fun _ _ h => by cases h

theorem good_update {J : P2P → Prop} {res : DMap} (h : AllE (Good J) res) {x : P2P} (hx : J x)
    (b : Bool) : AllE (Good J) (res.update x.key b (some x)) := by
  intro k p hg
  rw [get_update] at hg
  by_cases hk : k = x.key
  · rw [if_pos hk] at hg
    subst hk
    have h0 : Good J x.key ((get res x.key).getD {}) := by
      cases hr : get res x.key with
      | none => exact good_default J _
      | some p0 => exact h _ _ hr
    cases hg
    cases b
    · exact ⟨h0.1, fun a ha => by cases ha; exact ⟨rfl, hx⟩⟩
    · exact ⟨fun a ha => by cases ha; exact ⟨rfl, hx⟩, h0.2⟩
  · rw [if_neg hk] at hg
    exact h _ _ hg

theorem good_wr {J : P2P → Prop} {res : DMap} (h : AllE (Good J) res) {o : Option P2P}
    (ho : ∀ x, o = some x → J x) (b : Bool) : AllE (Good J) (wr res o b) := by
  cases o with
  | none => exact h
  | some x => exact good_update h (ho x rfl) b

theorem good_stepW {J : P2P → Prop} {res : DMap} (h : AllE (Good J) res) {b : Bool} {g0 : Pair}
    {r : Iv} (h1 : ∀ x, g0.first = some x → J (mkIP b r x))
    (h2 : ∀ x, g0.second = some x → J (mkIP b r x)) : AllE (Good J) (stepW b g0 res r) := by
  unfold stepW
  refine good_wr (good_wr h ?_ _) ?_ _
  · intro x hx
    obtain ⟨y, hy, rfl⟩ := Option.map_eq_some_iff.mp hx
    exact h1 y hy
  · intro x hx
    obtain ⟨y, hy, rfl⟩ := Option.map_eq_some_iff.mp hx
    exact h2 y hy

theorem good_mergeGroups {J : P2P → Prop} {res : DMap} (h : AllE (Good J) res) {b : Bool}
    {pairs : List Pair}
    (hp : ∀ g ∈ pairs, ∀ x, (g.first = some x ∨ g.second = some x) → ∀ r, J (mkIP b r x)) :
    AllE (Good J) (mergeGroups pairs b res) := by
  refine mergeGroups_induction (AllE (Good J)) pairs b res h ?_
  intro res k g0 r hres hg0 _
  have hm := (head_groupOf_mem hg0).1
  exact good_stepW hres (fun x hx => hp g0 hm x (Or.inl hx) r) (fun x hx => hp g0 hm x (Or.inr hx) r)

theorem mem_dstIPs {m : DMap} {g : Pair} (h : g ∈ dstIPs m) :
    ∃ k, (k, g) ∈ m ∧ isIPp g false = true := by
  unfold dstIPs at h
  obtain ⟨kp, hkp, rfl⟩ := List.mem_map.mp h
  obtain ⟨h1, h2⟩ := List.mem_filter.mp hkp
  exact ⟨kp.1, h1, h2⟩

theorem mem_srcIPs {m : DMap} {g : Pair} (h : g ∈ srcIPs m) :
    ∃ k, (k, g) ∈ m ∧ isIPp g false = false ∧ isIPp g true = true := by
  unfold srcIPs at h
  obtain ⟨kp, hkp, rfl⟩ := List.mem_map.mp h
  obtain ⟨h1, h2⟩ := List.mem_filter.mp hkp
  simp only [Bool.and_eq_true, Bool.not_eq_true'] at h2
  exact ⟨kp.1, h1, h2.1, h2.2⟩

theorem rebuild_plainOf {m : DMap} (h : (keys m).Nodup) : rebuild (plainOf m) [] = plainOf m := by
  rw [rebuild_eq]
  · rfl
  · exact nodup_keys_filter h _

theorem nodup_mergeIPblocks {m : DMap} (h : (keys m).Nodup) : (keys (mergeIPblocks m)).Nodup := by
  rw [mergeIPblocks_eq, rebuild_plainOf h]
  exact nodup_mergeGroups (nodup_mergeGroups (nodup_keys_filter h _) _ _) _ _

theorem good_mergeIPblocks {J : P2P → Prop} {m : DMap} (hnd : (keys m).Nodup)
    (h : AllE (Good J) m) (hJ : ∀ x b r, J x → J (mkIP b r x)) :
    AllE (Good J) (mergeIPblocks m) := by
  rw [mergeIPblocks_eq, rebuild_plainOf hnd]
  have hplain : AllE (Good J) (plainOf m) := by
    intro k p hg
    unfold plainOf at hg
    rw [get_filter hnd] at hg
    obtain ⟨hg1, _⟩ := Option.filter_eq_some_iff.mp hg
    exact h k p hg1
  refine good_mergeGroups (good_mergeGroups hplain ?_) ?_
  · intro g hg x hx r
    obtain ⟨k, hk, _⟩ := mem_dstIPs hg
    have hgood := h k g ((mem_iff_get hnd).mp hk)
    rcases hx with hx | hx
    · exact hJ _ _ _ (hgood.1 x hx).2
    · exact hJ _ _ _ (hgood.2 x hx).2
  · intro g hg x hx r
    obtain ⟨k, hk, _⟩ := mem_srcIPs hg
    have hgood := h k g ((mem_iff_get hnd).mp hk)
    rcases hx with hx | hx
    · exact hJ _ _ _ (hgood.1 x hx).2
    · exact hJ _ _ _ (hgood.2 x hx).2

theorem good_fill {J : P2P → Prop} {m : DMap} (h : AllE (Good J) m) (b : Bool) {l : List P2P}
    (hl : ∀ a ∈ l, J a) : AllE (Good J) (fill b l m) := by
  induction l generalizing m with
  | nil => exact h
  | cons c l ih =>
    rw [fill_cons]
    exact ih (good_update h (hl c (List.mem_cons_self ..)) b)
      (fun a ha => hl a (List.mem_cons_of_mem _ ha))

theorem good_diffMap {J : P2P → Prop} {c1 c2 : List P2P} (h1 : ∀ a ∈ c1, J a)
    (h2 : ∀ a ∈ c2, J a) : AllE (Good J) (diffMap c1 c2) :=
  good_fill (good_fill (allE_nil _) true h1) false h2

/-! ## F. the frame: keys that no IP write touches -/

theorem get_wr_ne {res : DMap} {o : Option P2P} {b : Bool} {K : String}
    (h : ∀ x, o = some x → x.key ≠ K) : get (wr res o b) K = get res K := by
  rw [get_wr]
  cases o with
  | none => rfl
  | some x =>
    simp only
    rw [if_neg (fun hk => h x rfl hk.symm)]

theorem get_mergeGroups_ne {res : DMap} {b : Bool} {pairs : List Pair} {K : String}
    (hp : ∀ g ∈ pairs, ∀ x, (g.first = some x ∨ g.second = some x) → ∀ r, (mkIP b r x).key ≠ K) :
    get (mergeGroups pairs b res) K = get res K := by
  refine mergeGroups_induction (fun m => get m K = get res K) pairs b res rfl ?_
  intro res' k g0 r hres hg0 _
  have hm := (head_groupOf_mem hg0).1
  unfold stepW
  rw [get_wr_ne, get_wr_ne, hres]
  · intro x hx
    obtain ⟨y, hy, rfl⟩ := Option.map_eq_some_iff.mp hx
    exact hp g0 hm y (Or.inl hy) r
  · intro x hx
    obtain ⟨y, hy, rfl⟩ := Option.map_eq_some_iff.mp hx
    exact hp g0 hm y (Or.inr hy) r

theorem mkIP_key_true (r : Iv) (x : P2P) : (mkIP true r x).key = pkey (LPeer.ip r).str x.dst.str := rfl
theorem mkIP_key_false (r : Iv) (x : P2P) : (mkIP false r x).key = pkey x.src.str (LPeer.ip r).str := rfl

/-- `mergeIPblocks` leaves the entry of a pair of workload names alone -/
theorem get_mergeIPblocks_wl {m : DMap} (hnd : (keys m).Nodup)
    (h : AllE (Good fun a => NoSemi a.src.str) m) {s d : String} (hs : NoSemi s)
    (hsip : NotIP s) (hdip : NotIP d) :
    get (mergeIPblocks m) (pkey s d) = get m (pkey s d) := by
  rw [mergeIPblocks_eq, rebuild_plainOf hnd, get_mergeGroups_ne, get_mergeGroups_ne]
  · unfold plainOf
    rw [get_filter hnd]
    cases hg : get m (pkey s d) with
    | none => rfl
    | some p =>
      rw [Option.filter_some, if_pos]
      have hgood := h _ _ hg
      have hx : ∀ x, p.any = some x → x.src.isIP = false ∧ x.dst.isIP = false := by
        intro x hx
        have hk : x.key = pkey s d ∧ NoSemi x.src.str := by
          unfold Pair.any at hx
          cases hf : p.first with
          | some a =>
            rw [hf] at hx
            cases hx
            exact hgood.1 _ hf
          | none =>
            rw [hf] at hx
            exact hgood.2 _ (by simpa using hx)
        rw [key_eq] at hk
        obtain ⟨e1, e2⟩ := pkey_inj hk.2 hs hk.1
        exact ⟨notIP_of_wl_str (e1 ▸ hsip), notIP_of_wl_str (e2 ▸ hdip)⟩
      simp only [isIPp]
      cases ha : p.any with
      | none => rfl
      | some x =>
        obtain ⟨h1, h2⟩ := hx x ha
        simp [h1, h2]
  · intro g hg x hx r
    obtain ⟨k, hk, _⟩ := mem_dstIPs hg
    have hgood := h k g ((mem_iff_get hnd).mp hk)
    have hns : NoSemi x.src.str := by
      rcases hx with hx | hx
      · exact (hgood.1 x hx).2
      · exact (hgood.2 x hx).2
    rw [mkIP_key_false]
    intro heq
    exact hdip r (pkey_inj hns hs heq).2.symm
  · intro g _ x _ r
    rw [mkIP_key_true]
    intro heq
    exact hsip r (pkey_inj (noSemi_ipRange r) hs heq).1.symm

/-! ## G. the entries of the diff for a pair of workload names -/

theorem filterMap_congr' {α β : Type} {f g : α → Option β} {l : List α}
    (h : ∀ x ∈ l, f x = g x) : l.filterMap f = l.filterMap g := by
  induction l with
  | nil => rfl
  | cons a l ih =>
    rw [List.filterMap_cons, List.filterMap_cons, h a (List.mem_cons_self ..),
      ih (fun x hx => h x (List.mem_cons_of_mem _ hx))]

theorem reverse_find?_of_filter {α : Type} {p : α → Bool} {l : List α} {o : Option α}
    (h : l.filter p = o.toList) : l.reverse.find? p = o := by
  rw [← List.getLast?_filter, h]
  cases o <;> rfl

theorem find?_of_filter {α : Type} {p : α → Bool} {l : List α} {o : Option α}
    (h : l.filter p = o.toList) : l.find? p = o := by
  rw [← List.head?_filter, h]
  cases o <;> rfl

theorem filter_unique_of_nodup {α : Type} (f : α → String) (k : String) {l : List α}
    (h : (l.map f).Nodup) :
    l.filter (fun c => f c == k) = (l.find? (fun c => f c == k)).toList := by
  induction l with
  | nil => rfl
  | cons c l ih =>
    have h0 := List.nodup_cons.mp h
    rw [List.filter_cons, List.find?_cons]
    by_cases hk : f c = k
    · have hn : l.filter (fun c => f c == k) = [] := by
        rw [List.filter_eq_nil_iff]
        intro x hx
        simp only [beq_iff_eq]
        intro hxk
        exact h0.1 (List.mem_map.mpr ⟨x, hx, hxk.trans hk.symm⟩)
      simp [hn, hk]
    · have : (f c == k) = false := by simpa using hk
      simp only [this]
      exact ih h0.2

theorem get_diffMap_of_filter {c1 c2 : List P2P} {k : String} {o1 o2 : Option P2P}
    (h1 : c1.filter (fun c => c.key == k) = o1.toList)
    (h2 : c2.filter (fun c => c.key == k) = o2.toList) :
    get (diffMap c1 c2) k = mkPair o1 o2 := by
  unfold diffMap
  rw [get_fill, get_fill, reverse_find?_of_filter h1, reverse_find?_of_filter h2]
  cases o1 <;> cases o2 <;> rfl

theorem classify_some {p1 p2 : List String} {k : String} {p : Pair} {e : DEntry}
    (h : classify p1 p2 (k, p) = some e) :
    ∃ a, (p.first = some a ∨ p.second = some a) ∧ e.src = a.src.str ∧ e.dst = a.dst.str := by
  unfold classify at h
  simp only at h
  split at h
  · rename_i a b ha hb
    cases h
    exact ⟨a, Or.inl ha, rfl, rfl⟩
  · rename_i a ha hb
    cases h
    exact ⟨a, Or.inl ha, rfl, rfl⟩
  · rename_i b ha hb
    cases h
    exact ⟨b, Or.inr hb, rfl, rfl⟩
  · cases h

/-- the entries of `diffLists` with the names `s`, `d`: what the merged map holds under the key
of `s`, `d`, classified -/
theorem diffLists_filter_key {c1 c2 : List P2P} (p1 p2 : List String) {s : String} (d : String)
    (hns1 : ∀ a ∈ c1, NoSemi a.src.str) (hns2 : ∀ a ∈ c2, NoSemi a.src.str) (hs : NoSemi s) :
    (diffLists c1 c2 p1 p2).filter (fun e => e.src == s && e.dst == d) =
      ((get (mergeIPblocks (diffMap c1 c2)) (pkey s d)).bind fun p =>
        classify p1 p2 (pkey s d, p)).toList := by
  have hnd := nodup_diffMap c1 c2
  have hgood : AllE (Good fun a => NoSemi a.src.str) (diffMap c1 c2) := good_diffMap hns1 hns2
  have hnd' := nodup_mergeIPblocks hnd
  have hgood' := good_mergeIPblocks hnd hgood (fun x b r hx => by
    cases b
    · exact hx
    · exact noSemi_ipRange r)
  rw [diffLists_eq, List.filter_filterMap]
  have hpt : ∀ x ∈ mergeIPblocks (diffMap c1 c2),
      (classify p1 p2 x).filter (fun e => e.src == s && e.dst == d) =
        if x.1 == pkey s d then classify p1 p2 x else none := by
    intro x hx
    obtain ⟨k, p⟩ := x
    have hg := hgood' k p ((mem_iff_get hnd').mp hx)
    cases hc : classify p1 p2 (k, p) with
    | none => simp
    | some e =>
      obtain ⟨a, ha, e1, e2⟩ := classify_some hc
      have hka : a.key = k ∧ NoSemi a.src.str := by
        rcases ha with ha | ha
        · exact hg.1 a ha
        · exact hg.2 a ha
      rw [Option.filter_some]
      have : (e.src == s && e.dst == d) = (k == pkey s d) := by
        rw [Bool.eq_iff_iff]
        simp only [Bool.and_eq_true, beq_iff_eq]
        rw [e1, e2, ← hka.1, key_eq]
        constructor
        · rintro ⟨rfl, rfl⟩; rfl
        · intro h; exact pkey_inj hka.2 hs h
      simp only [this]
  rw [filterMap_congr' hpt, ← List.filterMap_filter, filter_key_eq hnd']
  cases get (mergeIPblocks (diffMap c1 c2)) (pkey s d) with
  | none => rfl
  | some p =>
    simp only [Option.map_some, Option.toList_some, List.filterMap_cons, List.filterMap_nil,
      Option.bind_some]
    cases classify p1 p2 (pkey s d, p) <;> rfl

/-- the entries of `diffLists` whose names are `s`, `d` (two workload names): what the map built from
the two lists holds under the key of `s`, `d`, classified -/
theorem diffLists_filter_wl {c1 c2 : List P2P} (p1 p2 : List String) {s d : String}
    {o1 o2 : Option P2P}
    (hns1 : ∀ a ∈ c1, NoSemi a.src.str) (hns2 : ∀ a ∈ c2, NoSemi a.src.str) (hs : NoSemi s)
    (hsip : NotIP s) (hdip : NotIP d)
    (h1 : c1.filter (fun c => c.key == pkey s d) = o1.toList)
    (h2 : c2.filter (fun c => c.key == pkey s d) = o2.toList) :
    (diffLists c1 c2 p1 p2).filter (fun e => e.src == s && e.dst == d) =
      ((mkPair o1 o2).bind fun p => classify p1 p2 (pkey s d, p)).toList := by
  rw [diffLists_filter_key p1 p2 d hns1 hns2 hs,
    get_mergeIPblocks_wl (nodup_diffMap c1 c2) (good_diffMap hns1 hns2) hs hsip hdip,
    get_diffMap_of_filter h1 h2]

/-! ## H. the diff of a report with itself -/

/-- both sides hold the same connection -/
def Same (_ : String) (p : Pair) : Prop := ∃ a, p.first = some a ∧ p.second = some a

theorem same_stepW {res : DMap} (h : AllE Same res) {b : Bool} {g0 : Pair} (hg : Same "" g0)
    (r : Iv) : AllE Same (stepW b g0 res r) := by
  obtain ⟨a, h1, h2⟩ := hg
  unfold stepW
  rw [h1, h2]
  simp only [Option.map_some, wr]
  intro k p hk
  have := get_update2 res (mkIP b r a).key k (some (mkIP b r a)) (some (mkIP b r a))
  unfold update2 at this
  rw [this] at hk
  by_cases hkk : k = (mkIP b r a).key
  · rw [if_pos hkk] at hk
    cases hk
    exact ⟨_, rfl, rfl⟩
  · rw [if_neg hkk] at hk
    exact h k p hk

theorem same_mergeGroups {res : DMap} (h : AllE Same res) {b : Bool} {pairs : List Pair}
    (hp : ∀ g ∈ pairs, Same "" g) : AllE Same (mergeGroups pairs b res) := by
  refine mergeGroups_induction (AllE Same) pairs b res h ?_
  intro res k g0 r hres hg0 _
  exact same_stepW hres (hp g0 (head_groupOf_mem hg0).1) r

theorem same_mergeIPblocks {m : DMap} (hnd : (keys m).Nodup) (h : AllE Same m) :
    AllE Same (mergeIPblocks m) := by
  rw [mergeIPblocks_eq, rebuild_plainOf hnd]
  have hplain : AllE Same (plainOf m) := by
    intro k p hg
    unfold plainOf at hg
    rw [get_filter hnd] at hg
    exact h k p (Option.filter_eq_some_iff.mp hg).1
  refine same_mergeGroups (same_mergeGroups hplain ?_) ?_
  · intro g hg
    obtain ⟨k, hk, _⟩ := mem_dstIPs hg
    exact h k g ((mem_iff_get hnd).mp hk)
  · intro g hg
    obtain ⟨k, hk, _⟩ := mem_srcIPs hg
    exact h k g ((mem_iff_get hnd).mp hk)

theorem same_diffMap (c : List P2P) : AllE Same (diffMap c c) := by
  intro k p hg
  unfold diffMap at hg
  rw [get_fill, get_fill] at hg
  cases hf : c.reverse.find? (fun c => c.key == k) with
  | none =>
    rw [hf] at hg
    cases hg
  | some a =>
    rw [hf] at hg
    cases hg
    exact ⟨a, rfl, rfl⟩

/-- every entry of the diff of a list with itself is `unchanged` -/
theorem diffLists_self (c : List P2P) (p1 p2 : List String) :
    ∀ e ∈ diffLists c c p1 p2, e.typ = "unchanged" := by
  intro e he
  rw [diffLists_eq, List.mem_filterMap] at he
  obtain ⟨⟨k, p⟩, hkp, hc⟩ := he
  have hnd := nodup_diffMap c c
  obtain ⟨a, h1, h2⟩ := same_mergeIPblocks hnd (same_diffMap c) k p
    ((mem_iff_get (nodup_mergeIPblocks hnd)).mp hkp)
  unfold classify at hc
  simp only [h1, h2] at hc
  cases hc
  simp

/-! ## I. `refine` and pairs of workload names -/

/-- the refinement of one connection -/
def refine1 (dis : List Iv) (p : P2P) : List P2P :=
  match p.src, p.dst with
  | .ip r, _ => (dis.filter fun d => decide (r.lo ≤ d.lo ∧ d.hi ≤ r.hi)).map fun d => { p with src := .ip d }
  | _, .ip r => (dis.filter fun d => decide (r.lo ≤ d.lo ∧ d.hi ≤ r.hi)).map fun d => { p with dst := .ip d }
  | _, _ => [p]

theorem refine_eq (l : List P2P) (dis : List Iv) : refine l dis = l.flatMap (refine1 dis) := rfl

theorem refine_cons (p : P2P) (l : List P2P) (dis : List Iv) :
    refine (p :: l) dis = refine1 dis p ++ refine l dis := by
  rw [refine_eq, refine_eq, List.flatMap_cons]

/-- the blocks of `dis` inside `r` -/
def inside (dis : List Iv) (r : Iv) : List Iv := dis.filter fun d => decide (r.lo ≤ d.lo ∧ d.hi ≤ r.hi)

theorem mem_refine1 {dis : List Iv} {p a : P2P} (h : a ∈ refine1 dis p) :
    (a = p ∧ p.src.isIP = false ∧ p.dst.isIP = false) ∨
    (∃ r d, p.src = .ip r ∧ d ∈ inside dis r ∧ a = { p with src := .ip d }) ∨
    (∃ r d, p.src.isIP = false ∧ p.dst = .ip r ∧ d ∈ inside dis r ∧ a = { p with dst := .ip d }) := by
  unfold refine1 at h
  cases hs : p.src with
  | ip r =>
    rw [hs] at h
    obtain ⟨d, hd, rfl⟩ := List.mem_map.mp h
    exact Or.inr (Or.inl ⟨r, d, rfl, hd, rfl⟩)
  | wl n pod =>
    cases hd : p.dst with
    | ip r =>
      rw [hs, hd] at h
      obtain ⟨d, hdd, rfl⟩ := List.mem_map.mp h
      exact Or.inr (Or.inr ⟨r, d, rfl, rfl, hdd, rfl⟩)
    | wl n' pod' =>
      rw [hs, hd] at h
      rw [List.mem_singleton] at h
      exact Or.inl ⟨h, rfl, rfl⟩

theorem mem_refine {dis : List Iv} {l : List P2P} {a : P2P} :
    a ∈ refine l dis ↔ ∃ p ∈ l, a ∈ refine1 dis p := by
  rw [refine_eq, List.mem_flatMap]

theorem noSemi_refine {dis : List Iv} {l : List P2P} (h : ∀ p ∈ l, NoSemi p.src.str) :
    ∀ a ∈ refine l dis, NoSemi a.src.str := by
  intro a ha
  obtain ⟨p, hp, hap⟩ := mem_refine.mp ha
  rcases mem_refine1 hap with ⟨rfl, _⟩ | ⟨r, d, _, _, rfl⟩ | ⟨r, d, _, _, _, rfl⟩
  · exact h _ hp
  · exact noSemi_ipRange d
  · exact h p hp

/-- refinement does not touch the connections between two workload names -/
theorem refine_filter_wl {dis : List Iv} {l : List P2P} (h : ∀ p ∈ l, NoSemi p.src.str)
    {s d : String} (hs : NoSemi s) (hsip : NotIP s) (hdip : NotIP d) :
    (refine l dis).filter (fun c => c.key == pkey s d) = l.filter (fun c => c.key == pkey s d) := by
  induction l with
  | nil => rfl
  | cons p l ih =>
    rw [refine_cons, List.filter_append, ih (fun q hq => h q (List.mem_cons_of_mem _ hq))]
    have hp := h p (List.mem_cons_self ..)
    have : (refine1 dis p).filter (fun c => c.key == pkey s d) =
        [p].filter (fun c => c.key == pkey s d) := by
      by_cases hplain : p.src.isIP = false ∧ p.dst.isIP = false
      · have : refine1 dis p = [p] := by
          unfold refine1
          cases hs' : p.src with
          | ip r => rw [hs'] at hplain; exact absurd hplain.1 (by simp [LPeer.isIP])
          | wl n pod =>
            cases hd' : p.dst with
            | ip r => rw [hd'] at hplain; exact absurd hplain.2 (by simp [LPeer.isIP])
            | wl n' pod' => rfl
        rw [this]
      · have hne : ∀ a ∈ refine1 dis p, (a.key == pkey s d) = false := by
          intro a ha
          rw [beq_eq_false_iff_ne]
          intro heq
          rcases mem_refine1 ha with ⟨rfl, h1, h2⟩ | ⟨r, d', _, _, rfl⟩ | ⟨r, d', _, _, _, rfl⟩
          · exact hplain ⟨h1, h2⟩
          · exact hsip d' (pkey_inj (noSemi_ipRange d') hs heq).1.symm
          · exact hdip d' (pkey_inj hp hs heq).2.symm
        have hpk : (p.key == pkey s d) = false := by
          rw [beq_eq_false_iff_ne]
          intro heq
          rw [key_eq] at heq
          obtain ⟨e1, e2⟩ := pkey_inj hp hs heq
          exact hplain ⟨notIP_of_wl_str (e1 ▸ hsip), notIP_of_wl_str (e2 ▸ hdip)⟩
        rw [List.filter_eq_nil_iff.mpr (fun a ha => by simp [hne a ha])]
        simp [hpk]
    rw [this, ← List.filter_append]
    rfl

theorem filter_unique_of_pairwise {α : Type} (q : α → Bool) {l : List α}
    (h : l.Pairwise fun a b => ¬ (q a = true ∧ q b = true)) :
    l.filter q = (l.find? q).toList := by
  induction l with
  | nil => rfl
  | cons c l ih =>
    have h0 := List.pairwise_cons.mp h
    rw [List.filter_cons, List.find?_cons]
    cases hq : q c with
    | true =>
      have hn : l.filter q = [] := by
        rw [List.filter_eq_nil_iff]
        intro x hx hqx
        exact h0.1 x hx ⟨hq, hqx⟩
      simp [hn]
    | false =>
      simp only [Bool.false_eq_true, if_false]
      exact ih h0.2

/-! # the common refinement: properties of `disjointBlocks` -/

/-- the boundary points of the blocks -/
def dPoints (blocks : List Iv) : List Int := blocks.flatMap fun b => [b.lo, b.hi + 1]

/-- the sorted, deduplicated boundary points of `s1 ++ s2` -/
def dSorted (s1 s2 : List Iv) : List Int :=
  ((dPoints (s1 ++ s2)).mergeSort (· ≤ ·)).eraseDups

/-- the range between two consecutive points, when it is covered by one of the blocks -/
def dSegF (blocks : List Iv) : Int × Int → Option Iv :=
  fun (a, b) =>
    if a < b ∧ blocks.any (fun k => decide (k.lo ≤ a ∧ b - 1 ≤ k.hi)) then some ⟨a, b - 1⟩ else none

def dSegs (blocks : List Iv) (S : List Int) : List Iv := (S.zip S.tail).filterMap (dSegF blocks)

theorem disjointBlocks_eq (s1 s2 : List Iv) :
    disjointBlocks s1 s2 = ((dSorted s1 s2).zip (dSorted s1 s2).tail).filterMap (dSegF (s1 ++ s2)) :=
  rfl

theorem disjointBlocks_eq_dSegs (s1 s2 : List Iv) :
    disjointBlocks s1 s2 = dSegs (s1 ++ s2) (dSorted s1 s2) := rfl

theorem dSorted_sorted (s1 s2 : List Iv) : (dSorted s1 s2).Pairwise (· < ·) := by
  unfold dSorted
  refine pairwise_lt_eraseDups _ _ (Nat.le_refl _) ?_
  have := List.pairwise_mergeSort (le := fun (a b : Int) => decide (a ≤ b))
    (by intro a b c h1 h2; simp only [decide_eq_true_eq] at *; omega)
    (by intro a b; simp only [Bool.or_eq_true, decide_eq_true_eq]; omega) (dPoints (s1 ++ s2))
  exact this.imp (by intro a b h; simpa using h)

theorem mem_dSorted {s1 s2 : List Iv} {x : Int} :
    x ∈ dSorted s1 s2 ↔ x ∈ dPoints (s1 ++ s2) := by
  unfold dSorted
  rw [List.mem_eraseDups, List.mem_mergeSort]

theorem lo_mem_dPoints {blocks : List Iv} {b : Iv} (hb : b ∈ blocks) : b.lo ∈ dPoints blocks := by
  unfold dPoints
  refine List.mem_flatMap.mpr ⟨b, hb, ?_⟩
  simp

theorem hi_mem_dPoints {blocks : List Iv} {b : Iv} (hb : b ∈ blocks) :
    b.hi + 1 ∈ dPoints blocks := by
  unfold dPoints
  refine List.mem_flatMap.mpr ⟨b, hb, ?_⟩
  simp

theorem lo_mem_dSorted {s1 s2 : List Iv} {k : Iv} (hk : k ∈ s1 ++ s2) : k.lo ∈ dSorted s1 s2 :=
  mem_dSorted.mpr (lo_mem_dPoints hk)

theorem hi_mem_dSorted {s1 s2 : List Iv} {k : Iv} (hk : k ∈ s1 ++ s2) :
    k.hi + 1 ∈ dSorted s1 s2 :=
  mem_dSorted.mpr (hi_mem_dPoints hk)

/-- the filter condition as a proposition -/
theorem dSegF_cond {blocks : List Iv} {a b : Int} :
    (blocks.any (fun k => decide (k.lo ≤ a ∧ b - 1 ≤ k.hi)) = true) ↔
      ∃ k ∈ blocks, k.lo ≤ a ∧ b - 1 ≤ k.hi := by
  rw [List.any_eq_true]
  constructor
  · rintro ⟨k, hk, h⟩
    exact ⟨k, hk, by simpa using h⟩
  · rintro ⟨k, hk, h⟩
    exact ⟨k, hk, by simpa using h⟩

theorem mem_dSegs {blocks : List Iv} {S : List Int} {d : Iv} :
    d ∈ dSegs blocks S ↔ ∃ a b, (a, b) ∈ S.zip S.tail ∧ a < b ∧
      (∃ k ∈ blocks, k.lo ≤ a ∧ b - 1 ≤ k.hi) ∧ d = ⟨a, b - 1⟩ := by
  unfold dSegs
  rw [List.mem_filterMap]
  constructor
  · rintro ⟨⟨a, b⟩, hab, h⟩
    unfold dSegF at h
    simp only at h
    split at h
    · rename_i hc
      exact ⟨a, b, hab, hc.1, dSegF_cond.mp hc.2, (Option.some.inj h).symm⟩
    · cases h
  · rintro ⟨a, b, hab, h1, h2, rfl⟩
    refine ⟨(a, b), hab, ?_⟩
    unfold dSegF
    simp only
    rw [if_pos ⟨h1, dSegF_cond.mpr h2⟩]

/-- membership: a covered segment between two consecutive boundary points -/
theorem mem_disjointBlocks {s1 s2 : List Iv} {d : Iv} :
    d ∈ disjointBlocks s1 s2 ↔ ∃ a b, (a, b) ∈ (dSorted s1 s2).zip (dSorted s1 s2).tail ∧ a < b ∧
      (∃ k ∈ s1 ++ s2, k.lo ≤ a ∧ b - 1 ≤ k.hi) ∧ d = ⟨a, b - 1⟩ := by
  rw [disjointBlocks_eq_dSegs]
  exact mem_dSegs

theorem dSegs_cons_cons (blocks : List Iv) (a b : Int) (rest : List Int) :
    dSegs blocks (a :: b :: rest) = (dSegF blocks (a, b)).toList ++ dSegs blocks (b :: rest) := by
  unfold dSegs
  rw [List.tail_cons, List.zip_cons_cons, List.filterMap_cons]
  cases dSegF blocks (a, b) <;> rfl

theorem dSegs_pairwise (blocks : List Iv) {S : List Int} (hS : S.Pairwise (· < ·)) :
    (dSegs blocks S).Pairwise (fun r r' => r.hi < r'.lo) := by
  induction S with
  | nil => exact List.Pairwise.nil
  | cons a S1 ih =>
    cases S1 with
    | nil => exact List.Pairwise.nil
    | cons b rest =>
      have h0 := List.pairwise_cons.mp hS
      have ih' := ih h0.2
      rw [dSegs_cons_cons]
      unfold dSegF
      simp only
      split
      · refine List.pairwise_cons.mpr ⟨?_, ih'⟩
        intro r' hr'
        obtain ⟨a', b', hab', _, _, rfl⟩ := mem_dSegs.mp hr'
        obtain ⟨_, ha', _, _⟩ := consec_no_between h0.2 hab'
        have h1 := List.pairwise_cons.mp h0.2
        simp only
        rcases List.mem_cons.mp ha' with rfl | ha''
        · omega
        · have := h1.1 a' ha''; omega
      · exact ih'

theorem disjointBlocks_pairwise (s1 s2 : List Iv) :
    (disjointBlocks s1 s2).Pairwise (fun r r' => r.hi < r'.lo) := by
  rw [disjointBlocks_eq_dSegs]
  exact dSegs_pairwise _ (dSorted_sorted s1 s2)

theorem disjointBlocks_nonempty (s1 s2 : List Iv) : ∀ d ∈ disjointBlocks s1 s2, d.lo ≤ d.hi := by
  intro d hd
  obtain ⟨a, b, _, h1, _, rfl⟩ := mem_disjointBlocks.mp hd
  simp only
  omega

/-- every segment lies inside one of the blocks -/
theorem disjointBlocks_sub (s1 s2 : List Iv) :
    ∀ d ∈ disjointBlocks s1 s2, ∃ k ∈ s1 ++ s2, k.lo ≤ d.lo ∧ d.hi ≤ k.hi := by
  intro d hd
  obtain ⟨a, b, _, _, ⟨k, hk, h1, h2⟩, rfl⟩ := mem_disjointBlocks.mp hd
  exact ⟨k, hk, h1, h2⟩

/-- every address of a block lies in some segment -/
theorem disjointBlocks_cover (s1 s2 : List Iv) {k : Iv} (hk : k ∈ s1 ++ s2) {x : Int}
    (hx : k.lo ≤ x ∧ x ≤ k.hi) : ∃ d ∈ disjointBlocks s1 s2, d.lo ≤ x ∧ x ≤ d.hi := by
  have hS := dSorted_sorted s1 s2
  have hlo := lo_mem_dSorted hk
  have hhi := hi_mem_dSorted hk
  obtain ⟨a, b, hab, ha, hb⟩ := consec_exists hS hlo hhi hx.1 (by omega)
  obtain ⟨hlt, _, _, hno⟩ := consec_no_between hS hab
  have h1 := hno k.lo hlo
  have h2 := hno (k.hi + 1) hhi
  refine ⟨⟨a, b - 1⟩, ?_, ?_, ?_⟩
  · exact mem_disjointBlocks.mpr ⟨a, b, hab, hlt, ⟨k, hk, by omega, by omega⟩, rfl⟩
  · exact ha
  · simp only; omega

/-- no block boundary falls inside a segment: a segment lies inside a block or is disjoint from it -/
theorem disjointBlocks_refines (s1 s2 : List Iv) {d k : Iv} (hd : d ∈ disjointBlocks s1 s2)
    (hk : k ∈ s1 ++ s2) : (k.lo ≤ d.lo ∧ d.hi ≤ k.hi) ∨ d.hi < k.lo ∨ k.hi < d.lo := by
  obtain ⟨a, b, hab, hlt, _, rfl⟩ := mem_disjointBlocks.mp hd
  obtain ⟨_, _, _, hno⟩ := consec_no_between (dSorted_sorted s1 s2) hab
  have h1 := hno k.lo (lo_mem_dSorted hk)
  have h2 := hno (k.hi + 1) (hi_mem_dSorted hk)
  simp only
  omega

/-- two segments sharing an address are equal -/
theorem disjointBlocks_unique (s1 s2 : List Iv) {d d' : Iv} (hd : d ∈ disjointBlocks s1 s2)
    (hd' : d' ∈ disjointBlocks s1 s2) {x : Int} (hx : d.lo ≤ x ∧ x ≤ d.hi)
    (hx' : d'.lo ≤ x ∧ x ≤ d'.hi) : d = d' := by
  rcases pairwise_mem_cases (disjointBlocks_pairwise s1 s2) hd hd' with h | h | h
  · exact h
  · omega
  · omega

theorem disjointBlocks_nodup (s1 s2 : List Iv) : (disjointBlocks s1 s2).Nodup := by
  have hne := disjointBlocks_nonempty s1 s2
  refine (disjointBlocks_pairwise s1 s2).imp_of_mem ?_
  intro a b ha _ hab heq
  subst heq
  have := hne a ha
  omega

/-! # connection strings -/

/-! ## character-level facts about the connection string -/

/-- a property of characters that holds for the separator and all the pieces holds for the
intercalation -/
theorem intercalate_chars {Q : Char → Prop} {s : String} (hs : ∀ c ∈ s.toList, Q c) :
    ∀ (l : List String), (∀ t ∈ l, ∀ c ∈ t.toList, Q c) → ∀ c ∈ (s.intercalate l).toList, Q c
  | [], _ => by
    intro c hc
    rw [String.intercalate_nil] at hc
    have : "".toList = [] := by decide
    rw [this] at hc
    cases hc
  | [t], hl => by
    intro c hc
    rw [String.intercalate_singleton] at hc
    exact hl t (List.mem_singleton.mpr rfl) c hc
  | t :: u :: l, hl => by
    intro c hc
    rw [String.intercalate_cons_cons] at hc
    simp only [String.toList_append, List.mem_append] at hc
    rcases hc with (hc | hc) | hc
    · exact hl t (List.mem_cons_self ..) c hc
    · exact hs c hc
    · exact intercalate_chars hs (u :: l) (fun t' ht' => hl t' (List.mem_cons_of_mem _ ht')) c hc

/-- the characters of the head string are characters of the intercalation -/
theorem intercalate_head_sub (s t : String) (l : List String) :
    ∀ c ∈ t.toList, c ∈ (s.intercalate (t :: l)).toList := by
  intro c hc
  cases l with
  | nil => rw [String.intercalate_singleton]; exact hc
  | cons u l =>
    rw [String.intercalate_cons_cons]
    simp only [String.toList_append, List.mem_append]
    exact Or.inl (Or.inl hc)

/-- the characters of a printed integer are digits or the minus sign -/
theorem intStr_chars {i : Int} {c : Char} (h : c ∈ (toString i).toList) :
    c.isDigit = true ∨ c = '-' := by
  rw [Int.toString_eq_repr, Int.repr_eq_if] at h
  split at h
  · rw [Nat.toList_repr] at h
    exact Or.inl (Nat.isDigit_of_mem_toDigits (by decide) (by decide) h)
  · have hd : "-".toList = ['-'] := by decide
    simp only [String.toList_append, Nat.toList_repr, hd, List.mem_append, List.mem_singleton] at h
    rcases h with h | h
    · exact Or.inr h
    · exact Or.inl (Nat.isDigit_of_mem_toDigits (by decide) (by decide) h)

theorem intStr_noSemi (i : Int) : ∀ c ∈ (toString i).toList, c ≠ ';' := by
  intro c hc heq
  subst heq
  rcases intStr_chars hc with h | h
  · revert h; decide
  · revert h; decide

theorem protoToStr_noSemi (pr : Proto) : ∀ c ∈ pr.toStr.toList, c ≠ ';' := by
  cases pr <;> decide

theorem ivStr_noSemi (i : Iv) : ∀ c ∈ (if i.lo != i.hi then toString i.lo ++ "-" ++ toString i.hi
    else toString i.lo).toList, c ≠ ';' := by
  intro c hc
  split at hc
  · have hd : "-".toList = ['-'] := by decide
    simp only [String.toList_append, hd, List.mem_append, List.mem_singleton] at hc
    rcases hc with (hc | hc) | hc
    · exact intStr_noSemi _ c hc
    · subst hc; decide
    · exact intStr_noSemi _ c hc
  · exact intStr_noSemi _ c hc

theorem comma_noSemi : ∀ c ∈ ",".toList, c ≠ ';' := by decide

theorem protoStr_noSemi (pr : Proto) (l : CSet) :
    ∀ c ∈ (ConnSet.protoStr pr (",".intercalate (l.map fun i =>
      if i.lo != i.hi then toString i.lo ++ "-" ++ toString i.hi else toString i.lo))).toList,
      c ≠ ';' := by
  intro c hc
  unfold ConnSet.protoStr at hc
  have hd : " ".toList = [' '] := by decide
  simp only [String.toList_append, hd, List.mem_append, List.mem_singleton] at hc
  rcases hc with (hc | hc) | hc
  · exact protoToStr_noSemi pr c hc
  · subst hc; decide
  · refine intercalate_chars (Q := fun c => c ≠ ';') comma_noSemi _ ?_ c hc
    intro t ht
    obtain ⟨i, _, rfl⟩ := List.mem_map.mp ht
    exact ivStr_noSemi i

/-- no semicolon in a connection string -/
theorem connStrFromProps_noSemi (all : Bool) (m : List (Proto × CSet)) :
    ';' ∉ (ConnSet.connStrFromProps all m).toList := by
  intro h
  unfold ConnSet.connStrFromProps at h
  split at h
  · revert h; decide
  · split at h
    · revert h; decide
    · refine intercalate_chars (Q := fun c => c ≠ ';') comma_noSemi _ ?_ _ h rfl
      intro t ht
      obtain ⟨⟨pr, l⟩, _, rfl⟩ := List.mem_map.mp ht
      exact protoStr_noSemi pr l

/-- a connection string is never empty -/
theorem connStrFromProps_ne_empty (all : Bool) (m : List (Proto × CSet)) :
    ConnSet.connStrFromProps all m ≠ "" := by
  unfold ConnSet.connStrFromProps
  split
  · decide
  · split
    · decide
    · rename_i hne
      cases m with
      | nil => simp at hne
      | cons x m =>
        obtain ⟨pr, l⟩ := x
        intro heq
        have hmem : ' ' ∈ (ConnSet.protoStr pr (",".intercalate (l.map fun i =>
            if i.lo != i.hi then toString i.lo ++ "-" ++ toString i.hi
            else toString i.lo))).toList := by
          unfold ConnSet.protoStr
          have hd : " ".toList = [' '] := by decide
          rw [String.toList_append, String.toList_append, hd]
          exact List.mem_append_left _ (List.mem_append_right _ (List.mem_singleton.mpr rfl))
        have := intercalate_head_sub "," _ (m.map fun (pr, l) => ConnSet.protoStr pr
          (",".intercalate (l.map fun i =>
            if i.lo != i.hi then toString i.lo ++ "-" ++ toString i.hi else toString i.lo))) _ hmem
        rw [List.map_cons] at heq
        rw [heq] at this
        revert this; decide

theorem connStr_noSemi (p : P2P) : ';' ∉ p.connStr.toList :=
  connStrFromProps_noSemi p.all p.ports

theorem connStr_ne_empty (p : P2P) : p.connStr ≠ "" :=
  connStrFromProps_ne_empty p.all p.ports

/-! # merging -/

/-! ## J. `mergeRanges` -/

theorem mergeRanges_foldl_mem (l : List Iv) (acc : CSet) (x : Int) :
    CSet.memL (l.foldl (fun acc r => CSet.addIv r acc) acc) x ↔
      (∃ r ∈ l, r.mem x) ∨ CSet.memL acc x := by
  induction l generalizing acc with
  | nil => simp
  | cons r l ih =>
    rw [List.foldl_cons, ih, CSet.mem_addIv]
    simp only [List.mem_cons, exists_eq_or_imp]
    constructor
    · rintro (h | h | h)
      · exact Or.inl (Or.inr h)
      · exact Or.inl (Or.inl h)
      · exact Or.inr h
    · rintro ((h | h) | h)
      · exact Or.inr (Or.inl h)
      · exact Or.inl h
      · exact Or.inr (Or.inr h)

theorem mem_mergeRanges (l : List Iv) (x : Int) :
    CSet.memL (mergeRanges l) x ↔ ∃ r ∈ l, r.mem x := by
  unfold mergeRanges
  rw [mergeRanges_foldl_mem]
  simp [CSet.memL]

theorem mergeRanges_foldl_canon (l : List Iv) (acc : CSet) (h : CSet.Canon acc) :
    CSet.Canon (l.foldl (fun acc r => CSet.addIv r acc) acc) := by
  induction l generalizing acc with
  | nil => exact h
  | cons r l ih => exact ih _ (CSet.canon_addIv _ _ h)

theorem canon_mergeRanges (l : List Iv) : CSet.Canon (mergeRanges l) :=
  mergeRanges_foldl_canon l [] CSet.canon_nil

theorem mergeRanges_nonempty (l : List Iv) : ∀ r ∈ mergeRanges l, r.lo ≤ r.hi :=
  (canon_mergeRanges l).2

/-- two merged ranges sharing an address are equal -/
theorem mergeRanges_unique {l : List Iv} {r r' : Iv} (hr : r ∈ mergeRanges l)
    (hr' : r' ∈ mergeRanges l) {x : Int} (hx : r.mem x) (hx' : r'.mem x) : r = r' := by
  rcases CSet.canon_trichotomy (canon_mergeRanges l) hr hr' with h | h | h
  · exact h
  · unfold Iv.mem at hx hx'; omega
  · unfold Iv.mem at hx hx'; omega

theorem mergeRanges_nodup (l : List Iv) : (mergeRanges l).Nodup := by
  have hc := canon_mergeRanges l
  refine hc.1.imp_of_mem ?_
  intro a b ha _ hab heq
  subst heq
  have := hc.2 a ha
  omega

/-- every merged range starts and ends inside members of the list -/
theorem mergeRanges_bounds {l : List Iv} {lo hi : Int} (h : ∀ r ∈ l, lo ≤ r.lo ∧ r.hi ≤ hi) :
    ∀ r ∈ mergeRanges l, lo ≤ r.lo ∧ r.lo ≤ r.hi ∧ r.hi ≤ hi := by
  intro r hr
  have hne := mergeRanges_nonempty l r hr
  have h1 : CSet.memL (mergeRanges l) r.lo := ⟨r, hr, ⟨Int.le_refl _, hne⟩⟩
  have h2 : CSet.memL (mergeRanges l) r.hi := ⟨r, hr, ⟨hne, Int.le_refl _⟩⟩
  obtain ⟨r1, hr1, hm1⟩ := (mem_mergeRanges l _).mp h1
  obtain ⟨r2, hr2, hm2⟩ := (mem_mergeRanges l _).mp h2
  have b1 := h r1 hr1
  have b2 := h r2 hr2
  unfold Iv.mem at hm1 hm2
  omega

/-- a merged range is a maximal run: the addresses next to it are not covered -/
theorem mergeRanges_maximal {l : List Iv} {r : Iv} (hr : r ∈ mergeRanges l) :
    ¬ CSet.memL (mergeRanges l) (r.lo - 1) ∧ ¬ CSet.memL (mergeRanges l) (r.hi + 1) := by
  have hc := canon_mergeRanges l
  have hne := mergeRanges_nonempty l r hr
  constructor
  · rintro ⟨r', hr', hm⟩
    unfold Iv.mem at hm
    rcases CSet.canon_trichotomy hc hr hr' with h | h | h
    · subst h; omega
    · omega
    · omega
  · rintro ⟨r', hr', hm⟩
    unfold Iv.mem at hm
    rcases CSet.canon_trichotomy hc hr hr' with h | h | h
    · subst h; omega
    · omega
    · omega

/-! ## K. list lemmas -/

theorem nodup_eraseDups_aux (n : Nat) : ∀ (l : List String), l.length ≤ n → l.eraseDups.Nodup := by
  induction n with
  | zero =>
    intro l hl
    have : l = [] := List.length_eq_zero_iff.mp (by omega)
    subst this; simp
  | succ n ih =>
    intro l hl
    cases l with
    | nil => simp
    | cons a as =>
      rw [List.eraseDups_cons, List.nodup_cons]
      have hlen : (as.filter fun b => !b == a).length ≤ n := by
        have := List.length_filter_le (fun b => !b == a) as
        simp only [List.length_cons] at hl
        omega
      refine ⟨?_, ih _ hlen⟩
      intro hm
      rw [List.mem_eraseDups, List.mem_filter] at hm
      simp at hm

theorem nodup_eraseDups (l : List String) : l.eraseDups.Nodup := nodup_eraseDups_aux _ l (Nat.le_refl _)

/-- a fold whose every step appends a block of entries with new keys -/
theorem foldl_append_gen {α : Type} (f : DMap → α → DMap) (E : α → DMap) (l : List α)
    (hf : ∀ a ∈ l, ∀ res : DMap, (keys (E a)).Nodup → (∀ k ∈ keys (E a), k ∉ keys res) →
      f res a = res ++ E a)
    (res : DMap) (hnd : (keys (l.flatMap E)).Nodup)
    (hdisj : ∀ k ∈ keys (l.flatMap E), k ∉ keys res) :
    l.foldl f res = res ++ l.flatMap E := by
  induction l generalizing res with
  | nil => simp
  | cons a l ih =>
    rw [List.foldl_cons, List.flatMap_cons]
    simp only [keys, List.flatMap_cons, List.map_append] at hnd hdisj
    have hnd' := List.nodup_append.mp hnd
    rw [hf a (List.mem_cons_self ..) res hnd'.1
      (fun k hk => hdisj k (List.mem_append_left _ hk))]
    rw [ih (fun a' ha' => hf a' (List.mem_cons_of_mem _ ha')) _ hnd'.2.1]
    · rw [List.append_assoc]
    · intro k hk
      simp only [keys, List.map_append, List.mem_append, not_or]
      exact ⟨hdisj k (List.mem_append_right _ hk), fun hk' => hnd'.2.2 k hk' k hk rfl⟩

/-! ## L. entries with one IP end -/

def otherStr (b : Bool) (x : P2P) : String := if b then x.dst.str else x.src.str
def otherEnd (b : Bool) (x : P2P) : LPeer := if b then x.dst else x.src
def ipEnd (b : Bool) (x : P2P) : LPeer := if b then x.src else x.dst

/-- the key of workload `w` and block `r`, the block being the source (`b`) or the destination -/
def dkey (b : Bool) (w : String) (r : Iv) : String :=
  if b then pkey (LPeer.ip r).str w else pkey w (LPeer.ip r).str

def ValidR (r : Iv) : Prop := 0 ≤ r.lo ∧ r.lo ≤ r.hi ∧ r.hi ≤ ipMax

theorem mkIP_key (b : Bool) (r : Iv) (x : P2P) : (mkIP b r x).key = dkey b (otherStr b x) r := by
  cases b <;> rfl

theorem otherStr_mkIP (b : Bool) (r : Iv) (x : P2P) : otherStr b (mkIP b r x) = otherStr b x := by
  cases b <;> rfl

theorem ipEnd_mkIP (b : Bool) (r : Iv) (x : P2P) : ipEnd b (mkIP b r x) = .ip r := by
  cases b <;> rfl

theorem key_of_ipEnd {b : Bool} {x : P2P} {d : Iv} (h : ipEnd b x = .ip d) :
    x.key = dkey b (otherStr b x) d := by
  cases b
  · have h' : x.dst = .ip d := h
    show pkey x.src.str x.dst.str = pkey x.src.str (LPeer.ip d).str
    rw [h']
  · have h' : x.src = .ip d := h
    show pkey x.src.str x.dst.str = pkey (LPeer.ip d).str x.dst.str
    rw [h']

theorem ipRange_inj' {r r' : Iv} (h : ValidR r) (h' : ValidR r')
    (heq : (LPeer.ip r).str = (LPeer.ip r').str) : r = r' := by
  unfold ValidR at h h'
  exact ipRange_inj (by omega) (by omega) (by omega) (by omega) heq

theorem dkey_inj {b : Bool} {w w' : String} {r r' : Iv} (hw : NoSemi w) (hw' : NoSemi w')
    (hr : ValidR r) (hr' : ValidR r') (h : dkey b w r = dkey b w' r') : w = w' ∧ r = r' := by
  cases b
  · simp only [dkey] at h
    obtain ⟨e1, e2⟩ := pkey_inj hw hw' h
    exact ⟨e1, ipRange_inj' hr hr' e2⟩
  · simp only [dkey] at h
    obtain ⟨e1, e2⟩ := pkey_inj (noSemi_ipRange r) (noSemi_ipRange r') h
    exact ⟨e2, ipRange_inj' hr hr' e1⟩

/-- a pair of direction `b`: workload `w` at one end, block `d` at the IP end -/
structure WPair (b : Bool) (w : String) (d : Iv) (p : Pair) : Prop where
  ne : p.any ≠ none
  shape : ∀ x, (p.first = some x ∨ p.second = some x) → otherStr b x = w ∧ ipEnd b x = .ip d

theorem any_cases {p : Pair} {x : P2P} (h : p.any = some x) : p.first = some x ∨ p.second = some x := by
  unfold Pair.any at h
  cases hf : p.first with
  | some a => rw [hf] at h; exact Or.inl h
  | none => rw [hf] at h; exact Or.inr (by simpa using h)

theorem WPair.any {b : Bool} {w : String} {d : Iv} {p : Pair} (h : WPair b w d p) :
    ∃ x, p.any = some x ∧ otherStr b x = w ∧ ipEnd b x = .ip d := by
  cases ha : p.any with
  | none => exact absurd ha h.ne
  | some x => exact ⟨x, rfl, h.shape x (any_cases ha)⟩

theorem WPair.unique {b : Bool} {w w' : String} {d d' : Iv} {p : Pair} (h : WPair b w d p)
    (h' : WPair b w' d' p) : w = w' ∧ d = d' := by
  obtain ⟨x, hx, e1, e2⟩ := h.any
  obtain ⟨e1', e2'⟩ := h'.shape x (any_cases hx)
  rw [e1] at e1'; rw [e2] at e2'
  exact ⟨e1', by cases e2'; rfl⟩

def S1 (p : Pair) : String := (p.first.map (·.connStr)).getD ""
def S2 (p : Pair) : String := (p.second.map (·.connStr)).getD ""

theorem groupKey_eq {b : Bool} {w : String} {d : Iv} {p : Pair} (h : WPair b w d p) :
    groupKey p b = pkey w (pkey (S1 p) (S2 p)) := by
  obtain ⟨x, hx, e1, _⟩ := h.any
  unfold groupKey
  rw [hx]
  simp only
  have : (if b = true then x.dst.str else x.src.str) = w := e1
  rw [this]
  simp only [pkey, S1, S2, String.append_assoc]

theorem groupRanges_mem {b : Bool} {grp : List Pair} {r : Iv} :
    r ∈ groupRanges b grp ↔ ∃ p ∈ grp, ∃ x, p.any = some x ∧ ipEnd b x = .ip r := by
  unfold groupRanges
  rw [List.mem_filterMap]
  constructor
  · rintro ⟨p, hp, h⟩
    refine ⟨p, hp, ?_⟩
    cases ha : p.any with
    | none => rw [ha] at h; cases h
    | some x =>
      rw [ha] at h
      simp only at h
      refine ⟨x, rfl, ?_⟩
      unfold ipEnd
      cases he : (if b = true then x.src else x.dst) with
      | wl n pod => rw [he] at h; cases h
      | ip r' => rw [he] at h; cases h; rfl
  · rintro ⟨p, hp, x, hx, he⟩
    refine ⟨p, hp, ?_⟩
    rw [hx]
    simp only
    unfold ipEnd at he
    rw [he]

/-- the entry written for the group representative `g0` and the merged range `r` -/
def wkeyOf (b : Bool) (g0 : Pair) (r : Iv) : String :=
  match g0.any with
  | some x => (mkIP b r x).key
  | none => ""

def wentry (b : Bool) (g0 : Pair) (r : Iv) : String × Pair :=
  (wkeyOf b g0 r, ⟨g0.first.map (mkIP b r), g0.second.map (mkIP b r)⟩)

theorem wkeyOf_eq {b : Bool} {w : String} {d : Iv} {g0 : Pair} (h : WPair b w d g0) (r : Iv) :
    wkeyOf b g0 r = dkey b w r := by
  obtain ⟨x, hx, e1, _⟩ := h.any
  unfold wkeyOf
  rw [hx]
  simp only
  rw [mkIP_key, e1]

theorem stepW_new {b : Bool} {w : String} {d : Iv} {g0 : Pair} (h : WPair b w d g0) {res : DMap}
    {r : Iv} (hk : wkeyOf b g0 r ∉ keys res) : stepW b g0 res r = res ++ [wentry b g0 r] := by
  have hkey : ∀ x, (g0.first = some x ∨ g0.second = some x) → (mkIP b r x).key = wkeyOf b g0 r := by
    intro x hx
    rw [wkeyOf_eq h, mkIP_key, (h.shape x hx).1]
  unfold stepW wentry
  cases hf : g0.first with
  | none =>
    cases hs : g0.second with
    | none =>
      exfalso
      apply h.ne
      unfold Pair.any
      rw [hf, hs]; rfl
    | some y =>
      simp only [Option.map_none, Option.map_some, wr]
      rw [hkey y (Or.inr hs), update_eq, if_neg hk]
      rfl
  | some x =>
    cases hs : g0.second with
    | none =>
      simp only [Option.map_none, Option.map_some, wr]
      rw [hkey x (Or.inl hf), update_eq, if_neg hk]
      rfl
    | some y =>
      simp only [Option.map_some, wr]
      rw [hkey x (Or.inl hf), hkey y (Or.inr hs)]
      exact update2_new hk _ _

/-- all writes of `mergeGroups` -/
def groupWrites (b : Bool) (pairs : List Pair) (kk : String) : DMap :=
  match (groupOf b pairs kk).head? with
  | none => []
  | some g0 => (mergeRanges (groupRanges b (groupOf b pairs kk))).map (wentry b g0)

def writesOf (b : Bool) (pairs : List Pair) : DMap := (groupKeys b pairs).flatMap (groupWrites b pairs)

theorem flatMap_single {α β : Type} (f : α → β) (l : List α) :
    l.flatMap (fun r => [f r]) = l.map f := by
  induction l with
  | nil => rfl
  | cons a l ih => simp [List.flatMap_cons, ih]

theorem foldl_stepW_new {b : Bool} {w : String} {d : Iv} {g0 : Pair} (h : WPair b w d g0)
    (rs : List Iv) (res : DMap) (hnd : (keys (rs.map (wentry b g0))).Nodup)
    (hdisj : ∀ k ∈ keys (rs.map (wentry b g0)), k ∉ keys res) :
    rs.foldl (stepW b g0) res = res ++ rs.map (wentry b g0) := by
  rw [← flatMap_single] at hnd hdisj ⊢
  refine foldl_append_gen (stepW b g0) (fun r => [wentry b g0 r]) rs ?_ res hnd hdisj
  intro r _ res' _ hk
  exact stepW_new h (hk _ (by simp [keys, wentry]))

/-! ## M. `mergeGroups` as a list -/

/-- the refined blocks: valid ranges, an address lies in at most one -/
structure SegOK (seg : List Iv) : Prop where
  valid : ∀ d ∈ seg, ValidR d
  unique : ∀ d ∈ seg, ∀ d' ∈ seg, ∀ x, d.mem x → d'.mem x → d = d'

/-- the pairs handed to `mergeGroups` for direction `b` -/
structure PairsOK (b : Bool) (seg : List Iv) (pairs : List Pair) : Prop where
  shape : ∀ p ∈ pairs, ∃ w d, NoSemi w ∧ NotIP w ∧ d ∈ seg ∧ WPair b w d p
  inj : ∀ p ∈ pairs, ∀ p' ∈ pairs, ∀ w d, WPair b w d p → WPair b w d p' → p = p'

theorem groupKey_other {b : Bool} {w w' : String} {d d' : Iv} {p p' : Pair} (h : WPair b w d p)
    (h' : WPair b w' d' p') (hw : NoSemi w) (hw' : NoSemi w') (heq : groupKey p b = groupKey p' b) :
    w = w' := by
  rw [groupKey_eq h, groupKey_eq h'] at heq
  exact (pkey_inj hw hw' heq).1

/-- `g0` represents the group `kk`, `r` is one of its merged ranges -/
def IsWrite (b : Bool) (pairs : List Pair) (kk : String) (g0 : Pair) (r : Iv) : Prop :=
  kk ∈ groupKeys b pairs ∧ (groupOf b pairs kk).head? = some g0 ∧
    r ∈ mergeRanges (groupRanges b (groupOf b pairs kk))

theorem mem_groupWrites {b : Bool} {pairs : List Pair} {kk : String} {e : String × Pair} :
    e ∈ groupWrites b pairs kk ↔ ∃ g0 r, (groupOf b pairs kk).head? = some g0 ∧
      r ∈ mergeRanges (groupRanges b (groupOf b pairs kk)) ∧ e = wentry b g0 r := by
  unfold groupWrites
  cases hh : (groupOf b pairs kk).head? with
  | none => simp
  | some g0 =>
    simp only [List.mem_map, Option.some.injEq]
    constructor
    · rintro ⟨r, hr, rfl⟩; exact ⟨g0, r, rfl, hr, rfl⟩
    · rintro ⟨g, r, rfl, hr, rfl⟩; exact ⟨r, hr, rfl⟩

theorem mem_writesOf {b : Bool} {pairs : List Pair} {e : String × Pair} :
    e ∈ writesOf b pairs ↔ ∃ kk g0 r, IsWrite b pairs kk g0 r ∧ e = wentry b g0 r := by
  unfold writesOf IsWrite
  rw [List.mem_flatMap]
  constructor
  · rintro ⟨kk, hkk, he⟩
    obtain ⟨g0, r, h1, h2, h3⟩ := mem_groupWrites.mp he
    exact ⟨kk, g0, r, ⟨hkk, h1, h2⟩, h3⟩
  · rintro ⟨kk, g0, r, ⟨hkk, h1, h2⟩, h3⟩
    exact ⟨kk, hkk, mem_groupWrites.mpr ⟨g0, r, h1, h2, h3⟩⟩

theorem mem_groupOf {b : Bool} {pairs : List Pair} {kk : String} {p : Pair} :
    p ∈ groupOf b pairs kk ↔ p ∈ pairs ∧ groupKey p b = kk := by
  unfold groupOf
  rw [List.mem_filter]
  simp

/-- what a write stands for -/
theorem write_sem {b : Bool} {seg : List Iv} {pairs : List Pair} (hp : PairsOK b seg pairs)
    (hs : SegOK seg) {kk : String} {g0 : Pair} {r : Iv} (hw : IsWrite b pairs kk g0 r) :
    ∃ w d0, g0 ∈ pairs ∧ groupKey g0 b = kk ∧ WPair b w d0 g0 ∧ NoSemi w ∧ NotIP w ∧ ValidR r ∧
      ∀ x, r.mem x → ∃ p ∈ pairs, ∃ d ∈ seg, groupKey p b = kk ∧ WPair b w d p ∧ d.mem x := by
  obtain ⟨_, hh, hr⟩ := hw
  obtain ⟨hg0, hgk⟩ := head_groupOf_mem hh
  obtain ⟨w, d0, hns, hnip, _, hwp⟩ := hp.shape g0 hg0
  -- the ranges of the group
  have hranges : ∀ d ∈ groupRanges b (groupOf b pairs kk), ∃ p ∈ pairs, d ∈ seg ∧
      groupKey p b = kk ∧ WPair b w d p := by
    intro d hd
    obtain ⟨p, hpg, x, hx, hip⟩ := groupRanges_mem.mp hd
    obtain ⟨hpp, hpk⟩ := mem_groupOf.mp hpg
    obtain ⟨w', d', hns', _, hd', hwp'⟩ := hp.shape p hpp
    have e2 := (hwp'.shape x (any_cases hx)).2
    rw [hip] at e2
    cases e2
    have : w = w' := groupKey_other hwp hwp' hns hns' (hgk.trans hpk.symm)
    subst this
    exact ⟨p, hpp, hd', hpk, hwp'⟩
  refine ⟨w, d0, hg0, hgk, hwp, hns, hnip, ?_, ?_⟩
  · have hb : ∀ d ∈ groupRanges b (groupOf b pairs kk), 0 ≤ d.lo ∧ d.hi ≤ ipMax := by
      intro d hd
      obtain ⟨_, _, hds, _, _⟩ := hranges d hd
      have := hs.valid d hds
      unfold ValidR at this
      omega
    exact mergeRanges_bounds hb r hr
  · intro x hx
    obtain ⟨d, hd, hdx⟩ := (mem_mergeRanges _ x).mp ⟨r, hr, hx⟩
    obtain ⟨p, hpp, hds, hpk, hwp'⟩ := hranges d hd
    exact ⟨p, hpp, d, hds, hpk, hwp', hdx⟩

theorem wentry_key {b : Bool} {w : String} {d : Iv} {g0 : Pair} (h : WPair b w d g0) (r : Iv) :
    (wentry b g0 r).1 = dkey b w r := wkeyOf_eq h r

theorem keys_writes_shape {b : Bool} {seg : List Iv} {pairs : List Pair}
    (hp : PairsOK b seg pairs) (hs : SegOK seg) {K : String} (hK : K ∈ keys (writesOf b pairs)) :
    ∃ w r, K = dkey b w r ∧ NoSemi w ∧ NotIP w ∧ ValidR r := by
  obtain ⟨e, he, rfl⟩ := List.mem_map.mp hK
  obtain ⟨kk, g0, r, hw, rfl⟩ := mem_writesOf.mp he
  obtain ⟨w, d0, _, _, hwp, hns, hnip, hv, _⟩ := write_sem hp hs hw
  exact ⟨w, r, wentry_key hwp r, hns, hnip, hv⟩

theorem nodup_groupKeys (b : Bool) (pairs : List Pair) : (groupKeys b pairs).Nodup :=
  nodup_eraseDups _

theorem keys_writes_nodup {b : Bool} {seg : List Iv} {pairs : List Pair}
    (hp : PairsOK b seg pairs) (hs : SegOK seg) : (keys (writesOf b pairs)).Nodup := by
  unfold writesOf keys
  rw [List.map_flatMap, List.nodup_iff_pairwise_ne, List.pairwise_flatMap]
  constructor
  · intro kk hkk
    show (keys (groupWrites b pairs kk)).Nodup
    unfold groupWrites
    cases hh : (groupOf b pairs kk).head? with
    | none => simp
    | some g0 =>
      simp only [keys, List.map_map]
      refine nodup_map_inj_on (mergeRanges_nodup _) ?_
      intro r hr r' hr' heq
      obtain ⟨w, d0, _, _, hwp, hns, _, hv, _⟩ := write_sem hp hs ⟨hkk, hh, hr⟩
      obtain ⟨w', d0', _, _, hwp', _, _, hv', _⟩ := write_sem hp hs ⟨hkk, hh, hr'⟩
      simp only [Function.comp] at heq
      rw [wentry_key hwp, wentry_key hwp] at heq
      exact (dkey_inj hns hns hv hv' heq).2
  · refine (nodup_groupKeys b pairs).imp_of_mem ?_
    intro kk kk' hkk hkk' hne K hK K' hK' heq
    subst heq
    obtain ⟨e, he, rfl⟩ := List.mem_map.mp hK
    obtain ⟨e', he', heq⟩ := List.mem_map.mp hK'
    obtain ⟨g0, r, hh, hr, rfl⟩ := mem_groupWrites.mp he
    obtain ⟨g0', r', hh', hr', rfl⟩ := mem_groupWrites.mp he'
    obtain ⟨w, d0, _, _, hwp, hns, _, hv, hcov⟩ := write_sem hp hs ⟨hkk, hh, hr⟩
    obtain ⟨w', d0', _, _, hwp', hns', _, hv', hcov'⟩ := write_sem hp hs ⟨hkk', hh', hr'⟩
    rw [wentry_key hwp, wentry_key hwp'] at heq
    obtain ⟨e1, e2⟩ := dkey_inj hns' hns hv' hv heq
    subst e1; subst e2
    have hx : r'.mem r'.lo := ⟨Int.le_refl _, hv'.2.1⟩
    obtain ⟨p, hpp, d, hds, hpk, hpw, hdx⟩ := hcov _ hx
    obtain ⟨p', hpp', d', hds', hpk', hpw', hdx'⟩ := hcov' _ hx
    have : d = d' := hs.unique d hds d' hds' _ hdx hdx'
    subst this
    have : p = p' := hp.inj p hpp p' hpp' _ _ hpw hpw'
    subst this
    exact hne (hpk.symm.trans hpk')

/-- under the conditions of the construction `mergeGroups` appends its writes -/
theorem mergeGroups_list {b : Bool} {seg : List Iv} {pairs : List Pair}
    (hp : PairsOK b seg pairs) (hs : SegOK seg) {res : DMap}
    (hres : ∀ K ∈ keys res, ∀ w r, NoSemi w → NotIP w → K ≠ dkey b w r) :
    mergeGroups pairs b res = res ++ writesOf b pairs := by
  rw [mergeGroups_eq]
  unfold writesOf
  refine foldl_append_gen (groupStep b pairs) (groupWrites b pairs) _ ?_ res
    (keys_writes_nodup hp hs) ?_
  · intro kk _ res' hnd hdisj
    unfold groupStep
    unfold groupWrites at hnd hdisj ⊢
    cases hh : (groupOf b pairs kk).head? with
    | none => simp
    | some g0 =>
      rw [hh] at hnd hdisj
      simp only at hnd hdisj ⊢
      obtain ⟨hg0, _⟩ := head_groupOf_mem hh
      obtain ⟨w, d0, _, _, _, hwp⟩ := hp.shape g0 hg0
      exact foldl_stepW_new hwp _ _ hnd hdisj
  · intro K hK hK'
    obtain ⟨w, r, rfl, hns, hnip, _⟩ := keys_writes_shape hp hs hK
    exact hres _ hK' w r hns hnip rfl

/-! ## N. `mergeIPblocks` as a list; the entries covering a point -/

def pairsOf (b : Bool) (m : DMap) : List Pair := if b then srcIPs m else dstIPs m

/-- the conditions on the map built from two refined reports -/
structure MapOK (seg : List Iv) (m : DMap) : Prop where
  nodup : (keys m).Nodup
  plainKeys : ∀ K ∈ keys (plainOf m), ∃ s d, K = pkey s d ∧ NoSemi s ∧ NotIP s ∧ NotIP d
  dst : PairsOK false seg (dstIPs m)
  src : PairsOK true seg (srcIPs m)

theorem MapOK.pairs {seg : List Iv} {m : DMap} (h : MapOK seg m) (b : Bool) :
    PairsOK b seg (pairsOf b m) := by
  cases b
  · exact h.dst
  · exact h.src

theorem mergeIPblocks_list {seg : List Iv} {m : DMap} (h : MapOK seg m) (hs : SegOK seg) :
    mergeIPblocks m = plainOf m ++ writesOf false (dstIPs m) ++ writesOf true (srcIPs m) := by
  rw [mergeIPblocks_eq, rebuild_plainOf h.nodup, mergeGroups_list h.dst hs, mergeGroups_list h.src hs]
  · intro K hK w r hns hnip heq
    simp only [keys, List.map_append, List.mem_append] at hK
    rcases hK with hK | hK
    · obtain ⟨s, d, rfl, hs', hsip, _⟩ := h.plainKeys K hK
      simp only [dkey] at heq
      exact hsip r (pkey_inj hs' (noSemi_ipRange r) heq).1
    · obtain ⟨w', r', rfl, hns', hnip', _⟩ := keys_writes_shape h.dst hs hK
      simp only [dkey] at heq
      exact hnip' r (pkey_inj hns' (noSemi_ipRange r) heq).1
  · intro K hK w r hns _ heq
    obtain ⟨s, d, rfl, hs', _, hdip⟩ := h.plainKeys K hK
    simp only [dkey] at heq
    exact hdip r (pkey_inj hs' hns heq).2

/-- the keys of the merged map: a pair of workload names, or a workload name and a valid range -/
theorem mm_keys_shape {seg : List Iv} {m : DMap} (h : MapOK seg m) (hs : SegOK seg) :
    ∀ K ∈ keys (mergeIPblocks m),
      (∃ s d, K = pkey s d ∧ NoSemi s ∧ NotIP s ∧ NotIP d) ∨
      (∃ b w r, K = dkey b w r ∧ NoSemi w ∧ NotIP w ∧ ValidR r) := by
  intro K hK
  rw [mergeIPblocks_list h hs] at hK
  simp only [keys, List.map_append, List.mem_append] at hK
  rcases hK with (hK | hK) | hK
  · exact Or.inl (h.plainKeys K hK)
  · obtain ⟨w, r, h1, h2, h3, h4⟩ := keys_writes_shape h.dst hs hK
    exact Or.inr ⟨false, w, r, h1, h2, h3, h4⟩
  · obtain ⟨w, r, h1, h2, h3, h4⟩ := keys_writes_shape h.src hs hK
    exact Or.inr ⟨true, w, r, h1, h2, h3, h4⟩

/-- the pair has the workload `w` at one end and a block containing `a` at the IP end -/
def CoversP (b : Bool) (w : String) (a : Int) (p : Pair) : Prop :=
  ∃ x r, p.any = some x ∧ otherStr b x = w ∧ ipEnd b x = .ip r ∧ r.mem a

theorem coversP_wpair {b : Bool} {w w' : String} {d : Iv} {a : Int} {p : Pair} (h : WPair b w' d p) :
    CoversP b w a p ↔ w' = w ∧ d.mem a := by
  constructor
  · rintro ⟨x, r, hx, e1, e2, hr⟩
    obtain ⟨e1', e2'⟩ := h.shape x (any_cases hx)
    rw [e1] at e1'; rw [e2] at e2'
    cases e2'
    exact ⟨e1'.symm, hr⟩
  · rintro ⟨rfl, hd⟩
    obtain ⟨x, hx, e1, e2⟩ := h.any
    exact ⟨x, d, hx, e1, e2, hd⟩

theorem wentry_any (b : Bool) (g0 : Pair) (r : Iv) :
    (wentry b g0 r).2.any = g0.any.map (mkIP b r) := by
  unfold wentry Pair.any
  cases g0.first <;> cases g0.second <;> rfl

theorem wentry_wpair {b : Bool} {w : String} {d : Iv} {g0 : Pair} (h : WPair b w d g0) (r : Iv) :
    WPair b w r (wentry b g0 r).2 := by
  constructor
  · rw [wentry_any]
    obtain ⟨x, hx, _⟩ := h.any
    rw [hx]; simp
  · intro y hy
    have : ∃ x, (g0.first = some x ∨ g0.second = some x) ∧ y = mkIP b r x := by
      unfold wentry at hy
      simp only [Option.map_eq_some_iff] at hy
      rcases hy with ⟨x, hx, rfl⟩ | ⟨x, hx, rfl⟩
      · exact ⟨x, Or.inl hx, rfl⟩
      · exact ⟨x, Or.inr hx, rfl⟩
    obtain ⟨x, hx, rfl⟩ := this
    rw [otherStr_mkIP, ipEnd_mkIP]
    exact ⟨(h.shape x hx).1, rfl⟩

theorem otherStr_mkIP_not (b : Bool) (r : Iv) (x : P2P) :
    otherStr b (mkIP (!b) r x) = (LPeer.ip r).str := by
  cases b <;> rfl

theorem not_covers_plain {m : DMap} {b : Bool} {w : String} {a : Int} {kp : String × Pair}
    (h : kp ∈ plainOf m) : ¬ CoversP b w a kp.2 := by
  rintro ⟨x, r, hx, _, e2, _⟩
  unfold plainOf at h
  have := (List.mem_filter.mp h).2
  simp only [isIPp, hx, Bool.and_eq_true, Bool.not_eq_true', if_true] at this
  cases b
  · have e2' : x.dst = .ip r := e2
    rw [e2'] at this
    simp [LPeer.isIP] at this
  · have e2' : x.src = .ip r := e2
    rw [e2'] at this
    simp [LPeer.isIP] at this

/-- the entries of the merged map that cover a point come from the writes of that direction -/
theorem covers_mm {seg : List Iv} {m : DMap} (h : MapOK seg m) (hs : SegOK seg) (b : Bool)
    {w : String} (hw : NotIP w) {a : Int} {kp : String × Pair} (hkp : kp ∈ mergeIPblocks m)
    (hc : CoversP b w a kp.2) :
    ∃ kk g0 r d0, IsWrite b (pairsOf b m) kk g0 r ∧ kp = wentry b g0 r ∧ r.mem a ∧ WPair b w d0 g0 := by
  have key : ∀ b', kp ∈ writesOf b' (pairsOf b' m) → b' = b ∧
      ∃ kk g0 r d0, IsWrite b (pairsOf b m) kk g0 r ∧ kp = wentry b g0 r ∧ r.mem a ∧ WPair b w d0 g0 := by
    intro b' hmem
    obtain ⟨kk, g0, r, hiw, rfl⟩ := mem_writesOf.mp hmem
    obtain ⟨w0, d0, _, _, hwp, _, _, _, _⟩ := write_sem (h.pairs b') hs hiw
    by_cases hbb : b' = b
    · subst hbb
      refine ⟨rfl, kk, g0, r, d0, hiw, rfl, ?_⟩
      have := (coversP_wpair (wentry_wpair hwp r)).mp hc
      rw [← this.1]
      exact ⟨this.2, hwp⟩
    · exfalso
      have hb' : b' = !b := by cases b <;> cases b' <;> simp_all
      subst hb'
      obtain ⟨x, r', hx, e1, _, _⟩ := hc
      rw [wentry_any] at hx
      obtain ⟨x0, _, rfl⟩ := Option.map_eq_some_iff.mp hx
      rw [otherStr_mkIP_not] at e1
      exact hw r e1.symm
  rw [mergeIPblocks_list h hs, List.mem_append, List.mem_append] at hkp
  rcases hkp with (hkp | hkp) | hkp
  · exact absurd hc (not_covers_plain hkp)
  · exact (key false hkp).2
  · exact (key true hkp).2

/-- a covering pair gives a covering write -/
theorem write_exists {b : Bool} {pairs : List Pair} {p : Pair} (hpp : p ∈ pairs) {w : String} {d : Iv} (hwp : WPair b w d p) {a : Int}
    (ha : d.mem a) : ∃ g0 r, IsWrite b pairs (groupKey p b) g0 r ∧ r.mem a := by
  have hmem : p ∈ groupOf b pairs (groupKey p b) := mem_groupOf.mpr ⟨hpp, rfl⟩
  cases hh : (groupOf b pairs (groupKey p b)).head? with
  | none =>
    rw [List.head?_eq_none_iff] at hh
    rw [hh] at hmem
    cases hmem
  | some g0 =>
    obtain ⟨x, hx, _, e2⟩ := hwp.any
    have hd : d ∈ groupRanges b (groupOf b pairs (groupKey p b)) :=
      groupRanges_mem.mpr ⟨p, hmem, x, hx, e2⟩
    obtain ⟨r, hr, hra⟩ := (mem_mergeRanges _ a).mpr ⟨d, hd, ha⟩
    refine ⟨g0, r, ⟨?_, hh, hr⟩, hra⟩
    unfold groupKeys
    rw [List.mem_eraseDups]
    exact List.mem_map.mpr ⟨p, hpp, rfl⟩

/-- **the merged map at a point**: when a pair of the map built from the refined reports covers
the point (workload `w`, address `a`), exactly one entry of the merged map covers it; it lies
under the key of `w` and a valid range `r` containing `a`, and holds the two connections of the
representative `g0` of the pair's group, moved to `r` -/
theorem merge_point {seg : List Iv} {m : DMap} (h : MapOK seg m) (hs : SegOK seg) (b : Bool)
    {w : String} (hw : NotIP w) {a : Int} {p0 : Pair} (hp0 : p0 ∈ pairsOf b m)
    (hc : CoversP b w a p0) :
    ∃ g0 r, g0 ∈ pairsOf b m ∧ groupKey g0 b = groupKey p0 b ∧ ValidR r ∧ r.mem a ∧
      get (mergeIPblocks m) (dkey b w r) =
        some ⟨g0.first.map (mkIP b r), g0.second.map (mkIP b r)⟩ ∧
      (∀ kp ∈ mergeIPblocks m, CoversP b w a kp.2 → kp.1 = dkey b w r) ∧
      r ∈ mergeRanges (groupRanges b (groupOf b (pairsOf b m) (groupKey p0 b))) := by
  have hp := h.pairs b
  obtain ⟨w0, d0, hns0, _, hd0, hwp0⟩ := hp.shape p0 hp0
  obtain ⟨hw0, hda⟩ := (coversP_wpair hwp0).mp hc
  subst hw0
  obtain ⟨g0, r, hiw, hra⟩ := write_exists hp0 hwp0 hda
  obtain ⟨w', dg, hg0, hgk, hwpg, hns', _, hv, _⟩ := write_sem hp hs hiw
  have hww : w' = w0 := groupKey_other hwpg hwp0 hns' hns0 hgk
  subst hww
  have hmem : wentry b g0 r ∈ mergeIPblocks m := by
    rw [mergeIPblocks_list h hs]
    have : wentry b g0 r ∈ writesOf b (pairsOf b m) := mem_writesOf.mpr ⟨_, g0, r, hiw, rfl⟩
    cases b
    · exact List.mem_append_left _ (List.mem_append_right _ this)
    · exact List.mem_append_right _ this
  refine ⟨g0, r, hg0, hgk, hv, hra, ?_, ?_, hiw.2.2⟩
  · have := (mem_iff_get (nodup_mergeIPblocks h.nodup)).mp
      (show ((wentry b g0 r).1, (wentry b g0 r).2) ∈ mergeIPblocks m from hmem)
    rw [wentry_key hwpg] at this
    exact this
  · intro kp hkp hckp
    obtain ⟨kk, g1, r1, d1, hiw1, rfl, hr1a, hwp1⟩ := covers_mm h hs b hw hkp hckp
    rw [wentry_key hwp1]
    obtain ⟨w1, _, _, hgk1, hwp1', _, _, _, hcov1⟩ := write_sem hp hs hiw1
    obtain ⟨e1, _⟩ := hwp1.unique hwp1'
    subst e1
    obtain ⟨p1, hpp1, d', hds', hpk1, hpw1, hdx1⟩ := hcov1 a hr1a
    have : d' = d0 := hs.unique d' hds' d0 hd0 a hdx1 hda
    subst this
    have : p1 = p0 := hp.inj p1 hpp1 p0 hp0 _ _ hpw1 hwp0
    subst this
    subst hpk1
    obtain ⟨_, hh1, hr1⟩ := hiw1
    obtain ⟨_, hh, hr⟩ := hiw
    rw [mergeRanges_unique hr1 hr hr1a hra]

/-- when no pair covers the point no entry of the merged map does -/
theorem merge_point_none {seg : List Iv} {m : DMap} (h : MapOK seg m) (hs : SegOK seg) (b : Bool)
    {w : String} (hw : NotIP w) {a : Int} (hno : ∀ p ∈ pairsOf b m, ¬ CoversP b w a p) :
    ∀ kp ∈ mergeIPblocks m, ¬ CoversP b w a kp.2 := by
  intro kp hkp hc
  obtain ⟨kk, g1, r1, d1, hiw1, rfl, hr1a, hwp1⟩ := covers_mm h hs b hw hkp hc
  obtain ⟨w1, _, _, _, hwp1', _, _, _, hcov1⟩ := write_sem (h.pairs b) hs hiw1
  obtain ⟨e1, _⟩ := hwp1.unique hwp1'
  subst e1
  obtain ⟨p1, hpp1, d', _, _, hpw1, hdx1⟩ := hcov1 a hr1a
  exact hno p1 hpp1 ((coversP_wpair hpw1).mpr ⟨rfl, hdx1⟩)

/-! # points (workload, address) -/

/-! ## O. well-formed reports and their refinement -/

/-- what property C05 guarantees of a report, plus: names without semicolon -/
structure ReportWF (R : List P2P) : Prop where
  /-- no two entries with the same names -/
  nodup : (R.map fun p => (p.src.str, p.dst.str)).Nodup
  /-- no IP–IP entries -/
  noIPIP : ∀ p ∈ R, ¬ (p.src.isIP = true ∧ p.dst.isIP = true)
  /-- IP peers are non-empty ranges of the address space -/
  ranges : ∀ p ∈ R, ∀ r, (p.src = .ip r ∨ p.dst = .ip r) → ValidR r
  /-- the ranges of one report are pairwise disjoint -/
  disjoint : ∀ p ∈ R, ∀ q ∈ R, ∀ r r', (p.src = .ip r ∨ p.dst = .ip r) →
    (q.src = .ip r' ∨ q.dst = .ip r') → ∀ x, r.mem x → r'.mem x → r = r'
  /-- workload names: no semicolon, not an IP-range string -/
  names : ∀ p ∈ R, ∀ n pod, (p.src = .wl n pod ∨ p.dst = .wl n pod) → NoSemi n ∧ NotIP n
  /-- distinct workloads have distinct names -/
  peers : ∀ p ∈ R, ∀ q ∈ R, ∀ n pod pod', (p.src = .wl n pod ∨ p.dst = .wl n pod) →
    (q.src = .wl n pod' ∨ q.dst = .wl n pod') → pod = pod'

theorem mem_ipBlocksOf {l : List P2P} {r : Iv} :
    r ∈ ipBlocksOf l ↔ ∃ p ∈ l, p.src = .ip r ∨ p.dst = .ip r := by
  unfold ipBlocksOf
  rw [List.mem_eraseDups, List.mem_flatMap]
  constructor
  · rintro ⟨p, hp, h⟩
    refine ⟨p, hp, ?_⟩
    rw [List.mem_append] at h
    rcases h with h | h
    · left
      cases hs : p.src with
      | wl n pod => rw [hs] at h; cases h
      | ip r' => rw [hs] at h; simp at h; rw [h]
    · right
      cases hs : p.dst with
      | wl n pod => rw [hs] at h; cases h
      | ip r' => rw [hs] at h; simp at h; rw [h]
  · rintro ⟨p, hp, h | h⟩
    · exact ⟨p, hp, List.mem_append_left _ (by rw [h]; simp)⟩
    · exact ⟨p, hp, List.mem_append_right _ (by rw [h]; simp)⟩

theorem segOK_disjointBlocks {R1 R2 : List P2P} (h1 : ReportWF R1) (h2 : ReportWF R2) :
    SegOK (disjointBlocks (ipBlocksOf R1) (ipBlocksOf R2)) := by
  constructor
  · intro d hd
    obtain ⟨k, hk, hk1, hk2⟩ := disjointBlocks_sub _ _ d hd
    have hne := disjointBlocks_nonempty _ _ d hd
    have hv : ValidR k := by
      rcases List.mem_append.mp hk with hk | hk
      · obtain ⟨p, hp, hpr⟩ := mem_ipBlocksOf.mp hk
        exact h1.ranges p hp k hpr
      · obtain ⟨p, hp, hpr⟩ := mem_ipBlocksOf.mp hk
        exact h2.ranges p hp k hpr
    unfold ValidR at hv ⊢
    omega
  · intro d hd d' hd' x hx hx'
    exact disjointBlocks_unique _ _ hd hd' hx hx'

/-- a connection of a refined report -/
structure EntOK (seg : List Iv) (x : P2P) : Prop where
  notBoth : ¬ (x.src.isIP = true ∧ x.dst.isIP = true)
  wl : ∀ n pod, (x.src = .wl n pod ∨ x.dst = .wl n pod) → NoSemi n ∧ NotIP n
  ip : ∀ r, (x.src = .ip r ∨ x.dst = .ip r) → r ∈ seg

theorem mem_inside {dis : List Iv} {r d : Iv} :
    d ∈ inside dis r ↔ d ∈ dis ∧ r.lo ≤ d.lo ∧ d.hi ≤ r.hi := by
  unfold inside
  rw [List.mem_filter]
  simp

theorem entOK_refine {R : List P2P} (h : ReportWF R) (dis : List Iv) :
    ∀ x ∈ refine R dis, EntOK dis x := by
  intro x hx
  obtain ⟨p, hp, hxp⟩ := mem_refine.mp hx
  rcases mem_refine1 hxp with ⟨rfl, h1, h2⟩ | ⟨r, d, hs, hd, rfl⟩ | ⟨r, d, hs, hdst, hd, rfl⟩
  · refine ⟨by simp [h1], h.names x hp, ?_⟩
    intro r hr
    rcases hr with hr | hr
    · rw [hr] at h1; cases h1
    · rw [hr] at h2; cases h2
  · have hnb : p.dst.isIP = false := by
      have := h.noIPIP p hp
      rw [hs] at this
      simpa [LPeer.isIP] using this
    refine ⟨by simp [hnb], ?_, ?_⟩
    · intro n pod hn
      rcases hn with hn | hn
      · cases hn
      · exact h.names p hp n pod (Or.inr hn)
    · intro r' hr'
      rcases hr' with hr' | hr'
      · cases hr'; exact (mem_inside.mp hd).1
      · simp only at hr'; rw [hr'] at hnb; cases hnb
  · refine ⟨by simp [hs], ?_, ?_⟩
    · intro n pod hn
      rcases hn with hn | hn
      · exact h.names p hp n pod (Or.inl hn)
      · cases hn
    · intro r' hr'
      rcases hr' with hr' | hr'
      · simp only at hr'; rw [hr'] at hs; cases hs
      · cases hr'; exact (mem_inside.mp hd).1

theorem EntOK.noSemi_src {seg : List Iv} {x : P2P} (h : EntOK seg x) : NoSemi x.src.str := by
  cases hs : x.src with
  | wl n pod => exact (h.wl n pod (Or.inl hs)).1
  | ip r => exact noSemi_ipRange r

/-- the ends of a connection are determined by its key -/
theorem shape_of_key {seg : List Iv} (hseg : SegOK seg) {b : Bool} {y : P2P} (hy : EntOK seg y)
    {w : String} {d : Iv} (hw : NoSemi w) (hd : ValidR d)
    (hkey : y.key = dkey b w d) : otherStr b y = w ∧ ipEnd b y = .ip d := by
  rw [key_eq] at hkey
  cases b
  · simp only [dkey] at hkey
    obtain ⟨e1, e2⟩ := pkey_inj hy.noSemi_src hw hkey
    refine ⟨e1, ?_⟩
    show y.dst = .ip d
    cases hdst : y.dst with
    | wl n pod =>
      rw [hdst] at e2
      exact absurd e2 ((hy.wl n pod (Or.inr hdst)).2 d)
    | ip d' =>
      rw [hdst] at e2
      rw [ipRange_inj' (hseg.valid d' (hy.ip d' (Or.inr hdst))) hd e2]
  · simp only [dkey] at hkey
    obtain ⟨e1, e2⟩ := pkey_inj hy.noSemi_src (noSemi_ipRange d) hkey
    refine ⟨e2, ?_⟩
    show y.src = .ip d
    cases hsrc : y.src with
    | wl n pod =>
      rw [hsrc] at e1
      exact absurd e1 ((hy.wl n pod (Or.inl hsrc)).2 d)
    | ip d' =>
      rw [hsrc] at e1
      rw [ipRange_inj' (hseg.valid d' (hy.ip d' (Or.inl hsrc))) hd e1]

/-! ## P. the map built from two refined reports -/

theorem get_diffMap_gen (c1 c2 : List P2P) (k : String) :
    get (diffMap c1 c2) k =
      mkPair (c1.reverse.find? fun c => c.key == k) (c2.reverse.find? fun c => c.key == k) := by
  unfold diffMap
  rw [get_fill, get_fill]
  cases c1.reverse.find? (fun c => c.key == k) <;> cases c2.reverse.find? (fun c => c.key == k) <;> rfl

theorem mkPair_some {o1 o2 : Option P2P} {p : Pair} (h : mkPair o1 o2 = some p) :
    p = ⟨o1, o2⟩ ∧ p.any ≠ none := by
  unfold mkPair at h
  cases o1 <;> cases o2 <;> simp at h <;> subst h <;> simp [Pair.any]

theorem diffMap_entry {c1 c2 : List P2P} {k : String} {p : Pair}
    (h : get (diffMap c1 c2) k = some p) :
    p.any ≠ none ∧ (∀ a, p.first = some a → a ∈ c1 ∧ a.key = k) ∧
      (∀ a, p.second = some a → a ∈ c2 ∧ a.key = k) := by
  rw [get_diffMap_gen] at h
  obtain ⟨rfl, hne⟩ := mkPair_some h
  refine ⟨hne, ?_, ?_⟩
  · intro a ha
    simp only at ha
    have h1 := List.mem_of_find?_eq_some ha
    have h2 := List.find?_some ha
    exact ⟨List.mem_reverse.mp h1, by simpa using h2⟩
  · intro a ha
    simp only at ha
    have h1 := List.mem_of_find?_eq_some ha
    have h2 := List.find?_some ha
    exact ⟨List.mem_reverse.mp h1, by simpa using h2⟩

theorem mem_pairsOf {b : Bool} {m : DMap} {p : Pair} (h : p ∈ pairsOf b m) :
    ∃ k, (k, p) ∈ m ∧ isIPp p b = true := by
  cases b
  · obtain ⟨k, hk, h1⟩ := mem_dstIPs h
    exact ⟨k, hk, h1⟩
  · obtain ⟨k, hk, _, h2⟩ := mem_srcIPs h
    exact ⟨k, hk, h2⟩

theorem isIPp_true {p : Pair} {b : Bool} (h : isIPp p b = true) :
    ∃ x r, p.any = some x ∧ ipEnd b x = .ip r := by
  unfold isIPp at h
  cases ha : p.any with
  | none => rw [ha] at h; cases h
  | some x =>
    rw [ha] at h
    simp only at h
    refine ⟨x, ?_⟩
    cases b
    · simp only [Bool.false_eq_true, if_false] at h
      cases hd : x.dst with
      | wl n pod => rw [hd] at h; cases h
      | ip r => exact ⟨r, rfl, hd⟩
    · simp only [if_true] at h
      cases hd : x.src with
      | wl n pod => rw [hd] at h; cases h
      | ip r => exact ⟨r, rfl, hd⟩

theorem otherEnd_wl {seg : List Iv} {b : Bool} {x : P2P} (hx : EntOK seg x) {r : Iv}
    (h : ipEnd b x = .ip r) : ∃ w pod, otherEnd b x = .wl w pod ∧ otherStr b x = w ∧ NoSemi w ∧ NotIP w := by
  cases b
  · have h' : x.dst = .ip r := h
    cases hs : x.src with
    | wl n pod =>
      obtain ⟨h1, h2⟩ := hx.wl n pod (Or.inl hs)
      exact ⟨n, pod, hs, by simp [otherStr, hs, LPeer.str], h1, h2⟩
    | ip r' => exact absurd ⟨by rw [hs]; rfl, by rw [h']; rfl⟩ hx.notBoth
  · have h' : x.src = .ip r := h
    cases hs : x.dst with
    | wl n pod =>
      obtain ⟨h1, h2⟩ := hx.wl n pod (Or.inr hs)
      exact ⟨n, pod, hs, by simp [otherStr, hs, LPeer.str], h1, h2⟩
    | ip r' => exact absurd ⟨by rw [h']; rfl, by rw [hs]; rfl⟩ hx.notBoth

/-- the shape of a pair of the map with an IP end -/
theorem wpair_of_entry {seg : List Iv} (hseg : SegOK seg) {c1 c2 : List P2P}
    (hc1 : ∀ x ∈ c1, EntOK seg x) (hc2 : ∀ x ∈ c2, EntOK seg x) {k : String} {p : Pair}
    (hg : get (diffMap c1 c2) k = some p) {b : Bool} {x : P2P} {d : Iv} (hx : p.any = some x)
    (hip : ipEnd b x = .ip d) :
    ∃ w, NoSemi w ∧ NotIP w ∧ d ∈ seg ∧ WPair b w d p ∧ k = dkey b w d := by
  obtain ⟨hne, hf, hsnd⟩ := diffMap_entry hg
  have hent : ∀ y, (p.first = some y ∨ p.second = some y) → EntOK seg y ∧ y.key = k := by
    intro y hy
    rcases hy with hy | hy
    · exact ⟨hc1 y (hf y hy).1, (hf y hy).2⟩
    · exact ⟨hc2 y (hsnd y hy).1, (hsnd y hy).2⟩
  obtain ⟨hxe, hxk⟩ := hent x (any_cases hx)
  obtain ⟨w, pod, _, hos, hns, hnip⟩ := otherEnd_wl hxe hip
  have hd : d ∈ seg := by
    cases b
    · exact hxe.ip d (Or.inr hip)
    · exact hxe.ip d (Or.inl hip)
  have hk : k = dkey b w d := by rw [← hxk, key_of_ipEnd hip, hos]
  refine ⟨w, hns, hnip, hd, ⟨hne, ?_⟩, hk⟩
  intro y hy
  obtain ⟨hye, hyk⟩ := hent y hy
  exact shape_of_key hseg hye hns (hseg.valid d hd) (hyk.trans hk)

theorem mapOK_diffMap {seg : List Iv} (hseg : SegOK seg) {c1 c2 : List P2P}
    (hc1 : ∀ x ∈ c1, EntOK seg x) (hc2 : ∀ x ∈ c2, EntOK seg x) :
    MapOK seg (diffMap c1 c2) := by
  have hnd := nodup_diffMap c1 c2
  have hpairs : ∀ b, PairsOK b seg (pairsOf b (diffMap c1 c2)) := by
    intro b
    constructor
    · intro p hp
      obtain ⟨k, hk, hflag⟩ := mem_pairsOf hp
      obtain ⟨x, d, hx, hip⟩ := isIPp_true hflag
      obtain ⟨w, h1, h2, h3, h4, _⟩ :=
        wpair_of_entry hseg hc1 hc2 ((mem_iff_get hnd).mp hk) hx hip
      exact ⟨w, d, h1, h2, h3, h4⟩
    · intro p hp p' hp' w d hw hw'
      obtain ⟨k, hk, _⟩ := mem_pairsOf hp
      obtain ⟨k', hk', _⟩ := mem_pairsOf hp'
      obtain ⟨x, hx, _, hip⟩ := hw.any
      obtain ⟨x', hx', _, hip'⟩ := hw'.any
      have hg := (mem_iff_get hnd).mp hk
      have hg' := (mem_iff_get hnd).mp hk'
      obtain ⟨w1, _, _, _, hw1, e1⟩ := wpair_of_entry hseg hc1 hc2 hg hx hip
      obtain ⟨w2, _, _, _, hw2, e2⟩ := wpair_of_entry hseg hc1 hc2 hg' hx' hip'
      obtain ⟨rfl, _⟩ := hw.unique hw1
      obtain ⟨rfl, _⟩ := hw'.unique hw2
      rw [e1] at hg
      rw [e2, hg] at hg'
      exact Option.some.inj hg'
  refine ⟨hnd, ?_, hpairs false, hpairs true⟩
  intro K hK
  obtain ⟨⟨k, p⟩, hkp, rfl⟩ := List.mem_map.mp hK
  unfold plainOf at hkp
  obtain ⟨hm, hflags⟩ := List.mem_filter.mp hkp
  have hg := (mem_iff_get hnd).mp hm
  obtain ⟨hne, hf, hsnd⟩ := diffMap_entry hg
  cases ha : p.any with
  | none => exact absurd ha hne
  | some x =>
    have hxe : EntOK seg x ∧ x.key = k := by
      rcases any_cases ha with hy | hy
      · exact ⟨hc1 x (hf x hy).1, (hf x hy).2⟩
      · exact ⟨hc2 x (hsnd x hy).1, (hsnd x hy).2⟩
    simp only [isIPp, ha, if_true, Bool.false_eq_true, if_false, Bool.and_eq_true,
      Bool.not_eq_true'] at hflags
    cases hs : x.src with
    | ip r => rw [hs] at hflags; simp [LPeer.isIP] at hflags
    | wl n pod =>
      cases hd : x.dst with
      | ip r => rw [hd] at hflags; simp [LPeer.isIP] at hflags
      | wl n' pod' =>
        obtain ⟨h1, h2⟩ := hxe.1.wl n pod (Or.inl hs)
        obtain ⟨_, h4⟩ := hxe.1.wl n' pod' (Or.inr hd)
        refine ⟨n, n', ?_, h1, h2, h4⟩
        show k = _
        rw [← hxe.2, key_eq, hs, hd]
        rfl

/-! ## Q. what a refined report holds for a workload and an address -/

/-- the entry has workload `w` at one end and a range containing `a` at the other; `b`: the range
is the source -/
def matchIP (b : Bool) (w : String) (a : Int) (p : P2P) : Bool :=
  otherStr b p == w && (match ipEnd b p with | .ip r => decide (r.lo ≤ a ∧ a ≤ r.hi) | _ => false)

/-- what a report holds for the workload `w` and the address `a` -/
def lookupIP (b : Bool) (R : List P2P) (w : String) (a : Int) : Option P2P := R.find? (matchIP b w a)

theorem matchIP_iff {b : Bool} {w : String} {a : Int} {p : P2P} :
    matchIP b w a p = true ↔ otherStr b p = w ∧ ∃ r, ipEnd b p = .ip r ∧ r.mem a := by
  unfold matchIP
  rw [Bool.and_eq_true, beq_iff_eq]
  cases h : ipEnd b p with
  | wl n pod => simp
  | ip r => simp [Iv.mem]

theorem flatMap_congr_mem {α β : Type} {f g : α → List β} {l : List α}
    (h : ∀ x ∈ l, f x = g x) : l.flatMap f = l.flatMap g := by
  induction l with
  | nil => rfl
  | cons a l ih =>
    rw [List.flatMap_cons, List.flatMap_cons, h a (List.mem_cons_self ..),
      ih (fun x hx => h x (List.mem_cons_of_mem _ hx))]

theorem flatMap_ite_single {α β : Type} (m : α → Bool) (f : α → β) (l : List α) :
    l.flatMap (fun p => if m p then [f p] else []) = (l.filter m).map f := by
  induction l with
  | nil => rfl
  | cons a l ih =>
    rw [List.flatMap_cons, ih, List.filter_cons]
    cases m a <;> simp

theorem filter_map_unique {α β : Type} [DecidableEq α] (f : α → β) (q : β → Bool) (d0 : α)
    {l : List α} (hnd : l.Nodup) (hq : ∀ d ∈ l, q (f d) = true ↔ d = d0) :
    (l.map f).filter q = if d0 ∈ l then [f d0] else [] := by
  induction l with
  | nil => rfl
  | cons a l ih =>
    have h0 := List.nodup_cons.mp hnd
    rw [List.map_cons, List.filter_cons, ih h0.2 (fun d hd => hq d (List.mem_cons_of_mem _ hd))]
    by_cases ha : a = d0
    · subst ha
      have : q (f a) = true := (hq a (List.mem_cons_self ..)).mpr rfl
      simp [this, h0.1]
    · have : ¬ q (f a) = true := fun h => ha ((hq a (List.mem_cons_self ..)).mp h)
      have hne : ¬ d0 = a := fun h => ha h.symm
      simp [this, hne]

theorem refine1_of_ipEnd {dis : List Iv} {b : Bool} {p : P2P} {r : Iv} (hip : ipEnd b p = .ip r)
    (hother : (otherEnd b p).isIP = false) :
    refine1 dis p = (inside dis r).map (fun d => mkIP b d p) := by
  unfold refine1
  cases b
  · have h1 : p.dst = .ip r := hip
    have h2 : p.src.isIP = false := hother
    cases hs : p.src with
    | ip r' => rw [hs] at h2; cases h2
    | wl n pod =>
      rw [h1]
      simp [inside, mkIP, hs]
  · have h1 : p.src = .ip r := hip
    rw [h1]
    simp [inside, mkIP]

theorem dkey_ne_flip {b : Bool} {w w' : String} {d d0 : Iv} (hw : NotIP w) (hwns : NoSemi w)
    (hwns' : NoSemi w') : dkey (!b) w' d ≠ dkey b w d0 := by
  cases b
  · intro h
    simp only [dkey, Bool.not_false, if_true, Bool.false_eq_true, if_false] at h
    exact hw d (pkey_inj (noSemi_ipRange d) hwns h).1.symm
  · intro h
    simp only [dkey, Bool.not_true, if_true, Bool.false_eq_true, if_false] at h
    exact hw d (pkey_inj hwns' (noSemi_ipRange d0) h).2.symm

/-- the conditions on the blocks used to refine `R` -/
structure RefinesR (dis : List Iv) (R : List P2P) : Prop where
  seg : SegOK dis
  nodup : dis.Nodup
  refines : ∀ d ∈ dis, ∀ p ∈ R, ∀ r, (p.src = .ip r ∨ p.dst = .ip r) →
    (r.lo ≤ d.lo ∧ d.hi ≤ r.hi) ∨ d.hi < r.lo ∨ r.hi < d.lo

theorem ipEnd_cases {b : Bool} {p : P2P} {r : Iv} (h : ipEnd b p = .ip r) :
    p.src = .ip r ∨ p.dst = .ip r := by
  cases b
  · exact Or.inr h
  · exact Or.inl h

theorem refine1_filter_ip {R : List P2P} (hR : ReportWF R) {dis : List Iv} (hdis : RefinesR dis R)
    {b : Bool} {w : String} (hwns : NoSemi w) (hwip : NotIP w) {a : Int} {d0 : Iv} (hd0 : d0 ∈ dis)
    (ha : d0.mem a) {p : P2P} (hp : p ∈ R) :
    (refine1 dis p).filter (fun c => c.key == dkey b w d0) =
      if matchIP b w a p then [mkIP b d0 p] else [] := by
  have hv0 := hdis.seg.valid d0 hd0
  -- an entry with an IP end `r` in direction `b'`
  have hcase : ∀ b' r, ipEnd b' p = .ip r →
      (refine1 dis p).filter (fun c => c.key == dkey b w d0) =
        if matchIP b w a p then [mkIP b d0 p] else [] := by
    intro b' r hip
    have hnb := hR.noIPIP p hp
    have hother : (otherEnd b' p).isIP = false := by
      cases b'
      · have h1 : p.dst = .ip r := hip
        rw [h1] at hnb
        show p.src.isIP = false
        simpa [LPeer.isIP] using hnb
      · have h1 : p.src = .ip r := hip
        rw [h1] at hnb
        show p.dst.isIP = false
        simpa [LPeer.isIP] using hnb
    obtain ⟨w', pod, hoe, hos, hns', hnip'⟩ : ∃ w' pod, otherEnd b' p = .wl w' pod ∧
        otherStr b' p = w' ∧ NoSemi w' ∧ NotIP w' := by
      cases hoe : otherEnd b' p with
      | ip r' => rw [hoe] at hother; cases hother
      | wl n pod =>
        have hn : p.src = .wl n pod ∨ p.dst = .wl n pod := by
          cases b'
          · exact Or.inl hoe
          · exact Or.inr hoe
        obtain ⟨h1, h2⟩ := hR.names p hp n pod hn
        refine ⟨n, pod, rfl, ?_, h1, h2⟩
        cases b'
        · show p.src.str = n
          have : p.src = .wl n pod := hoe
          rw [this]; rfl
        · show p.dst.str = n
          have : p.dst = .wl n pod := hoe
          rw [this]; rfl
    rw [refine1_of_ipEnd hip hother]
    by_cases hbb : b' = b
    · subst hbb
      have hq : ∀ d ∈ inside dis r, ((mkIP b' d p).key == dkey b' w d0) = true ↔
          (d = d0 ∧ w' = w) := by
        intro d hd
        rw [beq_iff_eq, mkIP_key, hos]
        constructor
        · intro h
          obtain ⟨e1, e2⟩ := dkey_inj hns' hwns (hdis.seg.valid d (mem_inside.mp hd).1) hv0 h
          exact ⟨e2, e1⟩
        · rintro ⟨rfl, rfl⟩; rfl
      have hin : d0 ∈ inside dis r ↔ r.mem a := by
        rw [mem_inside]
        unfold Iv.mem at ha ⊢
        constructor
        · intro h; omega
        · intro h
          refine ⟨hd0, ?_⟩
          rcases hdis.refines d0 hd0 p hp r (ipEnd_cases hip) with h' | h' | h'
          · exact h'
          · omega
          · omega
      by_cases hww : w' = w
      · subst hww
        have hndi : (inside dis r).Nodup := by
          unfold inside; exact hdis.nodup.sublist List.filter_sublist
        rw [filter_map_unique (fun d => mkIP b' d p) (fun c => c.key == dkey b' w' d0) d0 hndi
          (fun d hd => Iff.trans (hq d hd) (and_iff_left rfl))]
        have hm : matchIP b' w' a p = true ↔ r.mem a := by
          rw [matchIP_iff, hip]
          constructor
          · rintro ⟨_, r', hr', h⟩; cases hr'; exact h
          · intro h; exact ⟨hos, r, rfl, h⟩
        by_cases hra : r.mem a
        · rw [if_pos (hin.mpr hra), if_pos (hm.mpr hra)]
        · rw [if_neg (fun h => hra (hin.mp h)), if_neg (fun h => hra (hm.mp h))]
      · have hm : ¬ matchIP b' w a p = true := by
          rw [matchIP_iff, hos]
          rintro ⟨h, _⟩; exact hww h
        rw [if_neg hm, List.filter_eq_nil_iff]
        intro c hc
        obtain ⟨d, hd, rfl⟩ := List.mem_map.mp hc
        intro h
        exact hww ((hq d hd).mp h).2
    · have hb' : b' = !b := by cases b <;> cases b' <;> simp_all
      subst hb'
      have hm : ¬ matchIP b w a p = true := by
        rw [matchIP_iff]
        rintro ⟨_, r', hr', _⟩
        have : ipEnd b p = otherEnd (!b) p := by cases b <;> rfl
        rw [this, hoe] at hr'
        cases hr'
      rw [if_neg hm, List.filter_eq_nil_iff]
      intro c hc
      obtain ⟨d, hd, rfl⟩ := List.mem_map.mp hc
      rw [beq_iff_eq, mkIP_key, hos]
      exact dkey_ne_flip hwip hwns hns'
  cases hs : p.src with
  | ip r => exact hcase true r hs
  | wl n pod =>
    cases hd : p.dst with
    | ip r => exact hcase false r hd
    | wl n' pod' =>
      have hm : ¬ matchIP b w a p = true := by
        rw [matchIP_iff]
        rintro ⟨_, r', hr', _⟩
        cases b
        · have : p.dst = .ip r' := hr'
          rw [hd] at this; cases this
        · have : p.src = .ip r' := hr'
          rw [hs] at this; cases this
      have hr1 : refine1 dis p = [p] := by
        unfold refine1; rw [hs, hd]
      obtain ⟨h1, h2⟩ := hR.names p hp n pod (Or.inl hs)
      obtain ⟨_, h4⟩ := hR.names p hp n' pod' (Or.inr hd)
      rw [if_neg hm, hr1, List.filter_eq_nil_iff]
      intro c hc
      rw [List.mem_singleton] at hc
      subst hc
      rw [beq_iff_eq, key_eq, hs, hd]
      intro h
      cases b
      · simp only [dkey, Bool.false_eq_true, if_false] at h
        exact h4 d0 (pkey_inj h1 hwns h).2
      · simp only [dkey, if_true] at h
        exact h2 d0 (pkey_inj h1 (noSemi_ipRange d0) h).1

theorem lookupIP_unique {R : List P2P} (hR : ReportWF R) (b : Bool) (w : String) (a : Int) :
    R.filter (matchIP b w a) = (lookupIP b R w a).toList := by
  unfold lookupIP
  apply filter_unique_of_pairwise
  have hnd := hR.nodup
  rw [List.nodup_iff_pairwise_ne, List.pairwise_map] at hnd
  refine hnd.imp_of_mem ?_
  intro p q hp hq hne ⟨hmp, hmq⟩
  obtain ⟨e1, r, hr, hra⟩ := matchIP_iff.mp hmp
  obtain ⟨e1', r', hr', hra'⟩ := matchIP_iff.mp hmq
  have : r = r' := hR.disjoint p hp q hq r r' (ipEnd_cases hr) (ipEnd_cases hr') a hra hra'
  subst this
  apply hne
  cases b
  · have h1 : p.dst = .ip r := hr
    have h2 : q.dst = .ip r := hr'
    have h3 : p.src.str = w := e1
    have h4 : q.src.str = w := e1'
    rw [h1, h2, h3, h4]
  · have h1 : p.src = .ip r := hr
    have h2 : q.src = .ip r := hr'
    have h3 : p.dst.str = w := e1
    have h4 : q.dst.str = w := e1'
    rw [h1, h2, h3, h4]

/-- the refined report under the key of workload `w` and block `d0`: the entry the report holds for
`w` and any address of `d0`, moved to `d0` -/
theorem refine_filter_ip {R : List P2P} (hR : ReportWF R) {dis : List Iv} (hdis : RefinesR dis R)
    (b : Bool) {w : String} (hwns : NoSemi w) (hwip : NotIP w) {a : Int} {d0 : Iv} (hd0 : d0 ∈ dis)
    (ha : d0.mem a) :
    (refine R dis).filter (fun c => c.key == dkey b w d0) =
      ((lookupIP b R w a).map (mkIP b d0)).toList := by
  rw [refine_eq, List.filter_flatMap,
    flatMap_congr_mem (fun p hp => refine1_filter_ip hR hdis hwns hwip hd0 ha hp),
    flatMap_ite_single, lookupIP_unique hR]
  cases lookupIP b R w a <;> rfl

/-! ## R. the merged map at a point (workload, address) -/

/-- the connection string determines the connection (true of the canonical exported views) -/
def ConnStrInj (R : List P2P) : Prop :=
  ∀ p ∈ R, ∀ q ∈ R, p.connStr = q.connStr → p.all = q.all ∧ p.ports = q.ports

def disOf (R1 R2 : List P2P) : List Iv := disjointBlocks (ipBlocksOf R1) (ipBlocksOf R2)

theorem refinesR_left {R1 R2 : List P2P} (h1 : ReportWF R1) (h2 : ReportWF R2) :
    RefinesR (disOf R1 R2) R1 := by
  refine ⟨segOK_disjointBlocks h1 h2, disjointBlocks_nodup _ _, ?_⟩
  intro d hd p hp r hr
  exact disjointBlocks_refines _ _ hd
    (List.mem_append_left _ (mem_ipBlocksOf.mpr ⟨p, hp, hr⟩))

theorem refinesR_right {R1 R2 : List P2P} (h1 : ReportWF R1) (h2 : ReportWF R2) :
    RefinesR (disOf R1 R2) R2 := by
  refine ⟨segOK_disjointBlocks h1 h2, disjointBlocks_nodup _ _, ?_⟩
  intro d hd p hp r hr
  exact disjointBlocks_refines _ _ hd
    (List.mem_append_right _ (mem_ipBlocksOf.mpr ⟨p, hp, hr⟩))

/-- a refined connection keeps the workload ends and the connection of its origin -/
theorem refine_origin {R : List P2P} {dis : List Iv} {y : P2P} (hy : y ∈ refine R dis) :
    ∃ q ∈ R, y.all = q.all ∧ y.ports = q.ports ∧
      ∀ n pod, (y.src = .wl n pod → q.src = .wl n pod) ∧ (y.dst = .wl n pod → q.dst = .wl n pod) := by
  obtain ⟨p, hp, hyp⟩ := mem_refine.mp hy
  refine ⟨p, hp, ?_⟩
  rcases mem_refine1 hyp with ⟨rfl, _, _⟩ | ⟨r, d, _, _, rfl⟩ | ⟨r, d, _, _, _, rfl⟩
  · exact ⟨rfl, rfl, fun n pod => ⟨id, id⟩⟩
  · exact ⟨rfl, rfl, fun n pod => ⟨fun h => (by cases h), id⟩⟩
  · exact ⟨rfl, rfl, fun n pod => ⟨id, fun h => (by cases h)⟩⟩

theorem connStr_congr {x y : P2P} (h1 : x.all = y.all) (h2 : x.ports = y.ports) :
    x.connStr = y.connStr := by
  unfold P2P.connStr; rw [h1, h2]

/-- two refined connections of one report with the same workload name at the `b`-other end and the
same connection string become equal when moved to the same range -/
theorem mkIP_eq_of_connStr {R : List P2P} (hR : ReportWF R) (hcs : ConnStrInj R) {dis : List Iv}
    {b : Bool} {y z : P2P} (hy : y ∈ refine R dis) (hz : z ∈ refine R dis) {w : String}
    {py pz : Pod} (hoy : otherEnd b y = .wl w py) (hoz : otherEnd b z = .wl w pz)
    (hc : y.connStr = z.connStr) (r : Iv) : mkIP b r y = mkIP b r z := by
  obtain ⟨qy, hqy, ay, py', ey⟩ := refine_origin hy
  obtain ⟨qz, hqz, az, pz', ez⟩ := refine_origin hz
  have hc' : qy.connStr = qz.connStr := by
    rw [← connStr_congr ay py', ← connStr_congr az pz', hc]
  obtain ⟨ha, hp⟩ := hcs qy hqy qz hqz hc'
  have hall : y.all = z.all := by rw [ay, az, ha]
  have hports : y.ports = z.ports := by rw [py', pz', hp]
  cases b
  · have h1 : y.src = .wl w py := hoy
    have h2 : z.src = .wl w pz := hoz
    have : py = pz := hR.peers qy hqy qz hqz w py pz (Or.inl ((ey w py).1 h1)) (Or.inl ((ez w pz).1 h2))
    subst this
    show ({ y with dst := .ip r } : P2P) = { z with dst := .ip r }
    rw [h1, h2, hall, hports]
  · have h1 : y.dst = .wl w py := hoy
    have h2 : z.dst = .wl w pz := hoz
    have : py = pz := hR.peers qy hqy qz hqz w py pz (Or.inr ((ey w py).2 h1)) (Or.inr ((ez w pz).2 h2))
    subst this
    show ({ y with src := .ip r } : P2P) = { z with src := .ip r }
    rw [h1, h2, hall, hports]

theorem noSemi_S1 (p : Pair) : NoSemi (S1 p) := by
  unfold S1 NoSemi
  cases p.first with
  | none => simp
  | some x => exact connStr_noSemi x

theorem mkIP_mkIP (b : Bool) (r d : Iv) (x : P2P) : mkIP b r (mkIP b d x) = mkIP b r x := by
  cases b <;> rfl

/-- a key of the merged map that names the workload `w` and a valid range containing `a` belongs
to an entry covering the point -/
theorem covers_of_key {seg : List Iv} {m : DMap} (h : MapOK seg m) (hs : SegOK seg) {b : Bool}
    {w : String} (hwns : NoSemi w) (hwip : NotIP w) {a : Int} {r' : Iv} (hv : ValidR r')
    (ha : r'.mem a) {p : Pair} (hg : get (mergeIPblocks m) (dkey b w r') = some p) :
    (dkey b w r', p) ∈ mergeIPblocks m ∧ CoversP b w a p := by
  have hmem := (mem_iff_get (nodup_mergeIPblocks h.nodup)).mpr hg
  refine ⟨hmem, ?_⟩
  have key : ∀ b', (dkey b w r', p) ∈ writesOf b' (pairsOf b' m) → CoversP b w a p := by
    intro b' hw
    obtain ⟨kk, g0, r, hiw, heq⟩ := mem_writesOf.mp hw
    obtain ⟨w0, d0, _, _, hwp, hns0, hnip0, hv0, _⟩ := write_sem (h.pairs b') hs hiw
    have hk : dkey b w r' = dkey b' w0 r := by
      have := congrArg Prod.fst heq
      simp only at this
      rw [this, wentry_key hwp]
    by_cases hbb : b' = b
    · subst hbb
      obtain ⟨e1, e2⟩ := dkey_inj hwns hns0 hv hv0 hk
      subst e1; subst e2
      have hp : p = (wentry b' g0 r').2 := by
        have := congrArg Prod.snd heq
        simpa using this
      rw [hp]
      exact (coversP_wpair (wentry_wpair hwp r')).mpr ⟨rfl, ha⟩
    · exfalso
      have hb' : b' = !b := by cases b <;> cases b' <;> simp_all
      subst hb'
      exact dkey_ne_flip hwip hwns hns0 hk.symm
  rw [mergeIPblocks_list h hs, List.mem_append, List.mem_append] at hmem
  rcases hmem with (hmem | hmem) | hmem
  · exfalso
    obtain ⟨s, d, hk, hs', hsip, hdip⟩ := h.plainKeys _ (List.mem_map.mpr ⟨_, hmem, rfl⟩)
    simp only at hk
    cases b
    · simp only [dkey, Bool.false_eq_true, if_false] at hk
      exact hdip r' (pkey_inj hwns hs' hk).2.symm
    · simp only [dkey, if_true] at hk
      exact hsip r' (pkey_inj (noSemi_ipRange r') hs' hk).1.symm
  · exact key false hmem
  · exact key true hmem

/-- the map built from the two refined reports -/
def refMap (R1 R2 : List P2P) : DMap :=
  diffMap (refine R1 (disOf R1 R2)) (refine R2 (disOf R1 R2))

/-- the pair of connection strings the reports hold for workload `w` and address `x` ("" for none) -/
def strsAt (b : Bool) (R1 R2 : List P2P) (w : String) (x : Int) : String × String :=
  (((lookupIP b R1 w x).map (·.connStr)).getD "", ((lookupIP b R2 w x).map (·.connStr)).getD "")

theorem connStr_mkIP (b : Bool) (d : Iv) (x : P2P) : (mkIP b d x).connStr = x.connStr := by
  cases b <;> rfl

theorem S1_moved (b : Bool) (d : Iv) (o1 o2 : Option P2P) :
    S1 ⟨o1.map (mkIP b d), o2.map (mkIP b d)⟩ = (o1.map (·.connStr)).getD "" := by
  unfold S1
  cases o1 with
  | none => rfl
  | some x => simp [connStr_mkIP]

theorem S2_moved (b : Bool) (d : Iv) (o1 o2 : Option P2P) :
    S2 ⟨o1.map (mkIP b d), o2.map (mkIP b d)⟩ = (o2.map (·.connStr)).getD "" := by
  unfold S2
  cases o2 with
  | none => rfl
  | some x => simp [connStr_mkIP]

theorem mapOK_refMap {R1 R2 : List P2P} (h1 : ReportWF R1) (h2 : ReportWF R2) :
    MapOK (disOf R1 R2) (refMap R1 R2) :=
  mapOK_diffMap (segOK_disjointBlocks h1 h2) (entOK_refine h1 _) (entOK_refine h2 _)

/-- the map under the key of `w` and a block containing `x` -/
theorem getm_at {R1 R2 : List P2P} (h1 : ReportWF R1) (h2 : ReportWF R2) (b : Bool) {w : String}
    (hwns : NoSemi w) (hwip : NotIP w) {x : Int} {d : Iv} (hd : d ∈ disOf R1 R2) (hdx : d.mem x) :
    get (refMap R1 R2) (dkey b w d) =
      mkPair ((lookupIP b R1 w x).map (mkIP b d)) ((lookupIP b R2 w x).map (mkIP b d)) :=
  get_diffMap_of_filter (refine_filter_ip h1 (refinesR_left h1 h2) b hwns hwip hd hdx)
    (refine_filter_ip h2 (refinesR_right h1 h2) b hwns hwip hd hdx)

/-- when a report holds a connection for the point, the map has a pair of that direction for it -/
theorem pair_at_point {R1 R2 : List P2P} (h1 : ReportWF R1) (h2 : ReportWF R2) (b : Bool)
    {w : String} (hwns : NoSemi w) (hwip : NotIP w) (x : Int)
    (hsome : (lookupIP b R1 w x).isSome ∨ (lookupIP b R2 w x).isSome) :
    ∃ d ∈ disOf R1 R2, d.mem x ∧ ∃ px, get (refMap R1 R2) (dkey b w d) = some px ∧
      px = ⟨(lookupIP b R1 w x).map (mkIP b d), (lookupIP b R2 w x).map (mkIP b d)⟩ ∧
      px ∈ pairsOf b (refMap R1 R2) ∧ WPair b w d px := by
  have hseg := segOK_disjointBlocks h1 h2
  have hc1 := entOK_refine h1 (disOf R1 R2)
  have hc2 := entOK_refine h2 (disOf R1 R2)
  have hmap := mapOK_refMap h1 h2
  obtain ⟨d0, hd0, hda⟩ : ∃ d0 ∈ disOf R1 R2, d0.mem x := by
    have hblock : ∀ (R : List P2P) y, lookupIP b R w x = some y →
        ∃ r ∈ ipBlocksOf R, r.mem x := by
      intro R y hy
      have hm := List.find?_some hy
      have hyR := List.mem_of_find?_eq_some hy
      obtain ⟨_, r, hr, hra⟩ := matchIP_iff.mp hm
      exact ⟨r, mem_ipBlocksOf.mpr ⟨y, hyR, ipEnd_cases hr⟩, hra⟩
    rcases hsome with hs | hs
    · obtain ⟨y, hy⟩ := Option.isSome_iff_exists.mp hs
      obtain ⟨r, hr, hra⟩ := hblock R1 y hy
      obtain ⟨d, hd, hda⟩ := disjointBlocks_cover _ _ (List.mem_append_left _ hr) hra
      exact ⟨d, hd, hda⟩
    · obtain ⟨y, hy⟩ := Option.isSome_iff_exists.mp hs
      obtain ⟨r, hr, hra⟩ := hblock R2 y hy
      obtain ⟨d, hd, hda⟩ := disjointBlocks_cover _ _ (List.mem_append_right _ hr) hra
      exact ⟨d, hd, hda⟩
  refine ⟨d0, hd0, hda, ?_⟩
  have hg0 := getm_at h1 h2 b hwns hwip hd0 hda
  obtain ⟨p0, hp0⟩ : ∃ p0, mkPair ((lookupIP b R1 w x).map (mkIP b d0))
      ((lookupIP b R2 w x).map (mkIP b d0)) = some p0 := by
    unfold mkPair
    rcases hsome with hs | hs
    · obtain ⟨y, hy⟩ := Option.isSome_iff_exists.mp hs
      rw [hy]; cases lookupIP b R2 w x <;> exact ⟨_, rfl⟩
    · obtain ⟨y, hy⟩ := Option.isSome_iff_exists.mp hs
      rw [hy]; cases lookupIP b R1 w x <;> exact ⟨_, rfl⟩
  rw [hp0] at hg0
  obtain ⟨hp0eq, hp0ne⟩ := mkPair_some hp0
  obtain ⟨x0, hx0⟩ : ∃ x0, p0.any = some x0 := by
    cases ha : p0.any with
    | none => exact absurd ha hp0ne
    | some y => exact ⟨y, rfl⟩
  have hx0' : ∃ y, (lookupIP b R1 w x = some y ∨ lookupIP b R2 w x = some y) ∧ x0 = mkIP b d0 y := by
    rcases any_cases hx0 with hf | hf
    · rw [hp0eq] at hf
      obtain ⟨y, hy, rfl⟩ := Option.map_eq_some_iff.mp hf
      exact ⟨y, Or.inl hy, rfl⟩
    · rw [hp0eq] at hf
      obtain ⟨y, hy, rfl⟩ := Option.map_eq_some_iff.mp hf
      exact ⟨y, Or.inr hy, rfl⟩
  obtain ⟨y, hyl, rfl⟩ := hx0'
  have hym : matchIP b w x y = true := by
    rcases hyl with hyl | hyl <;> exact List.find?_some hyl
  obtain ⟨hyo, _⟩ := matchIP_iff.mp hym
  obtain ⟨w', hns', hnip', _, hwp0, hk0⟩ :=
    wpair_of_entry hseg hc1 hc2 hg0 hx0 (ipEnd_mkIP b d0 y)
  have hw' : w' = w := by
    obtain ⟨e1, _⟩ := hwp0.shape _ (any_cases hx0)
    rw [otherStr_mkIP, hyo] at e1
    exact e1.symm
  subst hw'
  refine ⟨p0, hg0, hp0eq, ?_, hwp0⟩
  have hmem := (mem_iff_get hmap.nodup).mpr hg0
  have hflag : isIPp p0 b = true := by
    unfold isIPp
    rw [hx0]
    cases b <;> rfl
  cases b
  · exact List.mem_map.mpr ⟨_, List.mem_filter.mpr ⟨hmem, hflag⟩, rfl⟩
  · refine List.mem_map.mpr ⟨_, List.mem_filter.mpr ⟨hmem, ?_⟩, rfl⟩
    have hdst : isIPp p0 false = false := by
      unfold isIPp
      rw [hx0]
      simp only [Bool.false_eq_true, if_false]
      have hent0 : EntOK (disOf R1 R2) (mkIP true d0 y) := by
        rcases any_cases hx0 with hf | hf
        · exact hc1 _ ((diffMap_entry hg0).2.1 _ hf).1
        · exact hc2 _ ((diffMap_entry hg0).2.2 _ hf).1
      obtain ⟨_, _, hoe, _⟩ := otherEnd_wl hent0 (ipEnd_mkIP true d0 y)
      have : (mkIP true d0 y).dst = _ := hoe
      rw [this]; rfl
    simp [hdst, hflag]

theorem strsAt_ne_of_some {b : Bool} {R1 R2 : List P2P} {w : String} {x : Int}
    (h : (lookupIP b R1 w x).isSome ∨ (lookupIP b R2 w x).isSome) :
    strsAt b R1 R2 w x ≠ ("", "") := by
  unfold strsAt
  intro heq
  obtain ⟨e1, e2⟩ := Prod.mk.inj heq
  rcases h with h | h
  · obtain ⟨y, hy⟩ := Option.isSome_iff_exists.mp h
    rw [hy] at e1
    exact connStr_ne_empty y (by simpa using e1)
  · obtain ⟨y, hy⟩ := Option.isSome_iff_exists.mp h
    rw [hy] at e2
    exact connStr_ne_empty y (by simpa using e2)

theorem strsAt_none {b : Bool} {R1 R2 : List P2P} {w : String} {x : Int}
    (h1 : lookupIP b R1 w x = none) (h2 : lookupIP b R2 w x = none) :
    strsAt b R1 R2 w x = ("", "") := by
  unfold strsAt; rw [h1, h2]; rfl

/-- **the merged map at a point.** For well-formed reports `R1`, `R2`, a workload name `w` and an
address `a` (`b`: the address is the source): with `o1`, `o2` what the reports hold for the
point — if both are none the merged map has no entry under `w` and any valid range containing
`a`; otherwise there is one valid range `r` containing `a` such that the map holds, under `w` and
`r`, exactly `o1` and `o2` moved to `r`, and no entry under `w` and another valid range
containing `a`; `r` is the maximal range around `a` on which the two connection strings are
those at `a` -/
theorem point_ip {R1 R2 : List P2P} (h1 : ReportWF R1) (h2 : ReportWF R2) (hcs1 : ConnStrInj R1)
    (hcs2 : ConnStrInj R2) (b : Bool) {w : String} (hwns : NoSemi w) (hwip : NotIP w) (a : Int) :
    (lookupIP b R1 w a = none → lookupIP b R2 w a = none → ∀ r, ValidR r → r.mem a →
      get (mergeIPblocks (refMap R1 R2)) (dkey b w r) = none) ∧
    (((lookupIP b R1 w a).isSome ∨ (lookupIP b R2 w a).isSome) → ∃ r, ValidR r ∧ r.mem a ∧
      get (mergeIPblocks (refMap R1 R2)) (dkey b w r)
        = some ⟨(lookupIP b R1 w a).map (mkIP b r), (lookupIP b R2 w a).map (mkIP b r)⟩ ∧
      (∀ r', ValidR r' → r'.mem a →
        (get (mergeIPblocks (refMap R1 R2)) (dkey b w r')).isSome → r' = r) ∧
      (∀ x, r.mem x → strsAt b R1 R2 w x = strsAt b R1 R2 w a) ∧
      strsAt b R1 R2 w (r.lo - 1) ≠ strsAt b R1 R2 w a ∧
      strsAt b R1 R2 w (r.hi + 1) ≠ strsAt b R1 R2 w a) := by
  have hseg := segOK_disjointBlocks h1 h2
  have hc1 := entOK_refine h1 (disOf R1 R2)
  have hc2 := entOK_refine h2 (disOf R1 R2)
  have hmap := mapOK_refMap h1 h2
  constructor
  · intro ho1 ho2 r hv hra
    cases hg : get (mergeIPblocks (refMap R1 R2)) (dkey b w r) with
    | none => rfl
    | some p =>
      exfalso
      obtain ⟨hmem, hcov⟩ := covers_of_key hmap hseg hwns hwip hv hra hg
      refine merge_point_none hmap hseg b hwip ?_ _ hmem hcov
      intro p' hp' hcov'
      obtain ⟨w', d, _, _, hd, hwp⟩ := (hmap.pairs b).shape p' hp'
      obtain ⟨rfl, hda⟩ := (coversP_wpair hwp).mp hcov'
      obtain ⟨k, hk, _⟩ := mem_pairsOf hp'
      obtain ⟨x, hx, _, hip⟩ := hwp.any
      obtain ⟨w2, _, _, _, hwp2, ek⟩ :=
        wpair_of_entry hseg hc1 hc2 ((mem_iff_get hmap.nodup).mp hk) hx hip
      obtain ⟨rfl, _⟩ := hwp.unique hwp2
      have := (mem_iff_get hmap.nodup).mp hk
      rw [ek, getm_at h1 h2 b hwns hwip hd hda, ho1, ho2] at this
      cases this
  · intro hsome
    obtain ⟨d0, hd0, hda, p0, hg0, hp0eq, hp0mem, hwp0⟩ := pair_at_point h1 h2 b hwns hwip a hsome
    have hcov0 : CoversP b w a p0 := (coversP_wpair hwp0).mpr ⟨rfl, hda⟩
    obtain ⟨g0, r, hg0mem, hgk, hv, hra, hget, huniq, hrm⟩ :=
      merge_point hmap hseg b hwip hp0mem hcov0
    -- the group key of a pair at an address
    have hgkey : ∀ x d (px : Pair), WPair b w d px →
        px = ⟨(lookupIP b R1 w x).map (mkIP b d), (lookupIP b R2 w x).map (mkIP b d)⟩ →
        (groupKey px b = groupKey p0 b ↔ strsAt b R1 R2 w x = strsAt b R1 R2 w a) := by
      intro x d px hwpx hpx
      rw [groupKey_eq hwpx, groupKey_eq hwp0, hpx, hp0eq, S1_moved, S2_moved, S1_moved, S2_moved]
      unfold strsAt
      constructor
      · intro h
        have h' := (pkey_inj hwns hwns h).2
        have hns1 : NoSemi (((lookupIP b R1 w x).map (·.connStr)).getD "") := by
          have := noSemi_S1 ⟨lookupIP b R1 w x, none⟩
          unfold S1 at this; exact this
        have hns2 : NoSemi (((lookupIP b R1 w a).map (·.connStr)).getD "") := by
          have := noSemi_S1 ⟨lookupIP b R1 w a, none⟩
          unfold S1 at this; exact this
        obtain ⟨e1, e2⟩ := pkey_inj hns1 hns2 h'
        rw [e1, e2]
      · intro h
        obtain ⟨e1, e2⟩ := Prod.mk.inj h
        rw [e1, e2]
    -- the union of the group's ranges
    have hU : ∀ x, CSet.memL (mergeRanges (groupRanges b
        (groupOf b (pairsOf b (refMap R1 R2)) (groupKey p0 b)))) x ↔
        strsAt b R1 R2 w x = strsAt b R1 R2 w a := by
      intro x
      rw [mem_mergeRanges]
      constructor
      · rintro ⟨d, hd, hdx⟩
        obtain ⟨px, hpxg, y, hy, hip⟩ := groupRanges_mem.mp hd
        obtain ⟨hpx, hpk⟩ := mem_groupOf.mp hpxg
        obtain ⟨w', d', hns', _, hd', hwpx⟩ := (hmap.pairs b).shape px hpx
        have e2 := (hwpx.shape y (any_cases hy)).2
        rw [hip] at e2
        cases e2
        have hww : w' = w := groupKey_other hwpx hwp0 hns' hwns hpk
        subst hww
        obtain ⟨k, hk, _⟩ := mem_pairsOf hpx
        obtain ⟨w2, _, _, _, hwp2, ek⟩ :=
          wpair_of_entry hseg hc1 hc2 ((mem_iff_get hmap.nodup).mp hk) hy hip
        obtain ⟨rfl, _⟩ := hwpx.unique hwp2
        have hgx := (mem_iff_get hmap.nodup).mp hk
        rw [ek, getm_at h1 h2 b hwns hwip hd' hdx] at hgx
        exact (hgkey x d px hwpx (mkPair_some hgx).1).mp hpk
      · intro hs
        have hsx : (lookupIP b R1 w x).isSome ∨ (lookupIP b R2 w x).isSome := by
          cases ho1 : lookupIP b R1 w x with
          | some y => exact Or.inl rfl
          | none =>
            cases ho2 : lookupIP b R2 w x with
            | some y => exact Or.inr rfl
            | none =>
              exfalso
              exact strsAt_ne_of_some hsome (hs ▸ strsAt_none ho1 ho2)
        obtain ⟨d, hd, hdx, px, hgx, hpxeq, hpxmem, hwpx⟩ := pair_at_point h1 h2 b hwns hwip x hsx
        have hpk := (hgkey x d px hwpx hpxeq).mpr hs
        obtain ⟨y, hy, _, hip⟩ := hwpx.any
        exact ⟨d, groupRanges_mem.mpr ⟨px, mem_groupOf.mpr ⟨hpxmem, hpk⟩, y, hy, hip⟩, hdx⟩
    obtain ⟨hmax1, hmax2⟩ := mergeRanges_maximal hrm
    refine ⟨r, hv, hra, ?_, ?_, ?_, ?_, ?_⟩
    · rw [hget]
      -- the representative carries the same connections
      obtain ⟨kg, hkg, _⟩ := mem_pairsOf hg0mem
      have hgg := (mem_iff_get hmap.nodup).mp hkg
      obtain ⟨wg, dg, hnsg, _, _, hwpg⟩ := (hmap.pairs b).shape g0 hg0mem
      have hwg : wg = w := groupKey_other hwpg hwp0 hnsg hwns hgk
      subst hwg
      rw [groupKey_eq hwpg, groupKey_eq hwp0] at hgk
      obtain ⟨hS1, hS2⟩ := pkey_inj (noSemi_S1 g0) (noSemi_S1 p0) (pkey_inj hnsg hnsg hgk).2
      obtain ⟨_, hgf, hgs⟩ := diffMap_entry hgg
      obtain ⟨_, hpf, hps⟩ := diffMap_entry hg0
      have hside : ∀ (R : List P2P), ReportWF R → ConnStrInj R →
          ∀ (og op : Option P2P), (∀ y, og = some y → y ∈ refine R (disOf R1 R2) ∧
            otherStr b y = wg ∧ ∃ d, ipEnd b y = .ip d) →
          (∀ y, op = some y → y ∈ refine R (disOf R1 R2) ∧ otherStr b y = wg ∧ ∃ d, ipEnd b y = .ip d) →
          (og.map (·.connStr)).getD "" = (op.map (·.connStr)).getD "" →
          og.map (mkIP b r) = op.map (mkIP b r) := by
        intro R hR hcs og op hog hop hS
        cases og with
        | none =>
          cases op with
          | none => rfl
          | some z => exact absurd hS.symm (by simpa using connStr_ne_empty z)
        | some y =>
          cases op with
          | none => exact absurd hS (by simpa using connStr_ne_empty y)
          | some z =>
            obtain ⟨hy, hyo, dy, hyd⟩ := hog y rfl
            obtain ⟨hz, hzo, dz, hzd⟩ := hop z rfl
            obtain ⟨wy, py, hoy, hsy, _, _⟩ := otherEnd_wl (entOK_refine hR _ y hy) hyd
            obtain ⟨wz, pz, hoz, hsz, _, _⟩ := otherEnd_wl (entOK_refine hR _ z hz) hzd
            rw [hyo] at hsy; rw [hzo] at hsz
            subst hsy; subst hsz
            simp only [Option.map_some, Option.getD_some] at hS
            simp only [Option.map_some]
            rw [mkIP_eq_of_connStr hR hcs hy hz hoy hoz hS r]
      have e1 : g0.first.map (mkIP b r) = p0.first.map (mkIP b r) :=
        hside R1 h1 hcs1 g0.first p0.first
          (fun y hy => ⟨(hgf y hy).1, (hwpg.shape y (Or.inl hy)).1, _, (hwpg.shape y (Or.inl hy)).2⟩)
          (fun y hy => ⟨(hpf y hy).1, (hwp0.shape y (Or.inl hy)).1, _, (hwp0.shape y (Or.inl hy)).2⟩)
          hS1
      have e2 : g0.second.map (mkIP b r) = p0.second.map (mkIP b r) :=
        hside R2 h2 hcs2 g0.second p0.second
          (fun y hy => ⟨(hgs y hy).1, (hwpg.shape y (Or.inr hy)).1, _, (hwpg.shape y (Or.inr hy)).2⟩)
          (fun y hy => ⟨(hps y hy).1, (hwp0.shape y (Or.inr hy)).1, _, (hwp0.shape y (Or.inr hy)).2⟩)
          hS2
      rw [e1, e2, hp0eq]
      simp only [Option.map_map]
      have : (mkIP b r ∘ mkIP b d0) = mkIP b r := by
        funext y; exact mkIP_mkIP b r d0 y
      rw [this]
    · intro r' hv' hra' hsome'
      obtain ⟨p', hp'⟩ := Option.isSome_iff_exists.mp hsome'
      obtain ⟨hmem', hcov'⟩ := covers_of_key hmap hseg hwns hwip hv' hra' hp'
      have := huniq _ hmem' hcov'
      simp only at this
      exact (dkey_inj hwns hwns hv' hv this).2
    · intro x hx
      exact (hU x).mp ⟨r, hrm, hx⟩
    · intro h; exact hmax1 ((hU _).mpr h)
    · intro h; exact hmax2 ((hU _).mpr h)

end DiffLayer
end Netpol
