import Netpol.Spec.K8s

/-! Algebraic laws of the pointwise specification `Netpol.Spec` (helper layer for properties C14
and C08): how `Spec.allowed` depends on the list of NetworkPolicies, congruence lemmas for
replacing a policy / a rule / a peer / a port, and the arithmetic of CIDR halving.
Core Lean only. -/
namespace Netpol

/-- the policy with the rule list of one direction replaced -/
def NetPol.setRules (np : NetPol) (d : Dir) (rs : List NPRule) : NetPol :=
  match d with
  | .ingress => { np with ingress := rs }
  | .egress => { np with egress := rs }

/-- the two halves of a CIDR block (meaningful for `c.pfx < 32`), with aligned base addresses -/
def Cidr.halves (c : Cidr) : Cidr × Cidr :=
  let size : Nat := 2 ^ (32 - c.pfx)
  let lo : Nat := (c.addr / size) * size
  (⟨lo, c.pfx + 1⟩, ⟨lo + 2 ^ (31 - c.pfx), c.pfx + 1⟩)

namespace Spec

/-! ### views without admin policies -/

/-- a view without AdminNetworkPolicies and without a BaselineAdminNetworkPolicy -/
def NPOnly (v : View) : Prop := v.anps = [] ∧ v.banp = none

instance (v : View) : Decidable (NPOnly v) := by unfold NPOnly; infer_instance

/-- what one policy contributes to `npAllows` -/
def npContrib (np : NetPol) (pod : Pod) (other dst : End) (d : Dir) (pr : Proto) (p : Int) : Bool :=
  npSelects np pod d && (npRules np d).any (npRuleAllows np · other dst pr p)

/-- does the policy select this end (an external address is never selected)? -/
def selectsEnd (q : NetPol) (e : End) (d : Dir) : Bool :=
  match e with
  | .pod pod _ => npSelects q pod d
  | .ip _ => false

theorem npAllows_eq_any (v : View) (pod : Pod) (other dst : End) (d : Dir) (pr : Proto) (p : Int) :
    npAllows v pod other dst d pr p = v.netpols.any (npContrib · pod other dst d pr p) := rfl

theorem governs_eq_any (v : View) (pod : Pod) (d : Dir) :
    governs v pod d = v.netpols.any (npSelects · pod d) := rfl

/-- `allowedDir` without the admin layers: an ungoverned pod is unrestricted -/
def allowedDirNP (v : View) (self other dst : End) (d : Dir) (pr : Proto) (p : Int) : Bool :=
  match self with
  | .ip _ => true
  | .pod pod _ => !governs v pod d || npAllows v pod other dst d pr p

/-- `allowed` without the admin layers (structurally recursive, so `decide` evaluates it) -/
def allowedNP (v : View) (src dst : End) (pr : Proto) (p : Int) : Bool :=
  inPortRange p && allowedDirNP v src dst dst .egress pr p && allowedDirNP v dst src dst .ingress pr p

theorem allowedDir_eq_allowedDirNP {v : View} (h : NPOnly v) (self other dst : End) (d : Dir)
    (pr : Proto) (p : Int) :
    allowedDir v self other dst d pr p = allowedDirNP v self other dst d pr p := by
  cases self with
  | ip a => rfl
  | pod pod nsl =>
    simp only [allowedDir, allowedDirNP, anpVerdict, banpVerdict, firstMatch, h.1, h.2,
      List.mergeSort_nil, List.flatMap_nil, List.find?_nil, Option.map_none]
    cases governs v pod d <;> simp

theorem allowed_eq_allowedNP {v : View} (h : NPOnly v) (src dst : End) (pr : Proto) (p : Int) :
    allowed v src dst pr p = allowedNP v src dst pr p := by
  simp only [allowed, allowedNP, allowedDir_eq_allowedDirNP h]

theorem NPOnly.withNetpols {v : View} (h : NPOnly v) (l : List NetPol) :
    NPOnly { v with netpols := l } := h

/-! ### congruence: `allowed` sees the NetworkPolicies only through `governs` and `npAllows` -/

theorem allowedDir_congr {v v' : View} (ha : v'.anps = v.anps) (hb : v'.banp = v.banp)
    {self other dst : End} {d : Dir} {pr : Proto} {p : Int}
    (hg : ∀ pod nsl, self = .pod pod nsl → governs v' pod d = governs v pod d)
    (hn : ∀ pod nsl, self = .pod pod nsl →
      npAllows v' pod other dst d pr p = npAllows v pod other dst d pr p) :
    allowedDir v' self other dst d pr p = allowedDir v self other dst d pr p := by
  cases self with
  | ip a => rfl
  | pod pod nsl =>
    simp only [allowedDir, anpVerdict, banpVerdict, ha, hb, hg pod nsl rfl, hn pod nsl rfl]

theorem allowed_congr {v v' : View} (ha : v'.anps = v.anps) (hb : v'.banp = v.banp)
    (hg : ∀ pod d, governs v' pod d = governs v pod d)
    (hn : ∀ pod other dst d pr p,
      npAllows v' pod other dst d pr p = npAllows v pod other dst d pr p) :
    allowed v' = allowed v := by
  funext src dst pr p
  simp only [allowed]
  rw [allowedDir_congr ha hb (fun pod _ _ => hg pod _) (fun pod _ _ => hn pod _ _ _ _ _),
    allowedDir_congr ha hb (fun pod _ _ => hg pod _) (fun pod _ _ => hn pod _ _ _ _ _)]

/-- replacing a segment of the policy list by a segment with the same selections and the same
contributions leaves `allowed` unchanged (any view, admin policies included) -/
theorem allowed_replace_segment (v : View) {pre mid mid' post : List NetPol}
    (hv : v.netpols = pre ++ mid ++ post)
    (hs : ∀ pod d, mid'.any (npSelects · pod d) = mid.any (npSelects · pod d))
    (hc : ∀ pod other dst d pr p,
      mid'.any (npContrib · pod other dst d pr p) = mid.any (npContrib · pod other dst d pr p)) :
    allowed { v with netpols := pre ++ mid' ++ post } = allowed v := by
  refine allowed_congr (v := v) (v' := { v with netpols := pre ++ mid' ++ post }) rfl rfl ?_ ?_
  · intro pod d
    simp only [governs_eq_any, hv, List.any_append, hs]
  · intro pod other dst d pr p
    simp only [npAllows_eq_any, hv, List.any_append, hc]

/-- replacing one policy by one with the same selections and contributions -/
theorem allowed_replace_np (v : View) {pre post : List NetPol} {np np' : NetPol}
    (hv : v.netpols = pre ++ np :: post)
    (hs : ∀ pod d, npSelects np' pod d = npSelects np pod d)
    (hc : ∀ pod other dst d pr p,
      npContrib np' pod other dst d pr p = npContrib np pod other dst d pr p) :
    allowed { v with netpols := pre ++ np' :: post } = allowed v := by
  have := allowed_replace_segment v (pre := pre) (mid := [np]) (mid' := [np']) (post := post)
    (by simpa using hv) (by simpa using hs) (by simpa using hc)
  simpa using this

/-! ### a policy enters rule matching only through its namespace -/

theorem npPeerMatches_ns {np np' : NetPol} (h : np'.ns = np.ns) (rp : NPPeer) (other : End) :
    npPeerMatches np' rp other = npPeerMatches np rp other := by
  cases rp <;> cases other <;> simp only [npPeerMatches, h]

theorem npRuleAllows_ns {np np' : NetPol} (h : np'.ns = np.ns) (r : NPRule) (other dst : End)
    (pr : Proto) (p : Int) :
    npRuleAllows np' r other dst pr p = npRuleAllows np r other dst pr p := by
  simp only [npRuleAllows, npPeerMatches_ns h]

/-! ### `setRules` -/

theorem isEmpty_append' {α : Type} (l1 l2 : List α) :
    (l1 ++ l2).isEmpty = (l1.isEmpty && l2.isEmpty) := by
  cases l1 <;> simp

@[simp] theorem setRules_ns (np : NetPol) (d : Dir) (rs : List NPRule) :
    (np.setRules d rs).ns = np.ns := by cases d <;> rfl

@[simp] theorem setRules_podSel (np : NetPol) (d : Dir) (rs : List NPRule) :
    (np.setRules d rs).podSel = np.podSel := by cases d <;> rfl

@[simp] theorem setRules_types (np : NetPol) (d : Dir) (rs : List NPRule) :
    (np.setRules d rs).types = np.types := by cases d <;> rfl

@[simp] theorem npRules_setRules_same (np : NetPol) (d : Dir) (rs : List NPRule) :
    npRules (np.setRules d rs) d = rs := by cases d <;> rfl

theorem npRules_setRules_ne (np : NetPol) {d d' : Dir} (rs : List NPRule) (h : d' ≠ d) :
    npRules (np.setRules d rs) d' = npRules np d' := by
  cases d <;> cases d' <;> first | rfl | exact absurd rfl h

/-- replacing the ingress rules never changes the affected directions -/
theorem npAffects_setRules_ingress (np : NetPol) (rs : List NPRule) (d : Dir) :
    npAffects (np.setRules .ingress rs) d = npAffects np d := rfl

/-- replacing the egress rules keeps the affected directions when `policyTypes` is explicit or
emptiness of the egress list is preserved -/
theorem npAffects_setRules_egress (np : NetPol) (rs : List NPRule)
    (h : np.types ≠ [] ∨ rs.isEmpty = np.egress.isEmpty) (d : Dir) :
    npAffects (np.setRules .egress rs) d = npAffects np d := by
  rcases h with h | h
  · have : np.types.isEmpty = false := by cases ht : np.types <;> simp_all
    simp [npAffects, NetPol.setRules, this]
  · simp only [npAffects, NetPol.setRules, h]

theorem npAffects_setRules (np : NetPol) (dr : Dir) (rs : List NPRule)
    (h : rs.isEmpty = (npRules np dr).isEmpty) (d : Dir) :
    npAffects (np.setRules dr rs) d = npAffects np d := by
  cases dr with
  | ingress => rfl
  | egress => exact npAffects_setRules_egress np rs (Or.inr h) d

/-! ### replacing a policy by a variant with equivalent selector and rules -/

theorem npSelects_congr {np np' : NetPol} (hns : np'.ns = np.ns)
    (hsel : ∀ l, np'.podSel.matches l = np.podSel.matches l)
    (haff : ∀ d, npAffects np' d = npAffects np d) (pod : Pod) (d : Dir) :
    npSelects np' pod d = npSelects np pod d := by
  simp only [npSelects, hns, hsel, haff]

theorem npContrib_congr {np np' : NetPol} (hns : np'.ns = np.ns)
    (hsel : ∀ l, np'.podSel.matches l = np.podSel.matches l)
    (haff : ∀ d, npAffects np' d = npAffects np d)
    (hr : ∀ d other dst pr p, (npRules np' d).any (npRuleAllows np · other dst pr p) =
      (npRules np d).any (npRuleAllows np · other dst pr p))
    (pod : Pod) (other dst : End) (d : Dir) (pr : Proto) (p : Int) :
    npContrib np' pod other dst d pr p = npContrib np pod other dst d pr p := by
  simp only [npContrib, npSelects_congr hns hsel haff, npRuleAllows_ns hns, hr]

/-- replacing a policy by a variant (same namespace, equivalent pod selector, same affected
directions, pointwise-equivalent rule lists) leaves `allowed` unchanged, in any view -/
theorem allowed_replace_np_of_rules (v : View) {pre post : List NetPol} {np np' : NetPol}
    (hv : v.netpols = pre ++ np :: post) (hns : np'.ns = np.ns)
    (hsel : ∀ l, np'.podSel.matches l = np.podSel.matches l)
    (haff : ∀ d, npAffects np' d = npAffects np d)
    (hr : ∀ d other dst pr p, (npRules np' d).any (npRuleAllows np · other dst pr p) =
      (npRules np d).any (npRuleAllows np · other dst pr p)) :
    allowed { v with netpols := pre ++ np' :: post } = allowed v :=
  allowed_replace_np v hv (npSelects_congr hns hsel haff) (npContrib_congr hns hsel haff hr)

/-- replacing one rule of a policy by a pointwise-equivalent rule -/
theorem allowed_replace_rule (v : View) {pre post : List NetPol} {np : NetPol}
    (hv : v.netpols = pre ++ np :: post) {dr : Dir} {rs1 rs2 : List NPRule} {r r' : NPRule}
    (hrs : npRules np dr = rs1 ++ r :: rs2)
    (heq : ∀ other dst pr p, npRuleAllows np r' other dst pr p = npRuleAllows np r other dst pr p) :
    allowed { v with netpols := pre ++ np.setRules dr (rs1 ++ r' :: rs2) :: post } = allowed v := by
  refine allowed_replace_np_of_rules v hv (by simp) (by simp) ?_ ?_
  · exact npAffects_setRules np dr _ (by simp [hrs, isEmpty_append'])
  · intro d other dst pr p
    by_cases hd : d = dr
    · subst hd
      simp only [npRules_setRules_same, hrs, List.any_append, List.any_cons, heq]
    · rw [npRules_setRules_ne np _ hd]

/-! ### replacing peers / ports inside a rule -/

theorem npRuleAllows_replace_peers (np : NetPol) {ps1 mid mid' ps2 : List NPPeer}
    {ports : List NPPort} {other : End} (hne : mid'.isEmpty = mid.isEmpty)
    (h : mid'.any (npPeerMatches np · other) = mid.any (npPeerMatches np · other))
    (dst : End) (pr : Proto) (p : Int) :
    npRuleAllows np ⟨ps1 ++ mid' ++ ps2, ports⟩ other dst pr p =
      npRuleAllows np ⟨ps1 ++ mid ++ ps2, ports⟩ other dst pr p := by
  simp only [npRuleAllows, isEmpty_append', List.any_append, hne, h]

theorem npRuleAllows_replace_ports (np : NetPol) {peers : List NPPeer}
    {qs1 mid mid' qs2 : List NPPort} {dst : End} {pr : Proto} {p : Int}
    (hne : mid'.isEmpty = mid.isEmpty)
    (h : mid'.any (npPortMatches · dst pr p) = mid.any (npPortMatches · dst pr p))
    (other : End) :
    npRuleAllows np ⟨peers, qs1 ++ mid' ++ qs2⟩ other dst pr p =
      npRuleAllows np ⟨peers, qs1 ++ mid ++ qs2⟩ other dst pr p := by
  simp only [npRuleAllows, isEmpty_append', List.any_append, hne, h]

/-! ### monotonicity in views without admin policies -/

theorem allowedDirNP_mono {v v' : View} {self other dst : End} {d : Dir} {pr : Proto} {p : Int}
    (hg : ∀ pod nsl, self = .pod pod nsl → governs v' pod d = true → governs v pod d = true)
    (hn : ∀ pod nsl, self = .pod pod nsl →
      npAllows v pod other dst d pr p = true → npAllows v' pod other dst d pr p = true) :
    allowedDirNP v self other dst d pr p = true → allowedDirNP v' self other dst d pr p = true := by
  cases self with
  | ip a => intro _; rfl
  | pod pod nsl =>
    have hg := hg pod nsl rfl
    have hn := hn pod nsl rfl
    simp only [allowedDirNP]
    revert hg hn
    cases governs v pod d <;> cases governs v' pod d <;> cases npAllows v pod other dst d pr p <;>
      cases npAllows v' pod other dst d pr p <;> simp

theorem allowed_mono_of_dir {v v' : View} {src dst : End} {pr : Proto} {p : Int}
    (hv : NPOnly v) (hv' : NPOnly v')
    (he : allowedDirNP v src dst dst .egress pr p = true →
      allowedDirNP v' src dst dst .egress pr p = true)
    (hi : allowedDirNP v dst src dst .ingress pr p = true →
      allowedDirNP v' dst src dst .ingress pr p = true) :
    allowed v src dst pr p = true → allowed v' src dst pr p = true := by
  rw [allowed_eq_allowedNP hv, allowed_eq_allowedNP hv']
  simp only [allowedNP, Bool.and_eq_true]
  exact fun ⟨⟨h1, h2⟩, h3⟩ => ⟨⟨h1, he h2⟩, hi h3⟩

/-- in an NP-only view, replacing a policy by one with the same selections and a larger
contribution can only allow more -/
theorem allowed_replace_np_mono {v : View} (hv : NPOnly v) {pre post : List NetPol}
    {np np' : NetPol} (hnp : v.netpols = pre ++ np :: post)
    (hs : ∀ pod d, npSelects np' pod d = npSelects np pod d)
    (hc : ∀ pod other dst d pr p, npContrib np pod other dst d pr p = true →
      npContrib np' pod other dst d pr p = true)
    (src dst : End) (pr : Proto) (p : Int) :
    allowed v src dst pr p = true →
      allowed { v with netpols := pre ++ np' :: post } src dst pr p = true := by
  have hg : ∀ pod d, governs { v with netpols := pre ++ np' :: post } pod d = true →
      governs v pod d = true := by
    intro pod d
    simp only [governs_eq_any, hnp, List.any_append, List.any_cons, hs]
    exact id
  have hn : ∀ pod other dst d pr p, npAllows v pod other dst d pr p = true →
      npAllows { v with netpols := pre ++ np' :: post } pod other dst d pr p = true := by
    intro pod other dst d pr p
    simp only [npAllows_eq_any, hnp, List.any_append, List.any_cons, Bool.or_eq_true]
    rintro (h | h | h)
    · exact Or.inl h
    · exact Or.inr (Or.inl (hc _ _ _ _ _ _ h))
    · exact Or.inr (Or.inr h)
  exact allowed_mono_of_dir hv (hv.withNetpols _)
    (allowedDirNP_mono (fun pod _ _ => hg pod _) (fun pod _ _ => hn pod _ _ _ _ _))
    (allowedDirNP_mono (fun pod _ _ => hg pod _) (fun pod _ _ => hn pod _ _ _ _ _))

/-- a policy variant with more rules contributes more -/
theorem npContrib_mono_of_subset {np np' : NetPol} (hns : np'.ns = np.ns)
    (hsel : ∀ l, np'.podSel.matches l = np.podSel.matches l)
    (haff : ∀ d, npAffects np' d = npAffects np d)
    (hsub : ∀ d, ∀ r ∈ npRules np d, r ∈ npRules np' d)
    (pod : Pod) (other dst : End) (d : Dir) (pr : Proto) (p : Int) :
    npContrib np pod other dst d pr p = true → npContrib np' pod other dst d pr p = true := by
  simp only [npContrib, npSelects_congr hns hsel haff, npRuleAllows_ns hns, Bool.and_eq_true,
    List.any_eq_true]
  rintro ⟨h1, r, hr, h2⟩
  exact ⟨h1, r, hsub d r hr, h2⟩

/-! ### inserting a policy -/

theorem governs_insert {v : View} {pre post : List NetPol} (hnp : v.netpols = pre ++ post)
    (q : NetPol) (pod : Pod) (d : Dir) :
    governs { v with netpols := pre ++ q :: post } pod d = (governs v pod d || npSelects q pod d) := by
  simp only [governs_eq_any, hnp, List.any_append, List.any_cons]
  cases pre.any (npSelects · pod d) <;> cases post.any (npSelects · pod d) <;>
    cases npSelects q pod d <;> rfl

theorem npAllows_insert {v : View} {pre post : List NetPol} (hnp : v.netpols = pre ++ post)
    (q : NetPol) (pod : Pod) (other dst : End) (d : Dir) (pr : Proto) (p : Int) :
    npAllows { v with netpols := pre ++ q :: post } pod other dst d pr p =
      (npAllows v pod other dst d pr p || npContrib q pod other dst d pr p) := by
  simp only [npAllows_eq_any, hnp, List.any_append, List.any_cons]
  cases pre.any (npContrib · pod other dst d pr p) <;>
    cases post.any (npContrib · pod other dst d pr p) <;>
    cases npContrib q pod other dst d pr p <;> rfl

theorem npContrib_of_not_selects {q : NetPol} {pod : Pod} {d : Dir}
    (h : npSelects q pod d = false) (other dst : End) (pr : Proto) (p : Int) :
    npContrib q pod other dst d pr p = false := by
  simp [npContrib, h]

/-! ### equivalent spellings: selectors -/

/-- a `matchLabels` pair is the requirement `key In [value]` -/
theorem labelEq_eq_In (k val : String) (l : Labels) :
    (l.get? k == some val) = Req.matches ⟨k, .In, [val]⟩ l := by
  cases h : l.get? k with
  | none => simp [Req.matches, h]
  | some w => by_cases hw : w = val <;> simp [Req.matches, h, hw]

theorem matchLabels_eq_In_mid (ml1 ml2 : Labels) (ex1 ex2 : List Req) (k val : String)
    (l : Labels) :
    Selector.matches ⟨ml1 ++ (k, val) :: ml2, ex1 ++ ex2⟩ l =
      Selector.matches ⟨ml1 ++ ml2, ex1 ++ ⟨k, .In, [val]⟩ :: ex2⟩ l := by
  simp only [Selector.matches, List.all_append, List.all_cons, ← labelEq_eq_In]
  cases ml1.all (fun kv => l.get? kv.1 == some kv.2) <;>
    cases ml2.all (fun kv => l.get? kv.1 == some kv.2) <;>
    cases ex1.all (·.matches l) <;> cases ex2.all (·.matches l) <;>
    cases (l.get? k == some val) <;> rfl

theorem npPeerMatches_podSel_congr (np : NetPol) {s s' : Selector} (nsSel : Option Selector)
    (h : ∀ l, s'.matches l = s.matches l) (other : End) :
    npPeerMatches np (.sel (some s') nsSel) other = npPeerMatches np (.sel (some s) nsSel) other := by
  cases other <;> simp only [npPeerMatches, h]

theorem npPeerMatches_nsSel_congr (np : NetPol) {s s' : Selector} (podSel : Option Selector)
    (h : ∀ l, s'.matches l = s.matches l) (other : End) :
    npPeerMatches np (.sel podSel (some s')) other = npPeerMatches np (.sel podSel (some s)) other := by
  cases other <;> simp only [npPeerMatches, h]

/-- replacing a segment of the peers of one rule by a segment matching the same ends -/
theorem allowed_replace_peers (v : View) {pre post : List NetPol} {np : NetPol}
    (hv : v.netpols = pre ++ np :: post) {dr : Dir} {rs1 rs2 : List NPRule}
    {ps1 mid mid' ps2 : List NPPeer} {ports : List NPPort}
    (hrs : npRules np dr = rs1 ++ ⟨ps1 ++ mid ++ ps2, ports⟩ :: rs2)
    (hne : mid'.isEmpty = mid.isEmpty)
    (h : ∀ other, mid'.any (npPeerMatches np · other) = mid.any (npPeerMatches np · other)) :
    allowed { v with netpols :=
      pre ++ np.setRules dr (rs1 ++ ⟨ps1 ++ mid' ++ ps2, ports⟩ :: rs2) :: post } = allowed v :=
  allowed_replace_rule v hv hrs
    (fun other dst pr p => npRuleAllows_replace_peers np hne (h other) dst pr p)

/-- replacing a segment of the ports of one rule by a segment matching the same points -/
theorem allowed_replace_ports (v : View) {pre post : List NetPol} {np : NetPol}
    (hv : v.netpols = pre ++ np :: post) {dr : Dir} {rs1 rs2 : List NPRule}
    {peers : List NPPeer} {qs1 mid mid' qs2 : List NPPort}
    (hrs : npRules np dr = rs1 ++ ⟨peers, qs1 ++ mid ++ qs2⟩ :: rs2)
    (hne : mid'.isEmpty = mid.isEmpty)
    (h : ∀ dst pr p, mid'.any (npPortMatches · dst pr p) = mid.any (npPortMatches · dst pr p)) :
    allowed { v with netpols :=
      pre ++ np.setRules dr (rs1 ++ ⟨peers, qs1 ++ mid' ++ qs2⟩ :: rs2) :: post } = allowed v :=
  allowed_replace_rule v hv hrs
    (fun other dst pr p => npRuleAllows_replace_ports np hne (h dst pr p) other)

/-! ### equivalent spellings: port ranges -/

theorem npPortMatches_range_split (pr' : Option Proto) (a m b : Int) (hm : a ≤ m ∧ m < b)
    (dst : End) (pr : Proto) (p : Int) :
    npPortMatches ⟨pr', .num a (some b)⟩ dst pr p =
      (npPortMatches ⟨pr', .num a (some m)⟩ dst pr p ||
        npPortMatches ⟨pr', .num (m + 1) (some b)⟩ dst pr p) := by
  simp only [npPortMatches, Option.getD_some]
  cases (pr'.getD .TCP == pr)
  · rfl
  · simp only [Bool.true_and]
    rw [Bool.eq_iff_iff]
    simp only [decide_eq_true_eq, Bool.or_eq_true]
    omega

/-! ### equivalent spellings: CIDR halves -/

/-- the two halves tile the block: interval arithmetic of `Cidr.toIv` -/
theorem toIv_halves (c : Cidr) (h : c.pfx < 32) :
    c.halves.1.toIv.lo = c.toIv.lo ∧ c.halves.1.toIv.hi + 1 = c.halves.2.toIv.lo ∧
      c.halves.2.toIv.hi = c.toIv.hi ∧ c.halves.1.toIv.lo ≤ c.halves.1.toIv.hi ∧
      c.halves.2.toIv.lo ≤ c.halves.2.toIv.hi := by
  have h32 : 32 - (c.pfx + 1) = 31 - c.pfx := by omega
  have hS : 2 ^ (32 - c.pfx) = 2 ^ (31 - c.pfx) * 2 := by
    have : 32 - c.pfx = (31 - c.pfx) + 1 := by omega
    rw [this, Nat.pow_succ]
  have hH : 0 < 2 ^ (31 - c.pfx) := Nat.two_pow_pos _
  simp only [Cidr.halves, Cidr.toIv, h32, hS]
  generalize 2 ^ (31 - c.pfx) = H at hH
  generalize c.addr / (H * 2) = k
  have e0 : k * (H * 2) = (k * 2) * H := by
    rw [Nat.mul_comm H 2, Nat.mul_assoc]
  have e1 : k * (H * 2) / H * H = k * (H * 2) := by
    rw [e0, Nat.mul_div_cancel _ hH]
  have e2 : (k * (H * 2) + H) / H * H = k * (H * 2) + H := by
    rw [Nat.add_div_right _ hH, e0, Nat.mul_div_cancel _ hH, Nat.succ_mul]
  rw [e1, e2]
  generalize k * (H * 2) = L
  refine ⟨rfl, ?_, ?_, ?_, ?_⟩ <;> omega

theorem cidrMem_halves (c : Cidr) (h : c.pfx < 32) (a : Int) :
    cidrMem c a = (cidrMem c.halves.1 a || cidrMem c.halves.2 a) := by
  obtain ⟨h1, h2, h3, h4, h5⟩ := toIv_halves c h
  simp only [cidrMem]
  rw [Bool.eq_iff_iff]
  simp only [decide_eq_true_eq, Bool.or_eq_true]
  omega
theorem npPeerMatches_cidr_halves (np : NetPol) (c : Cidr) (h : c.pfx < 32) (ex : List Cidr)
    (other : End) :
    [NPPeer.ip c.halves.1 ex, NPPeer.ip c.halves.2 ex].any (npPeerMatches np · other) =
      [NPPeer.ip c ex].any (npPeerMatches np · other) := by
  cases other with
  | pod q nsl => simp [npPeerMatches]
  | ip a =>
    simp only [List.any_cons, List.any_nil, Bool.or_false, npPeerMatches, cidrMem_halves c h a]
    cases cidrMem c.halves.1 a <;> cases cidrMem c.halves.2 a <;>
      cases ex.all (fun e => !cidrMem e a) <;> rfl

/-! ### splitting a policy in two -/

theorem policy_split_aux (A S f f1 f2 x x1 x2 : Bool) (F1 : f = (f1 || f2)) (F2 : x = (x1 || x2))
    (F3 : (f1 = f ∧ f2 = f) ∨ ((x1 = true → f1 = true) ∧ (x2 = true → f2 = true))) :
    ((A && f1 && S && x1) || (A && f2 && S && x2)) = (A && f && S && x) := by
  subst F1 F2
  revert F3
  cases A <;> cases S <;> cases f1 <;> cases f2 <;> cases x1 <;> cases x2 <;> simp

theorem npAffects_of_rules_ne_nil {np : NetPol} (ht : np.types = []) {d : Dir}
    (h : npRules np d ≠ []) : npAffects np d = true := by
  cases d with
  | ingress => simp [npAffects, ht]
  | egress =>
    have : np.egress.isEmpty = false := by
      cases he : np.egress with
      | nil => exact absurd he h
      | cons a l => rfl
    simp [npAffects, ht, this]

theorem npAffects_explicit {np : NetPol} (ht : np.types ≠ []) (d : Dir) :
    npAffects np d = np.types.contains d := by
  have : np.types.isEmpty = false := by cases h : np.types <;> simp_all
  simp [npAffects, this]

/-- the affected directions of a policy and of the two parts it is split into -/
theorem npAffects_split {np np1 np2 : NetPol} (hty1 : np1.types = np.types)
    (hty2 : np2.types = np.types) (hr : ∀ d, (npRules np d).Perm (npRules np1 d ++ npRules np2 d))
    (d : Dir) : npAffects np d = (npAffects np1 d || npAffects np2 d) := by
  by_cases ht : np.types = []
  · have e : np.egress.isEmpty = (np1.egress.isEmpty && np2.egress.isEmpty) := by
      have := (hr .egress).isEmpty_eq
      rw [isEmpty_append'] at this
      exact this
    simp only [npAffects, hty1, hty2, ht, List.isEmpty_nil, if_true, e]
    cases d <;> cases np1.egress.isEmpty <;> cases np2.egress.isEmpty <;> rfl
  · rw [npAffects_explicit ht, npAffects_explicit (hty1 ▸ ht), npAffects_explicit (hty2 ▸ ht),
      hty1, hty2, Bool.or_self]

theorem policy_split_segment {np np1 np2 : NetPol} (hns1 : np1.ns = np.ns) (hns2 : np2.ns = np.ns)
    (hsel1 : np1.podSel = np.podSel) (hsel2 : np2.podSel = np.podSel)
    (hty1 : np1.types = np.types) (hty2 : np2.types = np.types)
    (hr : ∀ d, (npRules np d).Perm (npRules np1 d ++ npRules np2 d)) :
    (∀ pod d, [np1, np2].any (npSelects · pod d) = [np].any (npSelects · pod d)) ∧
    (∀ pod other dst d pr p, [np1, np2].any (npContrib · pod other dst d pr p) =
      [np].any (npContrib · pod other dst d pr p)) := by
  have key : ∀ (pod : Pod) (other dst : End) (d : Dir) (pr : Proto) (p : Int),
      ((np.ns == pod.ns && npAffects np1 d && np.podSel.matches pod.labels &&
          (npRules np1 d).any (npRuleAllows np · other dst pr p)) ||
        (np.ns == pod.ns && npAffects np2 d && np.podSel.matches pod.labels &&
          (npRules np2 d).any (npRuleAllows np · other dst pr p))) =
      (np.ns == pod.ns && npAffects np d && np.podSel.matches pod.labels &&
        (npRules np d).any (npRuleAllows np · other dst pr p)) := by
    intro pod other dst d pr p
    apply policy_split_aux
    · exact npAffects_split hty1 hty2 hr d
    · rw [(hr d).any_eq, List.any_append]
    · by_cases ht : np.types = []
      · right
        constructor
        · intro hx
          apply npAffects_of_rules_ne_nil (hty1 ▸ ht)
          intro hnil; rw [hnil] at hx; simp at hx
        · intro hx
          apply npAffects_of_rules_ne_nil (hty2 ▸ ht)
          intro hnil; rw [hnil] at hx; simp at hx
      · left
        rw [npAffects_explicit ht, npAffects_explicit (hty1 ▸ ht),
          npAffects_explicit (hty2 ▸ ht), hty1, hty2]
        exact ⟨rfl, rfl⟩
  constructor
  · intro pod d
    simp only [List.any_cons, List.any_nil, Bool.or_false, npSelects, hns1, hns2, hsel1, hsel2]
    have F1 := npAffects_split hty1 hty2 hr d
    rw [F1]
    cases (np.ns == pod.ns) <;> cases np.podSel.matches pod.labels <;>
      cases npAffects np1 d <;> cases npAffects np2 d <;> rfl
  · intro pod other dst d pr p
    simp only [List.any_cons, List.any_nil, Bool.or_false, npContrib, npSelects, hns1, hns2, hsel1,
      hsel2, npRuleAllows_ns hns1, npRuleAllows_ns hns2]
    exact key pod other dst d pr p

/-! ### explicit `policyTypes` equal to the default -/

theorem npAffects_explicit_default (np : NetPol) (h : np.types = []) (d : Dir) :
    npAffects { np with types := [.ingress] ++ (if np.egress.isEmpty then [] else [.egress]) } d =
      npAffects np d := by
  simp only [npAffects, h, List.isEmpty_nil, if_true]
  cases np.egress.isEmpty <;> cases d <;> decide

/-! ### order independence -/

theorem npRuleAllows_perm (np : NetPol) {r r' : NPRule} (hp : r.peers.Perm r'.peers)
    (hq : r.ports.Perm r'.ports) (other dst : End) (pr : Proto) (p : Int) :
    npRuleAllows np r' other dst pr p = npRuleAllows np r other dst pr p := by
  simp only [npRuleAllows, hp.isEmpty_eq, hq.isEmpty_eq, hp.any_eq, hq.any_eq]

/-- with pairwise distinct priorities, sorting by priority forgets the input order -/
theorem mergeSort_prio_perm {l l' : List ANP} (hp : l.Perm l')
    (hd : ∀ a ∈ l, ∀ b ∈ l, a.prio = b.prio → a = b) :
    l'.mergeSort (fun a b => a.prio ≤ b.prio) = l.mergeSort (fun a b => a.prio ≤ b.prio) := by
  have tr : ∀ a b c : ANP, decide (a.prio ≤ b.prio) = true → decide (b.prio ≤ c.prio) = true →
      decide (a.prio ≤ c.prio) = true := by
    intro a b c h1 h2
    simp only [decide_eq_true_eq] at *
    omega
  have tot : ∀ a b : ANP, (decide (a.prio ≤ b.prio) || decide (b.prio ≤ a.prio)) = true := by
    intro a b
    simp only [Bool.or_eq_true, decide_eq_true_eq]
    omega
  refine List.Perm.eq_of_pairwise (le := fun a b => decide (a.prio ≤ b.prio) = true) ?_
    (List.pairwise_mergeSort tr tot l') (List.pairwise_mergeSort tr tot l)
    ((List.mergeSort_perm l' _).trans (hp.symm.trans (List.mergeSort_perm l _).symm))
  intro a b ha hb h1 h2
  simp only [decide_eq_true_eq] at h1 h2
  rw [List.mem_mergeSort] at ha hb
  exact hd a (hp.mem_iff.mpr ha) b hb (by omega)

theorem prio_injOn_of_pairwise {l : List ANP} (h : l.Pairwise (fun a b => a.prio ≠ b.prio)) :
    ∀ a ∈ l, ∀ b ∈ l, a.prio = b.prio → a = b := by
  induction l with
  | nil => intro a ha; cases ha
  | cons x xs ih =>
    rw [List.pairwise_cons] at h
    intro a ha b hb hab
    rcases List.mem_cons.mp ha with ea | ma <;> rcases List.mem_cons.mp hb with eb | mb
    · rw [ea, eb]
    · subst ea; exact absurd hab (h.1 b mb)
    · subst eb; exact absurd hab.symm (h.1 a ma)
    · exact ih h.2 a ma b mb hab

end Spec
end Netpol
