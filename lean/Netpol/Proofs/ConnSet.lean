import Netpol.Model.ConnSet
import Netpol.Proofs.Interval

/-! Proofs about the connection-set layer (`Netpol.Model.PortSet`, `Netpol.Model.ConnSet`):
well-formedness, a numeric denotation, and the characterisation of every operation and predicate
against that denotation. Core Lean only. The property statements are in
`Netpol.Properties.C11`; this file holds the definitions and the helper lemmas. -/
namespace Netpol

/-- a legal port number -/
def inRange (p : Int) : Prop := 1 ≤ p ∧ p ≤ 65535

instance (p : Int) : Decidable (inRange p) := by unfold inRange; infer_instance

/-! ### sorted string sets -/

theorem sinsert_ne_nil (s : String) (l : List String) : sinsert s l ≠ [] := by
  cases l with
  | nil => simp [sinsert]
  | cons x xs =>
    unfold sinsert
    split
    · simp
    · split <;> simp

theorem foldl_sinsert_ne_nil (ks acc : List String) (h : acc ≠ [] ∨ ks ≠ []) :
    ks.foldl (fun acc k => sinsert k acc) acc ≠ [] := by
  induction ks generalizing acc with
  | nil =>
    rcases h with h | h
    · exact h
    · exact absurd rfl h
  | cons k ks ih =>
    rw [List.foldl_cons]
    exact ih _ (Or.inl (sinsert_ne_nil k acc))

theorem mem_serase (n s : String) (l : List String) : n ∈ serase s l ↔ n ∈ l ∧ n ≠ s := by
  simp [serase]

theorem mem_foldl_serase (n : String) (ks acc : List String) :
    n ∈ ks.foldl (fun acc k => serase k acc) acc ↔ n ∈ acc ∧ n ∉ ks := by
  induction ks generalizing acc with
  | nil => simp
  | cons k ks ih =>
    rw [List.foldl_cons, ih, mem_serase]
    simp only [List.mem_cons, not_or]
    constructor
    · rintro ⟨⟨h1, h2⟩, h3⟩; exact ⟨h1, h2, h3⟩
    · rintro ⟨h1, h2, h3⟩; exact ⟨⟨h1, h2⟩, h3⟩

/-! ### interval lists inside the port range -/

namespace CSet

theorem exists_memL_of_ne_nil {l : CSet} (hl : Canon l) (h : l ≠ []) : ∃ x, memL l x := by
  cases l with
  | nil => exact absurd rfl h
  | cons i rest =>
    have hc := (canon_cons i rest).mp hl
    exact ⟨i.lo, (memL_cons i rest i.lo).mpr (Or.inl ⟨Int.le_refl _, hc.2.1⟩)⟩

theorem ne_nil_of_memL {l : CSet} {x : Int} (h : memL l x) : l ≠ [] := by
  intro e; subst e; exact memL_nil x h

/-- the interval bounds of a canonical list are inside the port range exactly when its members are -/
theorem range_iff_mem {l : CSet} (hl : Canon l) :
    (∀ i ∈ l, 1 ≤ i.lo ∧ i.hi ≤ 65535) ↔ ∀ x, memL l x → inRange x := by
  constructor
  · rintro h x ⟨i, hi, hx⟩
    have := h i hi
    have h1 := hx.1
    have h2 := hx.2
    exact ⟨by omega, by omega⟩
  · intro h i hi
    have hne := hl.2 i hi
    have h1 := h i.lo ⟨i, hi, Int.le_refl _, hne⟩
    have h2 := h i.hi ⟨i, hi, hne, Int.le_refl _⟩
    exact ⟨h1.1, h2.2⟩

theorem memL_full (x : Int) : memL [⟨1, 65535⟩] x ↔ inRange x := by
  simp only [memL_cons, memL_nil, or_false, Iv.mem, inRange]

theorem canon_full : Canon [⟨1, 65535⟩] := canon_singleton _ (by decide)

theorem eq_full_of_mem {l : CSet} (hl : Canon l) (h : ∀ x, memL l x ↔ inRange x) :
    l = [⟨1, 65535⟩] :=
  eq_of_same_mem l _ hl canon_full (fun x => (h x).trans (memL_full x).symm)

end CSet

/-! ### port sets -/

/-- port set well-formed: canonical interval list inside 1..65535 -/
def PortSet.WF (ps : PortSet) : Prop :=
  CSet.Canon ps.ports ∧ ∀ i ∈ ps.ports, 1 ≤ i.lo ∧ i.hi ≤ 65535

instance (ps : PortSet) : Decidable ps.WF := by unfold PortSet.WF; infer_instance

namespace PortSet
open CSet

theorem wf_iff (ps : PortSet) : ps.WF ↔ Canon ps.ports ∧ ∀ x, memL ps.ports x → inRange x := by
  unfold WF
  constructor
  · rintro ⟨h1, h2⟩; exact ⟨h1, (range_iff_mem h1).mp h2⟩
  · rintro ⟨h1, h2⟩; exact ⟨h1, (range_iff_mem h1).mpr h2⟩

theorem WF.canon {ps : PortSet} (h : ps.WF) : Canon ps.ports := h.1

theorem WF.range {ps : PortSet} (h : ps.WF) {x : Int} (hx : memL ps.ports x) : inRange x :=
  ((wf_iff ps).mp h).2 x hx

theorem wf_mk' (b : Bool) : (mk' b).WF := by
  cases b <;> decide

theorem wf_copy {p : PortSet} (hp : p.WF) : p.copy.WF := hp

theorem wf_union {p o : PortSet} (hp : p.WF) (ho : o.WF) : (p.union o).WF := by
  rw [wf_iff]
  refine ⟨canon_union _ _ hp.canon, ?_⟩
  intro x hx
  rcases (mem_union _ _ x).mp hx with h | h
  · exact hp.range h
  · exact ho.range h

theorem wf_inter {p : PortSet} (o : PortSet) (hp : p.WF) : (p.inter o).WF := by
  rw [wf_iff]
  refine ⟨canon_inter _ _, ?_⟩
  intro x hx
  exact hp.range ((mem_inter _ _ x).mp hx).1

theorem wf_subtract {p : PortSet} (o : PortSet) (hp : p.WF) : (p.subtract o).WF := by
  rw [wf_iff]
  refine ⟨canon_subtract _ _ hp.canon, ?_⟩
  intro x hx
  exact hp.range ((mem_subtract _ _ x).mp hx).1

theorem wf_addPortRange {p : PortSet} (hp : p.WF) {lo hi : Int} (h1 : 1 ≤ lo) (h2 : hi ≤ 65535) :
    (p.addPortRange lo hi).WF := by
  rw [wf_iff]
  refine ⟨canon_addIv _ _ hp.canon, ?_⟩
  intro x hx
  rcases (mem_addIv _ _ x).mp hx with h | h
  · rw [mem_new] at h
    exact ⟨by omega, by omega⟩
  · exact hp.range h

theorem wf_addPort_num {p : PortSet} (hp : p.WF) {n : Int} (hn : inRange n) :
    (p.addPort (.num n)).WF :=
  wf_addPortRange hp hn.1 hn.2

theorem wf_addPort_name {p : PortSet} (hp : p.WF) (s : String) : (p.addPort (.name s)).WF := hp

theorem mem_addPortRange (p : PortSet) (lo hi x : Int) :
    memL (p.addPortRange lo hi).ports x ↔ (lo ≤ x ∧ x ≤ hi) ∨ memL p.ports x := by
  show memL (addIv _ _) x ↔ _
  rw [mem_addIv, mem_new]

theorem isEmpty_eq_false_iff (ps : PortSet) :
    ps.isEmpty = false ↔ ps.ports ≠ [] ∨ ps.named ≠ [] := by
  unfold isEmpty
  cases ps.ports <;> cases ps.named <;> simp

theorem isEmpty_eq_true_iff (ps : PortSet) :
    ps.isEmpty = true ↔ ps.ports = [] ∧ ps.named = [] := by
  unfold isEmpty
  cases ps.ports <;> cases ps.named <;> simp

theorem union_isEmpty_left {p : PortSet} (o : PortSet) (hp : p.WF) (h : p.isEmpty = false) :
    (p.union o).isEmpty = false := by
  rw [isEmpty_eq_false_iff] at h ⊢
  rcases h with h | h
  · left
    obtain ⟨x, hx⟩ := exists_memL_of_ne_nil hp.canon h
    exact ne_nil_of_memL ((mem_union _ _ x).mpr (Or.inl hx))
  · right
    exact foldl_sinsert_ne_nil _ _ (Or.inl h)

theorem union_isEmpty_right (p : PortSet) {o : PortSet} (ho : o.WF) (h : o.isEmpty = false) :
    (p.union o).isEmpty = false := by
  rw [isEmpty_eq_false_iff] at h ⊢
  rcases h with h | h
  · left
    obtain ⟨x, hx⟩ := exists_memL_of_ne_nil ho.canon h
    exact ne_nil_of_memL ((mem_union _ _ x).mpr (Or.inr hx))
  · right
    exact foldl_sinsert_ne_nil _ _ (Or.inr h)

/-- an entry that survives `ConnectionSet.Subtract` is not the empty port set -/
theorem subtract_isEmpty_of_not_containedIn {p o : PortSet} (hp : p.WF) (ho : o.WF)
    (h : p.containedIn o = false) : (p.subtract o).isEmpty = false := by
  rw [isEmpty_eq_false_iff]
  unfold containedIn at h
  rw [Bool.and_eq_false_iff] at h
  rcases h with h | h
  · left
    have h' : ¬ (isSubset p.ports o.ports = true) := by simp [h]
    rw [isSubset_iff _ _ hp.canon ho.canon] at h'
    have : ∃ x, memL p.ports x ∧ ¬ memL o.ports x := by
      apply Classical.byContradiction
      intro hn
      apply h'
      intro x hx
      apply Classical.byContradiction
      intro hno
      exact hn ⟨x, hx, hno⟩
    obtain ⟨x, hx1, hx2⟩ := this
    exact ne_nil_of_memL ((mem_subtract _ _ x).mpr ⟨hx1, hx2⟩)
  · right
    rw [Bool.or_eq_false_iff] at h
    have h2 := h.2
    have : ∃ n, n ∈ p.named ∧ n ∉ o.named := by
      apply Classical.byContradiction
      intro hn
      have : (p.named.all fun n => o.named.contains n) = true := by
        rw [List.all_eq_true]
        intro n hn'
        rw [List.contains_iff_mem]
        apply Classical.byContradiction
        intro hno
        exact hn ⟨n, hn', hno⟩
      rw [this] at h2
      exact absurd h2 (by decide)
    obtain ⟨n, hn1, hn2⟩ := this
    intro he
    have : n ∈ (p.subtract o).named := (mem_foldl_serase n _ _).mpr ⟨hn1, hn2⟩
    rw [he] at this
    exact absurd this (List.not_mem_nil)

theorem equal_iff (p o : PortSet) : p.equal o = true ↔ p = o := by
  cases p; cases o
  simp [equal, CSet.equal, and_assoc]

/-- `IsAll`: full numeric range and no excluded named port; the named ports held do not matter -/
theorem isAll_iff (p : PortSet) : p.isAll = true ↔ p.ports = [⟨1, 65535⟩] ∧ p.excluded = [] := by
  unfold isAll CSet.equal
  rw [Bool.and_eq_true, decide_eq_true_eq, List.isEmpty_iff]
  exact Iff.rfl

theorem isAll_mk'_true : (mk' true).isAll = true := rfl

theorem mk'_true : mk' true = ⟨[⟨1, 65535⟩], [], []⟩ := rfl

theorem mk'_false : mk' false = ⟨[], [], []⟩ := rfl

/-- numeric part of `containedIn` -/
theorem containedIn_subset {p o : PortSet} (hp : p.WF) (ho : o.WF) (h : p.containedIn o = true) :
    ∀ x, memL p.ports x → memL o.ports x := by
  unfold containedIn at h
  rw [Bool.and_eq_true] at h
  exact (isSubset_iff _ _ hp.canon ho.canon).mp h.1

/-- without named ports `containedIn` is numeric inclusion -/
theorem containedIn_iff_of_no_names {p o : PortSet} (hp : p.WF) (ho : o.WF) (hn : p.named = []) :
    p.containedIn o = true ↔ ∀ x, memL p.ports x → memL o.ports x := by
  unfold containedIn
  rw [hn, Bool.and_eq_true, isSubset_iff _ _ hp.canon ho.canon]
  simp

end PortSet

/-! ### connection sets: access lemmas -/

namespace ConnSet
open CSet

theorem forall_proto (P : Proto → Prop) : (∀ pr, P pr) ↔ P .TCP ∧ P .UDP ∧ P .SCTP := by
  constructor
  · intro h; exact ⟨h _, h _, h _⟩
  · rintro ⟨h1, h2, h3⟩ pr; cases pr <;> assumption

@[simp] theorem get_set_same (c : ConnSet) (pr : Proto) (v : Option PortSet) :
    (c.set pr v).get pr = v := by
  cases pr <;> rfl

theorem get_set_other (c : ConnSet) {pr pr' : Proto} (h : pr' ≠ pr) (v : Option PortSet) :
    (c.set pr v).get pr' = c.get pr' := by
  cases pr <;> cases pr' <;> first | rfl | exact absurd rfl h

theorem get_set (c : ConnSet) (pr pr' : Proto) (v : Option PortSet) :
    (c.set pr v).get pr' = if pr' = pr then v else c.get pr' := by
  by_cases h : pr' = pr
  · subst h; simp
  · simp [h, get_set_other c h]

@[simp] theorem allowAll_set (c : ConnSet) (pr : Proto) (v : Option PortSet) :
    (c.set pr v).allowAll = c.allowAll := by
  cases pr <;> rfl

@[simp] theorem get_mapProtos (c : ConnSet) (f : Proto → Option PortSet → Option PortSet)
    (pr : Proto) : (c.mapProtos f).get pr = f pr (c.get pr) := by
  cases pr <;> rfl

@[simp] theorem allowAll_mapProtos (c : ConnSet) (f : Proto → Option PortSet → Option PortSet) :
    (c.mapProtos f).allowAll = c.allowAll := rfl

@[simp] theorem get_mk' (b : Bool) (pr : Proto) : (mk' b).get pr = none := by
  cases pr <;> rfl

@[simp] theorem allowAll_mk' (b : Bool) : (mk' b).allowAll = b := rfl

theorem ext_get {c d : ConnSet} (h1 : c.allowAll = d.allowAll) (h2 : ∀ pr, c.get pr = d.get pr) :
    c = d := by
  cases c; cases d
  have a := h2 .TCP
  have b := h2 .UDP
  have e := h2 .SCTP
  simp only [get] at a b e
  simp only at h1
  subst h1 a b e
  rfl

theorem noProtos_iff (c : ConnSet) : c.noProtos = true ↔ ∀ pr, c.get pr = none := by
  rw [forall_proto]
  simp only [noProtos, get, Bool.and_eq_true, Option.isNone_iff_eq_none, and_assoc]

theorem eq_mk'_of_noProtos {c : ConnSet} (h : c.noProtos = true) : c = mk' c.allowAll :=
  ext_get rfl (fun pr => by rw [(noProtos_iff c).mp h pr, get_mk'])

/-! ### denotation and well-formedness -/

/-- numeric denotation of a connection set -/
def den (c : ConnSet) (pr : Proto) (p : Int) : Prop :=
  (c.allowAll = true ∧ inRange p) ∨ (∃ ps, c.get pr = some ps ∧ CSet.memL ps.ports p)

/-- named ports held for a protocol -/
def names (c : ConnSet) (pr : Proto) : List String :=
  match c.get pr with
  | some ps => ps.named
  | none => []

/-- well-formed: the AllowAll form has no entries; entries are well-formed and not empty port
sets -/
def WF (c : ConnSet) : Prop :=
  (c.allowAll = true → c.noProtos = true) ∧
    ∀ pr ps, c.get pr = some ps → ps.WF ∧ ps.isEmpty = false

/-- canonical: well-formed, and the full set is held in the AllowAll form -/
def Canonical (c : ConnSet) : Prop := c.WF ∧ c.isAllWithoutAllowAll = false

/-- decidable form of the entry part of `den` -/
def denOpt (o : Option PortSet) (p : Int) : Prop :=
  match o with
  | some ps => CSet.memL ps.ports p
  | none => False

instance (o : Option PortSet) (p : Int) : Decidable (denOpt o p) := by
  cases o <;> (simp only [denOpt]; infer_instance)

/-- decidable form of the entry part of `WF` -/
def wfOpt (o : Option PortSet) : Prop :=
  match o with
  | some ps => ps.WF ∧ ps.isEmpty = false
  | none => True

instance (o : Option PortSet) : Decidable (wfOpt o) := by
  cases o <;> (simp only [wfOpt]; infer_instance)

theorem den_iff_match (c : ConnSet) (pr : Proto) (p : Int) :
    c.den pr p ↔ (c.allowAll = true ∧ inRange p) ∨ denOpt (c.get pr) p := by
  unfold den
  cases c.get pr <;> simp [denOpt]

instance (c : ConnSet) (pr : Proto) (p : Int) : Decidable (c.den pr p) :=
  decidable_of_iff _ (den_iff_match c pr p).symm

theorem wf_iff_match (c : ConnSet) :
    c.WF ↔ (c.allowAll = true → c.noProtos = true) ∧
      ∀ pr ∈ Proto.all, wfOpt (c.get pr) := by
  unfold WF
  refine and_congr_right (fun _ => ?_)
  constructor
  · intro h pr _
    cases hg : c.get pr with
    | none => trivial
    | some ps => exact h pr ps hg
  · intro h pr ps hg
    have := h pr (by cases pr <;> simp [Proto.all])
    rw [hg] at this
    exact this

instance (c : ConnSet) : Decidable c.WF :=
  decidable_of_iff _ (wf_iff_match c).symm

instance (c : ConnSet) : Decidable c.Canonical := by unfold Canonical; infer_instance

theorem den_of_not_allowAll {c : ConnSet} (h : c.allowAll = false) (pr : Proto) (p : Int) :
    c.den pr p ↔ ∃ ps, c.get pr = some ps ∧ memL ps.ports p := by
  simp [den, h]

theorem den_of_allowAll {c : ConnSet} (hw : c.WF) (h : c.allowAll = true) (pr : Proto) (p : Int) :
    c.den pr p ↔ inRange p := by
  have := (noProtos_iff c).mp (hw.1 h) pr
  simp [den, h, this]

theorem WF.den_inRange {c : ConnSet} (h : c.WF) {pr : Proto} {p : Int} (hd : c.den pr p) :
    inRange p := by
  rcases hd with hd | ⟨ps, hg, hm⟩
  · exact hd.2
  · exact (h.2 pr ps hg).1.range hm

theorem WF.entry {c : ConnSet} (h : c.WF) {pr : Proto} {ps : PortSet} (hg : c.get pr = some ps) :
    ps.WF := (h.2 pr ps hg).1

theorem not_den_of_isEmpty {c : ConnSet} (h : c.isEmpty = true) (pr : Proto) (p : Int) :
    ¬ c.den pr p := by
  unfold isEmpty at h
  rw [Bool.and_eq_true, Bool.not_eq_true'] at h
  rw [den_of_not_allowAll h.1, (noProtos_iff c).mp h.2 pr]
  simp

theorem den_mk_all (pr : Proto) (p : Int) : (mk' true).den pr p ↔ inRange p := by
  simp [den]

theorem den_mk_none (pr : Proto) (p : Int) : ¬ (mk' false).den pr p := by
  simp [den]

theorem wf_mk (b : Bool) : (mk' b).WF := by
  refine ⟨fun _ => rfl, ?_⟩
  intro pr ps h
  simp at h

theorem wf_of_entries {c : ConnSet} (ha : c.allowAll = false)
    (h : ∀ pr ps, c.get pr = some ps → ps.WF ∧ ps.isEmpty = false) : c.WF :=
  ⟨fun h' => by rw [ha] at h'; exact absurd h' (by decide), h⟩

/-! ### `checkIfAll` -/

/-- the three entries are present, each with the full numeric range and no excluded named port
(whatever named ports they hold) -/
theorem isAllWithoutAllowAll_iff (c : ConnSet) :
    c.isAllWithoutAllowAll = true ↔
      c.allowAll = false ∧
        ∀ pr, ∃ ps, c.get pr = some ps ∧ ps.ports = [⟨1, 65535⟩] ∧ ps.excluded = [] := by
  unfold isAllWithoutAllowAll
  split
  · rename_i h; simp [h]
  · rename_i h
    rw [forall_proto]
    simp only [Proto.all, List.all_cons, List.all_nil, Bool.and_true, Bool.and_eq_true]
    cases c.get .TCP <;> cases c.get .UDP <;> cases c.get .SCTP <;>
      simp [PortSet.isAll_iff, h]

theorem den_full_entries {c : ConnSet} (h : c.isAllWithoutAllowAll = true) (pr : Proto) (p : Int) :
    c.den pr p ↔ inRange p := by
  rw [isAllWithoutAllowAll_iff] at h
  obtain ⟨ps, hg, hp, _⟩ := h.2 pr
  rw [den_of_not_allowAll h.1, hg]
  simp [hp, memL_full]

theorem den_checkIfAll (c : ConnSet) (pr : Proto) (p : Int) :
    c.checkIfAll.den pr p ↔ c.den pr p := by
  unfold checkIfAll
  split
  · rename_i h
    rw [den_mk_all, den_full_entries h]
  · exact Iff.rfl

theorem wf_checkIfAll {c : ConnSet} (h : c.WF) : c.checkIfAll.WF := by
  unfold checkIfAll
  split
  · exact wf_mk true
  · exact h

theorem canonical_mk (b : Bool) : (mk' b).Canonical := by
  refine ⟨wf_mk b, ?_⟩
  cases b <;> rfl

theorem canonical_checkIfAll {c : ConnSet} (h : c.WF) : c.checkIfAll.Canonical := by
  unfold checkIfAll
  split
  · exact canonical_mk true
  · rename_i hn
    exact ⟨h, by simpa using hn⟩

/-! ### `addConnection` -/

theorem wf_addConnectionRaw {c : ConnSet} {ps : PortSet} (pr : Proto) (hc : c.WF) (hp : ps.WF)
    (ha : c.allowAll = true → ps.isEmpty = true) : (c.addConnectionRaw pr ps).WF := by
  unfold addConnectionRaw
  split
  · exact hc
  · rename_i hne
    have hne' : ps.isEmpty = false := by simpa using hne
    have hfa : c.allowAll = false := by
      cases h : c.allowAll
      · rfl
      · exact absurd (ha h) hne
    split
    · rename_i cur hcur
      apply wf_of_entries (by simpa using hfa)
      intro pr' ps' hg
      rw [get_set] at hg
      split at hg
      · cases hg
        exact ⟨PortSet.wf_union (hc.entry hcur) hp, PortSet.union_isEmpty_right _ hp hne'⟩
      · exact hc.2 pr' ps' hg
    · apply wf_of_entries (by simpa using hfa)
      intro pr' ps' hg
      rw [get_set] at hg
      split at hg
      · cases hg
        exact ⟨hp, hne'⟩
      · exact hc.2 pr' ps' hg

theorem den_addConnectionRaw (c : ConnSet) (pr : Proto) (ps : PortSet) (pr' : Proto) (p : Int) :
    (c.addConnectionRaw pr ps).den pr' p ↔ c.den pr' p ∨ (pr' = pr ∧ memL ps.ports p) := by
  unfold addConnectionRaw
  split
  · rename_i he
    have := ((PortSet.isEmpty_eq_true_iff ps).mp he).1
    rw [this]
    simp [memL_nil]
  · split
    · rename_i cur hcur
      unfold den
      rw [allowAll_set, get_set]
      by_cases h : pr' = pr
      · subst h
        simp only [if_true, true_and, hcur, Option.some.injEq, exists_eq_left']
        show _ ∨ memL (CSet.union _ _) p ↔ _
        rw [mem_union, or_assoc]
      · simp [h]
    · rename_i hcur
      unfold den
      rw [allowAll_set, get_set]
      by_cases h : pr' = pr
      · subst h
        simp [hcur, PortSet.copy]
      · simp [h]

/-- `AddConnection` is a no-op on the AllowAll form -/
theorem addConnection_of_allowAll {c : ConnSet} (h : c.allowAll = true) (pr : Proto)
    (ps : PortSet) : c.addConnection pr ps = c := by
  unfold addConnection
  rw [if_pos h]

theorem addConnection_of_not_allowAll {c : ConnSet} (h : c.allowAll = false) (pr : Proto)
    (ps : PortSet) : c.addConnection pr ps = (c.addConnectionRaw pr ps).checkIfAll := by
  unfold addConnection
  rw [if_neg (by rw [h]; decide)]

theorem addConnection_mk_all (pr : Proto) (ps : PortSet) :
    (mk' true).addConnection pr ps = mk' true := rfl

theorem wf_addConnection {c : ConnSet} {ps : PortSet} (pr : Proto) (hc : c.WF) (hp : ps.WF) :
    (c.addConnection pr ps).WF := by
  cases h : c.allowAll
  · rw [addConnection_of_not_allowAll h]
    exact wf_checkIfAll
      (wf_addConnectionRaw pr hc hp (fun h' => by rw [h] at h'; exact absurd h' (by decide)))
  · rw [addConnection_of_allowAll h]
    exact hc

theorem canonical_addConnection {c : ConnSet} {ps : PortSet} (pr : Proto) (hc : c.WF)
    (hp : ps.WF) : (c.addConnection pr ps).Canonical := by
  cases h : c.allowAll
  · rw [addConnection_of_not_allowAll h]
    exact canonical_checkIfAll
      (wf_addConnectionRaw pr hc hp (fun h' => by rw [h] at h'; exact absurd h' (by decide)))
  · rw [addConnection_of_allowAll h]
    exact ⟨hc, by simp [isAllWithoutAllowAll, h]⟩

/-- exact denotation, no hypothesis: on the AllowAll form nothing is added -/
theorem den_addConnection_exact (c : ConnSet) (pr : Proto) (ps : PortSet) (pr' : Proto) (p : Int) :
    (c.addConnection pr ps).den pr' p ↔
      c.den pr' p ∨ (c.allowAll = false ∧ pr' = pr ∧ memL ps.ports p) := by
  cases h : c.allowAll
  · rw [addConnection_of_not_allowAll h, den_checkIfAll, den_addConnectionRaw]
    simp
  · rw [addConnection_of_allowAll h]
    simp

/-- the ports added are inside the port range (`hp`): needed on the AllowAll form only, where the
receiver is returned unchanged and denotes the legal ports -/
theorem den_addConnection (c : ConnSet) (pr : Proto) {ps : PortSet} (hp : ps.WF) (pr' : Proto)
    (p : Int) :
    (c.addConnection pr ps).den pr' p ↔ c.den pr' p ∨ (pr' = pr ∧ memL ps.ports p) := by
  rw [den_addConnection_exact]
  constructor
  · rintro (h | ⟨_, h⟩)
    · exact Or.inl h
    · exact Or.inr h
  · rintro (h | h)
    · exact Or.inl h
    · cases ha : c.allowAll
      · exact Or.inr ⟨rfl, h⟩
      · exact Or.inl (Or.inl ⟨ha, hp.range h.2⟩)

/-! ### `union` -/

theorem wf_union_raw {c o : ConnSet} (hc : c.WF) (ho : o.WF) (ha : c.allowAll = false) :
    (c.mapProtos fun pr cur =>
      match cur, o.get pr with
      | some ports, some op => some (ports.union op)
      | some ports, none => some ports
      | none, some op => some op.copy
      | none, none => none).WF := by
  apply wf_of_entries (by simpa using ha)
  intro pr ps hg
  rw [get_mapProtos] at hg
  split at hg
  · rename_i ports op h1 h2
    cases hg
    exact ⟨PortSet.wf_union (hc.entry h1) (ho.entry h2),
      PortSet.union_isEmpty_left _ (hc.entry h1) (hc.2 _ _ h1).2⟩
  · rename_i ports h1 h2
    cases hg
    exact hc.2 _ _ h1
  · rename_i op h1 h2
    cases hg
    exact ho.2 _ _ h2
  · cases hg

theorem wf_union {c o : ConnSet} (hc : c.WF) (ho : o.WF) : (c.union o).WF := by
  unfold union
  split
  · exact hc
  · rename_i h1
    split
    · exact wf_mk true
    · have ha : c.allowAll = false := by
        cases h : c.allowAll
        · rfl
        · simp [h] at h1
      exact wf_checkIfAll (wf_union_raw hc ho ha)

theorem canonical_union {c o : ConnSet} (hc : c.WF) (ho : o.WF)
    (h : o.isEmpty = true → c.isAllWithoutAllowAll = false) : (c.union o).Canonical := by
  unfold union
  split
  · rename_i h1
    refine ⟨hc, ?_⟩
    rw [Bool.or_eq_true] at h1
    rcases h1 with h1 | h1
    · simp [isAllWithoutAllowAll, h1]
    · exact h h1
  · rename_i h1
    split
    · exact canonical_mk true
    · have ha : c.allowAll = false := by
        cases h : c.allowAll
        · rfl
        · simp [h] at h1
      exact canonical_checkIfAll (wf_union_raw hc ho ha)

theorem den_union {c o : ConnSet} (hc : c.WF) (ho : o.WF) (pr : Proto) (p : Int) :
    (c.union o).den pr p ↔ c.den pr p ∨ o.den pr p := by
  unfold union
  split
  · rename_i h1
    rw [Bool.or_eq_true] at h1
    constructor
    · exact Or.inl
    · rintro (h | h)
      · exact h
      · rcases h1 with h1 | h1
        · exact Or.inl ⟨h1, ho.den_inRange h⟩
        · exact absurd h (not_den_of_isEmpty h1 pr p)
  · rename_i h1
    split
    · rename_i h2
      rw [den_mk_all]
      constructor
      · intro h; exact Or.inr (Or.inl ⟨h2, h⟩)
      · rintro (h | h)
        · exact hc.den_inRange h
        · exact ho.den_inRange h
    · rename_i h2
      have ha : c.allowAll = false := by
        cases h : c.allowAll
        · rfl
        · simp [h] at h1
      have hb : o.allowAll = false := by simpa using h2
      rw [den_checkIfAll, den_of_not_allowAll (by simpa using ha), den_of_not_allowAll ha,
        den_of_not_allowAll hb, get_mapProtos]
      cases h3 : c.get pr <;> cases h4 : o.get pr <;>
        simp [PortSet.copy, PortSet.union, mem_union]

/-! ### `inter` -/

theorem get_interAll (c o : ConnSet) (pr : Proto) :
    ({ allowAll := false, tcp := o.tcp <|> c.tcp, udp := o.udp <|> c.udp,
       sctp := o.sctp <|> c.sctp } : ConnSet).get pr = (o.get pr <|> c.get pr) := by
  cases pr <;> rfl

theorem den_ite_isEmpty (r : PortSet) (p : Int) :
    (∃ ps, (if r.isEmpty = true then none else some r) = some ps ∧ memL ps.ports p) ↔
      memL r.ports p := by
  split
  · rename_i h
    have := ((PortSet.isEmpty_eq_true_iff r).mp h).1
    simp [this, memL_nil]
  · simp

theorem wf_inter {c o : ConnSet} (hc : c.WF) (ho : o.WF) : (c.inter o).WF := by
  unfold inter
  split
  · exact hc
  · split
    · apply wf_of_entries rfl
      intro pr ps hg
      rw [get_interAll] at hg
      cases h : o.get pr with
      | none =>
        rw [h] at hg
        simp at hg
        exact hc.2 _ _ hg
      | some op =>
        rw [h] at hg
        simp at hg
        subst hg
        exact ho.2 _ _ h
    · rename_i h1 h2
      apply wf_of_entries (by simpa using h2)
      intro pr ps hg
      rw [get_mapProtos] at hg
      split at hg
      · cases hg
      · rename_i ports h3
        split at hg
        · cases hg
        · rename_i op h4
          simp only at hg
          split at hg
          · cases hg
          · rename_i h5
            cases hg
            exact ⟨PortSet.wf_inter _ (hc.entry h3), by simpa using h5⟩

theorem den_inter {c o : ConnSet} (hc : c.WF) (ho : o.WF) (pr : Proto) (p : Int) :
    (c.inter o).den pr p ↔ c.den pr p ∧ o.den pr p := by
  unfold inter
  split
  · rename_i h1
    rw [den_of_allowAll ho h1]
    exact ⟨fun h => ⟨h, hc.den_inRange h⟩, fun h => h.1⟩
  · rename_i h1
    have hb : o.allowAll = false := by simpa using h1
    split
    · rename_i h2
      have : (o.get pr <|> none) = o.get pr := by cases o.get pr <;> rfl
      rw [den_of_allowAll hc h2, den_of_not_allowAll rfl, get_interAll,
        (noProtos_iff c).mp (hc.1 h2) pr, this, ← den_of_not_allowAll hb]
      exact ⟨fun h => ⟨ho.den_inRange h, h⟩, fun h => h.2⟩
    · rename_i h2
      have ha : c.allowAll = false := by simpa using h2
      rw [den_of_not_allowAll (by simpa using ha), den_of_not_allowAll ha,
        den_of_not_allowAll hb, get_mapProtos]
      cases h3 : c.get pr with
      | none => simp
      | some ports =>
        cases h4 : o.get pr with
        | none => simp
        | some op =>
          simp only [den_ite_isEmpty]
          simp [PortSet.inter, mem_inter]

/-! ### `subtract` -/

/-- the receiver of `Subtract` after `addAllConns` -/
def expandAll (c : ConnSet) : ConnSet :=
  if c.allowAll then ({ c with allowAll := false } : ConnSet).addAllConns else c

/-- the per-protocol step of `Subtract` -/
def subEntry (o : ConnSet) (pr : Proto) (cur : Option PortSet) : Option PortSet :=
  match cur with
  | none => none
  | some ports =>
    match o.get pr with
    | none => some ports
    | some op => if ports.containedIn op then none else some (ports.subtract op)

theorem subtract_eq (c o : ConnSet) :
    c.subtract o =
      if o.isEmpty then c else if o.allowAll then mk' false
      else (expandAll c).mapProtos (subEntry o) := rfl

/-- the three full entries without the AllowAll flag -/
def fullEntries : ConnSet :=
  ⟨false, some (PortSet.mk' true), some (PortSet.mk' true), some (PortSet.mk' true)⟩

theorem expandAll_mk_all : expandAll (mk' true) = fullEntries := rfl

theorem expandAll_of_allowAll {c : ConnSet} (hc : c.WF) (h : c.allowAll = true) :
    expandAll c = fullEntries := by
  have e := eq_mk'_of_noProtos (hc.1 h)
  rw [h] at e
  rw [e, expandAll_mk_all]

theorem den_fullEntries (pr : Proto) (p : Int) : fullEntries.den pr p ↔ inRange p := by
  rw [den_of_not_allowAll rfl]
  cases pr <;> simp [fullEntries, get, PortSet.mk'_true, memL_full]

theorem wf_expandAll {c : ConnSet} (hc : c.WF) : (expandAll c).WF := by
  cases h : c.allowAll
  · simp [expandAll, h, hc]
  · rw [expandAll_of_allowAll hc h]
    decide

theorem allowAll_expandAll {c : ConnSet} (hc : c.WF) : (expandAll c).allowAll = false := by
  cases h : c.allowAll
  · simp [expandAll, h]
  · rw [expandAll_of_allowAll hc h]
    rfl

theorem den_expandAll {c : ConnSet} (hc : c.WF) (pr : Proto) (p : Int) :
    (expandAll c).den pr p ↔ c.den pr p := by
  cases h : c.allowAll
  · simp [expandAll, h]
  · rw [expandAll_of_allowAll hc h, den_fullEntries, den_of_allowAll hc h]

theorem wf_subtract {c o : ConnSet} (hc : c.WF) (ho : o.WF) : (c.subtract o).WF := by
  rw [subtract_eq]
  split
  · exact hc
  · split
    · exact wf_mk false
    · have h1 := wf_expandAll hc
      apply wf_of_entries (by simpa using allowAll_expandAll hc)
      intro pr ps hg
      rw [get_mapProtos] at hg
      unfold subEntry at hg
      split at hg
      · cases hg
      · rename_i ports h3
        split at hg
        · cases hg
          exact h1.2 _ _ h3
        · rename_i op h4
          split at hg
          · cases hg
          · rename_i h5
            cases hg
            have h5' : ports.containedIn op = false := by simpa using h5
            exact ⟨PortSet.wf_subtract _ (h1.entry h3),
              PortSet.subtract_isEmpty_of_not_containedIn (h1.entry h3) (ho.entry h4) h5'⟩

theorem den_subtract {c o : ConnSet} (hc : c.WF) (ho : o.WF) (pr : Proto) (p : Int) :
    (c.subtract o).den pr p ↔ c.den pr p ∧ ¬ o.den pr p := by
  rw [subtract_eq]
  split
  · rename_i h1
    exact ⟨fun h => ⟨h, not_den_of_isEmpty h1 pr p⟩, fun h => h.1⟩
  · split
    · rename_i h2
      rw [den_of_allowAll ho h2]
      constructor
      · intro h; exact absurd h (den_mk_none pr p)
      · rintro ⟨h3, h4⟩; exact absurd (hc.den_inRange h3) h4
    · rename_i h2
      have hb : o.allowAll = false := by simpa using h2
      have h1 := wf_expandAll hc
      have ha := allowAll_expandAll hc
      rw [← den_expandAll hc, den_of_not_allowAll (by simpa using ha), den_of_not_allowAll ha,
        den_of_not_allowAll hb, get_mapProtos]
      cases h3 : (expandAll c).get pr with
      | none => simp [subEntry]
      | some ports =>
        cases h4 : o.get pr with
        | none => simp [subEntry, h4]
        | some op =>
          simp only [subEntry, h4, Option.some.injEq, exists_eq_left']
          split
          · rename_i h5
            have hs := PortSet.containedIn_subset (h1.entry h3) (ho.entry h4) h5
            simp only [reduceCtorEq, false_and, exists_false, false_iff, not_and, Classical.not_not]
            exact hs p
          · simp only [Option.some.injEq, exists_eq_left']
            show memL (CSet.subtract _ _) p ↔ _
            rw [mem_subtract]

/-! ### `Canonical` is preserved by `inter` and `subtract` too -/

theorem canonical_inter {c o : ConnSet} (hc : c.Canonical) (ho : o.Canonical) :
    (c.inter o).Canonical := by
  refine ⟨wf_inter hc.1 ho.1, ?_⟩
  unfold inter
  split
  · exact hc.2
  · rename_i h1
    have hb : o.allowAll = false := by simpa using h1
    split
    · rename_i h2
      have : ({ allowAll := false, tcp := o.tcp <|> c.tcp, udp := o.udp <|> c.udp,
                sctp := o.sctp <|> c.sctp } : ConnSet) = o := by
        apply ext_get hb.symm
        intro pr
        rw [get_interAll, (noProtos_iff c).mp (hc.1.1 h2) pr]
        cases o.get pr <;> rfl
      rw [this]
      exact ho.2
    · rename_i h2
      have ha : c.allowAll = false := by simpa using h2
      rw [← Bool.not_eq_true]
      intro hi
      rw [isAllWithoutAllowAll_iff] at hi
      have : c.isAllWithoutAllowAll = true := by
        rw [isAllWithoutAllowAll_iff]
        refine ⟨ha, fun pr => ?_⟩
        obtain ⟨rs, h3, hr1, hr2⟩ := hi.2 pr
        rw [get_mapProtos] at h3
        split at h3
        · cases h3
        · rename_i ports h4
          split at h3
          · cases h3
          · rename_i op h5
            simp only at h3
            split at h3
            · cases h3
            · have e := Option.some.inj h3
              subst e
              have hw := hc.1.entry h4
              -- `inter` keeps the named / excluded ports of the receiver
              refine ⟨ports, h4, ?_, hr2⟩
              apply eq_full_of_mem hw.canon
              intro x
              constructor
              · exact hw.range
              · intro hx
                have := (memL_full x).mpr hx
                rw [← hr1] at this
                exact ((mem_inter _ _ x).mp this).1
      rw [hc.2] at this
      exact absurd this (by decide)

theorem canonical_subtract {c o : ConnSet} (hc : c.Canonical) (ho : o.WF) :
    (c.subtract o).Canonical := by
  refine ⟨wf_subtract hc.1 ho, ?_⟩
  rw [subtract_eq]
  split
  · exact hc.2
  · rename_i h1
    split
    · rfl
    · rename_i h2
      have hb : o.allowAll = false := by simpa using h2
      rw [← Bool.not_eq_true]
      intro hi
      rw [isAllWithoutAllowAll_iff] at hi
      -- `o` is not empty, so it has an entry
      have : ¬ (∀ pr, o.get pr = none) := by
        intro hno
        apply h1
        unfold isEmpty
        rw [Bool.and_eq_true, Bool.not_eq_true', noProtos_iff]
        exact ⟨hb, hno⟩
      apply this
      intro pr
      cases h4 : o.get pr with
      | none => rfl
      | some op =>
        exfalso
        obtain ⟨rs, h3, hr1, hr2⟩ := hi.2 pr
        rw [get_mapProtos] at h3
        unfold subEntry at h3
        split at h3
        · cases h3
        · rename_i ports h5
          rw [h4] at h3
          simp only at h3
          split at h3
          · cases h3
          · have e := Option.some.inj h3
            subst e
            have hw := ho.2 pr op h4
            -- a surviving entry lost a number or gained an excluded name
            rcases (PortSet.isEmpty_eq_false_iff op).mp hw.2 with h6 | h6
            · obtain ⟨x, hx⟩ := exists_memL_of_ne_nil hw.1.canon h6
              have := (memL_full x).mpr (hw.1.range hx)
              rw [← hr1] at this
              exact ((mem_subtract _ _ x).mp this).2 hx
            · exact foldl_sinsert_ne_nil _ _ (Or.inr h6) hr2

/-! ### `copy` -/

theorem wf_copy {c : ConnSet} (hc : c.WF) : c.copy.WF := hc

theorem den_copy (c : ConnSet) : c.copy.den = c.den := rfl

/-! ### predicates -/

theorem all_proto (f : Proto → Bool) : Proto.all.all f = true ↔ ∀ pr, f pr = true := by
  rw [forall_proto]
  simp [Proto.all]

theorem names_of_get {c : ConnSet} {pr : Proto} {ps : PortSet} (h : c.get pr = some ps) :
    c.names pr = ps.named := by
  simp [names, h]

theorem names_of_get_none {c : ConnSet} {pr : Proto} (h : c.get pr = none) : c.names pr = [] := by
  simp [names, h]

theorem contains_iff {c : ConnSet} (hc : c.WF) (pr : Proto) {p : Int} (hp : inRange p) :
    c.contains pr p = true ↔ c.den pr p := by
  unfold contains den
  rw [Bool.or_eq_true]
  cases h : c.get pr with
  | none => simp [hp]
  | some ps =>
    simp only [PortSet.contains, Option.some.injEq, exists_eq_left']
    rw [CSet.contains_iff _ _ (hc.entry h).canon]
    simp [hp]

/-- a well-formed entry without named ports has a numeric member -/
theorem exists_memL_of_entry {c : ConnSet} (hc : c.WF) {pr : Proto} {ps : PortSet}
    (hg : c.get pr = some ps) (hn : ps.named = []) : ∃ x, memL ps.ports x := by
  have := hc.2 pr ps hg
  rcases (PortSet.isEmpty_eq_false_iff ps).mp this.2 with h | h
  · exact exists_memL_of_ne_nil this.1.canon h
  · exact absurd hn h

theorem isEmpty_iff {c : ConnSet} (hc : c.WF) :
    c.isEmpty = true ↔ (∀ pr p, ¬ c.den pr p) ∧ ∀ pr, c.names pr = [] := by
  constructor
  · intro h
    refine ⟨not_den_of_isEmpty h, ?_⟩
    intro pr
    unfold isEmpty at h
    rw [Bool.and_eq_true] at h
    exact names_of_get_none ((noProtos_iff c).mp h.2 pr)
  · rintro ⟨h1, h2⟩
    unfold isEmpty
    rw [Bool.and_eq_true, Bool.not_eq_true', noProtos_iff]
    constructor
    · cases h : c.allowAll
      · rfl
      · exact absurd (Or.inl ⟨h, by decide⟩ : c.den .TCP 1) (h1 _ _)
    · intro pr
      cases h : c.get pr with
      | none => rfl
      | some ps =>
        have hn : ps.named = [] := by rw [← names_of_get h]; exact h2 pr
        obtain ⟨x, hx⟩ := exists_memL_of_entry hc h hn
        exact absurd (Or.inr ⟨ps, h, hx⟩ : c.den pr x) (h1 pr x)

/-- the per-protocol step of `ContainedIn` -/
def ciEntry (c o : ConnSet) (pr : Proto) : Bool :=
  match c.get pr with
  | none => true
  | some ports => match o.get pr with | none => false | some op => ports.containedIn op

theorem containedIn_eq (c o : ConnSet) :
    c.containedIn o =
      if o.allowAll then true else if c.allowAll then false else Proto.all.all (ciEntry c o) :=
  rfl

theorem ciEntry_iff (c o : ConnSet) (pr : Proto) :
    ciEntry c o pr = true ↔
      ∀ ports, c.get pr = some ports → ∃ op, o.get pr = some op ∧ ports.containedIn op = true := by
  unfold ciEntry
  cases c.get pr <;> cases o.get pr <;> simp

theorem containedIn_of_not_allowAll {c o : ConnSet} (ha : c.allowAll = false)
    (hb : o.allowAll = false) :
    c.containedIn o = true ↔
      ∀ pr ports, c.get pr = some ports →
        ∃ op, o.get pr = some op ∧ ports.containedIn op = true := by
  rw [containedIn_eq, ha, hb]
  simp only [Bool.false_eq_true, if_false]
  rw [all_proto]
  exact forall_congr' (fun pr => ciEntry_iff c o pr)

/-- `ContainedIn` implies inclusion of the numeric denotations -/
theorem containedIn_sound {c o : ConnSet} (hc : c.WF) (ho : o.WF) (h : c.containedIn o = true) :
    ∀ pr p, c.den pr p → o.den pr p := by
  intro pr p hd
  cases hb : o.allowAll
  · cases ha : c.allowAll
    · rw [containedIn_of_not_allowAll ha hb] at h
      rw [den_of_not_allowAll ha] at hd
      obtain ⟨ps, hg, hm⟩ := hd
      obtain ⟨op, hg', hci⟩ := h pr ps hg
      exact Or.inr ⟨op, hg', PortSet.containedIn_subset (hc.entry hg) (ho.entry hg') hci p hm⟩
    · rw [containedIn_eq, ha, hb] at h
      simp at h
  · exact Or.inl ⟨hb, hc.den_inRange hd⟩

/-- inclusion of the numeric denotations implies `ContainedIn` for a receiver without named
ports; when the receiver is the AllowAll form, the argument has to recognise its own fullness -/
theorem containedIn_complete {c o : ConnSet} (hc : c.WF) (ho : o.WF)
    (hn : ∀ pr, c.names pr = [])
    (hA : c.allowAll = true → (∀ pr p, inRange p → o.den pr p) → o.allowAll = true)
    (h : ∀ pr p, c.den pr p → o.den pr p) : c.containedIn o = true := by
  cases hb : o.allowAll
  · cases ha : c.allowAll
    · rw [containedIn_of_not_allowAll ha hb]
      intro pr ps hg
      have hnm : ps.named = [] := by rw [← names_of_get hg]; exact hn pr
      obtain ⟨x, hx⟩ := exists_memL_of_entry hc hg hnm
      have hd := h pr x (Or.inr ⟨ps, hg, hx⟩)
      rw [den_of_not_allowAll hb] at hd
      obtain ⟨op, hg', _⟩ := hd
      refine ⟨op, hg', ?_⟩
      rw [PortSet.containedIn_iff_of_no_names (hc.entry hg) (ho.entry hg') hnm]
      intro y hy
      have hd := h pr y (Or.inr ⟨ps, hg, hy⟩)
      rw [den_of_not_allowAll hb, hg'] at hd
      simpa using hd
    · have := hA ha (fun pr p hp => h pr p (Or.inl ⟨ha, hp⟩))
      rw [hb] at this
      exact absurd this (by decide)
  · rw [containedIn_eq, hb]
    rfl

/-- a set holding a named port is not contained in a set that lacks both that name and the full
port range -/
theorem containedIn_named {c o : ConnSet} (hc : c.WF) {pr : Proto} {n : String}
    (hn : n ∈ c.names pr) (hno : n ∉ o.names pr) (hb : o.allowAll = false)
    (hfull : ∀ ps, o.get pr = some ps → ps.ports ≠ [⟨1, 65535⟩]) : c.containedIn o = false := by
  cases hg : c.get pr with
  | none =>
    rw [names_of_get_none hg] at hn
    exact absurd hn (List.not_mem_nil)
  | some ps =>
    rw [names_of_get hg] at hn
    have ha : c.allowAll = false := by
      cases h : c.allowAll
      · rfl
      · have := (noProtos_iff c).mp (hc.1 h) pr
        rw [hg] at this
        cases this
    cases hci : c.containedIn o
    · rfl
    · exfalso
      rw [containedIn_of_not_allowAll ha hb] at hci
      obtain ⟨op, hg', h⟩ := hci pr ps hg
      unfold PortSet.containedIn at h
      rw [Bool.and_eq_true, Bool.or_eq_true] at h
      rcases h.2 with h2 | h2
      · simp only [CSet.equal, decide_eq_true_eq] at h2
        exact hfull op hg' h2
      · rw [List.all_eq_true] at h2
        have := h2 n hn
        rw [List.contains_iff_mem] at this
        rw [names_of_get hg'] at hno
        exact hno this

/-- the full set is recognised: a canonical set without excluded named ports is in the AllowAll
form exactly when it denotes the whole range (whatever named ports it holds) -/
theorem allowAll_iff_full' {c : ConnSet} (hcan : c.Canonical)
    (he : ∀ pr ps, c.get pr = some ps → ps.excluded = []) :
    c.allowAll = true ↔ ∀ pr p, inRange p → c.den pr p := by
  constructor
  · intro h pr p hp
    exact (den_of_allowAll hcan.1 h pr p).mpr hp
  · intro h
    cases ha : c.allowAll
    · exfalso
      have : c.isAllWithoutAllowAll = true := by
        rw [isAllWithoutAllowAll_iff]
        refine ⟨ha, ?_⟩
        intro pr
        have h1 := h pr 1 (by decide)
        rw [den_of_not_allowAll ha] at h1
        obtain ⟨ps, hg, _⟩ := h1
        refine ⟨ps, hg, ?_, he pr ps hg⟩
        apply eq_full_of_mem (hcan.1.entry hg).canon
        intro x
        constructor
        · exact (hcan.1.entry hg).range
        · intro hx
          have h2 := h pr x hx
          rw [den_of_not_allowAll ha, hg] at h2
          simpa using h2
      rw [hcan.2] at this
      exact absurd this (by decide)
    · rfl

/-- the earlier statement (the hypothesis on the named ports is no longer used) -/
theorem allowAll_iff_full {c : ConnSet} (hcan : c.Canonical) (_hn : ∀ pr, c.names pr = [])
    (he : ∀ pr ps, c.get pr = some ps → ps.excluded = []) :
    c.allowAll = true ↔ ∀ pr p, inRange p → c.den pr p := allowAll_iff_full' hcan he

/-- a canonical set without excluded named ports that denotes the whole range is `mk' true` -/
theorem eq_mk_all_of_full {c : ConnSet} (hcan : c.Canonical)
    (he : ∀ pr ps, c.get pr = some ps → ps.excluded = [])
    (h : ∀ pr p, inRange p → c.den pr p) : c = mk' true := by
  have ha : c.allowAll = true := (allowAll_iff_full' hcan he).mpr h
  have := eq_mk'_of_noProtos (hcan.1.1 ha)
  rw [ha] at this
  exact this

/-- `checkIfAll` on three entries with the full range and no excluded named port, whatever named
ports they hold -/
theorem checkIfAll_of_full_entries {c : ConnSet} (ha : c.allowAll = false)
    (h : ∀ pr, ∃ ps, c.get pr = some ps ∧ ps.ports = [⟨1, 65535⟩] ∧ ps.excluded = []) :
    c.checkIfAll = mk' true := by
  unfold checkIfAll
  rw [(isAllWithoutAllowAll_iff c).mpr ⟨ha, h⟩]
  rfl

/-- `Union` whose result covers the whole range and keeps no excluded named port is
All Connections, whatever named ports the operands hold (`h0` as in `canonical_union`) -/
theorem union_eq_all_of_full {c o : ConnSet} (hc : c.WF) (ho : o.WF)
    (h0 : o.isEmpty = true → c.isAllWithoutAllowAll = false)
    (he : ∀ pr ps, (c.union o).get pr = some ps → ps.excluded = [])
    (h : ∀ pr p, inRange p → c.den pr p ∨ o.den pr p) : c.union o = mk' true :=
  eq_mk_all_of_full (canonical_union hc ho h0) he
    (fun pr p hp => (den_union hc ho pr p).mpr (h pr p hp))

/-- the same for `AddConnection` -/
theorem addConnection_eq_all_of_full {c : ConnSet} {ps : PortSet} (pr : Proto) (hc : c.WF)
    (hp : ps.WF)
    (he : ∀ pr' qs, (c.addConnection pr ps).get pr' = some qs → qs.excluded = [])
    (h : ∀ pr' p, inRange p → c.den pr' p ∨ (pr' = pr ∧ memL ps.ports p)) :
    c.addConnection pr ps = mk' true :=
  eq_mk_all_of_full (canonical_addConnection pr hc hp) he
    (fun pr' p hp' => (den_addConnection c pr hp pr' p).mpr (h pr' p hp'))

theorem equal_iff_eq (c d : ConnSet) : c.equal d = true ↔ c = d := by
  constructor
  · intro h
    unfold equal at h
    split at h
    · cases h
    · rename_i h1
      have ha : c.allowAll = d.allowAll := by simpa using h1
      rw [all_proto] at h
      apply ext_get ha
      intro pr
      have := h pr
      cases h2 : c.get pr <;> cases h3 : d.get pr <;> simp_all [PortSet.equal_iff]
  · rintro rfl
    unfold equal
    simp only [bne_self_eq_false, Bool.false_eq_true, if_false]
    rw [all_proto]
    intro pr
    cases c.get pr <;> simp [PortSet.equal_iff]

/-- sets with the same numeric denotation (and no named / excluded ports) are the same value -/
theorem eq_of_den {c d : ConnSet} (hc : c.Canonical) (hd : d.Canonical)
    (hcn : ∀ pr, c.names pr = []) (hce : ∀ pr ps, c.get pr = some ps → ps.excluded = [])
    (hdn : ∀ pr, d.names pr = []) (hde : ∀ pr ps, d.get pr = some ps → ps.excluded = [])
    (h : ∀ pr p, c.den pr p ↔ d.den pr p) : c = d := by
  have hall : c.allowAll = d.allowAll := by
    rw [Bool.eq_iff_iff, allowAll_iff_full hc hcn hce, allowAll_iff_full hd hdn hde]
    constructor
    · intro h1 pr p hp; exact (h pr p).mp (h1 pr p hp)
    · intro h1 pr p hp; exact (h pr p).mpr (h1 pr p hp)
  cases ha : c.allowAll
  · have hb : d.allowAll = false := by rw [← hall, ha]
    apply ext_get hall
    intro pr
    cases h1 : c.get pr with
    | none =>
      cases h2 : d.get pr with
      | none => rfl
      | some qs =>
        have hnm : qs.named = [] := by rw [← names_of_get h2]; exact hdn pr
        obtain ⟨x, hx⟩ := exists_memL_of_entry hd.1 h2 hnm
        have := (h pr x).mpr (Or.inr ⟨qs, h2, hx⟩)
        rw [den_of_not_allowAll ha, h1] at this
        simp at this
    | some ps =>
      have hnm : ps.named = [] := by rw [← names_of_get h1]; exact hcn pr
      cases h2 : d.get pr with
      | none =>
        obtain ⟨x, hx⟩ := exists_memL_of_entry hc.1 h1 hnm
        have := (h pr x).mp (Or.inr ⟨ps, h1, hx⟩)
        rw [den_of_not_allowAll hb, h2] at this
        simp at this
      | some qs =>
        have hnm' : qs.named = [] := by rw [← names_of_get h2]; exact hdn pr
        have hex := hce pr ps h1
        have hex' := hde pr qs h2
        have hports : ps.ports = qs.ports := by
          apply eq_of_same_mem _ _ (hc.1.entry h1).canon (hd.1.entry h2).canon
          intro x
          have := h pr x
          rw [den_of_not_allowAll ha, den_of_not_allowAll hb, h1, h2] at this
          simpa using this
        cases ps; cases qs
        simp only at hnm hnm' hex hex' hports
        subst hnm hnm' hex hex' hports
        rfl
  · have hb : d.allowAll = true := by rw [← hall, ha]
    have e1 := eq_mk'_of_noProtos (hc.1.1 ha)
    have e2 := eq_mk'_of_noProtos (hd.1.1 hb)
    rw [e1, e2, ha, hb]

end ConnSet
end Netpol
