import Netpol.Sexp
import Netpol.Model.Interval
import Netpol.Model.PortSet
import Netpol.Model.ConnSet
import Netpol.Model.AlgDriver
