import Netpol
