import Netpol.Sexp
import Netpol.Model.AlgDriver
import Netpol.Model.WorldDriver
import Netpol.Spec.SpecDriver
import Netpol.Model.HistDriver
import Netpol.Model.Pipeline
import Netpol.Model.Format
open Netpol

def handle (line : String) : String :=
  match Sexp.parse line with
  | none => "bad-line"
  | some s =>
    match s.head? with
    | some "alg" => toString (AlgDriver.run s.args)
    | some "wcase" => toString (WorldDriver.run s.args)
    | some "hist" => toString (HistDriver.run s.args)
    | some "wpair" => toString (WorldDriver.runPair s.args)
    | some "wdiff" => toString (WorldDriver.runWDiff s.args)
    | some "mut" => -- C12: the model of the conversion sites has no panic outcome (Properties/C12)
        toString (Sexp.list [.atom "mut", (s.args.head?).getD (.atom "?"), .atom "nopanic"])
    | some "wfmt" => -- C18/C08/C09: the bytes of every output format (Model/Format.lean); the oracles run on the Go side
        toString (Format.runWFmt s.args)
    | some "baddoc" => toString (Pipeline.run s.args)
    | some "wspec" => toString (Spec.SpecDriver.run s.args)
    | _ => "bad-op"

partial def loop (hin hout : IO.FS.Stream) : IO Unit := do
  let line ← hin.getLine
  if line.isEmpty then return ()
  let l := line.trimAscii.toString
  if l != "" then
    hout.putStrLn (handle l)
  loop hin hout

def main : IO Unit := do
  let hin ← IO.getStdin
  let hout ← IO.getStdout
  loop hin hout
  hout.flush
