#!/bin/bash
# tools/seedtest.sh PID N [tier]  — verifies a seeded change (in its scratch worktree /tmp/seed-PID) and runs the checks against it.
# 1. demo passes on the clean tree  2. patch applies, builds, suite shows only the known failures
# 3. demo fails with the patch      4. ./check PID against the patched scratch tree (VERIF_REPO)   5. tree restored
set -u
PID=$1; N=$2; TIER=${3:-quick}; CHECKS=${4:-$PID}
W=${SEEDBASE:-/tmp/seed}-$PID; M=$W/out/m$N   # SEEDBASE=/tmp/seed3 for the third batch
export GOFLAGS=-mod=mod GOPROXY=off GOSUMDB=off GOTOOLCHAIN=local
cd $W || exit 2
git checkout -q -- . ; git clean -fdq -e out
git checkout -q --detach $(git -C /repo rev-parse HEAD)   # the seeded change is applied on top of /repo's current HEAD
DDIR=$(python3 -c "import json;print(json.load(open('$M/meta.json'))['demo_dir'])")
DCMD=$(python3 -c "import json;print(json.load(open('$M/meta.json'))['demo_cmd'])")
DEMO=$(ls $M/*_test.go 2>/dev/null | head -1)
res() { echo "SEED $PID/m$N: $1"; }
if [ -n "$DEMO" ]; then cp $DEMO $W/$DDIR/zz_seed_demo_test.go; fi
( cd $W && eval "$DCMD" ) > $M/demo_clean.log 2>&1 && res "demo passes on clean tree" || res "DEMO FAILS ON CLEAN TREE (see $M/demo_clean.log)"
git apply $M/patch.diff || { res "PATCH DOES NOT APPLY"; exit 1; }
go build ./... > $M/build.log 2>&1 && res "builds" || res "DOES NOT BUILD"
( cd $W && eval "$DCMD" ) > $M/demo_patched.log 2>&1 && res "DEMO PASSES WITH PATCH (not a demonstration)" || res "demo fails with the patch"
rm -f $W/$DDIR/zz_seed_demo_test.go
go test -vet=off -count=1 $(go list ./... | grep -v /out/) 2>&1 | grep -E "^\s+--- FAIL" | grep -v ipblockstest_4 > $M/suite_fail.log
if [ -s $M/suite_fail.log ]; then res "SUITE FAILS: $(head -3 $M/suite_fail.log | tr '\n' ' ')"; else res "suite passes (only the known ipblockstest_4 failures)"; fi
cd /verif
for C in $CHECKS; do
  VERIF_REPO=$W ./check $C --tier $TIER > $M/check_$C.log 2>&1; rc=$?
  res "check $C ($TIER) rc=$rc: $(grep -E '^VIOLATION|^KNOWN' $M/check_$C.log | head -3 | tr '\n' ' ') $(tail -1 $M/check_$C.log)"
done
cd $W && git checkout -q -- . && git clean -fdq -e out
